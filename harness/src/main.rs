// impl_driver: runs the real anweiss/cddl crate on one case per input line.
// Line protocol: <cmd>\t<arg>... ; one output line per input line.
// Text arguments are hex-encoded UTF-8 unless stated otherwise.
use std::io::{self, BufRead, Write};

mod c11;

pub fn unhex(s: &str) -> Vec<u8> {
  hex::decode(s).unwrap_or_default()
}
pub fn unhex_str(s: &str) -> String {
  String::from_utf8(unhex(s)).unwrap_or_default()
}

fn dispatch(parts: &[&str]) -> String {
  match parts[0] {
    "D" => c11::decode(parts),
    "DSWEEP" => c11::sweep(parts),
    _ => "?".to_string(),
  }
}

fn main() {
  std::panic::set_hook(Box::new(|_| {}));
  let stdin = io::stdin();
  let stdout = io::stdout();
  let mut out = io::BufWriter::new(stdout.lock());
  for line in stdin.lock().lines() {
    let line = line.unwrap();
    let parts: Vec<&str> = line.split('\t').collect();
    let r = std::panic::catch_unwind(|| dispatch(&parts));
    match r {
      Ok(s) => writeln!(out, "{}", s).unwrap(),
      Err(_) => writeln!(out, "PANIC").unwrap(),
    }
    // flush per case: an abort (allocation failure, stack overflow) must not lose earlier results
    out.flush().unwrap();
  }
  out.flush().unwrap();
}
