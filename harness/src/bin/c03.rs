// C03: the parser accepts exactly the RFC 8610/9682 grammar and mirrors it in the AST.
//
//   T\t<hex of text>   ->  "Err" | "Ok <pair tree>"     CddlParser::parse(Rule::cddl, text): every pair, preorder,
//                                                       as  name:start:end{children}  (byte offsets)
//   A\t<hex of text>   ->  "Err <class> <message>" | "Ok <shape>"
//                                                       cddl::cddl_from_str(text, false): canonical SHAPE dump of the AST
//   B\t<hex of text>   ->  both, separated by a tab
//   K\t<name>          ->  "Y" | "N"                    lookup_control_from_str(".name").is_some()
//
// SHAPE (must equal Grammar/Bridge.v: shape rendering, character for character):
//   doc    := rule*                              (concatenated)
//   rule   := "(T " name op gparams " " type ")" | "(G " name op gparams " " entry ")"
//   name   := ["$" | "$$"] ident          op := "=" | "/=" | "//="      gparams := "" | "<" ident {"," ident} ">"
//   type   := "(t" {" " type1} ")"
//   type1  := type2 | "(.. " type2 " " type2 ")" | "(... " ...")" | "(.ctl " type2 " " type2 ")"
//   type2  := "U" | "I" | "F" | "S" | "B8" | "B16" | "B64"        literal kinds
//           | "(n " name gargs ")" | "(p " type ")" | "(m " group ")" | "(a " group ")" | "(~ " name gargs ")"
//           | "(&g " group ")" | "(&n " name gargs ")" | "(#6 " tagc " " type ")" | "(# " digit " " tagc ")" | "#"
//   gargs  := "" | "<" type1 {"," type1} ">"      tagc := "-" | "L" | "Y"
//   group  := "(g" {" " gchoice} ")"              gchoice := "(c" {" " entry} ")"
//   entry  := "(e " occ " " key " " type ")" | "(r " occ " " name gargs ")" | "(i " occ " " group ")"
//   occ    := "-" | "?" | "*" | "+" | "{" [n] "*" [m] "}"
//   key    := "-" | "(k1 " ("^"|"_") " " type1 ")" | "(kb " name ")" | "(kv " ("U"|"I"|"F"|"S") ")"
use cddl::ast::*;
use cddl::pest_parser::{CddlParser, Rule as PRule};
use cddl::token::{lookup_control_from_str, TagConstraint, Value};
use pest::iterators::Pair;
use pest::Parser;

fn tree(p: Pair<PRule>, o: &mut String) {
  let sp = p.as_span();
  o.push_str(&format!("{:?}:{}:{}", p.as_rule(), sp.start(), sp.end()));
  let mut first = true;
  for c in p.into_inner() {
    o.push(if first { '{' } else { ' ' });
    first = false;
    tree(c, o);
  }
  if !first {
    o.push('}');
  }
}

fn pair_tree(text: &str) -> String {
  match CddlParser::parse(PRule::cddl, text) {
    Err(_) => "Err".to_string(),
    Ok(pairs) => {
      let mut o = String::from("Ok");
      for p in pairs {
        o.push(' ');
        tree(p, &mut o);
      }
      o
    }
  }
}

fn ident(i: &Identifier, o: &mut String) {
  match i.socket {
    Some(cddl::token::SocketPlug::TYPE) => o.push('$'),
    Some(cddl::token::SocketPlug::GROUP) => o.push_str("$$"),
    None => {}
  }
  o.push_str(i.ident);
}

fn gargs(g: &Option<GenericArgs>, o: &mut String) {
  if let Some(g) = g {
    o.push('<');
    for (i, a) in g.args.iter().enumerate() {
      if i > 0 {
        o.push(',');
      }
      ty1(&a.arg, o);
    }
    o.push('>');
  }
}

fn ty(t: &Type, o: &mut String) {
  o.push_str("(t");
  for tc in t.type_choices.iter() {
    o.push(' ');
    ty1(&tc.type1, o);
  }
  o.push(')');
}

fn ty1(t: &Type1, o: &mut String) {
  match &t.operator {
    None => ty2(&t.type2, o),
    Some(op) => {
      match &op.operator {
        RangeCtlOp::RangeOp { is_inclusive, .. } => o.push_str(if *is_inclusive { "(.. " } else { "(... " }),
        RangeCtlOp::CtlOp { ctrl, .. } => o.push_str(&format!("({} ", ctrl)),
      }
      ty2(&t.type2, o);
      o.push(' ');
      ty2(&op.type2, o);
      o.push(')');
    }
  }
}

fn tagc(c: &Option<TagConstraint>, o: &mut String) {
  match c {
    None => o.push('-'),
    Some(TagConstraint::Literal(_)) => o.push('L'),
    Some(TagConstraint::Type(_)) => o.push('Y'),
  }
}

fn ty2(t: &Type2, o: &mut String) {
  match t {
    Type2::IntValue { .. } => o.push('I'),
    Type2::UintValue { .. } => o.push('U'),
    Type2::FloatValue { .. } => o.push('F'),
    Type2::TextValue { .. } => o.push('S'),
    Type2::UTF8ByteString { .. } => o.push_str("B8"),
    Type2::B16ByteString { .. } => o.push_str("B16"),
    Type2::B64ByteString { .. } => o.push_str("B64"),
    Type2::Typename { ident: i, generic_args, .. } => {
      o.push_str("(n ");
      ident(i, o);
      gargs(generic_args, o);
      o.push(')');
    }
    Type2::ParenthesizedType { pt, .. } => {
      o.push_str("(p ");
      ty(pt, o);
      o.push(')');
    }
    Type2::Map { group: g, .. } => {
      o.push_str("(m ");
      group(g, o);
      o.push(')');
    }
    Type2::Array { group: g, .. } => {
      o.push_str("(a ");
      group(g, o);
      o.push(')');
    }
    Type2::Unwrap { ident: i, generic_args, .. } => {
      o.push_str("(~ ");
      ident(i, o);
      gargs(generic_args, o);
      o.push(')');
    }
    Type2::ChoiceFromInlineGroup { group: g, .. } => {
      o.push_str("(&g ");
      group(g, o);
      o.push(')');
    }
    Type2::ChoiceFromGroup { ident: i, generic_args, .. } => {
      o.push_str("(&n ");
      ident(i, o);
      gargs(generic_args, o);
      o.push(')');
    }
    Type2::TaggedData { tag, t, .. } => {
      o.push_str("(#6 ");
      tagc(tag, o);
      o.push(' ');
      ty(t, o);
      o.push(')');
    }
    Type2::DataMajorType { mt, constraint, .. } => {
      o.push_str(&format!("(# {} ", mt));
      tagc(constraint, o);
      o.push(')');
    }
    Type2::Any { .. } => o.push('#'),
  }
}

fn group(g: &Group, o: &mut String) {
  o.push_str("(g");
  for gc in g.group_choices.iter() {
    o.push_str(" (c");
    for (e, _) in gc.group_entries.iter() {
      o.push(' ');
      entry(e, o);
    }
    o.push(')');
  }
  o.push(')');
}

fn occ(oc: &Option<Occurrence>, o: &mut String) {
  match oc {
    None => o.push('-'),
    Some(x) => match &x.occur {
      Occur::Optional { .. } => o.push('?'),
      Occur::ZeroOrMore { .. } => o.push('*'),
      Occur::OneOrMore { .. } => o.push('+'),
      Occur::Exact { lower, upper, .. } => {
        o.push('{');
        if let Some(l) = lower {
          o.push_str(&l.to_string());
        }
        o.push('*');
        if let Some(u) = upper {
          o.push_str(&u.to_string());
        }
        o.push('}');
      }
    },
  }
}

fn key(k: &Option<MemberKey>, o: &mut String) {
  match k {
    None => o.push('-'),
    Some(MemberKey::Type1 { t1, is_cut, .. }) => {
      o.push_str(if *is_cut { "(k1 ^ " } else { "(k1 _ " });
      ty1(t1, o);
      o.push(')');
    }
    Some(MemberKey::Bareword { ident: i, .. }) => {
      o.push_str("(kb ");
      ident(i, o);
      o.push(')');
    }
    Some(MemberKey::Value { value, .. }) => {
      o.push_str("(kv ");
      o.push_str(match value {
        Value::UINT(_) => "U",
        Value::INT(_) => "I",
        Value::FLOAT(_) => "F",
        Value::TEXT(_) => "S",
        Value::BYTE(_) => "B",
      });
      o.push(')');
    }
    Some(_) => o.push_str("(k?)"),
  }
}

fn entry(e: &GroupEntry, o: &mut String) {
  match e {
    GroupEntry::ValueMemberKey { ge, .. } => {
      o.push_str("(e ");
      occ(&ge.occur, o);
      o.push(' ');
      key(&ge.member_key, o);
      o.push(' ');
      ty(&ge.entry_type, o);
      o.push(')');
    }
    GroupEntry::TypeGroupname { ge, .. } => {
      o.push_str("(r ");
      occ(&ge.occur, o);
      o.push(' ');
      ident(&ge.name, o);
      gargs(&ge.generic_args, o);
      o.push(')');
    }
    GroupEntry::InlineGroup { occur, group: g, .. } => {
      o.push_str("(i ");
      occ(occur, o);
      o.push(' ');
      group(g, o);
      o.push(')');
    }
  }
}

fn gparams(g: &Option<GenericParams>, o: &mut String) {
  if let Some(g) = g {
    o.push('<');
    for (i, p) in g.params.iter().enumerate() {
      if i > 0 {
        o.push(',');
      }
      ident(&p.param, o);
    }
    o.push('>');
  }
}

fn shape(c: &CDDL) -> String {
  let mut o = String::new();
  for r in c.rules.iter() {
    match r {
      Rule::Type { rule, .. } => {
        o.push_str("(T ");
        ident(&rule.name, &mut o);
        o.push_str(if rule.is_type_choice_alternate { "/=" } else { "=" });
        gparams(&rule.generic_params, &mut o);
        o.push(' ');
        ty(&rule.value, &mut o);
        o.push(')');
      }
      Rule::Group { rule, .. } => {
        o.push_str("(G ");
        ident(&rule.name, &mut o);
        o.push_str(if rule.is_group_choice_alternate { "//=" } else { "=" });
        gparams(&rule.generic_params, &mut o);
        o.push(' ');
        entry(&rule.entry, &mut o);
        o.push(')');
      }
    }
  }
  o
}

/// classify a rejection: "syntax" = the pest parser rejected the text; "semantic" = pest accepted and the bridge
/// (literal decoders, duplicate-rule check, ...) rejected.
fn ast(text: &str) -> String {
  match cddl::cddl_from_str(text, false) {
    Ok(c) => format!("Ok {}", shape(&c)),
    Err(msg) => {
      let class = if CddlParser::parse(PRule::cddl, text).is_ok() { "semantic" } else { "syntax" };
      let m: String = msg.chars().map(|c| if c == '\n' || c == '\t' || c == '\r' { ' ' } else { c }).take(160).collect();
      format!("Err {} {}", class, m)
    }
  }
}

fn dispatch(parts: &[&str]) -> String {
  match parts[0] {
    "T" => pair_tree(&impl_driver::unhex_str(parts.get(1).unwrap_or(&""))),
    "A" => ast(&impl_driver::unhex_str(parts.get(1).unwrap_or(&""))),
    "B" => {
      let t = impl_driver::unhex_str(parts.get(1).unwrap_or(&""));
      format!("{}\t{}", pair_tree(&t), ast(&t))
    }
    "K" => {
      if lookup_control_from_str(&format!(".{}", parts.get(1).unwrap_or(&""))).is_some() {
        "Y".to_string()
      } else {
        "N".to_string()
      }
    }
    _ => "?".to_string(),
  }
}

fn main() {
  impl_driver::serve(dispatch);
}
