// C13: CSV -> JSON mapping of the real crate and the validation tie.
//
//  P \t <hex csv text> \t <0|1|n>
//      parse_csv_to_json(text, header) rendered canonically:
//      OK [[s<hex utf8>,u<hex>,i-<hex>,f<16 hex bits>,...],...]   |  ERR csv
//      (header: 0 = Some(false), 1 = Some(true), n = None)
//  V \t <hex schema> \t <hex csv text> \t <0|1|n> \t <features: "-" for None, else comma separated>
//      csv=<verdict> json=<verdict> same_msg=<0|1>
//      csv  = validate_csv_from_str(schema, text, header, features)
//      json = validate_json_from_str(schema, to_string(parse_csv_to_json(text, header)), features)
//      verdict = OK | ERR:validation | ERR:cddl | ERR:csv | ERR:json
use cddl::validator::csv_validator::{self, parse_csv_to_json};
use serde_json::Value;

fn render(v: &Value, out: &mut String) {
  match v {
    Value::Null => out.push('N'),
    Value::Bool(true) => out.push('T'),
    Value::Bool(false) => out.push('B'),
    Value::Number(n) => {
      if let Some(u) = n.as_u64() {
        out.push_str(&format!("u{:x}", u));
      } else if let Some(i) = n.as_i64() {
        // negative here (as_u64 failed)
        out.push_str(&format!("i-{:x}", (i as i128).unsigned_abs()));
      } else if let Some(f) = n.as_f64() {
        out.push_str(&format!("f{:016x}", f.to_bits()));
      } else {
        out.push('?');
      }
    }
    Value::String(s) => {
      out.push('s');
      out.push_str(&hex::encode(s.as_bytes()));
    }
    Value::Array(a) => {
      out.push('[');
      for (i, x) in a.iter().enumerate() {
        if i > 0 {
          out.push(',');
        }
        render(x, out);
      }
      out.push(']');
    }
    Value::Object(m) => {
      out.push('{');
      for (i, (k, x)) in m.iter().enumerate() {
        if i > 0 {
          out.push(',');
        }
        out.push_str(&hex::encode(k.as_bytes()));
        out.push(':');
        render(x, out);
      }
      out.push('}');
    }
  }
}

fn header_of(s: &str) -> Option<bool> {
  match s {
    "0" => Some(false),
    "1" => Some(true),
    _ => None,
  }
}

fn text_of(hexs: &str) -> Option<String> {
  String::from_utf8(impl_driver::unhex(hexs)).ok()
}

fn parse(parts: &[&str]) -> String {
  let text = match text_of(parts[1]) {
    Some(t) => t,
    None => return "NOTUTF8".to_string(),
  };
  match parse_csv_to_json(&text, header_of(parts[2])) {
    Ok(v) => {
      let mut s = String::from("OK ");
      render(&v, &mut s);
      s
    }
    Err(_) => "ERR csv".to_string(),
  }
}

fn tie(parts: &[&str]) -> String {
  let schema = match text_of(parts[1]) {
    Some(t) => t,
    None => return "NOTUTF8".to_string(),
  };
  let text = match text_of(parts[2]) {
    Some(t) => t,
    None => return "NOTUTF8".to_string(),
  };
  let header = header_of(parts[3]);
  let feats: Vec<&str> = if parts[4] == "-" { vec![] } else { parts[4].split(',').collect() };
  let features: Option<&[&str]> = if parts[4] == "-" { None } else { Some(&feats[..]) };

  let (csv_v, csv_msg) = match cddl::validate_csv_from_str(&schema, &text, header, features) {
    Ok(()) => ("OK", String::new()),
    Err(e) => {
      let m = format!("{}", e);
      (
        match e {
          csv_validator::Error::CDDLParsing(_) => "ERR:cddl",
          csv_validator::Error::CSVParsing(_) => "ERR:csv",
          csv_validator::Error::JSONSerialization(_) => "ERR:json",
          csv_validator::Error::Validation(_) => "ERR:validation",
          csv_validator::Error::JSONValidation(je) => match je {
            cddl::validator::json::Error::Validation(_) => "ERR:validation",
            cddl::validator::json::Error::CDDLParsing(_) => "ERR:cddl",
            cddl::validator::json::Error::JSONParsing(_) => "ERR:json",
            #[allow(unreachable_patterns)]
            _ => "ERR:other",
          },
        },
        m,
      )
    }
  };
  let (json_v, json_msg) = match parse_csv_to_json(&text, header) {
    Err(_) => ("ERR:csv", String::new()),
    Ok(v) => {
      let jt = serde_json::to_string(&v).unwrap();
      match cddl::validate_json_from_str(&schema, &jt, features) {
        Ok(()) => ("OK", String::new()),
        Err(e) => {
          let m = format!("{}", e);
          (
            match e {
              cddl::validator::json::Error::Validation(_) => "ERR:validation",
              cddl::validator::json::Error::CDDLParsing(_) => "ERR:cddl",
              cddl::validator::json::Error::JSONParsing(_) => "ERR:json",
              #[allow(unreachable_patterns)]
              _ => "ERR:other",
            },
            m,
          )
        }
      }
    }
  };
  format!(
    "csv={} json={} same_msg={}",
    csv_v,
    json_v,
    if csv_msg == json_msg { 1 } else { 0 }
  )
}

// J \t <hex csv text> \t <0|1|n> : the JSON text of the mapped document (for replays / samples)
fn jsontext(parts: &[&str]) -> String {
  let text = match text_of(parts[1]) {
    Some(t) => t,
    None => return "NOTUTF8".to_string(),
  };
  match parse_csv_to_json(&text, header_of(parts[2])) {
    Ok(v) => hex::encode(serde_json::to_string(&v).unwrap()),
    Err(_) => "ERR csv".to_string(),
  }
}

fn dispatch(parts: &[&str]) -> String {
  match parts[0] {
    "P" if parts.len() >= 3 => parse(parts),
    "V" if parts.len() >= 5 => tie(parts),
    "J" if parts.len() >= 3 => jsontext(parts),
    _ => "?".to_string(),
  }
}

fn main() {
  impl_driver::serve(dispatch);
}
