// C12: duplicate-definition and undefined-reference checks.
// P\t<hex of the CDDL text>  ->  "<plain>\t<checked>"
//   plain   = verdict of cddl::cddl_from_str(text, false)          (parse + duplicate check)
//   checked = verdict of cddl::ast::CDDL::from_slice(text bytes)   (+ undefined-reference check)
// verdict = OK <number of rules>
//         | DUP <name> <line> <byte offset>          message `rule "<name>" is already defined`
//         | UNDEF <name> <line> <byte offset>        message `missing definition for rule <name>`
//         | SYNTAX <message>                         anything else
use cddl::ast::CDDL;

fn field(msg: &str, key: &str) -> String {
  // first "<key>: <digits>" after "position Position {"
  if let Some(i) = msg.find(key) {
    let rest = &msg[i + key.len()..];
    let digits: String = rest.chars().take_while(|c| c.is_ascii_digit()).collect();
    if !digits.is_empty() {
      return digits;
    }
  }
  "?".to_string()
}

fn verdict(r: Result<CDDL<'_>, String>) -> String {
  match r {
    Ok(c) => format!("OK {}", c.rules.len()),
    Err(m) => {
      let line = field(&m, "line: ");
      let index = field(&m, "index: ");
      if let Some(i) = m.find("msg: rule \"") {
        let rest = &m[i + 11..];
        if let Some(j) = rest.rfind("\" is already defined") {
          if j + 20 == rest.len() {
            return format!("DUP {} {} {}", &rest[..j], line, index);
          }
        }
      }
      if let Some(i) = m.find("msg: missing definition for rule ") {
        let rest = &m[i + 33..];
        return format!("UNDEF {} {} {}", rest, line, index);
      }
      format!("SYNTAX {}", m.replace('\n', " ").replace('\t', " "))
    }
  }
}

fn dispatch(parts: &[&str]) -> String {
  match parts[0] {
    "P" => {
      let bytes = impl_driver::unhex(parts[1]);
      let text = String::from_utf8_lossy(&bytes).into_owned();
      let plain = verdict(cddl::cddl_from_str(&text, false));
      let checked = verdict(CDDL::from_slice(&bytes));
      format!("{}\t{}", plain, checked)
    }
    _ => "?".to_string(),
  }
}

fn main() {
  impl_driver::serve(dispatch);
}
