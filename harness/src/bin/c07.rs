// C07: parse a CDDL document with cddl::cddl_from_str and print a canonical rendering of the AST in which every
// literal is shown by the value that was STORED (integers in hexadecimal, floats as binary64 bit patterns, text and
// byte strings as hex), together with the syntactic position it sits in (type, range bound, controller, member
// key, occurrence bound, tag / major-type number).
//
//   P\t<hex of document text>   ->  "ERR"  |  "OK <rendering>"
//   G\t<hex of text>            ->  token-grammar probe through the real pest parser (Rule given in parts[2]):
//                                   "Y" when the rule matches the WHOLE text, "N" otherwise
use cddl::ast::*;
use cddl::pest_parser::{CddlParser, Rule as PRule};
use cddl::token::{ByteValue, TagConstraint, Value};
use pest::Parser;

fn lit_value(v: &Value, o: &mut String) {
  match v {
    Value::UINT(u) => o.push_str(&format!("U{:x}", u)),
    Value::INT(i) => int(*i, o),
    Value::FLOAT(f) => o.push_str(&format!("F{:016x}", f.to_bits())),
    Value::TEXT(t) => o.push_str(&format!("T{}", hex::encode(t.as_bytes()))),
    Value::BYTE(ByteValue::UTF8(b)) => o.push_str(&format!("BU{}", hex::encode(b.as_ref()))),
    Value::BYTE(ByteValue::B16(b)) => o.push_str(&format!("BH{}", hex::encode(b.as_ref()))),
    Value::BYTE(ByteValue::B64(b)) => o.push_str(&format!("BB{}", hex::encode(b.as_ref()))),
  }
}

// signed integers: sign and magnitude in hex (through i128 so that isize::MIN has a magnitude)
fn int(i: isize, o: &mut String) {
  let n = i as i128;
  if n < 0 {
    o.push_str(&format!("I-{:x}", -n));
  } else {
    o.push_str(&format!("I{:x}", n));
  }
}

fn tagc(c: &Option<TagConstraint>, o: &mut String) {
  match c {
    None => o.push('-'),
    Some(TagConstraint::Literal(n)) => o.push_str(&format!("L{:x}", n)),
    Some(TagConstraint::Type(s)) => o.push_str(&format!("Y{}", hex::encode(s.as_bytes()))),
  }
}

fn ty(t: &Type, o: &mut String) {
  for (i, tc) in t.type_choices.iter().enumerate() {
    if i > 0 {
      o.push('/');
    }
    ty1(&tc.type1, o);
  }
}

fn ty1(t: &Type1, o: &mut String) {
  match &t.operator {
    None => ty2(&t.type2, o),
    Some(op) => {
      o.push('<');
      ty2(&t.type2, o);
      match &op.operator {
        RangeCtlOp::RangeOp { is_inclusive, .. } => o.push_str(if *is_inclusive { " .. " } else { " ... " }),
        RangeCtlOp::CtlOp { ctrl, .. } => o.push_str(&format!(" {} ", ctrl)),
      }
      ty2(&op.type2, o);
      o.push('>');
    }
  }
}

fn ty2(t: &Type2, o: &mut String) {
  match t {
    Type2::IntValue { value, .. } => int(*value, o),
    Type2::UintValue { value, .. } => o.push_str(&format!("U{:x}", value)),
    Type2::FloatValue { value, .. } => o.push_str(&format!("F{:016x}", value.to_bits())),
    Type2::TextValue { value, .. } => o.push_str(&format!("T{}", hex::encode(value.as_bytes()))),
    Type2::UTF8ByteString { value, .. } => o.push_str(&format!("BU{}", hex::encode(value.as_ref()))),
    Type2::B16ByteString { value, .. } => o.push_str(&format!("BH{}", hex::encode(value.as_ref()))),
    Type2::B64ByteString { value, .. } => o.push_str(&format!("BB{}", hex::encode(value.as_ref()))),
    Type2::Typename { ident, generic_args, .. } => {
      o.push_str(&format!("n:{}", ident.ident));
      if let Some(ga) = generic_args {
        o.push_str("<|");
        for (i, a) in ga.args.iter().enumerate() {
          if i > 0 {
            o.push(',');
          }
          ty1(&a.arg, o);
        }
        o.push_str("|>");
      }
    }
    Type2::ParenthesizedType { pt, .. } => {
      o.push('(');
      ty(pt, o);
      o.push(')');
    }
    Type2::Map { group, .. } => {
      o.push('{');
      grp(group, o);
      o.push('}');
    }
    Type2::Array { group, .. } => {
      o.push('[');
      grp(group, o);
      o.push(']');
    }
    Type2::Unwrap { ident, .. } => o.push_str(&format!("~{}", ident.ident)),
    Type2::ChoiceFromInlineGroup { group, .. } => {
      o.push_str("&(");
      grp(group, o);
      o.push(')');
    }
    Type2::ChoiceFromGroup { ident, .. } => o.push_str(&format!("&{}", ident.ident)),
    Type2::TaggedData { tag, t, .. } => {
      o.push_str("#6.");
      tagc(tag, o);
      o.push('(');
      ty(t, o);
      o.push(')');
    }
    Type2::DataMajorType { mt, constraint, .. } => {
      o.push_str(&format!("#{}.", mt));
      tagc(constraint, o);
    }
    Type2::Any { .. } => o.push('#'),
  }
}

fn occ(oc: &Option<Occurrence>, o: &mut String) {
  if let Some(oc) = oc {
    match &oc.occur {
      Occur::Exact { lower, upper, .. } => {
        o.push_str("occ(");
        match lower {
          Some(l) => o.push_str(&format!("{:x}", l)),
          None => o.push('-'),
        }
        o.push(',');
        match upper {
          Some(u) => o.push_str(&format!("{:x}", u)),
          None => o.push('-'),
        }
        o.push_str(") ");
      }
      Occur::ZeroOrMore { .. } => o.push_str("occ* "),
      Occur::OneOrMore { .. } => o.push_str("occ+ "),
      Occur::Optional { .. } => o.push_str("occ? "),
    }
  }
}

fn entry(e: &GroupEntry, o: &mut String) {
  match e {
    GroupEntry::ValueMemberKey { ge, .. } => {
      occ(&ge.occur, o);
      match &ge.member_key {
        None => {}
        Some(MemberKey::Type1 { t1, is_cut, .. }) => {
          o.push_str("k1:");
          ty1(t1, o);
          o.push_str(if *is_cut { " ^=> " } else { " => " });
        }
        Some(MemberKey::Bareword { ident, .. }) => o.push_str(&format!("kb:{} : ", ident.ident)),
        Some(MemberKey::Value { value, .. }) => {
          o.push_str("kv:");
          lit_value(value, o);
          o.push_str(" : ");
        }
        Some(MemberKey::NonMemberKey { .. }) => o.push_str("knm "),
      }
      ty(&ge.entry_type, o);
    }
    GroupEntry::TypeGroupname { ge, .. } => {
      occ(&ge.occur, o);
      o.push_str(&format!("n:{}", ge.name.ident));
    }
    GroupEntry::InlineGroup { occur, group, .. } => {
      occ(occur, o);
      o.push('(');
      grp(group, o);
      o.push(')');
    }
  }
}

fn grp(g: &Group, o: &mut String) {
  for (i, gc) in g.group_choices.iter().enumerate() {
    if i > 0 {
      o.push_str(" // ");
    }
    for (j, (e, _)) in gc.group_entries.iter().enumerate() {
      if j > 0 {
        o.push_str(", ");
      }
      entry(e, o);
    }
  }
}

fn render(c: &CDDL) -> String {
  let mut o = String::new();
  for (i, r) in c.rules.iter().enumerate() {
    if i > 0 {
      o.push_str(" ; ");
    }
    match r {
      Rule::Type { rule, .. } => {
        o.push_str(&format!("{} = ", rule.name.ident));
        ty(&rule.value, &mut o);
      }
      Rule::Group { rule, .. } => {
        o.push_str(&format!("{} =g ", rule.name.ident));
        entry(&rule.entry, &mut o);
      }
    }
  }
  o
}

fn parse(parts: &[&str]) -> String {
  let bytes = impl_driver::unhex(parts[1]);
  let text = match String::from_utf8(bytes) {
    Ok(t) => t,
    Err(_) => return "ERR notutf8".to_string(),
  };
  match cddl::cddl_from_str(&text, false) {
    Ok(c) => format!("OK {}", render(&c)),
    Err(_) => "ERR".to_string(),
  }
}

fn rule_of(name: &str) -> Option<PRule> {
  Some(match name {
    "uint_value" => PRule::uint_value,
    "int_value" => PRule::int_value,
    "float_value" => PRule::float_value,
    "hexfloat" => PRule::hexfloat,
    "text_value" => PRule::text_value,
    "bytes_b64" => PRule::bytes_b64,
    "bytes_b16" => PRule::bytes_b16,
    "bytes_utf8" => PRule::bytes_utf8,
    "occur" => PRule::occur,
    "tag_expr" => PRule::tag_expr,
    "number" => PRule::number,
    "value" => PRule::value,
    _ => return None,
  })
}

// does the token rule match the whole text (and nothing less)?
fn grammar(parts: &[&str]) -> String {
  let bytes = impl_driver::unhex(parts[1]);
  let text = match String::from_utf8(bytes) {
    Ok(t) => t,
    Err(_) => return "N".to_string(),
  };
  let prule = match rule_of(parts[2]) {
    Some(r) => r,
    None => return "?".to_string(),
  };
  match CddlParser::parse(prule, &text) {
    Ok(mut pairs) => match pairs.next() {
      Some(p) if p.as_span().start() == 0 && p.as_span().end() == text.len() => {
        // for `number` / `value` report which alternative was taken
        let mut s = String::from("Y");
        let mut q = p;
        loop {
          let r = q.as_rule();
          let mut inner = q.clone().into_inner();
          match inner.next() {
            Some(c) if matches!(r, PRule::number | PRule::value | PRule::bytes_value | PRule::occur) => {
              s = format!("Y {:?}", c.as_rule());
              q = c;
            }
            _ => break,
          }
        }
        s
      }
      _ => "N".to_string(),
    },
    Err(_) => "N".to_string(),
  }
}

fn dispatch(parts: &[&str]) -> String {
  match parts[0] {
    "P" => parse(parts),
    "G" => grammar(parts),
    _ => "?".to_string(),
  }
}

fn main() {
  impl_driver::serve(dispatch);
}
