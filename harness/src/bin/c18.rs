// C18: the library verdicts the `cddl` command-line tool is supposed to report.
//
//   V <schema hex> <document hex> <features | ->
//       -> nine characters  J(F) J(None) C(F) C(None) S(hdr,F) S(nohdr,F) S(hdr,None) S(nohdr,None) utf8
//          J = validate_json_from_str, C = validate_cbor_from_slice, S = validate_csv_from_str,
//          F = Some(&features) when a list is given ("-" means no --features option, i.e. None),
//          hdr = Some(true), nohdr = None (exactly the two values cli.rs can pass);
//          each verdict is 1 (Ok), 0 (Err) or - (the document is not UTF-8, so no &str call exists);
//          utf8 = 1 when std::str::from_utf8 accepts the document bytes.
//   S <schema hex>
//       -> "1 <kinds> <names>" when cddl_from_str(text, false) accepts: one kind character per rule of the
//          AST in document order (t = type rule without generic parameters, g = generic type rule,
//          G = group rule; "-" for no rule) and the comma separated rule names;
//          "0 - -" when the parser rejects; "- - -" when the bytes are not UTF-8 (fs::read_to_string fails).
//          Deliberately NOT root_type_name_from_cddl_str: that function is part of the tool under check
//          (only cli.rs uses it); which rule is the root is decided by the Coq model from the kinds, the way
//          the validators choose it (first type rule without generic parameters, validator/json.rs validate()).
use cddl::ast::Rule;
use cddl::{cddl_from_str, validate_cbor_from_slice, validate_csv_from_str, validate_json_from_str};

fn bit(b: bool) -> char {
  if b {
    '1'
  } else {
    '0'
  }
}

fn verdicts(parts: &[&str]) -> String {
  let schema_bytes = impl_driver::unhex(parts[1]);
  let doc = impl_driver::unhex(parts[2]);
  let schema = match std::str::from_utf8(&schema_bytes) {
    Ok(s) => s,
    Err(_) => return "---------".to_string(),
  };
  let owned: Vec<String> = if parts[3] == "-" {
    vec![]
  } else {
    parts[3].split(',').map(|s| s.to_string()).collect()
  };
  let refs: Vec<&str> = owned.iter().map(|s| s.as_str()).collect();
  let feats: Option<&[&str]> = if parts[3] == "-" { None } else { Some(&refs[..]) };
  let text = std::str::from_utf8(&doc).ok();
  let mut out = String::new();
  match text {
    Some(t) => {
      out.push(bit(validate_json_from_str(schema, t, feats).is_ok()));
      out.push(bit(validate_json_from_str(schema, t, None).is_ok()));
    }
    None => out.push_str("--"),
  }
  out.push(bit(validate_cbor_from_slice(schema, &doc, feats).is_ok()));
  out.push(bit(validate_cbor_from_slice(schema, &doc, None).is_ok()));
  match text {
    Some(t) => {
      out.push(bit(validate_csv_from_str(schema, t, Some(true), feats).is_ok()));
      out.push(bit(validate_csv_from_str(schema, t, None, feats).is_ok()));
      out.push(bit(validate_csv_from_str(schema, t, Some(true), None).is_ok()));
      out.push(bit(validate_csv_from_str(schema, t, None, None).is_ok()));
    }
    None => out.push_str("----"),
  }
  out.push(bit(text.is_some()));
  out
}

fn schema_status(parts: &[&str]) -> String {
  let schema_bytes = impl_driver::unhex(parts[1]);
  let s = match std::str::from_utf8(&schema_bytes) {
    Ok(s) => s,
    Err(_) => return "- - -".to_string(),
  };
  match cddl_from_str(s, false) {
    Err(_) => "0 - -".to_string(),
    Ok(c) => {
      let mut kinds = String::new();
      let mut names: Vec<String> = vec![];
      for r in c.rules.iter() {
        match r {
          Rule::Type { rule, .. } => {
            kinds.push(if rule.generic_params.is_none() { 't' } else { 'g' });
            names.push(rule.name.ident.to_string());
          }
          Rule::Group { rule, .. } => {
            kinds.push('G');
            names.push(rule.name.ident.to_string());
          }
        }
      }
      if kinds.is_empty() {
        kinds.push('-');
      }
      format!("1 {} {}", kinds, if names.is_empty() { "-".to_string() } else { names.join(",") })
    }
  }
}

fn dispatch(parts: &[&str]) -> String {
  match parts[0] {
    "V" if parts.len() >= 4 => verdicts(parts),
    "S" if parts.len() >= 2 => schema_status(parts),
    _ => "?".to_string(),
  }
}

fn main() {
  impl_driver::serve(dispatch);
}
