// C18: the library verdicts the `cddl` command-line tool is supposed to report.
//
//   V <schema hex> <document hex> <features | ->
//       -> nine characters  J(F) J(None) C(F) C(None) S(hdr,F) S(nohdr,F) S(hdr,None) S(nohdr,None) utf8
//          J = validate_json_from_str, C = validate_cbor_from_slice, S = validate_csv_from_str,
//          F = Some(&features) when a list is given ("-" means no --features option, i.e. None),
//          hdr = Some(true), nohdr = None (exactly the two values cli.rs can pass);
//          each verdict is 1 (Ok), 0 (Err) or - (the document is not UTF-8, so no &str call exists);
//          utf8 = 1 when std::str::from_utf8 accepts the document bytes.
//   S <schema hex>
//       -> two characters: cddl_from_str(text, false).is_ok(), root_type_name_from_cddl_str(text).is_ok()
//          ("--" when the schema bytes are not UTF-8: fs::read_to_string would fail).
use cddl::parser::root_type_name_from_cddl_str;
use cddl::{cddl_from_str, validate_cbor_from_slice, validate_csv_from_str, validate_json_from_str};

fn bit(b: bool) -> char {
  if b {
    '1'
  } else {
    '0'
  }
}

fn verdicts(parts: &[&str]) -> String {
  let schema_bytes = impl_driver::unhex(parts[1]);
  let doc = impl_driver::unhex(parts[2]);
  let schema = match std::str::from_utf8(&schema_bytes) {
    Ok(s) => s,
    Err(_) => return "---------".to_string(),
  };
  let owned: Vec<String> = if parts[3] == "-" {
    vec![]
  } else {
    parts[3].split(',').map(|s| s.to_string()).collect()
  };
  let refs: Vec<&str> = owned.iter().map(|s| s.as_str()).collect();
  let feats: Option<&[&str]> = if parts[3] == "-" { None } else { Some(&refs[..]) };
  let text = std::str::from_utf8(&doc).ok();
  let mut out = String::new();
  match text {
    Some(t) => {
      out.push(bit(validate_json_from_str(schema, t, feats).is_ok()));
      out.push(bit(validate_json_from_str(schema, t, None).is_ok()));
    }
    None => out.push_str("--"),
  }
  out.push(bit(validate_cbor_from_slice(schema, &doc, feats).is_ok()));
  out.push(bit(validate_cbor_from_slice(schema, &doc, None).is_ok()));
  match text {
    Some(t) => {
      out.push(bit(validate_csv_from_str(schema, t, Some(true), feats).is_ok()));
      out.push(bit(validate_csv_from_str(schema, t, None, feats).is_ok()));
      out.push(bit(validate_csv_from_str(schema, t, Some(true), None).is_ok()));
      out.push(bit(validate_csv_from_str(schema, t, None, None).is_ok()));
    }
    None => out.push_str("----"),
  }
  out.push(bit(text.is_some()));
  out
}

fn schema_status(parts: &[&str]) -> String {
  let schema_bytes = impl_driver::unhex(parts[1]);
  match std::str::from_utf8(&schema_bytes) {
    Ok(s) => format!("{}{}", bit(cddl_from_str(s, false).is_ok()), bit(root_type_name_from_cddl_str(s).is_ok())),
    Err(_) => "--".to_string(),
  }
}

fn dispatch(parts: &[&str]) -> String {
  match parts[0] {
    "V" if parts.len() >= 4 => verdicts(parts),
    "S" if parts.len() >= 2 => schema_status(parts),
    _ => "?".to_string(),
  }
}

fn main() {
  impl_driver::serve(dispatch);
}
