// C06 / C16 driver: formatting round trips and comment attachment on the real crate.
//
//   P\t<hex text>      -> "OK <hex of to_string()>" | "ERR"
//   S\t<hex text>      -> "OK <shape json>" | "ERR"        span-erased, comment-erased canonical shape
//   C\t<hex text>      -> "OK {"comments":[[slot,hex text]..],"shape":..}" | "ERR"
//   R\t<hex text>      -> one-line json with the whole round trip:
//                         {"ok0":bool,"s0":shape,"c0":[[slot,hex]..],"p1":hex,"ok1":bool,"s1":shape,"c1":[..],"p2":hex,"k1":[hex..]}
//                         (k1 = COMMENT pairs the real pest parser finds in the printed text p1)
//   K\t<hex text>      -> "OK [hex,..]"  texts of the COMMENT pairs of the real parser (without ';') | "ERR"
//   M\t<hex text>      -> inputs and result of the comment merge: {"toks":[[lo,hi,line,pure,hex]..],"anchors":[[kind,lo,hi,line_hi]..],
//                         "containers":[[lo,hi]..],"assigned":[[hex..]..]}  (anchors/containers recomputed here from the public AST spans
//                         in the traversal order of pest_bridge::visit_anchor_slots; assigned read from the AST fields)
//   L\t<kind>\t<args>  -> Display of one AST literal/marker node built directly from a value (ties Fmt/Render.v to the code)
use cddl::ast::*;
use cddl::pest_parser::{CddlParser, Rule as PRule};
use cddl::token::{lookup_control_from_str, ByteValue, SocketPlug, TagConstraint, Value};
use pest::Parser;
use serde_json::{json, Value as J};
use std::borrow::Cow;

fn hx(s: &str) -> String {
  hex::encode(s.as_bytes())
}

// ---------------------------------------------------------------------------------------------
// shape
// ---------------------------------------------------------------------------------------------

fn sock(s: &Option<SocketPlug>) -> u8 {
  match s {
    None => 0,
    Some(SocketPlug::TYPE) => 1,
    Some(SocketPlug::GROUP) => 2,
  }
}

fn s_ident(i: &Identifier) -> J {
  json!([sock(&i.socket), i.ident])
}

fn s_gargs(g: &Option<GenericArgs>) -> J {
  match g {
    None => J::Null,
    Some(ga) => J::Array(ga.args.iter().map(|a| s_type1(&a.arg)).collect()),
  }
}

fn s_tagc(c: &Option<TagConstraint>) -> J {
  match c {
    None => J::Null,
    Some(TagConstraint::Literal(n)) => json!(["lit", n.to_string()]),
    Some(TagConstraint::Type(t)) => json!(["ty", hx(t)]),
  }
}

fn s_value(v: &Value) -> J {
  match v {
    Value::INT(i) => json!(["int", i.to_string()]),
    Value::UINT(u) => json!(["uint", u.to_string()]),
    Value::FLOAT(f) => json!(["float", format!("{:016x}", f.to_bits())]),
    Value::TEXT(t) => json!(["text", hx(t)]),
    Value::BYTE(ByteValue::UTF8(b)) => json!(["bytes", "u", hex::encode(b.as_ref())]),
    Value::BYTE(ByteValue::B16(b)) => json!(["bytes", "h", hex::encode(b.as_ref())]),
    Value::BYTE(ByteValue::B64(b)) => json!(["bytes", "b", hex::encode(b.as_ref())]),
  }
}

fn s_type(t: &Type) -> J {
  J::Array(t.type_choices.iter().map(|tc| s_type1(&tc.type1)).collect())
}

fn s_type1(t: &Type1) -> J {
  match &t.operator {
    None => json!({"t2": s_type2(&t.type2)}),
    Some(op) => {
      let o = match &op.operator {
        RangeCtlOp::RangeOp { is_inclusive, .. } => json!(["r", is_inclusive]),
        RangeCtlOp::CtlOp { ctrl, .. } => json!(["c", ctrl.to_string()]),
      };
      json!({"t2": s_type2(&t.type2), "op": o, "c2": s_type2(&op.type2)})
    }
  }
}

fn s_type2(t: &Type2) -> J {
  match t {
    Type2::IntValue { value, .. } => json!(["int", value.to_string()]),
    Type2::UintValue { value, .. } => json!(["uint", value.to_string()]),
    Type2::FloatValue { value, .. } => json!(["float", format!("{:016x}", value.to_bits())]),
    Type2::TextValue { value, .. } => json!(["text", hx(value)]),
    Type2::UTF8ByteString { value, .. } => json!(["bytes", "u", hex::encode(value.as_ref())]),
    Type2::B16ByteString { value, .. } => json!(["bytes", "h", hex::encode(value.as_ref())]),
    Type2::B64ByteString { value, .. } => json!(["bytes", "b", hex::encode(value.as_ref())]),
    Type2::Typename { ident, generic_args, .. } => json!(["name", s_ident(ident), s_gargs(generic_args)]),
    Type2::ParenthesizedType { pt, .. } => json!(["paren", s_type(pt)]),
    Type2::Map { group, .. } => json!(["map", s_group(group)]),
    Type2::Array { group, .. } => json!(["arr", s_group(group)]),
    Type2::Unwrap { ident, generic_args, .. } => json!(["unwrap", s_ident(ident), s_gargs(generic_args)]),
    Type2::ChoiceFromInlineGroup { group, .. } => json!(["ginl", s_group(group)]),
    Type2::ChoiceFromGroup { ident, generic_args, .. } => json!(["gname", s_ident(ident), s_gargs(generic_args)]),
    Type2::TaggedData { tag, t, .. } => json!(["tag", s_tagc(tag), s_type(t)]),
    Type2::DataMajorType { mt, constraint, .. } => json!(["major", mt, s_tagc(constraint)]),
    Type2::Any { .. } => json!(["any"]),
  }
}

fn s_occ(o: &Option<Occurrence>) -> J {
  match o {
    None => J::Null,
    Some(oc) => match &oc.occur {
      Occur::Optional { .. } => json!(["?"]),
      Occur::ZeroOrMore { .. } => json!(["*"]),
      Occur::OneOrMore { .. } => json!(["+"]),
      Occur::Exact { lower, upper, .. } => json!(["n", lower.map(|x| x.to_string()), upper.map(|x| x.to_string())]),
    },
  }
}

fn s_group(g: &Group) -> J {
  J::Array(
    g.group_choices
      .iter()
      .map(|gc| J::Array(gc.group_entries.iter().map(|(e, c)| s_entry(e, c.optional_comma)).collect()))
      .collect(),
  )
}

fn s_mk(m: &Option<MemberKey>) -> J {
  match m {
    None => J::Null,
    Some(MemberKey::Type1 { t1, is_cut, .. }) => json!(["t1", s_type1(t1), is_cut]),
    Some(MemberKey::Bareword { ident, .. }) => json!(["bw", s_ident(ident)]),
    Some(MemberKey::Value { value, .. }) => json!(["val", s_value(value)]),
    Some(MemberKey::NonMemberKey { non_member_key, .. }) => match non_member_key {
      NonMemberKey::Group(g) => json!(["nmk-group", s_group(g)]),
      NonMemberKey::Type(t) => json!(["nmk-type", s_type(t)]),
    },
  }
}

fn s_entry(e: &GroupEntry, comma: bool) -> J {
  // the comma flag is part of the AST (OptionalComma); the bridge never sets it, so it is reported only when true
  let mut v = match e {
    GroupEntry::ValueMemberKey { ge, .. } => json!(["vmk", s_occ(&ge.occur), s_mk(&ge.member_key), s_type(&ge.entry_type)]),
    GroupEntry::TypeGroupname { ge, .. } => json!(["tg", s_occ(&ge.occur), s_ident(&ge.name), s_gargs(&ge.generic_args)]),
    GroupEntry::InlineGroup { occur, group, .. } => json!(["ig", s_occ(occur), s_group(group)]),
  };
  if comma {
    v.as_array_mut().unwrap().push(json!("comma"));
  }
  v
}

fn s_gparams(g: &Option<GenericParams>) -> J {
  match g {
    None => J::Null,
    Some(gp) => J::Array(gp.params.iter().map(|p| s_ident(&p.param)).collect()),
  }
}

fn s_rule(r: &Rule) -> J {
  match r {
    Rule::Type { rule, .. } => json!({"k": "T", "name": s_ident(&rule.name), "gp": s_gparams(&rule.generic_params),
                                        "alt": rule.is_type_choice_alternate, "v": s_type(&rule.value)}),
    Rule::Group { rule, .. } => json!({"k": "G", "name": s_ident(&rule.name), "gp": s_gparams(&rule.generic_params),
                                         "alt": rule.is_group_choice_alternate, "v": s_entry(&rule.entry, false)}),
  }
}

fn shape(c: &CDDL) -> J {
  J::Array(c.rules.iter().map(s_rule).collect())
}

// ---------------------------------------------------------------------------------------------
// comments attached anywhere in the AST (every Option<Comments> field, wildcard-free destructuring)
// ---------------------------------------------------------------------------------------------

// every attached comment is reported as [slot, hex text, path]; path = frames from the rule down to the node that owns the slot:
//   {"f":"rule","k":"T"|"G"}
//   {"f":"type","i":choice index,"n":number of choices}
//   {"f":"t1","part":"target"|"controller"|"only"}          which operand of the type1 we are in
//   {"f":"t2","k":"paren"|"map"|"arr"|"ginl"|"tag"|"garg"}
//   {"f":"group","in":..,"ngc":..,"gc":..,"ne":..,"e":..,"doc":bool,"part":"key"|"type"|"garg"|"ig"|"self"}
//        doc = some direct ValueMemberKey/TypeGroupname entry of that group choice carries a leading/trailing comment
struct Cm {
  out: Vec<J>,
  path: Vec<J>,
}
impl Cm {
  fn add(&mut self, slot: &str, c: &Option<Comments>) {
    if let Some(cs) = c {
      for t in cs.0.iter() {
        self.out.push(json!([slot, hx(t), J::Array(self.path.clone())]));
      }
    }
  }
  fn with<F: FnOnce(&mut Cm)>(&mut self, frame: J, f: F) {
    self.path.push(frame);
    f(self);
    self.path.pop();
  }
}

fn c_gargs(g: &Option<GenericArgs>, o: &mut Cm) {
  if let Some(ga) = g {
    for a in ga.args.iter() {
      let GenericArg { arg, comments_before_type, comments_after_type } = a;
      o.with(json!({"f": "t2", "k": "garg"}), |o| {
        o.add("garg.before", comments_before_type);
        c_type1(arg, o);
        o.add("garg.after", comments_after_type);
      });
    }
  }
}

fn c_type(t: &Type, o: &mut Cm) {
  let n = t.type_choices.len();
  for (i, tc) in t.type_choices.iter().enumerate() {
    let TypeChoice { type1, comments_before_type, comments_after_type } = tc;
    o.with(json!({"f": "type", "i": i, "n": n}), |o| {
      o.add("choice.before", comments_before_type);
      o.add("choice.after", comments_after_type);
      c_type1(type1, o);
    });
  }
}

fn c_type1(t: &Type1, o: &mut Cm) {
  let Type1 { type2, operator, span: _, comments_after_type } = t;
  match operator {
    None => o.with(json!({"f": "t1", "part": "only"}), |o| c_type2(type2, o)),
    Some(Operator { operator: _, type2: c2, comments_before_operator, comments_after_operator }) => {
      o.with(json!({"f": "t1", "part": "target"}), |o| c_type2(type2, o));
      o.add("op.before", comments_before_operator);
      o.add("op.after", comments_after_operator);
      o.with(json!({"f": "t1", "part": "controller"}), |o| c_type2(c2, o));
    }
  }
  o.add("type1.after", comments_after_type);
}

fn c_type2(t: &Type2, o: &mut Cm) {
  match t {
    Type2::IntValue { value: _, span: _ }
    | Type2::UintValue { value: _, span: _ }
    | Type2::FloatValue { value: _, span: _ }
    | Type2::TextValue { value: _, span: _ }
    | Type2::UTF8ByteString { value: _, span: _ }
    | Type2::B16ByteString { value: _, span: _ }
    | Type2::B64ByteString { value: _, span: _ } => {}
    Type2::Typename { ident: _, generic_args, span: _ } => c_gargs(generic_args, o),
    Type2::ParenthesizedType { pt, span: _, comments_before_type, comments_after_type } => {
      o.add("paren.before", comments_before_type);
      o.with(json!({"f": "t2", "k": "paren"}), |o| c_type(pt, o));
      o.add("paren.after", comments_after_type);
    }
    Type2::Map { group, span: _, comments_before_group, comments_after_group } => {
      o.add("map.before", comments_before_group);
      c_group_in(group, o, "map");
      o.add("map.after", comments_after_group);
    }
    Type2::Array { group, span: _, comments_before_group, comments_after_group } => {
      o.add("arr.before", comments_before_group);
      c_group_in(group, o, "arr");
      o.add("arr.after", comments_after_group);
    }
    Type2::Unwrap { ident: _, generic_args, span: _, comments } => {
      o.add("unwrap", comments);
      c_gargs(generic_args, o);
    }
    Type2::ChoiceFromInlineGroup { group, span: _, comments, comments_before_group, comments_after_group } => {
      o.add("ginl", comments);
      o.add("ginl.before", comments_before_group);
      c_group_in(group, o, "ginl");
      o.add("ginl.after", comments_after_group);
    }
    Type2::ChoiceFromGroup { ident: _, generic_args, span: _, comments } => {
      o.add("gname", comments);
      c_gargs(generic_args, o);
    }
    Type2::TaggedData { tag: _, t, span: _, comments_before_type, comments_after_type } => {
      o.add("tag.before", comments_before_type);
      o.with(json!({"f": "t2", "k": "tag"}), |o| c_type(t, o));
      o.add("tag.after", comments_after_type);
    }
    Type2::DataMajorType { mt: _, constraint: _, span: _ } => {}
    Type2::Any { span: _ } => {}
  }
}

fn c_occ(oc: &Option<Occurrence>, o: &mut Cm) {
  if let Some(Occurrence { occur: _, comments, _a }) = oc {
    o.add("occur", comments);
  }
}

fn any_nn(c: &Option<Comments>) -> bool {
  c.as_ref().map(|c| c.0.iter().any(|t| *t != "\n")).unwrap_or(false)
}

fn c_group_in(g: &Group, o: &mut Cm, container: &str) {
  let ngc = g.group_choices.len();
  for (gi, gc) in g.group_choices.iter().enumerate() {
    let GroupChoice { group_entries, span: _, comments_before_grpchoice } = gc;
    let ne = group_entries.len();
    let doc = group_entries.iter().any(|(e, _)| match e {
      GroupEntry::ValueMemberKey { leading_comments, trailing_comments, .. }
      | GroupEntry::TypeGroupname { leading_comments, trailing_comments, .. } => any_nn(leading_comments) || any_nn(trailing_comments),
      GroupEntry::InlineGroup { .. } => false,
    });
    let fr = |e: J, part: &str| json!({"f": "group", "in": container, "ngc": ngc, "gc": gi, "ne": ne, "e": e, "doc": doc, "part": part});
    o.with(fr(J::Null, "self"), |o| o.add("grpchoice.before", comments_before_grpchoice));
    for (ei, (e, comma)) in group_entries.iter().enumerate() {
      c_entry(e, o, &|part: &str| fr(json!(ei), part));
      let OptionalComma { optional_comma: _, trailing_comments, _a } = comma;
      o.with(fr(json!(ei), "self"), |o| o.add("comma.trailing", trailing_comments));
    }
  }
}

fn c_entry(e: &GroupEntry, o: &mut Cm, fr: &dyn Fn(&str) -> J) {
  match e {
    GroupEntry::ValueMemberKey { ge, span: _, leading_comments, trailing_comments } => {
      o.with(fr("self"), |o| {
        o.add("entry.leading", leading_comments);
        o.add("entry.trailing", trailing_comments);
      });
      let ValueMemberKeyEntry { occur, member_key, entry_type } = ge.as_ref();
      o.with(fr("key"), |o| {
        c_occ(occur, o);
        match member_key {
          None => {}
          Some(MemberKey::Type1 { t1, is_cut: _, span: _, comments_before_cut, comments_after_cut, comments_after_arrowmap }) => {
            c_type1(t1, o);
            o.add("mk.before_cut", comments_before_cut);
            o.add("mk.after_cut", comments_after_cut);
            o.add("mk.after_arrow", comments_after_arrowmap);
          }
          Some(MemberKey::Bareword { ident: _, span: _, comments, comments_after_colon }) => {
            o.add("mk.bw", comments);
            o.add("mk.bw.after_colon", comments_after_colon);
          }
          Some(MemberKey::Value { value: _, span: _, comments, comments_after_colon }) => {
            o.add("mk.val", comments);
            o.add("mk.val.after_colon", comments_after_colon);
          }
          Some(MemberKey::NonMemberKey { non_member_key, comments_before_type_or_group, comments_after_type_or_group }) => {
            o.add("nmk.before", comments_before_type_or_group);
            match non_member_key {
              NonMemberKey::Group(g) => c_group_in(g, o, "nmk"),
              NonMemberKey::Type(t) => c_type(t, o),
            }
            o.add("nmk.after", comments_after_type_or_group);
          }
        }
      });
      o.with(fr("type"), |o| c_type(entry_type, o));
    }
    GroupEntry::TypeGroupname { ge, span: _, leading_comments, trailing_comments } => {
      o.with(fr("self"), |o| {
        o.add("entry.leading", leading_comments);
        o.add("entry.trailing", trailing_comments);
      });
      let TypeGroupnameEntry { occur, name: _, generic_args } = ge;
      o.with(fr("garg"), |o| {
        c_occ(occur, o);
        c_gargs(generic_args, o);
      });
    }
    GroupEntry::InlineGroup { occur, group, span: _, comments_before_group, comments_after_group } => {
      o.with(fr("ig"), |o| {
        c_occ(occur, o);
        o.add("ig.before", comments_before_group);
        c_group_in(group, o, "ig");
        o.add("ig.after", comments_after_group);
      });
    }
  }
}

fn c_gparams(g: &Option<GenericParams>, o: &mut Cm) {
  if let Some(gp) = g {
    for p in gp.params.iter() {
      let GenericParam { param: _, comments_before_ident, comments_after_ident } = p;
      o.add("gparam.before", comments_before_ident);
      o.add("gparam.after", comments_after_ident);
    }
  }
}

fn comments_of(c: &CDDL) -> J {
  let mut o = Cm { out: Vec::new(), path: Vec::new() };
  let CDDL { rules, comments } = c;
  o.add("cddl", comments);
  for (ri, r) in rules.iter().enumerate() {
    match r {
      Rule::Type { rule, span: _, comments_before_rule, comments_after_rule } => {
        o.with(json!({"f": "rule", "k": "T", "r": ri}), |o| {
          o.add("rule.before", comments_before_rule);
          let TypeRule { name: _, generic_params, is_type_choice_alternate: _, value, comments_before_assignt, comments_after_assignt } = rule;
          c_gparams(generic_params, o);
          o.add("assignt.before", comments_before_assignt);
          o.add("assignt.after", comments_after_assignt);
          c_type(value, o);
          o.add("rule.after", comments_after_rule);
        });
      }
      Rule::Group { rule, span: _, comments_before_rule, comments_after_rule } => {
        o.with(json!({"f": "rule", "k": "G", "r": ri}), |o| {
          o.add("rule.before", comments_before_rule);
          let GroupRule { name: _, generic_params, is_group_choice_alternate: _, entry, comments_before_assigng, comments_after_assigng } =
            rule.as_ref();
          c_gparams(generic_params, o);
          o.add("assigng.before", comments_before_assigng);
          o.add("assigng.after", comments_after_assigng);
          c_entry(entry, o, &|part: &str| json!({"f": "group", "in": "rule", "ngc": 1, "gc": 0, "ne": 1, "e": 0, "doc": false, "part": part}));
          o.add("rule.after", comments_after_rule);
        });
      }
    }
  }
  J::Array(o.out)
}

// ---------------------------------------------------------------------------------------------
// merge inputs (mirror of pest_bridge::visit_anchor_slots / collect_container_extents / collect_comment_toks)
// ---------------------------------------------------------------------------------------------

fn line_of_byte(input: &str, byte: usize) -> usize {
  let b = byte.min(input.len());
  input.as_bytes()[..b].iter().filter(|&&c| c == b'\n').count() + 1
}

fn type2_tight(t2: &Type2) -> Span {
  match t2 {
    Type2::Typename { ident, generic_args, span, .. }
    | Type2::Unwrap { ident, generic_args, span, .. }
    | Type2::ChoiceFromGroup { ident, generic_args, span, .. } => {
      let end = generic_args.as_ref().map(|g| g.span.1).unwrap_or(ident.span.1);
      (span.0, end, span.2)
    }
    Type2::IntValue { span, .. }
    | Type2::UintValue { span, .. }
    | Type2::FloatValue { span, .. }
    | Type2::TextValue { span, .. }
    | Type2::UTF8ByteString { span, .. }
    | Type2::B16ByteString { span, .. }
    | Type2::B64ByteString { span, .. }
    | Type2::ParenthesizedType { span, .. }
    | Type2::Map { span, .. }
    | Type2::Array { span, .. }
    | Type2::ChoiceFromInlineGroup { span, .. }
    | Type2::TaggedData { span, .. }
    | Type2::DataMajorType { span, .. }
    | Type2::Any { span, .. } => *span,
  }
}

fn type1_tight_end(t1: &Type1) -> usize {
  match &t1.operator {
    Some(op) => type2_tight(&op.type2).1,
    None => type2_tight(&t1.type2).1,
  }
}

fn entry_tight_end(e: &GroupEntry) -> usize {
  match e {
    GroupEntry::ValueMemberKey { ge, span, .. } => {
      ge.entry_type.type_choices.last().map(|tc| type1_tight_end(&tc.type1)).unwrap_or(span.1)
    }
    GroupEntry::TypeGroupname { ge, .. } => ge.generic_args.as_ref().map(|g| g.span.1).unwrap_or(ge.name.span.1),
    GroupEntry::InlineGroup { span, .. } => span.1,
  }
}

struct Mg<'s> {
  input: &'s str,
  anchors: Vec<J>,
  assigned: Vec<J>,
  containers: Vec<J>,
}

impl Mg<'_> {
  fn slot(&mut self, kind: &str, lo: usize, hi: usize, c: &Option<Comments>) {
    self.anchors.push(json!([kind, lo, hi, line_of_byte(self.input, hi)]));
    self.assigned.push(match c {
      None => json!([]),
      Some(cs) => J::Array(cs.0.iter().map(|t| json!(hx(t))).collect()),
    });
  }
  fn m_type(&mut self, ty: &Type) {
    for (i, tc) in ty.type_choices.iter().enumerate() {
      let lo = tc.type1.span.0;
      let tight = type1_tight_end(&tc.type1);
      if i > 0 {
        self.slot("ChoiceLeading", lo, lo, &tc.comments_before_type);
      }
      self.slot("ChoiceTrailing", lo, tight, &tc.comments_after_type);
      self.m_type2(&tc.type1.type2);
      if let Some(op) = &tc.type1.operator {
        self.m_type2(&op.type2);
      }
    }
  }
  fn m_type2(&mut self, t2: &Type2) {
    match t2 {
      Type2::Map { group, span, .. } | Type2::Array { group, span, .. } | Type2::ChoiceFromInlineGroup { group, span, .. } => {
        self.containers.push(json!([span.0, span.1]));
        self.m_group(group)
      }
      Type2::ParenthesizedType { pt, .. } => self.m_type(pt),
      Type2::TaggedData { t, .. } => self.m_type(t),
      Type2::IntValue { .. }
      | Type2::UintValue { .. }
      | Type2::FloatValue { .. }
      | Type2::TextValue { .. }
      | Type2::UTF8ByteString { .. }
      | Type2::B16ByteString { .. }
      | Type2::B64ByteString { .. }
      | Type2::Typename { .. }
      | Type2::Unwrap { .. }
      | Type2::ChoiceFromGroup { .. }
      | Type2::DataMajorType { .. }
      | Type2::Any { .. } => {}
    }
  }
  fn m_group(&mut self, g: &Group) {
    let multi = g.group_choices.len() > 1;
    for gc in g.group_choices.iter() {
      if multi {
        self.slot("GrpChoiceLeading", gc.span.0, gc.span.0, &gc.comments_before_grpchoice);
      }
      for (e, _) in gc.group_entries.iter() {
        self.m_entry(e);
      }
    }
  }
  fn m_entry(&mut self, e: &GroupEntry) {
    let tight = entry_tight_end(e);
    match e {
      GroupEntry::ValueMemberKey { ge, span, leading_comments, trailing_comments } => {
        self.slot("EntryLeading", span.0, span.0, leading_comments);
        self.slot("EntryTrailing", span.0, tight, trailing_comments);
        self.m_type(&ge.entry_type);
      }
      GroupEntry::TypeGroupname { span, leading_comments, trailing_comments, .. } => {
        self.slot("EntryLeading", span.0, span.0, leading_comments);
        self.slot("EntryTrailing", span.0, tight, trailing_comments);
      }
      GroupEntry::InlineGroup { group, span, .. } => {
        self.containers.push(json!([span.0, span.1]));
        self.m_group(group);
      }
    }
  }
}

fn comment_pairs<'a>(pair: pest::iterators::Pair<'a, PRule>, out: &mut Vec<(usize, usize, &'a str)>) {
  for inner in pair.into_inner() {
    if inner.as_rule() == PRule::COMMENT {
      let s = inner.as_span();
      out.push((s.start(), s.end(), inner.as_str()));
    } else {
      comment_pairs(inner, out);
    }
  }
}

fn pest_comments(text: &str) -> Option<Vec<(usize, usize, &str)>> {
  let mut pairs = CddlParser::parse(PRule::cddl, text).ok()?;
  let mut out = Vec::new();
  if let Some(p) = pairs.next() {
    comment_pairs(p, &mut out);
  }
  Some(out)
}

fn merge_dump(text: &str) -> String {
  let c = match cddl::cddl_from_str(text, false) {
    Ok(c) => c,
    Err(_) => return "ERR".to_string(),
  };
  let toks = match pest_comments(text) {
    Some(t) => t,
    None => return "ERR".to_string(),
  };
  let mut m = Mg { input: text, anchors: vec![], assigned: vec![], containers: vec![] };
  // containers are collected in a separate pass by the crate; order does not matter for max_by_key on distinct lo
  for r in c.rules.iter() {
    match r {
      Rule::Type { rule, span, comments_before_rule, .. } => {
        m.slot("RuleLeading", span.0, span.0, comments_before_rule);
        m.m_type(&rule.value);
      }
      Rule::Group { rule, span, comments_before_rule, .. } => {
        m.slot("RuleLeading", span.0, span.0, comments_before_rule);
        m.m_entry(&rule.entry);
      }
    }
  }
  let toks_j: Vec<J> = toks
    .iter()
    .map(|(lo, hi, s)| {
      let line_start = text[..*lo].rfind('\n').map(|i| i + 1).unwrap_or(0);
      let pure = text[line_start..*lo].trim().is_empty();
      json!([lo, hi, line_of_byte(text, *lo), pure, hx(&s[1..])])
    })
    .collect();
  // anchors carry the line of `hi`; leading anchors have hi == lo
  json!({"toks": toks_j, "anchors": m.anchors, "containers": m.containers, "assigned": m.assigned}).to_string()
}

// ---------------------------------------------------------------------------------------------
// commands
// ---------------------------------------------------------------------------------------------

fn roundtrip(text: &str) -> String {
  let c0 = match cddl::cddl_from_str(text, false) {
    Ok(c) => c,
    Err(_) => return json!({"ok0": false}).to_string(),
  };
  let s0 = shape(&c0);
  let cm0 = comments_of(&c0);
  let p1 = c0.to_string();
  let k1 = pest_comments(&p1).map(|v| J::Array(v.iter().map(|(_, _, s)| json!(hx(&s[1..]))).collect())).unwrap_or(J::Null);
  match cddl::cddl_from_str(&p1, false) {
    Err(_) => json!({"ok0": true, "s0": s0, "c0": cm0, "p1": hx(&p1), "ok1": false, "k1": k1}).to_string(),
    Ok(c1) => {
      let s1 = shape(&c1);
      let cm1 = comments_of(&c1);
      let p2 = c1.to_string();
      json!({"ok0": true, "s0": s0, "c0": cm0, "p1": hx(&p1), "ok1": true, "s1": s1, "c1": cm1, "p2": hx(&p2), "k1": k1}).to_string()
    }
  }
}

fn sp() -> Span {
  (0, 0, 0)
}

fn literal(parts: &[&str]) -> String {
  let kind = parts.get(1).copied().unwrap_or("");
  let a = parts.get(2).copied().unwrap_or("");
  let b = parts.get(3).copied().unwrap_or("");
  let ident = |s: &'static str, k: u8| Identifier {
    ident: s,
    socket: match k {
      1 => Some(SocketPlug::TYPE),
      2 => Some(SocketPlug::GROUP),
      _ => None,
    },
    span: sp(),
  };
  let t1 = |t2: Type2<'static>| Type1 { type2: t2, operator: None, span: sp(), comments_after_type: None };
  let ty = |t2: Type2<'static>| Type {
    type_choices: vec![TypeChoice { type1: t1(t2), comments_before_type: None, comments_after_type: None }],
    span: sp(),
  };
  let opt = |s: &str| if s == "-" { None } else { s.parse::<usize>().ok() };
  let s = match kind {
    "U" => Type2::UintValue { value: a.parse().unwrap_or(0), span: sp() }.to_string(),
    "I" => Type2::IntValue { value: a.parse().unwrap_or(0), span: sp() }.to_string(),
    "F" => Type2::FloatValue { value: f64::from_bits(u64::from_str_radix(a, 16).unwrap_or(0)), span: sp() }.to_string(),
    // the shortest round-trip digits of core::fmt (same generator as `{}`), in exponent layout: the "digits as given" of Fmt/Render.v
    "FE" => format!("{:e}", f64::from_bits(u64::from_str_radix(a, 16).unwrap_or(0))),
    "T" => Type2::TextValue { value: Cow::Owned(impl_driver::unhex_str(a)), span: sp() }.to_string(),
    "BU" => Type2::UTF8ByteString { value: Cow::Owned(impl_driver::unhex(a)), span: sp() }.to_string(),
    "BH" => Type2::B16ByteString { value: Cow::Owned(impl_driver::unhex(a)), span: sp() }.to_string(),
    "BB" => Type2::B64ByteString { value: Cow::Owned(impl_driver::unhex(a)), span: sp() }.to_string(),
    // member-key values go through token::Value's own Display
    "VU" => Value::UINT(a.parse().unwrap_or(0)).to_string(),
    "VI" => Value::INT(a.parse().unwrap_or(0)).to_string(),
    "VF" => Value::FLOAT(f64::from_bits(u64::from_str_radix(a, 16).unwrap_or(0))).to_string(),
    "VT" => Value::TEXT(Cow::Owned(impl_driver::unhex_str(a))).to_string(),
    "VBH" => Value::BYTE(ByteValue::B16(Cow::Owned(impl_driver::unhex(a)))).to_string(),
    "VBB" => Value::BYTE(ByteValue::B64(Cow::Owned(impl_driver::unhex(a)))).to_string(),
    "VBU" => Value::BYTE(ByteValue::UTF8(Cow::Owned(impl_driver::unhex(a)))).to_string(),
    "O" => match a {
      "?" => Occur::Optional { span: sp() }.to_string(),
      "*" => Occur::ZeroOrMore { span: sp() }.to_string(),
      "+" => Occur::OneOrMore { span: sp() }.to_string(),
      _ => Occur::Exact { lower: opt(a), upper: opt(b), span: sp() }.to_string(),
    },
    "C" => match lookup_control_from_str(a) {
      Some(c) => c.to_string(),
      None => return "NONE".to_string(),
    },
    // tags: G6 <n|-> : #6.n(x) ; GM <mt> <n|-> : #mt.n ; GA : #
    "G6" => Type2::TaggedData {
      tag: a.parse::<u64>().ok().map(TagConstraint::Literal),
      t: ty(Type2::Typename { ident: ident("x", 0), generic_args: None, span: sp() }),
      span: sp(),
      comments_before_type: None,
      comments_after_type: None,
    }
    .to_string(),
    // G6E <n|-> : tag without content type, `#6.n` / `#6`
    "G6E" => Type2::TaggedData {
      tag: a.parse::<u64>().ok().map(TagConstraint::Literal),
      t: Type { type_choices: vec![], span: sp() },
      span: sp(),
      comments_before_type: None,
      comments_after_type: None,
    }
    .to_string(),
    // T1 <name_like 0/1> <op: .name | .. | ...> : Type1 `x <op> y` resp. `1 <op> y` (blanks around operators)
    "T1" => {
      let left = if a == "1" { Type2::Typename { ident: ident("x", 0), generic_args: None, span: sp() } } else { Type2::UintValue { value: 1, span: sp() } };
      let operator = match b {
        ".." => RangeCtlOp::RangeOp { is_inclusive: true, span: sp() },
        "..." => RangeCtlOp::RangeOp { is_inclusive: false, span: sp() },
        _ => match lookup_control_from_str(b) {
          Some(ctrl) => RangeCtlOp::CtlOp { ctrl, span: sp() },
          None => return "NONE".to_string(),
        },
      };
      Type1 {
        type2: left,
        operator: Some(Operator {
          operator,
          type2: Type2::Typename { ident: ident("y", 0), generic_args: None, span: sp() },
          comments_before_operator: None,
          comments_after_operator: None,
        }),
        span: sp(),
        comments_after_type: None,
      }
      .to_string()
    }
    "GM" => Type2::DataMajorType { mt: a.parse().unwrap_or(0), constraint: b.parse::<u64>().ok().map(TagConstraint::Literal), span: sp() }
      .to_string(),
    "GA" => Type2::Any { span: sp() }.to_string(),
    // identifiers / markers: N <sock> ; W <sock> (unwrap) ; A <sock> (&name) ; X <cut 0/1> (member key x ^ =>)
    "N" => Type2::Typename { ident: ident("x", a.parse().unwrap_or(0)), generic_args: None, span: sp() }.to_string(),
    "W" => Type2::Unwrap { ident: ident("x", a.parse().unwrap_or(0)), generic_args: None, span: sp(), comments: None }.to_string(),
    "A" => Type2::ChoiceFromGroup { ident: ident("x", a.parse().unwrap_or(0)), generic_args: None, span: sp(), comments: None }.to_string(),
    "X" => MemberKey::Type1 {
      t1: Box::new(t1(Type2::Typename { ident: ident("x", 0), generic_args: None, span: sp() })),
      is_cut: a == "1",
      span: sp(),
      comments_before_cut: None,
      comments_after_cut: None,
      comments_after_arrowmap: None,
    }
    .to_string(),
    "RO" => RangeCtlOp::RangeOp { is_inclusive: a == "1", span: sp() }.to_string(),
    _ => return "?".to_string(),
  };
  format!("OK {}", hx(&s))
}

fn dispatch(parts: &[&str]) -> String {
  let cmd = parts[0];
  if cmd == "L" {
    return literal(parts);
  }
  let text = impl_driver::unhex_str(parts.get(1).copied().unwrap_or(""));
  match cmd {
    "P" => match cddl::cddl_from_str(&text, false) {
      Ok(c) => format!("OK {}", hx(&c.to_string())),
      Err(_) => "ERR".to_string(),
    },
    "S" => match cddl::cddl_from_str(&text, false) {
      Ok(c) => format!("OK {}", shape(&c)),
      Err(_) => "ERR".to_string(),
    },
    "C" => match cddl::cddl_from_str(&text, false) {
      Ok(c) => format!("OK {}", json!({"comments": comments_of(&c), "shape": shape(&c)})),
      Err(_) => "ERR".to_string(),
    },
    "R" => roundtrip(&text),
    "K" => match pest_comments(&text) {
      Some(v) => format!("OK {}", J::Array(v.iter().map(|(_, _, s)| json!(hx(&s[1..]))).collect())),
      None => "ERR".to_string(),
    },
    "M" => merge_dump(&text),
    _ => "?".to_string(),
  }
}

fn main() {
  impl_driver::serve(dispatch);
}
