// C17: cddl-derive code generation. The real generator (/repo/cddl-derive/src/codegen.rs, working tree) is
// compiled into this binary with #[path]; it only depends on `cddl::ast` and std. Its private helpers
// (to_snake_case, deduplicate_field_names, is_rust_keyword, is_vec_occurrence, ...) are not nameable from
// here, so they are observed through the crate-visible entry points:
//
//   S\t<hex s>        -> hex(to_snake_case(s))       observed as the tag-helper module suffix that
//                                                      generate_single_type(.., output_name = s) emits
//   P\t<hex s>        -> hex(to_pascal_case(s))      (pub(crate), called directly)
//   K\t<hex s>        -> hex(pascal_to_cddl_name(s)) (pub(crate), called directly)
//   G\t<hex schema>   -> "OK <hex of generated Rust source>" | "PARSE <hex message>" | "GEN <hex message>"
//                        = cddl_from_str(schema, true) ; generate_all_types(ast, schema, default options)
//   GN\t<n>\t<hex schema> -> "SAME <hex source>" when n calls of generate_all_types in this process give byte-identical
//                        text (each call parses the schema afresh, as the macro does), else "DIFF <hex first> <hex other>";
//                        "PARSE .." / "GEN .." as for G
//   V\t<hex schema>\t<hex json> -> "VALID" | "INVALID <hex message>"     cddl::validate_json_from_str
#![allow(dead_code)]
#[path = "/repo/cddl-derive/src/codegen.rs"]
mod codegen;

use codegen::{generate_all_types, generate_single_type, pascal_to_cddl_name, to_pascal_case, CodegenOptions};
use impl_driver::{hex_of, serve, unhex_str};

const SNAKE_SCHEMA: &str = "r = {t: tdate}";
const SNAKE_PREFIX: &str = "pub mod __cddl_tag_helpers_";

fn snake(s: &str) -> String {
  let c = match cddl::cddl_from_str(SNAKE_SCHEMA, true) {
    Ok(c) => c,
    Err(_) => return "ERR probe-schema".to_string(),
  };
  let out = match generate_single_type(&c, "R", Some(s), SNAKE_SCHEMA, &CodegenOptions::default()) {
    Ok(o) => o,
    Err(_) => return "ERR probe-gen".to_string(),
  };
  let i = match out.find(SNAKE_PREFIX) {
    Some(i) => i + SNAKE_PREFIX.len(),
    None => return "ERR probe-shape".to_string(),
  };
  match out[i..].find(" {") {
    Some(j) => hex_of(&out[i..i + j]),
    None => "ERR probe-shape".to_string(),
  }
}

fn dispatch(parts: &[&str]) -> String {
  match parts[0] {
    "S" => snake(&unhex_str(parts.get(1).copied().unwrap_or(""))),
    "P" => hex_of(&to_pascal_case(&unhex_str(parts.get(1).copied().unwrap_or("")))),
    "K" => hex_of(&pascal_to_cddl_name(&unhex_str(parts.get(1).copied().unwrap_or("")))),
    "G" => {
      let src = unhex_str(parts.get(1).copied().unwrap_or(""));
      match cddl::cddl_from_str(&src, true) {
        Err(e) => format!("PARSE {}", hex_of(&e)),
        Ok(ast) => match generate_all_types(&ast, &src, &CodegenOptions::default()) {
          Ok(code) => format!("OK {}", hex_of(&code)),
          Err(e) => format!("GEN {}", hex_of(&e.to_string())),
        },
      }
    }
    "GN" => {
      let n: usize = parts.get(1).and_then(|x| x.parse().ok()).unwrap_or(2);
      let src = unhex_str(parts.get(2).copied().unwrap_or(""));
      let mut first: Option<String> = None;
      for _ in 0..n.max(1) {
        let ast = match cddl::cddl_from_str(&src, true) {
          Err(e) => return format!("PARSE {}", hex_of(&e)),
          Ok(a) => a,
        };
        let code = match generate_all_types(&ast, &src, &CodegenOptions::default()) {
          Ok(c) => c,
          Err(e) => return format!("GEN {}", hex_of(&e.to_string())),
        };
        match &first {
          None => first = Some(code),
          Some(f) => {
            if *f != code {
              return format!("DIFF {} {}", hex_of(f), hex_of(&code));
            }
          }
        }
      }
      format!("SAME {}", hex_of(&first.unwrap_or_default()))
    }
    "V" => {
      let src = unhex_str(parts.get(1).copied().unwrap_or(""));
      let js = unhex_str(parts.get(2).copied().unwrap_or(""));
      match cddl::validate_json_from_str(&src, &js, None) {
        Ok(()) => "VALID".to_string(),
        Err(e) => format!("INVALID {}", hex_of(&e.to_string())),
      }
    }
    _ => "ERR unknown-command".to_string(),
  }
}

fn main() {
  serve(dispatch);
}
