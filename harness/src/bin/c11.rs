// C11: decode_cbor on a hex-encoded byte string; canonical rendering of the value.
use cddl::validator::cbor_value::{decode_cbor, DecodeError, Value};

pub fn render(v: &Value, out: &mut String) {
  match v {
    Value::Integer(i) => {
      let n: i128 = (*i).into();
      if n < 0 {
        out.push_str(&format!("i-{:x}", -n));
      } else {
        out.push_str(&format!("i{:x}", n));
      }
    }
    Value::Bytes(b) => {
      out.push('b');
      out.push_str(&hex::encode(b));
    }
    Value::Text(s) => {
      out.push('t');
      out.push_str(&hex::encode(s.as_bytes()));
    }
    Value::Float(f) => {
      if f.is_nan() {
        out.push_str("fNaN");
      } else {
        out.push_str(&format!("f{:016x}", f.to_bits()));
      }
    }
    Value::Bool(true) => out.push('T'),
    Value::Bool(false) => out.push('F'),
    Value::Null => out.push('N'),
    Value::Tag(t, inner) => {
      out.push_str(&format!("g{:x}(", t));
      render(inner, out);
      out.push(')');
    }
    Value::Array(a) => {
      out.push('[');
      for (i, x) in a.iter().enumerate() {
        if i > 0 {
          out.push(',');
        }
        render(x, out);
      }
      out.push(']');
    }
    Value::Map(m) => {
      out.push('{');
      for (i, (k, x)) in m.iter().enumerate() {
        if i > 0 {
          out.push(',');
        }
        render(k, out);
        out.push(':');
        render(x, out);
      }
      out.push('}');
    }
    Value::Simple(s) => out.push_str(&format!("s{:x}", s)),
  }
}

pub fn decode_bytes(bs: &[u8]) -> String {
  match decode_cbor(bs) {
    Ok(v) => {
      let mut s = String::from("OK ");
      render(&v, &mut s);
      s
    }
    Err(DecodeError::Io(_)) => "ERR eof".to_string(),
    Err(DecodeError::Syntax(_)) => "ERR syntax".to_string(),
    Err(DecodeError::UnexpectedEof) => "ERR eof".to_string(),
    Err(DecodeError::UnexpectedBreak) => "ERR break".to_string(),
  }
}

pub fn decode(parts: &[&str]) -> String {
  decode_bytes(&impl_driver::unhex(parts[1]))
}

// DSWEEP\t<prefixhex>\t<n>: all byte strings prefix ++ s, |s| = n, one result per line
pub fn sweep(parts: &[&str]) -> String {
  let prefix = impl_driver::unhex(parts[1]);
  let n: usize = parts[2].parse().unwrap();
  let total: u64 = 1u64 << (8 * n);
  let mut out = String::new();
  for k in 0..total {
    let mut bs = prefix.clone();
    for j in 0..n {
      bs.push(((k >> (8 * (n - 1 - j))) & 0xff) as u8);
    }
    if k > 0 {
      out.push('\n');
    }
    out.push_str(&decode_bytes(&bs));
  }
  out
}

fn dispatch(parts: &[&str]) -> String {
  match parts[0] {
    "D" => decode(parts),
    "DSWEEP" => sweep(parts),
    _ => "?".to_string(),
  }
}

fn main() {
  impl_driver::serve(dispatch);
}
