// C14: how validation failures are reported.
//
//   J\t<schema hex>\t<json text hex>     cddl::validate_json_from_str(schema, text, None)
//   C\t<schema hex>\t<cbor bytes hex>    cddl::validate_cbor_from_slice(schema, bytes, None)
//       -> the call is made three times in a row; the three renderings must be equal, otherwise the
//          line is  UNSTABLE\t<first>\t||\t<other>
//       rendering of one result:
//          OK
//          ERR\tValidation\t<n>\t<hex location>:<hex reason>;<hex location>:<hex reason>;...   (n = list length, order kept)
//          ERR\t<VariantName>\t<hex of the Display text>                                     (every other variant)
//   T\t<J|C>\t<schema hex>\t<doc hex>\t<threads>\t<iterations>
//       -> one call on the main thread (baseline), then <threads> threads released by a barrier, each making
//          <iterations> calls; every rendering is compared in-process with the baseline:
//          SAME\t<threads*iterations>\t<baseline rendering>     or     DIFF\t<baseline>\t||\t<first different>
//   TB\t<threads>\t<iterations>\t<J|C>:<schema hex>:<doc hex>\t<J|C>:...   (a batch of cases)
//       -> baselines on the main thread, then <threads> threads released by a barrier; thread t makes, <iterations> times,
//          the calls of the whole batch starting at a different offset (so different calls overlap), comparing with the baselines:
//          SAME\t<number of threaded calls>\t||\t<baseline 0>\t||\t<baseline 1>...   or   DIFF\t<case index>\t<baseline>\t||\t<other>
//   TC\t<threads>\t<iterations>\t<J|C>:<schema hex>:<doc hex>\t...                (a history group, no warm-up)
//       -> NO call is made before the threads start: <threads> threads are released by a barrier, thread t walks the batch
//          <iterations> times from offset t (so every call of the group is some thread's very first call in this process and
//          different calls overlap); for every case the set of distinct renderings seen by any thread is reported:
//          SETS\t||\t<rendering>[\t&&\t<rendering>...]\t||\t...          (one ||-section per case; one rendering = deterministic)
//   X\t<hex location>                    (no call) echoes; used to keep the line protocol aligned in warm-up blocks
use std::sync::{Arc, Barrier};

fn hexs(s: &str) -> String {
  hex::encode(s.as_bytes())
}

fn json_call(schema: &str, doc: &str) -> String {
  use cddl::validator::json::Error;
  match cddl::validate_json_from_str(schema, doc, None) {
    Ok(()) => "OK".to_string(),
    Err(Error::Validation(l)) => {
      let items: Vec<String> = l
        .iter()
        .map(|e| format!("{}:{}", hexs(&e.json_location), hexs(&e.reason)))
        .collect();
      format!("ERR\tValidation\t{}\t{}", l.len(), items.join(";"))
    }
    Err(e) => {
      let kind = match &e {
        Error::Validation(_) => "Validation",
        Error::JSONParsing(_) => "JSONParsing",
        Error::CDDLParsing(_) => "CDDLParsing",
        Error::UTF8Parsing(_) => "UTF8Parsing",
        Error::DisabledFeature(_) => "DisabledFeature",
      };
      format!("ERR\t{}\t{}", kind, hexs(&e.to_string()))
    }
  }
}

fn cbor_call(schema: &str, doc: &[u8]) -> String {
  use cddl::validator::cbor::Error;
  match cddl::validate_cbor_from_slice(schema, doc, None) {
    Ok(()) => "OK".to_string(),
    Err(Error::Validation(l)) => {
      let items: Vec<String> = l
        .iter()
        .map(|e| format!("{}:{}", hexs(&e.cbor_location), hexs(&e.reason)))
        .collect();
      format!("ERR\tValidation\t{}\t{}", l.len(), items.join(";"))
    }
    Err(e) => {
      let kind = match &e {
        Error::Validation(_) => "Validation",
        Error::CBORParsing(_) => "CBORParsing",
        Error::JSONParsing(_) => "JSONParsing",
        Error::CDDLParsing(_) => "CDDLParsing",
        Error::UTF8Parsing(_) => "UTF8Parsing",
        Error::Base16Decoding(_) => "Base16Decoding",
        Error::Base64Decoding(_) => "Base64Decoding",
      };
      format!("ERR\t{}\t{}", kind, hexs(&e.to_string()))
    }
  }
}

fn call(which: &str, schema: &str, doc: &[u8]) -> String {
  // a panic inside the crate is part of the observable result of this call (and must be stable too)
  let r = std::panic::catch_unwind(|| match which {
    "J" => json_call(schema, &String::from_utf8_lossy(doc)),
    _ => cbor_call(schema, doc),
  });
  r.unwrap_or_else(|_| "PANIC".to_string())
}

fn thrice(which: &str, parts: &[&str]) -> String {
  let schema = impl_driver::unhex_str(parts[1]);
  let doc = impl_driver::unhex(parts[2]);
  let a = call(which, &schema, &doc);
  for _ in 0..2 {
    let b = call(which, &schema, &doc);
    if b != a {
      return format!("UNSTABLE\t{}\t||\t{}", a, b);
    }
  }
  a
}

fn threads(parts: &[&str]) -> String {
  let which = parts[1].to_string();
  let schema = Arc::new(impl_driver::unhex_str(parts[2]));
  let doc = Arc::new(impl_driver::unhex(parts[3]));
  let n: usize = parts[4].parse().unwrap_or(16);
  let iters: usize = parts[5].parse().unwrap_or(4);
  let base = call(&which, &schema, &doc);
  let barrier = Arc::new(Barrier::new(n));
  let mut hs = Vec::new();
  for _ in 0..n {
    let (w, s, d, b, base) = (which.clone(), schema.clone(), doc.clone(), barrier.clone(), base.clone());
    hs.push(std::thread::spawn(move || {
      b.wait();
      for _ in 0..iters {
        let r = call(&w, &s, &d);
        if r != base {
          return Some(r);
        }
      }
      None
    }));
  }
  let mut diff = None;
  for h in hs {
    match h.join() {
      Ok(Some(r)) => diff = diff.or(Some(r)),
      Ok(None) => {}
      Err(_) => diff = diff.or(Some("THREAD-PANIC".to_string())),
    }
  }
  match diff {
    None => format!("SAME\t{}\t{}", n * iters, base),
    Some(r) => format!("DIFF\t{}\t||\t{}", base, r),
  }
}

fn thread_batch(parts: &[&str]) -> String {
  let n: usize = parts[1].parse().unwrap_or(16);
  let iters: usize = parts[2].parse().unwrap_or(2);
  let mut cases: Vec<(String, String, Vec<u8>)> = Vec::new();
  for spec in &parts[3..] {
    let f: Vec<&str> = spec.split(':').collect();
    if f.len() != 3 {
      return "?".to_string();
    }
    cases.push((f[0].to_string(), impl_driver::unhex_str(f[1]), impl_driver::unhex(f[2])));
  }
  let base: Vec<String> = cases.iter().map(|(w, s, d)| call(w, s, d)).collect();
  let cases = Arc::new(cases);
  let base = Arc::new(base);
  let barrier = Arc::new(Barrier::new(n));
  let mut hs = Vec::new();
  for t in 0..n {
    let (cases, base, b) = (cases.clone(), base.clone(), barrier.clone());
    hs.push(std::thread::spawn(move || {
      b.wait();
      let m = cases.len();
      for _ in 0..iters {
        for k in 0..m {
          let i = (k + t * 7) % m;
          let (w, s, d) = &cases[i];
          let r = call(w, s, d);
          if r != base[i] {
            return Some((i, r));
          }
        }
      }
      None
    }));
  }
  let mut diff = None;
  for h in hs {
    match h.join() {
      Ok(Some(r)) => diff = diff.or(Some(r)),
      Ok(None) => {}
      Err(_) => diff = diff.or(Some((0, "THREAD-PANIC".to_string()))),
    }
  }
  match diff {
    None => format!("SAME\t{}\t||\t{}", n * iters * cases.len(), base.join("\t||\t")),
    Some((i, r)) => format!("DIFF\t{}\t{}\t||\t{}", i, base[i], r),
  }
}

fn thread_cold(parts: &[&str]) -> String {
  use std::collections::BTreeSet;
  use std::sync::Mutex;
  let n: usize = parts[1].parse().unwrap_or(16);
  let iters: usize = parts[2].parse().unwrap_or(2);
  let mut cases: Vec<(String, String, Vec<u8>)> = Vec::new();
  for spec in &parts[3..] {
    let f: Vec<&str> = spec.split(':').collect();
    if f.len() != 3 {
      return "?".to_string();
    }
    cases.push((f[0].to_string(), impl_driver::unhex_str(f[1]), impl_driver::unhex(f[2])));
  }
  let m = cases.len();
  let cases = Arc::new(cases);
  let seen: Arc<Vec<Mutex<BTreeSet<String>>>> = Arc::new((0..m).map(|_| Mutex::new(BTreeSet::new())).collect());
  let barrier = Arc::new(Barrier::new(n));
  let mut hs = Vec::new();
  for t in 0..n {
    let (cases, seen, b) = (cases.clone(), seen.clone(), barrier.clone());
    hs.push(std::thread::spawn(move || {
      b.wait();
      for _ in 0..iters {
        for k in 0..m {
          let i = (k + t) % m;
          let (w, s, d) = &cases[i];
          let r = call(w, s, d);
          seen[i].lock().unwrap().insert(r);
        }
      }
    }));
  }
  for h in hs {
    if h.join().is_err() {
      return "THREAD-PANIC".to_string();
    }
  }
  let sets: Vec<String> = seen
    .iter()
    .map(|s| s.lock().unwrap().iter().cloned().collect::<Vec<String>>().join("\t&&\t"))
    .collect();
  format!("SETS\t||\t{}", sets.join("\t||\t"))
}

fn dispatch(parts: &[&str]) -> String {
  match parts[0] {
    "J" if parts.len() >= 3 => thrice("J", parts),
    "C" if parts.len() >= 3 => thrice("C", parts),
    "T" if parts.len() >= 6 => threads(parts),
    "TB" if parts.len() >= 4 => thread_batch(parts),
    "TC" if parts.len() >= 4 => thread_cold(parts),
    "X" => "X".to_string(),
    _ => "?".to_string(),
  }
}

fn main() {
  impl_driver::serve(dispatch);
}
