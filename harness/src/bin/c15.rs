// C15: source positions. One request per line:
//   P\t<hex of UTF-8 text>
// Answer (one line):
//   OK\t<nodes>\t<pairs>\t<checked>
//     nodes  = space-separated  kind:start:end:line:parent:extra   (pre-order walk of the real AST,
//              parent = index of the enclosing span-carrying node or -1; extra = hex(socket prefix + ident) for
//              identifiers, "-" otherwise)
//     pairs  = space-separated  rule:start:end  of the pest pairs of the structural grammar rules
//     checked = "-" or the error (same format as below, without the leading ERR) that
//              cddl_from_pest_str_checked (used by CDDL::from_slice) reports when the unchecked parse succeeds
//   ERR\t<origin>\t<pestpos>\t<pestline>\t<pestcol>\t<index>\t<line>\t<column>\t<a>\t<b>\t<hex short msg>
//     origin = pest (CddlParser::parse failed; pestpos = pest's failure offset) | bridge (pest accepted, the bridge rejected;
//              pestpos/pestline/pestcol = -)
//   NOPOS\t<text>   an error variant without position
//   X\t<hex of UTF-8 text>  -> see sweep()
use cddl::ast::*;
use cddl::parser::Error;
use cddl::pest_bridge::{cddl_from_pest_str, cddl_from_pest_str_checked};
use cddl::pest_parser::{CddlParser, Rule as PRule};
use pest::Parser;

struct W {
  nodes: Vec<String>,
}

impl W {
  fn add(&mut self, kind: &str, span: Span, parent: isize, extra: &str) -> isize {
    self.nodes.push(format!(
      "{}:{}:{}:{}:{}:{}",
      kind, span.0, span.1, span.2, parent, extra
    ));
    (self.nodes.len() - 1) as isize
  }

  fn ident(&mut self, role: &str, id: &Identifier, parent: isize) {
    let text = format!("{}", id); // Display = socket prefix + ident
    self.add(
      &format!("Ident.{}", role),
      id.span,
      parent,
      &format!("x{}", hex::encode(text.as_bytes())),
    );
  }

  fn rule(&mut self, r: &Rule) {
    match r {
      Rule::Type { rule, span, .. } => {
        let me = self.add("RuleT", *span, -1, "-");
        self.ident("rulename", &rule.name, me);
        if let Some(gp) = &rule.generic_params {
          self.generic_params(gp, me);
        }
        self.ty(&rule.value, me);
      }
      Rule::Group { rule, span, .. } => {
        let me = self.add("RuleG", *span, -1, "-");
        self.ident("rulename", &rule.name, me);
        if let Some(gp) = &rule.generic_params {
          self.generic_params(gp, me);
        }
        self.group_entry(&rule.entry, me);
      }
    }
  }

  fn generic_params(&mut self, gp: &GenericParams, parent: isize) {
    let me = self.add("GenericParams", gp.span, parent, "-");
    for p in &gp.params {
      self.ident("param", &p.param, me);
    }
  }

  fn generic_args(&mut self, ga: &GenericArgs, parent: isize) {
    let me = self.add("GenericArgs", ga.span, parent, "-");
    for a in &ga.args {
      self.type1(&a.arg, me);
    }
  }

  fn ty(&mut self, t: &Type, parent: isize) {
    let me = self.add("Type", t.span, parent, "-");
    for tc in &t.type_choices {
      self.type1(&tc.type1, me);
    }
  }

  fn type1(&mut self, t1: &Type1, parent: isize) {
    let me = self.add("Type1", t1.span, parent, "-");
    self.type2(&t1.type2, me, "");
    if let Some(op) = &t1.operator {
      match &op.operator {
        RangeCtlOp::RangeOp { span, .. } => {
          self.add("Op.Range", *span, me, "-");
        }
        RangeCtlOp::CtlOp { span, .. } => {
          self.add("Op.Ctl", *span, me, "-");
        }
      }
      self.type2(&op.type2, me, "c");
    }
  }

  // role "" = first operand, "c" = second operand of a range / controller of a control
  fn type2(&mut self, t2: &Type2, parent: isize, role: &str) {
    let k = |n: &str| format!("T2{}.{}", role, n);
    match t2 {
      Type2::IntValue { span, .. } => {
        self.add(&k("Int"), *span, parent, "-");
      }
      Type2::UintValue { span, .. } => {
        self.add(&k("Uint"), *span, parent, "-");
      }
      Type2::FloatValue { span, .. } => {
        self.add(&k("Float"), *span, parent, "-");
      }
      Type2::TextValue { span, .. } => {
        self.add(&k("Text"), *span, parent, "-");
      }
      Type2::UTF8ByteString { span, .. } => {
        self.add(&k("Utf8Bytes"), *span, parent, "-");
      }
      Type2::B16ByteString { span, .. } => {
        self.add(&k("B16"), *span, parent, "-");
      }
      Type2::B64ByteString { span, .. } => {
        self.add(&k("B64"), *span, parent, "-");
      }
      Type2::Typename {
        ident,
        generic_args,
        span,
      } => {
        let me = self.add(&k("Typename"), *span, parent, "-");
        self.ident("ref", ident, me);
        if let Some(ga) = generic_args {
          self.generic_args(ga, me);
        }
      }
      Type2::ParenthesizedType { pt, span, .. } => {
        let me = self.add(&k("Paren"), *span, parent, "-");
        self.ty(pt, me);
      }
      Type2::Map { group, span, .. } => {
        let me = self.add(&k("Map"), *span, parent, "-");
        self.group(group, me);
      }
      Type2::Array { group, span, .. } => {
        let me = self.add(&k("Array"), *span, parent, "-");
        self.group(group, me);
      }
      Type2::Unwrap {
        ident,
        generic_args,
        span,
        ..
      } => {
        let me = self.add(&k("Unwrap"), *span, parent, "-");
        self.ident("ref", ident, me);
        if let Some(ga) = generic_args {
          self.generic_args(ga, me);
        }
      }
      Type2::ChoiceFromInlineGroup { group, span, .. } => {
        let me = self.add(&k("ChoiceInline"), *span, parent, "-");
        self.group(group, me);
      }
      Type2::ChoiceFromGroup {
        ident,
        generic_args,
        span,
        ..
      } => {
        let me = self.add(&k("ChoiceGroup"), *span, parent, "-");
        self.ident("ref", ident, me);
        if let Some(ga) = generic_args {
          self.generic_args(ga, me);
        }
      }
      Type2::TaggedData { t, span, .. } => {
        let me = self.add(&k("Tagged"), *span, parent, "-");
        // a tag without content (`#6.32`) carries a synthesised empty Type
        if t.type_choices.is_empty() {
          self.add("Type.emptytag", t.span, me, "-");
        } else {
          self.ty(t, me);
        }
      }
      Type2::DataMajorType { span, .. } => {
        self.add(&k("Major"), *span, parent, "-");
      }
      Type2::Any { span } => {
        self.add(&k("Any"), *span, parent, "-");
      }
    }
  }

  fn group(&mut self, g: &Group, parent: isize) {
    let me = self.add("Group", g.span, parent, "-");
    for gc in &g.group_choices {
      let c = self.add("GroupChoice", gc.span, me, "-");
      for (ge, _) in &gc.group_entries {
        self.group_entry(ge, c);
      }
    }
  }

  fn occur(&mut self, o: &Option<Occurrence>, parent: isize) {
    if let Some(o) = o {
      match &o.occur {
        Occur::Exact { span, .. } => self.add("Occ.Exact", *span, parent, "-"),
        Occur::ZeroOrMore { span } => self.add("Occ.Star", *span, parent, "-"),
        Occur::OneOrMore { span } => self.add("Occ.Plus", *span, parent, "-"),
        Occur::Optional { span } => self.add("Occ.Opt", *span, parent, "-"),
      };
    }
  }

  fn group_entry(&mut self, ge: &GroupEntry, parent: isize) {
    match ge {
      GroupEntry::ValueMemberKey { ge, span, .. } => {
        let me = self.add("GE.Value", *span, parent, "-");
        self.occur(&ge.occur, me);
        if let Some(mk) = &ge.member_key {
          match mk {
            MemberKey::Type1 { t1, span, .. } => {
              let m = self.add("MK.Type1", *span, me, "-");
              self.type1(t1, m);
            }
            MemberKey::Bareword { ident, span, .. } => {
              let m = self.add("MK.Bareword", *span, me, "-");
              self.ident("key", ident, m);
            }
            MemberKey::Value { span, .. } => {
              self.add("MK.Value", *span, me, "-");
            }
            MemberKey::NonMemberKey { non_member_key, .. } => match non_member_key {
              NonMemberKey::Group(g) => self.group(g, me),
              NonMemberKey::Type(t) => self.ty(t, me),
            },
          }
        }
        if ge.entry_type.type_choices.is_empty() {
          self.add("Type.emptyentry", ge.entry_type.span, me, "-");
        } else {
          self.ty(&ge.entry_type, me);
        }
      }
      GroupEntry::TypeGroupname { ge, span, .. } => {
        let me = self.add("GE.Name", *span, parent, "-");
        self.occur(&ge.occur, me);
        self.ident("ref", &ge.name, me);
        if let Some(ga) = &ge.generic_args {
          self.generic_args(ga, me);
        }
      }
      GroupEntry::InlineGroup {
        occur, group, span, ..
      } => {
        let me = self.add("GE.Inline", *span, parent, "-");
        self.occur(occur, me);
        self.group(group, me);
      }
    }
  }
}

fn structural(r: PRule) -> Option<&'static str> {
  Some(match r {
    PRule::rule => "rule",
    PRule::typename => "typename",
    PRule::groupname => "groupname",
    PRule::id => "id",
    PRule::bareword => "bareword",
    PRule::generic_params => "generic_params",
    PRule::generic_args => "generic_args",
    PRule::type_expr => "type_expr",
    PRule::type1 => "type1",
    PRule::type2 => "type2",
    PRule::tag_expr => "tag_expr",
    PRule::range_op => "range_op",
    PRule::control_op => "control_op",
    PRule::group => "group",
    PRule::group_choice => "group_choice",
    PRule::group_entry => "group_entry",
    PRule::member_key => "member_key",
    PRule::occur_exact => "occur_n",
    PRule::occur_range => "occur_n",
    PRule::occur_zero_or_more => "occur_star",
    PRule::occur_one_or_more => "occur_plus",
    PRule::occur_optional => "occur_opt",
    PRule::value => "value",
    _ => return None,
  })
}

fn dump_pairs(pair: pest::iterators::Pair<PRule>, out: &mut Vec<String>) {
  if let Some(n) = structural(pair.as_rule()) {
    let s = pair.as_span();
    out.push(format!("{}:{}:{}", n, s.start(), s.end()));
  }
  for p in pair.into_inner() {
    dump_pairs(p, out);
  }
}

fn err_fields(e: &Error, origin: &str, pest: Option<(usize, usize, usize)>) -> String {
  match e {
    Error::PARSER { position, msg } => {
      let (pp, pl, pc) = match pest {
        Some((p, l, c)) => (p.to_string(), l.to_string(), c.to_string()),
        None => ("-".into(), "-".into(), "-".into()),
      };
      format!(
        "{}\t{}\t{}\t{}\t{}\t{}\t{}\t{}\t{}\tx{}",
        origin,
        pp,
        pl,
        pc,
        position.index,
        position.line,
        position.column,
        position.range.0,
        position.range.1,
        hex::encode(msg.short.as_bytes())
      )
    }
    other => format!("NOPOS\t{}", hex::encode(format!("{}", other).as_bytes())),
  }
}

thread_local! {
  // every document of a run is parsed out of ONE reused buffer (same address, different contents): positions must not
  // depend on what was parsed before from the same place (seeded C15-3: a line cursor keyed by the input's address)
  static BUF: std::cell::RefCell<String> = std::cell::RefCell::new(String::with_capacity(1 << 20));
}

fn parse(parts: &[&str]) -> String {
  let decoded = match String::from_utf8(impl_driver::unhex(parts[1])) {
    Ok(t) => t,
    Err(_) => return "BADUTF8".to_string(),
  };
  BUF.with(|b| {
    let mut b = b.borrow_mut();
    b.clear();
    b.push_str(&decoded);
    parse_text(b.as_str())
  })
}

fn parse_text(text: &str) -> String {
  // pest's own verdict and failure offset (input of the ErrRange model)
  let pest_res = CddlParser::parse(PRule::cddl, &text);
  let pest_err = match &pest_res {
    Ok(_) => None,
    Err(e) => {
      let p = match e.location {
        pest::error::InputLocation::Pos(p) => p,
        pest::error::InputLocation::Span((s, _)) => s,
      };
      let (l, c) = match e.line_col {
        pest::error::LineColLocation::Pos(lc) => lc,
        pest::error::LineColLocation::Span(lc, _) => lc,
      };
      Some((p, l, c))
    }
  };
  match cddl_from_pest_str(&text) {
    Ok(cddl) => {
      let mut w = W { nodes: Vec::new() };
      for r in &cddl.rules {
        w.rule(r);
      }
      let mut pairs = Vec::new();
      if let Ok(ps) = pest_res {
        for p in ps {
          dump_pairs(p, &mut pairs);
        }
      }
      let checked = match cddl_from_pest_str_checked(&text) {
        Ok(_) => "-".to_string(),
        Err(e) => err_fields(&e, "checked", None).replace('\t', ","),
      };
      format!(
        "OK\t{}\t{}\t{}",
        if w.nodes.is_empty() {
          "-".to_string()
        } else {
          w.nodes.join(" ")
        },
        if pairs.is_empty() {
          "-".to_string()
        } else {
          pairs.join(" ")
        },
        checked
      )
    }
    Err(e) => {
      let origin = if pest_err.is_some() { "pest" } else { "bridge" };
      let f = err_fields(&e, origin, pest_err);
      if f.starts_with("NOPOS") {
        f
      } else {
        format!("ERR\t{}", f)
      }
    }
  }
}

// X\t<hex>: the public convert_pest_error on a pest error built at EVERY character-boundary offset of the text.
// Answer: comma-separated "p index line column a b" (decimal)
fn sweep(parts: &[&str]) -> String {
  let text = match String::from_utf8(impl_driver::unhex(parts[1])) {
    Ok(t) => t,
    Err(_) => return "BADUTF8".to_string(),
  };
  let mut out = Vec::new();
  for p in 0..=text.len() {
    if !text.is_char_boundary(p) {
      continue;
    }
    let pos = pest::Position::new(&text, p).unwrap();
    let e = pest::error::Error::<PRule>::new_from_pos(
      pest::error::ErrorVariant::CustomError {
        message: String::new(),
      },
      pos,
    );
    match cddl::pest_bridge::convert_pest_error(e, &text) {
      Error::PARSER { position, .. } => out.push(format!(
        "{} {} {} {} {} {}",
        p, position.index, position.line, position.column, position.range.0, position.range.1
      )),
      _ => out.push(format!("{} ?", p)),
    }
  }
  out.join(",")
}

fn dispatch(parts: &[&str]) -> String {
  match parts[0] {
    "P" if parts.len() >= 2 => parse(parts),
    "X" if parts.len() >= 2 => sweep(parts),
    _ => "?".to_string(),
  }
}

fn main() {
  impl_driver::serve(dispatch);
}
