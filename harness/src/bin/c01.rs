// Validator driver shared by C01, C02, C04, C08, C09, C10:
//   J <schema hex> <json text hex>   -> T | F <first error> | E <kind>: <msg>
//   C <schema hex> <cbor hex>        -> T | F <first error> | E <kind>: <msg>
use impl_driver::{unhex, unhex_str};

fn clip(s: String) -> String {
  // one response = one line for every line splitter: control characters and the Unicode line separators that may occur in a
  // quoted document value inside an error message are blanked
  s.chars()
    .map(|c| if c.is_control() || c == '\u{2028}' || c == '\u{2029}' || c == '\u{85}' { ' ' } else { c })
    .take(200)
    .collect()
}

fn json(parts: &[&str]) -> String {
  let schema = unhex_str(parts[1]);
  let doc = unhex_str(parts[2]);
  match cddl::validate_json_from_str(&schema, &doc, None) {
    Ok(()) => "T".to_string(),
    Err(cddl::validator::json::Error::Validation(errs)) => {
      format!("F {}", clip(errs.first().map(|e| e.to_string()).unwrap_or_default()))
    }
    Err(cddl::validator::json::Error::CDDLParsing(m)) => format!("E schema: {}", clip(m)),
    Err(cddl::validator::json::Error::JSONParsing(m)) => format!("E json: {}", clip(m.to_string())),
    Err(e) => format!("E other: {}", clip(e.to_string())),
  }
}

fn cbor(parts: &[&str]) -> String {
  let schema = unhex_str(parts[1]);
  let doc = unhex(parts[2]);
  match cddl::validate_cbor_from_slice(&schema, &doc, None) {
    Ok(()) => "T".to_string(),
    Err(cddl::validator::cbor::Error::Validation(errs)) => {
      format!("F {}", clip(errs.first().map(|e| e.to_string()).unwrap_or_default()))
    }
    Err(cddl::validator::cbor::Error::CDDLParsing(m)) => format!("E schema: {}", clip(m)),
    Err(e) => format!("E other: {}", clip(e.to_string())),
  }
}

fn dispatch(parts: &[&str]) -> String {
  match parts[0] {
    "J" => json(parts),
    "C" => cbor(parts),
    _ => "?".to_string(),
  }
}

fn main() {
  impl_driver::serve(dispatch);
}
