include!("c06.rs");
