// C20: ParentVisitor returns the syntactic parent of every AST node.
//
// P\t<hex of the CDDL text>  ->  one line:
// (D\t<hex>\t<i> prints the Debug rendering of the i-th walked node; used by --replay only)
//   REJECT [parser-panic]          the document is not accepted by cddl_from_str(text, true)
//   BUILDERR <msg>                 ParentVisitor::new returned Err
//   OK\t<tree>\t<answers>\t<ptr>\t<flags>\t<spans>\t<eqspan>
//     tree    = the AST walked by THIS driver (by the AST types, not by the visitor), in preorder, one token per node:
//               <kind>.<label>.<number of children>
//               kind  = index of the CDDLType variant (0 CDDL .. 25 NonMemberKey), Type2 nodes are 100 + variant index
//               label = equivalence class of the node's CDDLType value under the crate's own `==`
//                       (class id = preorder index of the first node that compares equal)
//     answers = per node, the result of the real `CDDLType::parent(&pv)`:
//               `-` (None) | label of the returned node | `?` (the returned value equals no walked node)
//     ptr     = per node: `=` returned reference is pointer-identical to the true syntactic parent,
//               `~` it is a different object, `-` nothing returned / root
//     spans   = per node: the node's OWN position field `start:end:line` (Rule, Group, GroupChoice, GenericParams,
//               GenericArgs, GroupEntry, Identifier, Type, Type1, Type2, RangeCtlOp, Occur, MemberKey), `-` for the node
//               kinds that carry none (CDDL, TypeRule, GroupRule, GenericParam, GenericArg, TypeChoice, Operator,
//               ControlOperator, Occurrence, Value, ValueMemberKeyEntry, TypeGroupnameEntry, NonMemberKey)
//     eqspan  = computed over every pair of walked nodes that compare `==`: comma separated `<kind>:<i>:<j>`, one
//               example pair per node kind for which two nodes are `==` although both carry a span and the spans
//               differ (the equality of that kind ignores the position), empty when there is none
//     flags   = comma separated: `eq-not-equivalence` when `==` on the walked CDDLType values is not an
//               equivalence relation on this document, `typed-mismatch:<i>` when the typed `Parent` trait query at
//               node i disagrees with `CDDLType::parent` (checked for the impls listed in typed()), `root-typed-some`
//
// Children are listed in the order in which the visitor registers them (Type1: operator, type2; Operator: type2,
// operator; TypeGroupnameEntry: occur, generic_args, name), which is a convention of the tree encoding only:
// the true parent of a node is defined by containment in the AST value, not by any order.
use cddl::ast::parent::{Parent, ParentVisitor};
use cddl::ast::*;
use cddl::token::{ByteValue, ControlOperator, Value};
use std::borrow::Cow;

struct Nd<'a> {
  ty: CDDLType<'a, 'a>,
  kind: u32,
  parent: Option<usize>,
  nch: usize,
}

struct Walk<'a> {
  nodes: Vec<Nd<'a>>,
}

impl<'a> Walk<'a> {
  fn add(&mut self, ty: CDDLType<'a, 'a>, kind: u32, parent: Option<usize>) -> usize {
    let i = self.nodes.len();
    self.nodes.push(Nd {
      ty,
      kind,
      parent,
      nch: 0,
    });
    if let Some(p) = parent {
      self.nodes[p].nch += 1;
    }
    i
  }

  fn cddl(&mut self, c: &'a CDDL<'a>) {
    let i = self.add(CDDLType::CDDL(c), 0, None);
    for r in c.rules.iter() {
      self.rule(r, i);
    }
  }

  fn rule(&mut self, r: &'a Rule<'a>, p: usize) {
    let i = self.add(CDDLType::Rule(r), 1, Some(p));
    match r {
      Rule::Type { rule, .. } => self.type_rule(rule, i),
      Rule::Group { rule, .. } => self.group_rule(rule, i),
    }
  }

  fn type_rule(&mut self, tr: &'a TypeRule<'a>, p: usize) {
    let i = self.add(CDDLType::TypeRule(tr), 2, Some(p));
    self.ident(&tr.name, i);
    if let Some(gp) = &tr.generic_params {
      self.generic_params(gp, i);
    }
    self.ty(&tr.value, i);
  }

  fn group_rule(&mut self, gr: &'a GroupRule<'a>, p: usize) {
    let i = self.add(CDDLType::GroupRule(gr), 3, Some(p));
    self.ident(&gr.name, i);
    if let Some(gp) = &gr.generic_params {
      self.generic_params(gp, i);
    }
    self.group_entry(&gr.entry, i);
  }

  fn ident(&mut self, id: &'a Identifier<'a>, p: usize) {
    self.add(CDDLType::Identifier(id), 11, Some(p));
  }

  fn generic_params(&mut self, gp: &'a GenericParams<'a>, p: usize) {
    let i = self.add(CDDLType::GenericParams(gp), 6, Some(p));
    for prm in gp.params.iter() {
      let j = self.add(CDDLType::GenericParam(prm), 7, Some(i));
      self.ident(&prm.param, j);
    }
  }

  fn generic_args(&mut self, ga: &'a GenericArgs<'a>, p: usize) {
    let i = self.add(CDDLType::GenericArgs(ga), 8, Some(p));
    for a in ga.args.iter() {
      let j = self.add(CDDLType::GenericArg(a), 9, Some(i));
      self.type1(&a.arg, j);
    }
  }

  fn ty(&mut self, t: &'a Type<'a>, p: usize) {
    let i = self.add(CDDLType::Type(t), 12, Some(p));
    for tc in t.type_choices.iter() {
      let j = self.add(CDDLType::TypeChoice(tc), 13, Some(i));
      self.type1(&tc.type1, j);
    }
  }

  fn type1(&mut self, t1: &'a Type1<'a>, p: usize) {
    let i = self.add(CDDLType::Type1(t1), 14, Some(p));
    if let Some(op) = &t1.operator {
      let j = self.add(CDDLType::Operator(op), 16, Some(i));
      self.type2(&op.type2, j);
      let k = self.add(CDDLType::RangeCtlOp(&op.operator), 17, Some(j));
      if let RangeCtlOp::CtlOp { ctrl, .. } = &op.operator {
        let c: &'a ControlOperator = ctrl;
        self.add(CDDLType::ControlOperator(c), 18, Some(k));
      }
    }
    self.type2(&t1.type2, i);
  }

  fn value(&mut self, v: Value<'a>, p: usize) {
    self.add(CDDLType::Value(v), 21, Some(p));
  }

  fn type2(&mut self, t2: &'a Type2<'a>, p: usize) {
    let variant: u32 = match t2 {
      Type2::IntValue { .. } => 0,
      Type2::UintValue { .. } => 1,
      Type2::FloatValue { .. } => 2,
      Type2::TextValue { .. } => 3,
      Type2::UTF8ByteString { .. } => 4,
      Type2::B16ByteString { .. } => 5,
      Type2::B64ByteString { .. } => 6,
      Type2::Typename { .. } => 7,
      Type2::ParenthesizedType { .. } => 8,
      Type2::Map { .. } => 9,
      Type2::Array { .. } => 10,
      Type2::Unwrap { .. } => 11,
      Type2::ChoiceFromInlineGroup { .. } => 12,
      Type2::ChoiceFromGroup { .. } => 13,
      Type2::TaggedData { .. } => 14,
      Type2::DataMajorType { .. } => 15,
      Type2::Any { .. } => 16,
    };
    let i = self.add(CDDLType::Type2(t2), 100 + variant, Some(p));
    match t2 {
      Type2::IntValue { value, .. } => self.value(Value::INT(*value), i),
      Type2::UintValue { value, .. } => self.value(Value::UINT(*value), i),
      Type2::FloatValue { value, .. } => self.value(Value::FLOAT(*value), i),
      Type2::TextValue { value, .. } => self.value(Value::TEXT(Cow::Borrowed(value)), i),
      Type2::UTF8ByteString { value, .. } => {
        self.value(Value::BYTE(ByteValue::UTF8(Cow::Borrowed(value))), i)
      }
      Type2::B16ByteString { value, .. } => {
        self.value(Value::BYTE(ByteValue::B16(Cow::Borrowed(value))), i)
      }
      Type2::B64ByteString { value, .. } => {
        self.value(Value::BYTE(ByteValue::B64(Cow::Borrowed(value))), i)
      }
      Type2::Typename {
        ident,
        generic_args,
        ..
      }
      | Type2::Unwrap {
        ident,
        generic_args,
        ..
      }
      | Type2::ChoiceFromGroup {
        ident,
        generic_args,
        ..
      } => {
        self.ident(ident, i);
        if let Some(ga) = generic_args {
          self.generic_args(ga, i);
        }
      }
      Type2::ParenthesizedType { pt, .. } => self.ty(pt, i),
      Type2::Map { group, .. }
      | Type2::Array { group, .. }
      | Type2::ChoiceFromInlineGroup { group, .. } => self.group(group, i),
      Type2::TaggedData { t, .. } => self.ty(t, i),
      Type2::DataMajorType { .. } | Type2::Any { .. } => (),
    }
  }

  fn group(&mut self, g: &'a Group<'a>, p: usize) {
    let i = self.add(CDDLType::Group(g), 4, Some(p));
    for gc in g.group_choices.iter() {
      let j = self.add(CDDLType::GroupChoice(gc), 5, Some(i));
      for (ge, _) in gc.group_entries.iter() {
        self.group_entry(ge, j);
      }
    }
  }

  fn occurrence(&mut self, o: &'a Occurrence<'a>, p: usize) {
    let i = self.add(CDDLType::Occurrence(o), 19, Some(p));
    self.add(CDDLType::Occur(o.occur), 20, Some(i));
  }

  fn group_entry(&mut self, ge: &'a GroupEntry<'a>, p: usize) {
    let i = self.add(CDDLType::GroupEntry(ge), 10, Some(p));
    match ge {
      GroupEntry::ValueMemberKey { ge, .. } => {
        let j = self.add(CDDLType::ValueMemberKeyEntry(ge), 22, Some(i));
        if let Some(o) = &ge.occur {
          self.occurrence(o, j);
        }
        if let Some(mk) = &ge.member_key {
          self.member_key(mk, j);
        }
        self.ty(&ge.entry_type, j);
      }
      GroupEntry::TypeGroupname { ge, .. } => {
        let j = self.add(CDDLType::TypeGroupnameEntry(ge), 23, Some(i));
        if let Some(o) = &ge.occur {
          self.occurrence(o, j);
        }
        if let Some(ga) = &ge.generic_args {
          self.generic_args(ga, j);
        }
        self.ident(&ge.name, j);
      }
      GroupEntry::InlineGroup { occur, group, .. } => {
        if let Some(o) = occur {
          self.occurrence(o, i);
        }
        self.group(group, i);
      }
    }
  }

  fn member_key(&mut self, mk: &'a MemberKey<'a>, p: usize) {
    let i = self.add(CDDLType::MemberKey(mk), 24, Some(p));
    match mk {
      MemberKey::Type1 { t1, .. } => self.type1(t1, i),
      MemberKey::Bareword { ident, .. } => self.ident(ident, i),
      MemberKey::Value { value, .. } => self.value(value.to_owned(), i),
      MemberKey::NonMemberKey { non_member_key, .. } => {
        let j = self.add(CDDLType::NonMemberKey(non_member_key), 25, Some(i));
        match non_member_key {
          NonMemberKey::Group(g) => self.group(g, j),
          NonMemberKey::Type(t) => self.ty(t, j),
        }
      }
    }
  }
}

/// the node's own span field, if its type has one
fn own_span(t: &CDDLType) -> Option<Span> {
  match t {
    CDDLType::Rule(r) => Some(match r {
      Rule::Type { span, .. } => *span,
      Rule::Group { span, .. } => *span,
    }),
    CDDLType::Group(g) => Some(g.span),
    CDDLType::GroupChoice(g) => Some(g.span),
    CDDLType::GenericParams(g) => Some(g.span),
    CDDLType::GenericArgs(g) => Some(g.span),
    CDDLType::GroupEntry(g) => Some(match g {
      GroupEntry::ValueMemberKey { span, .. } => *span,
      GroupEntry::TypeGroupname { span, .. } => *span,
      GroupEntry::InlineGroup { span, .. } => *span,
    }),
    CDDLType::Identifier(i) => Some(i.span),
    CDDLType::Type(t) => Some(t.span),
    CDDLType::Type1(t) => Some(t.span),
    CDDLType::Type2(t) => Some(match t {
      Type2::IntValue { span, .. }
      | Type2::UintValue { span, .. }
      | Type2::FloatValue { span, .. }
      | Type2::TextValue { span, .. }
      | Type2::UTF8ByteString { span, .. }
      | Type2::B16ByteString { span, .. }
      | Type2::B64ByteString { span, .. }
      | Type2::Typename { span, .. }
      | Type2::ParenthesizedType { span, .. }
      | Type2::Map { span, .. }
      | Type2::Array { span, .. }
      | Type2::Unwrap { span, .. }
      | Type2::ChoiceFromInlineGroup { span, .. }
      | Type2::ChoiceFromGroup { span, .. }
      | Type2::TaggedData { span, .. }
      | Type2::DataMajorType { span, .. }
      | Type2::Any { span } => *span,
    }),
    CDDLType::RangeCtlOp(o) => Some(match o {
      RangeCtlOp::RangeOp { span, .. } => *span,
      RangeCtlOp::CtlOp { span, .. } => *span,
    }),
    CDDLType::Occur(o) => Some(match o {
      Occur::Exact { span, .. } => *span,
      Occur::ZeroOrMore { span } => *span,
      Occur::OneOrMore { span } => *span,
      Occur::Optional { span } => *span,
    }),
    CDDLType::MemberKey(m) => match m {
      MemberKey::Type1 { span, .. } => Some(*span),
      MemberKey::Bareword { span, .. } => Some(*span),
      MemberKey::Value { span, .. } => Some(*span),
      MemberKey::NonMemberKey { .. } => None,
    },
    CDDLType::CDDL(_)
    | CDDLType::TypeRule(_)
    | CDDLType::GroupRule(_)
    | CDDLType::GenericParam(_)
    | CDDLType::GenericArg(_)
    | CDDLType::TypeChoice(_)
    | CDDLType::Operator(_)
    | CDDLType::ControlOperator(_)
    | CDDLType::Occurrence(_)
    | CDDLType::Value(_)
    | CDDLType::ValueMemberKeyEntry(_)
    | CDDLType::TypeGroupnameEntry(_)
    | CDDLType::NonMemberKey(_) => None,
  }
}

macro_rules! ptr_eq_variants {
  ($a:expr, $b:expr, $($v:ident),*) => {
    match ($a, $b) {
      $( (CDDLType::$v(x), CDDLType::$v(y)) => std::ptr::eq(*x, *y), )*
      _ => false,
    }
  };
}

fn same_ptr(a: &CDDLType, b: &CDDLType) -> bool {
  ptr_eq_variants!(
    a,
    b,
    CDDL,
    Rule,
    TypeRule,
    GroupRule,
    Group,
    GroupChoice,
    GenericParams,
    GenericParam,
    GenericArgs,
    GenericArg,
    GroupEntry,
    Identifier,
    Type,
    TypeChoice,
    Type1,
    Type2,
    Operator,
    RangeCtlOp,
    ControlOperator,
    Occurrence,
    ValueMemberKeyEntry,
    TypeGroupnameEntry,
    MemberKey,
    NonMemberKey
  )
}

/// The typed `Parent` trait query at a node, for the (child, parent) impls that exist:
/// Some(kind of the returned parent) / None. `Err(())` when no typed impl applies to this pair.
/// The typed query must return Some exactly when `CDDLType::parent` returned a node of that parent variant.
fn typed<'a>(
  child: &'a CDDLType<'a, 'a>,
  want_kind: u32,
  pv: &'a ParentVisitor<'a, 'a>,
) -> Result<Option<CDDLType<'a, 'a>>, ()> {
  let wk = if want_kind >= 100 { 15 } else { want_kind };
  macro_rules! q {
    ($x:expr, $pt:ty, $var:ident) => {{
      let r: Option<&$pt> = $x.parent(pv);
      Ok(r.map(|v| CDDLType::$var(v)))
    }};
  }
  match (child, wk) {
    (CDDLType::Rule(x), 0) => q!(x, CDDL, CDDL),
    (CDDLType::TypeRule(x), 1) => q!(x, Rule, Rule),
    (CDDLType::GroupRule(x), 1) => q!(x, Rule, Rule),
    (CDDLType::Identifier(x), 2) => q!(x, TypeRule, TypeRule),
    (CDDLType::GenericParams(x), 2) => q!(x, TypeRule, TypeRule),
    (CDDLType::Type(x), 2) => q!(x, TypeRule, TypeRule),
    (CDDLType::Identifier(x), 3) => q!(x, GroupRule, GroupRule),
    (CDDLType::GenericParams(x), 3) => q!(x, GroupRule, GroupRule),
    (CDDLType::GroupEntry(x), 3) => q!(x, GroupRule, GroupRule),
    (CDDLType::TypeChoice(x), 12) => q!(x, Type, Type),
    (CDDLType::Type1(x), 13) => q!(x, TypeChoice, TypeChoice),
    (CDDLType::Operator(x), 14) => q!(x, Type1, Type1),
    (CDDLType::Type2(x), 14) => q!(x, Type1, Type1),
    (CDDLType::Type2(x), 16) => q!(x, Operator, Operator),
    (CDDLType::ControlOperator(x), 17) => q!(x, RangeCtlOp, RangeCtlOp),
    (CDDLType::Identifier(x), 15) => q!(x, Type2, Type2),
    (CDDLType::GenericArgs(x), 15) => q!(x, Type2, Type2),
    (CDDLType::Type(x), 15) => q!(x, Type2, Type2),
    (CDDLType::Group(x), 15) => q!(x, Type2, Type2),
    (CDDLType::Value(x), 15) => q!(x, Type2, Type2),
    (CDDLType::GroupChoice(x), 4) => q!(x, Group, Group),
    (CDDLType::GroupEntry(x), 5) => q!(x, GroupChoice, GroupChoice),
    (CDDLType::ValueMemberKeyEntry(x), 10) => q!(x, GroupEntry, GroupEntry),
    (CDDLType::TypeGroupnameEntry(x), 10) => q!(x, GroupEntry, GroupEntry),
    (CDDLType::Occurrence(x), 10) => q!(x, GroupEntry, GroupEntry),
    (CDDLType::Group(x), 10) => q!(x, GroupEntry, GroupEntry),
    (CDDLType::Occurrence(x), 22) => q!(x, ValueMemberKeyEntry, ValueMemberKeyEntry),
    (CDDLType::MemberKey(x), 22) => q!(x, ValueMemberKeyEntry, ValueMemberKeyEntry),
    (CDDLType::Type(x), 22) => q!(x, ValueMemberKeyEntry, ValueMemberKeyEntry),
    (CDDLType::Occurrence(x), 23) => q!(x, TypeGroupnameEntry, TypeGroupnameEntry),
    (CDDLType::GenericArgs(x), 23) => q!(x, TypeGroupnameEntry, TypeGroupnameEntry),
    (CDDLType::Identifier(x), 23) => q!(x, TypeGroupnameEntry, TypeGroupnameEntry),
    (CDDLType::Type1(x), 24) => q!(x, MemberKey, MemberKey),
    (CDDLType::Identifier(x), 24) => q!(x, MemberKey, MemberKey),
    (CDDLType::Value(x), 24) => q!(x, MemberKey, MemberKey),
    (CDDLType::GenericArg(x), 8) => q!(x, GenericArgs, GenericArgs),
    (CDDLType::Type1(x), 9) => q!(x, GenericArg, GenericArg),
    (CDDLType::GenericParam(x), 6) => q!(x, GenericParams, GenericParams),
    (CDDLType::Identifier(x), 7) => q!(x, GenericParam, GenericParam),
    (CDDLType::Occur(x), 19) => q!(x, Occurrence, Occurrence),
    _ => Err(()),
  }
}

fn run(text: &str) -> String {
  // a panic inside the parser is not C20's business (the document is not "accepted"): reported as a rejection
  let cddl = match std::panic::catch_unwind(|| cddl::cddl_from_str(text, true)) {
    Ok(Ok(c)) => c,
    Ok(Err(_)) => return "REJECT".to_string(),
    Err(_) => return "REJECT parser-panic".to_string(),
  };
  let pv = match ParentVisitor::new(&cddl) {
    Ok(p) => p,
    Err(e) => return format!("BUILDERR {}", e),
  };
  let mut w = Walk { nodes: Vec::new() };
  w.cddl(&cddl);
  let n = w.nodes.len();
  // equivalence classes under the crate's own ==
  let mut cls: Vec<usize> = Vec::with_capacity(n);
  let spans: Vec<Option<Span>> = w.nodes.iter().map(|x| own_span(&x.ty)).collect();
  // one example pair per kind: nodes that are == although both carry a span and the spans differ
  let mut eqspan: Vec<(u32, usize, usize)> = Vec::new();
  let mut flags: Vec<String> = Vec::new();
  let mut eq_bad = false;
  for i in 0..n {
    let mut c = i;
    for j in 0..i {
      if w.nodes[j].ty == w.nodes[i].ty {
        c = cls[j];
        break;
      }
    }
    // == must be an equivalence relation for the abstraction to labels to make sense
    for j in 0..i {
      let e1 = w.nodes[j].ty == w.nodes[i].ty;
      let e2 = w.nodes[i].ty == w.nodes[j].ty;
      if e1 != e2 || e1 != (cls[j] == c) {
        eq_bad = true;
      }
      if e1 {
        if let (Some(a), Some(b)) = (spans[j], spans[i]) {
          if a != b && !eqspan.iter().any(|x| x.0 == w.nodes[i].kind) {
            eqspan.push((w.nodes[i].kind, j, i));
          }
        }
      }
    }
    #[allow(clippy::eq_op)]
    if !(w.nodes[i].ty == w.nodes[i].ty) {
      eq_bad = true;
    }
    cls.push(c);
  }
  if eq_bad {
    flags.push("eq-not-equivalence".to_string());
  }
  let mut tree = String::new();
  let mut ans = String::new();
  let mut ptr = String::new();
  for i in 0..n {
    if i > 0 {
      tree.push(' ');
      ans.push(' ');
    }
    tree.push_str(&format!("{}.{}.{}", w.nodes[i].kind, cls[i], w.nodes[i].nch));
    let r = w.nodes[i].ty.parent(&pv);
    match r {
      None => {
        ans.push('-');
        ptr.push('-');
      }
      Some(p) => {
        let mut found: Option<usize> = None;
        for j in 0..n {
          if w.nodes[j].ty == *p {
            found = Some(cls[j]);
            break;
          }
        }
        match found {
          Some(c) => ans.push_str(&c.to_string()),
          None => ans.push('?'),
        }
        match w.nodes[i].parent {
          Some(tp) if same_ptr(p, &w.nodes[tp].ty) => ptr.push('='),
          _ => ptr.push('~'),
        }
      }
    }
    // typed trait query against the untyped one
    if let Some(tp) = w.nodes[i].parent {
      if let Ok(t) = typed(&w.nodes[i].ty, w.nodes[tp].kind, &pv) {
        let want_variant = std::mem::discriminant(&w.nodes[tp].ty);
        let expect = match r {
          Some(p) if std::mem::discriminant(p) == want_variant => Some(p),
          _ => None,
        };
        let ok = match (&t, expect) {
          (None, None) => true,
          (Some(a), Some(b)) => same_ptr(a, b),
          _ => false,
        };
        if !ok {
          flags.push(format!("typed-mismatch:{}", i));
        }
      }
    }
  }
  let root_typed: Option<&()> = cddl.parent(&pv);
  if root_typed.is_some() {
    flags.push("root-typed-some".to_string());
  }
  let span_s: Vec<String> = spans
    .iter()
    .map(|x| match x {
      Some((a, b, c)) => format!("{}:{}:{}", a, b, c),
      None => "-".to_string(),
    })
    .collect();
  let eqspan_s: Vec<String> = eqspan.iter().map(|(k, i, j)| format!("{}:{}:{}", k, i, j)).collect();
  format!(
    "OK\t{}\t{}\t{}\t{}\t{}\t{}",
    tree,
    ans,
    ptr,
    flags.join(","),
    span_s.join(" "),
    eqspan_s.join(",")
  )
}

/// D\t<hex>\t<i>: Debug rendering (one line, truncated) of the i-th walked node; diagnostics for replays only
fn debug_node(text: &str, i: usize) -> String {
  let cddl = match cddl::cddl_from_str(text, true) {
    Ok(c) => c,
    Err(_) => return "REJECT".to_string(),
  };
  let mut w = Walk { nodes: Vec::new() };
  w.cddl(&cddl);
  match w.nodes.get(i) {
    Some(n) => {
      let s = format!("{:?}", n.ty).replace('\n', " ").replace('\t', " ");
      s.chars().take(600).collect()
    }
    None => "NONODE".to_string(),
  }
}

fn dispatch(parts: &[&str]) -> String {
  match parts[0] {
    "P" => {
      let text = impl_driver::unhex_str(parts.get(1).copied().unwrap_or(""));
      run(&text)
    }
    "D" => {
      let text = impl_driver::unhex_str(parts.get(1).copied().unwrap_or(""));
      debug_node(&text, parts.get(2).and_then(|x| x.parse().ok()).unwrap_or(0))
    }
    _ => "?".to_string(),
  }
}

fn main() {
  impl_driver::serve(dispatch);
}
