// C05: one public entry point on one input per line, under catch_unwind and a watchdog.
//
//   P  <hex text>                   cddl::cddl_from_str(text, false)                (parse)
//   S  <hex bytes>                  cddl::ast::CDDL::from_slice(bytes)              (checked parse)
//   F  <hex text>                   parse, then Display (to_string) of the AST      (format)
//   J  <hex cddl> <hex json>        cddl::validate_json_from_str(cddl, json, None)
//   C  <hex cddl> <hex cbor>        cddl::validate_cbor_from_slice(cddl, cbor, None)
//   V  <hex cddl> <hex csv> [h]     cddl::validate_csv_from_str(cddl, csv, Some(h == "1"), None)
//   D  <hex cbor> [n]               cddl::validator::cbor_value::decode_cbor(bytes), n times
//   G  <hex text>                   parse, then print the alias environment and the reference environment of the AST
//                                   (detail = "<alias env>\t<ref env>", see fn graph); used by the classifiers only
//   K  <n>                          driver self-test: n = 0 panic, 1 stack overflow, 2 huge allocation, 3 endless loop
//
// Output, one line per case, prefixed "@@\t" (the library itself prints to stdout on some paths, e.g.
// control.rs:619 `println!("controller: ...")`; unmarked lines are ignored by the reader):  <verdict>\t<wall microseconds>\t<cpu microseconds of the main thread>[\t<detail>]
//   verdict = OK | ERR | PANIC (detail = source location and message of the panic) | TIMEOUT
// A stack overflow or an allocator abort kills the process; the Python side sees a short
// output and the exit status, and restarts after the case that died.  The per-case watchdog
// (VERIF_CASE_MS, default 10000; CPU milliseconds of the main thread, so that a loaded machine does not
// produce false timeouts; wall-clock backstop at 8x + 5 s) prints TIMEOUT for the running case and exits
// with status 124.
use std::io::{self, BufRead, Write};
use std::sync::atomic::{AtomicU64, Ordering};
use std::sync::Mutex;
use std::time::{Duration, Instant};

static DEADLINE_MS: AtomicU64 = AtomicU64::new(0); // wall-clock backstop; 0 = no case running
static START_CPU_US: AtomicU64 = AtomicU64::new(0); // cpu time of the main thread when the case started
static PANIC_INFO: Mutex<String> = Mutex::new(String::new());
static DETAIL: Mutex<String> = Mutex::new(String::new());

fn unhex(s: &str) -> Vec<u8> {
  hex::decode(s).unwrap_or_default()
}
fn text(s: &str) -> String {
  String::from_utf8_lossy(&unhex(s)).into_owned()
}

// Reference collector over the crate's own AST visitor.
struct Refs {
  out: Vec<String>,    // every name mentioned; "^" appended when it carries or sits inside generic arguments
  cfg: Vec<String>,    // names used as &name (choice from group)
  starts: Vec<String>, // names in a position from which the validators call the is_ident_* / *_from_ident helpers
  in_generic: u32,
}
impl<'a, 'b> cddl::visitor::Visitor<'a, 'b, std::fmt::Error> for Refs {
  fn visit_identifier(&mut self, ident: &cddl::ast::Identifier<'a>) -> cddl::visitor::Result<std::fmt::Error> {
    self.out.push(format!("{}{}", ident, if self.in_generic > 0 { "^" } else { "" }));
    Ok(())
  }
  fn visit_type1(&mut self, t1: &'b cddl::ast::Type1<'a>) -> cddl::visitor::Result<std::fmt::Error> {
    use cddl::ast::{RangeCtlOp, Type2};
    if let Some(op) = &t1.operator {
      if let RangeCtlOp::CtlOp { .. } = op.operator {
        if let Type2::Typename { ident, .. } = &t1.type2 {
          self.starts.push(ident.to_string());
        }
        if let Type2::Typename { ident, .. } = &op.type2 {
          self.starts.push(ident.to_string());
        }
      }
    }
    cddl::visitor::walk_type1(self, t1)
  }
  fn visit_type2(&mut self, t2: &'b cddl::ast::Type2<'a>) -> cddl::visitor::Result<std::fmt::Error> {
    use cddl::ast::Type2;
    match t2 {
      Type2::Typename { ident, generic_args: Some(ga), .. } => {
        self.out.push(format!("{}^", ident));
        self.in_generic += 1;
        let r = self.visit_generic_args(ga);
        self.in_generic -= 1;
        r
      }
      Type2::Unwrap { ident, generic_args, .. } => {
        self.starts.push(ident.to_string());
        if let Some(ga) = generic_args {
          self.out.push(format!("{}^", ident));
          return self.visit_generic_args(ga);
        }
        cddl::visitor::walk_type2(self, t2)
      }
      Type2::ChoiceFromGroup { ident, generic_args, .. } => {
        self.cfg.push(ident.to_string());
        if let Some(ga) = generic_args {
          self.out.push(format!("{}^", ident));
          return self.visit_generic_args(ga);
        }
        cddl::visitor::walk_type2(self, t2)
      }
      _ => cddl::visitor::walk_type2(self, t2),
    }
  }
  fn visit_generic_args(&mut self, args: &'b cddl::ast::GenericArgs<'a>) -> cddl::visitor::Result<std::fmt::Error> {
    self.in_generic += 1;
    let r = cddl::visitor::walk_generic_args(self, args);
    self.in_generic -= 1;
    r
  }
  fn visit_type_groupname_entry(&mut self, entry: &'b cddl::ast::TypeGroupnameEntry<'a>) -> cddl::visitor::Result<std::fmt::Error> {
    if let Some(ga) = &entry.generic_args {
      self.out.push(format!("{}^", entry.name));
      return self.visit_generic_args(ga);
    }
    cddl::visitor::walk_type_groupname_entry(self, entry)
  }
  fn visit_memberkey(&mut self, mk: &'b cddl::ast::MemberKey<'a>) -> cddl::visitor::Result<std::fmt::Error> {
    if let cddl::ast::MemberKey::Bareword { ident, .. } = mk {
      self.starts.push(ident.to_string());
    }
    cddl::visitor::walk_memberkey(self, mk)
  }
}

// alias env: one entry per TYPE rule, "name:c1,c2,..." with ci the name when the first type2 of the
//   i-th type choice is a bare name and "-" otherwise (exactly what is_ident_* looks at);
// ref env: one entry per rule, "name|flags:r1,r2,..." all names mentioned in the body ("^" = generic edge),
//   flags: "<" generic parameters, "/" choice alternate (/= or //=), "(" group rule;
// starts: names in chase start positions (control target / controller, unwrap, bareword member key);
// cfg: names used as &name.
fn graph(t: &str) -> Option<String> {
  use cddl::ast::{Rule, Type2};
  use cddl::visitor::Visitor;
  let c = cddl::cddl_from_str(t, false).ok()?;
  let mut alias = Vec::new();
  let mut refs = Vec::new();
  let mut starts = Vec::new();
  let mut cfgs = Vec::new();
  for r in c.rules.iter() {
    let (name, flags) = match r {
      Rule::Type { rule, .. } => {
        let cs: Vec<String> = rule
          .value
          .type_choices
          .iter()
          .map(|tc| match &tc.type1.type2 {
            Type2::Typename { ident, .. } => ident.to_string(),
            _ => "-".to_string(),
          })
          .collect();
        alias.push(format!("{}:{}", rule.name, cs.join(",")));
        (
          rule.name.to_string(),
          format!("{}{}", if rule.generic_params.is_some() { "<" } else { "" }, if rule.is_type_choice_alternate { "/" } else { "" }),
        )
      }
      Rule::Group { rule, .. } => (
        rule.name.to_string(),
        format!("({}{}", if rule.generic_params.is_some() { "<" } else { "" }, if rule.is_group_choice_alternate { "/" } else { "" }),
      ),
    };
    let mut v = Refs { out: Vec::new(), cfg: Vec::new(), starts: Vec::new(), in_generic: 0 };
    let _ = v.visit_rule(r);
    refs.push(format!("{}|{}:{}", name, flags, v.out.join(",")));
    starts.append(&mut v.starts);
    cfgs.append(&mut v.cfg);
  }
  Some(format!("{}\t{}\t{}\t{}", alias.join(";"), refs.join(";"), starts.join(","), cfgs.join(",")))
}

fn verdict<T, E>(r: Result<T, E>) -> &'static str {
  match r {
    Ok(_) => "OK",
    Err(_) => "ERR",
  }
}

#[inline(never)]
fn deep(n: u64) -> u64 {
  let mut a = [n; 512];
  std::hint::black_box(&mut a);
  if n == u64::MAX {
    return 0;
  }
  let f: fn(u64) -> u64 = std::hint::black_box(deep);
  let r = f(n + 1);
  std::hint::black_box(&mut a);
  r + a[(n % 512) as usize]
}

fn dispatch(parts: &[&str]) -> &'static str {
  match parts[0] {
    "G" => match graph(&text(parts[1])) {
      Some(g) => {
        if let Ok(mut d) = DETAIL.lock() {
          *d = g;
        }
        "OK"
      }
      None => "ERR",
    },
    "P" => verdict(cddl::cddl_from_str(&text(parts[1]), false)),
    "S" => {
      let b = unhex(parts[1]);
      let r = cddl::ast::CDDL::from_slice(&b);
      verdict(r)
    }
    "F" => {
      let t = text(parts[1]);
      match cddl::cddl_from_str(&t, false) {
        Ok(c) => {
          let s = c.to_string();
          std::hint::black_box(s.len());
          "OK"
        }
        Err(_) => "ERR",
      }
    }
    "J" => verdict(cddl::validate_json_from_str(&text(parts[1]), &text(parts[2]), None)),
    "C" => verdict(cddl::validate_cbor_from_slice(&text(parts[1]), &unhex(parts[2]), None)),
    "V" => {
      let h = parts.get(3).map(|x| *x == "1").unwrap_or(false);
      verdict(cddl::validate_csv_from_str(&text(parts[1]), &text(parts[2]), Some(h), None))
    }
    "D" => {
      // optional third field: repeat the decoding n times (growth measurements of a very fast function)
      let b = unhex(parts[1]);
      let reps: usize = parts.get(2).and_then(|x| x.parse().ok()).unwrap_or(1);
      let mut v = "ERR";
      for _ in 0..reps.max(1) {
        v = verdict(std::hint::black_box(cddl::validator::cbor_value::decode_cbor(std::hint::black_box(&b))));
      }
      v
    }
    "K" => match parts[1] {
      "0" => panic!("self-test panic"),
      "1" => {
        std::hint::black_box(deep(0));
        "OK"
      }
      "2" => {
        let n: usize = std::hint::black_box(1usize << 40);
        let mut v: Vec<u8> = Vec::with_capacity(n);
        v.push(1);
        std::hint::black_box(&mut v);
        "OK"
      }
      _ => loop {
        std::hint::black_box(0);
      },
    },
    _ => "?",
  }
}

// CPU time of the main thread in microseconds (/proc/self/schedstat, first field, ns); wall time on failure
fn cpu_us() -> Option<u128> {
  let s = std::fs::read_to_string("/proc/self/schedstat").ok()?;
  let ns: u128 = s.split_whitespace().next()?.parse().ok()?;
  Some(ns / 1000)
}

// accurate CPU time of the calling thread (the symbol comes from the C library std links anyway)
#[repr(C)]
struct Timespec {
  tv_sec: i64,
  tv_nsec: i64,
}
extern "C" {
  fn clock_gettime(clk: i32, ts: *mut Timespec) -> i32;
}
fn thread_cpu_us() -> Option<u128> {
  let mut ts = Timespec { tv_sec: 0, tv_nsec: 0 };
  // CLOCK_THREAD_CPUTIME_ID = 3 on Linux
  let rc = unsafe { clock_gettime(3, &mut ts) };
  if rc == 0 {
    Some(ts.tv_sec as u128 * 1_000_000 + ts.tv_nsec as u128 / 1000)
  } else {
    None
  }
}

fn main() {
  let case_ms: u64 = std::env::var("VERIF_CASE_MS").ok().and_then(|s| s.parse().ok()).unwrap_or(10000);
  std::panic::set_hook(Box::new(|info| {
    let loc = info.location().map(|l| format!("{}:{}", l.file(), l.line())).unwrap_or_default();
    let msg = if let Some(s) = info.payload().downcast_ref::<&str>() {
      s.to_string()
    } else if let Some(s) = info.payload().downcast_ref::<String>() {
      s.clone()
    } else {
      String::new()
    };
    let mut m = format!("{} {}", loc, msg).replace(['\n', '\t', '\r'], " ");
    if m.len() > 240 {
      let mut k = 240;
      while !m.is_char_boundary(k) {
        k -= 1;
      }
      m.truncate(k);
    }
    if let Ok(mut g) = PANIC_INFO.lock() {
      *g = m;
    }
  }));
  let epoch = Instant::now();
  // watchdog: a case running past its deadline is reported and the process exits
  std::thread::spawn(move || loop {
    std::thread::sleep(Duration::from_millis(25));
    let d = DEADLINE_MS.load(Ordering::SeqCst);
    let over_cpu = match cpu_us() {
      Some(c) => d != 0 && (c as u64).saturating_sub(START_CPU_US.load(Ordering::SeqCst)) > case_ms * 1000,
      None => d != 0 && epoch.elapsed().as_millis() as u64 + 7 * case_ms + 5000 > d,
    };
    if d != 0
      && d != u64::MAX
      && (over_cpu || epoch.elapsed().as_millis() as u64 > d)
      && DEADLINE_MS.compare_exchange(d, u64::MAX, Ordering::SeqCst, Ordering::SeqCst).is_ok()
    {
      let so = io::stdout();
      let mut o = so.lock();
      let _ = writeln!(o, "\n@@\tTIMEOUT\t{}\t{}", case_ms * 1000, case_ms * 1000);
      let _ = o.flush();
      std::process::exit(124);
    }
  });
  let stdin = io::stdin();
  for line in stdin.lock().lines() {
    let line = match line {
      Ok(l) => l,
      Err(_) => break,
    };
    let parts: Vec<&str> = line.split('\t').collect();
    // u64::MAX = unknown: the watchdog then relies on the wall-clock backstop alone
    START_CPU_US.store(cpu_us().map(|c| c as u64).unwrap_or(u64::MAX), Ordering::SeqCst);
    DEADLINE_MS.store(epoch.elapsed().as_millis() as u64 + 8 * case_ms + 5000, Ordering::SeqCst);
    let t0 = Instant::now();
    let c0 = thread_cpu_us();
    let r = std::panic::catch_unwind(|| dispatch(&parts));
    let wall = t0.elapsed().as_micros();
    let cpu = match (c0, thread_cpu_us()) {
      (Some(a), Some(b)) if b >= a => b - a,
      _ => wall,
    };
    let us = format!("{}\t{}", wall, cpu);
    if DEADLINE_MS.swap(0, Ordering::SeqCst) == u64::MAX {
      // the watchdog has claimed this case and is reporting it
      loop {
        std::thread::sleep(Duration::from_millis(100));
      }
    }
    let so = io::stdout();
    let mut o = so.lock();
    match r {
      Ok(s) => {
        let d = DETAIL.lock().map(|mut g| std::mem::take(&mut *g)).unwrap_or_default();
        if d.is_empty() {
          writeln!(o, "\n@@\t{}\t{}", s, us).unwrap()
        } else {
          writeln!(o, "\n@@\t{}\t{}\t{}", s, us, d).unwrap()
        }
      }
      Err(_) => {
        let m = PANIC_INFO.lock().map(|g| g.clone()).unwrap_or_default();
        writeln!(o, "\n@@\tPANIC\t{}\t{}", us, m).unwrap()
      }
    }
    o.flush().unwrap();
  }
}
