// C05: one public entry point on one input per line, under catch_unwind and a watchdog.
//
//   P  <hex text>                   cddl::cddl_from_str(text, false)                (parse)
//   S  <hex bytes>                  cddl::ast::CDDL::from_slice(bytes)              (checked parse)
//   F  <hex text>                   parse, then Display (to_string) of the AST      (format)
//   J  <hex cddl> <hex json>        cddl::validate_json_from_str(cddl, json, None)
//   C  <hex cddl> <hex cbor>        cddl::validate_cbor_from_slice(cddl, cbor, None)
//   V  <hex cddl> <hex csv> [h]     cddl::validate_csv_from_str(cddl, csv, Some(h == "1"), None)
//   D  <hex cbor>                   cddl::validator::cbor_value::decode_cbor(bytes)
//   K  <n>                          driver self-test: n = 0 panic, 1 stack overflow, 2 huge allocation, 3 endless loop
//
// Output, one line per case:  <verdict>\t<microseconds>[\t<detail>]
//   verdict = OK | ERR | PANIC (detail = source location and message of the panic) | TIMEOUT
// A stack overflow or an allocator abort kills the process; the Python side sees a short
// output and the exit status, and restarts after the case that died.  The per-case watchdog
// (VERIF_CASE_MS, default 10000) prints TIMEOUT for the running case and exits with status 124.
use std::io::{self, BufRead, Write};
use std::sync::atomic::{AtomicU64, Ordering};
use std::sync::Mutex;
use std::time::{Duration, Instant};

static DEADLINE_MS: AtomicU64 = AtomicU64::new(0); // 0 = no case running
static PANIC_INFO: Mutex<String> = Mutex::new(String::new());

fn unhex(s: &str) -> Vec<u8> {
  hex::decode(s).unwrap_or_default()
}
fn text(s: &str) -> String {
  String::from_utf8_lossy(&unhex(s)).into_owned()
}

fn verdict<T, E>(r: Result<T, E>) -> &'static str {
  match r {
    Ok(_) => "OK",
    Err(_) => "ERR",
  }
}

#[inline(never)]
fn deep(n: u64) -> u64 {
  let mut a = [n; 64];
  std::hint::black_box(&mut a);
  if n == u64::MAX {
    return 0;
  }
  let r = deep(n + 1);
  std::hint::black_box(&mut a);
  r + a[(n % 64) as usize]
}

fn dispatch(parts: &[&str]) -> &'static str {
  match parts[0] {
    "P" => verdict(cddl::cddl_from_str(&text(parts[1]), false)),
    "S" => {
      let b = unhex(parts[1]);
      let r = cddl::ast::CDDL::from_slice(&b);
      verdict(r)
    }
    "F" => {
      let t = text(parts[1]);
      match cddl::cddl_from_str(&t, false) {
        Ok(c) => {
          let s = c.to_string();
          std::hint::black_box(s.len());
          "OK"
        }
        Err(_) => "ERR",
      }
    }
    "J" => verdict(cddl::validate_json_from_str(&text(parts[1]), &text(parts[2]), None)),
    "C" => verdict(cddl::validate_cbor_from_slice(&text(parts[1]), &unhex(parts[2]), None)),
    "V" => {
      let h = parts.get(3).map(|x| *x == "1").unwrap_or(false);
      verdict(cddl::validate_csv_from_str(&text(parts[1]), &text(parts[2]), Some(h), None))
    }
    "D" => verdict(cddl::validator::cbor_value::decode_cbor(&unhex(parts[1]))),
    "K" => match parts[1] {
      "0" => panic!("self-test panic"),
      "1" => {
        std::hint::black_box(deep(0));
        "OK"
      }
      "2" => {
        let n: usize = std::hint::black_box(1usize << 40);
        let mut v: Vec<u8> = Vec::with_capacity(n);
        v.push(1);
        std::hint::black_box(&mut v);
        "OK"
      }
      _ => loop {
        std::hint::black_box(0);
      },
    },
    _ => "?",
  }
}

fn main() {
  let case_ms: u64 = std::env::var("VERIF_CASE_MS").ok().and_then(|s| s.parse().ok()).unwrap_or(10000);
  std::panic::set_hook(Box::new(|info| {
    let loc = info.location().map(|l| format!("{}:{}", l.file(), l.line())).unwrap_or_default();
    let msg = if let Some(s) = info.payload().downcast_ref::<&str>() {
      s.to_string()
    } else if let Some(s) = info.payload().downcast_ref::<String>() {
      s.clone()
    } else {
      String::new()
    };
    let mut m = format!("{} {}", loc, msg).replace(['\n', '\t', '\r'], " ");
    if m.len() > 240 {
      let mut k = 240;
      while !m.is_char_boundary(k) {
        k -= 1;
      }
      m.truncate(k);
    }
    if let Ok(mut g) = PANIC_INFO.lock() {
      *g = m;
    }
  }));
  let epoch = Instant::now();
  // watchdog: a case running past its deadline is reported and the process exits
  std::thread::spawn(move || loop {
    std::thread::sleep(Duration::from_millis(25));
    let d = DEADLINE_MS.load(Ordering::SeqCst);
    if d != 0 && epoch.elapsed().as_millis() as u64 > d {
      let so = io::stdout();
      let mut o = so.lock();
      let _ = writeln!(o, "TIMEOUT\t{}", case_ms * 1000);
      let _ = o.flush();
      std::process::exit(124);
    }
  });
  let stdin = io::stdin();
  for line in stdin.lock().lines() {
    let line = match line {
      Ok(l) => l,
      Err(_) => break,
    };
    let parts: Vec<&str> = line.split('\t').collect();
    DEADLINE_MS.store(epoch.elapsed().as_millis() as u64 + case_ms, Ordering::SeqCst);
    let t0 = Instant::now();
    let r = std::panic::catch_unwind(|| dispatch(&parts));
    let us = t0.elapsed().as_micros();
    DEADLINE_MS.store(0, Ordering::SeqCst);
    let so = io::stdout();
    let mut o = so.lock();
    match r {
      Ok(s) => writeln!(o, "{}\t{}", s, us).unwrap(),
      Err(_) => {
        let m = PANIC_INFO.lock().map(|g| g.clone()).unwrap_or_default();
        writeln!(o, "PANIC\t{}\t{}", us, m).unwrap()
      }
    }
    o.flush().unwrap();
  }
}
