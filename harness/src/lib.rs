// Shared helpers for the per-property driver binaries (src/bin/<prop>.rs).
// Line protocol: <cmd>\t<arg>... ; one output line per input line (unless a command
// documents otherwise). Binary / text arguments are hex-encoded.
use std::io::{self, BufRead, Write};

pub fn unhex(s: &str) -> Vec<u8> {
  hex::decode(s).unwrap_or_default()
}
pub fn unhex_str(s: &str) -> String {
  String::from_utf8_lossy(&unhex(s)).into_owned()
}
pub fn hex_of(s: &str) -> String {
  hex::encode(s.as_bytes())
}

/// Run `dispatch` on every stdin line under catch_unwind; a panic prints PANIC.
/// Output is flushed per case so that an abort (allocation failure, stack overflow)
/// does not lose earlier results.
pub fn serve(dispatch: fn(&[&str]) -> String) {
  std::panic::set_hook(Box::new(|_| {}));
  let stdin = io::stdin();
  let stdout = io::stdout();
  let mut out = io::BufWriter::new(stdout.lock());
  for line in stdin.lock().lines() {
    let line = line.unwrap();
    let parts: Vec<&str> = line.split('\t').collect();
    let r = std::panic::catch_unwind(|| dispatch(&parts));
    match r {
      Ok(s) => writeln!(out, "{}", s).unwrap(),
      Err(_) => writeln!(out, "PANIC").unwrap(),
    }
    out.flush().unwrap();
  }
}
