#!/usr/bin/env python3
# OUTPUT: CddlPest.v
"""Translator for C03 (and every check that needs the grammar): /repo/cddl.pest  ->  Generated/CddlPest.v

usage: pest2coq.py <repo> <outdir>

Parses the pest grammar file (the very file `pest_derive` compiles into the crate's parser) and prints it as a
deep embedding in the PEG syntax of coq/theories/Grammar/PegSyn.v:

    cddl_pest_rules : list (N * modifier * pexpr)      rule id, modifier ( normal | _ | @ | $ | ! ), body
    cddl_pest_names : list (N * list N)                rule id -> rule name (character codes); EOI has its own id
    cddl_pest       : pgrammar                         rules + ids of WHITESPACE / COMMENT / EOI
    r_<name>        : N                                one constant per rule

Fails loudly (exit status 2, nothing written) on anything it does not understand: an unknown builtin, a pest
feature outside the supported subset (PUSH/POP/PEEK/DROP, tags, `{n,m}` repetition bounds), a rule defined twice,
a reference to an undefined rule, or a grammar without the `cddl`, `WHITESPACE` or `COMMENT` rules.
The output is deterministic and the file is written only when its content changes.
"""
import os, re, sys

BUILTINS = {
    "SOI": "BSOI", "EOI": "BEOI", "ANY": "BANY",
    "ASCII_DIGIT": "BASCII_DIGIT", "ASCII_NONZERO_DIGIT": "BASCII_NONZERO_DIGIT", "ASCII_BIN_DIGIT": "BASCII_BIN_DIGIT",
    "ASCII_OCT_DIGIT": "BASCII_OCT_DIGIT", "ASCII_HEX_DIGIT": "BASCII_HEX_DIGIT",
    "ASCII_ALPHA_LOWER": "BASCII_ALPHA_LOWER", "ASCII_ALPHA_UPPER": "BASCII_ALPHA_UPPER", "ASCII_ALPHA": "BASCII_ALPHA",
    "ASCII_ALPHANUMERIC": "BASCII_ALPHANUMERIC", "ASCII": "BASCII", "NEWLINE": "BNEWLINE",
}
UNSUPPORTED = {"PUSH", "POP", "POP_ALL", "PEEK", "PEEK_ALL", "DROP", "PUSH_LITERAL"}

TOK = re.compile(r'''\s+|//[^\n]*|/\*.*?\*/|(?P<id>[A-Za-z_][A-Za-z0-9_]*)|(?P<str>\^?"(?:[^"\\]|\\.)*")|(?P<chr>'(?:[^'\\]|\\.[^']*)')|(?P<num>\d+)|(?P<op>\.\.|[={}()|~*+?!&@$,#\[\]:-])''', re.S)


class Bad(Exception):
    pass


def lex(src):
    out, i = [], 0
    while i < len(src):
        m = TOK.match(src, i)
        if not m:
            raise Bad("cannot tokenise cddl.pest at offset %d: %r" % (i, src[i:i + 30]))
        i = m.end()
        if m.lastgroup:
            out.append((m.lastgroup, m.group(m.lastgroup)))
    return out


def unescape(s):
    """pest string / char escapes -> list of code points"""
    out, i = [], 0
    while i < len(s):
        c = s[i]
        if c != "\\":
            out.append(ord(c)); i += 1; continue
        i += 1
        if i >= len(s):
            raise Bad("dangling backslash in literal %r" % s)
        e = s[i]; i += 1
        simple = {"n": 10, "r": 13, "t": 9, "0": 0, "\\": 92, '"': 34, "'": 39}
        if e in simple:
            out.append(simple[e])
        elif e == "x":
            out.append(int(s[i:i + 2], 16)); i += 2
        elif e == "u":
            m = re.match(r"\{([0-9a-fA-F]{2,6})\}", s[i:])
            if not m:
                raise Bad("bad \\u escape in literal %r" % s)
            out.append(int(m.group(1), 16)); i += m.end()
        else:
            raise Bad("unknown escape \\%s in literal %r" % (e, s))
    return out


class Parser:
    def __init__(self, toks):
        self.t, self.i = toks, 0

    def peek(self, k=0):
        return self.t[self.i + k] if self.i + k < len(self.t) else (None, None)

    def eat(self, v=None):
        k, x = self.peek()
        if k is None or (v is not None and x != v):
            raise Bad("cddl.pest: expected %r, found %r (token %d)" % (v, x, self.i))
        self.i += 1
        return x

    def grammar(self):
        rules = []
        while self.i < len(self.t):
            k, name = self.peek()
            if k != "id":
                raise Bad("cddl.pest: expected a rule name, found %r" % (name,))
            self.eat(); self.eat("=")
            mod = ""
            if self.peek()[1] in ("_", "@", "$", "!"):
                mod = self.eat()
            self.eat("{"); e = self.choice(); self.eat("}")
            rules.append((name, mod, e))
        return rules

    def choice(self):
        if self.peek()[1] == "|":          # pest allows a leading "|"
            self.eat()
        alts = [self.seq()]
        while self.peek()[1] == "|":
            self.eat(); alts.append(self.seq())
        e = alts[-1]
        for a in reversed(alts[:-1]):
            e = ("alt", a, e)
        return e

    def seq(self):
        items = [self.prefix()]
        while self.peek()[1] == "~":
            self.eat(); items.append(self.prefix())
        e = items[-1]
        for a in reversed(items[:-1]):
            e = ("seq", a, e)
        return e

    def prefix(self):
        x = self.peek()[1]
        if x == "!":
            self.eat(); return ("not", self.prefix())
        if x == "&":
            self.eat(); return ("and", self.prefix())
        return self.postfix()

    def postfix(self):
        e = self.atom()
        while True:
            x = self.peek()[1]
            if x == "*":
                self.eat(); e = ("star", e)
            elif x == "+":
                self.eat(); e = ("plus", e)
            elif x == "?":
                self.eat(); e = ("opt", e)
            elif x == "{":
                if self.peek(1)[0] == "num" and self.peek(2)[1] == "}":
                    self.eat(); n = int(self.eat()); self.eat("}")
                    if n < 1 or n > 64:
                        raise Bad("repetition count {%d} outside the supported range" % n)
                    e = ("rep", n, e)
                elif self.peek(1)[0] == "num" or self.peek(1)[1] == ",":
                    raise Bad("bounded repetition {n,m} is not supported by the translator")
                else:
                    break
            else:
                break
        return e

    def atom(self):
        k, x = self.peek()
        if x == "(":
            self.eat(); e = self.choice(); self.eat(")"); return e
        if k == "str":
            self.eat()
            if x.startswith("^"):
                cs = unescape(x[2:-1])
                if any(c >= 128 for c in cs):
                    raise Bad("non-ASCII case-insensitive literal %s" % x)
                return ("istr", cs)
            return ("str", unescape(x[1:-1]))
        if k == "chr":
            self.eat(); lo = unescape(x[1:-1]); self.eat(".."); k2, y = self.peek()
            if k2 != "chr":
                raise Bad("character range without upper bound after %s" % x)
            self.eat(); hi = unescape(y[1:-1])
            if len(lo) != 1 or len(hi) != 1 or lo[0] > hi[0]:
                raise Bad("bad character range %s..%s" % (x, y))
            return ("rng", lo[0], hi[0])
        if k == "id":
            self.eat()
            if x in UNSUPPORTED:
                raise Bad("pest stack operation %s is not supported by the translator" % x)
            return ("ref", x)
        raise Bad("cddl.pest: unexpected token %r in an expression (tags, stack slices and the like are not supported)" % (x,))


def refs(e, acc):
    if e[0] == "ref":
        acc.add(e[1])
    for x in e[1:]:
        if isinstance(x, tuple):
            refs(x, acc)


def nlist(cs):
    return "[" + "; ".join(str(c) for c in cs) + "]"


def emit(e, ids):
    k = e[0]
    if k == "str":
        return "PStr " + nlist(e[1])
    if k == "istr":
        return "PIStr " + nlist(e[1])
    if k == "rng":
        return "PRange %d %d" % (e[1], e[2])
    if k == "ref":
        if e[1] in ids:
            return "PRef r_" + e[1]
        return "PBuiltin " + BUILTINS[e[1]]
    if k in ("seq", "alt"):
        return "%s (%s) (%s)" % ("PSeq" if k == "seq" else "PAlt", emit(e[1], ids), emit(e[2], ids))
    if k == "rep":
        return "PRep %d (%s)" % (e[1], emit(e[2], ids))
    return "%s (%s)" % ({"star": "PStar", "plus": "PPlus", "opt": "POpt", "not": "PNot", "and": "PAnd"}[k], emit(e[1], ids))


def translate(src):
    rules = Parser(lex(src)).grammar()
    names = [r[0] for r in rules]
    if len(set(names)) != len(names):
        raise Bad("a rule is defined twice: %s" % sorted(n for n in names if names.count(n) > 1)[0])
    for need in ("cddl", "WHITESPACE", "COMMENT"):
        if need not in names:
            raise Bad("rule %s is missing from cddl.pest" % need)
    ids = {n: i for i, n in enumerate(names)}
    for n, _, e in rules:
        acc = set(); refs(e, acc)
        for r in sorted(acc):
            if r not in ids and r not in BUILTINS:
                raise Bad("rule %s refers to %s, which is neither a rule nor a supported builtin" % (n, r))
    eoi = len(names)
    mods = {"": "MNormal", "_": "MSilent", "@": "MAtomic", "$": "MCompound", "!": "MNonAtomic"}
    o = ["(* GENERATED by /verif/gen/pest2coq.py from /repo/cddl.pest on every run of the checks - DO NOT EDIT. *)",
         "From Cddl Require Import Grammar.PegSyn.", "Open Scope N_scope.", ""]
    for n in names:
        o.append("Definition r_%s : N := %d." % (n, ids[n]))
    o.append("Definition r_EOI_pair : N := %d." % eoi)
    o.append("")
    o.append("Definition cddl_pest_names : list (N * list N) := [")
    o.append(";\n".join("  (%d, %s) (* %s *)" % (ids[n], nlist([ord(c) for c in n]), n) for n in names)
             + ";\n  (%d, %s) (* EOI *)" % (eoi, nlist([ord(c) for c in "EOI"])))
    o.append("].")
    o.append("")
    o.append("Definition cddl_pest_rules : list (N * modifier * pexpr) := [")
    o.append(";\n".join("  (r_%s, %s,\n     %s)" % (n, mods[m], emit(e, ids)) for n, m, e in rules))
    o.append("].")
    o.append("")
    o.append("Definition cddl_pest : pgrammar :=")
    o.append("  {| pg_rules := cddl_pest_rules; pg_ws := Some r_WHITESPACE; pg_comment := Some r_COMMENT; pg_eoi := r_EOI_pair |}.")
    o.append("")
    return "\n".join(o)


def main():
    if len(sys.argv) != 3:
        print("usage: pest2coq.py <repo> <outdir>", file=sys.stderr)
        return 2
    repo, outdir = sys.argv[1], sys.argv[2]
    path = os.path.join(repo, "cddl.pest")
    try:
        src = open(path, encoding="utf-8").read()
        text = translate(src)
    except (Bad, OSError, KeyError, ValueError, IndexError) as ex:
        print("pest2coq: cannot translate %s: %s" % (path, ex), file=sys.stderr)
        return 2
    out = os.path.join(outdir, "CddlPest.v")
    os.makedirs(outdir, exist_ok=True)
    try:
        if open(out, encoding="utf-8").read() == text:
            return 0
    except FileNotFoundError:
        pass
    tmp = out + ".tmp%d" % os.getpid()
    with open(tmp, "w", encoding="utf-8") as f:
        f.write(text)
    os.replace(tmp, out)
    return 0


if __name__ == "__main__":
    sys.exit(main())
