#!/usr/bin/env python3
# OUTPUT: ErrorKinds.v
"""Translator for C14: which `Error::<Variant>` each failure class is mapped to by the two public entry points.

usage: error_kinds.py /repo /verif/coq/theories/Generated      (writes only ErrorKinds.v, only if changed)

Read from the working tree:
  src/validator/mod.rs   pub fn validate_json_from_str / validate_cbor_from_slice (native, default-feature variants):
                         the constructor inside `.map_err(..)` of the `cddl_from_str(..)` statement (schema parse failure)
                         and of the `serde_json::from_str(..)` / `decode_cbor(..)` statement (document parse failure);
                         `.map_err(helper)` with a free function `fn helper(..) -> <ns>::Error..` of mod.rs is followed
                         into the helper, whose body must build exactly one constructor `<ns>::Error::<V>(`;
                         the function must end by returning `<validator>.validate()`
  src/validator/json.rs, src/validator/cbor.rs
                         `fn validate(&mut self)`: the constructor of `return Err(Error::<V>(self.errors.clone()))`
                         guarded by `if !self.errors.is_empty()` (validation failure), and the variants of `pub enum Error`.
Any region that cannot be read makes the script exit 1 (the obligation cannot be regenerated).
"""
import os, re, sys


def die(msg):
    sys.stderr.write("error_kinds.py: " + msg + "\n")
    sys.exit(1)


def fn_bodies(src, name):
    """[(attribute block before the fn, body text)] for every `pub fn <name>(`"""
    out = []
    for m in re.finditer(r"pub fn %s\s*\(" % re.escape(name), src):
        # attributes: the contiguous run of lines starting with #[ or /// above the fn
        lines = src[:m.start()].split("\n")
        attrs = []
        for l in reversed(lines[:-1]):
            s = l.strip()
            if s.startswith("#[") or s.startswith("///"):
                attrs.append(s)
            else:
                break
        # the body's opening brace is the first `{` after the return-type arrow
        arrow = src.find("->", m.end())
        i = src.index("{", arrow)
        depth, j = 0, i
        while True:
            c = src[j]
            if c == "{":
                depth += 1
            elif c == "}":
                depth -= 1
                if depth == 0:
                    break
            j += 1
        out.append((" ".join(attrs), src[i + 1:j]))
    return out


def pick(bodies, name):
    good = [b for a, b in bodies
            if 'not(target_arch = "wasm32")' in a and 'not(feature = "additional-controls")' not in a]
    if len(good) != 1:
        die("expected exactly one native default-feature definition of %s, found %d" % (name, len(good)))
    return good[0]


def ctor_of(stmt, ns, mod_src=""):
    m = re.search(r"\.map_err\(\s*(?:\|\s*\w+\s*\|\s*)?%s::Error::(\w+)" % ns, stmt)
    if m:
        return m.group(1)
    # .map_err(helper): a free function of mod.rs that builds the error
    h = re.search(r"\.map_err\(\s*([a-z_][a-z0-9_]*)\s*\)", stmt)
    if not h:
        return None
    name = h.group(1)
    f = re.search(r"\bfn %s\s*\([^)]*\)\s*->\s*%s::Error[^{]*\{" % (re.escape(name), ns), mod_src)
    if not f:
        die("helper %s used in map_err is not a function of mod.rs returning %s::Error" % (name, ns))
    i = f.end() - 1
    depth, j = 0, i
    while True:
        c = mod_src[j]
        if c == "{":
            depth += 1
        elif c == "}":
            depth -= 1
            if depth == 0:
                break
        j += 1
    ctors = set(re.findall(r"\b%s::Error::(\w+)\s*\(" % ns, mod_src[i:j]))
    if len(ctors) != 1:
        die("helper %s builds %d different %s::Error constructors (%s); expected exactly one" % (name, len(ctors), ns, ", ".join(sorted(ctors))))
    return ctors.pop()


def entry(mod_src, fn, ns, doc_call, validator_var):
    body = pick(fn_bodies(mod_src, fn), fn)
    stmts = [s for s in body.split(";")]
    schema = doc = None
    for s in stmts:
        if re.search(r"\bcddl_from_str\s*\(", s) and schema is None:
            schema = ctor_of(s, ns, mod_src)
        if re.search(doc_call, s) and doc is None:
            doc = ctor_of(s, ns, mod_src)
    if schema is None:
        die("%s: no `cddl_from_str(..).map_err(%s::Error::..)` statement" % (fn, ns))
    if doc is None:
        die("%s: no `%s(..).map_err(%s::Error::..)` statement" % (fn, doc_call, ns))
    if not re.search(r"\b%s\.validate\(\)\s*$" % validator_var, body.strip()):
        die("%s does not end with %s.validate()" % (fn, validator_var))
    return schema, doc


def validate_ctor(src, path):
    m = re.search(r"fn validate\(&mut self\)[^{]*\{(.*?)\n  \}", src, flags=re.S)
    if not m:
        die(path + ": fn validate(&mut self) not found")
    b = m.group(1)
    g = re.search(r"if\s+!self\.errors\.is_empty\(\)\s*\{\s*return\s+Err\(Error::(\w+)\(self\.errors\.clone\(\)\)\);?\s*\}\s*Ok\(\(\)\)\s*$", b.strip())
    if not g:
        die(path + ": validate() does not end with `if !self.errors.is_empty() { return Err(Error::V(self.errors.clone())) } Ok(())`")
    return g.group(1)


def variants(src, path):
    m = re.search(r"pub enum Error(?:<[^>]*>)?\s*\{(.*?)\n\}", src, flags=re.S)
    if not m:
        die(path + ": pub enum Error not found")
    vs = re.findall(r"^\s*([A-Z]\w*)\s*(?:\(|,|\{)", m.group(1), flags=re.M)
    if not vs:
        die(path + ": no variants")
    return vs


def main():
    repo, outdir = sys.argv[1], sys.argv[2]
    rd = lambda p: open(os.path.join(repo, p), encoding="utf-8").read()
    mod, js, cb = rd("src/validator/mod.rs"), rd("src/validator/json.rs"), rd("src/validator/cbor.rs")
    j_schema, j_doc = entry(mod, "validate_json_from_str", "json", r"serde_json::from_str\b", "jv")
    c_schema, c_doc = entry(mod, "validate_cbor_from_slice", "cbor", r"\bdecode_cbor\s*\(", "cv")
    j_val, c_val = validate_ctor(js, "json.rs"), validate_ctor(cb, "cbor.rs")
    jv, cv = variants(js, "json.rs"), variants(cb, "cbor.rs")
    for name, v, vs in (("json", j_schema, jv), ("json", j_doc, jv), ("json", j_val, jv),
                        ("cbor", c_schema, cv), ("cbor", c_doc, cv), ("cbor", c_val, cv)):
        if v not in vs:
            die("%s::Error::%s is not a variant of the enum (%s)" % (name, v, ", ".join(vs)))
    q = lambda s: '"%s"' % s
    txt = """(* GENERATED by gen/error_kinds.py from src/validator/mod.rs, json.rs, cbor.rs of the working tree. Do not edit. *)
From Coq Require Import String List.
From Cddl Require Import Err.Kinds.
Import ListNotations.
Open Scope string_scope.

(* validate_json_from_str: constructor of json::Error per failure class *)
Definition json_kind (c : fclass) : string :=
  match c with
  | SchemaParse => %s
  | DocParse => %s
  | Invalid => %s
  end.

(* validate_cbor_from_slice: constructor of cbor::Error per failure class *)
Definition cbor_kind (c : fclass) : string :=
  match c with
  | SchemaParse => %s
  | DocParse => %s
  | Invalid => %s
  end.

Definition json_variants : list string := [%s].
Definition cbor_variants : list string := [%s].
""" % (q(j_schema), q(j_doc), q(j_val), q(c_schema), q(c_doc), q(c_val),
       "; ".join(q(v) for v in jv), "; ".join(q(v) for v in cv))
    os.makedirs(outdir, exist_ok=True)
    p = os.path.join(outdir, "ErrorKinds.v")
    try:
        if open(p).read() == txt:
            return
    except FileNotFoundError:
        pass
    with open(p, "w") as f:
        f.write(txt)


if __name__ == "__main__":
    main()
