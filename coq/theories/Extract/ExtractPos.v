From Coq Require Import Extraction ExtrOcamlBasic.
From Cddl Require Import Pos.Span Pos.ErrRange Pos.Tree.
Extraction Language OCaml.
(* path relative to the directory make runs in (/verif/coq) *)
Extraction "../oracle/gen/pos_model.ml" lines_render span_position_render ast_position_render err_render err_sweep_render events_wf_render.
