From Coq Require Import Extraction ExtrOcamlBasic.
From Cddl Require Import Err.Loc Err.Oracle.
Extraction Language OCaml.
(* path relative to the directory make runs in (/verif/coq) *)
Extraction "../oracle/gen/err_model.ml" check_render kind_codes distinct_codes.
