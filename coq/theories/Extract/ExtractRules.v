From Coq Require Import Extraction ExtrOcamlBasic.
From Cddl Require Import Rules.Doc Rules.Dup Rules.Spec Rules.RefCheck.
Extraction Language OCaml.
(* path relative to the directory make runs in (/verif/coq) *)
Extraction "../oracle/gen/rules_model.ml" c12_render mkRule mkRef.
