From Coq Require Import Extraction ExtrOcamlBasic.
From Cddl Require Import Lit.Render.
Extraction Language OCaml.
(* path relative to the directory make runs in (/verif/coq) *)
Extraction "../oracle/gen/lit_model.ml" lit_eval.
