From Coq Require Import Extraction ExtrOcamlBasic.
From Cddl Require Import Robust.Chase Robust.Alloc Robust.Arith.
Extraction Language OCaml.
(* path relative to the directory make runs in (/verif/coq) *)
Extraction "../oracle/gen/robust_model.ml" chase_report alloc_report arith_report.
