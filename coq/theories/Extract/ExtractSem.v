From Coq Require Import Extraction ExtrOcamlBasic.
From Cddl Require Import Sem.Syntax Sem.Validator.
Extraction Language OCaml.
Extraction "../oracle/gen/sem_model.ml" verdict vt flatten prelude.
