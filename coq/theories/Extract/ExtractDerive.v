From Coq Require Import Extraction ExtrOcamlBasic.
From Cddl Require Import Derive.Naming Derive.Container.
Extraction Language OCaml.
(* path relative to the directory make runs in (/verif/coq) *)
Extraction "../oracle/gen/derive_model.ml" snake_render pascal_render p2c_render fields_render emit_render
  container_render array_render roundtrip_render
  stable_render identok_render helpers_render.
