From Coq Require Import Extraction ExtrOcamlBasic.
From Cddl Require Import Csv.Reader Csv.Coerce.
Extraction Language OCaml.
(* path relative to the directory make runs in (/verif/coq) *)
Extraction "../oracle/gen/csv_model.ml" parse_render records_render.
