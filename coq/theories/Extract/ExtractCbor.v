From Coq Require Import Extraction ExtrOcamlBasic.
From Cddl Require Import Cbor.Wire.
Extraction Language OCaml.
(* path relative to the directory make runs in (/verif/coq) *)
Extraction "../oracle/gen/cbor_model.ml" decode_render.
