From Coq Require Import Extraction ExtrOcamlBasic.
From Cddl Require Import Fmt.Render Fmt.LitParse Fmt.Oracle Comments.Merge Comments.Lex.
Extraction Language OCaml.
(* path relative to the directory make runs in (/verif/coq) *)
Extraction "../oracle/gen/fmt_model.ml" lit_line occur_line tag_line ctl_line marked_line cut_line rangeop_line type1_line
  merge_render lex_comments_render.
