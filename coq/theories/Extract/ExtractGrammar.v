From Coq Require Import Extraction ExtrOcamlBasic.
From Cddl Require Import Grammar.C03Model.
Extraction Language OCaml.
(* path relative to the directory make runs in (/verif/coq) *)
Extraction "../oracle/gen/grammar_model.ml" cddl_tree cddl_shape spec_verdict lenient_verdict rfc_verdict variant_verdict token_sweep_verdict.
