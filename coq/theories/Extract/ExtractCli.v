From Coq Require Import Extraction ExtrOcamlBasic.
From Cddl Require Import Cli.Cli.
Extraction Language OCaml.
(* path relative to the directory make runs in (/verif/coq) *)
Extraction "../oracle/gen/cli_model.ml" case_validate case_compile.
