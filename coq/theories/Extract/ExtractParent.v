From Coq Require Import Extraction ExtrOcamlBasic.
From Cddl Require Import Parent.Tree Parent.Arena.
Extraction Language OCaml.
(* path relative to the directory make runs in (/verif/coq) *)
Extraction "../oracle/gen/parent_model.ml" answers answers_flat.
