(* IEEE 754 values of bit patterns, scaled to integers, and exactness of the widening
   used by the decoder model (half::f16 -> f64, f32 -> f64). *)
From Cddl Require Import Base.Bytes Cbor.Wire.
From Coq Require Import ZifyBool ZifyNat ZifyN.
Ltac Zify.zify_post_hook ::= Z.div_mod_to_equations.
Open Scope N_scope.

Inductive fclass := FNum (neg : bool) (scaled : N) | FInf (neg : bool) | FNaN.

(* value * 2^1074 of a finite pattern with [ebits] exponent bits and [mbits] mantissa bits
   (an integer for binary16, binary32 and binary64 alike) *)
Definition fdecode (ebits mbits : N) (x : N) : fclass :=
  let bias := 2 ^ (ebits - 1) - 1 in
  let s := 0 <? x / 2 ^ (ebits + mbits) in
  let e := (x / 2 ^ mbits) mod 2 ^ ebits in
  let m := x mod 2 ^ mbits in
  if e =? 2 ^ ebits - 1 then (if m =? 0 then FInf s else FNaN)
  else if e =? 0 then FNum s (m * 2 ^ (1074 + 1 - bias - mbits))
  else FNum s ((2 ^ mbits + m) * 2 ^ (1074 + e - bias - mbits)).

Definition f16 := fdecode 5 10.
Definition f32 := fdecode 8 23.
Definition f64 := fdecode 11 52.

Fixpoint upto (n : nat) : list N :=
  match n with O => [] | S k => upto k ++ [N.of_nat k] end.

Definition widen16_ok (x : N) : bool :=
  match f16 x, f64 (widen16 x) with
  | FNum s v, FNum s' v' => Bool.eqb s s' && (v =? v')
  | FInf s, FInf s' => Bool.eqb s s'
  | FNaN, FNaN => true
  | _, _ => false
  end.

Lemma widen16_sweep :
  forallb (fun hi => forallb (fun lo => widen16_ok (hi * 256 + lo)) (upto 256)) (upto 256) = true.
Proof. vm_compute. reflexivity. Qed.

Lemma In_upto n x : (N.to_nat x < n)%nat -> In x (upto n).
Proof.
  induction n as [|n IH]; intros H; [lia|]. cbn [upto]. apply in_or_app.
  destruct (Nat.eq_dec (N.to_nat x) n) as [E|E].
  - right. left. rewrite <- E. apply N2Nat.id.
  - left. apply IH. lia.
Qed.

(* all 65536 binary16 patterns: same class, same sign, same value *)
Theorem widen16_exact x : x < 65536 -> widen16_ok x = true.
Proof.
  intros H. pose proof widen16_sweep as S. rewrite forallb_forall in S.
  specialize (S (x / 256) ltac:(apply In_upto; lia)). rewrite forallb_forall in S.
  specialize (S (x mod 256) ltac:(apply In_upto; lia)).
  replace (x / 256 * 256 + x mod 256) with x in S by lia. exact S.
Qed.
