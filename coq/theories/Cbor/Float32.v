(* binary32 -> binary64 widening (Wire.widen32) is exact on every pattern: same class, sign and value. *)
From Cddl Require Import Base.Bytes Cbor.Wire Cbor.Float.
From Coq Require Import ZifyBool ZifyNat ZifyN.
Open Scope N_scope.
Ltac Zify.zify_post_hook ::= Z.div_mod_to_equations.

Definition widen32_ok (x : N) : bool :=
  match f32 x, f64 (widen32 x) with
  | FNum s v, FNum s' v' => Bool.eqb s s' && (v =? v')
  | FInf s, FInf s' => Bool.eqb s s'
  | FNaN, FNaN => true
  | _, _ => false
  end.

(* decomposition of a binary64 pattern built from its fields *)
Lemma f64_fields s E M : s <= 1 -> E < 2048 -> M < 2 ^ 52 ->
  let X := s * 2 ^ 63 + E * 2 ^ 52 + M in
  X / 2 ^ 63 = s /\ (X / 2 ^ 52) mod 2048 = E /\ X mod 2 ^ 52 = M.
Proof.
  intros Hs HE HM X. unfold X.
  change (2 ^ 63) with 9223372036854775808. change (2 ^ 52) with 4503599627370496 in *.
  repeat split; lia.
Qed.

Lemma f64_of_fields s E M : s <= 1 -> E < 2047 -> 0 < E -> M < 2 ^ 52 ->
  f64 (s * 2 ^ 63 + E * 2 ^ 52 + M) = FNum (0 <? s) ((2 ^ 52 + M) * 2 ^ (1074 + E - 1023 - 52)).
Proof.
  intros Hs HE HE0 HM.
  destruct (f64_fields s E M Hs ltac:(lia) HM) as (A & B & C).
  unfold f64, fdecode.
  change (11 + 52) with 63. change (2 ^ (11 - 1) - 1) with 1023. change (2 ^ 11) with 2048.
  rewrite A, B, C.
  destruct (E =? 2048 - 1) eqn:E1; [lia|]. destruct (E =? 0) eqn:E2; [lia|]. reflexivity.
Qed.

Lemma f64_zero s : s <= 1 -> f64 (s * 2 ^ 63) = FNum (0 <? s) 0.
Proof.
  intros Hs. destruct (f64_fields s 0 0 Hs ltac:(lia) ltac:(reflexivity)) as (A & B & C).
  replace (s * 2 ^ 63) with (s * 2 ^ 63 + 0 * 2 ^ 52 + 0) by lia.
  unfold f64, fdecode. change (11 + 52) with 63. change (2 ^ 11) with 2048. rewrite A, B, C. reflexivity.
Qed.

Lemma f64_inf s : s <= 1 -> f64 (s * 2 ^ 63 + 2047 * 2 ^ 52) = FInf (0 <? s).
Proof.
  intros Hs. destruct (f64_fields s 2047 0 Hs ltac:(lia) ltac:(reflexivity)) as (A & B & C).
  replace (s * 2 ^ 63 + 2047 * 2 ^ 52) with (s * 2 ^ 63 + 2047 * 2 ^ 52 + 0) by lia.
  unfold f64, fdecode. change (11 + 52) with 63. change (2 ^ 11) with 2048. rewrite A, B, C. reflexivity.
Qed.

Lemma f64_nan : f64 (2047 * 2 ^ 52 + 2 ^ 51) = FNaN.
Proof. vm_compute. reflexivity. Qed.

Lemma pow_split a b c : a + b = c -> 2 ^ a * 2 ^ b = 2 ^ c.
Proof. intros <-. symmetry. apply N.pow_add_r. Qed.

Theorem widen32_exact x : x < 2 ^ 32 -> widen32_ok x = true.
Proof.
  intros Hx. unfold widen32_ok, f32, widen32, widen, fdecode.
  change (8 + 23) with 31. change (2 ^ (8 - 1) - 1) with 127. change (2 ^ 8) with 256.
  set (s := x / 2 ^ 31). set (e := (x / 2 ^ 23) mod 256). set (m := x mod 2 ^ 23).
  assert (Hs : s <= 1) by (unfold s; change (2 ^ 31) with 2147483648; change (2 ^ 32) with 4294967296 in Hx; lia).
  assert (He : e < 256) by (unfold e; lia).
  assert (Hm : m < 2 ^ 23) by (unfold m; apply N.mod_lt; discriminate).
  destruct (e =? 256 - 1) eqn:E255.
  - (* infinities and NaNs *)
    destruct (e =? 0) eqn:E0; [lia|].
    destruct (m =? 0) eqn:M0.
    + rewrite f64_inf by exact Hs. apply Bool.eqb_reflx.
    + rewrite f64_nan. reflexivity.
  - destruct (e =? 0) eqn:E0.
    + destruct (m =? 0) eqn:M0.
      * (* zeros *)
        rewrite f64_zero by exact Hs. apply N.eqb_eq in M0. rewrite M0. rewrite Bool.eqb_reflx. reflexivity.
      * (* subnormals: m * 2^-149 *)
        set (k := N.log2 m).
        assert (Hm0 : 0 < m) by lia.
        destruct (N.log2_spec m Hm0) as [Hlo Hhi]. fold k in Hlo, Hhi.
        assert (Hk : k <= 22).
        { assert (k < 23); [|lia]. apply (N.pow_lt_mono_r_iff 2); [lia|]. eapply N.le_lt_trans; eauto. }
        replace (k + 1023 + 1 - 127 - 23) with (k + 874) by lia.
        assert (HM : (m - 2 ^ k) * 2 ^ (52 - k) < 2 ^ 52).
        { rewrite <- (pow_split k (52 - k) 52) by lia.
          apply N.mul_lt_mono_pos_r; [apply N.neq_0_lt_0; apply N.pow_nonzero; discriminate|].
          rewrite N.pow_succ_r' in Hhi. lia. }
        rewrite f64_of_fields; [|exact Hs|lia|lia|exact HM].
        rewrite Bool.eqb_reflx. cbn [andb]. apply N.eqb_eq.
        replace (1074 + 1 - 127 - 23) with 925 by reflexivity.
        replace (1074 + (k + 874) - 1023 - 52) with (k + 873) by lia.
        rewrite N.mul_add_distr_r.
        rewrite (pow_split 52 (k + 873) (k + 925)) by lia.
        rewrite <- N.mul_assoc. rewrite (pow_split (52 - k) (k + 873) 925) by lia.
        rewrite <- (pow_split k 925 (k + 925)) by lia.
        rewrite <- N.mul_add_distr_r. f_equal. lia.
    + (* normal numbers *)
      assert (HM : m * 2 ^ (52 - 23) < 2 ^ 52).
      { change (52 - 23) with 29. rewrite <- (pow_split 23 29 52) by reflexivity.
        apply N.mul_lt_mono_pos_r; [reflexivity|exact Hm]. }
      replace (e + 1023 - 127) with (e + 896) by lia.
      rewrite f64_of_fields; [|exact Hs|lia|lia|exact HM].
      rewrite Bool.eqb_reflx. cbn [andb]. apply N.eqb_eq.
      replace (1074 + e - 127 - 23) with (e + 895 + 29) by lia.
      replace (1074 + (e + 896) - 1023 - 52) with (e + 895) by lia.
      rewrite N.pow_add_r. change (52 - 23) with 29.
      change (2 ^ 52) with (2 ^ 23 * 2 ^ 29). lia.
Qed.
