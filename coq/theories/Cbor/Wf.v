(* RFC 8949 well-formedness and data-model values, as a relation
     Enc : item -> list N -> Prop      "these bytes are an encoding of this data item".
   Section numbers refer to RFC 8949. This file is the auditable specification for C11;
   it does not mention the decoder. *)
From Cddl Require Import Base.Bytes Base.Utf8 Cbor.Wire.
Open Scope N_scope.

(* 3: the argument of a head is carried in the additional information (0..23) or in the
   1, 2, 4, 8 bytes that follow (ai 24..27), big-endian. Any width that holds the argument
   is well-formed (preferred serialisation is not required). *)
Definition width_ai (k : nat) (ai : N) : Prop :=
  (k = 1%nat /\ ai = 24) \/ (k = 2%nat /\ ai = 25) \/ (k = 4%nat /\ ai = 26) \/ (k = 8%nat /\ ai = 27).

Inductive Head (m : N) : N -> list N -> Prop :=
| HeadImm n : n < 24 -> Head m n [m * 32 + n]
| HeadNext k ai b : width_ai k ai -> length b = k -> Head m (be b) (m * 32 + ai :: b).

(* 3.2.3: an indefinite-length string is a sequence of definite-length chunks of the same
   major type, closed by break; each text chunk is valid UTF-8 on its own *)
Inductive Chunks (m : N) (ok : list N -> bool) : list N -> list N -> Prop :=
| ChNil : Chunks m ok [] []
| ChCons p h q e : Head m (lenN p) h -> ok p = true -> Chunks m ok q e ->
                   Chunks m ok (p ++ q) (h ++ p ++ e).

Fixpoint flat_pairs (l : list (item * item)) : list item :=
  match l with
  | [] => []
  | (k, v) :: r => k :: v :: flat_pairs r
  end.

Inductive Enc : item -> list N -> Prop :=
(* 3.1 major 0 / 1: the argument is the value / -1 minus the value *)
| EncUint n h : Head 0 n h -> Enc (IUint n) h
| EncNint n h : Head 1 n h -> Enc (INint n) h
(* 3.1 major 2 / 3, definite and (3.2.3) indefinite *)
| EncBytes p h : Head 2 (lenN p) h -> Enc (IBytes p) (h ++ p)
| EncBytesI p e : Chunks 2 (fun _ => true) p e -> Enc (IBytes p) (95 :: e ++ [255])
| EncText p h : Head 3 (lenN p) h -> utf8_valid p = true -> Enc (IText p) (h ++ p)
| EncTextI p e : Chunks 3 utf8_valid p e -> Enc (IText p) (127 :: e ++ [255])
(* 3.1 major 4 / 5, definite and (3.2.2) indefinite; a map is its keys and values alternating *)
| EncArr l h e : Head 4 (lenN l) h -> EncL l e -> Enc (IArr l) (h ++ e)
| EncArrI l e : EncL l e -> Enc (IArr l) (159 :: e ++ [255])
| EncMap l h e : Head 5 (lenN l) h -> EncL (flat_pairs l) e -> Enc (IMap l) (h ++ e)
| EncMapI l e : EncL (flat_pairs l) e -> Enc (IMap l) (191 :: e ++ [255])
(* 3.4 tags *)
| EncTag n i h e : Head 6 n h -> Enc i e -> Enc (ITag n i) (h ++ e)
(* 3.3 simple values: 0..23 in one byte, 32..255 in two; f8 00 .. f8 1f is not well-formed *)
| EncSimple1 n : n < 24 -> Enc (ISimple n) [224 + n]
| EncSimple2 n : 32 <= n -> n < 256 -> Enc (ISimple n) [248; n]
(* 3.3 floats of the three widths, by value (binary64 pattern of the same number) *)
| EncF16 b : length b = 2%nat -> Enc (IFloat (widen16 (be b))) (249 :: b)
| EncF32 b : length b = 4%nat -> Enc (IFloat (widen32 (be b))) (250 :: b)
| EncF64 b : length b = 8%nat -> Enc (IFloat (be b)) (251 :: b)
with EncL : list item -> list N -> Prop :=
| EncLnil : EncL [] []
| EncLcons i l e1 e2 : Enc i e1 -> EncL l e2 -> EncL (i :: l) (e1 ++ e2).

Scheme Enc_mut := Minimality for Enc Sort Prop
with EncL_mut := Minimality for EncL Sort Prop.
Combined Scheme Enc_EncL_ind from Enc_mut, EncL_mut.
