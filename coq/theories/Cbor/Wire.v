(* Faithful model of src/validator/cbor_value.rs (decode_cbor and helpers) on top of
   ciborium-ll 0.2.2's Decoder::pull (dec.rs pull_title + hdr.rs TryFrom<Title> for Header).
   No proofs in this file: the model keeps running when a proof breaks. *)
From Cddl Require Import Base.Bytes Base.Utf8.
Open Scope N_scope.

(* ---------- data-model items (RFC 8949 section 2) ---------- *)
Inductive item :=
| IUint (n : N)                   (* major 0: the argument *)
| INint (n : N)                   (* major 1: argument n denotes -1-n *)
| IBytes (bs : list N)
| IText (bs : list N)             (* UTF-8 bytes *)
| IArr (l : list item)
| IMap (l : list (item * item))
| ITag (n : N) (i : item)
| ISimple (n : N)
| IFloat (b64 : N).               (* binary64 bit pattern after exact widening *)

Inductive err := ESyntax | EEof | EBreak | EFuel.
Inductive res (A : Type) := Ok (a : A) | Err (e : err).
Arguments Ok {A} a.
Arguments Err {A} e.

(* ---------- float widening (half::f16 -> f64, f32 -> f64), on bit patterns ---------- *)
Definition widen (ebits mbits : N) (x : N) : N :=
  let bias := 2 ^ (ebits - 1) - 1 in
  let s := x / 2 ^ (ebits + mbits) in
  let e := (x / 2 ^ mbits) mod 2 ^ ebits in
  let m := x mod 2 ^ mbits in
  let sign := s * 2 ^ 63 in
  if e =? 0 then
    if m =? 0 then sign
    else (* subnormal: m * 2^(1 - bias - mbits) *)
      let k := N.log2 m in
      sign + (k + 1023 + 1 - bias - mbits) * 2 ^ 52 + (m - 2 ^ k) * 2 ^ (52 - k)
  else if e =? 2 ^ ebits - 1 then
    if m =? 0 then sign + 2047 * 2 ^ 52
    else 2047 * 2 ^ 52 + 2 ^ 51   (* NaN: all NaNs are identified (canonical quiet NaN) *)
  else sign + (e + 1023 - bias) * 2 ^ 52 + m * 2 ^ (52 - mbits).
Definition widen16 := widen 5 10.
Definition widen32 := widen 8 23.

(* ---------- ciborium-ll: titles and headers ---------- *)
Inductive minor := MThis (x : N) | MNext (k : nat) (x : N) | MMore.
Inductive hdr :=
| HPos (n : N) | HNeg (n : N) | HFloat (b : N) | HSimple (n : N) | HTag (n : N) | HBreak
| HBytes (l : option N) | HText (l : option N) | HArr (l : option N) | HMap (l : option N).

Definition next_width (ai : N) : option nat :=
  if ai =? 24 then Some 1%nat else if ai =? 25 then Some 2%nat
  else if ai =? 26 then Some 4%nat else if ai =? 27 then Some 8%nat else None.

(* dec.rs pull_title: reserved additional information (28..30) is a syntax error
   raised before the argument bytes are read *)
Definition pull_title (bs : list N) : res (N * minor * list N) :=
  match bs with
  | [] => Err EEof
  | b :: r =>
    let ai := b mod 32 in
    if ai <? 24 then Ok (b / 32, MThis ai, r)
    else match next_width ai with
         | Some k => match take_k k r with
                     | Some (h, t) => Ok (b / 32, MNext k (be h), t)
                     | None => Err EEof
                     end
         | None => if ai =? 31 then Ok (b / 32, MMore, r) else Err ESyntax
         end
  end.

Definition minor_arg (m : minor) : option N :=
  match m with MThis x => Some x | MNext _ x => Some x | MMore => None end.

(* hdr.rs TryFrom<Title>; plus the check of cbor_value.rs that a two-byte simple
   value below 32 is not well-formed (RFC 8949 3.3) *)
Definition to_hdr (major : N) (m : minor) : res hdr :=
  let int (f : N -> hdr) := match minor_arg m with Some x => Ok (f x) | None => Err ESyntax end in
  let len (f : option N -> hdr) := Ok (f (minor_arg m)) in
  if major =? 0 then int HPos
  else if major =? 1 then int HNeg
  else if major =? 2 then len HBytes
  else if major =? 3 then len HText
  else if major =? 4 then len HArr
  else if major =? 5 then len HMap
  else if major =? 6 then int HTag
  else match m with
       | MMore => Ok HBreak
       | MThis x => Ok (HSimple x)
       | MNext 1 x => if x <? 32 then Err ESyntax else Ok (HSimple x)
       | MNext 2 x => Ok (HFloat (widen16 x))
       | MNext 4 x => Ok (HFloat (widen32 x))
       | MNext _ x => Ok (HFloat x)
       end.

Definition pull (bs : list N) : res (hdr * list N) :=
  match pull_title bs with
  | Err e => Err e
  | Ok (major, m, r) => match to_hdr major m with
                        | Err e => Err e
                        | Ok h => Ok (h, r)
                        end
  end.

(* ---------- cbor_value.rs ---------- *)

(* read_bytes(decoder, None) / read_text(decoder, None): chunks until break; every chunk
   must be a definite-length string of the same major type; every text chunk is
   converted with String::from_utf8 on its own. [txt] selects the major type. *)
Definition chunk_ok (txt : bool) (p : list N) : bool := if txt then utf8_valid p else true.
Definition chunk_len (txt : bool) (h : hdr) : option N :=
  match txt, h with
  | false, HBytes (Some n) => Some n
  | true, HText (Some n) => Some n
  | _, _ => None
  end.

Fixpoint chunks (txt : bool) (fuel : nat) (bs : list N) : res (list N * list N) :=
  match fuel with
  | O => Err EFuel
  | S f =>
    match pull bs with
    | Err e => Err e
    | Ok (HBreak, r) => Ok ([], r)
    | Ok (h, r) =>
      match chunk_len txt h with
      | None => Err ESyntax
      | Some n =>
        match takeN n r with
        | None => Err EEof
        | Some (p, t) =>
          if chunk_ok txt p then
            match chunks txt f t with
            | Err e => Err e
            | Ok (q, u) => Ok (p ++ q, u)
            end
          else Err ESyntax
        end
      end
    end
  end.

(* decode_map reads key, value, key, value ...: the flat item sequence is read by the
   same loops as an array and paired up afterwards. A break in value position ends the
   flat sequence with an odd count, which is the code's UnexpectedBreak. *)
Fixpoint pair_up (l : list item) : option (list (item * item)) :=
  match l with
  | [] => Some []
  | k :: v :: r => match pair_up r with Some q => Some ((k, v) :: q) | None => None end
  | [_] => None
  end.

Fixpoint dec_item (fuel : nat) (bs : list N) {struct fuel} : res (item * list N) :=
  match fuel with
  | O => Err EFuel
  | S f =>
    match pull bs with
    | Err e => Err e
    | Ok (h, r) =>
      match h with
      | HPos n => Ok (IUint n, r)
      | HNeg n => Ok (INint n, r)
      | HFloat b => Ok (IFloat b, r)
      | HSimple n => Ok (ISimple n, r)
      | HBytes (Some n) =>
        match takeN n r with Some (p, t) => Ok (IBytes p, t) | None => Err EEof end
      | HBytes None =>
        match chunks false f r with Ok (p, t) => Ok (IBytes p, t) | Err e => Err e end
      | HText (Some n) =>
        match takeN n r with
        | Some (p, t) => if utf8_valid p then Ok (IText p, t) else Err ESyntax
        | None => Err EEof
        end
      | HText None =>
        match chunks true f r with Ok (p, t) => Ok (IText p, t) | Err e => Err e end
      | HTag n =>
        match dec_item f r with Ok (i, t) => Ok (ITag n i, t) | Err e => Err e end
      | HArr (Some n) =>
        match dec_items f n r with Ok (l, t) => Ok (IArr l, t) | Err e => Err e end
      | HArr None =>
        match dec_indef f r with Ok (l, t) => Ok (IArr l, t) | Err e => Err e end
      | HMap (Some n) =>
        match dec_items f (2 * n) r with
        | Ok (l, t) => match pair_up l with Some q => Ok (IMap q, t) | None => Err EBreak end
        | Err e => Err e
        end
      | HMap None =>
        match dec_indef f r with
        | Ok (l, t) => match pair_up l with Some q => Ok (IMap q, t) | None => Err EBreak end
        | Err e => Err e
        end
      | HBreak => Err EBreak
      end
    end
  end
(* for _ in 0..n { items.push(decode_value(decoder)?) } -- n from the wire, loop driven by fuel *)
with dec_items (fuel : nat) (n : N) (bs : list N) {struct fuel} : res (list item * list N) :=
  match fuel with
  | O => Err EFuel
  | S f =>
    if n =? 0 then Ok ([], bs) else
    match dec_item f bs with
    | Err e => Err e
    | Ok (i, r) => match dec_items f (N.pred n) r with
                   | Err e => Err e
                   | Ok (l, t) => Ok (i :: l, t)
                   end
    end
  end
(* loop { h = pull; if h == Break { break }; push(h); items.push(decode_value) } *)
with dec_indef (fuel : nat) (bs : list N) {struct fuel} : res (list item * list N) :=
  match fuel with
  | O => Err EFuel
  | S f =>
    match pull bs with
    | Err e => Err e
    | Ok (HBreak, r) => Ok ([], r)
    | Ok (_, _) =>
      match dec_item f bs with
      | Err e => Err e
      | Ok (i, r) => match dec_indef f r with
                     | Err e => Err e
                     | Ok (l, t) => Ok (i :: l, t)
                     end
      end
    end
  end.

Definition fuel_for (bs : list N) : nat := S (S (2 * length bs)).
Definition decode_item (bs : list N) : res (item * list N) := dec_item (fuel_for bs) bs.

(* ---------- the crate's Value ---------- *)
Inductive cval :=
| VInt (z : Z) | VBytes (bs : list N) | VText (bs : list N) | VFloat (b64 : N)
| VBool (b : bool) | VNull | VTag (n : N) (v : cval) | VArr (l : list cval)
| VMap (l : list (cval * cval)) | VSimple (n : N).

Fixpoint to_value (i : item) : cval :=
  match i with
  | IUint n => VInt (Z.of_N n)
  | INint n => VInt (-1 - Z.of_N n)
  | IBytes b => VBytes b
  | IText b => VText b
  | IArr l => VArr (map to_value l)
  | IMap l => VMap (map (fun kv => (to_value (fst kv), to_value (snd kv))) l)
  | ITag n i => VTag n (to_value i)
  | ISimple n => if n =? 20 then VBool false else if n =? 21 then VBool true
                 else if (n =? 22) || (n =? 23) then VNull else VSimple n
  | IFloat b => VFloat b
  end.

Definition decode_cbor (bs : list N) : res cval :=
  match decode_item bs with
  | Ok (i, _) => Ok (to_value i)
  | Err e => Err e
  end.

(* ---------- canonical rendering shared with the Rust driver ---------- *)
Definition is_nan64 (b : N) : bool :=
  ((b / 2 ^ 52) mod 2048 =? 2047) && negb (b mod 2 ^ 52 =? 0).

Fixpoint sep_concat (sep : list N) (l : list (list N)) : list N :=
  match l with
  | [] => []
  | [x] => x
  | x :: r => x ++ sep ++ sep_concat sep r
  end.

Fixpoint render (v : cval) : list N :=
  match v with
  | VInt z => match z with
              | Z0 => [105; 48]
              | Zpos p => 105 :: hexN (Npos p)
              | Zneg p => 105 :: 45 :: hexN (Npos p)
              end
  | VBytes b => 98 :: hexbytes b
  | VText b => 116 :: hexbytes b
  | VFloat b => if is_nan64 b then [102; 78; 97; 78] else 102 :: hex_fixed 16 b []
  | VBool true => [84]
  | VBool false => [70]
  | VNull => [78]
  | VTag n v => 103 :: hexN n ++ [40] ++ render v ++ [41]
  | VArr l => [91] ++ sep_concat [44] (map render l) ++ [93]
  | VMap l => [123] ++ sep_concat [44] (map (fun kv => render (fst kv) ++ [58] ++ render (snd kv)) l) ++ [125]
  | VSimple n => 115 :: hexN n
  end.

Definition err_code (e : err) : list N :=
  match e with
  | ESyntax => [115;121;110;116;97;120]      (* "syntax" *)
  | EEof => [101;111;102]                    (* "eof" *)
  | EBreak => [98;114;101;97;107]            (* "break" *)
  | EFuel => [102;117;101;108]               (* "fuel" *)
  end.

Definition decode_render (bs : list N) : list N :=
  match decode_cbor bs with
  | Ok v => [79;75;32] ++ render v
  | Err e => [69;82;82;32] ++ err_code e
  end.
