(* Proofs about the decoder model: it decides exactly the RFC 8949 relation of Wf.v. *)
From Cddl Require Import Base.Bytes Base.Utf8 Cbor.Wire Cbor.Wf.
From Coq Require Import ZifyBool ZifyNat ZifyN.
Open Scope N_scope.
Ltac Zify.zify_post_hook ::= Z.div_mod_to_equations.
Arguments N.add : simpl never.
Arguments N.mul : simpl never.
Arguments N.div : simpl never.
Arguments N.modulo : simpl never.
Arguments N.pow : simpl never.
Arguments N.ltb : simpl never.
Arguments N.eqb : simpl never.

(* ---------- lists of bytes ---------- *)
Lemma wf_app a b : wf_bytes (a ++ b) <-> wf_bytes a /\ wf_bytes b.
Proof. unfold wf_bytes. apply Forall_app. Qed.

Lemma take_k_spec k : forall r h t, take_k k r = Some (h, t) -> r = h ++ t /\ length h = k.
Proof.
  induction k as [|k IH]; intros r h t H; cbn [take_k] in H.
  - inversion H; subst; auto.
  - destruct r as [|b r]; [discriminate|].
    destruct (take_k k r) as [[h' t']|] eqn:E; [|discriminate].
    inversion H; subst. apply IH in E as [-> <-]. auto.
Qed.

Lemma take_k_app k : forall h t, length h = k -> take_k k (h ++ t) = Some (h, t).
Proof.
  induction k as [|k IH]; intros h t H.
  - destruct h; [reflexivity|discriminate].
  - destruct h as [|b h]; [discriminate|]. cbn [take_k app]. rewrite IH; auto.
Qed.

Lemma take_k_none k : forall r, take_k k r = None -> (length r < k)%nat.
Proof.
  induction k as [|k IH]; intros r H; cbn [take_k] in H; [discriminate|].
  destruct r as [|b r]; [cbn; lia|].
  destruct (take_k k r) as [[h t]|] eqn:E; [discriminate|]. apply IH in E. cbn. lia.
Qed.

Lemma lenN_cons {A} (x : A) l : lenN (x :: l) = N.succ (lenN l).
Proof. unfold lenN. cbn [length]. lia. Qed.
Lemma lenN_app {A} (a b : list A) : lenN (a ++ b) = lenN a + lenN b.
Proof. unfold lenN. rewrite app_length. lia. Qed.

Lemma takeN_spec : forall r n p t, takeN n r = Some (p, t) -> r = p ++ t /\ lenN p = n.
Proof.
  induction r as [|b r IH]; intros n p t H; cbn [takeN] in H.
  - destruct (n =? 0) eqn:E; [|discriminate]. inversion H; subst. split; auto. unfold lenN; cbn; lia.
  - destruct (n =? 0) eqn:E.
    + inversion H; subst. split; auto. unfold lenN; cbn; lia.
    + destruct (takeN (N.pred n) r) as [[h' t']|] eqn:E2; [|discriminate].
      inversion H; subst. apply IH in E2 as [-> E3]. split; auto. rewrite lenN_cons. lia.
Qed.

Lemma takeN_app : forall p t, takeN (lenN p) (p ++ t) = Some (p, t).
Proof.
  induction p as [|b p IH]; intros t.
  - destruct t; reflexivity.
  - rewrite lenN_cons. cbn [app takeN].
    destruct (N.succ (lenN p) =? 0) eqn:E; [lia|]. rewrite N.pred_succ, IH. reflexivity.
Qed.

Lemma takeN_len : forall r n p t, takeN n r = Some (p, t) -> (length t <= length r)%nat.
Proof. intros r n p t H. apply takeN_spec in H as [-> _]. rewrite app_length. lia. Qed.

(* ---------- heads ---------- *)
Inductive HdrEnc : hdr -> list N -> Prop :=
| HEPos n h : Head 0 n h -> HdrEnc (HPos n) h
| HENeg n h : Head 1 n h -> HdrEnc (HNeg n) h
| HEBytes n h : Head 2 n h -> HdrEnc (HBytes (Some n)) h
| HEBytesI : HdrEnc (HBytes None) [95]
| HEText n h : Head 3 n h -> HdrEnc (HText (Some n)) h
| HETextI : HdrEnc (HText None) [127]
| HEArr n h : Head 4 n h -> HdrEnc (HArr (Some n)) h
| HEArrI : HdrEnc (HArr None) [159]
| HEMap n h : Head 5 n h -> HdrEnc (HMap (Some n)) h
| HEMapI : HdrEnc (HMap None) [191]
| HETag n h : Head 6 n h -> HdrEnc (HTag n) h
| HEBreak : HdrEnc HBreak [255]
| HESimple1 n : n < 24 -> HdrEnc (HSimple n) [224 + n]
| HESimple2 n : 32 <= n -> n < 256 -> HdrEnc (HSimple n) [248; n]
| HEF16 b : length b = 2%nat -> HdrEnc (HFloat (widen16 (be b))) (249 :: b)
| HEF32 b : length b = 4%nat -> HdrEnc (HFloat (widen32 (be b))) (250 :: b)
| HEF64 b : length b = 8%nat -> HdrEnc (HFloat (be b)) (251 :: b).

Lemma next_width_spec ai k : next_width ai = Some k -> width_ai k ai.
Proof.
  unfold next_width, width_ai.
  destruct (ai =? 24) eqn:E1; [intros H; inversion H; lia|].
  destruct (ai =? 25) eqn:E2; [intros H; inversion H; lia|].
  destruct (ai =? 26) eqn:E3; [intros H; inversion H; lia|].
  destruct (ai =? 27) eqn:E4; [intros H; inversion H; lia|discriminate].
Qed.

Lemma width_ai_next k ai : width_ai k ai -> next_width ai = Some k /\ (ai <? 24) = false.
Proof. unfold width_ai, next_width. intros [[-> ->]|[[-> ->]|[[-> ->]|[-> ->]]]]; split; reflexivity. Qed.

Lemma be1 x : be [x] = x.
Proof. unfold be. cbn. lia. Qed.

Lemma pull_title_sound bs major m r :
  wf_bytes bs -> pull_title bs = Ok (major, m, r) ->
  major < 8 /\
  ((exists x, m = MThis x /\ x < 24 /\ bs = (major * 32 + x) :: r) \/
   (exists k ai b, m = MNext k (be b) /\ width_ai k ai /\ length b = k /\ bs = (major * 32 + ai) :: b ++ r) \/
   (m = MMore /\ bs = (major * 32 + 31) :: r)).
Proof.
  intros W H. destruct bs as [|b bs]; [discriminate|]. cbn [pull_title] in H.
  assert (Hb : b < 256) by (inversion W; auto).
  destruct (b mod 32 <? 24) eqn:E.
  - inversion H; subst. split; [lia|]. left. exists (b mod 32). repeat split; try lia. f_equal. lia.
  - destruct (next_width (b mod 32)) as [k|] eqn:En.
    + destruct (take_k k bs) as [[h t]|] eqn:Et; [|discriminate]. inversion H; subst.
      apply take_k_spec in Et as [-> Hl]. apply next_width_spec in En.
      split; [lia|]. right; left. exists (length h), (b mod 32), h. subst k. repeat split; auto. f_equal. lia.
    + destruct (b mod 32 =? 31) eqn:E31; [|discriminate]. inversion H; subst.
      split; [lia|]. right; right. split; auto. f_equal. lia.
Qed.

Lemma pull_sound bs h r :
  wf_bytes bs -> pull bs = Ok (h, r) -> exists hd, bs = hd ++ r /\ hd <> [] /\ HdrEnc h hd.
Proof.
  intros W H. unfold pull in H.
  destruct (pull_title bs) as [[[major m] r']|e] eqn:Et; [|discriminate].
  destruct (to_hdr major m) as [h'|e] eqn:Eh; [|discriminate]. inversion H; subst; clear H.
  apply pull_title_sound in Et as [Hm Hc]; auto.
  unfold to_hdr in Eh.
  assert (Hhead : forall x, minor_arg m = Some x -> exists hd, bs = hd ++ r /\ hd <> [] /\ Head major x hd).
  { intros x Hx. destruct Hc as [(y & -> & Hy & ->)|[(k & ai & b & -> & Hw & Hl & ->)|[-> _]]]; cbn in Hx; inversion Hx; subst.
    - exists [major * 32 + x]. repeat split; [discriminate|constructor; auto].
    - exists ((major * 32 + ai) :: b). repeat split; [discriminate|]. econstructor; eauto. }
  assert (Hmore : minor_arg m = None -> bs = (major * 32 + 31) :: r).
  { intros Hx. destruct Hc as [(y & -> & Hy & ->)|[(k & ai & b & -> & Hw & Hl & ->)|[-> ->]]]; cbn in Hx; try discriminate; auto. }
  destruct (major =? 0) eqn:E0.
  { apply N.eqb_eq in E0; subst. destruct (minor_arg m) as [x|] eqn:Ex; [|discriminate]. inversion Eh; subst.
    destruct (Hhead x eq_refl) as (hd & ? & ? & ?). exists hd. repeat split; auto. constructor; auto. }
  destruct (major =? 1) eqn:E1.
  { apply N.eqb_eq in E1; subst. destruct (minor_arg m) as [x|] eqn:Ex; [|discriminate]. inversion Eh; subst.
    destruct (Hhead x eq_refl) as (hd & ? & ? & ?). exists hd. repeat split; auto. constructor; auto. }
  destruct (major =? 2) eqn:E2.
  { apply N.eqb_eq in E2; subst. inversion Eh; subst. destruct (minor_arg m) as [x|] eqn:Ex.
    - destruct (Hhead x eq_refl) as (hd & ? & ? & ?). exists hd. repeat split; auto. constructor; auto.
    - rewrite (Hmore eq_refl). exists [95]. repeat split; [discriminate|constructor]. }
  destruct (major =? 3) eqn:E3.
  { apply N.eqb_eq in E3; subst. inversion Eh; subst. destruct (minor_arg m) as [x|] eqn:Ex.
    - destruct (Hhead x eq_refl) as (hd & ? & ? & ?). exists hd. repeat split; auto. constructor; auto.
    - rewrite (Hmore eq_refl). exists [127]. repeat split; [discriminate|constructor]. }
  destruct (major =? 4) eqn:E4.
  { apply N.eqb_eq in E4; subst. inversion Eh; subst. destruct (minor_arg m) as [x|] eqn:Ex.
    - destruct (Hhead x eq_refl) as (hd & ? & ? & ?). exists hd. repeat split; auto. constructor; auto.
    - rewrite (Hmore eq_refl). exists [159]. repeat split; [discriminate|constructor]. }
  destruct (major =? 5) eqn:E5.
  { apply N.eqb_eq in E5; subst. inversion Eh; subst. destruct (minor_arg m) as [x|] eqn:Ex.
    - destruct (Hhead x eq_refl) as (hd & ? & ? & ?). exists hd. repeat split; auto. constructor; auto.
    - rewrite (Hmore eq_refl). exists [191]. repeat split; [discriminate|constructor]. }
  destruct (major =? 6) eqn:E6.
  { apply N.eqb_eq in E6; subst. destruct (minor_arg m) as [x|] eqn:Ex; [|discriminate]. inversion Eh; subst.
    destruct (Hhead x eq_refl) as (hd & ? & ? & ?). exists hd. repeat split; auto. constructor; auto. }
  assert (major = 7) by lia. subst major. clear E0 E1 E2 E3 E4 E5 E6 Hhead Hmore.
  destruct Hc as [(y & -> & Hy & ->)|[(k & ai & b & -> & Hw & Hl & ->)|[-> ->]]].
  - inversion Eh; subst. exists [7 * 32 + y]. repeat split; [discriminate|].
    replace (7 * 32 + y) with (224 + y) by lia. constructor; auto.
  - assert (Wb : wf_bytes b) by (inversion W as [|? ? ? W']; apply wf_app in W'; tauto).
    destruct Hw as [[-> ->]|[[-> ->]|[[-> ->]|[-> ->]]]].
    + destruct b as [|x [|? ?]]; try discriminate. rewrite be1 in Eh.
      destruct (x <? 32) eqn:Ex; [discriminate|]. inversion Eh; subst.
      exists [248; x]. repeat split; [discriminate|]. constructor; [lia|]. inversion Wb; auto.
    + inversion Eh; subst. exists (249 :: b). repeat split; [discriminate|]. constructor; auto.
    + inversion Eh; subst. exists (250 :: b). repeat split; [discriminate|]. constructor; auto.
    + inversion Eh; subst. exists (251 :: b). repeat split; [discriminate|]. constructor; auto.
  - inversion Eh; subst. exists [255]. repeat split; [discriminate|constructor].
Qed.

Lemma pull_title_imm m n r : m < 8 -> n < 24 -> pull_title ((m * 32 + n) :: r) = Ok (m, MThis n, r).
Proof.
  intros Hm Hn. cbn [pull_title].
  replace ((m * 32 + n) mod 32) with n by lia. replace ((m * 32 + n) / 32) with m by lia.
  destruct (n <? 24) eqn:E; [reflexivity|lia].
Qed.

Lemma pull_title_next m k ai b r :
  m < 8 -> width_ai k ai -> length b = k -> pull_title ((m * 32 + ai) :: b ++ r) = Ok (m, MNext k (be b), r).
Proof.
  intros Hm Hw Hl. cbn [pull_title].
  assert (ai < 32) by (destruct Hw as [[_ ->]|[[_ ->]|[[_ ->]|[_ ->]]]]; lia).
  replace ((m * 32 + ai) mod 32) with ai by lia. replace ((m * 32 + ai) / 32) with m by lia.
  destruct (width_ai_next _ _ Hw) as [-> ->]. rewrite take_k_app; auto.
Qed.

Lemma pull_title_more m r : m < 8 -> pull_title ((m * 32 + 31) :: r) = Ok (m, MMore, r).
Proof.
  intros Hm. cbn [pull_title].
  replace ((m * 32 + 31) mod 32) with 31 by lia. replace ((m * 32 + 31) / 32) with m by lia.
  reflexivity.
Qed.

Lemma pull_head m n hd r (f : N -> hdr) :
  m < 8 -> Head m n hd ->
  (forall mi, minor_arg mi = Some n -> to_hdr m mi = Ok (f n)) ->
  pull (hd ++ r) = Ok (f n, r).
Proof.
  intros Hm H Hf. unfold pull. destruct H as [n Hn|k ai b Hw Hl].
  - cbn [app]. rewrite pull_title_imm; auto. rewrite Hf; auto.
  - cbn [app]. rewrite (pull_title_next m k ai b r); auto. rewrite Hf; auto.
Qed.

Lemma pull_complete h hd r : HdrEnc h hd -> pull (hd ++ r) = Ok (h, r).
Proof.
  intros H. destruct H.
  - apply (pull_head 0 n h r HPos); [lia|auto|]. intros mi E. unfold to_hdr. rewrite E. reflexivity.
  - apply (pull_head 1 n h r HNeg); [lia|auto|]. intros mi E. unfold to_hdr. rewrite E. reflexivity.
  - apply (pull_head 2 n h r (fun x => HBytes (Some x))); [lia|auto|]. intros mi E. unfold to_hdr. rewrite E. reflexivity.
  - unfold pull. cbn [app]. change 95 with (2 * 32 + 31). rewrite pull_title_more by lia. reflexivity.
  - apply (pull_head 3 n h r (fun x => HText (Some x))); [lia|auto|]. intros mi E. unfold to_hdr. rewrite E. reflexivity.
  - unfold pull. cbn [app]. change 127 with (3 * 32 + 31). rewrite pull_title_more by lia. reflexivity.
  - apply (pull_head 4 n h r (fun x => HArr (Some x))); [lia|auto|]. intros mi E. unfold to_hdr. rewrite E. reflexivity.
  - unfold pull. cbn [app]. change 159 with (4 * 32 + 31). rewrite pull_title_more by lia. reflexivity.
  - apply (pull_head 5 n h r (fun x => HMap (Some x))); [lia|auto|]. intros mi E. unfold to_hdr. rewrite E. reflexivity.
  - unfold pull. cbn [app]. change 191 with (5 * 32 + 31). rewrite pull_title_more by lia. reflexivity.
  - apply (pull_head 6 n h r HTag); [lia|auto|]. intros mi E. unfold to_hdr. rewrite E. reflexivity.
  - unfold pull. cbn [app]. change 255 with (7 * 32 + 31). rewrite pull_title_more by lia. reflexivity.
  - unfold pull. cbn [app]. replace (224 + n) with (7 * 32 + n) by lia. rewrite pull_title_imm by lia. reflexivity.
  - unfold pull. change ([248; n] ++ r) with ((7 * 32 + 24) :: [n] ++ r).
    rewrite (pull_title_next 7 1 24 [n]); [|lia|left; auto|reflexivity].
    unfold to_hdr. cbn [N.eqb]. rewrite be1.
    change (7 =? 0) with false; change (7 =? 1) with false; change (7 =? 2) with false; change (7 =? 3) with false;
    change (7 =? 4) with false; change (7 =? 5) with false; change (7 =? 6) with false. cbv iota.
    destruct (n <? 32) eqn:E; [lia|reflexivity].
  - unfold pull. change ((249 :: b) ++ r) with ((7 * 32 + 25) :: b ++ r).
    rewrite (pull_title_next 7 2 25 b); [|lia|right; left; auto|auto]. reflexivity.
  - unfold pull. change ((250 :: b) ++ r) with ((7 * 32 + 26) :: b ++ r).
    rewrite (pull_title_next 7 4 26 b); [|lia|right; right; left; auto|auto]. reflexivity.
  - unfold pull. change ((251 :: b) ++ r) with ((7 * 32 + 27) :: b ++ r).
    rewrite (pull_title_next 7 8 27 b); [|lia|right; right; right; auto|auto]. reflexivity.
Qed.

(* ---------- soundness: what the decoder returns is an encoded item ---------- *)
Definition major_of (txt : bool) : N := if txt then 3 else 2.

Lemma wf_suffix a b : wf_bytes (a ++ b) -> wf_bytes b.
Proof. intros H. apply wf_app in H. tauto. Qed.

Lemma chunk_len_spec txt h n hd : chunk_len txt h = Some n -> HdrEnc h hd -> Head (major_of txt) n hd.
Proof.
  intros H E. destruct txt, h as [| | | | | |[x|]|[x|]|[x|]|[x|]]; cbn in H; try discriminate;
    inversion H; subst; inversion E; subst; auto.
Qed.

Lemma chunks_sound txt : forall fuel bs p r,
  wf_bytes bs -> chunks txt fuel bs = Ok (p, r) ->
  exists e, bs = e ++ 255 :: r /\ Chunks (major_of txt) (chunk_ok txt) p e.
Proof.
  induction fuel as [|f IH]; intros bs p r W H; cbn [chunks] in H; [discriminate|].
  destruct (pull bs) as [[h r0]|e0] eqn:Ep; [|discriminate].
  destruct (pull_sound _ _ _ W Ep) as (hd & -> & Hne & HE).
  assert (Hbreak : h = HBreak -> exists e, hd ++ r0 = e ++ 255 :: r /\ Chunks (major_of txt) (chunk_ok txt) p e).
  { intros ->. inversion H; subst. inversion HE; subst. exists []. split; [reflexivity|constructor]. }
  destruct (chunk_len txt h) as [n|] eqn:El.
  2:{ destruct h; try discriminate; auto. }
  assert (Hh : Head (major_of txt) n hd) by (eapply chunk_len_spec; eauto).
  assert (h <> HBreak) by (intros ->; destruct txt; discriminate).
  assert (H' : match takeN n r0 with
               | Some (p0, t) => if chunk_ok txt p0 then match chunks txt f t with Ok (q, u) => Ok (p0 ++ q, u) | Err e => Err e end else Err ESyntax
               | None => Err EEof end = Ok (p, r)) by (destruct h; auto; congruence).
  clear H. destruct (takeN n r0) as [[p0 t]|] eqn:Et; [|discriminate].
  apply takeN_spec in Et as [-> Hn].
  destruct (chunk_ok txt p0) eqn:Eok; [|discriminate].
  destruct (chunks txt f t) as [[q u]|e1] eqn:Ec; [|discriminate]. inversion H'; subst.
  apply IH in Ec as (e & -> & HC); [|apply wf_suffix in W; apply wf_suffix in W; auto].
  exists (hd ++ p0 ++ e). split; [rewrite <- !app_assoc; reflexivity|]. constructor; auto.
Qed.

Lemma pair_up_flat : forall l q, pair_up l = Some q -> l = flat_pairs q.
Proof.
  fix IH 1. intros [|k [|v r]] q H; cbn [pair_up] in H.
  - inversion H; reflexivity.
  - discriminate.
  - destruct (pair_up r) as [q'|] eqn:E; [|discriminate]. inversion H; subst.
    cbn [flat_pairs]. f_equal. f_equal. apply IH; auto.
Qed.

Lemma pair_up_of_flat : forall q, pair_up (flat_pairs q) = Some q.
Proof. induction q as [|[k v] q IH]; cbn; [reflexivity|]. rewrite IH. reflexivity. Qed.

Lemma lenN_flat q : lenN (flat_pairs q) = 2 * lenN q.
Proof. induction q as [|[k v] q IH]; [reflexivity|]. cbn [flat_pairs]. rewrite !lenN_cons, IH. lia. Qed.

Lemma dec_sound : forall fuel,
  (forall bs i r, wf_bytes bs -> dec_item fuel bs = Ok (i, r) -> exists e, bs = e ++ r /\ Enc i e) /\
  (forall n bs l r, wf_bytes bs -> dec_items fuel n bs = Ok (l, r) -> exists e, bs = e ++ r /\ EncL l e /\ lenN l = n) /\
  (forall bs l r, wf_bytes bs -> dec_indef fuel bs = Ok (l, r) -> exists e, bs = e ++ 255 :: r /\ EncL l e).
Proof.
  induction fuel as [|f (IHi & IHn & IHd)].
  { repeat split; intros; discriminate. }
  repeat split.
  - intros bs i r W H. cbn [dec_item] in H.
    destruct (pull bs) as [[h r0]|e0] eqn:Ep; [|discriminate].
    destruct (pull_sound _ _ _ W Ep) as (hd & -> & Hne & HE).
    assert (W0 : wf_bytes r0) by (eapply wf_suffix; eauto).
    destruct h as [n|n|b|n|n| |[n|]|[n|]|[n|]|[n|]].
    + inversion H; subst. inversion HE; subst. exists hd. split; auto. constructor; auto.
    + inversion H; subst. inversion HE; subst. exists hd. split; auto. constructor; auto.
    + inversion H; subst. exists hd. split; auto. inversion HE; subst; constructor; auto.
    + inversion H; subst. exists hd. split; auto. inversion HE; subst; constructor; auto.
    + destruct (dec_item f r0) as [[i0 t]|e1] eqn:Ed; [|discriminate]. inversion H; subst.
      apply IHi in Ed as (e & -> & HEnc); auto. inversion HE; subst.
      exists (hd ++ e). split; [rewrite app_assoc; reflexivity|]. constructor; auto.
    + discriminate.
    + destruct (takeN n r0) as [[p t]|] eqn:Et; [|discriminate]. inversion H; subst.
      apply takeN_spec in Et as [-> Hn]. inversion HE; subst.
      exists (hd ++ p). split; [rewrite app_assoc; reflexivity|]. constructor; auto.
    + destruct (chunks false f r0) as [[p t]|e1] eqn:Ec; [|discriminate]. inversion H; subst.
      apply chunks_sound in Ec as (e & -> & HC); auto. inversion HE; subst.
      exists (95 :: e ++ [255]). split; [cbn; rewrite <- app_assoc; reflexivity|]. constructor; exact HC.
    + destruct (takeN n r0) as [[p t]|] eqn:Et; [|discriminate].
      destruct (utf8_valid p) eqn:Eu; [|discriminate]. inversion H; subst.
      apply takeN_spec in Et as [-> Hn]. inversion HE; subst.
      exists (hd ++ p). split; [rewrite app_assoc; reflexivity|]. constructor; auto.
    + destruct (chunks true f r0) as [[p t]|e1] eqn:Ec; [|discriminate]. inversion H; subst.
      apply chunks_sound in Ec as (e & -> & HC); auto. inversion HE; subst.
      exists (127 :: e ++ [255]). split; [cbn; rewrite <- app_assoc; reflexivity|]. constructor; exact HC.
    + destruct (dec_items f n r0) as [[l t]|e1] eqn:Ed; [|discriminate]. inversion H; subst.
      apply IHn in Ed as (e & -> & HL & Hlen); auto. inversion HE; subst.
      exists (hd ++ e). split; [rewrite app_assoc; reflexivity|]. constructor; auto.
    + destruct (dec_indef f r0) as [[l t]|e1] eqn:Ed; [|discriminate]. inversion H; subst.
      apply IHd in Ed as (e & -> & HL); auto. inversion HE; subst.
      exists (159 :: e ++ [255]). split; [cbn; rewrite <- app_assoc; reflexivity|]. constructor; auto.
    + destruct (dec_items f (2 * n) r0) as [[l t]|e1] eqn:Ed; [|discriminate].
      destruct (pair_up l) as [q|] eqn:Eq; [|discriminate]. inversion H; subst.
      apply IHn in Ed as (e & -> & HL & Hlen); auto. inversion HE; subst.
      apply pair_up_flat in Eq; subst l. rewrite lenN_flat in Hlen.
      exists (hd ++ e). split; [rewrite app_assoc; reflexivity|]. constructor; auto.
      replace (lenN q) with n by lia. auto.
    + destruct (dec_indef f r0) as [[l t]|e1] eqn:Ed; [|discriminate].
      destruct (pair_up l) as [q|] eqn:Eq; [|discriminate]. inversion H; subst.
      apply IHd in Ed as (e & -> & HL); auto. inversion HE; subst.
      apply pair_up_flat in Eq; subst l.
      exists (191 :: e ++ [255]). split; [cbn; rewrite <- app_assoc; reflexivity|]. constructor; auto.
  - intros n bs l r W H. cbn [dec_items] in H.
    destruct (n =? 0) eqn:En.
    + inversion H; subst. exists []. repeat split; [constructor|]. unfold lenN; cbn; lia.
    + destruct (dec_item f bs) as [[i r1]|e1] eqn:Ed; [|discriminate].
      destruct (dec_items f (N.pred n) r1) as [[l' t]|e2] eqn:Ed2; [|discriminate]. inversion H; subst.
      apply IHi in Ed as (e1 & -> & HE1); auto.
      apply IHn in Ed2 as (e2 & -> & HL & Hlen); [|eapply wf_suffix; eauto].
      exists (e1 ++ e2). repeat split; [rewrite app_assoc; reflexivity|constructor; auto|].
      rewrite lenN_cons. lia.
  - intros bs l r W H. cbn [dec_indef] in H.
    destruct (pull bs) as [[h r0]|e0] eqn:Ep; [|discriminate].
    assert (Hb : h = HBreak -> exists e, bs = e ++ 255 :: r /\ EncL l e).
    { intros ->. inversion H; subst. destruct (pull_sound _ _ _ W Ep) as (hd & -> & Hne & HE).
      inversion HE; subst. exists []. split; [reflexivity|constructor]. }
    assert (H' : h <> HBreak -> match dec_item f bs with
                 | Ok (i, r1) => match dec_indef f r1 with Ok (l0, t) => Ok (i :: l0, t) | Err e => Err e end
                 | Err e => Err e end = Ok (l, r)) by (destruct h; auto; congruence).
    destruct h; auto; specialize (H' ltac:(discriminate)); clear H Hb;
      (destruct (dec_item f bs) as [[i r1]|e1] eqn:Ed; [|discriminate];
       destruct (dec_indef f r1) as [[l' t]|e2] eqn:Ed2; [|discriminate]; inversion H'; subst;
       apply IHi in Ed as (e1 & -> & HE1); auto;
       apply IHd in Ed2 as (e2 & -> & HL); [|eapply wf_suffix; eauto];
       exists (e1 ++ e2); split; [rewrite app_assoc; reflexivity|constructor; auto]).
Qed.

(* ---------- completeness: every encoding is decoded to its item, with explicit fuel ---------- *)
Lemma Head_len m n h : Head m n h -> (1 <= length h)%nat.
Proof. destruct 1; cbn; lia. Qed.

Ltac lens := cbn [length] in *; rewrite ?app_length in *; cbn [length] in *; lia.

Lemma chunks_complete txt p e :
  Chunks (major_of txt) (chunk_ok txt) p e ->
  forall r f, (2 * length e + 1 <= f)%nat -> chunks txt f (e ++ 255 :: r) = Ok (p, r).
Proof.
  induction 1 as [|p h q e Hh Hok HC IH]; intros r [|f] Hf; try (exfalso; lens).
  - cbn [chunks app].
    change (255 :: r) with ([255] ++ r). rewrite (pull_complete HBreak [255]); [reflexivity|constructor].
  - cbn [chunks]. pose proof (Head_len _ _ _ Hh).
    rewrite <- !app_assoc.
    destruct txt; cbn [major_of] in Hh.
    + rewrite (pull_complete (HText (Some (lenN p))) h); [|constructor; auto].
      cbn [chunk_len]. rewrite takeN_app. rewrite Hok. rewrite IH by lens. reflexivity.
    + rewrite (pull_complete (HBytes (Some (lenN p))) h); [|constructor; auto].
      cbn [chunk_len]. rewrite takeN_app. rewrite Hok. rewrite IH by lens. reflexivity.
Qed.

Lemma Enc_pull i e : Enc i e -> forall r, exists h r', pull (e ++ r) = Ok (h, r') /\ h <> HBreak.
Proof.
  intros H r. destruct H.
  - eexists _, _. split; [apply pull_complete; apply HEPos; eauto|discriminate].
  - eexists _, _. split; [apply pull_complete; apply HENeg; eauto|discriminate].
  - rewrite <- app_assoc. eexists _, _. split; [apply pull_complete; apply HEBytes; eauto|discriminate].
  - change (95 :: e ++ [255]) with ([95] ++ e ++ [255]). rewrite <- app_assoc.
    eexists _, _. split; [apply pull_complete; apply HEBytesI|discriminate].
  - rewrite <- app_assoc. eexists _, _. split; [apply pull_complete; apply HEText; eauto|discriminate].
  - change (127 :: e ++ [255]) with ([127] ++ e ++ [255]). rewrite <- app_assoc.
    eexists _, _. split; [apply pull_complete; apply HETextI|discriminate].
  - rewrite <- app_assoc. eexists _, _. split; [apply pull_complete; apply HEArr; eauto|discriminate].
  - change (159 :: e ++ [255]) with ([159] ++ e ++ [255]). rewrite <- app_assoc.
    eexists _, _. split; [apply pull_complete; apply HEArrI|discriminate].
  - rewrite <- app_assoc. eexists _, _. split; [apply pull_complete; apply HEMap; eauto|discriminate].
  - change (191 :: e ++ [255]) with ([191] ++ e ++ [255]). rewrite <- app_assoc.
    eexists _, _. split; [apply pull_complete; apply HEMapI|discriminate].
  - rewrite <- app_assoc. eexists _, _. split; [apply pull_complete; apply HETag; eauto|discriminate].
  - eexists _, _. split; [apply pull_complete; apply HESimple1; auto|discriminate].
  - eexists _, _. split; [apply pull_complete; apply HESimple2; auto|discriminate].
  - eexists _, _. split; [apply pull_complete; apply HEF16; auto|discriminate].
  - eexists _, _. split; [apply pull_complete; apply HEF32; auto|discriminate].
  - eexists _, _. split; [apply pull_complete; apply HEF64; auto|discriminate].
Qed.

Lemma Enc_len i e : Enc i e -> (1 <= length e)%nat.
Proof.
  intros H. destruct (Enc_pull i e H []) as (h & r' & Hp & _). rewrite app_nil_r in Hp.
  destruct e; [discriminate|cbn; lia].
Qed.

Lemma dec_complete :
  (forall i e, Enc i e -> forall r f, (2 * length e <= f)%nat -> dec_item f (e ++ r) = Ok (i, r)) /\
  (forall l e, EncL l e -> forall r f, (2 * length e + 1 <= f)%nat ->
      dec_items f (lenN l) (e ++ r) = Ok (l, r) /\ dec_indef f (e ++ 255 :: r) = Ok (l, r)).
Proof.
  apply Enc_EncL_ind.
  - intros n h Hh r [|f] Hf; [pose proof (Head_len _ _ _ Hh); lia|]. cbn [dec_item].
    rewrite (pull_complete (HPos n) h); [reflexivity|constructor; auto].
  - intros n h Hh r [|f] Hf; [pose proof (Head_len _ _ _ Hh); lia|]. cbn [dec_item].
    rewrite (pull_complete (HNeg n) h); [reflexivity|constructor; auto].
  - intros p h Hh r [|f] Hf; [pose proof (Head_len _ _ _ Hh); lens|]. cbn [dec_item]. rewrite <- app_assoc.
    rewrite (pull_complete (HBytes (Some (lenN p))) h); [|constructor; auto]. rewrite takeN_app. reflexivity.
  - intros p e HC r [|f] Hf; [lens|]. cbn [dec_item].
    change ((95 :: e ++ [255]) ++ r) with ([95] ++ (e ++ [255]) ++ r). rewrite <- app_assoc.
    rewrite (pull_complete (HBytes None) [95]); [|constructor]. cbn [app].
    rewrite (chunks_complete false p e HC r) by lens. reflexivity.
  - intros p h Hh Hu r [|f] Hf; [pose proof (Head_len _ _ _ Hh); lens|]. cbn [dec_item]. rewrite <- app_assoc.
    rewrite (pull_complete (HText (Some (lenN p))) h); [|constructor; auto]. rewrite takeN_app, Hu. reflexivity.
  - intros p e HC r [|f] Hf; [lens|]. cbn [dec_item].
    change ((127 :: e ++ [255]) ++ r) with ([127] ++ (e ++ [255]) ++ r). rewrite <- app_assoc.
    rewrite (pull_complete (HText None) [127]); [|constructor]. cbn [app].
    rewrite (chunks_complete true p e HC r) by lens. reflexivity.
  - intros l h e Hh HL IH r [|f] Hf; [pose proof (Head_len _ _ _ Hh); lens|]. cbn [dec_item]. rewrite <- app_assoc.
    pose proof (Head_len _ _ _ Hh).
    rewrite (pull_complete (HArr (Some (lenN l))) h); [|constructor; auto].
    destruct (IH r f ltac:(lens)) as [-> _]. reflexivity.
  - intros l e HL IH r [|f] Hf; [lens|]. cbn [dec_item].
    change ((159 :: e ++ [255]) ++ r) with ([159] ++ (e ++ [255]) ++ r). rewrite <- app_assoc.
    rewrite (pull_complete (HArr None) [159]); [|constructor]. cbn [app].
    destruct (IH r f ltac:(lens)) as [_ ->]. reflexivity.
  - intros l h e Hh HL IH r [|f] Hf; [pose proof (Head_len _ _ _ Hh); lens|]. cbn [dec_item]. rewrite <- app_assoc.
    pose proof (Head_len _ _ _ Hh).
    rewrite (pull_complete (HMap (Some (lenN l))) h); [|constructor; auto].
    rewrite <- lenN_flat. destruct (IH r f ltac:(lens)) as [-> _]. rewrite pair_up_of_flat. reflexivity.
  - intros l e HL IH r [|f] Hf; [lens|]. cbn [dec_item].
    change ((191 :: e ++ [255]) ++ r) with ([191] ++ (e ++ [255]) ++ r). rewrite <- app_assoc.
    rewrite (pull_complete (HMap None) [191]); [|constructor]. cbn [app].
    destruct (IH r f ltac:(lens)) as [_ ->]. rewrite pair_up_of_flat. reflexivity.
  - intros n i h e Hh HE IH r [|f] Hf; [pose proof (Head_len _ _ _ Hh); lens|]. cbn [dec_item]. rewrite <- app_assoc.
    pose proof (Head_len _ _ _ Hh).
    rewrite (pull_complete (HTag n) h); [|constructor; auto]. rewrite IH by lens. reflexivity.
  - intros n Hn r [|f] Hf; [lens|]. cbn [dec_item].
    rewrite (pull_complete (HSimple n) [224 + n]); [reflexivity|constructor; auto].
  - intros n Hn1 Hn2 r [|f] Hf; [lens|]. cbn [dec_item].
    rewrite (pull_complete (HSimple n) [248; n]); [reflexivity|constructor; auto].
  - intros b Hb r [|f] Hf; [lens|]. cbn [dec_item].
    rewrite (pull_complete (HFloat (widen16 (be b))) (249 :: b)); [reflexivity|constructor; auto].
  - intros b Hb r [|f] Hf; [lens|]. cbn [dec_item].
    rewrite (pull_complete (HFloat (widen32 (be b))) (250 :: b)); [reflexivity|constructor; auto].
  - intros b Hb r [|f] Hf; [lens|]. cbn [dec_item].
    rewrite (pull_complete (HFloat (be b)) (251 :: b)); [reflexivity|constructor; auto].
  - intros r [|f] Hf; [lens|]. split.
    + reflexivity.
    + cbn [dec_indef app]. change (255 :: r) with ([255] ++ r).
      rewrite (pull_complete HBreak [255]); [reflexivity|constructor].
  - intros i l e1 e2 HE IHi HL IHl r [|f] Hf; [lens|].
    pose proof (Enc_len _ _ HE). split.
    + cbn [dec_items]. rewrite lenN_cons.
      destruct (N.succ (lenN l) =? 0) eqn:E; [lia|]. rewrite <- app_assoc.
      rewrite IHi by lens. rewrite N.pred_succ. destruct (IHl r f ltac:(lens)) as [-> _]. reflexivity.
    + cbn [dec_indef]. rewrite <- app_assoc.
      destruct (Enc_pull i e1 HE (e2 ++ 255 :: r)) as (h & r' & -> & Hnb).
      rewrite IHi by lens. destruct (IHl r f ltac:(lens)) as [_ ->].
      destruct h; try reflexivity. congruence.
Qed.

(* ---------- the main statements ---------- *)
Theorem decode_item_spec bs i r :
  wf_bytes bs -> (decode_item bs = Ok (i, r) <-> exists e, bs = e ++ r /\ Enc i e).
Proof.
  intros W. split.
  - intros H. apply (proj1 (dec_sound _)) in H; auto.
  - intros (e & -> & HE). apply (proj1 dec_complete); auto. unfold fuel_for. lens.
Qed.

Theorem decode_spec bs v :
  wf_bytes bs -> (decode_cbor bs = Ok v <-> exists x e r, bs = e ++ r /\ Enc x e /\ v = to_value x).
Proof.
  intros W. unfold decode_cbor. split.
  - destruct (decode_item bs) as [[i r]|e0] eqn:E; [|discriminate]. intros H; inversion H; subst.
    apply decode_item_spec in E as (e & -> & HE); auto. eauto 6.
  - intros (x & e & r & -> & HE & ->).
    assert (decode_item (e ++ r) = Ok (x, r)) as -> by (apply decode_item_spec; eauto). reflexivity.
Qed.

(* unique parse: no byte string begins with two different encoded items *)
Theorem Enc_prefix_free x e r x' e' r' :
  wf_bytes (e ++ r) -> Enc x e -> Enc x' e' -> e ++ r = e' ++ r' -> x = x' /\ e = e'.
Proof.
  intros W H H' Heq.
  assert (E1 : decode_item (e ++ r) = Ok (x, r)) by (apply decode_item_spec; eauto).
  assert (E2 : decode_item (e ++ r) = Ok (x', r')) by (apply decode_item_spec; auto; rewrite Heq; eauto).
  rewrite E1 in E2. inversion E2; subst. split; auto. eapply app_inv_tail; eauto.
Qed.

(* the verdict and the value do not depend on which encoding of an item was supplied *)
Corollary encoding_independent x e1 e2 :
  wf_bytes e1 -> wf_bytes e2 -> Enc x e1 -> Enc x e2 -> decode_cbor e1 = Ok (to_value x) /\ decode_cbor e2 = Ok (to_value x).
Proof.
  intros W1 W2 H1 H2. split; apply decode_spec; auto; exists x; eexists; exists []; rewrite app_nil_r; auto.
Qed.

(* ---------- totality: the fuel of decode_item is never exhausted ---------- *)
Lemma pull_len bs h r : wf_bytes bs -> pull bs = Ok (h, r) -> (length r < length bs)%nat.
Proof.
  intros W H. destruct (pull_sound _ _ _ W H) as (hd & -> & Hne & _).
  rewrite app_length. destruct hd; [congruence|cbn; lia].
Qed.

Lemma to_hdr_err major m e : to_hdr major m = Err e -> e = ESyntax.
Proof.
  unfold to_hdr.
  repeat match goal with |- context [if ?c then _ else _] => destruct c end;
    try (destruct (minor_arg m); intros H; inversion H; auto; fail).
  destruct m as [x|k x|]; [intros H; inversion H| |intros H; inversion H].
  destruct k as [|[|[|[|[|k]]]]]; try (intros H; inversion H; fail).
  destruct (x <? 32); intros H; inversion H; auto.
Qed.

Lemma pull_no_fuel bs : pull bs <> Err EFuel.
Proof.
  unfold pull. destruct bs as [|b bs]; [discriminate|]. cbn [pull_title].
  assert (T : forall mj m, match to_hdr mj m with Ok h => Ok (h, bs) | Err e => @Err (hdr * list N) e end <> Err EFuel).
  { intros mj m. destruct (to_hdr mj m) eqn:E; [discriminate|]. apply to_hdr_err in E. subst. discriminate. }
  destruct (b mod 32 <? 24).
  - destruct (to_hdr (b / 32) (MThis (b mod 32))) eqn:E; [discriminate|]. apply to_hdr_err in E; subst; discriminate.
  - destruct (next_width (b mod 32)).
    + destruct (take_k n bs) as [[hh tt]|]; [|discriminate].
      destruct (to_hdr (b / 32) (MNext n (be hh))) eqn:E; [discriminate|]. apply to_hdr_err in E; subst; discriminate.
    + destruct (b mod 32 =? 31); [|discriminate].
      destruct (to_hdr (b / 32) MMore) eqn:E; [discriminate|]. apply to_hdr_err in E; subst; discriminate.
Qed.

Lemma chunks_fuel txt : forall f bs, wf_bytes bs -> (2 * length bs + 1 <= f)%nat -> chunks txt f bs <> Err EFuel.
Proof.
  induction f as [|f IH]; intros bs W Hf; [lia|]. cbn [chunks].
  pose proof (pull_no_fuel bs) as Hnf.
  destruct (pull bs) as [[h r0]|e0] eqn:Ep; [|congruence].
  pose proof (pull_len _ _ _ W Ep) as Hl.
  assert (W0 : wf_bytes r0) by (destruct (pull_sound _ _ _ W Ep) as (hd & -> & _); eapply wf_suffix; eauto).
  assert (G : match chunk_len txt h with
              | Some n => match takeN n r0 with
                          | Some (p, t) => if chunk_ok txt p then match chunks txt f t with Ok (q, u) => Ok (p ++ q, u) | Err e => Err e end else Err ESyntax
                          | None => Err EEof end
              | None => Err ESyntax end <> Err EFuel).
  { destruct (chunk_len txt h); [|discriminate].
    destruct (takeN n r0) as [[p t]|] eqn:Et; [|discriminate].
    destruct (chunk_ok txt p); [|discriminate].
    pose proof (takeN_len _ _ _ _ Et).
    assert (Wt : wf_bytes t) by (apply takeN_spec in Et as [-> _]; eapply wf_suffix; eauto).
    specialize (IH t Wt ltac:(lia)). destruct (chunks txt f t) as [[q u]|e]; [discriminate|congruence]. }
  destruct h; auto; discriminate.
Qed.

Lemma dec_item_len f bs i r : wf_bytes bs -> dec_item f bs = Ok (i, r) -> (length r < length bs)%nat /\ wf_bytes r.
Proof.
  intros W H. apply (proj1 (dec_sound f)) in H as (e & -> & HE); auto.
  pose proof (Enc_len _ _ HE). rewrite app_length. split; [lia|eapply wf_suffix; eauto].
Qed.

Ltac nofuel X := let E := fresh "E" in destruct X as [[? ?]|[]] eqn:E; try discriminate; try congruence.

Lemma dec_fuel : forall f,
  (forall bs, wf_bytes bs -> (2 * length bs + 1 <= f)%nat -> dec_item f bs <> Err EFuel) /\
  (forall n bs, wf_bytes bs -> (2 * length bs + 2 <= f)%nat -> dec_items f n bs <> Err EFuel) /\
  (forall bs, wf_bytes bs -> (2 * length bs + 2 <= f)%nat -> dec_indef f bs <> Err EFuel).
Proof.
  induction f as [|f (IHi & IHn & IHd)].
  { repeat split; intros; lia. }
  repeat split.
  - intros bs W Hf. cbn [dec_item].
    pose proof (pull_no_fuel bs) as Hnf.
    destruct (pull bs) as [[h r0]|e0] eqn:Ep; [|congruence].
    pose proof (pull_len _ _ _ W Ep) as Hl.
    assert (W0 : wf_bytes r0) by (destruct (pull_sound _ _ _ W Ep) as (hd & -> & _); eapply wf_suffix; eauto).
    destruct h as [n|n|b|n|n| |[n|]|[n|]|[n|]|[n|]]; try discriminate.
    + specialize (IHi r0 W0 ltac:(lia)). nofuel (dec_item f r0).
    + destruct (takeN n r0) as [[? ?]|]; discriminate.
    + pose proof (chunks_fuel false f r0 W0 ltac:(lia)). nofuel (chunks false f r0).
    + destruct (takeN n r0) as [[? ?]|]; [destruct (utf8_valid _)|]; discriminate.
    + pose proof (chunks_fuel true f r0 W0 ltac:(lia)). nofuel (chunks true f r0).
    + specialize (IHn n r0 W0 ltac:(lia)). nofuel (dec_items f n r0).
    + specialize (IHd r0 W0 ltac:(lia)). nofuel (dec_indef f r0).
    + specialize (IHn (2 * n) r0 W0 ltac:(lia)). nofuel (dec_items f (2 * n) r0). destruct (pair_up _); discriminate.
    + specialize (IHd r0 W0 ltac:(lia)). nofuel (dec_indef f r0). destruct (pair_up _); discriminate.
  - intros n bs W Hf. cbn [dec_items]. destruct (n =? 0); [discriminate|].
    specialize (IHi bs W ltac:(lia)).
    destruct (dec_item f bs) as [[i r]|[]] eqn:E; try discriminate; try congruence.
    destruct (dec_item_len _ _ _ _ W E) as [Hl Wr].
    specialize (IHn (N.pred n) r Wr ltac:(lia)). nofuel (dec_items f (N.pred n) r).
  - intros bs W Hf. cbn [dec_indef].
    pose proof (pull_no_fuel bs) as Hnf.
    destruct (pull bs) as [[h r0]|e0] eqn:Ep; [|congruence].
    assert (G : match dec_item f bs with
                | Ok (i, r) => match dec_indef f r with Ok (l, t) => Ok (i :: l, t) | Err e => Err e end
                | Err e => Err e end <> Err EFuel).
    { specialize (IHi bs W ltac:(lia)).
      destruct (dec_item f bs) as [[i r]|[]] eqn:E; try discriminate; try congruence.
      destruct (dec_item_len _ _ _ _ W E) as [Hl Wr].
      specialize (IHd r Wr ltac:(lia)). nofuel (dec_indef f r). }
    destruct h; auto; discriminate.
Qed.

Theorem decode_total bs :
  wf_bytes bs -> (exists v, decode_cbor bs = Ok v) \/ (exists k, decode_cbor bs = Err k /\ k <> EFuel).
Proof.
  intros W. unfold decode_cbor, decode_item.
  pose proof (proj1 (dec_fuel (fuel_for bs)) bs W ltac:(unfold fuel_for; lia)) as H.
  destruct (dec_item (fuel_for bs) bs) as [[i r]|k]; [left; eauto|right]. exists k. split; congruence.
Qed.

(* ---------- the crate's Value: which items it can still tell apart ---------- *)
Theorem to_value_injective_refuted : exists x x', x <> x' /\ to_value x = to_value x'.
Proof. exists (ISimple 22), (ISimple 23). split; [discriminate|reflexivity]. Qed.

Fixpoint no_undefined (i : item) : bool :=
  match i with
  | ISimple n => negb (n =? 23)
  | IArr l => forallb no_undefined l
  | IMap l => forallb (fun kv => no_undefined (fst kv) && no_undefined (snd kv)) l
  | ITag _ i => no_undefined i
  | _ => true
  end.
