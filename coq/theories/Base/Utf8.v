(* RFC 3629 validity of a byte sequence: the executable predicate that stands
   for Rust's String::from_utf8 (checked differentially, see DESIGN.md 4). *)
From Cddl Require Import Base.Bytes.
Open Scope N_scope.

Definition cont (b : N) : bool := (128 <=? b) && (b <=? 191).

Fixpoint utf8_valid_fuel (fuel : nat) (bs : list N) : bool :=
  match fuel with
  | O => false
  | S f =>
    match bs with
    | [] => true
    | b0 :: r =>
      if b0 <? 128 then utf8_valid_fuel f r
      else if (194 <=? b0) && (b0 <=? 223) then
        match r with
        | b1 :: r' => cont b1 && utf8_valid_fuel f r'
        | _ => false
        end
      else if (224 <=? b0) && (b0 <=? 239) then
        match r with
        | b1 :: b2 :: r' =>
          (if b0 =? 224 then (160 <=? b1) && (b1 <=? 191)
           else if b0 =? 237 then (128 <=? b1) && (b1 <=? 159)
           else cont b1) && cont b2 && utf8_valid_fuel f r'
        | _ => false
        end
      else if (240 <=? b0) && (b0 <=? 244) then
        match r with
        | b1 :: b2 :: b3 :: r' =>
          (if b0 =? 240 then (144 <=? b1) && (b1 <=? 191)
           else if b0 =? 244 then (128 <=? b1) && (b1 <=? 143)
           else cont b1) && cont b2 && cont b3 && utf8_valid_fuel f r'
        | _ => false
        end
      else false
    end
  end.
Definition utf8_valid (bs : list N) : bool := utf8_valid_fuel (S (length bs)) bs.
