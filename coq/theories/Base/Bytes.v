(* Bytes are N below 256; numbers from the wire are N and are never turned into nat. *)
From Coq Require Export List NArith ZArith Lia Bool.
Export ListNotations.
Open Scope N_scope.

Definition byte_ok (b : N) : bool := b <? 256.
Definition wf_bytes (bs : list N) : Prop := Forall (fun b => b < 256) bs.
Definition wf_bytesb (bs : list N) : bool := forallb byte_ok bs.

(* big-endian value of a byte list *)
Fixpoint be_acc (acc : N) (bs : list N) : N :=
  match bs with
  | [] => acc
  | b :: r => be_acc (acc * 256 + b) r
  end.
Definition be (bs : list N) : N := be_acc 0 bs.

(* split off exactly k bytes (k a small nat: 1,2,4,8) *)
Fixpoint take_k (k : nat) (bs : list N) : option (list N * list N) :=
  match k with
  | O => Some ([], bs)
  | S k' => match bs with
            | [] => None
            | b :: r => match take_k k' r with
                        | Some (h, t) => Some (b :: h, t)
                        | None => None
                        end
            end
  end.

(* split off n bytes where n comes from the wire: compare with what remains
   BEFORE using it; recursion is on the list in hand, never on n. *)
Fixpoint takeN (n : N) (bs : list N) : option (list N * list N) :=
  if n =? 0 then Some ([], bs) else
  match bs with
  | [] => None
  | b :: r => match takeN (N.pred n) r with
              | Some (h, t) => Some (b :: h, t)
              | None => None
              end
  end.

Definition lenN {A} (l : list A) : N := N.of_nat (length l).

(* hex rendering of numbers and bytes as lists of character codes *)
Definition hexdigit (d : N) : N := if d <? 10 then 48 + d else 87 + d.
Fixpoint hex_pos_acc (fuel : nat) (n : N) (acc : list N) : list N :=
  match fuel with
  | O => acc
  | S f => if n =? 0 then acc else hex_pos_acc f (n / 16) (hexdigit (n mod 16) :: acc)
  end.
Definition hexN (n : N) : list N :=
  if n =? 0 then [48] else hex_pos_acc (S (N.to_nat (N.log2 n))) n [].
Definition hexbyte (b : N) : list N := [hexdigit (b / 16); hexdigit (b mod 16)].
Definition hexbytes (bs : list N) : list N := flat_map hexbyte bs.
Fixpoint hex_fixed (digits : nat) (n : N) (acc : list N) : list N :=
  match digits with
  | O => acc
  | S d => hex_fixed d (n / 16) (hexdigit (n mod 16) :: acc)
  end.
