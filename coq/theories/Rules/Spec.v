(* C12 - the specification, stated without reference to the models (Dup.v, RefCheck.v).
   Auditable part: this file and Doc.v. *)
From Coq Require Import String Ascii.
From Cddl Require Import Rules.Doc.

(* ------------------------------------------------------------------------- *)
(* Duplicate definitions.  A document (as a list of (printed name, plain?)) is
   rejected at position i when rule i is a plain "=" definition and some earlier
   rule - of any operator - has the same printed name.  The error is raised at
   the FIRST such i. *)

Definition plain_at (rs : list rule_view) (i : nat) : Prop :=
  exists n, nth_error rs i = Some (n, true).

Definition same_name (rs : list rule_view) (j i : nat) : Prop :=
  exists n p q, nth_error rs j = Some (n, p) /\ nth_error rs i = Some (n, q).

Definition dup_at (rs : list rule_view) (i : nat) : Prop :=
  plain_at rs i /\ exists j, j < i /\ same_name rs j i.

Definition first_dup_at (rs : list rule_view) (i : nat) : Prop :=
  dup_at rs i /\ forall k, k < i -> ~ dup_at rs k.

(* ------------------------------------------------------------------------- *)
(* RFC 8610 Appendix D: the names of the standard prelude, transcribed by hand
   in the order of the appendix. *)

Open Scope string_scope.
Definition rfc8610_appendixD : list string := [
  "any"; "uint"; "nint"; "int"; "bstr"; "bytes"; "tstr"; "text";
  "tdate"; "time"; "number"; "biguint"; "bignint"; "bigint"; "integer"; "unsigned";
  "decfrac"; "bigfloat"; "eb64url"; "eb64legacy"; "eb16"; "encoded-cbor";
  "uri"; "b64url"; "b64legacy"; "regexp"; "mime-message"; "cbor-any";
  "float16"; "float32"; "float64"; "float16-32"; "float32-64"; "float";
  "false"; "true"; "bool"; "nil"; "null"; "undefined" ].
Close Scope string_scope.

Definition name_of_string (s : string) : name := map N_of_ascii (list_ascii_of_string s).

Definition rfc_prelude : list name := Eval vm_compute in map name_of_string rfc8610_appendixD.

(* ------------------------------------------------------------------------- *)
(* Undefined references.  A reference x inside rule r of document d is
   unresolved when it is not a $socket, no rule of d is named x (a rule named
   "$x" or "$$x" is a different name), x is not a standard-prelude name, and x
   is not a generic parameter of r. *)

Definition IsSocketRef (x : ref) : Prop := xsock x = true \/ exists t, xid x = 36%N :: t.

Definition DefinedByRule (d : doc) (n : name) : Prop :=
  exists r, In r d /\ rsock r = 0%N /\ rid r = n.

Definition Unresolved (d : doc) (r : rule) (x : ref) : Prop :=
  ~ IsSocketRef x /\ ~ DefinedByRule d (xid x) /\ ~ In (xid x) rfc_prelude /\ ~ In (xid x) (rparams r).

(* reference j of rule i *)
Definition ref_at (d : doc) (i j : nat) (r : rule) (x : ref) : Prop :=
  nth_error d i = Some r /\ nth_error (rrefs r) j = Some x.

Definition UnresolvedAt (d : doc) (i j : nat) : Prop :=
  exists r x, ref_at d i j r x /\ Unresolved d r x.

(* source order on (rule index, reference index) *)
Definition before (i' j' i j : nat) : Prop := i' < i \/ (i' = i /\ j' < j).

Definition FirstUnresolved (d : doc) (i j : nat) (n : name) : Prop :=
  (exists r x, ref_at d i j r x /\ Unresolved d r x /\ n = xid x) /\
  forall i' j', before i' j' i j -> ~ UnresolvedAt d i' j'.

(* ------------------------------------------------------------------------- *)
(* A class marker used only for the generator statistics of the correspondence run (it was
   the classifier of finding kf-c12-socket-rule-defines-base-name, repaired in /repo commit
   a8c9ab3): some non-socket reference is unresolved although its identifier is the
   identifier of a socket-prefixed rule head ("$x = .." makes x look defined to a walker
   that drops the prefix).  No theorem depends on it. *)
Definition socket_only (d : doc) (n : name) : bool :=
  existsb (fun r => negb (N.eqb (rsock r) 0) && name_eqb (rid r) n) d &&
  negb (existsb (fun r => N.eqb (rsock r) 0 && name_eqb (rid r) n) d).

Definition kf_socket_shadow_ref (d : doc) (r : rule) (x : ref) : bool :=
  negb (xsock x) && negb (starts_dollar (xid x)) && socket_only d (xid x) &&
  negb (mem (xid x) rfc_prelude) && negb (mem (xid x) (rparams r)).

Definition kf_socket_shadow (d : doc) : bool :=
  existsb (fun r => existsb (kf_socket_shadow_ref d r) (rrefs r)) d.
