(* C12 - proofs about the undefined-reference check (model: RefCheck.v, specification: Spec.v)
   and about the two entry points. *)
From Coq Require Import Lia.
From Cddl Require Import Rules.Doc Rules.Dup Rules.Spec Rules.RefCheck Rules.DupProofs Generated.PreludeNames.

(* ------------------------------------------------------------------------- *)
(* the prelude table of the code (generated) is the RFC 8610 Appendix D list, as a set *)

Definition incl_b (a b : list name) : bool := forallb (fun n => mem n b) a.

Lemma incl_b_In : forall a b, incl_b a b = true -> forall n, In n a -> In n b.
Proof.
  intros a b H n Hn. unfold incl_b in H. rewrite forallb_forall in H.
  apply mem_In. apply H. exact Hn.
Qed.

Theorem prelude_table_ok : forall n, In n gen_prelude <-> In n rfc_prelude.
Proof.
  assert (H1 : incl_b gen_prelude rfc_prelude = true) by (vm_compute; reflexivity).
  assert (H2 : incl_b rfc_prelude gen_prelude = true) by (vm_compute; reflexivity).
  intros n. split; [apply (incl_b_In _ _ H1) | apply (incl_b_In _ _ H2)].
Qed.

(* no name is listed twice, and there are forty of them *)
Fixpoint nodup_b (l : list name) : bool :=
  match l with
  | [] => true
  | x :: t => negb (mem x t) && nodup_b t
  end.

Theorem prelude_table_count : nodup_b gen_prelude = true /\ length gen_prelude = 40 /\ length rfc_prelude = 40.
Proof. vm_compute. repeat split. Qed.

Lemma mem_prelude : forall n, mem n gen_prelude = mem n rfc_prelude.
Proof.
  intros n. destruct (mem n rfc_prelude) eqn:E.
  - apply mem_In. apply prelude_table_ok. apply mem_In. exact E.
  - apply mem_false. intros H. apply prelude_table_ok in H. apply (proj2 (mem_In n rfc_prelude)) in H. rewrite H in E. discriminate.
Qed.

(* ------------------------------------------------------------------------- *)
(* first hit in source order, generically *)

Definition GenAt (Bad : rule -> ref -> Prop) (d : doc) (i j : nat) : Prop :=
  exists r x, ref_at d i j r x /\ Bad r x.

Definition GenFirst (Bad : rule -> ref -> Prop) (d : doc) (i j : nat) (n : name) : Prop :=
  (exists r x, ref_at d i j r x /\ Bad r x /\ n = xid x) /\
  forall i' j', before i' j' i j -> ~ GenAt Bad d i' j'.

Lemma walk_refs_post : forall chk xs j0,
  match walk_refs chk xs j0 with
  | Some (j, n) => j0 <= j /\ exists x, nth_error xs (j - j0) = Some x /\ chk x = true /\ n = xid x /\
                   forall k y, k < j - j0 -> nth_error xs k = Some y -> chk y = false
  | None => forall k y, nth_error xs k = Some y -> chk y = false
  end.
Proof.
  intros chk xs. induction xs as [|x rest IH]; intros j0; simpl.
  - intros k y H. destruct k; discriminate.
  - destruct (chk x) eqn:C.
    + split; [lia |]. exists x. rewrite Nat.sub_diag. simpl.
      split; [reflexivity |]. split; [exact C |]. split; [reflexivity |]. intros k y Hk. lia.
    + specialize (IH (S j0)). destruct (walk_refs chk rest (S j0)) as [[j n]|].
      * destruct IH as [Hle [x' [Hn [Hc [En Hmin]]]]]. split; [lia |]. exists x'.
        replace (j - j0) with (S (j - S j0)) by lia. simpl.
        split; [exact Hn |]. split; [exact Hc |]. split; [exact En |].
        intros k y Hk Hy. destruct k as [|k]; simpl in Hy.
        { inversion Hy; subst. exact C. }
        apply (Hmin k y); [lia | exact Hy].
      * intros k y Hy. destruct k as [|k]; simpl in Hy.
        { inversion Hy; subst. exact C. }
        exact (IH k y Hy).
Qed.

Lemma walk_refs_ext : forall chk1 chk2 xs j0,
  (forall x, In x xs -> chk1 x = chk2 x) -> walk_refs chk1 xs j0 = walk_refs chk2 xs j0.
Proof.
  intros chk1 chk2 xs. induction xs as [|x rest IH]; intros j0 H; simpl; [reflexivity |].
  rewrite (H x) by (left; reflexivity). destruct (chk2 x); [reflexivity |].
  apply IH. intros y Hy. apply H. right. exact Hy.
Qed.

Definition rules_post (bad : rule -> ref -> bool) (pre suf : doc) (res : option (nat * nat * name)) : Prop :=
  match res with
  | Some (i, j, n) =>
      length pre <= i /\
      (exists r x, ref_at (pre ++ suf) i j r x /\ bad r x = true /\ n = xid x) /\
      forall i' j' r' x', length pre <= i' -> before i' j' i j -> ref_at (pre ++ suf) i' j' r' x' -> bad r' x' = false
  | None => forall i' j' r' x', length pre <= i' -> ref_at (pre ++ suf) i' j' r' x' -> bad r' x' = false
  end.

Lemma rules_post_step : forall bad pre r rest res,
  (forall j' x', nth_error (rrefs r) j' = Some x' -> bad r x' = false) ->
  rules_post bad (pre ++ [r]) rest res -> rules_post bad pre (r :: rest) res.
Proof.
  intros bad pre r rest res W H. unfold rules_post in *.
  rewrite <- app_cons_snoc in H. rewrite app_length in H. simpl in H.
  destruct res as [[[i j] n]|].
  - destruct H as [Hle [Hex Hmin]]. split; [lia |]. split; [exact Hex |].
    intros i' j' r' x' Hi Hb Hat.
    destruct (Nat.eq_dec i' (length pre)) as [-> | Hne].
    { destruct Hat as [Hr Hx]. rewrite nth_mid in Hr. inversion Hr; subst r'. exact (W j' x' Hx). }
    apply (Hmin i' j' r' x'); [lia | exact Hb | exact Hat].
  - intros i' j' r' x' Hi Hat.
    destruct (Nat.eq_dec i' (length pre)) as [-> | Hne].
    { destruct Hat as [Hr Hx]. rewrite nth_mid in Hr. inversion Hr; subst r'. exact (W j' x' Hx). }
    apply (H i' j' r' x'); [lia | exact Hat].
Qed.

Lemma first_rules_post : forall bad suf pre, rules_post bad pre suf (first_rules bad suf (length pre)).
Proof.
  intros bad suf. induction suf as [|r rest IH]; intros pre; simpl.
  - intros i' j' r' x' Hi [Hr _]. rewrite app_nil_r in Hr.
    assert (nth_error pre i' = None) by (apply nth_error_None; lia). congruence.
  - pose proof (walk_refs_post (bad r) (rrefs r) 0) as W.
    destruct (walk_refs (bad r) (rrefs r) 0) as [[j n]|].
    + destruct W as [_ [x [Hn [Hc [En Hmin]]]]]. rewrite Nat.sub_0_r in *.
      simpl. split; [lia |]. split.
      * exists r, x. split; [split; [apply nth_mid | exact Hn] |]. auto.
      * intros i' j' r' x' Hi Hb [Hr Hx]. destruct Hb as [Hb | [Hb1 Hb2]]; [lia |]. subst i'.
        rewrite nth_mid in Hr. inversion Hr; subst r'. exact (Hmin j' x' Hb2 Hx).
    + apply rules_post_step; [exact W |].
      replace (S (length pre)) with (length (pre ++ [r])) by (rewrite app_length; simpl; lia).
      apply IH.
Qed.

Lemma ref_at_fun : forall d i j r x r' x', ref_at d i j r x -> ref_at d i j r' x' -> r = r' /\ x = x'.
Proof.
  intros d i j r x r' x' [H1 H2] [H3 H4]. rewrite H1 in H3. inversion H3; subst r'.
  rewrite H2 in H4. inversion H4. auto.
Qed.

Lemma before_trichotomy : forall i j i' j', before i j i' j' \/ (i = i' /\ j = j') \/ before i' j' i j.
Proof. intros. unfold before. lia. Qed.

Lemma first_rules_spec : forall bad (Bad : rule -> ref -> Prop) d,
  (forall r x, bad r x = true <-> Bad r x) ->
  forall i j n, first_rules bad d 0 = Some (i, j, n) <-> GenFirst Bad d i j n.
Proof.
  intros bad Bad d HB i j n. pose proof (first_rules_post bad d []) as P. simpl in P. split.
  - intros E. rewrite E in P. simpl in P. destruct P as [_ [[r [x [Hat [Hb En]]]] Hmin]]. split.
    + exists r, x. split; [exact Hat |]. split; [apply HB; exact Hb | exact En].
    + intros i' j' Hbef [r' [x' [Hat' HB']]]. apply HB in HB'.
      rewrite (Hmin i' j' r' x') in HB'; [discriminate | lia | exact Hbef | exact Hat'].
  - intros [[r [x [Hat [HBx En]]]] Hmin]. destruct (first_rules bad d 0) as [[[i' j'] n']|]; simpl in P.
    + destruct P as [_ [[r' [x' [Hat' [Hb' En']]]] Hmin']].
      destruct (before_trichotomy i j i' j') as [B | [[-> ->] | B]].
      * apply HB in HBx. rewrite (Hmin' i j r x) in HBx; [discriminate | lia | exact B | exact Hat].
      * destruct (ref_at_fun _ _ _ _ _ _ _ Hat Hat') as [-> ->]. subst. reflexivity.
      * exfalso. apply (Hmin i' j' B). exists r', x'. split; [exact Hat' | apply HB; exact Hb'].
    + apply HB in HBx. rewrite (P i j r x) in HBx; [discriminate | lia | exact Hat].
Qed.

Lemma first_rules_none : forall bad (Bad : rule -> ref -> Prop) d,
  (forall r x, bad r x = true <-> Bad r x) ->
  (first_rules bad d 0 = None <-> forall i j, ~ GenAt Bad d i j).
Proof.
  intros bad Bad d HB. pose proof (first_rules_post bad d []) as P. simpl in P. split.
  - intros E. rewrite E in P. simpl in P. intros i j [r [x [Hat HBx]]]. apply HB in HBx.
    rewrite (P i j r x) in HBx; [discriminate | lia | exact Hat].
  - intros H. destruct (first_rules bad d 0) as [[[i j] n]|]; [| reflexivity]. simpl in P.
    destruct P as [_ [[r [x [Hat [Hb _]]]] _]]. exfalso. apply (H i j). exists r, x.
    split; [exact Hat | apply HB; exact Hb].
Qed.

Lemma first_rules_ext : forall bad1 bad2 d i,
  (forall r x, In r d -> In x (rrefs r) -> bad1 r x = bad2 r x) ->
  first_rules bad1 d i = first_rules bad2 d i.
Proof.
  intros bad1 bad2 d. induction d as [|r rest IH]; intros i H; simpl; [reflexivity |].
  rewrite (walk_refs_ext (bad1 r) (bad2 r)) by (intros x Hx; apply H; [left; reflexivity | exact Hx]).
  destruct (walk_refs (bad2 r) (rrefs r) 0) as [[j n]|]; [reflexivity |].
  apply IH. intros r' x Hr Hx. apply H; [right; exact Hr | exact Hx].
Qed.

(* ------------------------------------------------------------------------- *)
(* phase 1 of the walker *)

Lemma collect_post : forall d idx defined gens D G,
  collect d idx defined gens = (D, G) ->
  (forall n, mem n D = mem n defined || existsb (fun r => N.eqb (rsock r) 0 && name_eqb (rid r) n) d) /\
  (forall k, gens_get G k =
     match (if idx <=? k then nth_error d (k - idx) else None) with
     | Some r => match rparams r with [] => gens_get gens k | _ :: _ => Some (rparams r) end
     | None => gens_get gens k
     end).
Proof.
  induction d as [|r rest IH]; intros idx defined gens D G H; simpl in H.
  - inversion H; subst. split.
    + intros n. simpl. rewrite orb_false_r. reflexivity.
    + intros k. destruct (idx <=? k); [destruct (k - idx) |]; reflexivity.
  - apply IH in H. destruct H as [H1 H2]. split.
    + intros n. rewrite H1. simpl. destruct (N.eqb (rsock r) 0); simpl.
      * rewrite (name_eqb_sym n (rid r)). destruct (name_eqb (rid r) n), (mem n defined); reflexivity.
      * reflexivity.
    + intros k. rewrite H2. clear H1 H2 IH.
      destruct (Nat.leb_spec (S idx) k) as [L | L].
      * replace (idx <=? k) with true by (symmetry; apply Nat.leb_le; lia).
        replace (k - idx) with (S (k - S idx)) by lia. simpl.
        assert (Hg : forall ps : list name, gens_get (match ps with [] => gens | _ :: _ => (idx, rparams r) :: gens end) k = gens_get gens k).
        { intros ps. destruct ps; [reflexivity |]. simpl.
          replace (idx =? k) with false by (symmetry; apply Nat.eqb_neq; lia). reflexivity. }
        destruct (nth_error rest (k - S idx)) as [r'|]; [destruct (rparams r') |]; try reflexivity; apply Hg.
      * destruct (Nat.eq_dec k idx) as [-> | Hne].
        { rewrite Nat.leb_refl, Nat.sub_diag. simpl.
          destruct (rparams r) eqn:Ep; [reflexivity |]. simpl. rewrite Nat.eqb_refl. reflexivity. }
        replace (idx <=? k) with false by (symmetry; apply Nat.leb_gt; lia).
        destruct (rparams r); [reflexivity |]. simpl.
        replace (idx =? k) with false by (symmetry; apply Nat.eqb_neq; lia). reflexivity.
Qed.

(* what check_reference decides, in terms of the document *)
Definition codeb (d : doc) (r : rule) (x : ref) : bool :=
  negb (xsock x) && negb (starts_dollar (xid x)) &&
  negb (existsb (fun r' => N.eqb (rsock r') 0 && name_eqb (rid r') (xid x)) d) &&
  negb (mem (xid x) gen_prelude) && negb (mem (xid x) (rparams r)).

Lemma check_reference_codeb : forall d D G, collect d 0 [] [] = (D, G) ->
  forall i r x, nth_error d i = Some r ->
  check_reference gen_prelude D (gens_get G i) x = codeb d r x.
Proof.
  intros d D G HC i r x Hr. apply collect_post in HC. destruct HC as [H1 H2].
  unfold check_reference, codeb, hset_contains. rewrite H1, H2.
  change (0 <=? i) with true. cbv iota. rewrite Nat.sub_0_r, Hr.
  change (mem (xid x) []) with false. change (gens_get [] i) with (@None hset).
  set (P := mem (xid x) gen_prelude). clearbody P.
  set (A := existsb (fun r0 => N.eqb (rsock r0) 0 && name_eqb (rid r0) (xid x)) d). clearbody A.
  set (S := starts_dollar (xid x)). clearbody S.
  destruct (rparams r) as [|p ps].
  - change (mem (xid x) []) with false. destruct (xsock x), A, P, S; reflexivity.
  - set (Q := mem (xid x) (p :: ps)). clearbody Q. destruct (xsock x), A, P, Q, S; reflexivity.
Qed.

Lemma walk_rules_eq : forall suf pre d D G,
  d = pre ++ suf -> collect d 0 [] [] = (D, G) ->
  walk_rules gen_prelude D G suf (length pre) = first_rules (codeb d) suf (length pre).
Proof.
  induction suf as [|r rest IH]; intros pre d D G Hd HC; simpl; [reflexivity |].
  assert (Hr : nth_error d (length pre) = Some r) by (subst d; apply nth_mid).
  rewrite (walk_refs_ext _ (codeb d r)) by (intros x _; apply (check_reference_codeb d D G HC _ _ _ Hr)).
  destruct (walk_refs (codeb d r) (rrefs r) 0) as [[j n]|]; [reflexivity |].
  specialize (IH (pre ++ [r]) d D G). rewrite app_length in IH. simpl in IH.
  replace (length pre + 1) with (S (length pre)) in IH by lia.
  apply IH; [rewrite <- app_cons_snoc; exact Hd | exact HC].
Qed.

Theorem refcheck_eq : forall d, refcheck d = first_rules (codeb d) d 0.
Proof.
  intros d. unfold refcheck, find_first_undefined. destruct (collect d 0 [] []) as [D G] eqn:HC.
  exact (walk_rules_eq d [] d D G eq_refl HC).
Qed.

(* ------------------------------------------------------------------------- *)
(* boolean predicates vs the specification's propositions *)

Lemma starts_dollar_iff : forall n, starts_dollar n = true <-> exists t, n = 36%N :: t.
Proof.
  intros [|c t]; simpl.
  - split; [discriminate | intros [t H]; discriminate].
  - rewrite N.eqb_eq. split; [intros ->; exists t; reflexivity | intros [t' H]; inversion H; reflexivity].
Qed.

Lemma not_socket_iff : forall x, ~ IsSocketRef x <-> xsock x = false /\ starts_dollar (xid x) = false.
Proof.
  intros x. unfold IsSocketRef. rewrite <- starts_dollar_iff.
  destruct (xsock x), (starts_dollar (xid x)); intuition congruence.
Qed.

Lemma existsb_false : forall (A : Type) (f : A -> bool) l, existsb f l = false <-> forall y, In y l -> f y = false.
Proof.
  intros A f l. induction l as [|a l IH]; simpl.
  - split; [intros _ y [] | reflexivity].
  - rewrite orb_false_iff, IH. split.
    + intros [Ha Hl] y [<- | Hy]; auto.
    + intros H. split; [apply H; left; reflexivity | intros y Hy; apply H; right; exact Hy].
Qed.

Lemma defined_rule_iff : forall d n,
  existsb (fun r => N.eqb (rsock r) 0 && name_eqb (rid r) n) d = true <-> DefinedByRule d n.
Proof.
  intros d n. rewrite existsb_exists. unfold DefinedByRule. split.
  - intros [r [Hr E]]. apply andb_true_iff in E. destruct E as [E1 E2].
    apply N.eqb_eq in E1. apply name_eqb_eq in E2. exists r. auto.
  - intros [r [Hr [E1 E2]]]. exists r. split; [exact Hr |].
    apply andb_true_iff. split; [apply N.eqb_eq; exact E1 | apply name_eqb_eq; exact E2].
Qed.

Lemma negb_true_not : forall b (P : Prop), (b = true <-> P) -> (negb b = true <-> ~ P).
Proof. intros [|] P H; simpl; split; intros; try discriminate; try tauto. intros HP. apply H in HP. discriminate. Qed.

Lemma unresolvedb_iff : forall d r x, unresolvedb d r x = true <-> Unresolved d r x.
Proof.
  intros d r x. unfold unresolvedb, Unresolved. rewrite !andb_true_iff.
  rewrite (negb_true_not _ _ (defined_rule_iff d (xid x))).
  rewrite (negb_true_not _ _ (mem_In (xid x) rfc_prelude)).
  rewrite (negb_true_not _ _ (mem_In (xid x) (rparams r))).
  rewrite not_socket_iff, !negb_true_iff. tauto.
Qed.

(* ------------------------------------------------------------------------- *)
(* theorems about the walker *)

(* the predicate the code decides is the specification's (only the prelude table differs in
   name: generated vs hand-written, equal as sets by prelude_table_ok) *)
Lemma codeb_unresolvedb : forall d r x, codeb d r x = unresolvedb d r x.
Proof. intros d r x. unfold codeb. rewrite mem_prelude. reflexivity. Qed.

Theorem refcheck_eq_spec : forall d, refcheck d = spec_refcheck d.
Proof.
  intros d. rewrite refcheck_eq. unfold spec_refcheck.
  apply first_rules_ext. intros r x _ _. apply codeb_unresolvedb.
Qed.

(* the executable specification is the specification *)
Theorem spec_refcheck_spec : forall d i j n,
  spec_refcheck d = Some (i, j, n) <-> FirstUnresolved d i j n.
Proof.
  intros d i j n.
  exact (first_rules_spec (unresolvedb d) (Unresolved d) d (unresolvedb_iff d) i j n).
Qed.

Theorem spec_refcheck_none : forall d,
  spec_refcheck d = None <-> forall i j, ~ UnresolvedAt d i j.
Proof.
  intros d. exact (first_rules_none (unresolvedb d) (Unresolved d) d (unresolvedb_iff d)).
Qed.

(* the walker reports exactly the first unresolved reference in source order *)
Theorem refcheck_spec : forall d i j n,
  refcheck d = Some (i, j, n) <-> FirstUnresolved d i j n.
Proof. intros d i j n. rewrite refcheck_eq_spec. apply spec_refcheck_spec. Qed.

Theorem refcheck_none_iff : forall d,
  refcheck d = None <-> forall i j, ~ UnresolvedAt d i j.
Proof. intros d. rewrite refcheck_eq_spec. apply spec_refcheck_none. Qed.

(* regression witness of the repaired finding: "$a = int" "b = a" is rejected at (1, 0) *)
Definition socket_head_doc : doc :=
  [ mkRule 1 [97%N] true [] [mkRef false [105%N; 110%N; 116%N]];
    mkRule 0 [98%N] true [] [mkRef false [97%N]] ].

Lemma socket_head_rejected : refcheck socket_head_doc = Some (1, 0, [97%N]).
Proof. vm_compute. reflexivity. Qed.

(* ------------------------------------------------------------------------- *)
(* the two entry points *)

Lemma dup_view_nth : forall d i, nth_error (dup_view d) i = option_map (fun r => (printed r, rplain r)) (nth_error d i).
Proof. intros d i. unfold dup_view. apply nth_error_map. Qed.

Definition no_dup (d : doc) : Prop := forall i, ~ dup_at (dup_view d) i.

Lemma dup_error_none_no_dup : forall d, dup_error (dup_view d) = None -> no_dup d.
Proof.
  intros d E i Hd.
  assert (H : dup_check (dup_view d) = None) by (unfold dup_check; rewrite E; reflexivity).
  rewrite dup_none in H. destruct Hd as [[n Hn] [j [Hj [n1 [p1 [q1 [H1 H2]]]]]]].
  rewrite Hn in H2. inversion H2; subst. exact (H i j n1 p1 Hj Hn H1).
Qed.

Definition dup_verdict (d : doc) (i : nat) (n : name) : Prop :=
  first_dup_at (dup_view d) i /\ exists r, nth_error d i = Some r /\ n = printed r.

Lemma dup_error_verdict : forall d i n, dup_error (dup_view d) = Some (i, n) -> dup_verdict d i n.
Proof.
  intros d i n E. apply dup_error_spec in E. destruct E as [Hf [p Hn]]. split; [exact Hf |].
  rewrite dup_view_nth in Hn. destruct (nth_error d i) as [r|]; simpl in Hn; [| discriminate].
  inversion Hn. exists r. auto.
Qed.

(* cddl_from_str: rejects exactly the documents with a duplicate, naming the later definition *)
Theorem plain_parse_spec : forall d,
  match plain_parse d with
  | VDup i n => dup_verdict d i n
  | VOk k => k = length d /\ no_dup d
  | VUndef _ _ _ => False
  end.
Proof.
  intros d. unfold plain_parse. destruct (dup_error (dup_view d)) as [[i n]|] eqn:E.
  - apply dup_error_verdict. exact E.
  - split; [reflexivity | apply dup_error_none_no_dup; exact E].
Qed.

(* CDDL::from_slice: duplicates first, then the first unresolved reference; Ok iff neither *)
Theorem checked_parse_spec : forall d,
  match checked_parse d with
  | VDup i n => dup_verdict d i n
  | VUndef i j n => no_dup d /\ FirstUnresolved d i j n
  | VOk k => k = length d /\ no_dup d /\ forall i j, ~ UnresolvedAt d i j
  end.
Proof.
  intros d. unfold checked_parse, checked_with. destruct (dup_error (dup_view d)) as [[i n]|] eqn:E.
  - apply dup_error_verdict. exact E.
  - apply dup_error_none_no_dup in E. destruct (refcheck d) as [[[i j] n]|] eqn:R.
    + split; [exact E |]. apply refcheck_spec. exact R.
    + split; [reflexivity |]. split; [exact E |]. apply refcheck_none_iff. exact R.
Qed.
