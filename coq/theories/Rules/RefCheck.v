(* C12 - faithful model of find_first_undefined_reference (/repo/src/pest_bridge.rs) on
   abstract documents (Doc.v), and of the two entry points
     cddl_from_str        = parse; duplicate check
     CDDL::from_slice     = parse; duplicate check; undefined-reference check.

   Phase 1 (collect_definitions): for every rule whose head typename/groupname has NO
   socket_type / socket_group child, the text of the head's [id] child goes into `defined`
   (since /repo commit a8c9ab3 a head "$x" / "$$x" is not recorded: it defines the socket, not
   the plain name x); its generic parameter names go into a map keyed by the rule (the code keys by the rule's start
   offset, unique per rule; the model keys by the rule's index) when there is at least one.
   Phase 2 (RefFinder::walk): rules in order, `current_rule_generics` = the map entry of the
   rule; every typename/groupname child of a type2 / group_entry pair, in document order,
   goes through check_reference; the first hit is the result.

   No proofs in this file. *)
From Cddl Require Import Rules.Doc Rules.Dup Rules.Spec Generated.PreludeNames.

Definition hset := list name.
Definition hset_contains (s : hset) (k : name) : bool := mem k s.

(* ---- phase 1 ---- *)
Fixpoint collect (d : doc) (idx : nat) (defined : hset) (gens : list (nat * hset))
  : hset * list (nat * hset) :=
  match d with
  | [] => (defined, gens)
  | r :: rest =>
      let defined' := if N.eqb (rsock r) 0 then rid r :: defined else defined in   (* if !is_socket *)
      let gens' := match rparams r with
                   | [] => gens                       (* if !generic_params_for_rule.is_empty() *)
                   | _ :: _ => (idx, rparams r) :: gens
                   end in
      collect rest (S idx) defined' gens'
  end.

Fixpoint gens_get (gens : list (nat * hset)) (k : nat) : option hset :=
  match gens with
  | [] => None
  | (i, s) :: t => if Nat.eqb i k then Some s else gens_get t k
  end.

(* ---- phase 2 ---- *)
(* true = this reference is reported as undefined *)
Definition check_reference (prelude defined : hset) (cur : option hset) (x : ref) : bool :=
  if xsock x then false                                        (* socket_type / socket_group child *)
  else if hset_contains defined (xid x) || hset_contains prelude (xid x)
          || match cur with Some g => hset_contains g (xid x) | None => false end
       then false
  else if starts_dollar (xid x) then false                     (* name.starts_with('$') *)
  else true.

Fixpoint walk_refs (chk : ref -> bool) (xs : list ref) (j : nat) : option (nat * name) :=
  match xs with
  | [] => None
  | x :: rest => if chk x then Some (j, xid x) else walk_refs chk rest (S j)
  end.

Fixpoint walk_rules (prelude defined : hset) (gens : list (nat * hset)) (d : doc) (i : nat)
  : option (nat * nat * name) :=
  match d with
  | [] => None
  | r :: rest =>
      match walk_refs (check_reference prelude defined (gens_get gens i)) (rrefs r) 0 with
      | Some (j, n) => Some (i, j, n)
      | None => walk_rules prelude defined gens rest (S i)
      end
  end.

Definition find_first_undefined (prelude : hset) (d : doc) : option (nat * nat * name) :=
  let '(defined, gens) := collect d 0 [] [] in
  walk_rules prelude defined gens d 0.

(* the code's prelude table is the generated one *)
Definition refcheck (d : doc) : option (nat * nat * name) := find_first_undefined gen_prelude d.

(* ---- executable form of the specification (Spec.Unresolved), used as a second oracle ---- *)
Definition unresolvedb (d : doc) (r : rule) (x : ref) : bool :=
  negb (xsock x) && negb (starts_dollar (xid x)) &&
  negb (existsb (fun r' => N.eqb (rsock r') 0 && name_eqb (rid r') (xid x)) d) &&
  negb (mem (xid x) rfc_prelude) && negb (mem (xid x) (rparams r)).

(* first (rule, reference) in source order satisfying [bad] *)
Fixpoint first_rules (bad : rule -> ref -> bool) (d : doc) (i : nat) : option (nat * nat * name) :=
  match d with
  | [] => None
  | r :: rest =>
      match walk_refs (bad r) (rrefs r) 0 with
      | Some (j, n) => Some (i, j, n)
      | None => first_rules bad rest (S i)
      end
  end.
Definition spec_refcheck (d : doc) : option (nat * nat * name) := first_rules (unresolvedb d) d 0.

(* ---- entry points ---- *)
Inductive verdict :=
| VOk (nrules : nat)
| VDup (i : nat) (n : name)
| VUndef (i j : nat) (n : name).

Definition plain_parse (d : doc) : verdict :=
  match dup_error (dup_view d) with
  | Some (i, n) => VDup i n
  | None => VOk (length d)
  end.

Definition checked_with (chk : doc -> option (nat * nat * name)) (d : doc) : verdict :=
  match dup_error (dup_view d) with
  | Some (i, n) => VDup i n
  | None => match chk d with
            | Some (i, j, n) => VUndef i j n
            | None => VOk (length d)
            end
  end.

Definition checked_parse : doc -> verdict := checked_with refcheck.
Definition checked_spec : doc -> verdict := checked_with spec_refcheck.

(* ---- canonical rendering (character codes), same text from vm_compute and from the extracted code ---- *)
Definition render_verdict (v : verdict) : list N :=
  match v with
  | VOk k => [79; 75; 32]%N ++ dec k                                      (* "OK k" *)
  | VDup i n => [68; 85; 80; 32]%N ++ dec i ++ [32]%N ++ n                  (* "DUP i name" *)
  | VUndef i j n => [85; 78; 68; 69; 70; 32]%N ++ dec i ++ [32]%N ++ dec j ++ [32]%N ++ n   (* "UNDEF i j name" *)
  end.

(* plain TAB checked(model) TAB checked(specification) TAB class marker (statistics only) *)
Definition c12_render (d : doc) : list N :=
  render_verdict (plain_parse d) ++ [9]%N ++ render_verdict (checked_parse d) ++ [9]%N ++
  render_verdict (checked_spec d) ++ [9]%N ++ (if kf_socket_shadow d then [49]%N else [48]%N).
