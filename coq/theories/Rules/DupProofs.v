(* C12 - proofs about the duplicate-definition check (model: Dup.v, specification: Spec.v). *)
From Coq Require Import Lia.
From Cddl Require Import Rules.Doc Rules.Dup Rules.Spec.

(* ---- names ---- *)
Lemma name_eqb_eq : forall a b, name_eqb a b = true <-> a = b.
Proof.
  induction a as [|x a IH]; destruct b as [|y b]; simpl; try (split; congruence).
  rewrite andb_true_iff, N.eqb_eq, IH.
  split; [intros [-> ->]; reflexivity | intros H; inversion H; auto].
Qed.

Lemma name_eqb_refl : forall a, name_eqb a a = true.
Proof. intros a. apply name_eqb_eq. reflexivity. Qed.

Lemma name_eqb_neq : forall a b, name_eqb a b = false <-> a <> b.
Proof.
  intros a b. split.
  - intros H E. apply name_eqb_eq in E. congruence.
  - intros H. destruct (name_eqb a b) eqn:E; [apply name_eqb_eq in E; contradiction | reflexivity].
Qed.

Lemma name_eqb_sym : forall a b, name_eqb a b = name_eqb b a.
Proof.
  intros a b. destruct (name_eqb a b) eqn:E.
  - apply name_eqb_eq in E. subst. symmetry. apply name_eqb_refl.
  - symmetry. apply name_eqb_neq. apply name_eqb_neq in E. congruence.
Qed.

Lemma mem_In : forall n s, mem n s = true <-> In n s.
Proof.
  intros n s. unfold mem. rewrite existsb_exists. split.
  - intros [y [Hy E]]. apply name_eqb_eq in E. subst. exact Hy.
  - intros H. exists n. split; [exact H | apply name_eqb_refl].
Qed.

Lemma mem_false : forall n s, mem n s = false <-> ~ In n s.
Proof.
  intros n s. rewrite <- mem_In. destruct (mem n s); split; congruence.
Qed.

(* ---- the two hash maps ---- *)
Lemma contains_key_In : forall m k, contains_key m k = true <-> In k (map fst m).
Proof.
  intros m k. unfold contains_key. rewrite existsb_exists, in_map_iff. split.
  - intros [e [He E]]. apply name_eqb_eq in E. exists e. auto.
  - intros [e [E He]]. exists e. split; [exact He | apply name_eqb_eq; exact E].
Qed.

Lemma keys_insert : forall m k v n, In n (map fst (insert m k v)) <-> n = k \/ In n (map fst m).
Proof.
  intros m k v n. unfold insert. simpl. rewrite !in_map_iff. split.
  - intros [E | [e [E He]]]; [left; auto |].
    apply filter_In in He. right. exists e. tauto.
  - intros [E | [e [E He]]]; [left; auto |].
    destruct (name_eqb n k) eqn:Enk.
    + apply name_eqb_eq in Enk. left. auto.
    + right. exists e. split; [exact E |]. apply filter_In. split; [exact He |].
      rewrite E, Enk. reflexivity.
Qed.

Lemma keys_or_insert : forall m k v n, In n (map fst (or_insert m k v)) <-> n = k \/ In n (map fst m).
Proof.
  intros m k v n. unfold or_insert. destruct (contains_key m k) eqn:E.
  - apply contains_key_In in E. split; [tauto |]. intros [-> | H]; auto.
  - simpl. split; intros [H | H]; auto.
Qed.

Definition known (seen incr : hmap) (n : name) : Prop :=
  contains_key seen n || contains_key incr n = true.

Lemma known_iff : forall seen incr n,
  known seen incr n <-> In n (map fst seen) \/ In n (map fst incr).
Proof.
  intros. unfold known. rewrite orb_true_iff, !contains_key_In. tauto.
Qed.

(* ---- positions ---- *)
Lemma nth_mid : forall (A : Type) (pre : list A) a rest, nth_error (pre ++ a :: rest) (length pre) = Some a.
Proof.
  intros. rewrite nth_error_app2 by lia. rewrite Nat.sub_diag. reflexivity.
Qed.

(* with all = pre ++ (n, p) :: rest, the rule at position |pre| is a duplicate
   iff it is plain and its name occurs in pre *)
Lemma dup_at_mid : forall pre n p rest,
  dup_at (pre ++ (n, p) :: rest) (length pre) <-> p = true /\ In n (map fst pre).
Proof.
  intros pre n p rest. unfold dup_at, plain_at, same_name. split.
  - intros [[n0 Hn0] [j [Hj [n1 [p1 [q1 [H1 H2]]]]]]].
    rewrite nth_mid in Hn0, H2. inversion Hn0; subst. inversion H2; subst.
    split; [reflexivity |].
    rewrite nth_error_app1 in H1 by exact Hj.
    apply nth_error_In in H1. apply in_map_iff. exists (n1, p1). auto.
  - intros [-> Hin]. split.
    + exists n. apply nth_mid.
    + apply in_map_iff in Hin. destruct Hin as [[n1 p1] [E Hin]]. simpl in E. subst n1.
      apply In_nth_error in Hin. destruct Hin as [j Hj].
      assert (Hlt : j < length pre) by (apply nth_error_Some; congruence).
      exists j. split; [exact Hlt |].
      exists n, p1, true. split; [rewrite nth_error_app1 by exact Hlt; exact Hj | apply nth_mid].
Qed.

(* ---- the loop ---- *)
Definition loop_post (pre rs : list rule_view) (res : option (nat * name)) : Prop :=
  match res with
  | Some (i, m) =>
      length pre <= i /\ dup_at (pre ++ rs) i /\
      (forall k, length pre <= k -> k < i -> ~ dup_at (pre ++ rs) k) /\
      exists q, nth_error (pre ++ rs) i = Some (m, q)
  | None => forall i, length pre <= i -> ~ dup_at (pre ++ rs) i
  end.

Lemma app_cons_snoc : forall (A : Type) (pre : list A) a rest, pre ++ a :: rest = (pre ++ [a]) ++ rest.
Proof. intros. rewrite <- app_assoc. reflexivity. Qed.

Lemma loop_post_step : forall pre n p rest res,
  ~ dup_at (pre ++ (n, p) :: rest) (length pre) ->
  loop_post (pre ++ [(n, p)]) rest res -> loop_post pre ((n, p) :: rest) res.
Proof.
  intros pre n p rest res Hnd H.
  unfold loop_post in *. rewrite <- app_cons_snoc in H. rewrite app_length in H. simpl in H.
  destruct res as [[i m]|].
  - destruct H as [Hle [Hd [Hmin Hn]]].
    split; [lia |]. split; [exact Hd |]. split; [| exact Hn].
    intros k Hk1 Hk2. destruct (Nat.eq_dec k (length pre)) as [-> | Hne]; [exact Hnd |].
    apply Hmin; lia.
  - intros i Hi. destruct (Nat.eq_dec i (length pre)) as [-> | Hne]; [exact Hnd |].
    apply H. lia.
Qed.

Lemma dup_loop_post : forall rs pre seen incr,
  (forall n, known seen incr n <-> In n (map fst pre)) ->
  loop_post pre rs (dup_loop rs (length pre) seen incr).
Proof.
  induction rs as [|[n p] rest IH]; intros pre seen incr Inv.
  - simpl. intros i Hi [[n Hn] _]. rewrite app_nil_r in Hn.
    assert (nth_error pre i = None) by (apply nth_error_None; lia). congruence.
  - simpl. destruct p; simpl.
    + destruct (contains_key seen n || contains_key incr n) eqn:K.
      * (* duplicate found here *)
        assert (Hd : dup_at (pre ++ (n, true) :: rest) (length pre)).
        { apply dup_at_mid. split; [reflexivity | apply Inv; exact K]. }
        unfold loop_post. split; [lia |]. split; [exact Hd |]. split; [intros k Hk1 Hk2; lia |].
        exists true. apply nth_mid.
      * apply loop_post_step.
        { rewrite dup_at_mid. intros [_ Hin]. apply Inv in Hin. unfold known in Hin. congruence. }
        replace (S (length pre)) with (length (pre ++ [(n, true)])) by (rewrite app_length; simpl; lia).
        apply IH. intros n'. rewrite known_iff, keys_insert, map_app, in_app_iff. simpl.
        rewrite <- (Inv n'), known_iff. intuition.
    + apply loop_post_step.
      { rewrite dup_at_mid. intros [Hp _]. discriminate. }
      replace (S (length pre)) with (length (pre ++ [(n, false)])) by (rewrite app_length; simpl; lia).
      apply IH. intros n'. rewrite known_iff, keys_or_insert, map_app, in_app_iff. simpl.
      rewrite <- (Inv n'), known_iff. intuition.
Qed.

Lemma dup_error_post : forall rs, loop_post [] rs (dup_error rs).
Proof.
  intros rs. unfold dup_error. apply (dup_loop_post rs [] [] []).
  intros n. unfold known. simpl. split; [discriminate | tauto].
Qed.

Lemma first_dup_unique : forall rs i i', first_dup_at rs i -> first_dup_at rs i' -> i = i'.
Proof.
  intros rs i i' [H1 M1] [H2 M2].
  destruct (Nat.lt_trichotomy i i') as [L | [E | L]]; [| exact E |].
  - exfalso. exact (M2 i L H1).
  - exfalso. exact (M1 i' L H2).
Qed.

(* ---- theorems ---- *)

(* the error is raised exactly at the first plain definition whose name was defined before,
   and it carries that rule's name *)
Theorem dup_error_spec : forall rs i n,
  dup_error rs = Some (i, n) <-> first_dup_at rs i /\ exists p, nth_error rs i = Some (n, p).
Proof.
  intros rs i n. pose proof (dup_error_post rs) as P. split.
  - intros E. rewrite E in P. simpl in P. destruct P as [_ [Hd [Hmin Hn]]].
    split; [| exact Hn]. split; [exact Hd |]. intros k Hk. apply Hmin; lia.
  - intros [Hf [p Hn]]. destruct (dup_error rs) as [[i' m]|].
    + simpl in P. destruct P as [_ [Hd [Hmin [q Hq]]]].
      assert (i = i').
      { apply (first_dup_unique rs); [exact Hf |]. split; [exact Hd |]. intros k Hk. apply Hmin; lia. }
      subst i'. simpl in Hq. congruence.
    + simpl in P. destruct Hf as [Hd _]. exfalso. apply (P i); [lia | exact Hd].
Qed.

Theorem dup_spec : forall rs i, dup_check rs = Some i <-> first_dup_at rs i.
Proof.
  intros rs i. unfold dup_check. split.
  - destruct (dup_error rs) as [[i' n]|] eqn:E; simpl; [| discriminate].
    intros H. inversion H; subst. apply dup_error_spec in E. tauto.
  - intros Hf. destruct Hf as [[[n Hn] Hj] Hmin].
    assert (E : dup_error rs = Some (i, n)).
    { apply dup_error_spec. split; [| exists true; exact Hn].
      split; [split; [exists n; exact Hn | exact Hj] | exact Hmin]. }
    rewrite E. reflexivity.
Qed.

Theorem dup_none : forall rs,
  dup_check rs = None <->
  forall i j n p, j < i -> nth_error rs i = Some (n, true) -> nth_error rs j = Some (n, p) -> False.
Proof.
  intros rs. unfold dup_check. pose proof (dup_error_post rs) as P. split.
  - destruct (dup_error rs) as [[i' m]|]; simpl; [discriminate |]. intros _.
    simpl in P. intros i j n p Hj Hi Hjn. apply (P i); [lia |].
    split; [exists n; exact Hi |]. exists j. split; [exact Hj |]. exists n, p, true. auto.
  - intros H. destruct (dup_error rs) as [[i' m]|]; simpl; [| reflexivity].
    simpl in P. destruct P as [_ [[[n Hn] [j [Hj [n1 [p1 [q1 [H1 H2]]]]]]] _]]. exfalso.
    rewrite Hn in H2. inversion H2; subst. exact (H i' j n1 p1 Hj Hn H1).
Qed.

(* any number of "/=" and "//=" increments is accepted *)
Theorem increments_free : forall rs, (forall i, ~ plain_at rs i) -> dup_check rs = None.
Proof.
  intros rs H. apply dup_none. intros i j n p _ Hi _. apply (H i). exists n. exact Hi.
Qed.

(* the property's reading: the document is rejected exactly when some name receives a plain
   definition after any earlier definition of the same name *)
Theorem dup_rejects_iff : forall rs,
  (exists i, dup_check rs = Some i) <->
  exists i j n p, j < i /\ nth_error rs i = Some (n, true) /\ nth_error rs j = Some (n, p).
Proof.
  intros rs. split.
  - intros [i H]. apply dup_spec in H. destruct H as [[[n Hn] [j [Hj [n1 [p1 [q1 [H1 H2]]]]]]] _].
    rewrite Hn in H2. inversion H2; subst. exists i, j, n1, p1. auto.
  - intros [i [j [n [p [Hj [Hi Hjn]]]]]]. destruct (dup_check rs) as [k|] eqn:E; [exists k; reflexivity |].
    exfalso. rewrite dup_none in E. exact (E i j n p Hj Hi Hjn).
Qed.

(* sockets: the printed names "$x", "$$x" and "x" are pairwise different, whatever x *)
Lemma printed_socket_distinct : forall r1 r2,
  starts_dollar (rid r1) = false -> starts_dollar (rid r2) = false ->
  printed r1 = printed r2 -> (rsock r1 = 0%N <-> rsock r2 = 0%N) /\ (rsock r1 = 1%N <-> rsock r2 = 1%N) /\ rid r1 = rid r2.
Proof.
  intros [s1 i1 p1 g1 x1] [s2 i2 p2 g2 x2]. unfold printed. simpl. intros D1 D2 E.
  destruct s1 as [|[?|?|]], s2 as [|[?|?|]]; simpl in E;
    try (repeat split; intros; try reflexivity; try discriminate; congruence);
    try (inversion E; subst; simpl in *; try rewrite N.eqb_refl in *; discriminate);
    try (inversion E; subst; repeat split; intros; try discriminate; reflexivity);
    try (subst; simpl in *; rewrite N.eqb_refl in *; discriminate).
Qed.
