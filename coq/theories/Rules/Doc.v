(* C12 - abstract documents: what the duplicate check and the undefined-reference check see.
   A CDDL document is abstracted to its list of rules in source order; a rule to its head
   (socket prefix, identifier, assignment operator), its generic parameter names, and the
   list of the names it references (every typename / groupname occurrence of its body,
   generic arguments included) in source order.  No proofs in this file. *)
From Coq Require Export List NArith Bool Arith.
Export ListNotations.

(* an identifier: its character codes (the text of the grammar's [id]) *)
Definition name := list N.

Fixpoint name_eqb (a b : name) : bool :=
  match a, b with
  | [], [] => true
  | x :: a', y :: b' => N.eqb x y && name_eqb a' b'
  | _, _ => false
  end.

Definition mem (n : name) (s : list name) : bool := existsb (name_eqb n) s.

(* one reference: [xsock] = the typename/groupname pair has a "$" / "$$" socket child *)
Record ref := mkRef { xsock : bool; xid : name }.

(* one rule.  rsock: 0 = no prefix, 1 = "$", anything else = "$$".
   rplain: true for "=", false for "/=" and "//=". *)
Record rule := mkRule {
  rsock : N;
  rid : name;
  rplain : bool;
  rparams : list name;
  rrefs : list ref
}.

Definition doc := list rule.

(* the rule name as the crate prints it (Identifier's Display: socket prefix then ident) *)
Definition printed (r : rule) : name :=
  match rsock r with
  | 0%N => rid r
  | 1%N => 36%N :: rid r
  | _ => 36%N :: 36%N :: rid r
  end.

(* what the duplicate check looks at: (printed name, plain?) *)
Notation rule_view := (name * bool)%type (only parsing).
Definition dup_view (d : doc) : list rule_view := map (fun r => (printed r, rplain r)) d.

Definition starts_dollar (n : name) : bool :=
  match n with
  | c :: _ => N.eqb c 36
  | [] => false
  end.

(* decimal rendering of a list position (a nat: the length of a list in hand) *)
Fixpoint dec_aux (fuel : nat) (n : N) (acc : list N) : list N :=
  match fuel with
  | O => acc
  | S f => let acc' := (48 + N.modulo n 10)%N :: acc in
           if N.eqb (N.div n 10) 0 then acc' else dec_aux f (N.div n 10) acc'
  end.
Definition dec (k : nat) : list N := let n := N.of_nat k in dec_aux (S (N.size_nat n)) n [].
