(* C12 - faithful model of the duplicate-definition check of convert_cddl
   (/repo/src/pest_bridge.rs, "Check for duplicate rule names"):

     let mut seen_names: HashMap<String, usize> = HashMap::new();
     let mut incremental_names: HashMap<String, usize> = HashMap::new();
     for (idx, rule) in rules.iter().enumerate() {
       let name = rule.name();                        // printed name, socket prefix included
       if is_alternate { incremental_names.entry(name).or_insert(idx); }
       else {
         if seen_names.contains_key(&name) || incremental_names.contains_key(&name) { return Err(.. name ..) }
         seen_names.insert(name, idx);
       }
     }

   No proofs in this file. *)
From Cddl Require Import Rules.Doc.

(* HashMap<String, usize> as an association list with unique keys *)
Definition hmap := list (name * nat).

Definition contains_key (m : hmap) (k : name) : bool :=
  existsb (fun e => name_eqb (fst e) k) m.

(* HashMap::insert: replaces an existing binding *)
Definition insert (m : hmap) (k : name) (v : nat) : hmap :=
  (k, v) :: filter (fun e => negb (name_eqb (fst e) k)) m.

(* entry(k).or_insert(v): keeps the first-seen index *)
Definition or_insert (m : hmap) (k : name) (v : nat) : hmap :=
  if contains_key m k then m else (k, v) :: m.

Fixpoint dup_loop (rs : list rule_view) (idx : nat) (seen incr : hmap) : option (nat * name) :=
  match rs with
  | [] => None
  | (n, plain) :: rest =>
      if negb plain then dup_loop rest (S idx) seen (or_insert incr n idx)
      else if contains_key seen n || contains_key incr n then Some (idx, n)
      else dup_loop rest (S idx) (insert seen n idx) incr
  end.

(* Some (i, n): the error is raised at rule i (0-based) and its message carries the name n *)
Definition dup_error (rs : list rule_view) : option (nat * name) := dup_loop rs 0 [] [].

Definition dup_check (rs : list rule_view) : option nat := option_map fst (dup_error rs).
