(* The error range is on character boundaries EXCEPT in the two classified defect classes
   (ErrRange.kf_range_end_in_char, ErrRange.kf_range_start_in_char).  The only fact about UTF-8 that is needed:
   a continuation byte never follows an ASCII byte (cont_ok), which every valid UTF-8 text satisfies. *)
From Coq Require Import ZifyBool ZifyNat ZifyN.
From Cddl Require Import Base.Bytes Base.Utf8 Pos.Span Pos.SpanProofs Pos.ErrRange Pos.ErrRangeProofs.
Open Scope N_scope.
Arguments N.add : simpl never.
Arguments N.mul : simpl never.
Arguments N.sub : simpl never.
Arguments N.pred : simpl never.
Arguments N.eqb : simpl never.
Arguments N.leb : simpl never.
Arguments N.ltb : simpl never.

(* ---------- small facts ---------- *)
Lemma tok_char_ascii : forall b, tok_char b = true -> b < 128.
Proof. unfold tok_char, is_alnum. intros. lia. Qed.
Lemma tok_first_char : forall b, tok_first b = true -> tok_char b = true.
Proof. unfold tok_first, tok_char, is_alnum. intros. lia. Qed.
Lemma skipped_ascii : forall b, skipped b = true -> b < 128.
Proof. unfold skipped, is_ascii_ws. intros. lia. Qed.
Lemma ascii_not_cont : forall b, b < 128 -> is_cont b = false.
Proof. unfold is_cont. intros. lia. Qed.

Lemma take_drop_while : forall A (p : A -> bool) l, take_while p l ++ drop_while p l = l.
Proof.
  induction l as [| x l IH]; [reflexivity |]. cbn [take_while drop_while].
  destruct (p x); [cbn [app]; rewrite IH; reflexivity | reflexivity].
Qed.
Lemma take_while_all : forall A (p : A -> bool) l x, In x (take_while p l) -> p x = true.
Proof.
  induction l as [| y l IH]; intros x H; [destruct H |]. cbn [take_while] in H.
  destruct (p y) eqn:E; [| destruct H]. destruct H as [<- | H]; auto.
Qed.

Lemma skipnN_add : forall A (l : list A) i j, skipnN (i + j) l = skipnN j (skipnN i l).
Proof.
  induction l as [| x l IH]; intros i j.
  - cbn [skipnN]. destruct j; reflexivity.
  - destruct (N.eqb_spec i 0) as [E | E].
    + subst. rewrite skipnN_0. reflexivity.
    + rewrite !skipnN_cons by lia. replace (i + j - 1) with (i - 1 + j) by lia. apply IH.
Qed.

Lemma skipnN_take_while : forall A (p : A -> bool) l, skipnN (lenN (take_while p l)) l = drop_while p l.
Proof.
  intros. rewrite <- (take_drop_while A p l) at 2. apply skipnN_app_len.
Qed.

Lemma cont_ok_app_r : forall a b, cont_ok (a ++ b) = true -> cont_ok b = true.
Proof.
  induction a as [| x a IH]; intros b H; [exact H |]. cbn [app cont_ok] in H.
  destruct (a ++ b) as [| y t] eqn:E.
  - destruct a; cbn [app] in E; [subst b; reflexivity | discriminate].
  - apply andb_prop in H as [_ H]. apply IH. rewrite E. exact H.
Qed.
Lemma cont_ok_skipnN : forall bs i, cont_ok bs = true -> cont_ok (skipnN i bs) = true.
Proof. intros bs i H. apply (cont_ok_app_r (firstnN i bs)). rewrite firstnN_skipnN. exact H. Qed.
Lemma cont_ok_pair : forall x y r, cont_ok (x :: y :: r) = true -> x < 128 -> is_cont y = false.
Proof. intros x y r H Hx. cbn [cont_ok] in H. apply andb_prop in H as [H _]. destruct (is_cont y); cbn in *; lia. Qed.
Lemma cont_ok_tail : forall x r, cont_ok (x :: r) = true -> cont_ok r = true.
Proof. intros x r H. apply (cont_ok_app_r [x]). exact H. Qed.

(* after a non-empty run of ASCII bytes the next byte is not a continuation byte *)
Lemma after_ascii_run : forall (p : N -> bool) l, (forall x, p x = true -> x < 128) -> cont_ok l = true ->
  take_while p l <> [] ->
  match drop_while p l with [] => True | y :: _ => is_cont y = false end.
Proof.
  intros p l Hp. induction l as [| x r IH]; intros Hc Hne; [cbn in Hne; congruence |].
  cbn [take_while drop_while] in *. destruct (p x) eqn:Px; [| congruence].
  destruct r as [| y r'].
  - cbn. exact I.
  - cbn [take_while drop_while] in *. destruct (p y) eqn:Py.
    + apply IH; [apply (cont_ok_tail x); exact Hc | congruence].
    + apply (cont_ok_pair x y r' Hc). apply Hp. exact Px.
Qed.

Lemma char_boundary_head : forall bs i y t, skipnN i bs = y :: t -> char_boundary bs i = negb (is_cont y).
Proof. intros bs i y t H. unfold char_boundary. rewrite H. reflexivity. Qed.
Lemma char_boundary_end : forall bs i, skipnN i bs = [] -> i <= lenN bs -> char_boundary bs i = true.
Proof.
  intros bs i H Hi. unfold char_boundary. rewrite H. apply skipnN_nil_iff in H. apply N.eqb_eq. lia.
Qed.

(* ---------- forward ---------- *)
Lemma forward_end_boundary : forall bs index ch t,
  cont_ok bs = true -> index <= lenN bs -> char_boundary bs index = true ->
  skipnN index bs = ch :: t ->
  compute_error_range index bs = (index, scan_token_end bs index) ->
  kf_range_end_in_char bs index = false ->
  char_boundary bs (scan_token_end bs index) = true.
Proof.
  intros bs index ch t Hc Hi Hb S E K.
  pose proof (lenN_skipnN N bs index) as L. rewrite S, lenN_cons in L.
  unfold kf_range_end_in_char in K. rewrite E in K. cbn [fst snd] in K. rewrite S in K.
  unfold scan_token_end in *. rewrite S in *.
  rewrite (char_boundary_head bs index ch t S) in Hb.
  destruct (tok_first ch) eqn:TF.
  - (* identifier / number: a run of ASCII token bytes *)
    pose proof (skipnN_take_while N tok_char (ch :: t)) as D.
    assert (S2 : skipnN (index + lenN (take_while tok_char (ch :: t))) bs = drop_while tok_char (ch :: t)).
    { rewrite skipnN_add, S. exact D. }
    pose proof (after_ascii_run tok_char (ch :: t) tok_char_ascii (eq_trans (eq_sym (f_equal cont_ok S)) (cont_ok_skipnN bs index Hc))) as A.
    assert (Hne : take_while tok_char (ch :: t) <> []).
    { cbn [take_while]. rewrite (tok_first_char ch TF). congruence. }
    specialize (A Hne).
    destruct (drop_while tok_char (ch :: t)) as [| y r] eqn:DW.
    + apply char_boundary_end; [exact S2 |].
      pose proof (lenN_take_while_le N tok_char (ch :: t)) as Le. rewrite lenN_cons in Le. lia.
    + rewrite (char_boundary_head _ _ y r S2). rewrite A. reflexivity.
  - (* single byte *)
    assert (S2 : skipnN (index + 1) bs = t).
    { rewrite skipnN_add, S. rewrite skipnN_cons by lia. apply skipnN_0. }
    destruct t as [| b2 t'].
    + apply char_boundary_end; [exact S2 |]. rewrite lenN_nil in L. lia.
    + rewrite (char_boundary_head _ _ b2 t' S2).
      rewrite N.eqb_refl in K. cbn [andb] in K.
      destruct (N.leb_spec 128 ch) as [Hge | Hlt].
      * destruct (is_cont ch); [discriminate |]. cbn [negb andb] in K.
        rewrite N.eqb_refl, andb_true_r in K. rewrite K. reflexivity.
      * assert (Hc2 : cont_ok (ch :: b2 :: t') = true) by (rewrite <- S; apply cont_ok_skipnN; exact Hc).
        rewrite (cont_ok_pair ch b2 t' Hc2 Hlt). reflexivity.
Qed.

(* ---------- backward ---------- *)
Lemma rev_cons_split : forall (P : list N) sk x back',
  rev P = sk ++ x :: back' -> P = rev back' ++ x :: rev sk.
Proof.
  intros P sk x back' H. rewrite <- (rev_involutive P), H, rev_app_distr. cbn [rev].
  rewrite <- app_assoc. reflexivity.
Qed.

Lemma backward_boundaries : forall bs index x back',
  cont_ok bs = true -> index <= lenN bs -> char_boundary bs index = true ->
  drop_while skipped (rev (firstnN index bs)) = x :: back' ->
  (tok_char x = false -> lenN back' < index -> is_cont x = false) ->
  char_boundary bs (scan_token_start bs (lenN (x :: back') - 1)) = true
  /\ char_boundary bs (lenN (x :: back') - 1 + 1) = true.
Proof.
  intros bs index x back' Hc Hi Hb D Hx.
  set (P := firstnN index bs) in *. set (R := skipnN index bs).
  assert (HB : bs = P ++ R) by (symmetry; apply firstnN_skipnN).
  pose proof (take_drop_while N skipped (rev P)) as TD. rewrite D in TD.
  set (sk := take_while skipped (rev P)) in *.
  pose proof (rev_cons_split P sk x back' (eq_sym TD)) as HP.
  assert (Hsk : forall y, In y sk -> skipped y = true) by (intros y Hy; apply (take_while_all N skipped (rev P)); exact Hy).
  assert (LP : lenN P = N.min index (lenN bs)) by apply lenN_firstnN.
  assert (Hbs : bs = (rev back' ++ [x]) ++ rev sk ++ R).
  { rewrite HB at 1. rewrite HP. rewrite <- !app_assoc. reflexivity. }
  assert (Lpos : lenN (x :: back') - 1 = lenN (rev back')) by (rewrite lenN_cons, lenN_rev; lia).
  assert (Lend : lenN (x :: back') - 1 + 1 = lenN (rev back' ++ [x])).
  { rewrite lenN_app, lenN_rev, lenN_cons. change (lenN [x]) with 1. lia. }
  assert (LPlen : lenN P = lenN back' + 1 + lenN sk).
  { rewrite HP, lenN_app, lenN_rev, lenN_cons, lenN_rev. lia. }
  split.
  - (* start *)
    rewrite Lpos. unfold scan_token_start.
    assert (S1 : skipnN (lenN (rev back')) bs = x :: rev sk ++ R).
    { rewrite Hbs at 1. rewrite <- app_assoc. rewrite skipnN_app_len. reflexivity. }
    rewrite S1. destruct (tok_char x) eqn:TC.
    + assert (F1 : firstnN (lenN (rev back')) bs = rev back').
      { rewrite Hbs at 1. rewrite <- app_assoc. apply firstnN_app_len. }
      rewrite F1, rev_involutive.
      pose proof (take_drop_while N tok_char back') as TD2.
      set (tw := take_while tok_char back') in *. set (dw := drop_while tok_char back') in *.
      assert (Ha : lenN (rev back') - lenN tw = lenN (rev dw)).
      { rewrite !lenN_rev. rewrite <- TD2 at 1. rewrite lenN_app. lia. }
      rewrite Ha.
      assert (S2 : skipnN (lenN (rev dw)) bs = rev tw ++ x :: rev sk ++ R).
      { rewrite Hbs at 1. rewrite <- TD2 at 1. rewrite rev_app_distr. rewrite <- !app_assoc. rewrite skipnN_app_len. reflexivity. }
      destruct (rev tw) as [| z tz] eqn:RT.
      * cbn [app] in S2. rewrite (char_boundary_head _ _ _ _ S2). rewrite (ascii_not_cont x (tok_char_ascii x TC)). reflexivity.
      * cbn [app] in S2. rewrite (char_boundary_head _ _ _ _ S2).
        assert (In z tw) as Hz. { apply in_rev. rewrite RT. left. reflexivity. }
        rewrite (ascii_not_cont z (tok_char_ascii z (take_while_all N tok_char back' z Hz))). reflexivity.
    + rewrite (char_boundary_head _ _ _ _ S1). rewrite Hx; [reflexivity | reflexivity |]. rewrite lenN_rev in *. lia.
  - (* end *)
    rewrite Lend.
    assert (S3 : skipnN (lenN (rev back' ++ [x])) bs = rev sk ++ R).
    { rewrite Hbs at 1. apply skipnN_app_len. }
    destruct (rev sk) as [| y ty] eqn:RS.
    + (* nothing skipped: the end is pest's offset *)
      assert (sk = []) as Esk. { rewrite <- (rev_involutive sk), RS. reflexivity. }
      rewrite Esk, lenN_nil in LPlen.
      assert (lenN (rev back' ++ [x]) = index) as Eidx.
      { rewrite lenN_app, lenN_rev. change (lenN [x]) with 1. lia. }
      rewrite Eidx. exact Hb.
    + cbn [app] in S3. rewrite (char_boundary_head _ _ _ _ S3).
      assert (In y sk) as Hy. { apply in_rev. rewrite RS. left. reflexivity. }
      rewrite (ascii_not_cont y (skipped_ascii y (Hsk y Hy))). reflexivity.
Qed.

(* ---------- the theorem ---------- *)
(* on text in which no continuation byte follows an ASCII byte (all valid UTF-8), with pest's offset on a
   character boundary, the reported range is on character boundaries unless the case falls in one of the
   two classified defect classes *)
Theorem err_range_on_char_boundary_unless_kf : forall bs index,
  cont_ok bs = true -> index <= lenN bs -> char_boundary bs index = true ->
  kf_range_end_in_char bs index = false -> kf_range_start_in_char bs index = false ->
  char_boundary bs (fst (compute_error_range index bs)) = true
  /\ char_boundary bs (snd (compute_error_range index bs)) = true.
Proof.
  intros bs index Hc Hi Hb K1 K2.
  destruct (compute_error_range_cases index bs) as [(ch & t & S & Sk & Lt & E) | E].
  - rewrite E. cbn [fst snd]. split; [exact Hb |].
    apply (forward_end_boundary bs index ch t Hc Hi Hb S E K1).
  - rewrite E. unfold kf_range_start_in_char in K2. rewrite E in K2. unfold back_range in *.
    destruct (drop_while skipped (rev (firstnN index bs))) as [| x back'] eqn:D.
    + cbn [fst snd]. auto.
    + cbn [fst snd] in *. apply (backward_boundaries bs index x back' Hc Hi Hb D).
      intros TC Hlt.
      assert (Lpos : lenN (x :: back') - 1 = lenN back') by (rewrite lenN_cons; lia).
      (* scan_token_start returns pos itself when bytes[pos] is not a token byte *)
      pose proof (take_drop_while N skipped (rev (firstnN index bs))) as TD. rewrite D in TD.
      set (sk := take_while skipped (rev (firstnN index bs))) in *.
      pose proof (rev_cons_split _ sk x back' (eq_sym TD)) as HP.
      assert (S1 : skipnN (lenN back') bs = x :: rev sk ++ skipnN index bs).
      { rewrite <- (firstnN_skipnN N bs index) at 1. rewrite HP. rewrite <- app_assoc. cbn [app].
        rewrite <- (lenN_rev N back'). rewrite skipnN_app_len. reflexivity. }
      rewrite Lpos in K2. unfold scan_token_start in K2. rewrite S1, TC in K2.
      rewrite S1 in K2.
      destruct (N.ltb_spec (lenN back') index) as [_ | Hge]; [| lia].
      rewrite N.eqb_refl in K2. cbn [andb] in K2. exact K2.
Qed.

(* ---------- every valid UTF-8 text satisfies cont_ok ---------- *)
Lemma cont_ok_hi : forall x r, 128 <= x -> cont_ok r = true -> cont_ok (x :: r) = true.
Proof.
  intros x r Hx Hr. destruct r as [| y r']; [reflexivity |].
  change (cont_ok (x :: y :: r')) with ((negb (is_cont y) || (128 <=? x)) && cont_ok (y :: r')).
  rewrite Hr. destruct (is_cont y); cbn [negb orb andb]; lia.
Qed.
Lemma cont_ok_lo : forall x r, cont_ok r = true ->
  match r with y :: _ => is_cont y = false | [] => True end -> cont_ok (x :: r) = true.
Proof.
  intros x r Hr Hh. destruct r as [| y r']; [reflexivity |].
  change (cont_ok (x :: y :: r')) with ((negb (is_cont y) || (128 <=? x)) && cont_ok (y :: r')).
  rewrite Hr, Hh. reflexivity.
Qed.

Lemma utf8_valid_fuel_cont_ok : forall f bs, utf8_valid_fuel f bs = true ->
  cont_ok bs = true /\ match bs with b :: _ => is_cont b = false | [] => True end.
Proof.
  induction f as [| f IH]; intros bs H; [discriminate |].
  cbn [utf8_valid_fuel] in H. destruct bs as [| b0 r]; [split; [reflexivity | exact I] |].
  destruct (b0 <? 128) eqn:A.
  { destruct (IH r H) as [C Hd]. split; [apply cont_ok_lo; assumption | unfold is_cont; lia]. }
  destruct ((194 <=? b0) && (b0 <=? 223)) eqn:B2.
  { destruct r as [| b1 r']; [discriminate |]. apply andb_prop in H as [H1 H2].
    destruct (IH r' H2) as [C _]. unfold cont in H1. split; [| unfold is_cont; lia].
    apply cont_ok_hi; [lia |]. apply cont_ok_hi; [lia | exact C]. }
  destruct ((224 <=? b0) && (b0 <=? 239)) eqn:B3.
  { destruct r as [| b1 [| b2 r']]; try discriminate.
    apply andb_prop in H as [H12 H3]. apply andb_prop in H12 as [H1 H2].
    destruct (IH r' H3) as [C _]. unfold cont in *. split; [| unfold is_cont; lia].
    assert (128 <= b1) by (destruct (b0 =? 224); [lia | destruct (b0 =? 237); lia]).
    apply cont_ok_hi; [lia |]. apply cont_ok_hi; [lia |]. apply cont_ok_hi; [lia | exact C]. }
  destruct ((240 <=? b0) && (b0 <=? 244)) eqn:B4; [| discriminate].
  destruct r as [| b1 [| b2 [| b3 r']]]; try discriminate.
  apply andb_prop in H as [H123 H4]. apply andb_prop in H123 as [H12 H3]. apply andb_prop in H12 as [H1 H2].
  destruct (IH r' H4) as [C _]. unfold cont in *. split; [| unfold is_cont; lia].
  assert (128 <= b1) by (destruct (b0 =? 240); [lia | destruct (b0 =? 244); lia]).
  apply cont_ok_hi; [lia |]. apply cont_ok_hi; [lia |]. apply cont_ok_hi; [lia |]. apply cont_ok_hi; [lia | exact C].
Qed.

Lemma utf8_valid_cont_ok : forall bs, utf8_valid bs = true -> cont_ok bs = true.
Proof. intros bs H. apply (utf8_valid_fuel_cont_ok _ bs H). Qed.

(* THE PARTIAL THEOREM at its strongest: the full statement with exactly the two classified classes excluded *)
Theorem err_range_on_char_boundary_unless_classified : forall bs index,
  utf8_valid bs = true -> index <= lenN bs -> char_boundary bs index = true ->
  kf_range_end_in_char bs index = false -> kf_range_start_in_char bs index = false ->
  char_boundary bs (fst (compute_error_range index bs)) = true
  /\ char_boundary bs (snd (compute_error_range index bs)) = true.
Proof.
  intros bs index Hv. apply err_range_on_char_boundary_unless_kf. apply utf8_valid_cont_ok. exact Hv.
Qed.

(* non-vacuity: a backward case over CRLF and a multi-byte comment that is not in a defect class *)
Example unless_classified_example :
  let bs := [97; 32; 61; 32; 120; 32; 59; 32; 195; 169; 13; 10; 32; 47] in
  utf8_valid bs = true /\ char_boundary bs 14 = true
  /\ kf_range_end_in_char bs 14 = false /\ kf_range_start_in_char bs 14 = false
  /\ compute_error_range 14 bs = (13, 14).
Proof. vm_compute. auto. Qed.
