(* Generic lemmas for the character-boundary theorem of Pos/ErrRangeProofs.v.  The only facts about UTF-8 that
   are needed: a continuation byte never follows an ASCII byte (cont_ok) and a text does not begin with a
   continuation byte; every valid UTF-8 text satisfies both (utf8_valid_fuel_cont_ok). *)
From Coq Require Import ZifyBool ZifyNat ZifyN.
From Cddl Require Import Base.Bytes Base.Utf8 Pos.Span Pos.SpanProofs Pos.ErrRange.
Open Scope N_scope.
Arguments N.add : simpl never.
Arguments N.mul : simpl never.
Arguments N.sub : simpl never.
Arguments N.pred : simpl never.
Arguments N.eqb : simpl never.
Arguments N.leb : simpl never.
Arguments N.ltb : simpl never.

(* ---------- small facts ---------- *)
Lemma tok_char_ascii : forall b, tok_char b = true -> b < 128.
Proof. unfold tok_char, is_alnum. intros. lia. Qed.
Lemma tok_first_char : forall b, tok_first b = true -> tok_char b = true.
Proof. unfold tok_first, tok_char, is_alnum. intros. lia. Qed.
Lemma skipped_ascii : forall b, skipped b = true -> b < 128.
Proof. unfold skipped, is_ascii_ws. intros. lia. Qed.
Lemma ascii_not_cont : forall b, b < 128 -> is_cont b = false.
Proof. unfold is_cont. intros. lia. Qed.

Lemma take_drop_while : forall A (p : A -> bool) l, take_while p l ++ drop_while p l = l.
Proof.
  induction l as [| x l IH]; [reflexivity |]. cbn [take_while drop_while].
  destruct (p x); [cbn [app]; rewrite IH; reflexivity | reflexivity].
Qed.
Lemma take_while_all : forall A (p : A -> bool) l x, In x (take_while p l) -> p x = true.
Proof.
  induction l as [| y l IH]; intros x H; [destruct H |]. cbn [take_while] in H.
  destruct (p y) eqn:E; [| destruct H]. destruct H as [<- | H]; auto.
Qed.

Lemma skipnN_add : forall A (l : list A) i j, skipnN (i + j) l = skipnN j (skipnN i l).
Proof.
  induction l as [| x l IH]; intros i j.
  - cbn [skipnN]. destruct j; reflexivity.
  - destruct (N.eqb_spec i 0) as [E | E].
    + subst. rewrite skipnN_0. reflexivity.
    + rewrite !skipnN_cons by lia. replace (i + j - 1) with (i - 1 + j) by lia. apply IH.
Qed.

Lemma skipnN_take_while : forall A (p : A -> bool) l, skipnN (lenN (take_while p l)) l = drop_while p l.
Proof.
  intros. rewrite <- (take_drop_while A p l) at 2. apply skipnN_app_len.
Qed.

Lemma cont_ok_app_r : forall a b, cont_ok (a ++ b) = true -> cont_ok b = true.
Proof.
  induction a as [| x a IH]; intros b H; [exact H |]. cbn [app cont_ok] in H.
  destruct (a ++ b) as [| y t] eqn:E.
  - destruct a; cbn [app] in E; [subst b; reflexivity | discriminate].
  - apply andb_prop in H as [_ H]. apply IH. rewrite E. exact H.
Qed.
Lemma cont_ok_skipnN : forall bs i, cont_ok bs = true -> cont_ok (skipnN i bs) = true.
Proof. intros bs i H. apply (cont_ok_app_r (firstnN i bs)). rewrite firstnN_skipnN. exact H. Qed.
Lemma cont_ok_pair : forall x y r, cont_ok (x :: y :: r) = true -> x < 128 -> is_cont y = false.
Proof. intros x y r H Hx. cbn [cont_ok] in H. apply andb_prop in H as [H _]. destruct (is_cont y); cbn in *; lia. Qed.
Lemma cont_ok_tail : forall x r, cont_ok (x :: r) = true -> cont_ok r = true.
Proof. intros x r H. apply (cont_ok_app_r [x]). exact H. Qed.

(* after a non-empty run of ASCII bytes the next byte is not a continuation byte *)
Lemma after_ascii_run : forall (p : N -> bool) l, (forall x, p x = true -> x < 128) -> cont_ok l = true ->
  take_while p l <> [] ->
  match drop_while p l with [] => True | y :: _ => is_cont y = false end.
Proof.
  intros p l Hp. induction l as [| x r IH]; intros Hc Hne; [cbn in Hne; congruence |].
  cbn [take_while drop_while] in *. destruct (p x) eqn:Px; [| congruence].
  destruct r as [| y r'].
  - cbn. exact I.
  - cbn [take_while drop_while] in *. destruct (p y) eqn:Py.
    + apply IH; [apply (cont_ok_tail x); exact Hc | congruence].
    + apply (cont_ok_pair x y r' Hc). apply Hp. exact Px.
Qed.

Lemma char_boundary_head : forall bs i y t, skipnN i bs = y :: t -> char_boundary bs i = negb (is_cont y).
Proof. intros bs i y t H. unfold char_boundary. rewrite H. reflexivity. Qed.
Lemma char_boundary_end : forall bs i, skipnN i bs = [] -> i <= lenN bs -> char_boundary bs i = true.
Proof.
  intros bs i H Hi. unfold char_boundary. rewrite H. apply skipnN_nil_iff in H. apply N.eqb_eq. lia.
Qed.

(* ---------- reversed prefixes ---------- *)
Lemma rev_cons_split : forall (P : list N) sk x back',
  rev P = sk ++ x :: back' -> P = rev back' ++ x :: rev sk.
Proof.
  intros P sk x back' H. rewrite <- (rev_involutive P), H, rev_app_distr. cbn [rev].
  rewrite <- app_assoc. reflexivity.
Qed.

(* ---------- every valid UTF-8 text satisfies cont_ok ---------- *)
Lemma cont_ok_hi : forall x r, 128 <= x -> cont_ok r = true -> cont_ok (x :: r) = true.
Proof.
  intros x r Hx Hr. destruct r as [| y r']; [reflexivity |].
  change (cont_ok (x :: y :: r')) with ((negb (is_cont y) || (128 <=? x)) && cont_ok (y :: r')).
  rewrite Hr. destruct (is_cont y); cbn [negb orb andb]; lia.
Qed.
Lemma cont_ok_lo : forall x r, cont_ok r = true ->
  match r with y :: _ => is_cont y = false | [] => True end -> cont_ok (x :: r) = true.
Proof.
  intros x r Hr Hh. destruct r as [| y r']; [reflexivity |].
  change (cont_ok (x :: y :: r')) with ((negb (is_cont y) || (128 <=? x)) && cont_ok (y :: r')).
  rewrite Hr, Hh. reflexivity.
Qed.

Lemma utf8_valid_fuel_cont_ok : forall f bs, utf8_valid_fuel f bs = true ->
  cont_ok bs = true /\ match bs with b :: _ => is_cont b = false | [] => True end.
Proof.
  induction f as [| f IH]; intros bs H; [discriminate |].
  cbn [utf8_valid_fuel] in H. destruct bs as [| b0 r]; [split; [reflexivity | exact I] |].
  destruct (b0 <? 128) eqn:A.
  { destruct (IH r H) as [C Hd]. split; [apply cont_ok_lo; assumption | unfold is_cont; lia]. }
  destruct ((194 <=? b0) && (b0 <=? 223)) eqn:B2.
  { destruct r as [| b1 r']; [discriminate |]. apply andb_prop in H as [H1 H2].
    destruct (IH r' H2) as [C _]. unfold cont in H1. split; [| unfold is_cont; lia].
    apply cont_ok_hi; [lia |]. apply cont_ok_hi; [lia | exact C]. }
  destruct ((224 <=? b0) && (b0 <=? 239)) eqn:B3.
  { destruct r as [| b1 [| b2 r']]; try discriminate.
    apply andb_prop in H as [H12 H3]. apply andb_prop in H12 as [H1 H2].
    destruct (IH r' H3) as [C _]. unfold cont in *. split; [| unfold is_cont; lia].
    assert (128 <= b1) by (destruct (b0 =? 224); [lia | destruct (b0 =? 237); lia]).
    apply cont_ok_hi; [lia |]. apply cont_ok_hi; [lia |]. apply cont_ok_hi; [lia | exact C]. }
  destruct ((240 <=? b0) && (b0 <=? 244)) eqn:B4; [| discriminate].
  destruct r as [| b1 [| b2 [| b3 r']]]; try discriminate.
  apply andb_prop in H as [H123 H4]. apply andb_prop in H123 as [H12 H3]. apply andb_prop in H12 as [H1 H2].
  destruct (IH r' H4) as [C _]. unfold cont in *. split; [| unfold is_cont; lia].
  assert (128 <= b1) by (destruct (b0 =? 240); [lia | destruct (b0 =? 244); lia]).
  apply cont_ok_hi; [lia |]. apply cont_ok_hi; [lia |]. apply cont_ok_hi; [lia |]. apply cont_ok_hi; [lia | exact C].
Qed.

Lemma utf8_valid_cont_ok : forall bs, utf8_valid bs = true -> cont_ok bs = true.
Proof. intros bs H. apply (utf8_valid_fuel_cont_ok _ bs H). Qed.


Lemma drop_while_head : forall A (p : A -> bool) l x r, drop_while p l = x :: r -> p x = false.
Proof.
  induction l as [| y l IH]; intros x r H; [discriminate |]. cbn [drop_while] in H.
  destruct (p y) eqn:E; [apply (IH x r H) |]. injection H as <- _. exact E.
Qed.
Lemma lenN_take_while_le : forall A (p : A -> bool) l, lenN (take_while p l) <= lenN l.
Proof.
  induction l as [| x l IH]; [cbn; lia |]. cbn [take_while]. destruct (p x).
  - rewrite !lenN_cons. lia.
  - rewrite lenN_nil, lenN_cons. lia.
Qed.
Lemma lenN_drop_while_le : forall A (p : A -> bool) l, lenN (drop_while p l) <= lenN l.
Proof.
  induction l as [| x l IH]; [cbn; lia |]. cbn [drop_while]. destruct (p x).
  - rewrite lenN_cons. lia.
  - lia.
Qed.
