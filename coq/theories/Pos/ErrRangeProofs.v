(* Proofs about the error-position model Pos/ErrRange.v: bounds, order, line/column of the index, and the
   full character-boundary statement. *)
From Coq Require Import ZifyBool ZifyNat ZifyN.
From Cddl Require Import Base.Bytes Base.Utf8 Pos.Span Pos.SpanProofs Pos.ErrRange Pos.BoundaryProofs.
Open Scope N_scope.
Arguments N.add : simpl never.
Arguments N.mul : simpl never.
Arguments N.sub : simpl never.
Arguments N.pred : simpl never.
Arguments N.eqb : simpl never.
Arguments N.leb : simpl never.
Arguments N.ltb : simpl never.

Definition back_range (index : N) (bs : list N) : N * N :=
  match drop_while skipped (rev (firstnN index bs)) with
  | [] => (index, index)
  | (_ :: _) as back => (scan_token_start bs (lenN back - 1), lenN back - 1 + 1)
  end.

Lemma compute_error_range_cases : forall index bs,
  (exists ch t, skipnN index bs = ch :: t /\ skipped ch = false
      /\ index < scan_token_end bs index
      /\ compute_error_range index bs = (index, scan_token_end bs index))
  \/ compute_error_range index bs = back_range index bs.
Proof.
  intros index bs. unfold compute_error_range. fold (back_range index bs).
  destruct (skipnN index bs) as [| ch t] eqn:S; [right; reflexivity |].
  destruct (skipped ch) eqn:K; cbn [negb]; [right; reflexivity |].
  destruct (N.ltb_spec index (scan_token_end bs index)) as [Lt | Ge]; [| right; reflexivity].
  left. exists ch, t. auto.
Qed.

Lemma scan_token_start_le : forall bs pos, scan_token_start bs pos <= pos.
Proof.
  intros. unfold scan_token_start. destruct (skipnN pos bs) as [| ch t]; [lia |].
  destruct (tok_char ch); [lia |]. destruct (is_cont ch); [| lia].
  destruct (lenN (take_while is_cont (rev (firstnN pos bs))) <? pos); lia.
Qed.

Lemma scan_token_end_le_len : forall bs index, scan_token_end bs index <= N.max index (lenN bs).
Proof.
  intros bs index. unfold scan_token_end. pose proof (lenN_skipnN N bs index) as L.
  destruct (skipnN index bs) as [| first t] eqn:S; [lia |].
  destruct (tok_first first).
  - pose proof (lenN_take_while_le N tok_char (first :: t)) as H. rewrite lenN_cons in H, L. lia.
  - pose proof (lenN_take_while_le N is_cont t) as H. rewrite lenN_cons in L. lia.
Qed.

Lemma back_range_facts : forall index bs,
  fst (back_range index bs) <= snd (back_range index bs)
  /\ fst (back_range index bs) <= index
  /\ snd (back_range index bs) <= index.
Proof.
  intros index bs. unfold back_range.
  pose proof (lenN_drop_while_le N skipped (rev (firstnN index bs))) as L.
  rewrite lenN_rev in L. pose proof (lenN_firstnN_le N bs index) as L2.
  destruct (drop_while skipped (rev (firstnN index bs))) as [| x back]; cbn [fst snd].
  - lia.
  - rewrite lenN_cons in *. pose proof (scan_token_start_le bs (lenN back + 1 - 1)). lia.
Qed.

(* bounds and order are kept *)
Theorem err_range_in_bounds : forall bs index, index <= lenN bs ->
  fst (compute_error_range index bs) <= snd (compute_error_range index bs)
  /\ snd (compute_error_range index bs) <= lenN bs
  /\ fst (compute_error_range index bs) <= index.
Proof.
  intros bs index Hi.
  destruct (compute_error_range_cases index bs) as [(ch & t & S & K & Lt & E) | E]; rewrite E.
  - cbn [fst snd]. pose proof (scan_token_end_le_len bs index). lia.
  - pose proof (back_range_facts index bs). lia.
Qed.

(* the range is never inverted and starts at or before pest's failure offset (no precondition) *)
Theorem err_range_non_inverted : forall bs index,
  fst (compute_error_range index bs) <= snd (compute_error_range index bs)
  /\ fst (compute_error_range index bs) <= index.
Proof.
  intros bs index.
  destruct (compute_error_range_cases index bs) as [(ch & t & S & K & Lt & E) | E]; rewrite E.
  - cbn [fst snd]. lia.
  - pose proof (back_range_facts index bs). lia.
Qed.

Theorem err_linecol_of_index : forall bs index,
  let p := convert_pest_error bs index in
  p_range p = compute_error_range index bs
  /\ p_index p = fst (p_range p)
  /\ p_line p = 1 + count_nl (firstnN (p_index p) bs)
  /\ p_column p = 1 + nchars (line_tail (firstnN (p_index p) bs)).
Proof.
  intros bs index. unfold convert_pest_error. cbn [p_range p_index p_line p_column].
  split; [reflexivity |]. split; [reflexivity |].
  pose proof (err_range_non_inverted bs index) as (_ & Hle).
  destruct (N.ltb_spec (fst (compute_error_range index bs)) index) as [Lt | Ge].
  - rewrite linecol_loop_spec. cbn [fst snd]. split; lia.
  - assert (E : fst (compute_error_range index bs) = index) by lia. rewrite E.
    rewrite pest_line_col_spec. cbn [fst snd]. split; reflexivity.
Qed.

(* ---------- forward ---------- *)
Lemma forward_end_boundary : forall bs index ch t,
  cont_ok bs = true -> index <= lenN bs -> skipnN index bs = ch :: t ->
  char_boundary bs (scan_token_end bs index) = true.
Proof.
  intros bs index ch t Hc Hi S.
  pose proof (lenN_skipnN N bs index) as L. rewrite S, lenN_cons in L.
  unfold scan_token_end. rewrite S. destruct (tok_first ch) eqn:TF.
  - pose proof (skipnN_take_while N tok_char (ch :: t)) as D.
    assert (S2 : skipnN (index + lenN (take_while tok_char (ch :: t))) bs = drop_while tok_char (ch :: t)).
    { rewrite skipnN_add, S. exact D. }
    pose proof (after_ascii_run tok_char (ch :: t) tok_char_ascii (eq_trans (eq_sym (f_equal cont_ok S)) (cont_ok_skipnN bs index Hc))) as A.
    assert (Hne : take_while tok_char (ch :: t) <> []).
    { cbn [take_while]. rewrite (tok_first_char ch TF). congruence. }
    specialize (A Hne).
    destruct (drop_while tok_char (ch :: t)) as [| y r] eqn:DW.
    + apply char_boundary_end; [exact S2 |].
      pose proof (lenN_take_while_le N tok_char (ch :: t)) as Le. rewrite lenN_cons in Le. lia.
    + rewrite (char_boundary_head _ _ y r S2). rewrite A. reflexivity.
  - assert (S2 : skipnN (index + 1 + lenN (take_while is_cont t)) bs = drop_while is_cont t).
    { rewrite <- N.add_assoc, skipnN_add, S. rewrite skipnN_add. rewrite skipnN_cons by lia. rewrite skipnN_0.
      apply skipnN_take_while. }
    destruct (drop_while is_cont t) as [| y r] eqn:DW.
    + apply char_boundary_end; [exact S2 |].
      pose proof (lenN_take_while_le N is_cont t) as Le. lia.
    + rewrite (char_boundary_head _ _ y r S2). rewrite (drop_while_head N is_cont t y r DW). reflexivity.
Qed.

(* ---------- backward ---------- *)
Lemma backward_boundaries : forall bs index x back',
  cont_ok bs = true -> match bs with b :: _ => is_cont b = false | [] => True end ->
  index <= lenN bs -> char_boundary bs index = true ->
  drop_while skipped (rev (firstnN index bs)) = x :: back' ->
  char_boundary bs (scan_token_start bs (lenN (x :: back') - 1)) = true
  /\ char_boundary bs (lenN (x :: back') - 1 + 1) = true.
Proof.
  intros bs index x back' Hc Hhead Hi Hb D.
  set (P := firstnN index bs) in *. set (R := skipnN index bs).
  assert (HB : bs = P ++ R) by (symmetry; apply firstnN_skipnN).
  pose proof (take_drop_while N skipped (rev P)) as TD. rewrite D in TD.
  set (sk := take_while skipped (rev P)) in *.
  pose proof (rev_cons_split P sk x back' (eq_sym TD)) as HP.
  assert (Hsk : forall y, In y sk -> skipped y = true) by (intros y Hy; apply (take_while_all N skipped (rev P)); exact Hy).
  assert (LP : lenN P = N.min index (lenN bs)) by apply lenN_firstnN.
  assert (Hbs : bs = (rev back' ++ [x]) ++ rev sk ++ R).
  { rewrite HB at 1. rewrite HP. rewrite <- !app_assoc. reflexivity. }
  assert (Lpos : lenN (x :: back') - 1 = lenN (rev back')) by (rewrite lenN_cons, lenN_rev; lia).
  assert (Lend : lenN (x :: back') - 1 + 1 = lenN (rev back' ++ [x])).
  { rewrite lenN_app, lenN_rev, lenN_cons. change (lenN [x]) with 1. lia. }
  assert (LPlen : lenN P = lenN back' + 1 + lenN sk).
  { rewrite HP, lenN_app, lenN_rev, lenN_cons, lenN_rev. lia. }
  split.
  - rewrite Lpos. unfold scan_token_start.
    assert (S1 : skipnN (lenN (rev back')) bs = x :: rev sk ++ R).
    { rewrite Hbs at 1. rewrite <- app_assoc. rewrite skipnN_app_len. reflexivity. }
    assert (F1 : firstnN (lenN (rev back')) bs = rev back').
    { rewrite Hbs at 1. rewrite <- app_assoc. apply firstnN_app_len. }
    rewrite S1, F1, rev_involutive. destruct (tok_char x) eqn:TC.
    + pose proof (take_drop_while N tok_char back') as TD2.
      set (tw := take_while tok_char back') in *. set (dw := drop_while tok_char back') in *.
      assert (Ha : lenN (rev back') - lenN tw = lenN (rev dw)).
      { rewrite !lenN_rev. rewrite <- TD2 at 1. rewrite lenN_app. lia. }
      rewrite Ha.
      assert (S2 : skipnN (lenN (rev dw)) bs = rev tw ++ x :: rev sk ++ R).
      { rewrite Hbs at 1. rewrite <- TD2 at 1. rewrite rev_app_distr. rewrite <- !app_assoc. rewrite skipnN_app_len. reflexivity. }
      destruct (rev tw) as [| z tz] eqn:RT.
      * cbn [app] in S2. rewrite (char_boundary_head _ _ _ _ S2). rewrite (ascii_not_cont x (tok_char_ascii x TC)). reflexivity.
      * cbn [app] in S2. rewrite (char_boundary_head _ _ _ _ S2).
        assert (In z tw) as Hz. { apply in_rev. rewrite RT. left. reflexivity. }
        rewrite (ascii_not_cont z (tok_char_ascii z (take_while_all N tok_char back' z Hz))). reflexivity.
    + destruct (is_cont x) eqn:CX.
      * (* back up over the continuation bytes *)
        pose proof (take_drop_while N is_cont back') as TD2.
        set (tw := take_while is_cont back') in *.
        destruct (N.ltb_spec (lenN tw) (lenN (rev back'))) as [Hk | Hk].
        -- destruct (drop_while is_cont back') as [| z dw'] eqn:DW.
           { rewrite app_nil_r in TD2. rewrite lenN_rev in Hk. rewrite <- TD2 in Hk. lia. }
           assert (Ha : lenN (rev back') - (lenN tw + 1) = lenN (rev dw')).
           { rewrite !lenN_rev. rewrite <- TD2 at 1. rewrite lenN_app, lenN_cons. lia. }
           rewrite Ha.
           assert (S2 : skipnN (lenN (rev dw')) bs = z :: rev tw ++ x :: rev sk ++ R).
           { rewrite Hbs at 1. rewrite <- TD2 at 1. rewrite rev_app_distr. cbn [rev]. rewrite <- !app_assoc.
             rewrite skipnN_app_len. reflexivity. }
           rewrite (char_boundary_head _ _ _ _ S2). rewrite (drop_while_head N is_cont back' z dw' DW). reflexivity.
        -- (* everything before is a continuation byte: start of the text *)
           unfold char_boundary. rewrite skipnN_0. destruct bs as [| b0 r0].
           ++ reflexivity.
           ++ rewrite Hhead. reflexivity.
      * rewrite (char_boundary_head _ _ _ _ S1). rewrite CX. reflexivity.
  - rewrite Lend.
    assert (S3 : skipnN (lenN (rev back' ++ [x])) bs = rev sk ++ R).
    { rewrite Hbs at 1. apply skipnN_app_len. }
    destruct (rev sk) as [| y ty] eqn:RS.
    + assert (sk = []) as Esk. { rewrite <- (rev_involutive sk), RS. reflexivity. }
      rewrite Esk, lenN_nil in LPlen.
      assert (lenN (rev back' ++ [x]) = index) as Eidx.
      { rewrite lenN_app, lenN_rev. change (lenN [x]) with 1. lia. }
      rewrite Eidx. exact Hb.
    + cbn [app] in S3. rewrite (char_boundary_head _ _ _ _ S3).
      assert (In y sk) as Hy. { apply in_rev. rewrite RS. left. reflexivity. }
      rewrite (ascii_not_cont y (skipped_ascii y (Hsk y Hy))). reflexivity.
Qed.

(* THE FULL STATEMENT holds of the repaired functions *)
Theorem err_range_on_char_boundary : forall bs index,
  utf8_valid bs = true -> index <= lenN bs -> char_boundary bs index = true ->
  char_boundary bs (fst (compute_error_range index bs)) = true
  /\ char_boundary bs (snd (compute_error_range index bs)) = true.
Proof.
  intros bs index Hv Hi Hb. destruct (utf8_valid_fuel_cont_ok _ bs Hv) as [Hc Hhead].
  destruct (compute_error_range_cases index bs) as [(ch & t & S & Sk & Lt & E) | E]; rewrite E.
  - cbn [fst snd]. split; [exact Hb |]. apply (forward_end_boundary bs index ch t Hc Hi S).
  - unfold back_range. destruct (drop_while skipped (rev (firstnN index bs))) as [| x back'] eqn:D.
    + cbn [fst snd]. auto.
    + cbn [fst snd]. apply (backward_boundaries bs index x back' Hc Hhead Hi Hb D).
Qed.

(* on the witnesses the repaired functions give whole characters *)
Example err_examples :
  compute_error_range 4 [97; 32; 61; 32; 195; 169] = (4, 6)
  /\ compute_error_range 9 [97; 32; 61; 32; 59; 32; 195; 169; 10] = (6, 8)
  /\ convert_pest_error [97; 32; 61; 32; 59; 32; 195; 169; 10] 9 = mkPos 1 7 (6, 8) 6.
Proof. vm_compute. auto. Qed.
