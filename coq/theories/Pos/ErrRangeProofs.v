(* Proofs about the error-position model Pos/ErrRange.v. *)
From Coq Require Import ZifyBool ZifyNat ZifyN.
From Cddl Require Import Base.Bytes Base.Utf8 Pos.Span Pos.SpanProofs Pos.ErrRange.
Open Scope N_scope.
Ltac Zify.zify_post_hook ::= Z.div_mod_to_equations.
Arguments N.add : simpl never.
Arguments N.mul : simpl never.
Arguments N.sub : simpl never.
Arguments N.pred : simpl never.
Arguments N.eqb : simpl never.
Arguments N.leb : simpl never.
Arguments N.ltb : simpl never.

Lemma lenN_take_while_le : forall A (p : A -> bool) l, lenN (take_while p l) <= lenN l.
Proof.
  induction l as [| x l IH]; [cbn; lia |]. cbn [take_while]. destruct (p x).
  - rewrite !lenN_cons. lia.
  - rewrite lenN_nil, lenN_cons. lia.
Qed.
Lemma lenN_drop_while_le : forall A (p : A -> bool) l, lenN (drop_while p l) <= lenN l.
Proof.
  induction l as [| x l IH]; [cbn; lia |]. cbn [drop_while]. destruct (p x).
  - rewrite lenN_cons. lia.
  - lia.
Qed.

Lemma scan_token_start_le : forall bs pos, scan_token_start bs pos <= pos.
Proof.
  intros. unfold scan_token_start. destruct (skipnN pos bs) as [| ch t]; [lia |].
  destruct (tok_char ch); lia.
Qed.

(* the backward branch on its own *)
Definition back_range (index : N) (bs : list N) : N * N :=
  match drop_while skipped (rev (firstnN index bs)) with
  | [] => (index, index)
  | (_ :: _) as back => (scan_token_start bs (lenN back - 1), lenN back - 1 + 1)
  end.

Lemma back_range_facts : forall index bs,
  fst (back_range index bs) <= snd (back_range index bs)
  /\ fst (back_range index bs) <= index
  /\ snd (back_range index bs) <= index
  /\ (fst (back_range index bs) < index -> snd (back_range index bs) = fst (back_range index bs) + 1
        \/ snd (back_range index bs) <= lenN bs).
Proof.
  intros index bs. unfold back_range.
  pose proof (lenN_drop_while_le N skipped (rev (firstnN index bs))) as L.
  rewrite lenN_rev in L. pose proof (lenN_firstnN_le N bs index) as L2.
  pose proof (lenN_firstnN N bs index) as L3.
  destruct (drop_while skipped (rev (firstnN index bs))) as [| x back]; cbn [fst snd].
  - lia.
  - rewrite lenN_cons in *. pose proof (scan_token_start_le bs (lenN back + 1 - 1)). lia.
Qed.

Lemma back_range_end_le_len : forall index bs, index <= lenN bs -> snd (back_range index bs) <= lenN bs.
Proof. intros index bs H. pose proof (back_range_facts index bs). lia. Qed.

Lemma compute_error_range_cases : forall index bs,
  (exists ch t, skipnN index bs = ch :: t /\ skipped ch = false
      /\ index < scan_token_end bs index
      /\ compute_error_range index bs = (index, scan_token_end bs index))
  \/ compute_error_range index bs = back_range index bs.
Proof.
  intros index bs. unfold compute_error_range. fold (back_range index bs).
  destruct (skipnN index bs) as [| ch t] eqn:S; [right; reflexivity |].
  destruct (skipped ch) eqn:K; cbn [negb]; [right; reflexivity |].
  destruct (N.ltb_spec index (scan_token_end bs index)) as [Lt | Ge]; [| right; reflexivity].
  left. exists ch, t. auto.
Qed.

Lemma scan_token_end_le_len : forall bs index, scan_token_end bs index <= N.max index (lenN bs).
Proof.
  intros bs index. unfold scan_token_end. pose proof (lenN_skipnN N bs index) as L.
  destruct (skipnN index bs) as [| first t] eqn:S; [lia |].
  destruct (tok_first first).
  - pose proof (lenN_take_while_le N tok_char (first :: t)) as H. rewrite lenN_cons in H, L. lia.
  - rewrite lenN_cons in L. lia.
Qed.

(* ---------- theorems ---------- *)
(* the range is never inverted and starts at or before pest's failure offset (no precondition) *)
Theorem err_range_non_inverted : forall bs index,
  fst (compute_error_range index bs) <= snd (compute_error_range index bs)
  /\ fst (compute_error_range index bs) <= index.
Proof.
  intros bs index. destruct (compute_error_range_cases index bs) as [(ch & t & S & K & Lt & E) | E]; rewrite E.
  - cbn [fst snd]. lia.
  - pose proof (back_range_facts index bs). lia.
Qed.

(* a <= b <= |s| whenever pest's offset lies in the input *)
Theorem err_range_in_bounds : forall bs index, index <= lenN bs ->
  fst (compute_error_range index bs) <= snd (compute_error_range index bs)
  /\ snd (compute_error_range index bs) <= lenN bs.
Proof.
  intros bs index Hi. split; [apply err_range_non_inverted |].
  destruct (compute_error_range_cases index bs) as [(ch & t & S & K & Lt & E) | E]; rewrite E.
  - cbn [snd]. pose proof (scan_token_end_le_len bs index). lia.
  - apply back_range_end_le_len. exact Hi.
Qed.

(* the reported index is the start of the range, and the reported line / column are those of that index:
   1 + line feeds before it, 1 + characters since the last line feed (whether they were re-counted by the
   bridge or taken from pest, CRLF included) *)
Theorem err_linecol_of_index : forall bs index,
  let p := convert_pest_error bs index in
  p_range p = compute_error_range index bs
  /\ p_index p = fst (p_range p)
  /\ p_line p = 1 + count_nl (firstnN (p_index p) bs)
  /\ p_column p = 1 + nchars (line_tail (firstnN (p_index p) bs)).
Proof.
  intros bs index. unfold convert_pest_error. cbn [p_range p_index p_line p_column].
  split; [reflexivity |]. split; [reflexivity |].
  pose proof (err_range_non_inverted bs index) as [_ Hle].
  destruct (N.ltb_spec (fst (compute_error_range index bs)) index) as [Lt | Ge].
  - rewrite linecol_loop_spec. cbn [fst snd]. split; lia.
  - assert (E : fst (compute_error_range index bs) = index) by lia. rewrite E.
    rewrite pest_line_col_spec. cbn [fst snd]. split; reflexivity.
Qed.

(* ---------- character boundaries ---------- *)
(* FULL STATEMENT (false of the code, see err_range_on_char_boundary_refuted):
     forall bs index, utf8_valid bs = true -> index <= lenN bs -> char_boundary bs index = true ->
       char_boundary bs (fst (compute_error_range index bs)) = true
       /\ char_boundary bs (snd (compute_error_range index bs)) = true.                               *)

Lemma ascii_all_boundaries : forall bs i, all_ascii bs = true -> i <= lenN bs -> char_boundary bs i = true.
Proof.
  intros bs i A Hi. unfold char_boundary. destruct (skipnN i bs) as [| b t] eqn:S.
  - apply skipnN_nil_iff in S. apply N.eqb_eq. lia.
  - unfold all_ascii in A. rewrite forallb_forall in A.
    assert (In b bs) as Hin.
    { rewrite <- (firstnN_skipnN N bs i), S. apply in_or_app. right. left. reflexivity. }
    specialize (A b Hin). unfold is_cont. lia.
Qed.

(* proved for ASCII-only documents *)
Theorem err_range_on_char_boundary_partial : forall bs index,
  all_ascii bs = true -> index <= lenN bs ->
  char_boundary bs (fst (compute_error_range index bs)) = true
  /\ char_boundary bs (snd (compute_error_range index bs)) = true.
Proof.
  intros bs index A Hi. pose proof (err_range_in_bounds bs index Hi) as [H1 H2].
  split; apply ascii_all_boundaries; auto; lia.
Qed.

(* `a = é` (61 20 3d 20 c3 a9), pest fails at offset 4: range (4,5) ends inside the two-byte character;
   `a = ; é\n`, pest fails at offset 9 (end of input): range (7,8) and index 7 start inside it *)
Theorem err_range_on_char_boundary_refuted :
  (exists bs index, utf8_valid bs = true /\ index <= lenN bs /\ char_boundary bs index = true
     /\ kf_range_end_in_char bs index = true
     /\ char_boundary bs (snd (compute_error_range index bs)) = false)
  /\ (exists bs index, utf8_valid bs = true /\ index <= lenN bs /\ char_boundary bs index = true
     /\ kf_range_start_in_char bs index = true
     /\ char_boundary bs (fst (compute_error_range index bs)) = false
     /\ char_boundary bs (p_index (convert_pest_error bs index)) = false).
Proof.
  split.
  - exists [97; 32; 61; 32; 195; 169], 4. vm_compute. repeat split; congruence.
  - exists [97; 32; 61; 32; 59; 32; 195; 169; 10], 9. vm_compute. repeat split; congruence.
Qed.

Example err_example_forward :
  convert_pest_error [97; 32; 61; 32; 116; 115; 116; 114; 32; 46; 102; 111; 111; 32; 51] 10
  = mkPos 1 11 (10, 13) 10.
Proof. vm_compute. reflexivity. Qed.
(* "a = [\r\n  1,\r\n" : pest fails at the end of the input; the range moves back to the comma on line 2 *)
Example err_example_backward :
  convert_pest_error [97; 32; 61; 32; 91; 13; 10; 32; 32; 49; 44; 13; 10] 13 = mkPos 2 4 (10, 11) 10.
Proof. vm_compute. reflexivity. Qed.
