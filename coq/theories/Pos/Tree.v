(* Pair trees as pest builds them: the parser state holds a flat queue of Start(pos) / End(pos) tokens
   (pest::iterators::QueueableToken); a successful grammar rule pushes Start at its entry position and End at
   its exit position around whatever its body pushed; the pair tree is read off the bracket structure.
   This file defines the event stream, its reading as a forest of spans, the well-formedness of a span
   forest (nesting, sibling order without overlap, bounds) and a small recursive-descent matcher that
   produces such streams.  Self-contained; no proofs in this file. *)
From Cddl Require Import Base.Bytes.
Open Scope N_scope.

Inductive event := EStart (p : N) | EEnd (p : N).
Definition ev_pos (e : event) : N := match e with EStart p => p | EEnd p => p end.

Inductive tree := Node (s e : N) (kids : list tree).
Definition tree_start (t : tree) : N := match t with Node s _ _ => s end.
Definition tree_end (t : tree) : N := match t with Node _ e _ => e end.

(* ---------- reading a queue as a forest ---------- *)
(* parse trees until the first End (or the end of the queue); every recursive call is on a shorter queue *)
Fixpoint parse_forest (fuel : nat) (evs : list event) : option (list tree * list event) :=
  match fuel with
  | O => None
  | S f =>
    match evs with
    | EStart s :: r =>
      match parse_forest f r with
      | Some (kids, EEnd e :: r') =>
        match parse_forest f r' with
        | Some (sibs, rest) => Some (Node s e kids :: sibs, rest)
        | None => None
        end
      | _ => None
      end
    | _ => Some ([], evs)
    end
  end.
Definition tree_of_events (evs : list event) : option (list tree) :=
  match parse_forest (S (length evs)) evs with
  | Some (ts, []) => Some ts
  | _ => None
  end.

(* the queue a forest came from *)
Fixpoint flatten (t : tree) : list event :=
  match t with
  | Node s e kids => EStart s :: (fix fl (l : list tree) : list event :=
                                   match l with [] => [] | k :: r => flatten k ++ fl r end) kids ++ [EEnd e]
  end.
Fixpoint flatten_forest (l : list tree) : list event :=
  match l with [] => [] | k :: r => flatten k ++ flatten_forest r end.

(* ---------- what the parser guarantees about a queue ---------- *)
(* positions never decrease along the queue, starting at lo *)
Fixpoint nondecr (lo : N) (evs : list event) : bool :=
  match evs with
  | [] => true
  | e :: r => (lo <=? ev_pos e) && nondecr (ev_pos e) r
  end.
Definition bounded (hi : N) (evs : list event) : bool := forallb (fun e => ev_pos e <=? hi) evs.

(* ---------- well-formed span forests ---------- *)
(* tree_wf lo hi t: t = [s,e) with lo <= s <= e <= hi, its children form a well-formed forest inside [s,e];
   forest_wf lo hi l: the trees of l lie in [lo,hi], in order, each starting at or after the end of the previous *)
Inductive tree_wf : N -> N -> tree -> Prop :=
| TW : forall lo hi s e kids, lo <= s -> s <= e -> e <= hi -> forest_wf s e kids -> tree_wf lo hi (Node s e kids)
with forest_wf : N -> N -> list tree -> Prop :=
| FW_nil : forall lo hi, forest_wf lo hi []
| FW_cons : forall lo hi t r, tree_wf lo hi t -> forest_wf (tree_end t) hi r -> forest_wf lo hi (t :: r).

(* boolean acceptance of a queue for a text of length len: used by the oracle on the AST's span tree *)
Definition events_wfb (len : N) (evs : list event) : bool :=
  match tree_of_events evs with
  | Some _ => nondecr 0 evs && bounded len evs
  | None => false
  end.

(* ---------- a recursive-descent matcher that emits the queue ---------- *)
(* PEG expressions over bytes; PRule i e is a pair-producing grammar rule, PCall a reference into the grammar *)
Inductive pexp :=
| PEmpty
| PAny
| PRange (lo hi : N)
| PSeq (a b : pexp)
| PAlt (a b : pexp)
| PStar (a : pexp)
| PNot (a : pexp)
| PRule (id : N) (a : pexp)
| PCall (id : N).

(* run fuel g e s pos = None (out of fuel) | Some None (no match) |
   Some (Some (rest, pos', events)) (matched input up to pos', leaving rest, having pushed events).
   A failing alternative or predicate leaves nothing in the queue (pest truncates the queue on failure). *)
Fixpoint run (fuel : nat) (g : N -> pexp) (e : pexp) (s : list N) (pos : N)
  : option (option (list N * N * list event)) :=
  match fuel with
  | O => None
  | S f =>
    match e with
    | PEmpty => Some (Some (s, pos, []))
    | PAny => match s with [] => Some None | _ :: r => Some (Some (r, pos + 1, [])) end
    | PRange lo hi =>
      match s with
      | [] => Some None
      | b :: r => if (lo <=? b) && (b <=? hi) then Some (Some (r, pos + 1, [])) else Some None
      end
    | PSeq a b =>
      match run f g a s pos with
      | None => None
      | Some None => Some None
      | Some (Some (s1, p1, ev1)) =>
        match run f g b s1 p1 with
        | None => None
        | Some None => Some None
        | Some (Some (s2, p2, ev2)) => Some (Some (s2, p2, ev1 ++ ev2))
        end
      end
    | PAlt a b =>
      match run f g a s pos with
      | None => None
      | Some None => run f g b s pos
      | Some (Some r) => Some (Some r)
      end
    | PStar a =>
      match run f g a s pos with
      | None => None
      | Some None => Some (Some (s, pos, []))
      | Some (Some (s1, p1, ev1)) =>
        if p1 =? pos then Some (Some (s1, p1, ev1))       (* no progress: stop *)
        else match run f g (PStar a) s1 p1 with
             | None => None
             | Some None => Some (Some (s1, p1, ev1))
             | Some (Some (s2, p2, ev2)) => Some (Some (s2, p2, ev1 ++ ev2))
             end
      end
    | PNot a =>
      match run f g a s pos with
      | None => None
      | Some None => Some (Some (s, pos, []))
      | Some (Some _) => Some None
      end
    | PRule _ a =>
      match run f g a s pos with
      | None => None
      | Some None => Some None
      | Some (Some (s1, p1, ev1)) => Some (Some (s1, p1, EStart pos :: ev1 ++ [EEnd p1]))
      end
    | PCall id => run f g (g id) s pos
    end
  end.

(* ---------- rendering for the oracle ---------- *)
(* W: a queue is given as numbers 2*pos (Start) and 2*pos+1 (End) *)
Definition event_of_code (c : N) : event := if N.even c then EStart (c / 2) else EEnd (c / 2).
Definition events_wf_render (len : N) (codes : list N) : list N :=
  if events_wfb len (map event_of_code codes) then [119; 102] (* "wf" *) else [98; 97; 100] (* "bad" *).

(* ---------- the typename rule of cddl.pest ---------- *)
(* typename = ${ socket_type? ~ id } is compound-atomic (commit 837f856): no implicit skip between the socket and
   the id.  Rule ids: 1 typename, 2 socket_type, 3 id.  The body of id is any expression without inner pairs
   (id is atomic, `@`); lower_id is a concrete one. *)
Fixpoint no_rule (e : pexp) : bool :=
  match e with
  | PEmpty | PAny | PRange _ _ => true
  | PSeq a b | PAlt a b => no_rule a && no_rule b
  | PStar a | PNot a => no_rule a
  | PRule _ _ | PCall _ => false
  end.
Definition typename_of (idbody : pexp) : pexp :=
  PRule 1 (PSeq (PAlt (PRule 2 (PRange 36 36)) PEmpty) (PRule 3 idbody)).
Definition lower : pexp := PRange 97 122.
Definition lower_id : pexp := PSeq lower (PStar lower).
