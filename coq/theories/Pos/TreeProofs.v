(* Proofs about pair trees (Pos/Tree.v): a queue with non-decreasing positions reads as a forest with nested
   spans, ordered non-overlapping siblings and spans inside the input; the recursive-descent matcher only
   produces such queues. *)
From Coq Require Import ZifyBool ZifyNat ZifyN.
From Cddl Require Import Base.Bytes Pos.Tree.
Open Scope N_scope.
Arguments N.add : simpl never.
Arguments N.sub : simpl never.
Arguments N.eqb : simpl never.
Arguments N.leb : simpl never.
Arguments N.ltb : simpl never.

Fixpoint forest_end (lo : N) (l : list tree) : N :=
  match l with [] => lo | t :: r => forest_end (tree_end t) r end.

Lemma flatten_node : forall s e kids, flatten (Node s e kids) = EStart s :: flatten_forest kids ++ [EEnd e].
Proof.
  intros. cbn [flatten]. f_equal.
Qed.

(* ---------- reading a queue gives back the queue ---------- *)
Lemma parse_forest_flatten : forall f evs ts rest,
  parse_forest f evs = Some (ts, rest) -> evs = flatten_forest ts ++ rest.
Proof.
  induction f as [| f IH]; intros evs ts rest H; [discriminate |].
  cbn [parse_forest] in H. destruct evs as [| [s | e0] r].
  - injection H as <- <-. reflexivity.
  - destruct (parse_forest f r) as [[kids [| [s1 | e] r']] |] eqn:P1; try discriminate.
    destruct (parse_forest f r') as [[sibs rest'] |] eqn:P2; try discriminate.
    injection H as <- <-. apply IH in P1. apply IH in P2. subst r r'.
    cbn [flatten_forest]. rewrite flatten_node. cbn [app]. f_equal.
    rewrite <- !app_assoc. reflexivity.
  - injection H as <- <-. reflexivity.
Qed.

(* ---------- non-decreasing positions give a well-formed forest ---------- *)
Lemma parse_forest_wf : forall f evs ts rest lo hi,
  parse_forest f evs = Some (ts, rest) -> nondecr lo evs = true -> bounded hi evs = true -> lo <= hi ->
  (forall hi', forest_end lo ts <= hi' -> forest_wf lo hi' ts)
  /\ nondecr (forest_end lo ts) rest = true /\ bounded hi rest = true
  /\ lo <= forest_end lo ts /\ forest_end lo ts <= hi.
Proof.
  induction f as [| f IH]; intros evs ts rest lo hi H Hn Hb Hlo; [discriminate |].
  cbn [parse_forest] in H. destruct evs as [| [s | e0] r].
  - injection H as <- <-. cbn [forest_end]. repeat split; auto; try lia. intros; constructor.
  - destruct (parse_forest f r) as [[kids [| [s1 | e] r']] |] eqn:P1; try discriminate.
    destruct (parse_forest f r') as [[sibs rest'] |] eqn:P2; try discriminate.
    injection H as <- <-.
    cbn [nondecr ev_pos] in Hn. apply andb_prop in Hn as [Hls Hn].
    unfold bounded in Hb. cbn [forallb ev_pos] in Hb. apply andb_prop in Hb as [Hsh Hb].
    destruct (IH r kids (EEnd e :: r') s hi P1 Hn Hb ltac:(lia)) as (K1 & N1 & B1 & L1 & U1).
    cbn [nondecr ev_pos] in N1. apply andb_prop in N1 as [Hfe N1].
    unfold bounded in B1. cbn [forallb ev_pos] in B1. apply andb_prop in B1 as [Heh B1].
    destruct (IH r' sibs rest' e hi P2 N1 B1 ltac:(lia)) as (K2 & N2 & B2 & L2 & U2).
    cbn [forest_end tree_end]. repeat split; auto; try lia.
    intros hi' Hhi. constructor.
    + constructor; try lia. apply K1. lia.
    + cbn [tree_end]. apply K2. exact Hhi.
  - injection H as <- <-. cbn [forest_end]. repeat split; auto; try lia. intros; constructor.
Qed.

(* a queue whose positions never decrease and stay within the text reads as a forest whose spans are nested,
   whose siblings are in source order without overlap, and which lies inside [0, len] *)
Theorem tree_of_events_wf : forall len evs ts,
  tree_of_events evs = Some ts -> nondecr 0 evs = true -> bounded len evs = true ->
  flatten_forest ts = evs /\ forest_wf 0 len ts.
Proof.
  intros len evs ts H Hn Hb. unfold tree_of_events in H.
  destruct (parse_forest (S (length evs)) evs) as [[ts' [| x r]] |] eqn:P; try discriminate.
  injection H as <-. split.
  - apply parse_forest_flatten in P. rewrite app_nil_r in P. auto.
  - destruct (parse_forest_wf _ _ _ _ 0 len P Hn Hb ltac:(lia)) as (K & _ & _ & _ & U). apply K. exact U.
Qed.

Theorem events_wfb_sound : forall len evs, events_wfb len evs = true ->
  exists ts, tree_of_events evs = Some ts /\ flatten_forest ts = evs /\ forest_wf 0 len ts.
Proof.
  intros len evs H. unfold events_wfb in H. destruct (tree_of_events evs) as [ts |] eqn:T; [| discriminate].
  apply andb_prop in H as [Hn Hb]. exists ts. split; [reflexivity |]. apply (tree_of_events_wf len evs ts T Hn Hb).
Qed.

(* ---------- balanced queues are read completely ---------- *)
Inductive balanced : list event -> Prop :=
| B_nil : balanced []
| B_node : forall s e a b, balanced a -> balanced b -> balanced (EStart s :: a ++ EEnd e :: b).

Lemma balanced_app : forall a b, balanced a -> balanced b -> balanced (a ++ b).
Proof.
  intros a b Ha. revert b. induction Ha as [| s e a1 a2 H1 IH1 H2 IH2]; intros b Hb; [exact Hb |].
  cbn [app]. rewrite <- app_assoc. cbn [app]. constructor; auto.
Qed.

Definition closes (rest : list event) : Prop := rest = [] \/ exists e r, rest = EEnd e :: r.

Lemma parse_balanced : forall evs, balanced evs -> forall rest f, closes rest ->
  (length (evs ++ rest) < f)%nat -> exists ts, parse_forest f (evs ++ rest) = Some (ts, rest).
Proof.
  intros evs Hb. induction Hb as [| s e a b Ha IHa Hb IHb]; intros rest f Hc Hf.
  - cbn [app] in *. destruct f as [| f]; [lia |]. exists []. cbn [parse_forest].
    destruct Hc as [-> | (e & r & ->)]; reflexivity.
  - destruct f as [| f]; [lia |]. cbn [app parse_forest].
    rewrite <- app_assoc. cbn [app].
    cbn [app length] in Hf. rewrite <- app_assoc in Hf. cbn [app] in Hf.
    destruct (IHa (EEnd e :: b ++ rest) f) as [kids P1].
    { right. eauto. }
    { lia. }
    rewrite P1.
    destruct (IHb rest f Hc) as [sibs P2].
    { rewrite !app_length in *. cbn [length] in Hf. rewrite app_length in Hf. lia. }
    rewrite P2. eauto.
Qed.

Lemma balanced_tree_of_events : forall evs, balanced evs -> exists ts, tree_of_events evs = Some ts.
Proof.
  intros evs Hb. destruct (parse_balanced evs Hb [] (S (length evs)) (or_introl eq_refl)) as [ts P].
  { rewrite app_nil_r. lia. }
  rewrite app_nil_r in P. exists ts. unfold tree_of_events. rewrite P. reflexivity.
Qed.

(* ---------- the matcher's queue ---------- *)
Lemma nondecr_app : forall a b lo p1, nondecr lo a = true -> bounded p1 a = true -> lo <= p1 ->
  nondecr p1 b = true -> nondecr lo (a ++ b) = true.
Proof.
  induction a as [| x a IH]; intros b lo p1 Ha Hb Hl Hn.
  - cbn [app]. destruct b as [| y b]; [reflexivity |]. cbn [nondecr] in *.
    apply andb_prop in Hn as [H1 H2]. rewrite H2. lia.
  - cbn [app nondecr] in *. apply andb_prop in Ha as [H1 H2].
    unfold bounded in Hb. cbn [forallb] in Hb. apply andb_prop in Hb as [H3 H4].
    rewrite (IH b (ev_pos x) p1 H2 H4 ltac:(lia) Hn). lia.
Qed.

Lemma bounded_mono : forall a p q, bounded p a = true -> p <= q -> bounded q a = true.
Proof.
  unfold bounded. intros a p q H Hpq. rewrite forallb_forall in *. intros x Hx. specialize (H x Hx). lia.
Qed.
Lemma bounded_app : forall a b p, bounded p a = true -> bounded p b = true -> bounded p (a ++ b) = true.
Proof. unfold bounded. intros. rewrite forallb_app. rewrite H, H0. reflexivity. Qed.

Definition lenN' (s : list N) : N := N.of_nat (length s).

Lemma run_inv : forall f g e s pos s' p' evs,
  run f g e s pos = Some (Some (s', p', evs)) ->
  pos <= p' /\ p' + lenN' s' = pos + lenN' s /\ balanced evs
  /\ nondecr pos evs = true /\ bounded p' evs = true.
Proof.
  induction f as [| f IH]; intros g e s pos s' p' evs H; [discriminate |].
  cbn [run] in H. destruct e as [| | lo hi | a b | a b | a | a | id a | id].
  - injection H as <- <- <-. repeat split; try lia; constructor.
  - destruct s as [| x r]; [discriminate |]. injection H as <- <- <-.
    unfold lenN'. cbn [length]. repeat split; try lia; constructor.
  - destruct s as [| x r]; [discriminate |]. destruct ((lo <=? x) && (x <=? hi)); [| discriminate].
    injection H as <- <- <-. unfold lenN'. cbn [length]. repeat split; try lia; constructor.
  - destruct (run f g a s pos) as [[[[s1 p1] ev1] |] |] eqn:R1; try discriminate.
    destruct (run f g b s1 p1) as [[[[s2 p2] ev2] |] |] eqn:R2; try discriminate.
    injection H as <- <- <-. apply IH in R1 as (A1 & A2 & A3 & A4 & A5). apply IH in R2 as (B1 & B2 & B3 & B4 & B5).
    repeat split; try lia.
    + apply balanced_app; auto.
    + apply (nondecr_app ev1 ev2 pos p1); auto.
    + apply bounded_app; auto. apply (bounded_mono ev1 p1); auto.
  - destruct (run f g a s pos) as [[r1 |] |] eqn:R1; try discriminate.
    + injection H as ->. apply IH in R1. exact R1.
    + apply IH in H. exact H.
  - destruct (run f g a s pos) as [[[[s1 p1] ev1] |] |] eqn:R1; try discriminate.
    + apply IH in R1 as (A1 & A2 & A3 & A4 & A5). destruct (p1 =? pos).
      * injection H as <- <- <-. auto.
      * destruct (run f g (PStar a) s1 p1) as [[[[s2 p2] ev2] |] |] eqn:R2; try discriminate.
        -- injection H as <- <- <-. apply IH in R2 as (B1 & B2 & B3 & B4 & B5). repeat split; try lia.
           ++ apply balanced_app; auto.
           ++ apply (nondecr_app ev1 ev2 pos p1); auto.
           ++ apply bounded_app; auto. apply (bounded_mono ev1 p1); auto.
        -- injection H as <- <- <-. auto.
    + injection H as <- <- <-. repeat split; try lia; constructor.
  - destruct (run f g a s pos) as [[r1 |] |] eqn:R1; try discriminate.
    injection H as <- <- <-. repeat split; try lia; constructor.
  - destruct (run f g a s pos) as [[[[s1 p1] ev1] |] |] eqn:R1; try discriminate.
    injection H as <- <- <-. apply IH in R1 as (A1 & A2 & A3 & A4 & A5). repeat split; try lia.
    + apply (B_node pos p1 ev1 []); auto. constructor.
    + cbn [nondecr ev_pos]. rewrite (nondecr_app ev1 [EEnd p1] pos p1); auto; [lia |].
      cbn [nondecr ev_pos]. lia.
    + unfold bounded. cbn [forallb ev_pos]. fold (bounded p1 (ev1 ++ [EEnd p1])).
      rewrite bounded_app; auto; [lia |]. unfold bounded. cbn [forallb ev_pos]. lia.
  - apply IH in H. exact H.
Qed.

(* a successful run of any grammar from the start of a text leaves a queue that reads as a forest of
   nested spans with ordered, non-overlapping siblings, all inside the text *)
Theorem run_tree_wf : forall f g e s s' p' evs,
  run f g e s 0 = Some (Some (s', p', evs)) ->
  exists ts, tree_of_events evs = Some ts /\ flatten_forest ts = evs /\ forest_wf 0 (lenN s) ts.
Proof.
  intros f g e s s' p' evs H. apply run_inv in H as (A1 & A2 & A3 & A4 & A5).
  destruct (balanced_tree_of_events evs A3) as [ts T]. exists ts. split; [exact T |].
  apply (tree_of_events_wf (lenN s) evs ts T A4).
  apply (bounded_mono evs p'); auto. unfold lenN' in A2. unfold lenN. lia.
Qed.

(* ---------- identifier spans are exact ---------- *)
Lemma run_no_rule : forall f g e s pos s' p' evs,
  run f g e s pos = Some (Some (s', p', evs)) -> no_rule e = true -> evs = [].
Proof.
  induction f as [| f IH]; intros g e s pos s' p' evs H Hn; [discriminate |].
  cbn [run] in H. destruct e as [| | lo hi | a b | a b | a | a | id a | id]; cbn [no_rule] in Hn; try discriminate.
  - injection H as <- <- <-. reflexivity.
  - destruct s as [| x r]; [discriminate |]. injection H as <- <- <-. reflexivity.
  - destruct s as [| x r]; [discriminate |]. destruct ((lo <=? x) && (x <=? hi)); [| discriminate].
    injection H as <- <- <-. reflexivity.
  - apply andb_prop in Hn as [Ha Hb].
    destruct (run f g a s pos) as [[[[s1 p1] ev1] |] |] eqn:R1; try discriminate.
    destruct (run f g b s1 p1) as [[[[s2 p2] ev2] |] |] eqn:R2; try discriminate.
    injection H as <- <- <-. rewrite (IH _ _ _ _ _ _ _ R1 Ha), (IH _ _ _ _ _ _ _ R2 Hb). reflexivity.
  - apply andb_prop in Hn as [Ha Hb].
    destruct (run f g a s pos) as [[r1 |] |] eqn:R1; try discriminate.
    + injection H as ->. apply (IH _ _ _ _ _ _ _ R1 Ha).
    + apply (IH _ _ _ _ _ _ _ H Hb).
  - destruct (run f g a s pos) as [[[[s1 p1] ev1] |] |] eqn:R1; try discriminate.
    + pose proof (IH _ _ _ _ _ _ _ R1 Hn) as E1. destruct (p1 =? pos).
      * injection H as <- <- <-. exact E1.
      * destruct (run f g (PStar a) s1 p1) as [[[[s2 p2] ev2] |] |] eqn:R2; try discriminate.
        -- injection H as <- <- <-. rewrite E1, (IH _ _ _ _ _ _ _ R2 Hn). reflexivity.
        -- injection H as <- <- <-. exact E1.
    + injection H as <- <- <-. reflexivity.
  - destruct (run f g a s pos) as [[r1 |] |] eqn:R1; try discriminate.
    injection H as <- <- <-. reflexivity.
Qed.

Lemma run_rule : forall f g id a s pos, run (S f) g (PRule id a) s pos =
  match run f g a s pos with
  | None => None
  | Some None => Some None
  | Some (Some (s1, p1, ev1)) => Some (Some (s1, p1, EStart pos :: ev1 ++ [EEnd p1]))
  end.
Proof. reflexivity. Qed.
Lemma run_seq : forall f g a b s pos, run (S f) g (PSeq a b) s pos =
  match run f g a s pos with
  | None => None
  | Some None => Some None
  | Some (Some (s1, p1, ev1)) =>
    match run f g b s1 p1 with
    | None => None
    | Some None => Some None
    | Some (Some (s2, p2, ev2)) => Some (Some (s2, p2, ev1 ++ ev2))
    end
  end.
Proof. reflexivity. Qed.
Lemma run_alt : forall f g a b s pos, run (S f) g (PAlt a b) s pos =
  match run f g a s pos with
  | None => None
  | Some None => run f g b s pos
  | Some (Some r) => Some (Some r)
  end.
Proof. reflexivity. Qed.

(* the optional socket: either `$` as a pair [pos,pos+1) or nothing *)
Lemma run_socket : forall f g s pos s1 p1 ev1,
  run f g (PAlt (PRule 2 (PRange 36 36)) PEmpty) s pos = Some (Some (s1, p1, ev1)) ->
  (p1 = pos + 1 /\ ev1 = [EStart pos; EEnd (pos + 1)]) \/ (p1 = pos /\ s1 = s /\ ev1 = []).
Proof.
  intros f g s pos s1 p1 ev1 H. destruct f as [| f]; [discriminate |]. rewrite run_alt in H.
  destruct (run f g (PRule 2 (PRange 36 36)) s pos) as [[r1 |] |] eqn:R; try discriminate.
  - injection H as ->. destruct f as [| f]; [discriminate |]. rewrite run_rule in R.
    destruct (run f g (PRange 36 36) s pos) as [[[[s2 p2] ev2] |] |] eqn:RR; try discriminate.
    injection R as <- <- <-. destruct f as [| f]; [discriminate |]. cbn [run] in RR.
    destruct s as [| b r]; [discriminate |]. destruct ((36 <=? b) && (b <=? 36)); [| discriminate].
    injection RR as <- <- <-. left. split; reflexivity.
  - destruct f as [| f]; [discriminate |]. cbn [run] in H. injection H as <- <- <-. right. auto.
Qed.

(* the typename pair is tiled exactly by its children: either  socket_type [pos,pos+1) id [pos+1,end)  or
   id [pos,end) ; nothing between the socket and the name, nothing after the name *)
Theorem typename_span_exact : forall f g idbody s pos s' p' evs,
  no_rule idbody = true ->
  run f g (typename_of idbody) s pos = Some (Some (s', p', evs)) ->
  evs = [EStart pos; EStart pos; EEnd (pos + 1); EStart (pos + 1); EEnd p'; EEnd p']
  \/ evs = [EStart pos; EStart pos; EEnd p'; EEnd p'].
Proof.
  intros f g idbody s pos s' p' evs Hn H. unfold typename_of in H.
  destruct f as [| f1]; [discriminate |]. rewrite run_rule in H.
  destruct (run f1 g (PSeq (PAlt (PRule 2 (PRange 36 36)) PEmpty) (PRule 3 idbody)) s pos)
    as [[[[s3 p3] ev3] |] |] eqn:R1; try discriminate.
  injection H as <- <- <-.
  destruct f1 as [| f2]; [discriminate |]. rewrite run_seq in R1.
  destruct (run f2 g (PAlt (PRule 2 (PRange 36 36)) PEmpty) s pos) as [[[[s1 p1] ev1] |] |] eqn:RS; try discriminate.
  destruct (run f2 g (PRule 3 idbody) s1 p1) as [[[[s2 p2] ev2] |] |] eqn:RI; try discriminate.
  injection R1 as <- <- <-.
  destruct f2 as [| f3]; [discriminate |]. rewrite run_rule in RI.
  destruct (run f3 g idbody s1 p1) as [[[[s4 p4] ev4] |] |] eqn:RB; try discriminate.
  injection RI as <- <- <-. rewrite (run_no_rule _ _ _ _ _ _ _ _ RB Hn).
  destruct (run_socket _ _ _ _ _ _ _ RS) as [[-> ->] | (-> & _ & ->)].
  - left. reflexivity.
  - right. reflexivity.
Qed.

(* `$x` is a typename with span (0,2); `$ x` is not a typename any more *)
Lemma typename_examples :
  run 20 (fun _ => PEmpty) (typename_of lower_id) [36; 120] 0
  = Some (Some ([], 2, [EStart 0; EStart 0; EEnd 1; EStart 1; EEnd 2; EEnd 2]))
  /\ run 20 (fun _ => PEmpty) (typename_of lower_id) [36; 32; 120] 0 = Some None.
Proof. vm_compute. auto. Qed.
