(* Faithful model of the span / position arithmetic of src/pest_bridge.rs:
     pest_span_to_ast_span (419-427), pest_span_to_position (430-453), position_from_ast_span (457-468),
   and of pest 2.9.0's Position::line_col (position.rs 133-174), which supplies the line and column of a
   parse error that is reported at pest's own failure offset.
   The input &str is its UTF-8 byte list; offsets are byte offsets (N, never turned into nat).
   `s.chars()` over a slice of valid UTF-8 has one item per non-continuation byte (the lead or ASCII byte
   stands for the character); a char equals '\n' / '\r' iff that byte is 10 / 13.
   No proofs in this file. *)
From Cddl Require Import Base.Bytes.
Open Scope N_scope.

Definition NL : N := 10.
Definition CR : N := 13.
Definition is_cont (b : N) : bool := (128 <=? b) && (b <? 192).

(* input[..n] and input[n..]; n comes from the input, recursion is on the list *)
Fixpoint firstnN {A} (n : N) (l : list A) : list A :=
  match l with
  | [] => []
  | x :: r => if n =? 0 then [] else x :: firstnN (N.pred n) r
  end.
Fixpoint skipnN {A} (n : N) (l : list A) : list A :=
  match l with
  | [] => []
  | x :: r => if n =? 0 then l else skipnN (N.pred n) r
  end.

(* s.chars().count() *)
Fixpoint nchars (bs : list N) : N :=
  match bs with
  | [] => 0
  | b :: r => (if is_cont b then 0 else 1) + nchars r
  end.

(* s.chars().filter(|&c| c == '\n').count() *)
Fixpoint count_nl_chars (bs : list N) : N :=
  match bs with
  | [] => 0
  | b :: r => (if negb (is_cont b) && (b =? NL) then 1 else 0) + count_nl_chars r
  end.

(* ---------- pest_span_to_ast_span ---------- *)
Definition ast_line (bs : list N) (start : N) : N := count_nl_chars (firstnN start bs) + 1.
Definition pest_span_to_ast_span (bs : list N) (start end_ : N) : N * N * N :=
  (start, end_, ast_line bs start).

(* ---------- Position (src/lexer.rs) ---------- *)
Record position := mkPos { p_line : N; p_column : N; p_range : N * N; p_index : N }.

(* the loop  for ch in s.chars() { if ch == '\n' { line += 1; column = 1 } else { column += 1 } }  *)
Fixpoint linecol_loop (bs : list N) (line col : N) : N * N :=
  match bs with
  | [] => (line, col)
  | b :: r =>
    if is_cont b then linecol_loop r line col
    else if b =? NL then linecol_loop r (line + 1) 1
    else linecol_loop r line (col + 1)
  end.

(* ---------- pest_span_to_position ---------- *)
Definition pest_span_to_position (bs : list N) (start end_ : N) : position :=
  let lc := linecol_loop (firstnN start bs) 1 1 in
  mkPos (fst lc) (snd lc) (start, end_) start.

(* ---------- position_from_ast_span ---------- *)
(* s.rfind('\n'): byte index of the last '\n' *)
Fixpoint rfind_nl_from (bs : list N) (i : N) (acc : option N) : option N :=
  match bs with
  | [] => acc
  | b :: r => rfind_nl_from r (i + 1) (if b =? NL then Some i else acc)
  end.
Definition rfind_nl (bs : list N) : option N := rfind_nl_from bs 0 None.

Definition position_from_ast_span (bs : list N) (span : N * N * N) : position :=
  let '(start, end_, line) := span in
  let line_start := match rfind_nl (firstnN start bs) with Some i => i + 1 | None => 0 end in
  let column := nchars (skipnN line_start (firstnN start bs)) + 1 in
  mkPos line column (start, end_) start.

(* ---------- pest::Position::line_col on input[..pos] ---------- *)
(* "\r\n" is one line break; a lone '\r' is a column; the peek never looks beyond the slice *)
Fixpoint pest_lc_loop (bs : list N) (line col : N) : N * N :=
  match bs with
  | [] => (line, col)
  | b :: r =>
    if b =? CR then
      match r with
      | b2 :: r2 => if b2 =? NL then pest_lc_loop r2 (line + 1) 1 else pest_lc_loop r line (col + 1)
      | [] => pest_lc_loop r line (col + 1)
      end
    else if b =? NL then pest_lc_loop r (line + 1) 1
    else if is_cont b then pest_lc_loop r line col
    else pest_lc_loop r line (col + 1)
  end.
Definition pest_line_col (bs : list N) (pos : N) : N * N := pest_lc_loop (firstnN pos bs) 1 1.

(* ---------- specification-level notions used by the theorems ---------- *)
(* number of line feeds in a byte list *)
Fixpoint count_nl (bs : list N) : N :=
  match bs with
  | [] => 0
  | b :: r => (if b =? NL then 1 else 0) + count_nl r
  end.
Fixpoint take_while {A} (p : A -> bool) (l : list A) : list A :=
  match l with
  | [] => []
  | x :: r => if p x then x :: take_while p r else []
  end.
Fixpoint drop_while {A} (p : A -> bool) (l : list A) : list A :=
  match l with
  | [] => []
  | x :: r => if p x then drop_while p r else l
  end.
(* the text after the last line feed: the longest suffix without a line feed *)
Definition line_tail (bs : list N) : list N :=
  rev (take_while (fun b => negb (b =? NL)) (rev bs)).

(* i is a character boundary of bs (str::is_char_boundary): 0, the length, or a non-continuation byte *)
Definition char_boundary (bs : list N) (i : N) : bool :=
  match skipnN i bs with
  | [] => i =? lenN bs
  | b :: _ => negb (is_cont b)
  end.

(* a continuation byte never follows an ASCII byte: the one consequence of UTF-8 validity the boundary
   theorem needs (utf8_valid bs = true -> cont_ok bs = true is proved in Pos/BoundaryProofs.v) *)
Fixpoint cont_ok (bs : list N) : bool :=
  match bs with
  | [] => true
  | b :: r => match r with
              | [] => true
              | b2 :: _ => (negb (is_cont b2) || (128 <=? b)) && cont_ok r
              end
  end.

(* ---------- canonical rendering (hex numbers separated by blanks) ---------- *)
Fixpoint render_nums (l : list N) : list N :=
  match l with
  | [] => []
  | [n] => hexN n
  | n :: r => hexN n ++ 32 :: render_nums r
  end.
Definition render_position (p : position) : list N :=
  render_nums [p_index p; p_line p; p_column p; fst (p_range p); snd (p_range p)].

(* L: the line of every start offset of a document's nodes *)
Definition lines_render (bs : list N) (starts : list N) : list N :=
  render_nums (map (ast_line bs) starts).
(* S: a bridge error built by pest_span_to_position *)
Definition span_position_render (bs : list N) (s e : N) : list N :=
  render_position (pest_span_to_position bs s e).
(* A: the duplicate-rule error: position_from_ast_span (pest_span_to_ast_span span) *)
Definition ast_position_render (bs : list N) (s e : N) : list N :=
  render_position (position_from_ast_span bs (pest_span_to_ast_span bs s e)).
