(* Proofs about the span / position arithmetic of Pos/Span.v. *)
From Coq Require Import ZifyBool ZifyNat ZifyN.
From Cddl Require Import Base.Bytes Pos.Span.
Open Scope N_scope.
Ltac Zify.zify_post_hook ::= Z.div_mod_to_equations.
Arguments N.add : simpl never.
Arguments N.mul : simpl never.
Arguments N.sub : simpl never.
Arguments N.pred : simpl never.
Arguments N.eqb : simpl never.
Arguments N.leb : simpl never.
Arguments N.ltb : simpl never.

(* ---------- lenN, firstnN, skipnN ---------- *)
Lemma lenN_nil : forall A, lenN (@nil A) = 0.
Proof. reflexivity. Qed.
Lemma lenN_cons : forall A (x : A) l, lenN (x :: l) = lenN l + 1.
Proof. intros. unfold lenN. cbn [length]. lia. Qed.
Lemma lenN_app : forall A (a b : list A), lenN (a ++ b) = lenN a + lenN b.
Proof. intros. unfold lenN. rewrite app_length. lia. Qed.
Lemma lenN_rev : forall A (a : list A), lenN (rev a) = lenN a.
Proof. intros. unfold lenN. rewrite rev_length. reflexivity. Qed.

Lemma firstnN_0 : forall A (l : list A), firstnN 0 l = [].
Proof. destruct l; reflexivity. Qed.
Lemma skipnN_0 : forall A (l : list A), skipnN 0 l = l.
Proof. destruct l; reflexivity. Qed.

Lemma firstnN_cons : forall A n (x : A) l, 0 < n -> firstnN n (x :: l) = x :: firstnN (n - 1) l.
Proof.
  intros A n x l Hn. cbn [firstnN]. destruct (N.eqb_spec n 0) as [E | E]; [lia |].
  rewrite N.sub_1_r. reflexivity.
Qed.
Lemma skipnN_cons : forall A n (x : A) l, 0 < n -> skipnN n (x :: l) = skipnN (n - 1) l.
Proof.
  intros A n x l Hn. cbn [skipnN]. destruct (N.eqb_spec n 0) as [E | E]; [lia |].
  rewrite N.sub_1_r. reflexivity.
Qed.

Lemma firstnN_skipnN : forall A (l : list A) n, firstnN n l ++ skipnN n l = l.
Proof.
  induction l as [| x l IH]; intros n; [reflexivity |].
  cbn [firstnN skipnN]. destruct (n =? 0); [reflexivity |]. cbn [app]. rewrite IH. reflexivity.
Qed.

Lemma lenN_firstnN : forall A (l : list A) n, lenN (firstnN n l) = N.min n (lenN l).
Proof.
  induction l as [| x l IH]; intros n.
  - cbn [firstnN]. rewrite lenN_nil. lia.
  - cbn [firstnN]. destruct (N.eqb_spec n 0) as [E | E].
    + subst. rewrite lenN_nil. lia.
    + rewrite !lenN_cons, IH. lia.
Qed.
Lemma lenN_firstnN_le : forall A (l : list A) n, lenN (firstnN n l) <= n.
Proof. intros. rewrite lenN_firstnN. lia. Qed.

Lemma lenN_skipnN : forall A (l : list A) n, lenN (skipnN n l) = lenN l - n.
Proof.
  induction l as [| x l IH]; intros n.
  - cbn [skipnN]. rewrite lenN_nil. lia.
  - cbn [skipnN]. destruct (N.eqb_spec n 0) as [E | E].
    + subst. lia.
    + rewrite IH, lenN_cons. lia.
Qed.

Lemma skipnN_nil_iff : forall A (l : list A) n, skipnN n l = [] <-> lenN l <= n.
Proof.
  intros A l n. split; intros H.
  - pose proof (lenN_skipnN A l n) as E. rewrite H, lenN_nil in E. lia.
  - pose proof (lenN_skipnN A l n) as E. destruct (skipnN n l) as [| y r]; [reflexivity |].
    rewrite lenN_cons in E. lia.
Qed.

Lemma firstnN_all : forall A (l : list A) n, lenN l <= n -> firstnN n l = l.
Proof.
  intros A l n H. pose proof (firstnN_skipnN A l n) as E.
  apply skipnN_nil_iff in H. rewrite H, app_nil_r in E. exact E.
Qed.

Lemma firstnN_app_le : forall A (a b : list A) n, n <= lenN a -> firstnN n (a ++ b) = firstnN n a.
Proof.
  induction a as [| x a IH]; intros b n H.
  - rewrite lenN_nil in H. assert (n = 0) by lia. subst. rewrite !firstnN_0. reflexivity.
  - cbn [app firstnN]. destruct (N.eqb_spec n 0) as [E | E]; [reflexivity |].
    rewrite lenN_cons in H. rewrite IH by lia. reflexivity.
Qed.
Lemma skipnN_app_le : forall A (a b : list A) n, n <= lenN a -> skipnN n (a ++ b) = skipnN n a ++ b.
Proof.
  induction a as [| x a IH]; intros b n H.
  - rewrite lenN_nil in H. assert (n = 0) by lia. subst. rewrite !skipnN_0. reflexivity.
  - cbn [app skipnN]. destruct (N.eqb_spec n 0) as [E | E]; [reflexivity |].
    rewrite lenN_cons in H. rewrite IH by lia. reflexivity.
Qed.
Lemma skipnN_app_len : forall A (a b : list A), skipnN (lenN a) (a ++ b) = b.
Proof.
  intros. rewrite skipnN_app_le by lia.
  assert (H : skipnN (lenN a) a = []) by (apply skipnN_nil_iff; lia). rewrite H. reflexivity.
Qed.
Lemma firstnN_app_len : forall A (a b : list A), firstnN (lenN a) (a ++ b) = a.
Proof. intros. rewrite firstnN_app_le by lia. apply firstnN_all. lia. Qed.

(* ---------- counting ---------- *)
Lemma is_cont_not_nl : forall b, is_cont b = true -> (b =? NL) = false.
Proof. unfold is_cont, NL. intros b H. lia. Qed.

Lemma count_nl_chars_eq : forall bs, count_nl_chars bs = count_nl bs.
Proof.
  induction bs as [| b r IH]; [reflexivity |]. cbn [count_nl_chars count_nl]. rewrite IH.
  destruct (is_cont b) eqn:C; cbn [negb andb].
  - rewrite (is_cont_not_nl b C). reflexivity.
  - reflexivity.
Qed.

Lemma count_nl_app : forall a b, count_nl (a ++ b) = count_nl a + count_nl b.
Proof. induction a as [| x a IH]; intros b; cbn [app count_nl]; [lia | rewrite IH; lia]. Qed.
Lemma nchars_app : forall a b, nchars (a ++ b) = nchars a + nchars b.
Proof. induction a as [| x a IH]; intros b; cbn [app nchars]; [lia | rewrite IH; lia]. Qed.

Lemma line_tail_snoc : forall a b,
  line_tail (a ++ [b]) = if b =? NL then [] else line_tail a ++ [b].
Proof.
  intros a b. unfold line_tail. rewrite rev_app_distr. cbn [rev app take_while].
  destruct (b =? NL); cbn [negb]; [reflexivity |]. cbn [rev]. reflexivity.
Qed.
Lemma line_tail_nil : line_tail [] = [].
Proof. reflexivity. Qed.

Lemma linecol_loop_app : forall a b l c,
  linecol_loop (a ++ b) l c = linecol_loop b (fst (linecol_loop a l c)) (snd (linecol_loop a l c)).
Proof.
  induction a as [| x a IH]; intros b l c; [reflexivity |].
  cbn [app linecol_loop]. destruct (is_cont x); [apply IH |]. destruct (x =? NL); apply IH.
Qed.

(* the counting loop computes: line = 1 + number of line feeds, column = 1 + characters after the last line feed *)
Lemma linecol_loop_spec : forall bs,
  linecol_loop bs 1 1 = (count_nl bs + 1, nchars (line_tail bs) + 1).
Proof.
  induction bs as [| b a IH] using rev_ind; [reflexivity |].
  rewrite linecol_loop_app, IH. cbn [fst snd linecol_loop].
  rewrite count_nl_app, line_tail_snoc. cbn [count_nl].
  destruct (is_cont b) eqn:C.
  - rewrite (is_cont_not_nl b C). rewrite nchars_app. cbn [nchars]. rewrite C. f_equal; lia.
  - destruct (b =? NL) eqn:E.
    + cbn [nchars]. f_equal; lia.
    + rewrite nchars_app. cbn [nchars]. rewrite C. f_equal; lia.
Qed.

(* ---------- pest's line_col = the same counting (CRLF is one break, and '\r' then '\n' counted
   separately also ends at column 1 of the next line) ---------- *)
Lemma pest_lc_loop_eq : forall n bs l c, (length bs <= n)%nat -> pest_lc_loop bs l c = linecol_loop bs l c.
Proof.
  induction n as [| n IH]; intros bs l c Hlen.
  - destruct bs; [reflexivity | cbn [length] in Hlen; lia].
  - destruct bs as [| b r]; [reflexivity |]. cbn [length] in Hlen.
    cbn [pest_lc_loop linecol_loop].
    destruct (N.eqb_spec b CR) as [Ecr | Ecr].
    + subst b. change (is_cont CR) with false. change (CR =? NL) with false. cbv iota.
      destruct r as [| b2 r2].
      * apply IH. cbn [length]. lia.
      * destruct (N.eqb_spec b2 NL) as [Enl | Enl].
        -- subst b2. cbn [linecol_loop]. change (is_cont NL) with false. change (NL =? NL) with true. cbv iota.
           apply IH. cbn [length] in Hlen. lia.
        -- apply IH. lia.
    + destruct (N.eqb_spec b NL) as [Enl | Enl].
      * subst b. change (is_cont NL) with false. cbv iota. apply IH. lia.
      * destruct (is_cont b); apply IH; lia.
Qed.

Lemma pest_line_col_eq : forall bs pos, pest_line_col bs pos = linecol_loop (firstnN pos bs) 1 1.
Proof. intros. unfold pest_line_col. apply (pest_lc_loop_eq (length (firstnN pos bs))). lia. Qed.

(* ---------- rfind ---------- *)
Lemma rfind_nl_from_snoc : forall a b i acc,
  rfind_nl_from (a ++ [b]) i acc = if b =? NL then Some (i + lenN a) else rfind_nl_from a i acc.
Proof.
  induction a as [| x a IH]; intros b i acc.
  - cbn [app rfind_nl_from]. rewrite lenN_nil. destruct (b =? NL); [f_equal; lia | reflexivity].
  - cbn [app rfind_nl_from]. rewrite IH, lenN_cons. destruct (b =? NL); [f_equal; lia | reflexivity].
Qed.

Lemma rfind_nl_spec : forall p,
  match rfind_nl p with
  | Some i => i < lenN p /\ skipnN (i + 1) p = line_tail p
  | None => line_tail p = p
  end.
Proof.
  induction p as [| b a IH] using rev_ind; [reflexivity |].
  unfold rfind_nl in *. rewrite rfind_nl_from_snoc, line_tail_snoc, lenN_app.
  change (lenN [b]) with 1. destruct (b =? NL).
  - split; [lia |]. replace (0 + lenN a + 1) with (lenN (a ++ [b])) by (rewrite lenN_app; change (lenN [b]) with 1; lia).
    apply skipnN_nil_iff. lia.
  - destruct (rfind_nl_from a 0 None) as [i |].
    + destruct IH as [Hi Hs]. split; [lia |]. rewrite skipnN_app_le by lia. rewrite Hs. reflexivity.
    + rewrite IH. reflexivity.
Qed.

(* ---------- theorems ---------- *)
(* the line of a span is 1 + the number of line feeds before its start *)
Theorem line_is_newlines_before : forall bs s e,
  pest_span_to_ast_span bs s e = (s, e, 1 + count_nl (firstnN s bs)).
Proof.
  intros. unfold pest_span_to_ast_span, ast_line. rewrite count_nl_chars_eq. f_equal. lia.
Qed.

(* the column is 1 + the number of characters between the last line feed before the start and the start;
   a carriage return is an ordinary character *)
Theorem column_is_chars_since_newline : forall bs s e,
  pest_span_to_position bs s e =
  mkPos (1 + count_nl (firstnN s bs)) (1 + nchars (line_tail (firstnN s bs))) (s, e) s.
Proof.
  intros. unfold pest_span_to_position. rewrite linecol_loop_spec. cbn [fst snd]. f_equal; lia.
Qed.

(* position_from_ast_span recomputes the same position from the AST span *)
Theorem position_from_ast_span_agrees : forall bs s e,
  position_from_ast_span bs (pest_span_to_ast_span bs s e) = pest_span_to_position bs s e.
Proof.
  intros. rewrite column_is_chars_since_newline, line_is_newlines_before.
  unfold position_from_ast_span. pose proof (rfind_nl_spec (firstnN s bs)) as R.
  destruct (rfind_nl (firstnN s bs)) as [i |].
  - destruct R as [_ R]. rewrite R. f_equal. lia.
  - rewrite skipnN_0, R. f_equal. lia.
Qed.

(* pest's own line/column at an offset is the same function of the offset, CRLF included *)
Theorem pest_line_col_spec : forall bs pos,
  pest_line_col bs pos = (1 + count_nl (firstnN pos bs), 1 + nchars (line_tail (firstnN pos bs))).
Proof. intros. rewrite pest_line_col_eq, linecol_loop_spec. f_equal; lia. Qed.

(* CRLF: the character after "\r\n" is at column 1 of the next line; a position between '\r' and '\n'
   still belongs to the old line *)
Example crlf_example :
  pest_span_to_position [97; 13; 10; 98; 13; 10; 195; 169; 99] 8 9 = mkPos 3 2 (8, 9) 8
  /\ pest_line_col [97; 13; 10; 98] 2 = (1, 3)
  /\ pest_line_col [97; 13; 10; 98] 3 = (2, 1).
Proof. vm_compute. auto. Qed.
