(* Faithful model of the error position of src/pest_bridge.rs (as of commit 2fbd55d, which keeps the range on
   UTF-8 character boundaries):
     convert_pest_error (93-151), compute_error_range (159-191), scan_token_end (195-226),
     scan_token_start (229-263).
   Input: the UTF-8 bytes of the document and pest's failure offset `index` (pest::error::Error::location,
   always InputLocation::Pos for a parsing error).  The loops over `bytes[pos]` become list functions:
   scanning forward from p = take_while on input[p..]; scanning backward from p = take_while on the reversed
   prefix input[..p].  No proofs in this file. *)
From Cddl Require Import Base.Bytes Pos.Span.
Open Scope N_scope.

(* u8::is_ascii_whitespace: space, \t, \n, form feed, \r *)
Definition is_ascii_ws (b : N) : bool :=
  (b =? 32) || (b =? 9) || (b =? 10) || (b =? 12) || (b =? 13).
(* u8::is_ascii_alphanumeric *)
Definition is_alnum (b : N) : bool :=
  ((48 <=? b) && (b <=? 57)) || ((65 <=? b) && (b <=? 90)) || ((97 <=? b) && (b <=? 122)).
(* first byte of an "identifier or number": alnum _ $ @ *)
Definition tok_first (b : N) : bool := is_alnum b || (b =? 95) || (b =? 36) || (b =? 64).
(* continuation of it: alnum _ - . $ @ *)
Definition tok_char (b : N) : bool :=
  is_alnum b || (b =? 95) || (b =? 45) || (b =? 46) || (b =? 36) || (b =? 64).
(* what compute_error_range steps over: whitespace and ';' *)
Definition skipped (b : N) : bool := is_ascii_ws b || (b =? 59).

(* scan_token_end(bytes, start) *)
Definition scan_token_end (bs : list N) (start : N) : N :=
  match skipnN start bs with
  | [] => start                                           (* pos >= bytes.len() *)
  | (first :: t) as rest =>
    if tok_first first then start + lenN (take_while tok_char rest)
    else start + 1 + lenN (take_while is_cont t)          (* one character: the byte and its continuation bytes *)
  end.

(* scan_token_start(bytes, pos); bytes[pos] must exist (Rust would panic otherwise) *)
Definition scan_token_start (bs : list N) (pos : N) : N :=
  match skipnN pos bs with
  | [] => pos
  | ch :: _ =>
    if tok_char ch then pos - lenN (take_while tok_char (rev (firstnN pos bs)))
    else if is_cont ch then
      (* while start > 0 && is_cont(bytes[start]) { start -= 1 } *)
      let k := lenN (take_while is_cont (rev (firstnN pos bs))) in
      if k <? pos then pos - (k + 1) else 0
    else pos
  end.

(* compute_error_range(index, input) *)
Definition compute_error_range (index : N) (bs : list N) : N * N :=
  let fwd :=
    match skipnN index bs with
    | [] => None                                          (* index >= bytes.len() *)
    | ch :: _ =>
      if negb (skipped ch) then
        let e := scan_token_end bs index in
        if index <? e then Some (index, e) else None
      else None
    end in
  match fwd with
  | Some r => r
  | None =>
    (* while pos > 0 { pos -= 1; if !ws(bytes[pos]) && bytes[pos] != ';' { ... return } } *)
    match drop_while skipped (rev (firstnN index bs)) with
    | [] => (index, index)
    | (_ :: _) as back =>
      let pos := lenN back - 1 in
      (scan_token_start bs pos, pos + 1)
    end
  end.

(* convert_pest_error: range, then the line/column either re-counted up to range.0 (when the range moved
   backwards) or taken from pest (Position::line_col at the failure offset); index := range.0 *)
Definition convert_pest_error (bs : list N) (index : N) : position :=
  let r := compute_error_range index bs in
  let lc := if fst r <? index then linecol_loop (firstnN (fst r) bs) 1 1
            else pest_line_col bs index in
  mkPos (fst lc) (snd lc) r (fst r).

(* E: canonical rendering "index line column a b" *)
Definition err_render (bs : list N) (index : N) : list N :=
  render_position (convert_pest_error bs index).

(* X: convert_pest_error at EVERY character-boundary offset of the text (the driver builds a pest error at each
   offset with pest::error::Error::new_from_pos and calls the public convert_pest_error);
   entries "p index line column a b" separated by commas *)
Fixpoint sweep_from (bs suffix : list N) (p : N) : list (list N) :=
  let here := match suffix with
              | [] => true
              | b :: _ => negb (is_cont b)
              end in
  (if here then [hexN p ++ 32 :: render_position (convert_pest_error bs p)] else [])
  ++ match suffix with
     | [] => []
     | _ :: r => sweep_from bs r (p + 1)
     end.
Fixpoint join_comma (l : list (list N)) : list N :=
  match l with
  | [] => []
  | [x] => x
  | x :: r => x ++ 44 :: join_comma r
  end.
Definition err_sweep_render (bs : list N) : list N := join_comma (sweep_from bs bs 0).

Definition all_ascii (bs : list N) : bool := forallb (fun b => b <? 128) bs.
