(* Derive/Naming.v - faithful model of the name mangling of cddl-derive
   (/repo/cddl-derive/src/codegen.rs): to_snake_case (2014-2051), is_rust_keyword (2053-2097),
   to_pascal_case (1977-2012), pascal_to_cddl_name (518-531), deduplicate_field_names (986-1012, as repaired by e9d7d94),
   the naming part of value_member_key_to_field / group_to_fields (959-970, 1074-1115) and the
   naming skeleton of collect_type_defs (535-598).

   Text is a list of character codes (N). The model is faithful on ASCII (codes < 128): there
   char::is_uppercase / is_lowercase / is_alphanumeric / to_lowercase / to_uppercase are the ASCII
   classes below. Codes >= 128 are outside the modelled domain (CDDL barewords and rule names are ASCII;
   non-ASCII text keys are checked on the generated code only, see lib/props/c17.py).

   No proofs in this file. *)
From Coq Require Import List NArith Bool String Ascii.
Import ListNotations.
Open Scope N_scope.

(* ---------- text helpers ---------- *)

Fixpoint s2n (s : string) : list N :=
  match s with
  | EmptyString => []
  | String a t => N_of_ascii a :: s2n t
  end.

Fixpoint list_eqb (a b : list N) : bool :=
  match a, b with
  | [], [] => true
  | x :: a', y :: b' => (x =? y) && list_eqb a' b'
  | _, _ => false
  end.

Definition memb (x : list N) (l : list (list N)) : bool := existsb (list_eqb x) l.

Definition US : N := 95.        (* '_' *)
Definition DASH : N := 45.      (* '-' *)

Definition is_upper (c : N) : bool := (65 <=? c) && (c <=? 90).
Definition is_lower (c : N) : bool := (97 <=? c) && (c <=? 122).
Definition is_digit (c : N) : bool := (48 <=? c) && (c <=? 57).
Definition is_alpha (c : N) : bool := is_upper c || is_lower c.
Definition is_alnum (c : N) : bool := is_alpha c || is_digit c.
Definition to_lower (c : N) : N := if is_upper c then c + 32 else c.
Definition to_upper (c : N) : N := if is_lower c then c - 32 else c.

(* ---------- is_rust_keyword (codegen.rs:2063, with the words added by 073a092): the list the code escapes ---------- *)

Definition code_keywords : list (list N) := map s2n
  [ "as"; "async"; "await"; "break"; "const"; "continue"; "crate"; "dyn"; "else"; "enum"; "extern";
    "false"; "fn"; "for"; "if"; "impl"; "in"; "let"; "loop"; "match"; "mod"; "move"; "mut"; "pub"; "ref";
    "return"; "self"; "Self"; "static"; "struct"; "super"; "trait"; "true"; "type"; "unsafe"; "use";
    "where"; "while"; "yield"; "box";
    "abstract"; "become"; "do"; "final"; "macro"; "override"; "priv"; "try"; "typeof"; "unsized"; "virtual" ]%string.

Definition is_rust_keyword (s : list N) : bool := memb s code_keywords.

(* Specification side (does not mention the code): the words that are not usable as a plain
   identifier in edition 2021 - The Rust Reference, "Keywords": strict keywords (incl. the 2018+
   async / await / dyn) and reserved keywords (incl. the 2018+ try). Weak keywords (union, 'static,
   macro_rules, raw, safe) are usable as identifiers and are not listed; gen is reserved from 2024 only. *)
Definition rust_reserved_2021 : list (list N) := map s2n
  [ "as"; "break"; "const"; "continue"; "crate"; "else"; "enum"; "extern"; "false"; "fn"; "for"; "if";
    "impl"; "in"; "let"; "loop"; "match"; "mod"; "move"; "mut"; "pub"; "ref"; "return"; "self"; "Self";
    "static"; "struct"; "super"; "trait"; "true"; "type"; "unsafe"; "use"; "where"; "while";
    "async"; "await"; "dyn";
    "abstract"; "become"; "box"; "do"; "final"; "macro"; "override"; "priv"; "typeof"; "unsized";
    "virtual"; "yield"; "try" ]%string.

Definition is_reserved (s : list N) : bool := memb s rust_reserved_2021.

(* ---------- to_snake_case (codegen.rs:2014) ---------- *)

(* the char loop; [racc] is `result` reversed, [first] is `i == 0` *)
Fixpoint snake_loop (s : list N) (first pu ps : bool) (racc : list N) : list N :=
  match s with
  | [] => racc
  | c :: t =>
    if is_upper c then
      let racc1 := if negb first && negb pu && negb ps then US :: racc else racc in
      snake_loop t false true false (to_lower c :: racc1)
    else if is_lower c || is_digit c then
      snake_loop t false false false (c :: racc)
    else
      let racc1 := match racc with
                   | [] => racc                                   (* !result.is_empty() *)
                   | x :: _ => if x =? US then racc else US :: racc   (* !result.ends_with('_') *)
                   end in
      snake_loop t false false true racc1
  end.

(* while result.ends_with('_') { result.pop(); }   on the reversed result *)
Fixpoint drop_us (r : list N) : list N :=
  match r with
  | x :: t => if x =? US then drop_us t else r
  | [] => []
  end.

(* everything before the keyword test *)
Definition snake_pre (s : list N) : list N :=
  let r := rev (drop_us (snake_loop s true false false [])) in
  match r with
  | [] => s2n "value"
  | c :: _ => if is_digit c then US :: r else r
  end.

Definition to_snake (s : list N) : list N :=
  let r := snake_pre s in
  if is_rust_keyword r then r ++ [US] else r.

(* ---------- to_pascal_case (codegen.rs:1977) ---------- *)

(* s.split(|c| !c.is_alphanumeric()).filter(|seg| !seg.is_empty()) ; [cur] is the current segment reversed *)
Fixpoint split_alnum (s : list N) (cur : list N) : list (list N) :=
  match s with
  | [] => match cur with [] => [] | _ => [rev cur] end
  | c :: t =>
    if is_alnum c then split_alnum t (c :: cur)
    else match cur with
         | [] => split_alnum t []
         | _ => rev cur :: split_alnum t []
         end
  end.

Definition seg_all_caps (seg : list N) : bool :=
  forallb (fun c => if is_alpha c then is_upper c else true) seg && existsb is_alpha seg.

Definition pascal_seg (seg : list N) : list N :=
  match seg with
  | [] => []
  | f :: rest => to_upper f :: (if seg_all_caps seg then map to_lower rest else rest)
  end.

Definition to_pascal (s : list N) : list N :=
  match List.concat (map pascal_seg (split_alnum s [])) with
  | [] => s2n "Unknown"
  | r => r
  end.

(* ---------- pascal_to_cddl_name (codegen.rs:518) ---------- *)

Fixpoint p2c_loop (s : list N) (first : bool) : list N :=
  match s with
  | [] => []
  | c :: t =>
    if is_upper c then (if first then [] else [DASH]) ++ to_lower c :: p2c_loop t false
    else c :: p2c_loop t false
  end.

Definition pascal_to_cddl (s : list N) : list N := p2c_loop s true.

(* ---------- decimal rendering of a count (format!("{}", n)) ---------- *)

Fixpoint dec_aux (fuel : nat) (n : N) (acc : list N) : list N :=
  match fuel with
  | O => acc
  | S f =>
    let acc' := (48 + n mod 10) :: acc in
    if n / 10 =? 0 then acc' else dec_aux f (n / 10) acc'
  end.

(* a number of k bits has at most k decimal digits *)
Definition dec (n : N) : list N := dec_aux (S (N.size_nat n)) n [].

(* ---------- deduplicate_field_names (codegen.rs:986) ---------- *)

Record field := { fname : list N; forig : list N }.

(* `seen: HashMap<String, usize>` as an association list; only look-ups and inserts are used *)
Fixpoint seen_get (seen : list (list N * N)) (k : list N) : N :=
  match seen with
  | [] => 0
  | (k', v) :: t => if list_eqb k k' then v else seen_get t k
  end.

Fixpoint seen_set (seen : list (list N * N)) (k : list N) (v : N) : list (list N * N) :=
  match seen with
  | [] => [(k, v)]
  | (k', v') :: t => if list_eqb k k' then (k', v) :: t else (k', v') :: seen_set t k v
  end.

Definition suffixed (base : list N) (k : N) : list N := base ++ [US] ++ dec k.

(* `while !taken.insert(unique) { n += 1; unique = base_n }` : the first n' >= n with base_n' not taken.
   Fuel-driven; None = out of fuel, excluded by dedup_total (at most |taken| candidates can be taken). *)
Fixpoint find_free (fuel : nat) (taken : list (list N)) (base : list N) (n : N) : option N :=
  match fuel with
  | O => None
  | S f => if memb (suffixed base n) taken then find_free f taken base (n + 1) else Some n
  end.

(* `taken: HashSet<String>` as a list (membership and insert only), `seen: HashMap<String, usize>` as above *)
Fixpoint dedup_loop (taken : list (list N)) (seen : list (list N * N)) (fs : list field) : option (list field) :=
  match fs with
  | [] => Some []
  | f :: t =>
    let base := fname f in
    let count := seen_get seen base + 1 in
    if 1 <? count then
      match find_free (S (List.length taken)) taken base (count - 1) with
      | None => None
      | Some n =>
        let unique := suffixed base n in
        let f' := {| fname := unique;
                     forig := if list_eqb (forig f) base then unique else forig f |} in
        match dedup_loop (unique :: taken) (seen_set seen base (n + 1)) t with
        | None => None
        | Some r => Some (f' :: r)
        end
      end
    else
      match dedup_loop taken (seen_set seen base count) t with
      | None => None
      | Some r => Some (f :: r)
      end
  end.

(* taken starts as the set of all field names of the struct *)
Definition dedup (fs : list field) : option (list field) := dedup_loop (map fname fs) [] fs.

(* ---------- field names of a struct generated from a map (group_to_fields) ---------- *)

Inductive keydesc :=
| KNamed (k : list N)     (* bareword key, or text-literal key (quotes already trimmed) *)
| KWild                   (* `* K => V` : MemberKey::Type1 -> field `entries` *)
| KNoKey.                 (* entry without member key -> field `value` *)

Definition field_of_key (k : keydesc) : field :=
  match k with
  | KNamed s => {| fname := to_snake s; forig := s |}
  | KWild => {| fname := s2n "entries"; forig := s2n "entries" |}
  | KNoKey => {| fname := s2n "value"; forig := s2n "value" |}
  end.

Definition struct_fields (ks : list keydesc) : option (list field) := dedup (map field_of_key ks).

(* the JSON member name serde uses for a field: #[serde(rename = original)] is emitted iff it differs *)
Definition serde_name (f : field) : list N := forig f.

(* ---------- type names emitted by collect_type_defs (codegen.rs:535) ---------- *)
(* rules abstracted to (is a type rule?, rule name); every rule is assumed to produce a definition
   (true for maps, arrays, aliases, literals, choices and group rules, which is what the check generates).
   Type rules sharing one PascalCase name are merged into one enum emitted at the first of them;
   group rules are never merged. *)

Fixpoint count_type_named (rules : list (bool * list N)) (n : list N) : N :=
  match rules with
  | [] => 0
  | (true, nm) :: t => (if list_eqb (to_pascal nm) n then 1 else 0) + count_type_named t n
  | (false, _) :: t => count_type_named t n
  end.

Fixpoint emit_loop (all : list (bool * list N)) (merged : list (list N)) (rs : list (bool * list N)) : list (list N) :=
  match rs with
  | [] => []
  | (true, nm) :: t =>
    let n := to_pascal nm in
    if 1 <? count_type_named all n
    then (if memb n merged then emit_loop all merged t else n :: emit_loop all (n :: merged) t)
    else n :: emit_loop all merged t
  | (false, nm) :: t => to_pascal nm :: emit_loop all merged t
  end.

Definition emit_names (rules : list (bool * list N)) : list (list N) := emit_loop rules [] rules.

(* ---------- collect_tags / render_tag_helpers (codegen.rs:1470-1600) ---------- *)
(* [uses] = the CDDL identifiers of the tagged prelude types (tdate time uri b64url b64legacy regexp) carried by
   the struct fields, in definition order then field order. The helper modules are emitted once per identifier, in
   the order of first use: `<ident>` followed by `<ident>_opt`, with '-' replaced by '_'. *)
Fixpoint collect_tags_loop (acc : list (list N)) (uses : list (list N)) : list (list N) :=
  match uses with
  | [] => acc
  | t :: r => if memb t acc then collect_tags_loop acc r else collect_tags_loop (acc ++ [t]) r
  end.

Definition collect_tags (uses : list (list N)) : list (list N) := collect_tags_loop [] uses.

Definition tag_module (ident : list N) : list N := map (fun c => if c =? DASH then US else c) ident.

Definition helper_modules (uses : list (list N)) : list (list N) :=
  flat_map (fun t => [tag_module t; tag_module t ++ s2n "_opt"]) (collect_tags uses).

(* ---------- identifier shape (specification side) ---------- *)

Definition ident_char (c : N) : bool := is_alnum c || (c =? US).

(* a plain ASCII Rust identifier: [A-Za-z_][A-Za-z0-9_]*, not the single "_" *)
Definition ident_shape (s : list N) : bool :=
  match s with
  | [] => false
  | c :: t => (is_alpha c || (c =? US)) && forallb ident_char t && negb (list_eqb s [US])
  end.

(* usable as a field / type name in edition 2021 *)
Definition ident_ok (s : list N) : bool := ident_shape s && negb (is_reserved s).

(* ---------- side conditions and classifiers used by the theorems (specification side) ---------- *)

(* number of occurrences of a name in a list *)
Fixpoint occN (b : list N) (l : list (list N)) : N :=
  match l with
  | [] => 0
  | x :: t => (if list_eqb b x then 1 else 0) + occN b t
  end.

(* a field keeps its JSON key through de-duplication when its key differs from its snake-case name or
   its name is unique in the struct (the negation is the classifier of finding kf-c17-dedup-renames-key) *)
Definition key_stable (names : list (list N)) (f : field) : bool :=
  negb (list_eqb (forig f) (fname f)) || (occN (fname f) names =? 1).

(* lower-case kebab-case names: segments [a-z][a-z0-9]* joined by single dashes *)
Definition lower_seg (seg : list N) : bool :=
  match seg with
  | [] => false
  | c :: t => is_lower c && forallb (fun x => is_lower x || is_digit x) t
  end.

Fixpoint kebab (segs : list (list N)) : list N :=
  match segs with
  | [] => []
  | [x] => x
  | x :: t => x ++ [DASH] ++ kebab t
  end.

(* ---------- canonical rendering for the oracle (lower-case hex) ---------- *)

Definition hex_digit (d : N) : N := if d <? 10 then 48 + d else 87 + d.
Definition hex_byte (c : N) : list N := [hex_digit ((c / 16) mod 16); hex_digit (c mod 16)].
Definition hex_str (s : list N) : list N := flat_map hex_byte s.

Fixpoint sep_concat (sep : list N) (l : list (list N)) : list N :=
  match l with
  | [] => []
  | [x] => x
  | x :: t => x ++ sep ++ sep_concat sep t
  end.

Definition render_field (f : field) : list N := hex_str (fname f) ++ [58] ++ hex_str (forig f).   (* name:orig *)
Definition render_fields (fs : list field) : list N := sep_concat [44] (map render_field fs).

Definition snake_render (s : list N) : list N := hex_str (to_snake s).
Definition pascal_render (s : list N) : list N := hex_str (to_pascal s).
Definition p2c_render (s : list N) : list N := hex_str (pascal_to_cddl s).
Definition fields_render (ks : list keydesc) : list N :=
  match struct_fields ks with
  | Some fs => render_fields fs
  | None => s2n "EFUEL"
  end.
Definition emit_render (rules : list (bool * list N)) : list N := sep_concat [44] (map hex_str (emit_names rules)).
Definition helpers_render (uses : list (list N)) : list N := sep_concat [44] (map hex_str (helper_modules uses)).

(* classifiers of the open findings, evaluated by the oracle on a failing case *)
Definition b2n (b : bool) : N := if b then 49 else 48.
Definition stable_render (ks : list keydesc) : list N :=
  let fs := map field_of_key ks in map (fun f => b2n (key_stable (map fname fs) f)) fs.
Definition identok_render (s : list N) : list N := [b2n (ident_ok s)].
