(* Derive/NamingShape.v - identifier shape of generated names, PascalCase collisions, type-name lists. *)
From Coq Require Import String Ascii List NArith ZArith Bool Lia.
From Coq Require Import ZifyBool ZifyNat ZifyN.
From Cddl Require Import Derive.Naming Derive.NamingProofs.
Import ListNotations.
Open Scope N_scope.
Ltac Zify.zify_post_hook ::= Z.div_mod_to_equations.
Arguments N.add : simpl never.
Arguments N.mul : simpl never.
Arguments N.sub : simpl never.

(* ------------------------------------------------------------------ *)
(* snake_case output is an identifier                                  *)
(* ------------------------------------------------------------------ *)

Definition snake_char (c : N) : bool := is_lower c || is_digit c || (c =? US).

Lemma snake_char_lower_of_upper : forall c, is_upper c = true -> snake_char (to_lower c) = true.
Proof.
  intros c H. unfold snake_char, to_lower. rewrite H. unfold is_upper in H. unfold is_lower, is_digit.
  apply andb_true_iff in H. destruct H as [H1 H2]. apply N.leb_le in H1, H2.
  replace (97 <=? c + 32) with true by (symmetry; apply N.leb_le; lia).
  replace (c + 32 <=? 122) with true by (symmetry; apply N.leb_le; lia). reflexivity.
Qed.

Lemma snake_char_us : snake_char US = true.
Proof. reflexivity. Qed.

Lemma snake_loop_chars : forall s first pu ps racc,
  forallb snake_char racc = true -> forallb snake_char (snake_loop s first pu ps racc) = true.
Proof.
  induction s as [|c t IH]; intros first pu ps racc H; cbn [snake_loop]; [exact H|].
  destruct (is_upper c) eqn:Eu.
  - apply IH. cbn [forallb]. rewrite (snake_char_lower_of_upper c Eu).
    destruct (negb first && negb pu && negb ps); cbn [forallb andb]; [rewrite snake_char_us|]; exact H.
  - destruct (is_lower c || is_digit c) eqn:El.
    + apply IH. cbn [forallb]. unfold snake_char at 1. rewrite El. exact H.
    + apply IH. destruct racc as [|x r]; [exact H|]. destruct (x =? US); [exact H|].
      cbn [forallb]. rewrite snake_char_us. exact H.
Qed.

Lemma drop_us_chars : forall r, forallb snake_char r = true -> forallb snake_char (drop_us r) = true.
Proof.
  induction r as [|x t IH]; intro H; [reflexivity|]. cbn [drop_us].
  destruct (x =? US); [apply IH; cbn [forallb] in H; apply andb_true_iff in H; tauto | exact H].
Qed.

Lemma drop_us_head : forall r x t, drop_us r = x :: t -> x <> US.
Proof.
  induction r as [|y r IH]; intros x t H; [discriminate|]. cbn [drop_us] in H.
  destruct (y =? US) eqn:E; [apply (IH x t H)|]. inversion H; subst. apply N.eqb_neq. exact E.
Qed.

Lemma rev_single : forall (l : list N) x, rev l = [x] -> l = [x].
Proof. intros l x H. apply (f_equal (@rev N)) in H. rewrite rev_involutive in H. exact H. Qed.

(* the part before keyword escaping: non-empty, [a-z0-9_] only, does not start with a digit, is not "_" *)
Lemma snake_pre_shape : forall s,
  exists c t, snake_pre s = c :: t /\ forallb snake_char (c :: t) = true /\ is_digit c = false /\ c :: t <> [US].
Proof.
  intro s. unfold snake_pre.
  set (d := drop_us (snake_loop s true false false [])).
  assert (Hc : forallb snake_char (rev d) = true).
  { rewrite forallb_rev. apply drop_us_chars. apply snake_loop_chars. reflexivity. }
  assert (Hu : rev d <> [US]).
  { intro E. apply rev_single in E. apply (drop_us_head _ _ _ E). reflexivity. }
  destruct (rev d) as [|c t] eqn:Er.
  - exists 118, (s2n "alue"). repeat split; [discriminate].
  - destruct (is_digit c) eqn:Ed.
    + exists US, (c :: t). repeat split; [|discriminate].
      cbn [forallb] in *. rewrite snake_char_us. exact Hc.
    + exists c, t. repeat split; assumption.
Qed.

Lemma snake_char_ident : forall c, snake_char c = true -> ident_char c = true.
Proof.
  intros c H. unfold snake_char in H. unfold ident_char, is_alnum, is_alpha.
  destruct (is_lower c), (is_digit c), (c =? US), (is_upper c); try reflexivity; discriminate.
Qed.

Lemma forallb_snake_ident : forall l, forallb snake_char l = true -> forallb ident_char l = true.
Proof.
  induction l as [|a l IH]; intro H; [reflexivity|]. cbn [forallb] in *.
  apply andb_true_iff in H. destruct H as [H1 H2]. rewrite (snake_char_ident a H1), (IH H2). reflexivity.
Qed.

Lemma snake_head_ok : forall c, snake_char c = true -> is_digit c = false -> (is_alpha c || (c =? US)) = true.
Proof.
  intros c H Hd. unfold snake_char in H. rewrite Hd in H. unfold is_alpha.
  destruct (is_lower c), (c =? US), (is_upper c); try reflexivity; discriminate.
Qed.

Theorem snake_ident_shape : forall s, ident_shape (to_snake s) = true.
Proof.
  intro s. destruct (snake_pre_shape s) as [c [t [E [Hc [Hd Hu]]]]].
  unfold to_snake. rewrite E. cbn [forallb] in Hc. apply andb_true_iff in Hc. destruct Hc as [Hc1 Hc2].
  destruct (is_rust_keyword (c :: t)).
  - cbn [app ident_shape]. rewrite (snake_head_ok c Hc1 Hd), forallb_app, (forallb_snake_ident t Hc2).
    cbn [forallb]. unfold ident_char at 1. rewrite N.eqb_refl, orb_true_r. cbn [andb].
    destruct t; cbn [app list_eqb]; [destruct (c =? US) | destruct (c =? US)]; reflexivity.
  - cbn [ident_shape]. rewrite (snake_head_ok c Hc1 Hd), (forallb_snake_ident t Hc2). cbn [andb].
    destruct (list_eqb (c :: t) [US]) eqn:El; [|reflexivity]. apply list_eqb_eq in El. contradiction.
Qed.

(* every generated field name is an identifier rustc accepts in edition 2021 *)
Theorem snake_ident_ok : forall s, ident_ok (to_snake s) = true.
Proof. intro s. unfold ident_ok. rewrite snake_ident_shape, snake_not_reserved. reflexivity. Qed.

(* snake_case output never contains an upper-case letter *)
Theorem snake_lowercase : forall s, forallb (fun c => negb (is_upper c)) (to_snake s) = true.
Proof.
  intro s. destruct (snake_pre_shape s) as [c [t [E [Hc _]]]].
  assert (Hl : forall l, forallb snake_char l = true -> forallb (fun c => negb (is_upper c)) l = true).
  { induction l as [|a l IH]; intro H; [reflexivity|]. cbn [forallb] in *.
    apply andb_true_iff in H. destruct H as [H1 H2]. rewrite (IH H2), andb_true_r.
    unfold snake_char, is_lower, is_digit in H1. unfold is_upper.
    destruct (65 <=? a) eqn:A1, (a <=? 90) eqn:A2; try reflexivity. exfalso.
    apply N.leb_le in A1, A2.
    destruct (97 <=? a) eqn:B1; [apply N.leb_le in B1; lia|].
    destruct (48 <=? a) eqn:B2, (a <=? 57) eqn:B3; cbn in H1;
      try (apply N.leb_le in B3; lia); try (apply N.eqb_eq in H1; unfold US in H1; lia). }
  unfold to_snake. rewrite E. destruct (is_rust_keyword (c :: t)); [|apply Hl; exact Hc].
  rewrite forallb_app. rewrite (Hl _ Hc). reflexivity.
Qed.

(* ------------------------------------------------------------------ *)
(* PascalCase: collisions, unusable names                              *)
(* ------------------------------------------------------------------ *)

(* Full statement (false of the code): forall a b, to_pascal a = to_pascal b -> a = b.
   Two distinct, valid CDDL rule names share one Rust type name. *)
Theorem pascal_injective_refuted : exists a b, a <> b /\ to_pascal a = to_pascal b.
Proof. exists (s2n "foo-bar"), (s2n "foo_bar"). split; [vm_compute; discriminate | vm_compute; reflexivity]. Qed.

(* Full statement (false of the code): forall s, ident_ok (to_pascal s) = true. *)
Theorem pascal_ident_ok_refuted :
  ident_ok (to_pascal (s2n "self")) = false /\ ident_ok (to_pascal (s2n "_1")) = false.
Proof. split; vm_compute; reflexivity. Qed.

(* positive part: on lower-case kebab-case names PascalCase is inverted by pascal_to_cddl_name,
   hence injective *)

Lemma lower_is_alnum : forall c, is_lower c = true -> is_alnum c = true.
Proof. intros c H. unfold is_alnum, is_alpha. rewrite H, orb_true_r. reflexivity. Qed.

Lemma lower_not_upper : forall c, is_lower c = true -> is_upper c = false.
Proof.
  intros c H. unfold is_lower in H. unfold is_upper. apply andb_true_iff in H. destruct H as [H1 H2].
  apply N.leb_le in H1. destruct (c <=? 90) eqn:E; [apply N.leb_le in E; lia | apply andb_false_r].
Qed.

Lemma digit_not_upper : forall c, is_digit c = true -> is_upper c = false.
Proof.
  intros c H. unfold is_digit in H. unfold is_upper. apply andb_true_iff in H. destruct H as [H1 H2].
  apply N.leb_le in H2. destruct (65 <=? c) eqn:E; [apply N.leb_le in E; lia | reflexivity].
Qed.

Definition tail_char (x : N) : bool := is_lower x || is_digit x.

Lemma tail_alnum : forall c, tail_char c = true -> is_alnum c = true.
Proof.
  intros c H. unfold tail_char in H. unfold is_alnum, is_alpha.
  destruct (is_lower c), (is_digit c), (is_upper c); try reflexivity; discriminate.
Qed.

Lemma tail_not_upper : forall c, tail_char c = true -> is_upper c = false.
Proof.
  intros c H. unfold tail_char in H. apply orb_true_iff in H.
  destruct H; [apply lower_not_upper | apply digit_not_upper]; assumption.
Qed.

Lemma split_alnum_run : forall seg rest cur, forallb is_alnum seg = true ->
  split_alnum (seg ++ rest) cur = split_alnum rest (rev seg ++ cur).
Proof.
  induction seg as [|c seg IH]; intros rest cur H; [reflexivity|].
  cbn [forallb] in H. apply andb_true_iff in H. destruct H as [H1 H2].
  cbn [app split_alnum rev]. rewrite H1, IH by exact H2. rewrite <- app_assoc. reflexivity.
Qed.

Lemma lower_seg_alnum : forall seg, lower_seg seg = true -> forallb is_alnum seg = true /\ seg <> [].
Proof.
  intros [|c t] H; [discriminate|]. cbn [lower_seg] in H. apply andb_true_iff in H. destruct H as [H1 H2].
  split; [|discriminate]. cbn [forallb]. rewrite (lower_is_alnum c H1). cbn [andb].
  rewrite forallb_forall in *. intros x Hx. apply tail_alnum. apply H2. exact Hx.
Qed.

Lemma split_kebab : forall segs, forallb lower_seg segs = true -> split_alnum (kebab segs) [] = segs.
Proof.
  induction segs as [|seg t IH]; intro H; [reflexivity|].
  cbn [forallb] in H. apply andb_true_iff in H. destruct H as [H1 H2].
  destruct (lower_seg_alnum seg H1) as [Ha Hne].
  destruct t as [|seg' t'].
  - cbn [kebab]. rewrite <- (app_nil_r seg) at 1. rewrite split_alnum_run by exact Ha.
    cbn [split_alnum]. rewrite app_nil_r. destruct (rev seg) eqn:E.
    + apply (f_equal (@rev N)) in E. rewrite rev_involutive in E. contradiction.
    + rewrite <- E, rev_involutive. reflexivity.
  - change (kebab (seg :: seg' :: t')) with (seg ++ [DASH] ++ kebab (seg' :: t')).
    rewrite split_alnum_run by exact Ha. cbn [app split_alnum]. rewrite app_nil_r.
    replace (is_alnum DASH) with false by reflexivity.
    destruct (rev seg) eqn:E.
    + apply (f_equal (@rev N)) in E. rewrite rev_involutive in E. contradiction.
    + rewrite <- E, rev_involutive, (IH H2). reflexivity.
Qed.

Lemma pascal_seg_lower : forall c t, is_lower c = true -> pascal_seg (c :: t) = (c - 32) :: t.
Proof.
  intros c t H. unfold pascal_seg, seg_all_caps. cbn [forallb]. unfold is_alpha at 1.
  rewrite H, orb_true_r, (lower_not_upper c H). cbn [andb]. unfold to_upper. rewrite H. reflexivity.
Qed.

Lemma upper_of_lower : forall c, is_lower c = true -> is_upper (c - 32) = true /\ to_lower (c - 32) = c.
Proof.
  intros c H. unfold is_lower in H. apply andb_true_iff in H. destruct H as [H1 H2]. apply N.leb_le in H1, H2.
  assert (U : is_upper (c - 32) = true).
  { unfold is_upper. apply andb_true_iff. split; apply N.leb_le; lia. }
  split; [exact U|]. unfold to_lower. rewrite U. lia.
Qed.

Lemma p2c_tail : forall t rest, forallb tail_char t = true -> p2c_loop (t ++ rest) false = t ++ p2c_loop rest false.
Proof.
  induction t as [|c t IH]; intros rest H; [reflexivity|].
  cbn [forallb] in H. apply andb_true_iff in H. destruct H as [H1 H2].
  cbn [app p2c_loop]. rewrite (tail_not_upper c H1), IH by exact H2. reflexivity.
Qed.

Lemma p2c_segs : forall segs first, forallb lower_seg segs = true -> segs <> [] ->
  p2c_loop (List.concat (map pascal_seg segs)) first = (if first then [] else [DASH]) ++ kebab segs.
Proof.
  induction segs as [|seg t IH]; intros first H Hne; [contradiction|].
  cbn [forallb] in H. apply andb_true_iff in H. destruct H as [H1 H2].
  destruct seg as [|c tl]; [discriminate|]. cbn [lower_seg] in H1. apply andb_true_iff in H1. destruct H1 as [Hc Ht].
  cbn [map List.concat]. rewrite (pascal_seg_lower c tl Hc). cbn [app p2c_loop].
  destruct (upper_of_lower c Hc) as [U L]. rewrite U, L.
  rewrite p2c_tail by exact Ht.
  destruct t as [|seg' t'].
  - cbn [map List.concat p2c_loop kebab]. rewrite app_nil_r. reflexivity.
  - rewrite (IH false H2) by discriminate.
    change (kebab ((c :: tl) :: seg' :: t')) with ((c :: tl) ++ [DASH] ++ kebab (seg' :: t')).
    destruct first; cbn [app]; reflexivity.
Qed.

Lemma concat_pascal_nonempty : forall segs, forallb lower_seg segs = true -> segs <> [] ->
  List.concat (map pascal_seg segs) <> [].
Proof.
  intros segs H Hne. destruct segs as [|[|c tl] t]; [contradiction | cbn in H; discriminate H | ].
  cbn [forallb lower_seg] in H. apply andb_true_iff in H. destruct H as [H _]. apply andb_true_iff in H. destruct H as [Hc _].
  cbn [map List.concat]. rewrite (pascal_seg_lower c tl Hc). discriminate.
Qed.

(* pascal_to_cddl_name inverts to_pascal_case on lower-case kebab-case rule names
   (this is also what the #[cddl] attribute macro relies on to find the rule of a struct) *)
Theorem pascal_roundtrip_kebab : forall segs, forallb lower_seg segs = true -> segs <> [] ->
  pascal_to_cddl (to_pascal (kebab segs)) = kebab segs.
Proof.
  intros segs H Hne. unfold to_pascal. rewrite (split_kebab segs H).
  pose proof (concat_pascal_nonempty segs H Hne) as Hc.
  destruct (List.concat (map pascal_seg segs)) as [|x r] eqn:E; [contradiction|].
  unfold pascal_to_cddl. rewrite <- E. rewrite (p2c_segs segs true H Hne). reflexivity.
Qed.

Theorem pascal_injective_on_kebab : forall a b,
  forallb lower_seg a = true -> a <> [] -> forallb lower_seg b = true -> b <> [] ->
  to_pascal (kebab a) = to_pascal (kebab b) -> kebab a = kebab b.
Proof.
  intros a b Ha Hna Hb Hnb E.
  rewrite <- (pascal_roundtrip_kebab a Ha Hna), <- (pascal_roundtrip_kebab b Hb Hnb), E. reflexivity.
Qed.

(* ------------------------------------------------------------------ *)
(* emitted type names                                                  *)
(* ------------------------------------------------------------------ *)

Definition pname (r : bool * list N) : list N := to_pascal (snd r).

Lemma list_eqb_sym : forall a b, list_eqb a b = list_eqb b a.
Proof.
  intros a b. destruct (list_eqb a b) eqn:E.
  - apply list_eqb_eq in E. subst. symmetry. apply list_eqb_refl.
  - symmetry. apply list_eqb_neq. apply list_eqb_neq in E. congruence.
Qed.

Lemma count_type_le_occ : forall all n, count_type_named all n <= occN n (map pname all).
Proof.
  induction all as [|[b nm] t IH]; intro n; cbn [count_type_named map occN]; [lia|].
  unfold pname at 1. cbn [snd]. rewrite (list_eqb_sym n (to_pascal nm)).
  specialize (IH n). destruct b; destruct (list_eqb (to_pascal nm) n); lia.
Qed.

Lemma occN_nodup_le1 : forall l n, NoDup l -> occN n l <= 1.
Proof.
  induction l as [|x l IH]; intros n H; cbn [occN]; [lia|].
  inversion H as [|y l' Hnin Hnd]; subst. specialize (IH n Hnd).
  destruct (list_eqb n x) eqn:E; [|lia]. apply list_eqb_eq in E. subst x.
  destruct (occN n l) eqn:O; [lia|]. exfalso. apply Hnin. apply occN_pos_In. lia.
Qed.

Lemma emit_loop_no_merge : forall all merged rs,
  (forall n, count_type_named all n <= 1) -> emit_loop all merged rs = map pname rs.
Proof.
  induction rs as [|[b nm] t IH]; intro H; [reflexivity|].
  cbn [emit_loop map]. unfold pname at 1. cbn [snd]. destruct b.
  - replace (1 <? count_type_named all (to_pascal nm)) with false
      by (symmetry; apply N.ltb_ge; apply H).
    rewrite IH by exact H. reflexivity.
  - rewrite IH by exact H. reflexivity.
Qed.

(* Full statement (false of the code, see emit_unique_refuted): forall rules, NoDup (emit_names rules)
   for rules with pairwise distinct CDDL names. It holds when the PascalCase names are distinct, and then
   nothing is merged. *)
Theorem emit_unique_partial : forall rules,
  NoDup (map pname rules) -> emit_names rules = map pname rules /\ NoDup (emit_names rules).
Proof.
  intros rules H.
  assert (E : emit_names rules = map pname rules).
  { unfold emit_names. apply emit_loop_no_merge. intro n.
    eapply N.le_trans; [apply count_type_le_occ | apply occN_nodup_le1; exact H]. }
  split; [exact E | rewrite E; exact H].
Qed.

Theorem emit_unique_refuted : exists rules,
  NoDup (map snd rules) /\ ~ NoDup (emit_names rules).
Proof.
  exists [(true, s2n "foo-bar"); (false, s2n "foo_bar")]. split.
  - cbn [map snd]. constructor; [|constructor; [intros []|constructor]].
    intros [H|[]]. vm_compute in H. discriminate.
  - vm_compute. intro H. apply NoDup_cons_iff in H. destruct H as [H _]. apply H. left. reflexivity.
Qed.

(* ------------------------------------------------------------------ *)
(* CBOR tag helper modules: once per identifier, in first-use order    *)
(* ------------------------------------------------------------------ *)

Lemma tags_loop_app : forall a b acc, collect_tags_loop acc (a ++ b) = collect_tags_loop (collect_tags_loop acc a) b.
Proof.
  induction a as [|t a IH]; intros b acc; [reflexivity|].
  cbn [app collect_tags_loop]. destruct (memb t acc); apply IH.
Qed.

Lemma tags_loop_prefix : forall l acc, exists rest, collect_tags_loop acc l = acc ++ rest.
Proof.
  induction l as [|t l IH]; intro acc; cbn [collect_tags_loop]; [exists []; symmetry; apply app_nil_r|].
  destruct (memb t acc); [apply IH|].
  destruct (IH (acc ++ [t])) as [rest E]. exists (t :: rest). rewrite E, <- app_assoc. reflexivity.
Qed.

Lemma tags_loop_In : forall l acc x, In x (collect_tags_loop acc l) <-> In x acc \/ In x l.
Proof.
  induction l as [|t l IH]; intros acc x; cbn [collect_tags_loop].
  - split; [left; assumption | intros [H|[]]; exact H].
  - destruct (memb t acc) eqn:E; rewrite IH; cbn [In].
    + apply memb_In in E. split; [intros [H|H]; auto | intros [H|[H|H]]; auto]. subst. left. exact E.
    + rewrite in_app_iff. cbn [In]. tauto.
Qed.

Lemma NoDup_app_snoc : forall (l : list (list N)) x, NoDup l -> ~ In x l -> NoDup (l ++ [x]).
Proof.
  induction l as [|a l IH]; intros x H Hn; cbn [app]; [constructor; [intros []|constructor]|].
  inversion H as [|y l' Ha Hl]; subst. constructor.
  - intro Hin. apply in_app_or in Hin. destruct Hin as [Hin|[Hin|[]]]; [exact (Ha Hin)|]. apply Hn. left. symmetry. exact Hin.
  - apply IH; [exact Hl|]. intro Hin. apply Hn. right. exact Hin.
Qed.

Lemma tags_loop_nodup : forall l acc, NoDup acc -> NoDup (collect_tags_loop acc l).
Proof.
  induction l as [|t l IH]; intros acc H; cbn [collect_tags_loop]; [exact H|].
  destruct (memb t acc) eqn:E; apply IH; [exact H|].
  apply NoDup_app_snoc. - exact H. - intro Hin. apply memb_In in Hin. congruence.
Qed.

(* each identifier exactly once *)
Theorem tags_nodup : forall uses, NoDup (collect_tags uses).
Proof. intro uses. apply tags_loop_nodup. constructor. Qed.

Theorem tags_complete : forall uses x, In x (collect_tags uses) <-> In x uses.
Proof. intros uses x. unfold collect_tags. rewrite tags_loop_In. cbn [In]. tauto. Qed.

(* first-use order: what is emitted for a prefix of the uses is a prefix of what is emitted, and a tag not
   used before comes next *)
Theorem tags_first_use_order : forall pre t post, ~ In t pre ->
  exists rest, collect_tags (pre ++ t :: post) = collect_tags pre ++ t :: rest.
Proof.
  intros pre t post H. unfold collect_tags. rewrite tags_loop_app. cbn [collect_tags_loop].
  destruct (memb t (collect_tags_loop [] pre)) eqn:E.
  - exfalso. apply H. apply memb_In in E. apply tags_loop_In in E. destruct E as [[]|E]. exact E.
  - destruct (tags_loop_prefix post (collect_tags_loop [] pre ++ [t])) as [rest Er].
    exists rest. rewrite Er, <- app_assoc. reflexivity.
Qed.
