(* Derive/ContainerProofs.v - the container chosen for a named map member admits (and gives back) every
   member shape the CDDL occurrence / nullability admits, on the documented cells; the cells where this
   fails are exhibited. All statements are about Derive/Container.v (decision table as the code computes
   it + the assumed serde semantics). *)
From Coq Require Import List NArith Bool Lia.
From Cddl Require Import Derive.Container.
Import ListNotations.
Open Scope N_scope.

Definition named (k : keyform) : bool := match k with KBare | KText => true | _ => false end.

(* every admitted shape deserialises *)
Theorem container_adequate_partial : forall o k e v ao s,
  named k = true -> documented_occ o = true -> documented_etype e = true ->
  cddl_admits o e v ao s = true ->
  exists r, de_field (written_type (field_desc o k e v)) s = Some r.
Proof.
  intros o k e v ao s Hk Ho He Ha.
  destruct k; try discriminate; destruct o; try discriminate; destruct e; try discriminate;
    destruct v; destruct s; cbn in Ha; try discriminate; cbn;
    repeat match goal with |- context [?x =? 0] => destruct (x =? 0) end; cbn; eauto.
Qed.

(* Full statement over all occurrence indicators (false of the code): the same without documented_occ. *)
Theorem container_adequate_refuted : exists o e v ao s,
  cddl_admits o e v ao s = true /\ de_field (written_type (field_desc o KBare e v)) s = None.
Proof. exists OStar, EPlain, VScalar, ONone, SOne. split; reflexivity. Qed.

(* `0*1 key: T` means the same as `? key: T` but is not generated as optional *)
Theorem container_adequate_refuted_exact : exists s,
  cddl_admits (OExact (Some 0) (Some 1)) EPlain VScalar ONone s = true /\
  de_field (written_type (field_desc (OExact (Some 0) (Some 1)) KBare EPlain VScalar)) s = None.
Proof. exists SAbsent. split; reflexivity. Qed.

(* Full statement (false of the code, see container_roundtrip_refuted): the same without the
   optional_nullable_null exclusion. Every admitted shape is written back unchanged. *)
Theorem container_roundtrip_partial : forall o k e v ao s,
  named k = true -> documented_occ o = true -> documented_etype e = true ->
  cddl_admits o e v ao s = true -> optional_nullable_null o e s = false ->
  roundtrip (field_desc o k e v) s = Some s.
Proof.
  intros o k e v ao s Hk Ho He Ha Hx.
  destruct k; try discriminate; destruct o; try discriminate; destruct e; try discriminate;
    destruct v; destruct s; cbn in Ha; try discriminate; cbn in Hx; try discriminate; unfold roundtrip; cbn;
    repeat match goal with |- context [?x =? 0] => destruct (x =? 0) end; reflexivity.
Qed.

Theorem container_roundtrip_refuted : exists o e v ao s s',
  documented_occ o = true /\ documented_etype e = true /\ cddl_admits o e v ao s = true /\
  roundtrip (field_desc o KBare e v) s = Some s' /\ s' <> s.
Proof.
  exists OOpt, ENullR, VScalar, ONone, SNull, SAbsent. repeat split; try reflexivity. discriminate.
Qed.

(* whatever is written back is again admitted by the schema (also in the excluded cell) *)
Theorem container_revalidates : forall o k e v ao s s',
  named k = true -> documented_occ o = true -> documented_etype e = true ->
  cddl_admits o e v ao s = true ->
  roundtrip (field_desc o k e v) s = Some s' -> cddl_admits o e v ao s' = true.
Proof.
  intros o k e v ao s s' Hk Ho He Ha Hr.
  destruct k; try discriminate; destruct o; try discriminate; destruct e; try discriminate;
    destruct v; destruct s; cbn in Ha; try discriminate; unfold roundtrip in Hr; cbn in Hr;
    repeat match type of Hr with context [?x =? 0] => destruct (x =? 0) end;
    inversion Hr; subst; cbn; try reflexivity; exact Ha.
Qed.

(* the decision itself, for named members: `?` gives Option<..> with skip_serializing_if ... *)
Theorem container_optional_is_option : forall k e v,
  named k = true ->
  written_type (field_desc OOpt k e v) = TOption (entry_type e v) /\ skips_none (field_desc OOpt k e v) = true.
Proof. intros k e v Hk. destruct k; try discriminate; split; reflexivity. Qed.

(* ... and `*`, `+`, n*m with m > 1 give a Vec<..>, whatever the key form (bareword or text) *)
Theorem container_star_is_vec : forall o k e v,
  named k = true -> is_vec_occ o = true -> fd_type (field_desc o k e v) = TVec (entry_type e v).
Proof. intros o k e v Hk Hv. destruct k; try discriminate; cbn [field_desc fd_type]; rewrite Hv; reflexivity. Qed.

(* single-entry arrays become Vec<T> independently of the occurrence; Vec admits every length *)
Theorem array_vec_admits_all : forall e n,
  documented_etype e = true -> de_val (TVec (entry_type e VScalar)) (SMany n) = Some (RMany n).
Proof. intros e n H. destruct e; try discriminate; cbn; destruct (n =? 0); reflexivity. Qed.
