(* Derive/NamingProofs.v - proofs about the naming model (Derive/Naming.v). *)
From Coq Require Import String Ascii List NArith ZArith Bool Lia.
From Coq Require Import ZifyBool ZifyNat ZifyN.
From Cddl Require Import Derive.Naming.
Import ListNotations.
Open Scope N_scope.
Ltac Zify.zify_post_hook ::= Z.div_mod_to_equations.
Arguments N.add : simpl never.
Arguments N.mul : simpl never.
Arguments N.div : simpl never.
Arguments N.modulo : simpl never.
Arguments N.sub : simpl never.

(* ------------------------------------------------------------------ *)
(* list_eqb, memb                                                      *)
(* ------------------------------------------------------------------ *)

Lemma list_eqb_eq : forall a b, list_eqb a b = true <-> a = b.
Proof.
  induction a as [|x a IH]; destruct b as [|y b]; cbn [list_eqb]; split; intro H; try discriminate; try reflexivity.
  - apply andb_true_iff in H. destruct H as [H1 H2]. apply N.eqb_eq in H1. apply IH in H2. congruence.
  - inversion H; subst. apply andb_true_iff. split; [apply N.eqb_refl | apply IH; reflexivity].
Qed.

Lemma list_eqb_refl : forall a, list_eqb a a = true.
Proof. intro a. apply list_eqb_eq. reflexivity. Qed.

Lemma list_eqb_neq : forall a b, list_eqb a b = false <-> a <> b.
Proof.
  intros a b. split; intro H.
  - intro E. apply list_eqb_eq in E. congruence.
  - destruct (list_eqb a b) eqn:E; [apply list_eqb_eq in E; contradiction | reflexivity].
Qed.

Lemma memb_In : forall x l, memb x l = true <-> In x l.
Proof.
  intros x l. unfold memb. rewrite existsb_exists. split.
  - intros [y [Hy E]]. apply list_eqb_eq in E. subst. exact Hy.
  - intro H. exists x. split; [exact H | apply list_eqb_refl].
Qed.

(* ------------------------------------------------------------------ *)
(* occN                                                                *)
(* ------------------------------------------------------------------ *)

Lemma occN_app : forall b l1 l2, occN b (l1 ++ l2) = occN b l1 + occN b l2.
Proof. induction l1 as [|x l1 IH]; intro l2; cbn [occN app]; [lia | rewrite IH; lia]. Qed.

Lemma occN_snoc : forall b l n, occN b (l ++ [n]) = occN b l + (if list_eqb b n then 1 else 0).
Proof. intros. rewrite occN_app. cbn [occN]. lia. Qed.

Lemma occN_pos_In : forall b l, 0 < occN b l -> In b l.
Proof.
  induction l as [|x l IH]; cbn [occN]; intro H; [lia|].
  destruct (list_eqb b x) eqn:E.
  - left. apply list_eqb_eq in E. congruence.
  - right. apply IH. lia.
Qed.

Lemma occN_In_pos : forall b l, In b l -> 0 < occN b l.
Proof.
  induction l as [|x l IH]; cbn [occN In]; intro H; [contradiction|].
  destruct H as [H|H].
  - subst. rewrite list_eqb_refl. lia.
  - apply IH in H. destruct (list_eqb b x); lia.
Qed.

(* ------------------------------------------------------------------ *)
(* the `seen` map holds the number of earlier occurrences              *)
(* ------------------------------------------------------------------ *)

Lemma seen_get_set_same : forall seen k v, seen_get (seen_set seen k v) k = v.
Proof.
  induction seen as [|[k' v'] t IH]; intros k v; cbn [seen_set seen_get].
  - rewrite list_eqb_refl. reflexivity.
  - destruct (list_eqb k k') eqn:E; cbn [seen_get]; rewrite E; [reflexivity | apply IH].
Qed.

Lemma seen_get_set_other : forall seen k v b, b <> k -> seen_get (seen_set seen k v) b = seen_get seen b.
Proof.
  induction seen as [|[k' v'] t IH]; intros k v b Hne; cbn [seen_set seen_get].
  - apply list_eqb_neq in Hne. rewrite Hne. reflexivity.
  - destruct (list_eqb k k') eqn:E; cbn [seen_get].
    + apply list_eqb_eq in E. subst k'. apply list_eqb_neq in Hne. rewrite Hne. reflexivity.
    + destruct (list_eqb b k'); [reflexivity | apply IH; exact Hne].
Qed.

Definition seen_ok (seen : list (list N * N)) (p : list (list N)) : Prop :=
  forall b, seen_get seen b = occN b p.

Lemma seen_ok_nil : seen_ok [] [].
Proof. intro b. reflexivity. Qed.

Lemma seen_ok_step : forall seen p n, seen_ok seen p ->
  seen_ok (seen_set seen n (seen_get seen n + 1)) (p ++ [n]).
Proof.
  intros seen p n H b. rewrite occN_snoc.
  destruct (list_eqb b n) eqn:E.
  - apply list_eqb_eq in E. subst b. rewrite seen_get_set_same. rewrite H. reflexivity.
  - apply list_eqb_neq in E. rewrite seen_get_set_other by exact E. rewrite H. lia.
Qed.

(* ------------------------------------------------------------------ *)
(* length, first occurrences, identity on distinct names               *)
(* ------------------------------------------------------------------ *)

Lemma dedup_loop_length : forall fs seen, length (dedup_loop seen fs) = length fs.
Proof. induction fs as [|f t IH]; intro seen; cbn [dedup_loop length]; [reflexivity | rewrite IH; reflexivity]. Qed.

Theorem dedup_preserves_length : forall fs, length (dedup fs) = length fs.
Proof. intro fs. apply dedup_loop_length. Qed.

Lemma keeps_first_gen : forall pre seen p f post,
  seen_ok seen p -> occN (fname f) p = 0 -> ~ In (fname f) (map fname pre) ->
  exists o1 o2, dedup_loop seen (pre ++ f :: post) = o1 ++ f :: o2 /\ length o1 = length pre.
Proof.
  induction pre as [|g pre IH]; intros seen p f post Hok Hocc Hnin.
  - exists [], (dedup_loop (seen_set seen (fname f) (seen_get seen (fname f) + 1)) post).
    split; [|reflexivity].
    cbn [app dedup_loop]. rewrite (Hok (fname f)), Hocc.
    replace (1 <? 0 + 1) with false by (symmetry; apply N.ltb_ge; lia). reflexivity.
  - cbn [app dedup_loop].
    destruct (IH (seen_set seen (fname g) (seen_get seen (fname g) + 1)) (p ++ [fname g]) f post) as [o1 [o2 [E L]]].
    + apply seen_ok_step. exact Hok.
    + rewrite occN_snoc, Hocc.
      destruct (list_eqb (fname f) (fname g)) eqn:E; [|reflexivity].
      apply list_eqb_eq in E. exfalso. apply Hnin. cbn [map In]. left. congruence.
    + intro H. apply Hnin. cbn [map In]. right. exact H.
    + eexists (_ :: o1), o2. split; [cbn [app]; rewrite E; reflexivity | cbn [length]; rewrite L; reflexivity].
Qed.

(* the first field carrying a name keeps its name and its JSON key *)
Theorem dedup_keeps_first : forall pre f post,
  ~ In (fname f) (map fname pre) ->
  exists o1 o2, dedup (pre ++ f :: post) = o1 ++ f :: o2 /\ length o1 = length pre.
Proof.
  intros pre f post H. unfold dedup. apply (keeps_first_gen pre [] [] f post seen_ok_nil); [reflexivity | exact H].
Qed.

Lemma dedup_id_gen : forall fs seen p,
  seen_ok seen p -> NoDup (map fname fs) -> (forall f, In f fs -> occN (fname f) p = 0) ->
  dedup_loop seen fs = fs.
Proof.
  induction fs as [|f t IH]; intros seen p Hok Hnd Hp; [reflexivity|].
  cbn [dedup_loop]. rewrite (Hok (fname f)), (Hp f (or_introl eq_refl)).
  replace (1 <? 0 + 1) with false by (symmetry; apply N.ltb_ge; lia).
  f_equal. cbn [map] in Hnd. inversion Hnd as [|x l Hnin Hnd']; subst.
  apply (IH _ (p ++ [fname f])).
  - replace (0 + 1) with (seen_get seen (fname f) + 1) by (rewrite (Hok (fname f)), (Hp f (or_introl eq_refl)); reflexivity).
    apply seen_ok_step. exact Hok.
  - exact Hnd'.
  - intros g Hg. rewrite occN_snoc, (Hp g (or_intror Hg)).
    destruct (list_eqb (fname g) (fname f)) eqn:E; [|reflexivity].
    apply list_eqb_eq in E. exfalso. apply Hnin. rewrite <- E. apply in_map. exact Hg.
Qed.

(* nothing is renamed when the names are already distinct *)
Theorem dedup_id_on_nodup : forall fs, NoDup (map fname fs) -> dedup fs = fs.
Proof.
  intros fs H. unfold dedup. apply (dedup_id_gen fs [] [] seen_ok_nil H). intros; reflexivity.
Qed.

(* ------------------------------------------------------------------ *)
(* names after de-duplication: closed form                             *)
(* ------------------------------------------------------------------ *)

Fixpoint rename_spec (p : list (list N)) (l : list (list N)) : list (list N) :=
  match l with
  | [] => []
  | n :: t => (if occN n p =? 0 then n else suffixed n (occN n p)) :: rename_spec (p ++ [n]) t
  end.

Lemma dedup_loop_names : forall fs seen p, seen_ok seen p ->
  map fname (dedup_loop seen fs) = rename_spec p (map fname fs).
Proof.
  induction fs as [|f t IH]; intros seen p Hok; [reflexivity|].
  cbn [dedup_loop map rename_spec]. rewrite (IH _ (p ++ [fname f])) by (apply seen_ok_step; exact Hok).
  f_equal. rewrite (Hok (fname f)).
  destruct (occN (fname f) p =? 0) eqn:E.
  - apply N.eqb_eq in E. rewrite E. replace (1 <? 0 + 1) with false by (symmetry; apply N.ltb_ge; lia). reflexivity.
  - apply N.eqb_neq in E. replace (1 <? occN (fname f) p + 1) with true by (symmetry; apply N.ltb_lt; lia).
    cbn [fname]. replace (occN (fname f) p + 1 - 1) with (occN (fname f) p) by lia. reflexivity.
Qed.

(* ------------------------------------------------------------------ *)
(* decimal rendering: digits only, never empty, injective              *)
(* ------------------------------------------------------------------ *)

Definition dval (l : list N) : N := fold_left (fun a c => a * 10 + (c - 48)) l 0.

Lemma dval_snoc : forall l d, dval (l ++ [d]) = dval l * 10 + (d - 48).
Proof. intros. unfold dval. rewrite fold_left_app. reflexivity. Qed.

Lemma dec_aux_app : forall fuel n acc, dec_aux fuel n acc = dec_aux fuel n [] ++ acc.
Proof.
  induction fuel as [|f IH]; intros n acc; cbn [dec_aux]; [reflexivity|].
  destruct (n / 10 =? 0); [reflexivity|].
  rewrite (IH (n / 10) (_ :: acc)), (IH (n / 10) [_]). rewrite <- app_assoc. reflexivity.
Qed.

Lemma dec_aux_S : forall f n acc, dec_aux (S f) n acc =
  if n / 10 =? 0 then (48 + n mod 10) :: acc else dec_aux f (n / 10) ((48 + n mod 10) :: acc).
Proof. reflexivity. Qed.

Lemma dec_aux_val : forall fuel n, n < 2 ^ N.of_nat fuel -> dval (dec_aux (S fuel) n []) = n.
Proof.
  induction fuel as [|f IH]; intros n Hn.
  - cbn in Hn. assert (n = 0) by lia. subst. reflexivity.
  - rewrite dec_aux_S. destruct (n / 10 =? 0) eqn:E.
    + apply N.eqb_eq in E. unfold dval. cbn [fold_left]. lia.
    + apply N.eqb_neq in E. rewrite dec_aux_app, dval_snoc. rewrite IH; [lia|].
      rewrite Nat2N.inj_succ, N.pow_succ_r' in Hn. lia.
Qed.

Lemma pos_lt_pow_size : forall p, N.pos p < 2 ^ N.of_nat (Pos.size_nat p).
Proof.
  induction p as [p IH|p IH|]; cbn [Pos.size_nat]; rewrite ?Nat2N.inj_succ, ?N.pow_succ_r'; cbn; lia.
Qed.

Lemma lt_pow_size : forall n, n < 2 ^ N.of_nat (N.size_nat n).
Proof. destruct n as [|p]; [cbn; lia | apply pos_lt_pow_size]. Qed.

Lemma dec_val : forall n, dval (dec n) = n.
Proof. intro n. unfold dec. apply dec_aux_val. apply lt_pow_size. Qed.

Lemma dec_inj : forall a b, dec a = dec b -> a = b.
Proof. intros a b H. rewrite <- (dec_val a), <- (dec_val b), H. reflexivity. Qed.

Lemma dec_aux_digits : forall fuel n acc, forallb is_digit acc = true -> forallb is_digit (dec_aux fuel n acc) = true.
Proof.
  induction fuel as [|f IH]; intros n acc H; cbn [dec_aux]; [exact H|].
  assert (Hd : forallb is_digit ((48 + n mod 10) :: acc) = true).
  { cbn [forallb]. rewrite H, andb_true_r. unfold is_digit. apply andb_true_iff. split; apply N.leb_le; lia. }
  destruct (n / 10 =? 0); [exact Hd | apply IH; exact Hd].
Qed.

Lemma dec_digits : forall n, forallb is_digit (dec n) = true.
Proof. intro n. unfold dec. apply dec_aux_digits. reflexivity. Qed.

Lemma dec_aux_nonempty : forall fuel n acc, acc <> [] -> dec_aux fuel n acc <> [].
Proof.
  induction fuel as [|f IH]; intros n acc H; cbn [dec_aux]; [exact H|].
  destruct (n / 10 =? 0); [discriminate | apply IH; discriminate].
Qed.

Lemma dec_nonempty : forall n, dec n <> [].
Proof.
  intro n. unfold dec. cbn [dec_aux]. destruct (n / 10 =? 0); [discriminate | apply dec_aux_nonempty; discriminate].
Qed.

(* splitting at the last underscore is unique *)
Lemma split_at_sep : forall x x' y y' : list N,
  forallb is_digit x = true -> forallb is_digit x' = true ->
  x ++ US :: y = x' ++ US :: y' -> x = x' /\ y = y'.
Proof.
  induction x as [|a x IH]; intros x' y y' Hx Hx' E; destruct x' as [|a' x']; cbn [app] in E.
  - inversion E. split; reflexivity.
  - inversion E; subst. cbn [forallb] in Hx'. vm_compute in Hx'. discriminate.
  - inversion E; subst. cbn [forallb] in Hx. vm_compute in Hx. discriminate.
  - inversion E; subst. cbn [forallb] in Hx, Hx'. apply andb_true_iff in Hx, Hx'.
    destruct (IH x' y y') as [E1 E2]; try tauto. subst. split; reflexivity.
Qed.

Lemma forallb_rev : forall (f : N -> bool) l, forallb f (rev l) = forallb f l.
Proof.
  intros f l. induction l as [|a l IH]; [reflexivity|].
  cbn [rev forallb]. rewrite forallb_app, IH. cbn [forallb]. rewrite andb_true_r. apply andb_comm.
Qed.

Lemma suffixed_inj : forall b b' k k', suffixed b k = suffixed b' k' -> b = b' /\ k = k'.
Proof.
  intros b b' k k' E. unfold suffixed in E. cbn [app] in E.
  apply (f_equal (@rev N)) in E. rewrite !rev_app_distr in E. cbn [rev] in E. rewrite <- !app_assoc in E. cbn [app] in E.
  apply split_at_sep in E; try (rewrite forallb_rev; apply dec_digits).
  destruct E as [E1 E2]. apply (f_equal (@rev N)) in E1, E2. rewrite !rev_involutive in E1, E2.
  split; [exact E2 | apply dec_inj; exact E1].
Qed.

(* ------------------------------------------------------------------ *)
(* uniqueness of the de-duplicated names                               *)
(* ------------------------------------------------------------------ *)

Lemma strip_prefix_app : forall m x, strip_prefix m (m ++ x) = Some x.
Proof. induction m as [|a m IH]; intro x; cbn [strip_prefix app]; [reflexivity | rewrite N.eqb_refl; apply IH]. Qed.

Lemma suffixed_has_suffix : forall m k, has_num_suffix_of m (suffixed m k) = true.
Proof.
  intros m k. unfold has_num_suffix_of, suffixed. rewrite strip_prefix_app. cbn [app].
  pose proof (dec_digits k) as Hd. pose proof (dec_nonempty k) as Hn.
  destruct (dec k) as [|d ds]; [contradiction|]. rewrite N.eqb_refl. exact Hd.
Qed.

Lemma clash_free_spec : forall names m n k,
  clash_free names = true -> In m names -> In n names -> 2 <= occN m names -> n <> suffixed m k.
Proof.
  intros names m n k H Hm Hn Hocc E. unfold clash_free in H. rewrite forallb_forall in H.
  specialize (H m Hm). apply orb_true_iff in H. destruct H as [H|H].
  - apply N.leb_le in H. lia.
  - rewrite forallb_forall in H. specialize (H n Hn). subst n. rewrite suffixed_has_suffix in H. discriminate.
Qed.

(* what the renamed list contains: an untouched first occurrence, or base_k with k counting earlier occurrences *)
Lemma rename_spec_In : forall l p x, In x (rename_spec p l) ->
  (In x l /\ occN x p = 0) \/
  (exists n k, In n l /\ 1 <= k /\ occN n p <= k /\ k < occN n p + occN n l /\ x = suffixed n k).
Proof.
  induction l as [|n t IH]; intros p x H; [contradiction|].
  cbn [rename_spec In] in H. destruct H as [H|H].
  - destruct (occN n p =? 0) eqn:E.
    + apply N.eqb_eq in E. left. subst x. split; [left; reflexivity | exact E].
    + apply N.eqb_neq in E. right. exists n, (occN n p). cbn [occN]. rewrite list_eqb_refl.
      repeat split; try lia; [left; reflexivity | symmetry; exact H].
  - apply IH in H. destruct H as [[H1 H2]|[m [k [H1 [H2 [H3 [H4 H5]]]]]]].
    + left. split; [right; exact H1|]. rewrite occN_snoc in H2. lia.
    + right. exists m, k. rewrite occN_snoc in H3, H4. cbn [occN].
      repeat split; try assumption; [right; exact H1 | | ].
      * destruct (list_eqb m n); lia.
      * destruct (list_eqb m n); lia.
Qed.

Lemma rename_spec_nodup : forall l p, clash_free (p ++ l) = true -> NoDup (rename_spec p l).
Proof.
  induction l as [|n t IH]; intros p Hcf; [constructor|].
  cbn [rename_spec]. constructor.
  - intro Hin. apply rename_spec_In in Hin.
    assert (Hn_all : In n (p ++ n :: t)) by (apply in_or_app; right; left; reflexivity).
    destruct (occN n p =? 0) eqn:E.
    + apply N.eqb_eq in E. destruct Hin as [[H1 H2]|[m [k [H1 [H2 [H3 [H4 H5]]]]]]].
      * rewrite occN_snoc, list_eqb_refl in H2. lia.
      * (* n = suffixed m k with m occurring at least twice in p ++ n :: t *)
        refine (clash_free_spec (p ++ n :: t) m n k Hcf _ Hn_all _ H5).
        -- apply in_or_app. right. right. exact H1.
        -- rewrite occN_app. cbn [occN]. rewrite occN_snoc in H3, H4. destruct (list_eqb m n); lia.
    + apply N.eqb_neq in E. destruct Hin as [[H1 H2]|[m [k [H1 [H2 [H3 [H4 H5]]]]]]].
      * (* the generated name is also a later original name *)
        refine (clash_free_spec (p ++ n :: t) n (suffixed n (occN n p)) (occN n p) Hcf Hn_all _ _ eq_refl).
        -- apply in_or_app. right. right. exact H1.
        -- rewrite occN_app. cbn [occN]. rewrite list_eqb_refl. lia.
      * apply suffixed_inj in H5. destruct H5 as [E1 E2]. subst m k.
        rewrite occN_snoc, list_eqb_refl in H3. lia.
  - apply IH. rewrite <- app_assoc. exact Hcf.
Qed.

(* Full statement (false of the code, see dedup_unique_refuted):
     forall fs, NoDup (map fname (dedup fs)).
   It holds when no field name is a repeated field name followed by `_<digits>`. *)
Theorem dedup_unique_partial : forall fs,
  clash_free (map fname fs) = true -> NoDup (map fname (dedup fs)).
Proof.
  intros fs H. unfold dedup. rewrite (dedup_loop_names fs [] [] seen_ok_nil).
  apply rename_spec_nodup. exact H.
Qed.

Definition f_of (n o : string) : field := {| fname := s2n n; forig := s2n o |}.

Theorem dedup_unique_refuted : exists fs, ~ NoDup (map fname (dedup fs)).
Proof.
  exists [f_of "a" "a"; f_of "a_1" "a_1"; f_of "a" "a"]%string.
  vm_compute. intro H.
  apply NoDup_cons_iff in H. destruct H as [_ H].
  apply NoDup_cons_iff in H. destruct H as [H _].
  apply H. left. reflexivity.
Qed.

(* ------------------------------------------------------------------ *)
(* JSON keys through de-duplication                                    *)
(* ------------------------------------------------------------------ *)

Lemma dedup_key_gen : forall fs seen p names,
  seen_ok seen p -> names = p ++ map fname fs ->
  Forall2 (fun f f' => key_stable names f = true -> forig f' = forig f) fs (dedup_loop seen fs).
Proof.
  induction fs as [|f t IH]; intros seen p names Hok Hn; [constructor|].
  cbn [dedup_loop]. constructor.
  - intro Hks. rewrite (Hok (fname f)).
    destruct (1 <? occN (fname f) p + 1) eqn:E; [|reflexivity].
    cbn [forig]. destruct (list_eqb (forig f) (fname f)) eqn:Eo; [|reflexivity].
    exfalso. unfold key_stable in Hks. rewrite Eo in Hks. cbn [negb orb] in Hks.
    apply N.eqb_eq in Hks. apply N.ltb_lt in E. subst names.
    rewrite occN_app in Hks. cbn [map occN] in Hks. rewrite list_eqb_refl in Hks. lia.
  - apply (IH _ (p ++ [fname f])); [apply seen_ok_step; exact Hok|].
    subst names. rewrite <- app_assoc. reflexivity.
Qed.

(* Full statement (false of the code, see dedup_keeps_key_refuted):
     forall fs, map forig (dedup fs) = map forig fs     for fields that come from a named key.
   Pointwise it holds for every field whose key differs from its name, or whose name is unique. *)
Theorem dedup_keeps_key_partial : forall fs,
  Forall2 (fun f f' => key_stable (map fname fs) f = true -> forig f' = forig f) fs (dedup fs).
Proof. intro fs. unfold dedup. apply (dedup_key_gen fs [] [] _ seen_ok_nil). reflexivity. Qed.

Theorem dedup_keeps_key_refuted : exists ks,
  map serde_name (struct_fields (map KNamed ks)) <> ks.
Proof.
  exists [s2n "foo-bar"; s2n "foo_bar"]. vm_compute. intro H. discriminate H.
Qed.

(* ------------------------------------------------------------------ *)
(* keyword escaping                                                    *)
(* ------------------------------------------------------------------ *)

Lemma last_snoc : forall (l : list N) x d, last (l ++ [x]) d = x.
Proof.
  induction l as [|a l IH]; intros x d; [reflexivity|].
  cbn [app]. destruct (l ++ [x]) eqn:E; [destruct l; discriminate|]. rewrite <- E. cbn [last].
  rewrite E. rewrite <- E. apply IH.
Qed.

Lemma reserved_no_trailing_us : forallb (fun w => negb (last w 0 =? US)) rust_reserved_2021 = true.
Proof. vm_compute. reflexivity. Qed.

Lemma code_kw_no_trailing_us : forallb (fun w => negb (last w 0 =? US)) code_keywords = true.
Proof. vm_compute. reflexivity. Qed.

Lemma snoc_us_not_in : forall l r, forallb (fun w => negb (last w 0 =? US)) l = true -> memb (r ++ [US]) l = false.
Proof.
  intros l r H. destruct (memb (r ++ [US]) l) eqn:E; [|reflexivity].
  apply memb_In in E. rewrite forallb_forall in H. specialize (H _ E).
  rewrite last_snoc, N.eqb_refl in H. discriminate.
Qed.

(* the escaped name is never one of the words the code treats as keywords *)
Theorem snake_not_keyword : forall s, is_rust_keyword (to_snake s) = false.
Proof.
  intro s. unfold to_snake. destruct (is_rust_keyword (snake_pre s)) eqn:E; [|exact E].
  apply snoc_us_not_in. exact code_kw_no_trailing_us.
Qed.

(* Full statement (false of the code, see snake_not_reserved_refuted):
     forall s, is_reserved (to_snake s) = false.
   It holds unless the un-escaped name is one of the reserved words missing from is_rust_keyword. *)
Theorem snake_not_reserved_partial : forall s,
  memb (snake_pre s) unescaped_reserved = false -> is_reserved (to_snake s) = false.
Proof.
  intros s H. unfold to_snake. destruct (is_rust_keyword (snake_pre s)) eqn:E.
  - apply snoc_us_not_in. exact reserved_no_trailing_us.
  - destruct (is_reserved (snake_pre s)) eqn:R; [|reflexivity].
    exfalso. assert (Hin : In (snake_pre s) unescaped_reserved).
    { unfold unescaped_reserved. apply filter_In. split; [apply memb_In; exact R | rewrite E; reflexivity]. }
    apply memb_In in Hin. congruence.
Qed.

Theorem snake_not_reserved_refuted : exists s, is_reserved (to_snake s) = true.
Proof. exists (s2n "do"). vm_compute. reflexivity. Qed.

(* the list of reserved words the code does not escape *)
Lemma unescaped_reserved_list : unescaped_reserved =
  map s2n ["abstract"; "become"; "do"; "final"; "macro"; "override"; "priv"; "typeof"; "unsized"; "virtual"; "try"]%string.
Proof. vm_compute. reflexivity. Qed.

(* every word the code escapes is reserved: nothing is escaped needlessly *)
Lemma code_keywords_reserved : forallb is_reserved code_keywords = true.
Proof. vm_compute. reflexivity. Qed.
