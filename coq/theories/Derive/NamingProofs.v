(* Derive/NamingProofs.v - proofs about the naming model (Derive/Naming.v). *)
From Coq Require Import String Ascii List NArith ZArith Bool Lia.
From Coq Require Import ZifyBool ZifyNat ZifyN.
From Cddl Require Import Derive.Naming.
Import ListNotations.
Open Scope N_scope.
Ltac Zify.zify_post_hook ::= Z.div_mod_to_equations.
Arguments N.add : simpl never.
Arguments N.mul : simpl never.
Arguments N.div : simpl never.
Arguments N.modulo : simpl never.
Arguments N.sub : simpl never.

(* ------------------------------------------------------------------ *)
(* list_eqb, memb                                                      *)
(* ------------------------------------------------------------------ *)

Lemma list_eqb_eq : forall a b, list_eqb a b = true <-> a = b.
Proof.
  induction a as [|x a IH]; destruct b as [|y b]; cbn [list_eqb]; split; intro H; try discriminate; try reflexivity.
  - apply andb_true_iff in H. destruct H as [H1 H2]. apply N.eqb_eq in H1. apply IH in H2. congruence.
  - inversion H; subst. apply andb_true_iff. split; [apply N.eqb_refl | apply IH; reflexivity].
Qed.

Lemma list_eqb_refl : forall a, list_eqb a a = true.
Proof. intro a. apply list_eqb_eq. reflexivity. Qed.

Lemma list_eqb_neq : forall a b, list_eqb a b = false <-> a <> b.
Proof.
  intros a b. split; intro H.
  - intro E. apply list_eqb_eq in E. congruence.
  - destruct (list_eqb a b) eqn:E; [apply list_eqb_eq in E; contradiction | reflexivity].
Qed.

Lemma memb_In : forall x l, memb x l = true <-> In x l.
Proof.
  intros x l. unfold memb. rewrite existsb_exists. split.
  - intros [y [Hy E]]. apply list_eqb_eq in E. subst. exact Hy.
  - intro H. exists x. split; [exact H | apply list_eqb_refl].
Qed.

(* ------------------------------------------------------------------ *)
(* occN                                                                *)
(* ------------------------------------------------------------------ *)

Lemma occN_app : forall b l1 l2, occN b (l1 ++ l2) = occN b l1 + occN b l2.
Proof. induction l1 as [|x l1 IH]; intro l2; cbn [occN app]; [lia | rewrite IH; lia]. Qed.

Lemma occN_snoc : forall b l n, occN b (l ++ [n]) = occN b l + (if list_eqb b n then 1 else 0).
Proof. intros. rewrite occN_app. cbn [occN]. lia. Qed.

Lemma occN_pos_In : forall b l, 0 < occN b l -> In b l.
Proof.
  induction l as [|x l IH]; cbn [occN]; intro H; [lia|].
  destruct (list_eqb b x) eqn:E.
  - left. apply list_eqb_eq in E. congruence.
  - right. apply IH. lia.
Qed.

Lemma occN_In_pos : forall b l, In b l -> 0 < occN b l.
Proof.
  induction l as [|x l IH]; cbn [occN In]; intro H; [contradiction|].
  destruct H as [H|H].
  - subst. rewrite list_eqb_refl. lia.
  - apply IH in H. destruct (list_eqb b x); lia.
Qed.

(* ------------------------------------------------------------------ *)
(* the `seen` map holds the number of earlier occurrences              *)
(* ------------------------------------------------------------------ *)

Lemma seen_get_set_same : forall seen k v, seen_get (seen_set seen k v) k = v.
Proof.
  induction seen as [|[k' v'] t IH]; intros k v; cbn [seen_set seen_get].
  - rewrite list_eqb_refl. reflexivity.
  - destruct (list_eqb k k') eqn:E; cbn [seen_get]; rewrite E; [reflexivity | apply IH].
Qed.

Lemma seen_get_set_other : forall seen k v b, b <> k -> seen_get (seen_set seen k v) b = seen_get seen b.
Proof.
  induction seen as [|[k' v'] t IH]; intros k v b Hne; cbn [seen_set seen_get].
  - apply list_eqb_neq in Hne. rewrite Hne. reflexivity.
  - destruct (list_eqb k k') eqn:E; cbn [seen_get].
    + apply list_eqb_eq in E. subst k'. apply list_eqb_neq in Hne. rewrite Hne. reflexivity.
    + destruct (list_eqb b k'); [reflexivity | apply IH; exact Hne].
Qed.

(* `seen` is zero exactly on the names not processed yet *)
Definition seen_inv (seen : list (list N * N)) (p : list (list N)) : Prop :=
  forall b, seen_get seen b = 0 <-> ~ In b p.

Lemma seen_inv_nil : seen_inv [] [].
Proof. intro b. split; intro H; [intros [] | reflexivity]. Qed.

Lemma seen_inv_step : forall seen p n v, seen_inv seen p -> 0 < v -> seen_inv (seen_set seen n v) (p ++ [n]).
Proof.
  intros seen p n v H Hv b. destruct (list_eqb b n) eqn:E.
  - apply list_eqb_eq in E. subst b. rewrite seen_get_set_same. split; intro H1; [lia|].
    exfalso. apply H1. apply in_or_app. right. left. reflexivity.
  - apply list_eqb_neq in E. rewrite seen_get_set_other by exact E. rewrite (H b). split; intros H1 H2; apply H1.
    + apply in_app_or in H2. destruct H2 as [H2|[H2|[]]]; [exact H2 | congruence].
    + apply in_or_app. left. exact H2.
Qed.

(* ------------------------------------------------------------------ *)
(* decimal rendering: digits only, never empty, injective              *)
(* ------------------------------------------------------------------ *)

Definition dval (l : list N) : N := fold_left (fun a c => a * 10 + (c - 48)) l 0.

Lemma dval_snoc : forall l d, dval (l ++ [d]) = dval l * 10 + (d - 48).
Proof. intros. unfold dval. rewrite fold_left_app. reflexivity. Qed.

Lemma dec_aux_app : forall fuel n acc, dec_aux fuel n acc = dec_aux fuel n [] ++ acc.
Proof.
  induction fuel as [|f IH]; intros n acc; cbn [dec_aux]; [reflexivity|].
  destruct (n / 10 =? 0); [reflexivity|].
  rewrite (IH (n / 10) (_ :: acc)), (IH (n / 10) [_]). rewrite <- app_assoc. reflexivity.
Qed.

Lemma dec_aux_S : forall f n acc, dec_aux (S f) n acc =
  if n / 10 =? 0 then (48 + n mod 10) :: acc else dec_aux f (n / 10) ((48 + n mod 10) :: acc).
Proof. reflexivity. Qed.

Lemma dec_aux_val : forall fuel n, n < 2 ^ N.of_nat fuel -> dval (dec_aux (S fuel) n []) = n.
Proof.
  induction fuel as [|f IH]; intros n Hn.
  - cbn in Hn. assert (n = 0) by lia. subst. reflexivity.
  - rewrite dec_aux_S. destruct (n / 10 =? 0) eqn:E.
    + apply N.eqb_eq in E. unfold dval. cbn [fold_left]. lia.
    + apply N.eqb_neq in E. rewrite dec_aux_app, dval_snoc. rewrite IH; [lia|].
      rewrite Nat2N.inj_succ, N.pow_succ_r' in Hn. lia.
Qed.

Lemma pos_lt_pow_size : forall p, N.pos p < 2 ^ N.of_nat (Pos.size_nat p).
Proof.
  induction p as [p IH|p IH|]; cbn [Pos.size_nat]; rewrite ?Nat2N.inj_succ, ?N.pow_succ_r'; cbn; lia.
Qed.

Lemma lt_pow_size : forall n, n < 2 ^ N.of_nat (N.size_nat n).
Proof. destruct n as [|p]; [cbn; lia | apply pos_lt_pow_size]. Qed.

Lemma dec_val : forall n, dval (dec n) = n.
Proof. intro n. unfold dec. apply dec_aux_val. apply lt_pow_size. Qed.

Lemma dec_inj : forall a b, dec a = dec b -> a = b.
Proof. intros a b H. rewrite <- (dec_val a), <- (dec_val b), H. reflexivity. Qed.

Lemma dec_aux_digits : forall fuel n acc, forallb is_digit acc = true -> forallb is_digit (dec_aux fuel n acc) = true.
Proof.
  induction fuel as [|f IH]; intros n acc H; cbn [dec_aux]; [exact H|].
  assert (Hd : forallb is_digit ((48 + n mod 10) :: acc) = true).
  { cbn [forallb]. rewrite H, andb_true_r. unfold is_digit. apply andb_true_iff. split; apply N.leb_le; lia. }
  destruct (n / 10 =? 0); [exact Hd | apply IH; exact Hd].
Qed.

Lemma dec_digits : forall n, forallb is_digit (dec n) = true.
Proof. intro n. unfold dec. apply dec_aux_digits. reflexivity. Qed.

Lemma dec_aux_nonempty : forall fuel n acc, acc <> [] -> dec_aux fuel n acc <> [].
Proof.
  induction fuel as [|f IH]; intros n acc H; cbn [dec_aux]; [exact H|].
  destruct (n / 10 =? 0); [discriminate | apply IH; discriminate].
Qed.

Lemma dec_nonempty : forall n, dec n <> [].
Proof.
  intro n. unfold dec. cbn [dec_aux]. destruct (n / 10 =? 0); [discriminate | apply dec_aux_nonempty; discriminate].
Qed.

(* splitting at the last underscore is unique *)
Lemma split_at_sep : forall x x' y y' : list N,
  forallb is_digit x = true -> forallb is_digit x' = true ->
  x ++ US :: y = x' ++ US :: y' -> x = x' /\ y = y'.
Proof.
  induction x as [|a x IH]; intros x' y y' Hx Hx' E; destruct x' as [|a' x']; cbn [app] in E.
  - inversion E. split; reflexivity.
  - inversion E; subst. cbn [forallb] in Hx'. vm_compute in Hx'. discriminate.
  - inversion E; subst. cbn [forallb] in Hx. vm_compute in Hx. discriminate.
  - inversion E; subst. cbn [forallb] in Hx, Hx'. apply andb_true_iff in Hx, Hx'.
    destruct (IH x' y y') as [E1 E2]; try tauto. subst. split; reflexivity.
Qed.

Lemma forallb_rev : forall (f : N -> bool) l, forallb f (rev l) = forallb f l.
Proof.
  intros f l. induction l as [|a l IH]; [reflexivity|].
  cbn [rev forallb]. rewrite forallb_app, IH. cbn [forallb]. rewrite andb_true_r. apply andb_comm.
Qed.

Lemma suffixed_inj : forall b b' k k', suffixed b k = suffixed b' k' -> b = b' /\ k = k'.
Proof.
  intros b b' k k' E. unfold suffixed in E. cbn [app] in E.
  apply (f_equal (@rev N)) in E. rewrite !rev_app_distr in E. cbn [rev] in E. rewrite <- !app_assoc in E. cbn [app] in E.
  apply split_at_sep in E; try (rewrite forallb_rev; apply dec_digits).
  destruct E as [E1 E2]. apply (f_equal (@rev N)) in E1, E2. rewrite !rev_involutive in E1, E2.
  split; [exact E2 | apply dec_inj; exact E1].
Qed.

(* ------------------------------------------------------------------ *)
(* the search for a free suffix                                        *)
(* ------------------------------------------------------------------ *)

Lemma find_free_spec : forall fuel taken base n k,
  find_free fuel taken base n = Some k -> n <= k /\ ~ In (suffixed base k) taken.
Proof.
  induction fuel as [|f IH]; intros taken base n k H; [discriminate|].
  cbn [find_free] in H. destruct (memb (suffixed base n) taken) eqn:E.
  - apply IH in H. destruct H as [H1 H2]. split; [lia | exact H2].
  - inversion H; subst. split; [lia|]. intro Hin. apply memb_In in Hin. congruence.
Qed.

Fixpoint cands (fuel : nat) (base : list N) (n : N) : list (list N) :=
  match fuel with
  | O => []
  | S f => suffixed base n :: cands f base (n + 1)
  end.

Lemma cands_In : forall fuel base n x, In x (cands fuel base n) -> exists k, n <= k /\ x = suffixed base k.
Proof.
  induction fuel as [|f IH]; intros base n x H; [contradiction|].
  cbn [cands In] in H. destruct H as [H|H].
  - exists n. split; [lia | symmetry; exact H].
  - apply IH in H. destruct H as [k [H1 H2]]. exists k. split; [lia | exact H2].
Qed.

Lemma cands_nodup : forall fuel base n, NoDup (cands fuel base n).
Proof.
  induction fuel as [|f IH]; intros base n; cbn [cands]; constructor; [|apply IH].
  intro H. apply cands_In in H. destruct H as [k [H1 H2]]. apply suffixed_inj in H2. lia.
Qed.

Lemma cands_length : forall fuel base n, List.length (cands fuel base n) = fuel.
Proof. induction fuel as [|f IH]; intros; cbn [cands List.length]; [reflexivity | rewrite IH; reflexivity]. Qed.

Lemma find_free_none : forall fuel taken base n,
  find_free fuel taken base n = None -> incl (cands fuel base n) taken.
Proof.
  induction fuel as [|f IH]; intros taken base n H x Hx; [contradiction|].
  cbn [find_free] in H. destruct (memb (suffixed base n) taken) eqn:E; [|discriminate].
  cbn [cands In] in Hx. destruct Hx as [Hx|Hx].
  - subst x. apply memb_In. exact E.
  - exact (IH taken base (n + 1) H x Hx).
Qed.

(* the search never runs out of fuel: |taken| + 1 distinct candidates cannot all be taken *)
Lemma find_free_total : forall taken base n, find_free (S (List.length taken)) taken base n <> None.
Proof.
  intros taken base n H. apply find_free_none in H.
  pose proof (NoDup_incl_length (cands_nodup (S (List.length taken)) base n) H) as L.
  rewrite cands_length in L. lia.
Qed.

(* ------------------------------------------------------------------ *)
(* totality, length, first occurrences, identity on distinct names     *)
(* ------------------------------------------------------------------ *)

Lemma dedup_loop_total : forall fs taken seen, dedup_loop taken seen fs <> None.
Proof.
  induction fs as [|f t IH]; intros taken seen; cbn [dedup_loop]; [discriminate|].
  destruct (1 <? seen_get seen (fname f) + 1).
  - destruct (find_free (S (List.length taken)) taken (fname f) (seen_get seen (fname f) + 1 - 1)) eqn:E;
      [|exfalso; exact (find_free_total _ _ _ E)].
    destruct (dedup_loop (suffixed (fname f) n :: taken) (seen_set seen (fname f) (n + 1)) t) eqn:E2;
      [discriminate | exfalso; exact (IH _ _ E2)].
  - destruct (dedup_loop taken (seen_set seen (fname f) (seen_get seen (fname f) + 1)) t) eqn:E2;
      [discriminate | exfalso; exact (IH _ _ E2)].
Qed.

(* the fuel of the suffix search is never exhausted *)
Theorem dedup_total : forall fs, exists out, dedup fs = Some out.
Proof.
  intro fs. destruct (dedup fs) eqn:E; [eexists; reflexivity|]. exfalso. exact (dedup_loop_total _ _ _ E).
Qed.

(* one step of the loop, as an inversion principle *)
Lemma dedup_loop_cons : forall f t taken seen out,
  dedup_loop taken seen (f :: t) = Some out ->
  (seen_get seen (fname f) = 0 /\
   exists r, out = f :: r /\ dedup_loop taken (seen_set seen (fname f) 1) t = Some r) \/
  (0 < seen_get seen (fname f) /\
   exists n r, seen_get seen (fname f) <= n /\ ~ In (suffixed (fname f) n) taken /\
     out = {| fname := suffixed (fname f) n;
              forig := if list_eqb (forig f) (fname f) then suffixed (fname f) n else forig f |} :: r /\
     dedup_loop (suffixed (fname f) n :: taken) (seen_set seen (fname f) (n + 1)) t = Some r).
Proof.
  intros f t taken seen out H. cbn [dedup_loop] in H.
  destruct (1 <? seen_get seen (fname f) + 1) eqn:E.
  - apply N.ltb_lt in E. right. split; [lia|].
    destruct (find_free (S (List.length taken)) taken (fname f) (seen_get seen (fname f) + 1 - 1)) eqn:F; [|discriminate].
    apply find_free_spec in F. destruct F as [F1 F2].
    destruct (dedup_loop (suffixed (fname f) n :: taken) (seen_set seen (fname f) (n + 1)) t) eqn:R; [|discriminate].
    inversion H; subst. exists n, l. repeat split; try assumption; lia.
  - apply N.ltb_ge in E. assert (Z0 : seen_get seen (fname f) = 0) by lia. left. split; [exact Z0|].
    rewrite Z0 in H. change (0 + 1) with 1 in H.
    destruct (dedup_loop taken (seen_set seen (fname f) 1) t) eqn:R; [|discriminate].
    inversion H; subst. exists l. split; reflexivity.
Qed.

Lemma dedup_loop_length : forall fs taken seen out, dedup_loop taken seen fs = Some out -> List.length out = List.length fs.
Proof.
  induction fs as [|f t IH]; intros taken seen out H.
  - inversion H. reflexivity.
  - apply dedup_loop_cons in H. destruct H as [[_ [r [E R]]]|[_ [n [r [_ [_ [E R]]]]]]]; subst out;
      cbn [List.length]; rewrite (IH _ _ _ R); reflexivity.
Qed.

Theorem dedup_preserves_length : forall fs out, dedup fs = Some out -> List.length out = List.length fs.
Proof. intros fs out H. exact (dedup_loop_length _ _ _ _ H). Qed.

Lemma keeps_first_gen : forall pre taken seen p f post out,
  seen_inv seen p -> ~ In (fname f) p -> ~ In (fname f) (map fname pre) ->
  dedup_loop taken seen (pre ++ f :: post) = Some out ->
  exists o1 o2, out = o1 ++ f :: o2 /\ List.length o1 = List.length pre.
Proof.
  induction pre as [|g pre IH]; intros taken seen p f post out Hinv Hp Hnin H.
  - cbn [app] in H. apply dedup_loop_cons in H. destruct H as [[_ [r [E _]]]|[Hpos _]].
    + exists [], r. split; [exact E | reflexivity].
    + exfalso. apply (Hinv (fname f)) in Hp. lia.
  - cbn [app] in H. apply dedup_loop_cons in H.
    assert (Hp' : ~ In (fname f) (p ++ [fname g])).
    { intro Hin. apply in_app_or in Hin. destruct Hin as [Hin|[Hin|[]]]; [exact (Hp Hin)|].
      apply Hnin. cbn [map In]. left. exact Hin. }
    assert (Hnin' : ~ In (fname f) (map fname pre)) by (intro Hin; apply Hnin; cbn [map In]; right; exact Hin).
    destruct H as [[_ [r [E R]]]|[_ [n [r [_ [_ [E R]]]]]]].
    + destruct (IH _ _ (p ++ [fname g]) f post r (seen_inv_step _ _ _ 1 Hinv ltac:(lia)) Hp' Hnin' R) as [o1 [o2 [E1 L]]].
      exists (g :: o1), o2. subst. split; [reflexivity | cbn [List.length]; rewrite L; reflexivity].
    + destruct (IH _ _ (p ++ [fname g]) f post r (seen_inv_step _ _ _ (n + 1) Hinv ltac:(lia)) Hp' Hnin' R) as [o1 [o2 [E1 L]]].
      eexists (_ :: o1), o2. subst. split; [reflexivity | cbn [List.length]; rewrite L; reflexivity].
Qed.

(* the first field carrying a name keeps its name and its JSON key *)
Theorem dedup_keeps_first : forall pre f post out,
  ~ In (fname f) (map fname pre) -> dedup (pre ++ f :: post) = Some out ->
  exists o1 o2, out = o1 ++ f :: o2 /\ List.length o1 = List.length pre.
Proof.
  intros pre f post out H E. unfold dedup in E.
  exact (keeps_first_gen pre _ [] [] f post out seen_inv_nil (fun x => x) H E).
Qed.

Lemma dedup_id_gen : forall fs taken seen p,
  seen_inv seen p -> NoDup (map fname fs) -> (forall f, In f fs -> ~ In (fname f) p) ->
  dedup_loop taken seen fs = Some fs.
Proof.
  induction fs as [|f t IH]; intros taken seen p Hinv Hnd Hp; [reflexivity|].
  cbn [map] in Hnd. inversion Hnd as [|x l Hnin Hnd']; subst.
  assert (Z0 : seen_get seen (fname f) = 0) by (apply Hinv; apply Hp; left; reflexivity).
  cbn [dedup_loop]. rewrite Z0. change (1 <? 0 + 1) with false. cbv iota. change (0 + 1) with 1.
  rewrite (IH taken (seen_set seen (fname f) 1) (p ++ [fname f])); [reflexivity | | exact Hnd' | ].
  - apply seen_inv_step; [exact Hinv | lia].
  - intros g Hg Hin. apply in_app_or in Hin. destruct Hin as [Hin|[Hin|[]]].
    + exact (Hp g (or_intror Hg) Hin).
    + apply Hnin. rewrite Hin. apply in_map. exact Hg.
Qed.

(* nothing is renamed when the names are already distinct *)
Theorem dedup_id_on_nodup : forall fs, NoDup (map fname fs) -> dedup fs = Some fs.
Proof.
  intros fs H. unfold dedup. apply (dedup_id_gen fs _ [] [] seen_inv_nil H). intros f _ [].
Qed.

(* ------------------------------------------------------------------ *)
(* uniqueness of the de-duplicated names (full strength)               *)
(* ------------------------------------------------------------------ *)

(* every output name is a not yet processed original name, or was free when it was generated *)
Lemma dedup_loop_out : forall fs taken seen p out,
  seen_inv seen p -> dedup_loop taken seen fs = Some out ->
  forall x, In x (map fname out) -> (In x (map fname fs) /\ ~ In x p) \/ ~ In x taken.
Proof.
  induction fs as [|f t IH]; intros taken seen p out Hinv H x Hx.
  - inversion H; subst. contradiction.
  - apply dedup_loop_cons in H. destruct H as [[Z0 [r [E R]]]|[Hpos [n [r [Hn [Hfree [E R]]]]]]]; subst out;
      cbn [map In] in Hx; destruct Hx as [Hx|Hx].
    + left. subst x. split; [left; reflexivity | apply Hinv; exact Z0].
    + destruct (IH _ _ (p ++ [fname f]) r (seen_inv_step _ _ _ 1 Hinv ltac:(lia)) R x Hx) as [[H1 H2]|H1].
      * left. split; [right; exact H1 | intro Hin; apply H2; apply in_or_app; left; exact Hin].
      * right. exact H1.
    + right. cbn [fname] in Hx. subst x. exact Hfree.
    + destruct (IH _ _ (p ++ [fname f]) r (seen_inv_step _ _ _ (n + 1) Hinv ltac:(lia)) R x Hx) as [[H1 H2]|H1].
      * left. split; [right; exact H1 | intro Hin; apply H2; apply in_or_app; left; exact Hin].
      * right. intro Hin. apply H1. right. exact Hin.
Qed.

Lemma dedup_loop_nodup : forall fs taken seen p out,
  seen_inv seen p -> incl (map fname fs) taken -> dedup_loop taken seen fs = Some out ->
  NoDup (map fname out).
Proof.
  induction fs as [|f t IH]; intros taken seen p out Hinv Hincl H.
  - inversion H; subst. constructor.
  - assert (Hincl' : incl (map fname t) taken) by (intros y Hy; apply Hincl; right; exact Hy).
    apply dedup_loop_cons in H. destruct H as [[Z0 [r [E R]]]|[Hpos [n [r [Hn [Hfree [E R]]]]]]]; subst out; cbn [map].
    + constructor; [|exact (IH _ _ (p ++ [fname f]) r (seen_inv_step _ _ _ 1 Hinv ltac:(lia)) Hincl' R)].
      intro Hin.
      destruct (dedup_loop_out _ _ _ (p ++ [fname f]) r (seen_inv_step _ _ _ 1 Hinv ltac:(lia)) R _ Hin) as [[_ H2]|H1].
      * apply H2. apply in_or_app. right. left. reflexivity.
      * apply H1. apply Hincl. left. reflexivity.
    + cbn [fname]. constructor.
      * intro Hin.
        destruct (dedup_loop_out _ _ _ (p ++ [fname f]) r (seen_inv_step _ _ _ (n + 1) Hinv ltac:(lia)) R _ Hin) as [[H1 _]|H1].
        -- apply Hfree. apply Hincl'. exact H1.
        -- apply H1. left. reflexivity.
      * refine (IH (suffixed (fname f) n :: taken) _ (p ++ [fname f]) r (seen_inv_step _ _ _ (n + 1) Hinv ltac:(lia)) _ R).
        intros y Hy. right. apply Hincl'. exact Hy.
Qed.

(* unique field names per type, for every field list *)
Theorem dedup_unique : forall fs out, dedup fs = Some out -> NoDup (map fname out).
Proof.
  intros fs out H. unfold dedup in H.
  exact (dedup_loop_nodup fs _ [] [] out seen_inv_nil (incl_refl _) H).
Qed.

Definition f_of (n o : string) : field := {| fname := s2n n; forig := s2n o |}.

(* the witness of the repaired finding kf-c17-dedup-suffix-collision *)
Lemma dedup_former_witness :
  option_map (map fname) (dedup [f_of "a" "a"; f_of "a_1" "a_1"; f_of "a" "a"]%string) = Some (map s2n ["a"; "a_1"; "a_2"]%string).
Proof. vm_compute. reflexivity. Qed.

(* ------------------------------------------------------------------ *)
(* JSON keys through de-duplication                                    *)
(* ------------------------------------------------------------------ *)

Lemma dedup_key_gen : forall fs taken seen p names out,
  seen_inv seen p -> names = p ++ map fname fs -> dedup_loop taken seen fs = Some out ->
  Forall2 (fun f f' => key_stable names f = true -> forig f' = forig f) fs out.
Proof.
  induction fs as [|f t IH]; intros taken seen p names out Hinv Hn H.
  - inversion H; subst. constructor.
  - assert (Hn' : names = (p ++ [fname f]) ++ map fname t) by (subst names; rewrite <- app_assoc; reflexivity).
    apply dedup_loop_cons in H. destruct H as [[Z0 [r [E R]]]|[Hpos [n [r [Hn1 [Hfree [E R]]]]]]]; subst out; constructor.
    + intros _. reflexivity.
    + exact (IH _ _ (p ++ [fname f]) names r (seen_inv_step _ _ _ 1 Hinv ltac:(lia)) Hn' R).
    + intro Hks. cbn [forig]. destruct (list_eqb (forig f) (fname f)) eqn:Eo; [|reflexivity].
      exfalso. unfold key_stable in Hks. rewrite Eo in Hks. cbn [negb orb] in Hks. apply N.eqb_eq in Hks.
      assert (Hin : In (fname f) p).
      { destruct (in_dec (list_eq_dec N.eq_dec) (fname f) p) as [Hi|Hi]; [exact Hi|]. apply Hinv in Hi. lia. }
      apply occN_In_pos in Hin. rewrite Hn in Hks. rewrite occN_app in Hks. cbn [map occN] in Hks.
      rewrite list_eqb_refl in Hks. lia.
    + exact (IH _ _ (p ++ [fname f]) names r (seen_inv_step _ _ _ (n + 1) Hinv ltac:(lia)) Hn' R).
Qed.

(* Full statement (false of the code, see dedup_keeps_key_refuted):
     every field that comes from a named key keeps that key as its serde name.
   Pointwise it holds for every field whose key differs from its name, or whose name is unique. *)
Theorem dedup_keeps_key_partial : forall fs out, dedup fs = Some out ->
  Forall2 (fun f f' => key_stable (map fname fs) f = true -> forig f' = forig f) fs out.
Proof. intros fs out H. unfold dedup in H. exact (dedup_key_gen fs _ [] [] _ out seen_inv_nil eq_refl H). Qed.

Theorem dedup_keeps_key_refuted : exists ks out,
  struct_fields (map KNamed ks) = Some out /\ map serde_name out <> ks.
Proof.
  exists [s2n "foo-bar"; s2n "foo_bar"]. eexists. split; [vm_compute; reflexivity|]. vm_compute. intro H. discriminate H.
Qed.

(* ------------------------------------------------------------------ *)
(* keyword escaping                                                    *)
(* ------------------------------------------------------------------ *)

Lemma last_snoc : forall (l : list N) x d, last (l ++ [x]) d = x.
Proof.
  induction l as [|a l IH]; intros x d; [reflexivity|].
  cbn [app]. destruct (l ++ [x]) eqn:E; [destruct l; discriminate|]. rewrite <- E. cbn [last].
  rewrite E. rewrite <- E. apply IH.
Qed.

Lemma reserved_no_trailing_us : forallb (fun w => negb (last w 0 =? US)) rust_reserved_2021 = true.
Proof. vm_compute. reflexivity. Qed.

Lemma code_kw_no_trailing_us : forallb (fun w => negb (last w 0 =? US)) code_keywords = true.
Proof. vm_compute. reflexivity. Qed.

Lemma snoc_us_not_in : forall l r, forallb (fun w => negb (last w 0 =? US)) l = true -> memb (r ++ [US]) l = false.
Proof.
  intros l r H. destruct (memb (r ++ [US]) l) eqn:E; [|reflexivity].
  apply memb_In in E. rewrite forallb_forall in H. specialize (H _ E).
  rewrite last_snoc, N.eqb_refl in H. discriminate.
Qed.

(* the escaped name is never one of the words the code treats as keywords *)
Theorem snake_not_keyword : forall s, is_rust_keyword (to_snake s) = false.
Proof.
  intro s. unfold to_snake. destruct (is_rust_keyword (snake_pre s)) eqn:E; [|exact E].
  apply snoc_us_not_in. exact code_kw_no_trailing_us.
Qed.

Lemma reserved_all_escaped : forallb is_rust_keyword rust_reserved_2021 = true.
Proof. vm_compute. reflexivity. Qed.

(* the escaped name is never a word reserved in edition 2021 (The Rust Reference list) *)
Theorem snake_not_reserved : forall s, is_reserved (to_snake s) = false.
Proof.
  intro s. unfold to_snake. destruct (is_rust_keyword (snake_pre s)) eqn:E.
  - apply snoc_us_not_in. exact reserved_no_trailing_us.
  - destruct (is_reserved (snake_pre s)) eqn:R; [|reflexivity].
    exfalso. apply memb_In in R. pose proof reserved_all_escaped as H. rewrite forallb_forall in H.
    rewrite (H _ R) in E. discriminate.
Qed.

(* every word the code escapes is reserved: nothing is escaped needlessly *)
Lemma code_keywords_reserved : forallb is_reserved code_keywords = true.
Proof. vm_compute. reflexivity. Qed.
