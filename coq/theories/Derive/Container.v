(* Derive/Container.v - the container decision of cddl-derive as the code computes it
   (/repo/cddl-derive/src/codegen.rs: value_member_key_to_field 1074-1152, is_vec_occurrence 1180-1186,
   type_to_rust_string 1227-1243, detect_table_type 1278, array_group_to_type 1188-1225, render_struct 1777-1799)
   and a small semantic model of which JSON member shapes serde's derived (de)serialisers admit for the
   chosen Rust type. The serde part is an executable assumption (see the check's `assumptions`): it is
   exercised on the real serde / serde_json in the thorough tier, not proven.

   No proofs in this file. *)
From Coq Require Import List NArith Bool.
Import ListNotations.
Open Scope N_scope.

(* ---------- CDDL side: what stands in the schema ---------- *)

Inductive occ :=
| ONone                                (* no occurrence indicator: exactly one *)
| OOpt                                 (* ?   *)
| OStar                                (* *   *)
| OPlus                                (* +   *)
| OExact (lo hi : option N).           (* lo*hi with either bound possibly absent, not the bare `*` *)

Inductive keyform :=
| KBare                                (* key: T        MemberKey::Bareword *)
| KText                                (* "key": T      MemberKey::Value    *)
| KType                                (* tstr => T     MemberKey::Type1 (wildcard entry) *)
| KAbsent.                             (* no member key *)

(* the entry's type: a single type, a choice with null (either side), or some other choice *)
Inductive etype :=
| EPlain                               (* T *)
| ENullR                               (* T / null  (also nil) *)
| ENullL                               (* null / T *)
| EChoice2                             (* T / U, neither is null *)
| EChoice3.                            (* three or more alternatives (even when one is null) *)

(* what T itself is *)
Inductive vkind :=
| VScalar                              (* a prelude scalar or a rule reference *)
| VArray                               (* [ occ' T ] , one entry *)
| VTable.                              (* { * tstr => T } *)

(* ---------- Rust side: the generated field ---------- *)

Inductive rty :=
| TElem                                (* the Rust type of the scalar *)
| TValue                               (* serde_json::Value *)
| TOption (t : rty)
| TVec (t : rty)
| TMap (t : rty).                      (* std::collections::HashMap<String, t> *)

Record fdesc := { fd_optional : bool;  (* RustField.is_optional: Option<..> + skip_serializing_if *)
                  fd_type : rty }.     (* RustField.rust_type *)

Definition is_optional_occ (o : occ) : bool := match o with OOpt => true | _ => false end.

Definition is_vec_occ (o : occ) : bool :=
  match o with
  | OStar | OPlus => true
  | OExact _ (Some u) => 1 <? u
  | _ => false
  end.

Definition base_type (v : vkind) : rty :=
  match v with
  | VScalar => TElem
  | VArray => TVec TElem               (* array_group_to_type: one entry -> Vec<T>, occurrence ignored *)
  | VTable => TMap TElem               (* detect_table_type *)
  end.

(* type_to_rust_string *)
Definition entry_type (e : etype) (v : vkind) : rty :=
  match e with
  | EPlain => base_type v
  | ENullR | ENullL => TOption (base_type v)
  | EChoice2 | EChoice3 => TValue
  end.

(* value_member_key_to_field *)
Definition field_desc (o : occ) (k : keyform) (e : etype) (v : vkind) : fdesc :=
  match k with
  | KType => {| fd_optional := false; fd_type := TMap (entry_type e v) |}
  | KAbsent => {| fd_optional := false; fd_type := entry_type e v |}
  | KBare | KText =>
    {| fd_optional := is_optional_occ o;
       fd_type := if is_vec_occ o then TVec (entry_type e v) else entry_type e v |}
  end.

(* render_struct: the type written in the struct and whether skip_serializing_if is attached *)
Definition written_type (d : fdesc) : rty := if fd_optional d then TOption (fd_type d) else fd_type d.
Definition skips_none (d : fdesc) : bool := fd_optional d.

(* array_group_to_type on a one-choice array with [n] entries: 0 -> Vec<()>, 1 -> Vec<T>, n -> tuple *)
Inductive arrty := AVecUnit | AVec | ATuple (n : N).
Definition array_type (entries : N) : arrty :=
  if entries =? 0 then AVecUnit else if entries =? 1 then AVec else ATuple entries.

(* ---------- JSON side: shapes of one object member ---------- *)

Inductive shape :=
| SAbsent                              (* the member is not in the object *)
| SNull                                (* present, null *)
| SOne                                 (* present, one non-null value of the scalar type *)
| SMany (n : N)                        (* present, an array of n values of the scalar type *)
| SObj (n : N).                        (* present, an object with n members whose values are of the scalar type *)

Definition in_range (lo : N) (hi : option N) (n : N) : bool :=
  (lo <=? n) && match hi with None => true | Some h => n <=? h end.

Definition occ_range (o : occ) : N * option N :=
  match o with
  | ONone => (1, Some 1)
  | OOpt => (0, Some 1)
  | OStar => (0, None)
  | OPlus => (1, None)
  | OExact lo hi => (match lo with Some l => l | None => 0 end, hi)
  end.

(* does a present member value have the shape the entry type asks for ([ao] = occurrence inside the array) *)
Definition value_admitted (e : etype) (v : vkind) (ao : occ) (s : shape) : bool :=
  match s with
  | SAbsent => false
  | SNull => match e with ENullR | ENullL => true | _ => false end
  | SOne => match v with VScalar => true | _ => false end
  | SMany n => match v with VArray => let (lo, hi) := occ_range ao in in_range lo hi n | _ => false end
  | SObj _ => match v with VTable => true | _ => false end
  end.

(* RFC 8610 on a JSON object, for a member with a literal key: the key occurs 0 or 1 times and that
   number must be allowed by the occurrence; when present the value must match the entry type.
   (EChoice2/3 are outside this model: the second alternative is not described.) *)
Definition cddl_admits (o : occ) (e : etype) (v : vkind) (ao : occ) (s : shape) : bool :=
  let (lo, hi) := occ_range o in
  match s with
  | SAbsent => in_range lo hi 0
  | _ => in_range lo hi 1 && value_admitted e v ao s
  end.

(* ---------- serde's derived impls on the generated type (assumed, run in the thorough tier) ---------- *)

Inductive rval :=
| RNone
| RSome (v : rval)
| ROne
| RMany (n : N)
| RObj (n : N)
| RJson (s : shape).                   (* a serde_json::Value holding that JSON *)

(* Deserialize of a present member value *)
Fixpoint de_val (t : rty) (s : shape) : option rval :=
  match t, s with
  | _, SAbsent => None
  | TValue, _ => Some (RJson s)
  | TOption _, SNull => Some RNone
  | TOption t', _ => option_map RSome (de_val t' s)
  | TElem, SOne => Some ROne
  | TVec t', SMany n => if n =? 0 then Some (RMany n)                       (* the elements are scalars *)
                        else match de_val t' SOne with Some _ => Some (RMany n) | None => None end
  | TMap t', SObj n => if n =? 0 then Some (RObj n)
                       else match de_val t' SOne with Some _ => Some (RObj n) | None => None end
  | _, _ => None
  end.

(* derive(Deserialize) on a struct: a missing member is `None` for a field whose written type is
   Option<_>, an error otherwise *)
Definition de_field (t : rty) (s : shape) : option rval :=
  match s, t with
  | SAbsent, TOption _ => Some RNone
  | SAbsent, _ => None
  | _, _ => de_val t s
  end.

Fixpoint ser_val (v : rval) : shape :=
  match v with
  | RNone => SNull
  | RSome v' => ser_val v'
  | ROne => SOne
  | RMany n => SMany n
  | RObj n => SObj n
  | RJson s => s
  end.

(* derive(Serialize): skip_serializing_if = "Option::is_none" drops a top-level None *)
Definition ser_field (skip : bool) (v : rval) : shape :=
  match v with
  | RNone => if skip then SAbsent else SNull
  | _ => ser_val v
  end.

Definition roundtrip (d : fdesc) (s : shape) : option shape :=
  option_map (ser_field (skips_none d)) (de_field (written_type d) s).

(* the cells of the documented mapping table: `key: T`, `? key: T`, T possibly `/ null` *)
Definition documented_occ (o : occ) : bool := match o with ONone | OOpt => true | _ => false end.
Definition documented_etype (e : etype) : bool := match e with EPlain | ENullR | ENullL => true | _ => false end.

(* classifier of finding kf-c17-optional-nullable-null-dropped *)
Definition optional_nullable_null (o : occ) (e : etype) (s : shape) : bool :=
  match o, e, s with
  | OOpt, (ENullR | ENullL), SNull => true
  | _, _, _ => false
  end.

(* ---------- canonical rendering for the oracle ---------- *)

Fixpoint render_rty (t : rty) : list N :=
  match t with
  | TElem => [84]                                              (* T *)
  | TValue => [74]                                             (* J *)
  | TOption t' => [79; 60] ++ render_rty t' ++ [62]            (* O<..> *)
  | TVec t' => [86; 60] ++ render_rty t' ++ [62]               (* V<..> *)
  | TMap t' => [77; 60] ++ render_rty t' ++ [62]               (* M<..> *)
  end.

(* "s " or "- " (skip attribute) followed by the written type *)
Definition container_render (o : occ) (k : keyform) (e : etype) (v : vkind) : list N :=
  let d := field_desc o k e v in
  (if skips_none d then [115] else [45]) ++ [32] ++ render_rty (written_type d).

Definition array_render (entries : N) : list N :=
  match array_type entries with
  | AVecUnit => [85]      (* U *)
  | AVec => [86]          (* V *)
  | ATuple _ => [80]      (* P *)
  end.

Definition render_shape (s : shape) : list N :=
  match s with
  | SAbsent => [97]       (* a *)
  | SNull => [110]        (* n *)
  | SOne => [49]          (* 1 *)
  | SMany _ => [109]      (* m *)
  | SObj _ => [111]       (* o *)
  end.

(* "E" = deserialisation error, otherwise the shape written back *)
Definition roundtrip_render (o : occ) (k : keyform) (e : etype) (v : vkind) (s : shape) : list N :=
  match roundtrip (field_desc o k e v) s with
  | None => [69]
  | Some s' => render_shape s'
  end.
