(* C16 - faithful model of the comment merge of pest_bridge.rs (fn merge, lines 1354-1425) on abstract input:
   comment tokens with byte spans, anchor slots with tight spans in the traversal order of visit_anchor_slots,
   and the extents of bracketed containers.  (no proofs in this file; proofs are in Comments/MergeProofs.v)

   A comment's text is represented by its identity `c_id` (the correspondence run uses the index of the comment
   in the document and compares texts outside): the merge never looks at, copies or alters the text - it pushes
   the very `&str` of the token - so "text unchanged" is "the same identity". *)
From Cddl Require Import Base.Bytes.
Open Scope N_scope.

Record ctok := { c_lo : N; c_hi : N; c_line : N; c_pure : bool; c_id : N }.

Inductive slotk := RuleLeading | ChoiceLeading | ChoiceTrailing | GrpChoiceLeading | EntryLeading | EntryTrailing.

Record anchor := { a_lo : N; a_hi : N; a_line_hi : N; a_kind : slotk }.

Definition is_leading (k : slotk) : bool :=
  match k with RuleLeading | ChoiceLeading | GrpChoiceLeading | EntryLeading => true | _ => false end.
Definition is_trailing (k : slotk) : bool :=
  match k with ChoiceTrailing | EntryTrailing => true | _ => false end.
Definition is_entry_trailing (k : slotk) : bool := match k with EntryTrailing => true | _ => false end.

(* Iterator::max_by returns the LAST of several equally maximal elements:
   fold(|x, y| if compare(x, y) == Greater { x } else { y }) *)
Fixpoint max_last {A} (gt : A -> A -> bool) (best : option A) (l : list A) : option A :=
  match l with
  | [] => best
  | y :: r => max_last gt (match best with None => Some y | Some x => if gt x y then Some x else Some y end) r
  end.

(* a.hi.cmp(b.hi).then(b.lo.cmp(a.lo)).then((a.kind == EntryTrailing).cmp(b.kind == EntryTrailing)) == Greater *)
Definition anchor_gt (x y : nat * anchor) : bool :=
  let a := snd x in let b := snd y in
  (a_hi b <? a_hi a)
  || ((a_hi a =? a_hi b)
      && ((a_lo a <? a_lo b)
          || ((a_lo a =? a_lo b) && is_entry_trailing (a_kind a) && negb (is_entry_trailing (a_kind b))))).

Definition enumerate {A} (l : list A) : list (nat * A) := combine (seq 0 (length l)) l.

(* Step 1: nearest same-line preceding trailing anchor *)
Definition trailing_target (c : ctok) (anchors : list anchor) : option nat :=
  option_map fst
    (max_last anchor_gt None
       (filter (fun ia => let a := snd ia in
                          is_trailing (a_kind a) && (a_hi a <=? c_lo c) && (a_line_hi a =? c_line c))
               (enumerate anchors))).

(* Step 2: first following leading anchor, in emission order *)
Definition leading_target (c : ctok) (anchors : list anchor) : option (nat * anchor) :=
  find (fun ia => let a := snd ia in is_leading (a_kind a) && (c_hi c <? a_lo a)) (enumerate anchors).

(* innermost enclosing container: greatest lo among those with lo < c.lo < hi (max_by_key: last maximum) *)
Definition enclosing_close (c : ctok) (containers : list (N * N)) : option N :=
  option_map snd
    (max_last (fun x y => fst y <? fst x) None
       (filter (fun lh => (fst lh <? c_lo c) && (c_lo c <? snd lh)) containers)).

Fixpoint dedup (l : list N) : list N :=
  match l with
  | [] => []
  | x :: r => if existsb (N.eqb x) r then dedup r else x :: dedup r
  end.

(* (c.line + 1 .. a.line_hi).all(|l| pure_lines.contains(l)) without enumerating the line numbers:
   the open interval holds a.line_hi - c.line - 1 numbers, all of them are pure lines iff that many DISTINCT
   pure-comment lines fall inside it *)
Definition contiguous (c : ctok) (line_hi : N) (comments : list ctok) : bool :=
  if line_hi <=? c_line c + 1 then true
  else
    let inside := dedup (map c_line (filter (fun d => c_pure d && (c_line c <? c_line d) && (c_line d <? line_hi)) comments)) in
    lenN inside =? line_hi - c_line c - 1.

Inductive fate := Bound (i : nat) | Orphan | Dropped.

Definition bind (comments : list ctok) (anchors : list anchor) (containers : list (N * N)) (c : ctok) : fate :=
  match (if c_pure c then None else trailing_target c anchors) with
  | Some i => Bound i
  | None =>
      match leading_target c anchors with
      | Some (i, a) =>
          let escapes := match enclosing_close c containers with Some close => close <? a_lo a | None => false end in
          if escapes then Orphan
          else if contiguous c (a_line_hi a) comments then Bound i
          else Dropped
      | None => Orphan
      end
  end.

(* assigned[i].push(id) *)
Fixpoint push_at (i : nat) (x : N) (l : list (list N)) : list (list N) :=
  match l, i with
  | [], _ => []
  | s :: r, O => (s ++ [x]) :: r
  | s :: r, S j => s :: push_at j x r
  end.

Record merged := { m_assigned : list (list N); m_orphans : list N; m_dropped : list N }.

Fixpoint merge_loop (all : list ctok) (anchors : list anchor) (containers : list (N * N))
         (todo : list ctok) (acc : merged) : merged :=
  match todo with
  | [] => acc
  | c :: r =>
      let acc' :=
        match bind all anchors containers c with
        | Bound i => {| m_assigned := push_at i (c_id c) (m_assigned acc); m_orphans := m_orphans acc; m_dropped := m_dropped acc |}
        | Orphan => {| m_assigned := m_assigned acc; m_orphans := m_orphans acc ++ [c_id c]; m_dropped := m_dropped acc |}
        | Dropped => {| m_assigned := m_assigned acc; m_orphans := m_orphans acc; m_dropped := m_dropped acc ++ [c_id c] |}
        end in
      merge_loop all anchors containers r acc'
  end.

Definition merge (comments : list ctok) (anchors : list anchor) (containers : list (N * N)) : merged :=
  merge_loop comments anchors containers comments
    {| m_assigned := map (fun _ => []) anchors; m_orphans := []; m_dropped := [] |}.

(* ---------------------------------------------------------------------- canonical rendering for the oracle *)
(* "a0,a1;b0|o0,o1|d0" : per-anchor id lists separated by ';', then orphans, then dropped, ids in decimal *)
Fixpoint dec_fuel (fuel : nat) (n : N) (acc : list N) : list N :=
  match fuel with
  | O => acc
  | S f => if n <? 10 then (48 + n) :: acc else dec_fuel f (n / 10) ((48 + n mod 10) :: acc)
  end.
Definition decN (n : N) : list N := dec_fuel (S (N.to_nat (N.size n))) n [].

Fixpoint sep_join (sep : N) (ls : list (list N)) : list N :=
  match ls with
  | [] => []
  | [x] => x
  | x :: r => x ++ sep :: sep_join sep r
  end.

Definition render_ids (l : list N) : list N := sep_join 44 (map decN l).

Definition merge_render (comments : list ctok) (anchors : list anchor) (containers : list (N * N)) : list N :=
  let m := merge comments anchors containers in
  sep_join 59 (map render_ids (m_assigned m)) ++ [124] ++ render_ids (m_orphans m) ++ [124] ++ render_ids (m_dropped m).
