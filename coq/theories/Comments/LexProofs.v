(* C16 - proofs about the lexical model (Comments/Lex.v): rendering then lexing is the identity on well-formed tokens. *)
From Cddl Require Import Base.Bytes Comments.Lex.
From Coq Require Import ZifyBool ZifyNat ZifyN.
Open Scope N_scope.

Lemma rev_step : forall (c : N) acc l, rev (c :: acc) ++ l = rev acc ++ c :: l.
Proof. intros. cbn [rev]. rewrite <- app_assoc. reflexivity. Qed.

Lemma lexm_comment : forall txt acc rest,
  forallb (fun c => negb (c =? 10) && negb (c =? 13)) txt = true ->
  lexm MComment acc (txt ++ 10 :: rest) = TComment (rev acc ++ txt) :: lexm MNormal [] rest.
Proof.
  induction txt as [|c txt IH]; intros acc rest H.
  - cbn [app lexm]. rewrite app_nil_r. reflexivity.
  - cbn [forallb] in H. apply andb_prop in H as [H1 H2]. cbn [app lexm].
    destruct (c =? 10) eqn:E1; [lia|]. destruct (c =? 13) eqn:E2; [lia|]. cbn [andb].
    rewrite (IH (c :: acc) rest H2), rev_step. reflexivity.
Qed.

Lemma lexm_bytes : forall raw acc rest,
  forallb (fun c => negb (c =? 39)) raw = true ->
  lexm MBytes acc (raw ++ 39 :: rest) = TBytes (rev acc ++ raw) :: lexm MNormal [] rest.
Proof.
  induction raw as [|c raw IH]; intros acc rest H.
  - cbn [app lexm]. rewrite app_nil_r. reflexivity.
  - cbn [forallb] in H. apply andb_prop in H as [H1 H2]. cbn [app lexm].
    destruct (c =? 39) eqn:E1; [lia|]. rewrite (IH (c :: acc) rest H2), rev_step. reflexivity.
Qed.

Lemma lexm_text : forall raw esc acc rest,
  wf_text_raw esc raw = true ->
  lexm (MText esc) acc (raw ++ 34 :: rest) = TText (rev acc ++ raw) :: lexm MNormal [] rest.
Proof.
  induction raw as [|c raw IH]; intros esc acc rest H.
  - cbn [wf_text_raw] in H. destruct esc; [discriminate|]. cbn [app lexm]. rewrite app_nil_r. reflexivity.
  - cbn [wf_text_raw] in H. cbn [app]. destruct esc.
    + cbn [lexm]. rewrite (IH false (c :: acc) rest H), rev_step. reflexivity.
    + cbn [lexm]. destruct (c =? 34) eqn:E1; [discriminate|]. destruct (c =? 92) eqn:E2.
      * rewrite (IH true (c :: acc) rest H), rev_step. reflexivity.
      * rewrite (IH false (c :: acc) rest H), rev_step. reflexivity.
Qed.

Lemma not_special : forall c, is_special c = false ->
  (c =? 59) = false /\ (c =? 34) = false /\ (c =? 39) = false /\ is_ws c = false.
Proof. intros c H. unfold is_special in H. unfold is_ws in *. lia. Qed.

(* in MNormal (acc = []) or MWord: reading the rest of a word that is followed by a blank *)
Lemma lexm_word : forall w m acc rest,
  (m = MNormal \/ m = MWord) ->
  forallb (fun c => negb (is_special c)) w = true -> (w <> [] \/ acc <> []) ->
  lexm m acc (w ++ 32 :: rest) = TWord (rev acc ++ w) :: lexm MNormal [] rest.
Proof.
  induction w as [|c w IH]; intros m acc rest Hm H Hne.
  - destruct Hne as [Hne|Hne]; [congruence|]. cbn [app]. rewrite app_nil_r.
    destruct acc as [|a acc]; [congruence|].
    destruct Hm as [-> | ->]; reflexivity.
  - cbn [forallb] in H. apply andb_prop in H as [H1 H2].
    destruct (not_special c) as [E1 [E2 [E3 E4]]]; [destruct (is_special c); [discriminate|reflexivity]|].
    cbn [app].
    assert (G : lexm m acc (c :: w ++ 32 :: rest) = lexm MWord (c :: acc) (w ++ 32 :: rest)).
    { destruct Hm as [-> | ->]; cbn [lexm]; rewrite E1, E2, E3, E4; reflexivity. }
    rewrite G, (IH MWord (c :: acc) rest (or_intror eq_refl) H2); [|right; discriminate].
    rewrite rev_step. reflexivity.
Qed.

Lemma lexm_normal_blank : forall rest, lexm MNormal [] (32 :: rest) = lexm MNormal [] rest.
Proof. reflexivity. Qed.

Theorem lex_render : forall ts, forallb wf_token ts = true -> lex (render ts) = ts.
Proof.
  unfold lex. induction ts as [|t ts IH]; intros H; [reflexivity|].
  cbn [forallb] in H. apply andb_prop in H as [Ht Hts]. specialize (IH Hts).
  cbn [render flat_map]. fold (render ts).
  destruct t as [w|raw|raw|txt|]; cbn [wf_token] in Ht; cbn [render_token].
  - apply andb_prop in Ht as [Hn Hw]. rewrite <- app_assoc. cbn [app].
    rewrite (lexm_word w MNormal [] (render ts) (or_introl eq_refl) Hw).
    + rewrite IH. reflexivity.
    + left. destruct w; [cbn in Hn; discriminate|discriminate].
  - cbn [app]. rewrite <- app_assoc. cbn [app]. cbn [lexm]. change (34 =? 59) with false. change (34 =? 34) with true.
    cbv iota. cbn [flush_word app].
    rewrite (lexm_text raw false [] (32 :: render ts) Ht). cbn [rev app]. rewrite lexm_normal_blank, IH. reflexivity.
  - cbn [app]. rewrite <- app_assoc. cbn [app]. cbn [lexm]. change (39 =? 59) with false. change (39 =? 34) with false.
    change (39 =? 39) with true. cbv iota. cbn [flush_word app].
    rewrite (lexm_bytes raw [] (32 :: render ts) Ht). cbn [rev app]. rewrite lexm_normal_blank, IH. reflexivity.
  - cbn [app]. rewrite <- app_assoc. cbn [app]. cbn [lexm]. change (59 =? 59) with true. cbv iota. cbn [flush_word app].
    rewrite (lexm_comment txt [] (render ts) Ht). cbn [rev app]. rewrite IH. reflexivity.
  - discriminate.
Qed.

(* the code tokens survive untouched: a rendered comment ends with a line break, so it cannot absorb what follows,
   and a ';' inside a text or byte string literal is not lexed as a comment *)
Theorem strip_comments_render : forall ts, forallb wf_token ts = true ->
  strip_comments (lex (render ts)) = strip_comments ts.
Proof. intros ts H. rewrite (lex_render ts H). reflexivity. Qed.

(* every comment comes back exactly once, in order, with its text unchanged, and nothing else is lexed as a comment *)
Theorem comments_render : forall ts, forallb wf_token ts = true ->
  comments_of (lex (render ts)) = comments_of ts.
Proof. intros ts H. rewrite (lex_render ts H). reflexivity. Qed.

(* a well-formed literal is lexed as that literal whatever it contains - in particular when it contains ';' *)
Theorem comment_only_outside_literals : forall raw before after,
  forallb wf_token before = true -> forallb wf_token after = true ->
  (wf_text_raw false raw = true ->
     comments_of (lex (render (before ++ TText raw :: after))) = comments_of before ++ comments_of after) /\
  (forallb (fun c => negb (c =? 39)) raw = true ->
     comments_of (lex (render (before ++ TBytes raw :: after))) = comments_of before ++ comments_of after).
Proof.
  intros raw before after Hb Ha. split; intros Hr.
  - rewrite lex_render.
    + unfold comments_of. rewrite filter_app. reflexivity.
    + rewrite forallb_app, Hb. cbn [forallb wf_token]. rewrite Hr, Ha. reflexivity.
  - rewrite lex_render.
    + unfold comments_of. rewrite filter_app. reflexivity.
    + rewrite forallb_app, Hb. cbn [forallb wf_token]. rewrite Hr, Ha. reflexivity.
Qed.

(* without the line break the comment does absorb the code after it (what Type::fmt's trim_end causes) *)
Example comment_without_newline_absorbs :
  lex ([97; 32; 59; 99] ++ [32; 47; 32; 98]) = [TWord [97]; TComment [99; 32; 47; 32; 98]].
Proof. vm_compute. reflexivity. Qed.

Example lex_example :
  lex (render [TWord [97]; TText [120; 59; 92; 34; 59]; TComment [32; 34; 99]; TBytes [59; 59]; TWord [98]])
  = [TWord [97]; TText [120; 59; 92; 34; 59]; TComment [32; 34; 99]; TBytes [59; 59]; TWord [98]].
Proof. vm_compute. reflexivity. Qed.
