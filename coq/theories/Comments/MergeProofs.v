(* C16 - proofs about the comment merge model (Comments/Merge.v): every comment goes to exactly one place. *)
From Cddl Require Import Base.Bytes Comments.Merge.
From Coq Require Import Permutation ZifyBool ZifyNat ZifyN.
Open Scope N_scope.

Definition flat (m : merged) : list N := concat (m_assigned m) ++ m_orphans m ++ m_dropped m.

Lemma push_at_length : forall l i x, length (push_at i x l) = length l.
Proof. induction l as [|s l IH]; intros [|i] x; cbn [push_at length]; auto. Qed.

Lemma push_at_perm : forall l i x, (i < length l)%nat -> Permutation (concat (push_at i x l)) (x :: concat l).
Proof.
  induction l as [|s l IH]; intros i x H; [cbn in H; lia|].
  destruct i as [|i]; cbn [push_at concat].
  - rewrite <- app_assoc. cbn [app]. symmetry. apply Permutation_middle.
  - cbn [length] in H. specialize (IH i x ltac:(lia)).
    transitivity (s ++ x :: concat l); [apply Permutation_app_head; exact IH|]. symmetry. apply Permutation_middle.
Qed.

Lemma max_last_in : forall {A} (gt : A -> A -> bool) l best x,
  max_last gt best l = Some x -> best = Some x \/ In x l.
Proof.
  induction l as [|y l IH]; intros best x H; cbn [max_last] in H; [left; exact H|].
  apply IH in H as [H|H]; [|right; right; exact H].
  destruct best as [b|]; [destruct (gt b y)|]; inversion H; subst; auto. right. left. reflexivity.
  right. left. reflexivity.
Qed.

Lemma enumerate_in : forall {A} (l : list A) i a, In (i, a) (enumerate l) -> (i < length l)%nat.
Proof.
  intros A l i a H. unfold enumerate in H. apply in_combine_l in H. apply in_seq in H. lia.
Qed.

Lemma bind_in_range : forall cs anchors conts c i, bind cs anchors conts c = Bound i -> (i < length anchors)%nat.
Proof.
  intros cs anchors conts c i H. unfold bind in H.
  destruct (if c_pure c then None else trailing_target c anchors) as [j|] eqn:E.
  - inversion H; subst. destruct (c_pure c); [discriminate|]. unfold trailing_target in E.
    destruct (max_last anchor_gt None _) as [[k a]|] eqn:M; [|discriminate]. cbn in E. inversion E; subst.
    apply max_last_in in M as [M|M]; [discriminate|]. apply filter_In in M as [M _]. eapply enumerate_in; eauto.
  - destruct (leading_target c anchors) as [[k a]|] eqn:L; [|discriminate].
    destruct (match enclosing_close c conts with Some close => close <? a_lo a | None => false end); [discriminate|].
    destruct (contiguous c (a_line_hi a) cs); [|discriminate]. inversion H; subst.
    unfold leading_target in L. apply find_some in L as [L _]. eapply enumerate_in; eauto.
Qed.

Lemma merge_loop_inv : forall all anchors conts todo acc,
  length (m_assigned acc) = length anchors ->
  Permutation (flat (merge_loop all anchors conts todo acc)) (flat acc ++ map c_id todo).
Proof.
  induction todo as [|c todo IH]; intros acc Hlen.
  - cbn [merge_loop map]. rewrite app_nil_r. reflexivity.
  - cbn [merge_loop map].
    destruct (bind all anchors conts c) as [i| |] eqn:B.
    + rewrite IH by (cbn [m_assigned]; rewrite push_at_length; exact Hlen).
      unfold flat. cbn [m_assigned m_orphans m_dropped].
      apply bind_in_range in B. rewrite <- Hlen in B.
      transitivity ((c_id c :: concat (m_assigned acc)) ++ (m_orphans acc ++ m_dropped acc) ++ map c_id todo).
      * rewrite <- !app_assoc. apply Permutation_app; [apply push_at_perm; exact B|reflexivity].
      * cbn [app]. apply Permutation_cons_app. rewrite <- !app_assoc. reflexivity.
    + rewrite IH by exact Hlen. unfold flat. cbn [m_assigned m_orphans m_dropped].
      rewrite <- !app_assoc. apply Permutation_app_head. apply Permutation_app_head. cbn [app].
      apply Permutation_middle.
    + rewrite IH by exact Hlen. unfold flat. cbn [m_assigned m_orphans m_dropped].
      rewrite <- !app_assoc. reflexivity.
Qed.

Lemma NoDup_app_l : forall {A} (a b : list A), NoDup (a ++ b) -> NoDup a.
Proof.
  induction a as [|x a IH]; intros b H; [constructor|]. cbn [app] in H. inversion H as [|? ? Hn Hr]; subst.
  constructor; [intros Hin; apply Hn; apply in_or_app; left; exact Hin|eapply IH; exact Hr].
Qed.

Lemma concat_nils : forall {A B} (l : list A), concat (map (fun _ => @nil B) l) = [].
Proof. induction l; cbn; auto. Qed.

(* every comment ends in exactly one of: one anchor's list, the orphans, the dropped (non-contiguous) ones *)
Theorem merge_partition : forall cs anchors conts,
  Permutation (flat (merge cs anchors conts)) (map c_id cs).
Proof.
  intros cs anchors conts. unfold merge. rewrite merge_loop_inv by (cbn [m_assigned]; apply map_length).
  unfold flat. cbn [m_assigned m_orphans m_dropped]. rewrite concat_nils. reflexivity.
Qed.

(* no comment is attached to two anchors, or twice to one *)
Theorem merge_at_most_one : forall cs anchors conts,
  NoDup (map c_id cs) -> NoDup (concat (m_assigned (merge cs anchors conts))).
Proof.
  intros cs anchors conts H. pose proof (merge_partition cs anchors conts) as P.
  apply Permutation_sym in P. apply (Permutation_NoDup P) in H. unfold flat in H.
  apply NoDup_app_l in H. exact H.
Qed.

(* what is attached is a source comment, carried by identity (the text is never touched) *)
Theorem merge_text_unchanged : forall cs anchors conts x,
  In x (concat (m_assigned (merge cs anchors conts))) -> In x (map c_id cs).
Proof.
  intros cs anchors conts x H. eapply Permutation_in; [apply merge_partition|]. unfold flat. apply in_or_app. left. exact H.
Qed.

(* sub-multiset: nothing is duplicated or invented even when two comments carry the same identity *)
Theorem merge_subset : forall cs anchors conts x,
  (count_occ N.eq_dec (concat (m_assigned (merge cs anchors conts))) x <= count_occ N.eq_dec (map c_id cs) x)%nat.
Proof.
  intros cs anchors conts x. pose proof (merge_partition cs anchors conts) as P.
  pose proof (proj1 (Permutation_count_occ N.eq_dec _ _) P x) as Q. rewrite <- Q. unfold flat. rewrite count_occ_app. lia.
Qed.

(* the result has one list per anchor *)
Lemma merge_loop_len : forall all anchors conts todo acc,
  length (m_assigned (merge_loop all anchors conts todo acc)) = length (m_assigned acc).
Proof.
  induction todo as [|c todo IH]; intros acc; [reflexivity|]. cbn [merge_loop].
  destruct (bind all anchors conts c); rewrite IH; cbn [m_assigned]; [apply push_at_length|reflexivity|reflexivity].
Qed.

Theorem merge_shape : forall cs anchors conts, length (m_assigned (merge cs anchors conts)) = length anchors.
Proof. intros. unfold merge. rewrite merge_loop_len. cbn [m_assigned]. apply map_length. Qed.

(* non-vacuity: `a = int ; c1 NL / tstr` - the trailing comment binds to the first choice (anchor 1), a leading
   comment binds to the next rule, a comment after everything is an orphan *)
Example merge_example :
  let cs := [ {| c_lo := 8; c_hi := 12; c_line := 1; c_pure := false; c_id := 0 |};
              {| c_lo := 22; c_hi := 26; c_line := 3; c_pure := true; c_id := 1 |};
              {| c_lo := 40; c_hi := 44; c_line := 5; c_pure := true; c_id := 2 |} ] in
  let anchors := [ {| a_lo := 0; a_hi := 0; a_line_hi := 1; a_kind := RuleLeading |};
                   {| a_lo := 4; a_hi := 7; a_line_hi := 1; a_kind := ChoiceTrailing |};
                   {| a_lo := 15; a_hi := 15; a_line_hi := 2; a_kind := ChoiceLeading |};
                   {| a_lo := 15; a_hi := 19; a_line_hi := 2; a_kind := ChoiceTrailing |};
                   {| a_lo := 28; a_hi := 28; a_line_hi := 4; a_kind := RuleLeading |};
                   {| a_lo := 32; a_hi := 35; a_line_hi := 4; a_kind := ChoiceTrailing |} ] in
  let m := merge cs anchors [] in
  m_assigned m = [[]; [0]; []; []; [1]; []] /\ m_orphans m = [2] /\ m_dropped m = [].
Proof. vm_compute. repeat split. Qed.
