(* C16 - a small lexical model of where comments can be in a CDDL text, mirroring cddl.pest:
     COMMENT    = ';' (!NEWLINE ANY)*          NEWLINE = LF | CR LF
     text_value = DQUOTE (escape | !(DQUOTE | BACKSLASH) ANY)* DQUOTE     (a backslash takes the next character with it)
     bytes_*    = [h | b64] QUOTE (!QUOTE ANY)* QUOTE                      (no escapes; what looks like a comment inside is content)
   Everything else is cut into blank-separated words.  The lexer is a one-pass state machine, structurally recursive on
   the input.  It is compared on every run with the COMMENT pairs the real pest parser reports (driver command K / R.k1).
   Not modelled: the h-DQUOTE-quoted extension (a text-like literal without escapes); documents using it are skipped.
   (no proofs in this file; proofs are in Comments/LexProofs.v) *)
From Cddl Require Import Base.Bytes.
Open Scope N_scope.

Inductive token :=
| TWord (w : list N)
| TText (raw : list N)        (* between the quotes, escapes not decoded *)
| TBytes (raw : list N)       (* between the apostrophes *)
| TComment (txt : list N)     (* after the ';', up to the line break *)
| TBad.                       (* unterminated literal *)

Definition is_ws (c : N) : bool := (c =? 32) || (c =? 9) || (c =? 10) || (c =? 13).
Definition is_special (c : N) : bool := is_ws c || (c =? 59) || (c =? 34) || (c =? 39).

Inductive mode :=
| MNormal
| MWord
| MText (esc : bool)
| MBytes
| MComment.

Definition flush_word (acc : list N) : list token := match acc with [] => [] | _ => [TWord (rev acc)] end.

(* acc holds the characters of the token being read, reversed *)
Fixpoint lexm (m : mode) (acc : list N) (s : list N) : list token :=
  match s with
  | [] =>
      match m with
      | MNormal => []
      | MWord => flush_word acc
      | MComment => [TComment (rev acc)]
      | MText _ | MBytes => [TBad]
      end
  | c :: r =>
      match m with
      | MNormal | MWord =>
          if c =? 59 then flush_word acc ++ lexm MComment [] r
          else if c =? 34 then flush_word acc ++ lexm (MText false) [] r
          else if c =? 39 then flush_word acc ++ lexm MBytes [] r
          else if is_ws c then flush_word acc ++ lexm MNormal [] r
          else lexm MWord (c :: acc) r
      | MText true => lexm (MText false) (c :: acc) r
      | MText false =>
          if c =? 34 then TText (rev acc) :: lexm MNormal [] r
          else if c =? 92 then lexm (MText true) (c :: acc) r
          else lexm (MText false) (c :: acc) r
      | MBytes =>
          if c =? 39 then TBytes (rev acc) :: lexm MNormal [] r else lexm MBytes (c :: acc) r
      | MComment =>
          if c =? 10 then TComment (rev acc) :: lexm MNormal [] r
          else if (c =? 13) && (match r with 10 :: _ => true | _ => false end) then TComment (rev acc) :: lexm MNormal [] r
          else lexm MComment (c :: acc) r
      end
  end.

Definition lex (s : list N) : list token := lexm MNormal [] s.

(* ---------------------------------------------------------------------- model renderer *)
(* every token is followed by a blank; every comment is ended by a line break *)
Definition render_token (t : token) : list N :=
  match t with
  | TWord w => w ++ [32]
  | TText raw => [34] ++ raw ++ [34; 32]
  | TBytes raw => [39] ++ raw ++ [39; 32]
  | TComment txt => [59] ++ txt ++ [10]
  | TBad => []
  end.

Definition render (ts : list token) : list N := flat_map render_token ts.

Definition is_comment (t : token) : bool := match t with TComment _ => true | _ => false end.
Definition strip_comments (ts : list token) : list token := filter (fun t => negb (is_comment t)) ts.
Definition comments_of (ts : list token) : list token := filter is_comment ts.

(* well-formed raw text body: no unescaped quote, does not end inside an escape *)
Fixpoint wf_text_raw (esc : bool) (l : list N) : bool :=
  match l with
  | [] => negb esc
  | c :: r => if esc then wf_text_raw false r
              else if c =? 34 then false else if c =? 92 then wf_text_raw true r else wf_text_raw false r
  end.

Definition wf_token (t : token) : bool :=
  match t with
  | TWord w => negb (lenN w =? 0) && forallb (fun c => negb (is_special c)) w
  | TText raw => wf_text_raw false raw
  | TBytes raw => forallb (fun c => negb (c =? 39)) raw
  | TComment txt => forallb (fun c => negb (c =? 10) && negb (c =? 13)) txt
  | TBad => false
  end.

(* ---------------------------------------------------------------------- canonical rendering for the oracle *)
(* comments of a text as hex strings, each followed by a comma; an exclamation mark when the lexer ends inside a literal *)
Definition hexdigit (d : N) : N := if d <? 10 then 48 + d else 87 + d.
Definition hexbytes (bs : list N) : list N := flat_map (fun b => [hexdigit (b / 16); hexdigit (b mod 16)]) bs.

Fixpoint render_comment_list (ts : list token) : list N :=
  match ts with
  | [] => []
  | TComment txt :: r => hexbytes txt ++ 44 :: render_comment_list r
  | TBad :: r => 33 :: render_comment_list r
  | _ :: r => render_comment_list r
  end.

Definition lex_comments_render (s : list N) : list N := render_comment_list (lex s).
