(* C07 - faithful model of unescape_text (/repo/src/pest_bridge.rs:2573-2643) on lists of code points.
   The Rust function walks `text.chars()`; `chars.by_ref().take(4)` / `take_while(|c| *c != '}')` consume from the
   same iterator, which is what the explicit patterns / the UBrace state below do.  It never fails: an escape that
   does not produce a char is dropped.  No proofs in this file. *)
From Cddl Require Import Base.Bytes Lit.IntLit.
Open Scope N_scope.

(* char::from_u32: a Unicode scalar value *)
Definition char_from_u32 (cp : N) : option N :=
  if (cp <=? 1114111) && negb ((55296 <=? cp) && (cp <=? 57343)) then Some cp else None.

Definition push_opt (o : option N) (rest : list N) : list N :=
  match o with Some c => c :: rest | None => rest end.

(* if let Ok(cp) = u32::from_str_radix(&hex, 16) { if let Some(ch) = char::from_u32(cp) { result.push(ch) } } *)
Definition braced_char (hex : list N) : option N :=
  match u32_from_str_radix 16 hex with
  | Some cp => char_from_u32 cp
  | None => None
  end.

(* chars.by_ref().take(4).collect(): the next (up to) four characters and what remains *)
Definition take4 (s : list N) : list N * list N :=
  match s with
  | a :: b :: c :: d :: r => ([a; b; c; d], r)
  | _ => (s, [])
  end.

Inductive ustate := UNorm | UBrace (acc : list N).     (* acc: the hex characters collected so far, reversed *)

Fixpoint unescape_st (st : ustate) (s : list N) : list N :=
  match st with
  | UBrace acc =>
    match s with
    | [] => push_opt (braced_char (rev acc)) []                       (* take_while ran to the end of the text *)
    | c :: r => if c =? 125 then push_opt (braced_char (rev acc)) (unescape_st UNorm r)   (* '}' is consumed *)
                else unescape_st (UBrace (c :: acc)) r
    end
  | UNorm =>
    match s with
    | [] => []
    | ch :: r =>
      if negb (ch =? 92) then ch :: unescape_st UNorm r
      else
        match r with
        | [] => []                                                    (* trailing backslash: chars.next() = None *)
        | e :: r1 =>
          if e =? 110 then 10 :: unescape_st UNorm r1                (* n *)
          else if e =? 114 then 13 :: unescape_st UNorm r1           (* r *)
          else if e =? 116 then 9 :: unescape_st UNorm r1            (* t *)
          else if e =? 92 then 92 :: unescape_st UNorm r1            (* \\ *)
          else if e =? 34 then 34 :: unescape_st UNorm r1            (* backslash quote *)
          else if e =? 39 then 39 :: unescape_st UNorm r1            (* \' *)
          else if e =? 47 then 47 :: unescape_st UNorm r1            (* \/ *)
          else if e =? 98 then 8 :: unescape_st UNorm r1             (* b *)
          else if e =? 102 then 12 :: unescape_st UNorm r1           (* f *)
          else if e =? 117 then                                       (* u *)
            match r1 with
            | [] => []                                                (* hex is empty -> Err -> nothing; end *)
            | b0 :: r2 =>
              if b0 =? 123 then unescape_st (UBrace []) r2            (* \u{ : RFC 9682 form *)
              else
                (* standard \uXXXX form: hex = take(4) *)
                match r1 with
                | h1 :: h2 :: h3 :: h4 :: r5 =>
                  match u32_from_str_radix 16 [h1; h2; h3; h4] with
                  | None => unescape_st UNorm r5
                  | Some cp =>
                    if (55296 <=? cp) && (cp <=? 56319) then
                      (* high surrogate: look for \uLLLL *)
                      match r5 with
                      | bs :: u :: r7 =>
                        if (bs =? 92) && (u =? 117) then
                          match r7 with
                          | l1 :: l2 :: l3 :: l4 :: r11 =>
                            match u32_from_str_radix 16 [l1; l2; l3; l4] with
                            | None => unescape_st UNorm r11
                            | Some low =>
                              if (56320 <=? low) && (low <=? 57343) then
                                push_opt (char_from_u32 (65536 + (cp - 55296) * 1024 + (low - 56320)))
                                         (unescape_st UNorm r11)
                              else unescape_st UNorm r11
                            end
                          | short =>                                  (* fewer than 4 characters left: all consumed *)
                            match u32_from_str_radix 16 short with
                            | None => []
                            | Some low =>
                              if (56320 <=? low) && (low <=? 57343) then
                                push_opt (char_from_u32 (65536 + (cp - 55296) * 1024 + (low - 56320))) []
                              else []
                            end
                          end
                        else unescape_st UNorm r5                     (* lone high surrogate: nothing pushed *)
                      | _ => unescape_st UNorm r5
                      end
                    else push_opt (char_from_u32 cp) (unescape_st UNorm r5)
                  end
                | short =>                                            (* fewer than 4 characters left *)
                  match u32_from_str_radix 16 short with
                  | None => []
                  | Some cp =>
                    if (55296 <=? cp) && (cp <=? 56319) then [] else push_opt (char_from_u32 cp) []
                  end
                end
            end
          else 92 :: e :: unescape_st UNorm r1                        (* _ => push '\\', push next_ch *)
        end
    end
  end.

Definition unescape_text (s : list N) : list N := unescape_st UNorm s.

(* convert_value_to_type2, Rule::text_value arm: text_content = &text[1..text.len() - 1] *)
Definition strip_quotes (k : nat) (s : list N) : list N := rev (tl (rev (skipn k s))).
Definition text_value_model (tok : list N) : list N := unescape_text (strip_quotes 1 tok).
