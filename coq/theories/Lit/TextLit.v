(* C07 - faithful model of try_unescape_text (/repo/src/pest_bridge.rs, as of commit 51d94c0) on lists of code points.
   The Rust function walks `text.chars()`; `chars.by_ref().take(4)` / `take_while(|c| *c != '}')` consume from the
   same iterator, which is what the explicit patterns / the UBrace state below do.  A \u escape that pushes no
   character (lone or reversed surrogate, not a scalar value, unparsable hex) makes the function return None.
   No proofs in this file. *)
From Cddl Require Import Base.Bytes Lit.IntLit.
Open Scope N_scope.

(* char::from_u32: a Unicode scalar value *)
Definition char_from_u32 (cp : N) : option N :=
  if (cp <=? 1114111) && negb ((55296 <=? cp) && (cp <=? 57343)) then Some cp else None.

(* result.push(c) when the escape produced a character; when it produced none the enclosing \u arm ends with
   `if result.len() == len_before { return None; }` (since 51d94c0) *)
Definition push_or_fail (o : option N) (rest : option (list N)) : option (list N) :=
  match o, rest with
  | Some c, Some l => Some (c :: l)
  | _, _ => None
  end.
Definition push (c : N) (rest : option (list N)) : option (list N) := push_or_fail (Some c) rest.

(* if let Ok(cp) = u32::from_str_radix(&hex, 16) { if let Some(ch) = char::from_u32(cp) { result.push(ch) } } *)
Definition braced_char (hex : list N) : option N :=
  match u32_from_str_radix 16 hex with
  | Some cp => char_from_u32 cp
  | None => None
  end.

Inductive ustate := UNorm | UBrace (acc : list N).     (* acc: the hex characters collected so far, reversed *)

(* try_unescape_text; None = the function returned None (the call sites turn it into a parse error) *)
Fixpoint unescape_st (st : ustate) (s : list N) : option (list N) :=
  match st with
  | UBrace acc =>
    match s with
    | [] => push_or_fail (braced_char (rev acc)) (Some [])            (* take_while ran to the end of the text *)
    | c :: r => if c =? 125 then push_or_fail (braced_char (rev acc)) (unescape_st UNorm r)   (* '}' is consumed *)
                else unescape_st (UBrace (c :: acc)) r
    end
  | UNorm =>
    match s with
    | [] => Some []
    | ch :: r =>
      if negb (ch =? 92) then push ch (unescape_st UNorm r)
      else
        match r with
        | [] => Some []                                               (* trailing backslash: chars.next() = None *)
        | e :: r1 =>
          if e =? 110 then push 10 (unescape_st UNorm r1)            (* n *)
          else if e =? 114 then push 13 (unescape_st UNorm r1)       (* r *)
          else if e =? 116 then push 9 (unescape_st UNorm r1)        (* t *)
          else if e =? 92 then push 92 (unescape_st UNorm r1)        (* \\ *)
          else if e =? 34 then push 34 (unescape_st UNorm r1)        (* backslash quote *)
          else if e =? 39 then push 39 (unescape_st UNorm r1)        (* \' *)
          else if e =? 47 then push 47 (unescape_st UNorm r1)        (* \/ *)
          else if e =? 98 then push 8 (unescape_st UNorm r1)         (* b *)
          else if e =? 102 then push 12 (unescape_st UNorm r1)       (* f *)
          else if e =? 117 then                                       (* u *)
            match r1 with
            | [] => None                                              (* hex is empty -> Err -> nothing pushed *)
            | b0 :: r2 =>
              if b0 =? 123 then unescape_st (UBrace []) r2            (* \u{ : RFC 9682 form *)
              else
                (* standard \uXXXX form: hex = take(4) *)
                match r1 with
                | h1 :: h2 :: h3 :: h4 :: r5 =>
                  match u32_from_str_radix 16 [h1; h2; h3; h4] with
                  | None => None
                  | Some cp =>
                    if (55296 <=? cp) && (cp <=? 56319) then
                      (* high surrogate: look for \uLLLL *)
                      match r5 with
                      | bs :: u :: r7 =>
                        if (bs =? 92) && (u =? 117) then
                          match r7 with
                          | l1 :: l2 :: l3 :: l4 :: r11 =>
                            match u32_from_str_radix 16 [l1; l2; l3; l4] with
                            | None => None
                            | Some low =>
                              if (56320 <=? low) && (low <=? 57343) then
                                push_or_fail (char_from_u32 (65536 + (cp - 55296) * 1024 + (low - 56320)))
                                             (unescape_st UNorm r11)
                              else None
                            end
                          | short =>                                  (* fewer than 4 characters left: all consumed *)
                            match u32_from_str_radix 16 short with
                            | None => None
                            | Some low =>
                              if (56320 <=? low) && (low <=? 57343) then
                                push_or_fail (char_from_u32 (65536 + (cp - 55296) * 1024 + (low - 56320))) (Some [])
                              else None
                            end
                          end
                        else None                                     (* lone high surrogate: nothing pushed *)
                      | _ => None
                      end
                    else push_or_fail (char_from_u32 cp) (unescape_st UNorm r5)
                  end
                | short =>                                            (* fewer than 4 characters left *)
                  match u32_from_str_radix 16 short with
                  | None => None
                  | Some cp =>
                    if (55296 <=? cp) && (cp <=? 56319) then None else push_or_fail (char_from_u32 cp) (Some [])
                  end
                end
            end
          else push 92 (push e (unescape_st UNorm r1))                (* _ => push backslash, push next_ch *)
        end
    end
  end.

Definition try_unescape_text (s : list N) : option (list N) := unescape_st UNorm s.

(* convert_value_to_type2, Rule::text_value arm: text_content = &text[1..text.len() - 1];
   try_unescape_text(text_content).ok_or_else(Err "Invalid escape sequence in text string") *)
Definition strip_quotes (k : nat) (s : list N) : list N := rev (tl (rev (skipn k s))).
Definition text_value_model (tok : list N) : option (list N) := try_unescape_text (strip_quotes 1 tok).
