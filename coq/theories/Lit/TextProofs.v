(* C07 - proofs about unescape_text (Lit/TextLit.v) against the escape denotation of Lit/Spec.v *)
From Coq Require Import ZifyBool ZifyNat ZifyN.
From Cddl Require Import Base.Bytes Lit.IntLit Lit.Grammar Lit.TextLit Lit.BytesLit Lit.Spec Lit.Render Lit.IntProofs.
Ltac Zify.zify_post_hook ::= Z.div_mod_to_equations.
Arguments N.add : simpl never.
Arguments N.mul : simpl never.
Arguments N.sub : simpl never.
Arguments N.div : simpl never.
Arguments N.modulo : simpl never.
Arguments N.pow : simpl never.
Open Scope N_scope.

(* ---------- hex values ---------- *)
Lemma digit_value_16_not_plus : forall c d, digit_value 16 c = Some d -> c <> 43.
Proof. intros c d H ->. vm_compute in H. discriminate. Qed.

Lemma positional_hd_not_plus : forall s v, positional 16 s = Some v -> forall c r, s = c :: r -> c <> 43.
Proof.
  intros s v H c r ->. unfold positional in H. cbn [positional_acc] in H.
  destruct (digit_value 16 c) as [d|] eqn:E; [|discriminate]. eapply digit_value_16_not_plus; eauto.
Qed.

Lemma u32_of_positional : forall s v, positional 16 s = Some v -> v <= u32_max ->
  u32_from_str_radix 16 s = Some v.
Proof.
  intros s v H Hv. unfold u32_from_str_radix.
  change 16 with (N.of_nat 16). rewrite (from_str_radix_spec 16) by (auto || eapply positional_hd_not_plus; eauto).
  rewrite H. unfold bounded. replace (v <=? u32_max) with true by lia. reflexivity.
Qed.

Lemma positional_acc_4 : forall a b c d v, positional 16 [a; b; c; d] = Some v -> v < 65536.
Proof.
  intros a b c d v H. unfold positional in H. cbn [positional_acc] in H.
  destruct (digit_value 16 a) as [x1|] eqn:E1; [|discriminate].
  destruct (digit_value 16 b) as [x2|] eqn:E2; [|discriminate].
  destruct (digit_value 16 c) as [x3|] eqn:E3; [|discriminate].
  destruct (digit_value 16 d) as [x4|] eqn:E4; [|discriminate].
  apply digit_value_lt in E1, E2, E3, E4; auto.
  inversion H; subst. change (N.of_nat 16) with 16 in *. lia.
Qed.

Lemma scalar_char : forall v, is_scalar v = true -> char_from_u32 v = Some v.
Proof. intros v H. unfold char_from_u32. unfold is_scalar in H. rewrite H. reflexivity. Qed.

Lemma braced_eq : forall hex w, positional 16 hex = Some w ->
  braced_char hex = if is_scalar w then Some w else None.
Proof.
  intros hex w H. unfold braced_char, u32_from_str_radix.
  change 16 with (N.of_nat 16). rewrite (from_str_radix_spec 16) by (auto || eapply positional_hd_not_plus; eauto).
  rewrite H. unfold bounded, u32_max. destruct (w <=? 4294967295) eqn:E.
  - reflexivity.
  - unfold is_scalar. replace (w <=? 1114111) with false by lia. reflexivity.
Qed.

Lemma u32_brace_none : forall l, u32_from_str_radix 16 (123 :: l) = None.
Proof. intros l. destruct l; reflexivity. Qed.
Lemma positional_brace_none : forall l, positional 16 (123 :: l) = None.
Proof. intros l. reflexivity. Qed.

Lemma hexdig_value : forall c, is_hexdig c = true -> exists d, digit_value 16 c = Some d.
Proof.
  intros c H. assert (Hc : c < 128) by (unfold is_hexdig, is_digit in H; lia).
  assert (Hall : (fun c => negb (is_hexdig c) || match digit_value 16 c with Some _ => true | None => false end) c = true).
  { clear H. revert c Hc. apply (forallb_below _ 128). vm_compute. reflexivity. }
  cbv beta in Hall. rewrite H in Hall. cbn [negb orb] in Hall.
  destruct (digit_value 16 c) as [d|]; [eauto | discriminate].
Qed.

Lemma hexdigs_positional_acc : forall l acc, forallb is_hexdig l = true -> exists w, positional_acc 16 acc l = Some w.
Proof.
  induction l as [|c l IH]; intros acc H; cbn [positional_acc]; [eauto|].
  cbn [forallb] in H. apply andb_prop in H. destruct H as [Hc Hl].
  destruct (hexdig_value c Hc) as [d ->]. apply IH. exact Hl.
Qed.
Lemma hexdigs_positional : forall l, l <> [] -> forallb is_hexdig l = true -> exists w, positional 16 l = Some w.
Proof. intros l Hn H. unfold positional. destruct l; [congruence|]. apply hexdigs_positional_acc. exact H. Qed.

Lemma hex4_forallb : forall a b c d, is_hexdig a && is_hexdig b && is_hexdig c && is_hexdig d = true ->
  forallb is_hexdig [a; b; c; d] = true.
Proof.
  intros a b c d H. cbn [forallb].
  destruct (is_hexdig a), (is_hexdig b), (is_hexdig c), (is_hexdig d); try discriminate; reflexivity.
Qed.

Lemma push_cons_opt : forall c o, push c o = cons_opt c o.
Proof. intros c [l|]; reflexivity. Qed.

Lemma cons_opt_some : forall c o v, cons_opt c o = Some v -> exists v', o = Some v' /\ v = c :: v'.
Proof. intros c [v'|] v H; cbn in H; [inversion H; eauto | discriminate]. Qed.

(* ---------- main lemma: where the specification assigns a value, the model stores that value ---------- *)
(* ---------- main lemma: on every spelling the grammar admits, the model computes the denotation ---------- *)
Definition text_agree (s : list N) : Prop :=
  (text_inner_ok TNorm s = true -> unescape_st UNorm s = denote_st 34 DNorm s)
  /\ (forall acc, forallb is_hexdig acc = true -> text_inner_ok (TBrace (nonempty acc)) s = true ->
        unescape_st (UBrace acc) s = denote_st 34 (DBrace acc) s).

Lemma text_core : forall n s, (length s <= n)%nat -> text_agree s.
Proof.
  induction n as [|n IH]; intros s Hlen.
  - destruct s; [|cbn in Hlen; lia]. split; [reflexivity | intros acc _ H; discriminate].
  - destruct s as [|c r]; [split; [reflexivity | intros acc _ H; discriminate]|].
    assert (Hr : text_agree r) by (apply IH; cbn in Hlen; lia).
    split.
    + (* normal state *)
      intros Hg. cbn [text_inner_ok] in Hg. cbn [unescape_st denote_st].
      destruct (c =? 34) eqn:Eq; [discriminate|].
      destruct (c =? 92) eqn:Ebs; cbn [negb].
      2:{ rewrite push_cons_opt. f_equal. apply Hr. exact Hg. }
      destruct r as [|e r1]; [discriminate|].
      assert (Hr1 : text_agree r1) by (apply IH; cbn in Hlen; lia).
      destruct (is_simple_escape e) eqn:Ese.
      { (* one-character escapes *)
        rewrite <- (proj1 Hr1 Hg). unfold is_simple_escape in Ese. unfold simple_escape.
        destruct (e =? 110) eqn:E1; [apply N.eqb_eq in E1; subst e; apply push_cons_opt|].
        destruct (e =? 114) eqn:E2; [apply N.eqb_eq in E2; subst e; apply push_cons_opt|].
        destruct (e =? 116) eqn:E3; [apply N.eqb_eq in E3; subst e; apply push_cons_opt|].
        destruct (e =? 92) eqn:E4; [apply N.eqb_eq in E4; subst e; apply push_cons_opt|].
        destruct (e =? 34) eqn:E5; [apply N.eqb_eq in E5; subst e; apply push_cons_opt|].
        destruct (e =? 39) eqn:E6; [apply N.eqb_eq in E6; subst e; discriminate|].
        destruct (e =? 47) eqn:E7; [apply N.eqb_eq in E7; subst e; apply push_cons_opt|].
        destruct (e =? 98) eqn:E8; [apply N.eqb_eq in E8; subst e; apply push_cons_opt|].
        destruct (e =? 102) eqn:E9; [apply N.eqb_eq in E9; subst e; apply push_cons_opt|].
        cbn in Ese. discriminate. }
      destruct (e =? 117) eqn:Eu; [|discriminate].
      assert (Hse : simple_escape 34 e = None).
      { unfold is_simple_escape in Ese. unfold simple_escape.
        destruct (e =? 34), (e =? 92), (e =? 47), (e =? 98), (e =? 102), (e =? 110), (e =? 114), (e =? 116); try discriminate.
        rewrite andb_false_r. reflexivity. }
      rewrite Hse. cbn [negb].
      replace (e =? 110) with false by lia. replace (e =? 114) with false by lia. replace (e =? 116) with false by lia.
      replace (e =? 92) with false by lia. replace (e =? 34) with false by lia. replace (e =? 39) with false by lia.
      replace (e =? 47) with false by lia. replace (e =? 98) with false by lia. replace (e =? 102) with false by lia.
      destruct r1 as [|b r2]; [discriminate|].
      destruct (b =? 123) eqn:Eb.
      { assert (Hr2 : text_agree r2) by (apply IH; cbn in Hlen; lia).
        apply (proj2 Hr2 []); [reflexivity | exact Hg]. }
      destruct r2 as [|h2 [|h3 [|h4 r5]]]; try discriminate.
      apply andb_prop in Hg. destruct Hg as [Hhex Hg5].
      destruct (hexdigs_positional [b; h2; h3; h4]) as [w Ep]; [discriminate | apply (hex4_forallb _ _ _ _ Hhex) |].
      pose proof (positional_acc_4 _ _ _ _ _ Ep) as Hw.
      rewrite Ep, (u32_of_positional _ _ Ep) by (unfold u32_max; lia).
      assert (Hr5 : text_agree r5) by (apply IH; cbn in Hlen; lia).
      unfold is_high_surrogate, is_low_surrogate.
      destruct ((55296 <=? w) && (w <=? 56319)) eqn:Ehi.
      * (* high surrogate *)
        destruct r5 as [|bs [|u r7]]; [reflexivity | reflexivity |].
        destruct ((bs =? 92) && (u =? 117)) eqn:Ebu.
        2:{ destruct r7 as [|l1 [|l2 [|l3 [|l4 r11]]]]; reflexivity. }
        apply andb_prop in Ebu. destruct Ebu as [Ebs' Eu']. apply N.eqb_eq in Ebs', Eu'. subst bs u.
        cbn [text_inner_ok] in Hg5.
        replace (92 =? 34) with false in Hg5 by reflexivity. replace (92 =? 92) with true in Hg5 by reflexivity.
        replace (is_simple_escape 117) with false in Hg5 by reflexivity. replace (117 =? 117) with true in Hg5 by reflexivity.
        destruct r7 as [|l1 r7']; [discriminate|].
        destruct (l1 =? 123) eqn:El1.
        { (* \uHHHH followed by \u{ : the four characters taken are not hex *)
          apply N.eqb_eq in El1. subst l1.
          destruct r7' as [|l2 [|l3 [|l4 r11]]]; cbn [andb]; rewrite u32_brace_none; reflexivity. }
        destruct r7' as [|l2 [|l3 [|l4 r11]]]; try discriminate.
        apply andb_prop in Hg5. destruct Hg5 as [Hhexl Hg11].
        destruct (hexdigs_positional [l1; l2; l3; l4]) as [lo Epl]; [discriminate | apply (hex4_forallb _ _ _ _ Hhexl) |].
        pose proof (positional_acc_4 _ _ _ _ _ Epl) as Hlo.
        cbn [andb]. replace ((92 =? 92) && (117 =? 117)) with true by reflexivity.
        rewrite Epl, (u32_of_positional _ _ Epl) by (unfold u32_max; lia).
        destruct ((56320 <=? lo) && (lo <=? 57343)) eqn:Elo; [|reflexivity].
        rewrite scalar_char by (unfold is_scalar; lia).
        assert (Hr11 : text_agree r11) by (apply IH; cbn in Hlen; lia).
        rewrite (proj1 Hr11 Hg11). apply push_cons_opt.
      * destruct ((56320 <=? w) && (w <=? 57343)) eqn:Elow.
        { unfold char_from_u32. replace ((w <=? 1114111) && negb ((55296 <=? w) && (w <=? 57343))) with false by lia. reflexivity. }
        rewrite scalar_char by (unfold is_scalar; lia). rewrite (proj1 Hr5 Hg5). apply push_cons_opt.
    + (* inside \u{ *)
      intros acc Hacc Hg. cbn [text_inner_ok] in Hg. cbn [unescape_st denote_st].
      destruct (c =? 125) eqn:Ec.
      * apply andb_prop in Hg. destruct Hg as [Hne Hgr].
        destruct (hexdigs_positional (rev acc)) as [w Ep].
        { destruct acc; [discriminate|]. cbn [rev]. intros E. apply (f_equal (@length N)) in E. rewrite app_length in E. cbn in E. lia. }
        { rewrite forallb_rev. exact Hacc. }
        rewrite Ep, (braced_eq _ _ Ep), (proj1 Hr Hgr).
        destruct (is_scalar w); [apply push_cons_opt | reflexivity].
      * apply andb_prop in Hg. destruct Hg as [Hc Hgr].
        apply (proj2 Hr (c :: acc)); [cbn [forallb]; rewrite Hc, Hacc; reflexivity | exact Hgr].
Qed.

Lemma between_strip : forall k q tok c, between k q tok = Some c -> strip_quotes k tok = c.
Proof.
  intros k q tok c H. unfold between in H. unfold strip_quotes.
  destruct (rev (skipn k tok)) as [|x r]; [discriminate|].
  destruct (x =? q); [|discriminate]. inversion H. reflexivity.
Qed.

Lemma text_token : forall tok, text_spelling tok = true ->
  opens_with [34] tok = true /\ between 1 34 tok = Some (strip_quotes 1 tok)
  /\ text_inner_ok TNorm (strip_quotes 1 tok) = true.
Proof.
  intros tok H. unfold text_spelling in H. destruct tok as [|q r]; [discriminate|].
  apply andb_prop in H. destruct H as [H Hin]. apply andb_prop in H. destruct H as [H Hlast].
  apply andb_prop in H. destruct H as [Hq Hne].
  unfold opens_with, between, strip_quotes. cbn [length combine forallb fst snd skipn].
  unfold last_is in Hlast. unfold strip_last in Hin.
  destruct (rev r) as [|x rr]; [discriminate|]. rewrite Hlast. cbn [tl] in *.
  rewrite (N.eqb_sym 34 q), Hq. auto.
Qed.

(* text_ok: every text literal the grammar admits is stored with exactly its RFC 9682 value, or rejected exactly
   when it has none *)
Theorem text_ok : forall tok, text_spelling tok = true -> text_value_model tok = text_lit tok.
Proof.
  intros tok Hg. destruct (text_token tok Hg) as [Ho [Hb Hin]].
  unfold text_lit, text_value_model, try_unescape_text. rewrite Ho, Hb. cbn [obind].
  apply (text_core (length (strip_quotes 1 tok)) _ (le_n _)). exact Hin.
Qed.

(* the denotation is defined only on spellings the token grammar admits *)
Lemma denote_grammar : forall n s, (length s <= n)%nat ->
  (forall v, denote_st 34 DNorm s = Some v -> text_inner_ok TNorm s = true)
  /\ (forall acc v, denote_st 34 (DBrace acc) s = Some v ->
        forallb is_hexdig acc = true -> text_inner_ok (TBrace (nonempty acc)) s = true).
Proof.
  assert (Hhex : forall c d, digit_value 16 c = Some d -> is_hexdig c = true).
  { intros c d H. destruct (N.lt_ge_cases c 128) as [Hlt|Hge].
    - revert H. generalize d. 
      assert (Hall : (fun c => match digit_value 16 c with Some _ => is_hexdig c | None => true end) c = true).
      { revert c Hlt. apply (forallb_below _ 128). vm_compute. reflexivity. }
      cbv beta in Hall. intros d0 H0. rewrite H0 in Hall. exact Hall.
    - rewrite digit_value_big in H by exact Hge. discriminate. }
  assert (Hhex4 : forall a b c d v, positional 16 [a; b; c; d] = Some v ->
            is_hexdig a && is_hexdig b && is_hexdig c && is_hexdig d = true).
  { intros a b c d v H. unfold positional in H. cbn [positional_acc] in H.
    destruct (digit_value 16 a) eqn:E1; [|discriminate]. destruct (digit_value 16 b) eqn:E2; [|discriminate].
    destruct (digit_value 16 c) eqn:E3; [|discriminate]. destruct (digit_value 16 d) eqn:E4; [|discriminate].
    rewrite (Hhex _ _ E1), (Hhex _ _ E2), (Hhex _ _ E3), (Hhex _ _ E4). reflexivity. }
  induction n as [|n IH]; intros s Hlen.
  - destruct s; [|cbn in Hlen; lia]. split; [reflexivity | intros acc v H; discriminate].
  - destruct s as [|c r]; [split; [reflexivity | intros acc v H; discriminate]|].
    assert (Hr : forall t, (length t <= length r)%nat ->
      (forall v, denote_st 34 DNorm t = Some v -> text_inner_ok TNorm t = true)
      /\ (forall acc v, denote_st 34 (DBrace acc) t = Some v ->
           forallb is_hexdig acc = true -> text_inner_ok (TBrace (nonempty acc)) t = true)).
    { intros t Ht. apply IH. cbn in Hlen. lia. }
    split.
    + intros v H. cbn [denote_st] in H. cbn [text_inner_ok].
      destruct (c =? 34) eqn:Eq; [discriminate|].
      destruct (c =? 92) eqn:Ebs.
      * cbn [negb] in H. destruct r as [|e r1]; [discriminate|].
        destruct (simple_escape 34 e) as [w|] eqn:Ese.
        { assert (Hse : is_simple_escape e = true).
          { unfold simple_escape in Ese. unfold is_simple_escape.
            destruct (e =? 34), (e =? 47), (e =? 92), (e =? 98), (e =? 102), (e =? 110), (e =? 114), (e =? 116);
              try reflexivity. rewrite andb_false_r in Ese. discriminate. }
          rewrite Hse. apply cons_opt_some in H. destruct H as [v' [Hd _]].
          eapply (proj1 (Hr r1 ltac:(cbn; lia))). exact Hd. }
        assert (Hse : is_simple_escape e = false).
        { unfold simple_escape in Ese. unfold is_simple_escape.
          destruct (e =? 34), (e =? 47), (e =? 92), (e =? 98), (e =? 102), (e =? 110), (e =? 114), (e =? 116);
            try discriminate; reflexivity. }
        rewrite Hse.
        destruct (e =? 117) eqn:Eu; [|discriminate]. cbn [negb] in H.
        destruct r1 as [|b r2]; [discriminate|].
        destruct (b =? 123) eqn:Eb.
        { apply (proj2 (Hr r2 ltac:(cbn; lia)) [] v H). reflexivity. }
        destruct r2 as [|h2 [|h3 [|h4 r5]]]; try discriminate.
        destruct (positional 16 [b; h2; h3; h4]) as [w|] eqn:Ep; [|discriminate].
        rewrite (Hhex4 _ _ _ _ _ Ep). cbn [andb].
        destruct (is_high_surrogate w).
        { destruct r5 as [|bs [|u [|l1 [|l2 [|l3 [|l4 r11]]]]]]; try discriminate.
          destruct ((bs =? 92) && (u =? 117)) eqn:Ebu; [|discriminate].
          destruct (positional 16 [l1; l2; l3; l4]) as [lo|] eqn:Epl; [|discriminate].
          destruct (is_low_surrogate lo); [|discriminate].
          apply cons_opt_some in H. destruct H as [v' [Hd _]].
          apply andb_prop in Ebu. destruct Ebu as [Ebs' Eu'].
          apply N.eqb_eq in Ebs', Eu'. subst bs u.
          cbn [text_inner_ok]. replace (92 =? 34) with false by reflexivity. replace (92 =? 92) with true by reflexivity.
          replace (is_simple_escape 117) with false by reflexivity. replace (117 =? 117) with true by reflexivity.
          assert (El1 : (l1 =? 123) = false).
          { pose proof (Hhex4 _ _ _ _ _ Epl) as Hh. unfold is_hexdig, is_digit in Hh. lia. }
          rewrite El1. rewrite (Hhex4 _ _ _ _ _ Epl). cbn [andb].
          eapply (proj1 (Hr r11 ltac:(cbn; lia))). exact Hd. }
        destruct (is_low_surrogate w); [discriminate|].
        apply cons_opt_some in H. destruct H as [v' [Hd _]].
        eapply (proj1 (Hr r5 ltac:(cbn; lia))). exact Hd.
      * cbn [negb] in H. apply cons_opt_some in H. destruct H as [v' [Hd _]].
        eapply (proj1 (Hr r (le_n _))). exact Hd.
    + intros acc v H Hacc. cbn [denote_st] in H. cbn [text_inner_ok].
      destruct (c =? 125) eqn:Ec.
      * destruct (positional 16 (rev acc)) as [w|] eqn:Ep; [|discriminate].
        destruct (is_scalar w); [|discriminate].
        apply cons_opt_some in H. destruct H as [v' [Hd _]].
        assert (Hne : nonempty acc = true).
        { destruct acc; [cbn in Ep; discriminate | reflexivity]. }
        rewrite Hne. cbn [andb]. eapply (proj1 (Hr r (le_n _))). exact Hd.
      * assert (Hc : is_hexdig c = true).
        { (* the digits are checked when the brace closes; here: by the denotation of the rest *)
          clear IH Hr.
          (* positional 16 (rev (.. ++ c :: acc)) succeeds at the closing brace, so c is a hex digit *)
          assert (Hin : forall t ds v0, denote_st 34 (DBrace ds) t = Some v0 ->
                         forall x, In x ds -> exists d, digit_value 16 x = Some d).
          { induction t as [|y t IHt]; intros ds v0 Hd x Hx; cbn [denote_st] in Hd; [discriminate|].
            destruct (y =? 125).
            - destruct (positional 16 (rev ds)) as [w|] eqn:Ep; [|discriminate].
              assert (Hall : forall l a0 w0, positional_acc 16 a0 l = Some w0 -> forall x0, In x0 l ->
                        exists d, digit_value 16 x0 = Some d).
              { induction l as [|z l IHl]; intros a0 w0 Hp x0 Hx0; [contradiction|].
                cbn [positional_acc] in Hp. destruct (digit_value 16 z) as [dz|] eqn:Ez; [|discriminate].
                destruct Hx0 as [->|Hx0]; [eauto | eapply IHl; eauto]. }
              unfold positional in Ep. destruct (rev ds) as [|z l] eqn:Erev.
              + discriminate.
              + eapply Hall; [exact Ep|]. rewrite <- Erev. apply -> in_rev. exact Hx.
            - eapply IHt; [exact Hd | right; exact Hx]. }
          destruct (Hin r (c :: acc) v H c (or_introl eq_refl)) as [d Hd]. eapply Hhex; eauto. }
        rewrite Hc. cbn [andb].
        apply (proj2 (Hr r (le_n _)) (c :: acc) v H). cbn [forallb]. rewrite Hc, Hacc. reflexivity.
Qed.

Lemma opens_between_spelling : forall tok c, opens_with [34] tok = true -> between 1 34 tok = Some c ->
  text_inner_ok TNorm c = true -> text_spelling tok = true.
Proof.
  intros tok c Ho Hb Hc. unfold opens_with in Ho. destruct tok as [|q r]; [discriminate|].
  cbn [combine forallb fst snd length] in Ho. unfold text_spelling.
  unfold between in Hb. cbn [skipn] in Hb.
  destruct (rev r) as [|x rr] eqn:Er; [discriminate|].
  destruct (x =? 34) eqn:Ex; [|discriminate]. inversion Hb; subst c.
  assert (Hq : (q =? 34) = true) by (rewrite N.eqb_sym; lia).
  rewrite Hq. unfold nonempty, last_is, strip_last. rewrite Er. cbn [tl]. rewrite Ex.
  destruct r; [discriminate|]. cbn [is_nil negb andb]. exact Hc.
Qed.

Theorem text_lit_grammar : forall tok v, text_lit tok = Some v -> text_spelling tok = true.
Proof.
  intros tok v H. unfold text_lit in H. destruct (opens_with [34] tok) eqn:Eo; [|discriminate].
  unfold obind in H. destruct (between 1 34 tok) as [c|] eqn:Eb; [|discriminate].
  eapply opens_between_spelling; eauto.
  eapply (proj1 (denote_grammar (length c) c (le_n _))). exact H.
Qed.

(* the three witnesses of kf-c07-text-escape-dropped (fixed by 51d94c0) are rejected now *)
Example text_rejections :
  text_spelling [34; 92; 117; 100; 56; 48; 48; 34] = true                                   (* "\ud800" *)
  /\ text_value_model [34; 92; 117; 100; 56; 48; 48; 34] = None
  /\ text_spelling [34; 92; 117; 68; 56; 48; 48; 92; 117; 48; 48; 52; 49; 34] = true        (* "\uD800A" *)
  /\ text_value_model [34; 92; 117; 68; 56; 48; 48; 92; 117; 48; 48; 52; 49; 34] = None
  /\ text_spelling [34; 92; 117; 123; 49; 49; 48; 48; 48; 48; 125; 34] = true               (* "\u{110000}" *)
  /\ text_value_model [34; 92; 117; 123; 49; 49; 48; 48; 48; 48; 125; 34] = None.
Proof. vm_compute. repeat split; reflexivity. Qed.

(* non-vacuity: a, \u0041, the surrogate pair \uD83C\uDC73, \u{1F073}, \n *)
Example text_example :
  text_value_model [34; 97; 92;117;48;48;52;49; 92;117;68;56;51;67; 92;117;68;67;55;51; 92;117;123;49;70;48;55;51;125; 92;110; 34]
  = Some [97; 65; 127091; 127091; 10].
Proof. vm_compute. reflexivity. Qed.
