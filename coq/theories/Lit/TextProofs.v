(* C07 - proofs about unescape_text (Lit/TextLit.v) against the escape denotation of Lit/Spec.v *)
From Coq Require Import ZifyBool ZifyNat ZifyN.
From Cddl Require Import Base.Bytes Lit.IntLit Lit.Grammar Lit.TextLit Lit.BytesLit Lit.Spec Lit.Render Lit.IntProofs.
Ltac Zify.zify_post_hook ::= Z.div_mod_to_equations.
Arguments N.add : simpl never.
Arguments N.mul : simpl never.
Arguments N.sub : simpl never.
Arguments N.div : simpl never.
Arguments N.modulo : simpl never.
Arguments N.pow : simpl never.
Open Scope N_scope.

(* ---------- hex values ---------- *)
Lemma digit_value_16_not_plus : forall c d, digit_value 16 c = Some d -> c <> 43.
Proof. intros c d H ->. vm_compute in H. discriminate. Qed.

Lemma positional_hd_not_plus : forall s v, positional 16 s = Some v -> forall c r, s = c :: r -> c <> 43.
Proof.
  intros s v H c r ->. unfold positional in H. cbn [positional_acc] in H.
  destruct (digit_value 16 c) as [d|] eqn:E; [|discriminate]. eapply digit_value_16_not_plus; eauto.
Qed.

Lemma u32_of_positional : forall s v, positional 16 s = Some v -> v <= u32_max ->
  u32_from_str_radix 16 s = Some v.
Proof.
  intros s v H Hv. unfold u32_from_str_radix.
  change 16 with (N.of_nat 16). rewrite (from_str_radix_spec 16) by (auto || eapply positional_hd_not_plus; eauto).
  rewrite H. unfold bounded. replace (v <=? u32_max) with true by lia. reflexivity.
Qed.

Lemma positional_acc_4 : forall a b c d v, positional 16 [a; b; c; d] = Some v -> v < 65536.
Proof.
  intros a b c d v H. unfold positional in H. cbn [positional_acc] in H.
  destruct (digit_value 16 a) as [x1|] eqn:E1; [|discriminate].
  destruct (digit_value 16 b) as [x2|] eqn:E2; [|discriminate].
  destruct (digit_value 16 c) as [x3|] eqn:E3; [|discriminate].
  destruct (digit_value 16 d) as [x4|] eqn:E4; [|discriminate].
  apply digit_value_lt in E1, E2, E3, E4; auto.
  inversion H; subst. change (N.of_nat 16) with 16 in *. lia.
Qed.

Lemma scalar_char : forall v, is_scalar v = true -> char_from_u32 v = Some v.
Proof. intros v H. unfold char_from_u32. unfold is_scalar in H. rewrite H. reflexivity. Qed.

Lemma braced_scalar : forall hex v, positional 16 hex = Some v -> is_scalar v = true -> braced_char hex = Some v.
Proof.
  intros hex v H Hs. unfold braced_char. rewrite (u32_of_positional hex v H).
  - apply scalar_char. exact Hs.
  - unfold is_scalar in Hs. unfold u32_max. lia.
Qed.

(* ---------- one-character escapes ---------- *)
Lemma simple_escape_model : forall e w r1, simple_escape 34 e = Some w ->
  unescape_st UNorm (92 :: e :: r1) = w :: unescape_st UNorm r1.
Proof.
  intros e w r1 H. unfold simple_escape in H.
  destruct (e =? 34) eqn:E1; [apply N.eqb_eq in E1; subst e; inversion H; reflexivity|].
  destruct (e =? 47) eqn:E2; [apply N.eqb_eq in E2; subst e; inversion H; reflexivity|].
  destruct (e =? 92) eqn:E3; [apply N.eqb_eq in E3; subst e; inversion H; reflexivity|].
  destruct (e =? 98) eqn:E4; [apply N.eqb_eq in E4; subst e; inversion H; reflexivity|].
  destruct (e =? 102) eqn:E5; [apply N.eqb_eq in E5; subst e; inversion H; reflexivity|].
  destruct (e =? 110) eqn:E6; [apply N.eqb_eq in E6; subst e; inversion H; reflexivity|].
  destruct (e =? 114) eqn:E7; [apply N.eqb_eq in E7; subst e; inversion H; reflexivity|].
  destruct (e =? 116) eqn:E8; [apply N.eqb_eq in E8; subst e; inversion H; reflexivity|].
  rewrite andb_false_r in H. discriminate.
Qed.

Lemma simple_escape_117 : forall q, simple_escape q 117 = None.
Proof. intros q. unfold simple_escape. cbn. reflexivity. Qed.

(* unfolding of the model at \u followed by something that is not '{' *)
Lemma model_u4 : forall h1 h2 h3 h4 r5, (h1 =? 123) = false ->
  unescape_st UNorm (92 :: 117 :: h1 :: h2 :: h3 :: h4 :: r5) =
  match u32_from_str_radix 16 [h1; h2; h3; h4] with
  | None => unescape_st UNorm r5
  | Some cp =>
    if (55296 <=? cp) && (cp <=? 56319) then
      match r5 with
      | bs :: u :: r7 =>
        if (bs =? 92) && (u =? 117) then
          match r7 with
          | l1 :: l2 :: l3 :: l4 :: r11 =>
            match u32_from_str_radix 16 [l1; l2; l3; l4] with
            | None => unescape_st UNorm r11
            | Some low =>
              if (56320 <=? low) && (low <=? 57343) then
                push_opt (char_from_u32 (65536 + (cp - 55296) * 1024 + (low - 56320))) (unescape_st UNorm r11)
              else unescape_st UNorm r11
            end
          | short =>
            match u32_from_str_radix 16 short with
            | None => []
            | Some low =>
              if (56320 <=? low) && (low <=? 57343) then
                push_opt (char_from_u32 (65536 + (cp - 55296) * 1024 + (low - 56320))) []
              else []
            end
          end
        else unescape_st UNorm r5
      | _ => unescape_st UNorm r5
      end
    else push_opt (char_from_u32 cp) (unescape_st UNorm r5)
  end.
Proof.
  intros h1 h2 h3 h4 r5 Hb.
  change (unescape_st UNorm (92 :: 117 :: h1 :: h2 :: h3 :: h4 :: r5)) with
    (if h1 =? 123 then unescape_st (UBrace []) (h2 :: h3 :: h4 :: r5)
     else match u32_from_str_radix 16 [h1; h2; h3; h4] with
  | None => unescape_st UNorm r5
  | Some cp =>
    if (55296 <=? cp) && (cp <=? 56319) then
      match r5 with
      | bs :: u :: r7 =>
        if (bs =? 92) && (u =? 117) then
          match r7 with
          | l1 :: l2 :: l3 :: l4 :: r11 =>
            match u32_from_str_radix 16 [l1; l2; l3; l4] with
            | None => unescape_st UNorm r11
            | Some low =>
              if (56320 <=? low) && (low <=? 57343) then
                push_opt (char_from_u32 (65536 + (cp - 55296) * 1024 + (low - 56320))) (unescape_st UNorm r11)
              else unescape_st UNorm r11
            end
          | short =>
            match u32_from_str_radix 16 short with
            | None => []
            | Some low =>
              if (56320 <=? low) && (low <=? 57343) then
                push_opt (char_from_u32 (65536 + (cp - 55296) * 1024 + (low - 56320))) []
              else []
            end
          end
        else unescape_st UNorm r5
      | _ => unescape_st UNorm r5
      end
    else push_opt (char_from_u32 cp) (unescape_st UNorm r5)
  end).
  rewrite Hb. reflexivity.
Qed.

Lemma model_ubrace : forall r2, unescape_st UNorm (92 :: 117 :: 123 :: r2) = unescape_st (UBrace []) r2.
Proof. intros. reflexivity. Qed.

Lemma cons_opt_some : forall c o v, cons_opt c o = Some v -> exists v', o = Some v' /\ v = c :: v'.
Proof. intros c [v'|] v H; cbn in H; [inversion H; eauto | discriminate]. Qed.

(* ---------- main lemma: where the specification assigns a value, the model stores that value ---------- *)
Definition text_agree (q : N) (s : list N) : Prop :=
  (forall v, denote_st q DNorm s = Some v -> unescape_st UNorm s = v)
  /\ (forall acc v, denote_st q (DBrace acc) s = Some v -> unescape_st (UBrace acc) s = v).

Lemma text_core : forall n s, (length s <= n)%nat -> text_agree 34 s.
Proof.
  induction n as [|n IH]; intros s Hlen.
  - destruct s; [|cbn in Hlen; lia]. split; [intros v H; inversion H; reflexivity | intros acc v H; discriminate].
  - destruct s as [|c r]; [split; [intros v H; inversion H; reflexivity | intros acc v H; discriminate]|].
    assert (Hr : text_agree 34 r) by (apply IH; cbn in Hlen; lia).
    split.
    + (* normal state *)
      intros v H. cbn [denote_st] in H.
      destruct (c =? 34) eqn:Eq; [discriminate|].
      destruct (c =? 92) eqn:Ebs.
      * cbn [negb] in H. apply N.eqb_eq in Ebs. subst c.
        destruct r as [|e r1]; [discriminate|].
        destruct (simple_escape 34 e) as [w|] eqn:Ese.
        { apply cons_opt_some in H. destruct H as [v' [Hd ->]].
          rewrite (simple_escape_model e w r1 Ese). f_equal.
          assert (Hr1 : text_agree 34 r1) by (apply IH; cbn in Hlen; lia). apply Hr1. exact Hd. }
        destruct (e =? 117) eqn:Eu; [|discriminate]. cbn [negb] in H. apply N.eqb_eq in Eu. subst e.
        destruct r1 as [|b r2]; [discriminate|].
        destruct (b =? 123) eqn:Eb.
        { apply N.eqb_eq in Eb. subst b. rewrite model_ubrace.
          assert (Hr2 : text_agree 34 r2) by (apply IH; cbn in Hlen; lia). apply Hr2. exact H. }
        destruct r2 as [|h2 [|h3 [|h4 r5]]]; try discriminate.
        rewrite (model_u4 b h2 h3 h4 r5 Eb).
        destruct (positional 16 [b; h2; h3; h4]) as [w|] eqn:Ep; [|discriminate].
        pose proof (positional_acc_4 _ _ _ _ _ Ep) as Hw.
        rewrite (u32_of_positional _ _ Ep) by (unfold u32_max; lia).
        unfold is_high_surrogate in H.
        destruct ((55296 <=? w) && (w <=? 56319)) eqn:Ehi.
        { (* surrogate pair *)
          destruct r5 as [|bs [|u [|l1 [|l2 [|l3 [|l4 r11]]]]]]; try discriminate.
          destruct ((bs =? 92) && (u =? 117)) eqn:Ebu; [|discriminate].
          destruct (positional 16 [l1; l2; l3; l4]) as [lo|] eqn:Epl; [|discriminate].
          pose proof (positional_acc_4 _ _ _ _ _ Epl) as Hlo.
          rewrite (u32_of_positional _ _ Epl) by (unfold u32_max; lia).
          unfold is_low_surrogate in H.
          destruct ((56320 <=? lo) && (lo <=? 57343)) eqn:Elo; [|discriminate].
          apply cons_opt_some in H. destruct H as [v' [Hd ->]].
          rewrite scalar_char by (unfold is_scalar; lia). cbn [push_opt]. f_equal.
          assert (Hr11 : text_agree 34 r11) by (apply IH; cbn in Hlen; lia). apply Hr11. exact Hd. }
        unfold is_low_surrogate in H.
        destruct ((56320 <=? w) && (w <=? 57343)) eqn:Elow; [discriminate|].
        apply cons_opt_some in H. destruct H as [v' [Hd ->]].
        rewrite scalar_char by (unfold is_scalar; lia). cbn [push_opt]. f_equal.
        assert (Hr5 : text_agree 34 r5) by (apply IH; cbn in Hlen; lia). apply Hr5. exact Hd.
      * cbn [negb] in H. apply cons_opt_some in H. destruct H as [v' [Hd ->]].
        cbn [unescape_st]. rewrite Ebs. cbn [negb]. f_equal. apply Hr. exact Hd.
    + (* inside \u{ *)
      intros acc v H. cbn [denote_st] in H. cbn [unescape_st].
      destruct (c =? 125) eqn:Ec.
      * destruct (positional 16 (rev acc)) as [w|] eqn:Ep; [|discriminate].
        destruct (is_scalar w) eqn:Es; [|discriminate].
        apply cons_opt_some in H. destruct H as [v' [Hd ->]].
        rewrite (braced_scalar _ _ Ep Es). cbn [push_opt]. f_equal. apply Hr. exact Hd.
      * apply Hr. exact H.
Qed.

Lemma between_strip : forall k q tok c, between k q tok = Some c -> strip_quotes k tok = c.
Proof.
  intros k q tok c H. unfold between in H. unfold strip_quotes.
  destruct (rev (skipn k tok)) as [|x r]; [discriminate|].
  destruct (x =? q); [|discriminate]. inversion H. reflexivity.
Qed.

(* text_ok, provable part: every text literal that HAS a denotation is stored with exactly that value *)
Theorem text_ok_partial : forall tok v, text_lit tok = Some v -> text_value_model tok = v.
Proof.
  intros tok v H. unfold text_lit in H. destruct (opens_with [34] tok); [|discriminate].
  unfold obind in H. destruct (between 1 34 tok) as [c|] eqn:Eb; [|discriminate].
  unfold text_value_model, unescape_text. rewrite (between_strip _ _ _ _ Eb).
  apply (text_core (length c) c (le_n _)). exact H.
Qed.

(* the denotation is defined only on spellings the token grammar admits *)
Lemma denote_grammar : forall n s, (length s <= n)%nat ->
  (forall v, denote_st 34 DNorm s = Some v -> text_inner_ok TNorm s = true)
  /\ (forall acc v, denote_st 34 (DBrace acc) s = Some v ->
        forallb is_hexdig acc = true -> text_inner_ok (TBrace (nonempty acc)) s = true).
Proof.
  assert (Hhex : forall c d, digit_value 16 c = Some d -> is_hexdig c = true).
  { intros c d H. destruct (N.lt_ge_cases c 128) as [Hlt|Hge].
    - revert H. generalize d. 
      assert (Hall : (fun c => match digit_value 16 c with Some _ => is_hexdig c | None => true end) c = true).
      { revert c Hlt. apply (forallb_below _ 128). vm_compute. reflexivity. }
      cbv beta in Hall. intros d0 H0. rewrite H0 in Hall. exact Hall.
    - rewrite digit_value_big in H by exact Hge. discriminate. }
  assert (Hhex4 : forall a b c d v, positional 16 [a; b; c; d] = Some v ->
            is_hexdig a && is_hexdig b && is_hexdig c && is_hexdig d = true).
  { intros a b c d v H. unfold positional in H. cbn [positional_acc] in H.
    destruct (digit_value 16 a) eqn:E1; [|discriminate]. destruct (digit_value 16 b) eqn:E2; [|discriminate].
    destruct (digit_value 16 c) eqn:E3; [|discriminate]. destruct (digit_value 16 d) eqn:E4; [|discriminate].
    rewrite (Hhex _ _ E1), (Hhex _ _ E2), (Hhex _ _ E3), (Hhex _ _ E4). reflexivity. }
  induction n as [|n IH]; intros s Hlen.
  - destruct s; [|cbn in Hlen; lia]. split; [reflexivity | intros acc v H; discriminate].
  - destruct s as [|c r]; [split; [reflexivity | intros acc v H; discriminate]|].
    assert (Hr : forall t, (length t <= length r)%nat ->
      (forall v, denote_st 34 DNorm t = Some v -> text_inner_ok TNorm t = true)
      /\ (forall acc v, denote_st 34 (DBrace acc) t = Some v ->
           forallb is_hexdig acc = true -> text_inner_ok (TBrace (nonempty acc)) t = true)).
    { intros t Ht. apply IH. cbn in Hlen. lia. }
    split.
    + intros v H. cbn [denote_st] in H. cbn [text_inner_ok].
      destruct (c =? 34) eqn:Eq; [discriminate|].
      destruct (c =? 92) eqn:Ebs.
      * cbn [negb] in H. destruct r as [|e r1]; [discriminate|].
        destruct (simple_escape 34 e) as [w|] eqn:Ese.
        { assert (Hse : is_simple_escape e = true).
          { unfold simple_escape in Ese. unfold is_simple_escape.
            destruct (e =? 34), (e =? 47), (e =? 92), (e =? 98), (e =? 102), (e =? 110), (e =? 114), (e =? 116);
              try reflexivity. rewrite andb_false_r in Ese. discriminate. }
          rewrite Hse. apply cons_opt_some in H. destruct H as [v' [Hd _]].
          eapply (proj1 (Hr r1 ltac:(cbn; lia))). exact Hd. }
        assert (Hse : is_simple_escape e = false).
        { unfold simple_escape in Ese. unfold is_simple_escape.
          destruct (e =? 34), (e =? 47), (e =? 92), (e =? 98), (e =? 102), (e =? 110), (e =? 114), (e =? 116);
            try discriminate; reflexivity. }
        rewrite Hse.
        destruct (e =? 117) eqn:Eu; [|discriminate]. cbn [negb] in H.
        destruct r1 as [|b r2]; [discriminate|].
        destruct (b =? 123) eqn:Eb.
        { apply (proj2 (Hr r2 ltac:(cbn; lia)) [] v H). reflexivity. }
        destruct r2 as [|h2 [|h3 [|h4 r5]]]; try discriminate.
        destruct (positional 16 [b; h2; h3; h4]) as [w|] eqn:Ep; [|discriminate].
        rewrite (Hhex4 _ _ _ _ _ Ep). cbn [andb].
        destruct (is_high_surrogate w).
        { destruct r5 as [|bs [|u [|l1 [|l2 [|l3 [|l4 r11]]]]]]; try discriminate.
          destruct ((bs =? 92) && (u =? 117)) eqn:Ebu; [|discriminate].
          destruct (positional 16 [l1; l2; l3; l4]) as [lo|] eqn:Epl; [|discriminate].
          destruct (is_low_surrogate lo); [|discriminate].
          apply cons_opt_some in H. destruct H as [v' [Hd _]].
          apply andb_prop in Ebu. destruct Ebu as [Ebs' Eu'].
          apply N.eqb_eq in Ebs', Eu'. subst bs u.
          cbn [text_inner_ok]. replace (92 =? 34) with false by reflexivity. replace (92 =? 92) with true by reflexivity.
          replace (is_simple_escape 117) with false by reflexivity. replace (117 =? 117) with true by reflexivity.
          assert (El1 : (l1 =? 123) = false).
          { pose proof (Hhex4 _ _ _ _ _ Epl) as Hh. unfold is_hexdig, is_digit in Hh. lia. }
          rewrite El1. rewrite (Hhex4 _ _ _ _ _ Epl). cbn [andb].
          eapply (proj1 (Hr r11 ltac:(cbn; lia))). exact Hd. }
        destruct (is_low_surrogate w); [discriminate|].
        apply cons_opt_some in H. destruct H as [v' [Hd _]].
        eapply (proj1 (Hr r5 ltac:(cbn; lia))). exact Hd.
      * cbn [negb] in H. apply cons_opt_some in H. destruct H as [v' [Hd _]].
        eapply (proj1 (Hr r (le_n _))). exact Hd.
    + intros acc v H Hacc. cbn [denote_st] in H. cbn [text_inner_ok].
      destruct (c =? 125) eqn:Ec.
      * destruct (positional 16 (rev acc)) as [w|] eqn:Ep; [|discriminate].
        destruct (is_scalar w); [|discriminate].
        apply cons_opt_some in H. destruct H as [v' [Hd _]].
        assert (Hne : nonempty acc = true).
        { destruct acc; [cbn in Ep; discriminate | reflexivity]. }
        rewrite Hne. cbn [andb]. eapply (proj1 (Hr r (le_n _))). exact Hd.
      * assert (Hc : is_hexdig c = true).
        { (* the digits are checked when the brace closes; here: by the denotation of the rest *)
          clear IH Hr.
          (* positional 16 (rev (.. ++ c :: acc)) succeeds at the closing brace, so c is a hex digit *)
          assert (Hin : forall t ds v0, denote_st 34 (DBrace ds) t = Some v0 ->
                         forall x, In x ds -> exists d, digit_value 16 x = Some d).
          { induction t as [|y t IHt]; intros ds v0 Hd x Hx; cbn [denote_st] in Hd; [discriminate|].
            destruct (y =? 125).
            - destruct (positional 16 (rev ds)) as [w|] eqn:Ep; [|discriminate].
              assert (Hall : forall l a0 w0, positional_acc 16 a0 l = Some w0 -> forall x0, In x0 l ->
                        exists d, digit_value 16 x0 = Some d).
              { induction l as [|z l IHl]; intros a0 w0 Hp x0 Hx0; [contradiction|].
                cbn [positional_acc] in Hp. destruct (digit_value 16 z) as [dz|] eqn:Ez; [|discriminate].
                destruct Hx0 as [->|Hx0]; [eauto | eapply IHl; eauto]. }
              unfold positional in Ep. destruct (rev ds) as [|z l] eqn:Erev.
              + discriminate.
              + eapply Hall; [exact Ep|]. rewrite <- Erev. apply -> in_rev. exact Hx.
            - eapply IHt; [exact Hd | right; exact Hx]. }
          destruct (Hin r (c :: acc) v H c (or_introl eq_refl)) as [d Hd]. eapply Hhex; eauto. }
        rewrite Hc. cbn [andb].
        apply (proj2 (Hr r (le_n _)) (c :: acc) v H). cbn [forallb]. rewrite Hc, Hacc. reflexivity.
Qed.

Lemma opens_between_spelling : forall tok c, opens_with [34] tok = true -> between 1 34 tok = Some c ->
  text_inner_ok TNorm c = true -> text_spelling tok = true.
Proof.
  intros tok c Ho Hb Hc. unfold opens_with in Ho. destruct tok as [|q r]; [discriminate|].
  cbn [combine forallb fst snd length] in Ho. unfold text_spelling.
  unfold between in Hb. cbn [skipn] in Hb.
  destruct (rev r) as [|x rr] eqn:Er; [discriminate|].
  destruct (x =? 34) eqn:Ex; [|discriminate]. inversion Hb; subst c.
  assert (Hq : (q =? 34) = true) by (rewrite N.eqb_sym; lia).
  rewrite Hq. unfold nonempty, last_is, strip_last. rewrite Er. cbn [tl]. rewrite Ex.
  destruct r; [discriminate|]. cbn [is_nil negb andb]. exact Hc.
Qed.

Theorem text_lit_grammar : forall tok v, text_lit tok = Some v -> text_spelling tok = true.
Proof.
  intros tok v H. unfold text_lit in H. destruct (opens_with [34] tok) eqn:Eo; [|discriminate].
  unfold obind in H. destruct (between 1 34 tok) as [c|] eqn:Eb; [|discriminate].
  eapply opens_between_spelling; eauto.
  eapply (proj1 (denote_grammar (length c) c (le_n _))). exact H.
Qed.

(* text_ok, the full statement, is FALSE of the faithful model: a lone surrogate escape is dropped silently *)
Theorem text_ok_refuted : exists tok,          (* "\ud800" *)
  text_spelling tok = true /\ text_lit tok = None /\ text_value_model tok = [].
Proof. exists [34; 92; 117; 100; 56; 48; 48; 34]. vm_compute. auto. Qed.

Theorem text_ok_refuted_swallow : exists tok,  (* "\uD800A": the well-formed escape A is swallowed as well *)
  text_spelling tok = true /\ text_lit tok = None /\ text_value_model tok = [].
Proof. exists [34; 92; 117; 68; 56; 48; 48; 92; 117; 48; 48; 52; 49; 34]. vm_compute. auto. Qed.

Theorem text_ok_refuted_range : exists tok,    (* "\u{110000}" *)
  text_spelling tok = true /\ text_lit tok = None /\ text_value_model tok = [].
Proof. exists [34; 92; 117; 123; 49; 49; 48; 48; 48; 48; 125; 34]. vm_compute. auto. Qed.

(* non-vacuity: a, \u0041, the surrogate pair \uD83C\uDC73, \u{1F073}, \n *)
Example text_example :
  text_lit [34; 97; 92;117;48;48;52;49; 92;117;68;56;51;67; 92;117;68;67;55;51; 92;117;123;49;70;48;55;51;125; 92;110; 34]
  = Some [97; 65; 127091; 127091; 10].
Proof. vm_compute. reflexivity. Qed.
