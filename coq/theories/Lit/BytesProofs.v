(* C07 - proofs about the byte-string literal readers (Lit/BytesLit.v) against RFC 4648 as written in Lit/Spec.v *)
From Coq Require Import ZifyBool ZifyNat ZifyN.
From Cddl Require Import Base.Bytes Lit.IntLit Lit.Grammar Lit.TextLit Lit.BytesLit Lit.Spec Lit.Render
  Lit.IntProofs Lit.TextProofs.
Ltac Zify.zify_post_hook ::= Z.div_mod_to_equations.
Arguments N.add : simpl never.
Arguments N.mul : simpl never.
Arguments N.sub : simpl never.
Arguments N.div : simpl never.
Arguments N.modulo : simpl never.
Arguments N.pow : simpl never.
Arguments N.shiftl : simpl never.
Arguments N.shiftr : simpl never.
Arguments N.lor : simpl never.
Arguments N.land : simpl never.
Open Scope N_scope.

(* ---------- whitespace and comments ---------- *)
Lemma is_ws_rust : forall c, is_ws c = true -> is_rust_ws c = true.
Proof. intros c H. unfold is_ws in H. unfold is_rust_ws. lia. Qed.

Lemma clean_strip : forall s ic, extra_ws ic s = false -> clean_st ic s = strip_ws_comments ic s.
Proof.
  induction s as [|c r IH]; intros ic H; [reflexivity|].
  cbn [extra_ws clean_st strip_ws_comments] in *.
  destruct ic.
  - destruct (c =? 10); cbn [negb] in *; apply IH; exact H.
  - destruct (c =? 59); [apply IH; exact H|].
    apply orb_false_elim in H. destruct H as [Hc Hr].
    destruct (is_ws c) eqn:Ew.
    + rewrite (is_ws_rust c Ew). apply IH. exact Hr.
    + cbn [negb] in Hc. rewrite andb_true_r in Hc. rewrite Hc. f_equal. apply IH. exact Hr.
Qed.

(* ---------- base16 ---------- *)
Lemma hex_value_digit : forall c, hex_value c = digit_value 16 c.
Proof.
  intros c. destruct (N.lt_ge_cases c 128) as [Hlt|Hge].
  - assert (H : (fun c => match hex_value c, digit_value 16 c with
                          | Some a, Some b => a =? b | None, None => true | _, _ => false end) c = true).
    { revert c Hlt. apply (forallb_below _ 128). vm_compute. reflexivity. }
    cbv beta in H. destruct (hex_value c), (digit_value 16 c); try discriminate; try reflexivity.
    apply N.eqb_eq in H. congruence.
  - rewrite digit_value_big by exact Hge. unfold hex_value.
    replace ((48 <=? c) && (c <=? 57)) with false by lia.
    replace ((97 <=? c) && (c <=? 102)) with false by lia.
    replace ((65 <=? c) && (c <=? 70)) with false by lia. reflexivity.
Qed.

Lemma hex_byte : forall x y, x < 16 -> y < 16 -> N.land (N.lor (N.shiftl x 4) y) 255 = x * 16 + y.
Proof.
  intros x y Hx Hy.
  assert (H : (fun x => forallb (fun y => N.land (N.lor (N.shiftl x 4) y) 255 =? x * 16 + y)
                                (map N.of_nat (seq 0 16))) x = true).
  { revert x Hx. apply (forallb_below _ 16). vm_compute. reflexivity. }
  cbv beta in H. apply N.eqb_eq. revert y Hy. apply (forallb_below _ 16). exact H.
Qed.

Lemma pair_induction : forall (P : list N -> Prop),
  P [] -> (forall a, P [a]) -> (forall a b r, P r -> P (a :: b :: r)) -> forall s, P s.
Proof.
  intros P H0 H1 H2. fix IH 1. intros [|a [|b r]]; [exact H0 | apply H1 | apply H2; apply IH].
Qed.

Lemma hex_pairs_base16 : forall s, hex_pairs s = base16 s.
Proof.
  apply pair_induction; [reflexivity | reflexivity |].
  intros a b r IH. cbn [hex_pairs base16]. rewrite !hex_value_digit, IH.
  destruct (digit_value 16 a) as [x|] eqn:Ea; [|reflexivity].
  destruct (digit_value 16 b) as [y|] eqn:Eb; [|reflexivity].
  destruct (base16 r); [|reflexivity].
  apply digit_value_lt in Ea, Eb; auto. change (N.of_nat 16) with 16 in *.
  rewrite (hex_byte x y Ea Eb). reflexivity.
Qed.

Lemma hex_pairs_nonascii : forall s, all_ascii s = false -> hex_pairs s = None.
Proof.
  apply (pair_induction (fun s => all_ascii s = false -> hex_pairs s = None)).
  - discriminate.
  - reflexivity.
  - intros a b r IH H. cbn [hex_pairs]. unfold all_ascii in *. cbn [forallb] in H.
    destruct (a <? 128) eqn:Ea.
    + destruct (b <? 128) eqn:Eb.
      * cbn [andb] in H. rewrite (IH H). destruct (hex_value a), (hex_value b); reflexivity.
      * rewrite (hex_value_digit b), digit_value_big by lia. destruct (hex_value a); reflexivity.
    + rewrite (hex_value_digit a), digit_value_big by lia. reflexivity.
Qed.

Theorem hex_decode_base16 : forall s, hex_decode s = base16 s.
Proof.
  intros s. unfold hex_decode. destruct (all_ascii s) eqn:E.
  - apply hex_pairs_base16.
  - rewrite <- hex_pairs_base16. symmetry. apply hex_pairs_nonascii. exact E.
Qed.

(* ---------- token slicing ---------- *)
Lemma quoted_between : forall k tok r, skipn k tok = r -> quoted_tail r = true ->
  between k 39 tok = Some (strip_quotes k tok).
Proof.
  intros k tok r Hr Hq. unfold between, strip_quotes. rewrite Hr.
  unfold quoted_tail, last_is in Hq. destruct (rev r) as [|c rr]; [rewrite andb_false_r in Hq; discriminate|].
  apply andb_prop in Hq. destruct Hq as [Hq _]. apply andb_prop in Hq. destruct Hq as [_ Hq].
  rewrite Hq. reflexivity.
Qed.

Lemma b16_token : forall tok, bytes_b16_spelling tok = true ->
  opens_with [104; 39] tok = true /\ between 2 39 tok = Some (strip_quotes 2 tok).
Proof.
  intros tok H. unfold bytes_b16_spelling in H. destruct tok as [|h [|q r]]; try discriminate.
  apply andb_prop in H. destruct H as [H Hq]. apply andb_prop in H. destruct H as [Hh Hq'].
  split.
  - unfold opens_with. cbn [length combine forallb fst snd]. rewrite (N.eqb_sym 104 h), (N.eqb_sym 39 q), Hh, Hq'. reflexivity.
  - apply (quoted_between 2 _ r); [reflexivity | exact Hq].
Qed.

Lemma b64_token : forall tok, bytes_b64_spelling tok = true ->
  opens_with [98; 54; 52; 39] tok = true /\ between 4 39 tok = Some (strip_quotes 4 tok).
Proof.
  intros tok H. unfold bytes_b64_spelling in H. destruct tok as [|b [|c6 [|c4 [|q r]]]]; try discriminate.
  apply andb_prop in H. destruct H as [H Hq]. apply andb_prop in H. destruct H as [H H4].
  apply andb_prop in H. destruct H as [H H3]. apply andb_prop in H. destruct H as [H1 H2].
  split.
  - unfold opens_with. cbn [length combine forallb fst snd].
    rewrite (N.eqb_sym 98 b), (N.eqb_sym 54 c6), (N.eqb_sym 52 c4), (N.eqb_sym 39 q), H1, H2, H3, H4. reflexivity.
  - apply (quoted_between 4 _ r); [reflexivity | exact Hq].
Qed.

Lemma butf8_token : forall tok, bytes_utf8_spelling tok = true ->
  opens_with [39] tok = true /\ between 1 39 tok = Some (strip_quotes 1 tok).
Proof.
  intros tok H. unfold bytes_utf8_spelling in H. destruct tok as [|q r]; try discriminate.
  apply andb_prop in H. destruct H as [H1 Hq]. split.
  - unfold opens_with. cbn [length combine forallb fst snd]. rewrite (N.eqb_sym 39 q), H1. reflexivity.
  - apply (quoted_between 1 _ r); [reflexivity | exact Hq].
Qed.

(* b16_ok, provable part *)
Theorem b16_ok_partial : forall tok, bytes_b16_spelling tok = true ->
  extra_ws false (b16_content tok) = false -> bytes_b16_model tok = b16_lit tok.
Proof.
  intros tok Hg Hx. destruct (b16_token tok Hg) as [Ho Hb].
  unfold b16_lit, bytes_b16_model, clean_prefixed_byte_string. rewrite Ho, Hb. cbn [obind].
  unfold b16_content in Hx. rewrite (clean_strip _ _ Hx). apply hex_decode_base16.
Qed.

(* b16_ok, the full statement, is FALSE of the faithful model: h'12<U+00A0>34' is accepted as 0x12 0x34 *)
Theorem b16_ok_refuted : exists tok,
  bytes_b16_spelling tok = true /\ b16_lit tok = None /\ bytes_b16_model tok = Some [18; 52].
Proof. exists [104; 39; 49; 50; 160; 51; 52; 39]. vm_compute. auto. Qed.

Example b16_example :     (* h'0a ;c<LF> fF' *)
  bytes_b16_spelling [104;39;48;97;32;59;99;10;32;102;70;39] = true
  /\ b16_lit [104;39;48;97;32;59;99;10;32;102;70;39] = Some [10; 255].
Proof. vm_compute. auto. Qed.

(* ---------- bit arithmetic of one base64 block ---------- *)
Lemma land_mul_pow2_small : forall hi lo n, lo < 2 ^ n -> N.land (hi * 2 ^ n) lo = 0.
Proof.
  intros hi lo n H. apply N.bits_inj_iff. intros i. rewrite N.land_spec, N.bits_0.
  destruct (N.lt_ge_cases i n) as [Hi|Hi].
  - rewrite N.mul_pow2_bits_low by exact Hi. reflexivity.
  - rewrite <- (N.mod_small lo (2 ^ n)) by exact H. rewrite N.mod_pow2_bits_high by exact Hi. apply andb_false_r.
Qed.
Lemma lor_mul_pow2 : forall hi lo n, lo < 2 ^ n -> N.lor (hi * 2 ^ n) lo = hi * 2 ^ n + lo.
Proof.
  intros hi lo n H. pose proof (land_mul_pow2_small hi lo n H) as H0.
  rewrite <- (N.lxor_lor _ _ H0), <- (N.add_nocarry_lxor _ _ H0). reflexivity.
Qed.

Definition X4 (v1 v2 v3 v4 : N) : N := ((v1 * 64 + v2) * 64 + v3) * 64 + v4.

Lemma block_x_4 : forall v1 v2 v3 v4, v1 < 64 -> v2 < 64 -> v3 < 64 -> v4 < 64 ->
  block_x [v1; v2; v3; v4] = X4 v1 v2 v3 v4.
Proof.
  intros v1 v2 v3 v4 H1 H2 H3 H4. unfold block_x, X4. cbn [block_acc].
  change (18 - 6) with 12. change (12 - 6) with 6. change (6 - 6) with 0.
  rewrite N.lor_0_l, !N.shiftl_mul_pow2. rewrite N.pow_0_r, N.mul_1_r.
  rewrite (lor_mul_pow2 v1 (v2 * 2 ^ 12) 18) by (change (2 ^ 12) with 4096; change (2 ^ 18) with 262144; lia).
  replace (v1 * 2 ^ 18 + v2 * 2 ^ 12) with ((v1 * 64 + v2) * 2 ^ 12)
    by (change (2 ^ 12) with 4096; change (2 ^ 18) with 262144; lia).
  rewrite (lor_mul_pow2 (v1 * 64 + v2) (v3 * 2 ^ 6) 12) by (change (2 ^ 12) with 4096; change (2 ^ 6) with 64; lia).
  replace ((v1 * 64 + v2) * 2 ^ 12 + v3 * 2 ^ 6) with (((v1 * 64 + v2) * 64 + v3) * 2 ^ 6)
    by (change (2 ^ 12) with 4096; change (2 ^ 6) with 64; lia).
  rewrite (lor_mul_pow2 _ v4 6) by (change (2 ^ 6) with 64; lia).
  change (2 ^ 6) with 64. reflexivity.
Qed.

Lemma block_x_3 : forall v1 v2 v3, v1 < 64 -> v2 < 64 -> v3 < 64 -> block_x [v1; v2; v3] = X4 v1 v2 v3 0.
Proof.
  intros v1 v2 v3 H1 H2 H3. rewrite <- (block_x_4 v1 v2 v3 0) by lia.
  unfold block_x. cbn [block_acc]. rewrite N.shiftl_0_l, N.lor_0_r. reflexivity.
Qed.
Lemma block_x_2 : forall v1 v2, v1 < 64 -> v2 < 64 -> block_x [v1; v2] = X4 v1 v2 0 0.
Proof.
  intros v1 v2 H1 H2. rewrite <- (block_x_4 v1 v2 0 0) by lia.
  unfold block_x. cbn [block_acc]. rewrite !N.shiftl_0_l, !N.lor_0_r. reflexivity.
Qed.

Lemma block_out_div : forall x,
  block_out x 0 = (x / 65536) mod 256 /\ block_out x 1 = (x / 256) mod 256 /\ block_out x 2 = x mod 256.
Proof.
  intros x. unfold block_out. change 255 with (N.ones 8). rewrite !N.land_ones, !N.shiftr_div_pow2.
  change (8 * (2 - 0)) with 16. change (8 * (2 - 1)) with 8. change (8 * (2 - 2)) with 0.
  change (2 ^ 16) with 65536. change (2 ^ 8) with 256. change (2 ^ 0) with 1. rewrite N.div_1_r. auto.
Qed.

Lemma X4_bytes : forall v1 v2 v3 v4, v1 < 64 -> v2 < 64 -> v3 < 64 -> v4 < 64 ->
  (X4 v1 v2 v3 v4 / 65536) mod 256 = v1 * 4 + v2 / 16
  /\ (X4 v1 v2 v3 v4 / 256) mod 256 = (v2 mod 16) * 16 + v3 / 4
  /\ X4 v1 v2 v3 v4 mod 256 = (v3 mod 4) * 64 + v4.
Proof. intros v1 v2 v3 v4 H1 H2 H3 H4. unfold X4. repeat split; lia. Qed.

Lemma land_15 : forall v, N.land v 15 = v mod 16.
Proof. intros v. change 15 with (N.ones 4). rewrite N.land_ones. reflexivity. Qed.
Lemma land_3 : forall v, N.land v 3 = v mod 4.
Proof. intros v. change 3 with (N.ones 2). rewrite N.land_ones. reflexivity. Qed.

Lemma quad_induction : forall (P : list N -> Prop),
  P [] -> (forall a, P [a]) -> (forall a b, P [a; b]) -> (forall a b c, P [a; b; c]) ->
  (forall a b c d r, P r -> P (a :: b :: c :: d :: r)) -> forall s, P s.
Proof.
  intros P H0 H1 H2 H3 H4. fix IH 1.
  intros [|a [|b [|c [|d r]]]]; [exact H0 | apply H1 | apply H2 | apply H3 | apply H4; apply IH].
Qed.

Section B64.
  Variable val : N -> option N.
  Variable alphabet : list N.
  Hypothesis Hval : forall c, val c = index_of c alphabet.
  Hypothesis Hlt : forall c v, val c = Some v -> v < 64.
  Hypothesis H61 : val 61 = None.

  Lemma values2 : forall a b, values val [a; b] =
    match val a, val b with Some x, Some y => Some [x; y] | _, _ => None end.
  Proof. intros. cbn [values]. destruct (val a), (val b); reflexivity. Qed.
  Lemma values3 : forall a b c, values val [a; b; c] =
    match val a, val b, val c with Some x, Some y, Some z => Some [x; y; z] | _, _, _ => None end.
  Proof. intros. cbn [values]. destruct (val a), (val b), (val c); reflexivity. Qed.
  Lemma values4 : forall a b c d, values val [a; b; c; d] =
    match val a, val b, val c, val d with Some x, Some y, Some z, Some w => Some [x; y; z; w] | _, _, _, _ => None end.
  Proof. intros. cbn [values]. destruct (val a), (val b), (val c), (val d); reflexivity. Qed.

  (* unpadded decoding = RFC 4648 groups *)
  Lemma decode_base_groups : forall s, decode_base val s = base64_groups alphabet s.
  Proof.
    apply quad_induction.
    - reflexivity.
    - reflexivity.
    - intros a b. cbn [decode_base base64_groups]. rewrite values2, <- !Hval.
      destruct (val a) as [x|] eqn:Ea; [|reflexivity]. destruct (val b) as [y|] eqn:Eb; [|reflexivity].
      pose proof (Hlt _ _ Ea) as Hx. pose proof (Hlt _ _ Eb) as Hy.
      cbn [nth]. rewrite land_15. destruct (y mod 16 =? 0); [|reflexivity].
      rewrite (block_x_2 x y Hx Hy). destruct (block_out_div (X4 x y 0 0)) as [-> _].
      destruct (X4_bytes x y 0 0) as [-> _]; try lia. reflexivity.
    - intros a b c. cbn [decode_base base64_groups]. rewrite values3, <- !Hval.
      destruct (val a) as [x|] eqn:Ea; [|reflexivity]. destruct (val b) as [y|] eqn:Eb; [|reflexivity].
      destruct (val c) as [z|] eqn:Ec; [|reflexivity].
      pose proof (Hlt _ _ Ea) as Hx. pose proof (Hlt _ _ Eb) as Hy. pose proof (Hlt _ _ Ec) as Hz.
      cbn [nth]. rewrite land_3. destruct (z mod 4 =? 0); [|reflexivity].
      rewrite (block_x_3 x y z Hx Hy Hz). destruct (block_out_div (X4 x y z 0)) as [-> [-> _]].
      destruct (X4_bytes x y z 0) as [-> [-> _]]; try lia. reflexivity.
    - intros a b c d r IH.
      change (decode_base val (a :: b :: c :: d :: r)) with
        (match values val [a; b; c; d], decode_base val r with
         | Some vs, Some out => Some (block_out (block_x vs) 0 :: block_out (block_x vs) 1 :: block_out (block_x vs) 2 :: out)
         | _, _ => None end).
      cbn [base64_groups]. rewrite values4, <- !Hval, IH.
      destruct (val a) as [x|] eqn:Ea; [|reflexivity]. destruct (val b) as [y|] eqn:Eb; [|reflexivity].
      destruct (val c) as [z|] eqn:Ec; [|reflexivity]. destruct (val d) as [w|] eqn:Ed; [|reflexivity].
      pose proof (Hlt _ _ Ea) as Hx. pose proof (Hlt _ _ Eb) as Hy. pose proof (Hlt _ _ Ec) as Hz. pose proof (Hlt _ _ Ed) as Hw.
      destruct (base64_groups alphabet r); [|reflexivity].
      rewrite (block_x_4 x y z w Hx Hy Hz Hw). destruct (block_out_div (X4 x y z w)) as [-> [-> ->]].
      destruct (X4_bytes x y z w Hx Hy Hz Hw) as [-> [-> ->]]. reflexivity.
  Qed.

  (* one block of the padded decoder *)
  Definition pad_block (a b c d : N) : option (list N) :=
    match values val [a; b; c; d] with
    | Some vs => Some [block_out (block_x vs) 0; block_out (block_x vs) 1; block_out (block_x vs) 2]
    | None =>
      let len := (4 - count_trailing_pad_rev (rev [a; b; c; d]))%nat in
      if ((len =? 0) || (len =? 1))%nat then None else decode_base val (firstn len [a; b; c; d])
    end.
  Lemma decode_pad_unfold : forall a b c d r,
    decode_pad val (a :: b :: c :: d :: r) =
    match pad_block a b c d, decode_pad val r with Some o, Some out => Some (o ++ out) | _, _ => None end.
  Proof. reflexivity. Qed.

  Lemma values_61 : forall a b c, values val [a; b; c; 61] = None.
  Proof. intros. rewrite values4, H61. destruct (val a), (val b), (val c); reflexivity. Qed.

  Lemma pad_block_full : forall a b c d, d <> 61 ->
    pad_block a b c d = decode_base val [a; b; c; d].
  Proof.
    intros a b c d Hd. unfold pad_block.
    change (decode_base val [a; b; c; d]) with
      (match values val [a; b; c; d], decode_base val [] with
       | Some vs, Some out => Some (block_out (block_x vs) 0 :: block_out (block_x vs) 1 :: block_out (block_x vs) 2 :: out)
       | _, _ => None end).
    destruct (values val [a; b; c; d]) as [vs|] eqn:Ev; [reflexivity|].
    cbn [rev app count_trailing_pad_rev]. replace (d =? 61) with false by lia.
    cbn [Nat.sub Nat.eqb orb firstn].
    change (decode_base val [a; b; c; d]) with
      (match values val [a; b; c; d], decode_base val [] with
       | Some vs, Some out => Some (block_out (block_x vs) 0 :: block_out (block_x vs) 1 :: block_out (block_x vs) 2 :: out)
       | _, _ => None end).
    rewrite Ev. reflexivity.
  Qed.

  Lemma pad_block_3 : forall a b c, c <> 61 -> pad_block a b c 61 = decode_base val [a; b; c].
  Proof.
    intros a b c Hc. unfold pad_block. rewrite values_61.
    cbn [rev app count_trailing_pad_rev]. replace (61 =? 61) with true by reflexivity.
    replace (c =? 61) with false by lia. reflexivity.
  Qed.
  Lemma pad_block_2 : forall a b, b <> 61 -> pad_block a b 61 61 = decode_base val [a; b].
  Proof.
    intros a b Hb. unfold pad_block. rewrite values_61.
    cbn [rev app count_trailing_pad_rev]. replace (61 =? 61) with true by reflexivity.
    replace (b =? 61) with false by lia. reflexivity.
  Qed.
  Lemma pad_block_1 : forall a, pad_block a 61 61 61 = None.
  Proof.
    intros a. unfold pad_block. rewrite values_61.
    cbn [rev app count_trailing_pad_rev]. replace (61 =? 61) with true by reflexivity.
    destruct (a =? 61); reflexivity.
  Qed.

  Lemma decode_pad_pads : forall k, (1 <= k)%nat -> decode_pad val (repeat 61 k) = None.
  Proof.
    intros k Hk. destruct k as [|[|[|[|k]]]]; [lia | reflexivity | reflexivity | reflexivity |].
    cbn [repeat]. rewrite decode_pad_unfold, pad_block_1. reflexivity.
  Qed.

  Definition no61 (s : list N) : bool := forallb (fun c => negb (c =? 61)) s.

  Lemma decode_pad_core : forall data, no61 data = true -> forall k, (1 <= k)%nat ->
    decode_pad val (data ++ repeat 61 k) =
    if ((length data + k) mod 4 =? 0)%nat && (k <=? 2)%nat then base64_groups alphabet data else None.
  Proof.
    apply (quad_induction (fun data => no61 data = true -> forall k, (1 <= k)%nat ->
      decode_pad val (data ++ repeat 61 k) =
      if ((length data + k) mod 4 =? 0)%nat && (k <=? 2)%nat then base64_groups alphabet data else None)).
    - intros _ k Hk. cbn [app length]. rewrite (decode_pad_pads k Hk).
      replace (((0 + k) mod 4 =? 0)%nat && (k <=? 2)%nat) with false; [reflexivity|].
      destruct k as [|[|[|k]]]; try lia; reflexivity.
    - intros a _ k Hk. cbn [base64_groups]. destruct (((length [a] + k) mod 4 =? 0)%nat && (k <=? 2)%nat).
      all: destruct k as [|[|[|k]]]; [lia | reflexivity | reflexivity |];
           cbn [app repeat]; rewrite decode_pad_unfold, pad_block_1; reflexivity.
    - intros a b Hn k Hk. unfold no61 in Hn. cbn [forallb] in Hn.
      assert (Hb : b <> 61) by lia.
      destruct k as [|[|[|k]]]; [lia | reflexivity | |].
      + cbn [app repeat]. rewrite decode_pad_unfold, (pad_block_2 a b Hb).
        change (decode_pad val []) with (Some (@nil N)). rewrite decode_base_groups.
        cbn [length Nat.add Nat.modulo Nat.eqb Nat.leb andb].
        replace ((4 mod 4 =? 0)%nat) with true by reflexivity. cbn [andb].
        destruct (base64_groups alphabet [a; b]) as [o|]; [rewrite app_nil_r|]; reflexivity.
      + cbn [app repeat]. rewrite decode_pad_unfold.
        rewrite (decode_pad_pads (S k)) by lia.
        replace (((length [a; b] + S (S (S k))) mod 4 =? 0)%nat && (S (S (S k)) <=? 2)%nat) with false
          by (rewrite andb_false_r; reflexivity).
        destruct (pad_block a b 61 61); reflexivity.
    - intros a b c Hn k Hk. unfold no61 in Hn. cbn [forallb] in Hn.
      assert (Hc : c <> 61) by lia.
      destruct k as [|[|k]]; [lia | |].
      + cbn [app repeat]. rewrite decode_pad_unfold, (pad_block_3 a b c Hc).
        change (decode_pad val []) with (Some (@nil N)). rewrite decode_base_groups.
        replace (((length [a; b; c] + 1) mod 4 =? 0)%nat && (1 <=? 2)%nat) with true by reflexivity.
        destruct (base64_groups alphabet [a; b; c]) as [o|]; [rewrite app_nil_r|]; reflexivity.
      + cbn [app repeat]. rewrite decode_pad_unfold.
        rewrite (decode_pad_pads (S k)) by lia.
        replace (((length [a; b; c] + S (S k)) mod 4 =? 0)%nat && (S (S k) <=? 2)%nat) with false.
        * destruct (pad_block a b c 61); reflexivity.
        * destruct k as [|k]; [reflexivity | rewrite andb_false_r; reflexivity].
    - intros a b c d r IH Hn k Hk. unfold no61 in Hn. cbn [forallb] in Hn.
      assert (Hd : d <> 61) by lia.
      assert (Hr : no61 r = true) by (unfold no61; lia).
      cbn [app]. rewrite decode_pad_unfold, (pad_block_full a b c d Hd), (IH Hr k Hk).
      rewrite decode_base_groups.
      replace ((length (a :: b :: c :: d :: r) + k) mod 4 =? 0)%nat with ((length r + k) mod 4 =? 0)%nat.
      2:{ cbn [length]. replace (S (S (S (S (length r)))) + k)%nat with ((length r + k) + 1 * 4)%nat by lia.
          rewrite Nat.mod_add by lia. reflexivity. }
      destruct (((length r + k) mod 4 =? 0)%nat && (k <=? 2)%nat).
      + cbn [base64_groups].
        destruct (index_of a alphabet) as [x|]; [|reflexivity]. destruct (index_of b alphabet) as [y|]; [|reflexivity].
        destruct (index_of c alphabet) as [z|]; [|reflexivity]. destruct (index_of d alphabet) as [w|]; [|reflexivity].
        destruct (base64_groups alphabet r) as [out|]; reflexivity.
      + destruct (base64_groups alphabet [a; b; c; d]); reflexivity.
  Qed.
End B64.
