(* C07 - proofs about the byte-string literal readers (Lit/BytesLit.v) against RFC 4648 as written in Lit/Spec.v *)
From Coq Require Import ZifyBool ZifyNat ZifyN.
From Cddl Require Import Base.Bytes Lit.IntLit Lit.Grammar Lit.TextLit Lit.BytesLit Lit.Spec Lit.Render
  Lit.IntProofs Lit.TextProofs.
Ltac Zify.zify_post_hook ::= Z.div_mod_to_equations.
Arguments N.add : simpl never.
Arguments N.mul : simpl never.
Arguments N.sub : simpl never.
Arguments N.div : simpl never.
Arguments N.modulo : simpl never.
Arguments N.pow : simpl never.
Arguments N.shiftl : simpl never.
Arguments N.shiftr : simpl never.
Arguments N.lor : simpl never.
Arguments N.land : simpl never.
Open Scope N_scope.

(* ---------- whitespace and comments ---------- *)
Lemma grammar_ws_is_ws : forall c, is_grammar_ws c = is_ws c.
Proof. intros c. unfold is_grammar_ws, is_ws. lia. Qed.

Lemma clean_strip : forall s ic, clean_st ic s = strip_ws_comments ic s.
Proof.
  induction s as [|c r IH]; intros ic; [reflexivity|].
  cbn [clean_st strip_ws_comments]. rewrite grammar_ws_is_ws.
  destruct ic.
  - destruct (c =? 10); cbn [negb]; apply IH.
  - destruct (c =? 59); [apply IH|]. destruct (is_ws c); [apply IH | f_equal; apply IH].
Qed.

(* ---------- base16 ---------- *)
Lemma hex_value_digit : forall c, hex_value c = digit_value 16 c.
Proof.
  intros c. destruct (N.lt_ge_cases c 128) as [Hlt|Hge].
  - assert (H : (fun c => match hex_value c, digit_value 16 c with
                          | Some a, Some b => a =? b | None, None => true | _, _ => false end) c = true).
    { revert c Hlt. apply (forallb_below _ 128). vm_compute. reflexivity. }
    cbv beta in H. destruct (hex_value c), (digit_value 16 c); try discriminate; try reflexivity.
    apply N.eqb_eq in H. congruence.
  - rewrite digit_value_big by exact Hge. unfold hex_value.
    replace ((48 <=? c) && (c <=? 57)) with false by lia.
    replace ((97 <=? c) && (c <=? 102)) with false by lia.
    replace ((65 <=? c) && (c <=? 70)) with false by lia. reflexivity.
Qed.

Lemma hex_byte : forall x y, x < 16 -> y < 16 -> N.land (N.lor (N.shiftl x 4) y) 255 = x * 16 + y.
Proof.
  intros x y Hx Hy.
  assert (H : (fun x => forallb (fun y => N.land (N.lor (N.shiftl x 4) y) 255 =? x * 16 + y)
                                (map N.of_nat (seq 0 16))) x = true).
  { revert x Hx. apply (forallb_below _ 16). vm_compute. reflexivity. }
  cbv beta in H. apply N.eqb_eq. revert y Hy. apply (forallb_below _ 16). exact H.
Qed.

Lemma pair_induction : forall (P : list N -> Prop),
  P [] -> (forall a, P [a]) -> (forall a b r, P r -> P (a :: b :: r)) -> forall s, P s.
Proof.
  intros P H0 H1 H2. fix IH 1. intros [|a [|b r]]; [exact H0 | apply H1 | apply H2; apply IH].
Qed.

Lemma hex_pairs_base16 : forall s, hex_pairs s = base16 s.
Proof.
  apply pair_induction; [reflexivity | reflexivity |].
  intros a b r IH. cbn [hex_pairs base16]. rewrite !hex_value_digit, IH.
  destruct (digit_value 16 a) as [x|] eqn:Ea; [|reflexivity].
  destruct (digit_value 16 b) as [y|] eqn:Eb; [|reflexivity].
  destruct (base16 r); [|reflexivity].
  apply digit_value_lt in Ea, Eb; auto. change (N.of_nat 16) with 16 in *.
  rewrite (hex_byte x y Ea Eb). reflexivity.
Qed.

Lemma hex_pairs_nonascii : forall s, all_ascii s = false -> hex_pairs s = None.
Proof.
  apply (pair_induction (fun s => all_ascii s = false -> hex_pairs s = None)).
  - discriminate.
  - reflexivity.
  - intros a b r IH H. cbn [hex_pairs]. unfold all_ascii in *. cbn [forallb] in H.
    destruct (a <? 128) eqn:Ea.
    + destruct (b <? 128) eqn:Eb.
      * cbn [andb] in H. rewrite (IH H). destruct (hex_value a), (hex_value b); reflexivity.
      * rewrite (hex_value_digit b), digit_value_big by lia. destruct (hex_value a); reflexivity.
    + rewrite (hex_value_digit a), digit_value_big by lia. reflexivity.
Qed.

Theorem hex_decode_base16 : forall s, hex_decode s = base16 s.
Proof.
  intros s. unfold hex_decode. destruct (all_ascii s) eqn:E.
  - apply hex_pairs_base16.
  - rewrite <- hex_pairs_base16. symmetry. apply hex_pairs_nonascii. exact E.
Qed.

(* ---------- token slicing ---------- *)
Lemma quoted_between : forall k tok r, skipn k tok = r -> quoted_tail r = true ->
  between k 39 tok = Some (strip_quotes k tok).
Proof.
  intros k tok r Hr Hq. unfold between, strip_quotes. rewrite Hr.
  unfold quoted_tail, last_is in Hq. destruct (rev r) as [|c rr]; [rewrite andb_false_r in Hq; discriminate|].
  apply andb_prop in Hq. destruct Hq as [Hq _]. apply andb_prop in Hq. destruct Hq as [_ Hq].
  rewrite Hq. reflexivity.
Qed.

Lemma b16_token : forall tok, bytes_b16_spelling tok = true ->
  opens_with [104; 39] tok = true /\ between 2 39 tok = Some (strip_quotes 2 tok).
Proof.
  intros tok H. unfold bytes_b16_spelling in H. destruct tok as [|h [|q r]]; try discriminate.
  apply andb_prop in H. destruct H as [H Hq]. apply andb_prop in H. destruct H as [Hh Hq'].
  split.
  - unfold opens_with. cbn [length combine forallb fst snd]. rewrite (N.eqb_sym 104 h), (N.eqb_sym 39 q), Hh, Hq'. reflexivity.
  - apply (quoted_between 2 _ r); [reflexivity | exact Hq].
Qed.

Lemma b64_token : forall tok, bytes_b64_spelling tok = true ->
  opens_with [98; 54; 52; 39] tok = true /\ between 4 39 tok = Some (strip_quotes 4 tok).
Proof.
  intros tok H. unfold bytes_b64_spelling in H. destruct tok as [|b [|c6 [|c4 [|q r]]]]; try discriminate.
  apply andb_prop in H. destruct H as [H Hq]. apply andb_prop in H. destruct H as [H H4].
  apply andb_prop in H. destruct H as [H H3]. apply andb_prop in H. destruct H as [H1 H2].
  split.
  - unfold opens_with. cbn [length combine forallb fst snd].
    rewrite (N.eqb_sym 98 b), (N.eqb_sym 54 c6), (N.eqb_sym 52 c4), (N.eqb_sym 39 q), H1, H2, H3, H4. reflexivity.
  - apply (quoted_between 4 _ r); [reflexivity | exact Hq].
Qed.

Lemma butf8_token : forall tok, bytes_utf8_spelling tok = true ->
  opens_with [39] tok = true /\ between 1 39 tok = Some (strip_quotes 1 tok).
Proof.
  intros tok H. unfold bytes_utf8_spelling in H. destruct tok as [|q r]; try discriminate.
  apply andb_prop in H. destruct H as [H1 Hq]. split.
  - unfold opens_with. cbn [length combine forallb fst snd]. rewrite (N.eqb_sym 39 q), H1. reflexivity.
  - apply (quoted_between 1 _ r); [reflexivity | exact Hq].
Qed.

(* b16_ok *)
Theorem b16_ok : forall tok, bytes_b16_spelling tok = true -> bytes_b16_model tok = b16_lit tok.
Proof.
  intros tok Hg. destruct (b16_token tok Hg) as [Ho Hb].
  unfold b16_lit, bytes_b16_model, clean_prefixed_byte_string. rewrite Ho, Hb. cbn [obind].
  rewrite clean_strip. apply hex_decode_base16.
Qed.

Example b16_example :     (* h'0a ;c<LF> fF' ; h'12<U+00A0>34' is rejected (kf-c07-bytes-nongrammar-ws, fixed) *)
  bytes_b16_spelling [104;39;48;97;32;59;99;10;32;102;70;39] = true
  /\ b16_lit [104;39;48;97;32;59;99;10;32;102;70;39] = Some [10; 255]
  /\ bytes_b16_spelling [104; 39; 49; 50; 160; 51; 52; 39] = true
  /\ bytes_b16_model [104; 39; 49; 50; 160; 51; 52; 39] = None.
Proof. vm_compute. auto. Qed.

(* ---------- bit arithmetic of one base64 block ---------- *)
Lemma land_mul_pow2_small : forall hi lo n, lo < 2 ^ n -> N.land (hi * 2 ^ n) lo = 0.
Proof.
  intros hi lo n H. apply N.bits_inj_iff. intros i. rewrite N.land_spec, N.bits_0.
  destruct (N.lt_ge_cases i n) as [Hi|Hi].
  - rewrite N.mul_pow2_bits_low by exact Hi. reflexivity.
  - rewrite <- (N.mod_small lo (2 ^ n)) by exact H. rewrite N.mod_pow2_bits_high by exact Hi. apply andb_false_r.
Qed.
Lemma lor_mul_pow2 : forall hi lo n, lo < 2 ^ n -> N.lor (hi * 2 ^ n) lo = hi * 2 ^ n + lo.
Proof.
  intros hi lo n H. pose proof (land_mul_pow2_small hi lo n H) as H0.
  rewrite <- (N.lxor_lor _ _ H0), <- (N.add_nocarry_lxor _ _ H0). reflexivity.
Qed.

Definition X4 (v1 v2 v3 v4 : N) : N := ((v1 * 64 + v2) * 64 + v3) * 64 + v4.

Lemma block_x_4 : forall v1 v2 v3 v4, v1 < 64 -> v2 < 64 -> v3 < 64 -> v4 < 64 ->
  block_x [v1; v2; v3; v4] = X4 v1 v2 v3 v4.
Proof.
  intros v1 v2 v3 v4 H1 H2 H3 H4. unfold block_x, X4. cbn [block_acc].
  change (18 - 6) with 12. change (12 - 6) with 6. change (6 - 6) with 0.
  rewrite N.lor_0_l, !N.shiftl_mul_pow2. rewrite N.pow_0_r, N.mul_1_r.
  rewrite (lor_mul_pow2 v1 (v2 * 2 ^ 12) 18) by (change (2 ^ 12) with 4096; change (2 ^ 18) with 262144; lia).
  replace (v1 * 2 ^ 18 + v2 * 2 ^ 12) with ((v1 * 64 + v2) * 2 ^ 12)
    by (change (2 ^ 12) with 4096; change (2 ^ 18) with 262144; lia).
  rewrite (lor_mul_pow2 (v1 * 64 + v2) (v3 * 2 ^ 6) 12) by (change (2 ^ 12) with 4096; change (2 ^ 6) with 64; lia).
  replace ((v1 * 64 + v2) * 2 ^ 12 + v3 * 2 ^ 6) with (((v1 * 64 + v2) * 64 + v3) * 2 ^ 6)
    by (change (2 ^ 12) with 4096; change (2 ^ 6) with 64; lia).
  rewrite (lor_mul_pow2 _ v4 6) by (change (2 ^ 6) with 64; lia).
  change (2 ^ 6) with 64. reflexivity.
Qed.

Lemma block_x_3 : forall v1 v2 v3, v1 < 64 -> v2 < 64 -> v3 < 64 -> block_x [v1; v2; v3] = X4 v1 v2 v3 0.
Proof.
  intros v1 v2 v3 H1 H2 H3. rewrite <- (block_x_4 v1 v2 v3 0) by lia.
  unfold block_x. cbn [block_acc]. rewrite N.shiftl_0_l, N.lor_0_r. reflexivity.
Qed.
Lemma block_x_2 : forall v1 v2, v1 < 64 -> v2 < 64 -> block_x [v1; v2] = X4 v1 v2 0 0.
Proof.
  intros v1 v2 H1 H2. rewrite <- (block_x_4 v1 v2 0 0) by lia.
  unfold block_x. cbn [block_acc]. rewrite !N.shiftl_0_l, !N.lor_0_r. reflexivity.
Qed.

Lemma block_out_div : forall x,
  block_out x 0 = (x / 65536) mod 256 /\ block_out x 1 = (x / 256) mod 256 /\ block_out x 2 = x mod 256.
Proof.
  intros x. unfold block_out. change 255 with (N.ones 8). rewrite !N.land_ones, !N.shiftr_div_pow2.
  change (8 * (2 - 0)) with 16. change (8 * (2 - 1)) with 8. change (8 * (2 - 2)) with 0.
  change (2 ^ 16) with 65536. change (2 ^ 8) with 256. change (2 ^ 0) with 1. rewrite N.div_1_r. auto.
Qed.

Lemma X4_bytes : forall v1 v2 v3 v4, v1 < 64 -> v2 < 64 -> v3 < 64 -> v4 < 64 ->
  (X4 v1 v2 v3 v4 / 65536) mod 256 = v1 * 4 + v2 / 16
  /\ (X4 v1 v2 v3 v4 / 256) mod 256 = (v2 mod 16) * 16 + v3 / 4
  /\ X4 v1 v2 v3 v4 mod 256 = (v3 mod 4) * 64 + v4.
Proof. intros v1 v2 v3 v4 H1 H2 H3 H4. unfold X4. repeat split; lia. Qed.

Lemma land_15 : forall v, N.land v 15 = v mod 16.
Proof. intros v. change 15 with (N.ones 4). rewrite N.land_ones. reflexivity. Qed.
Lemma land_3 : forall v, N.land v 3 = v mod 4.
Proof. intros v. change 3 with (N.ones 2). rewrite N.land_ones. reflexivity. Qed.

Lemma quad_induction : forall (P : list N -> Prop),
  P [] -> (forall a, P [a]) -> (forall a b, P [a; b]) -> (forall a b c, P [a; b; c]) ->
  (forall a b c d r, P r -> P (a :: b :: c :: d :: r)) -> forall s, P s.
Proof.
  intros P H0 H1 H2 H3 H4. fix IH 1.
  intros [|a [|b [|c [|d r]]]]; [exact H0 | apply H1 | apply H2 | apply H3 | apply H4; apply IH].
Qed.

Section B64.
  Variable val : N -> option N.
  Variable alphabet : list N.
  Hypothesis Hval : forall c, val c = index_of c alphabet.
  Hypothesis Hlt : forall c v, val c = Some v -> v < 64.
  Hypothesis H61 : val 61 = None.

  Lemma values2 : forall a b, values val [a; b] =
    match val a, val b with Some x, Some y => Some [x; y] | _, _ => None end.
  Proof. intros. cbn [values]. destruct (val a), (val b); reflexivity. Qed.
  Lemma values3 : forall a b c, values val [a; b; c] =
    match val a, val b, val c with Some x, Some y, Some z => Some [x; y; z] | _, _, _ => None end.
  Proof. intros. cbn [values]. destruct (val a), (val b), (val c); reflexivity. Qed.
  Lemma values4 : forall a b c d, values val [a; b; c; d] =
    match val a, val b, val c, val d with Some x, Some y, Some z, Some w => Some [x; y; z; w] | _, _, _, _ => None end.
  Proof. intros. cbn [values]. destruct (val a), (val b), (val c), (val d); reflexivity. Qed.

  (* unpadded decoding = RFC 4648 groups *)
  Lemma decode_base_groups : forall s, decode_base val s = base64_groups alphabet s.
  Proof.
    apply quad_induction.
    - reflexivity.
    - reflexivity.
    - intros a b. cbn [decode_base base64_groups]. rewrite values2, <- !Hval.
      destruct (val a) as [x|] eqn:Ea; [|reflexivity]. destruct (val b) as [y|] eqn:Eb; [|reflexivity].
      pose proof (Hlt _ _ Ea) as Hx. pose proof (Hlt _ _ Eb) as Hy.
      cbn [nth]. rewrite land_15. destruct (y mod 16 =? 0); [|reflexivity].
      rewrite (block_x_2 x y Hx Hy). destruct (block_out_div (X4 x y 0 0)) as [-> _].
      destruct (X4_bytes x y 0 0) as [-> _]; try lia. reflexivity.
    - intros a b c. cbn [decode_base base64_groups]. rewrite values3, <- !Hval.
      destruct (val a) as [x|] eqn:Ea; [|reflexivity]. destruct (val b) as [y|] eqn:Eb; [|reflexivity].
      destruct (val c) as [z|] eqn:Ec; [|reflexivity].
      pose proof (Hlt _ _ Ea) as Hx. pose proof (Hlt _ _ Eb) as Hy. pose proof (Hlt _ _ Ec) as Hz.
      cbn [nth]. rewrite land_3. destruct (z mod 4 =? 0); [|reflexivity].
      rewrite (block_x_3 x y z Hx Hy Hz). destruct (block_out_div (X4 x y z 0)) as [-> [-> _]].
      destruct (X4_bytes x y z 0) as [-> [-> _]]; try lia. reflexivity.
    - intros a b c d r IH.
      change (decode_base val (a :: b :: c :: d :: r)) with
        (match values val [a; b; c; d], decode_base val r with
         | Some vs, Some out => Some (block_out (block_x vs) 0 :: block_out (block_x vs) 1 :: block_out (block_x vs) 2 :: out)
         | _, _ => None end).
      cbn [base64_groups]. rewrite values4, <- !Hval, IH.
      destruct (val a) as [x|] eqn:Ea; [|reflexivity]. destruct (val b) as [y|] eqn:Eb; [|reflexivity].
      destruct (val c) as [z|] eqn:Ec; [|reflexivity]. destruct (val d) as [w|] eqn:Ed; [|reflexivity].
      pose proof (Hlt _ _ Ea) as Hx. pose proof (Hlt _ _ Eb) as Hy. pose proof (Hlt _ _ Ec) as Hz. pose proof (Hlt _ _ Ed) as Hw.
      destruct (base64_groups alphabet r); [|reflexivity].
      rewrite (block_x_4 x y z w Hx Hy Hz Hw). destruct (block_out_div (X4 x y z w)) as [-> [-> ->]].
      destruct (X4_bytes x y z w Hx Hy Hz Hw) as [-> [-> ->]]. reflexivity.
  Qed.

  (* one block of the padded decoder *)
  Definition pad_block (a b c d : N) : option (list N) :=
    match values val [a; b; c; d] with
    | Some vs => Some [block_out (block_x vs) 0; block_out (block_x vs) 1; block_out (block_x vs) 2]
    | None =>
      let len := (4 - count_trailing_pad_rev (rev [a; b; c; d]))%nat in
      if ((len =? 0) || (len =? 1))%nat then None else decode_base val (firstn len [a; b; c; d])
    end.
  Lemma decode_pad_unfold : forall a b c d r,
    decode_pad val (a :: b :: c :: d :: r) =
    match pad_block a b c d, decode_pad val r with Some o, Some out => Some (o ++ out) | _, _ => None end.
  Proof. reflexivity. Qed.

  Lemma values_61 : forall a b c, values val [a; b; c; 61] = None.
  Proof. intros. rewrite values4, H61. destruct (val a), (val b), (val c); reflexivity. Qed.

  Lemma pad_block_full : forall a b c d, d <> 61 ->
    pad_block a b c d = decode_base val [a; b; c; d].
  Proof.
    intros a b c d Hd. unfold pad_block.
    change (decode_base val [a; b; c; d]) with
      (match values val [a; b; c; d], decode_base val [] with
       | Some vs, Some out => Some (block_out (block_x vs) 0 :: block_out (block_x vs) 1 :: block_out (block_x vs) 2 :: out)
       | _, _ => None end).
    destruct (values val [a; b; c; d]) as [vs|] eqn:Ev; [reflexivity|].
    cbn [rev app count_trailing_pad_rev]. replace (d =? 61) with false by lia.
    cbn [Nat.sub Nat.eqb orb firstn].
    change (decode_base val [a; b; c; d]) with
      (match values val [a; b; c; d], decode_base val [] with
       | Some vs, Some out => Some (block_out (block_x vs) 0 :: block_out (block_x vs) 1 :: block_out (block_x vs) 2 :: out)
       | _, _ => None end).
    rewrite Ev. reflexivity.
  Qed.

  Lemma pad_block_3 : forall a b c, c <> 61 -> pad_block a b c 61 = decode_base val [a; b; c].
  Proof.
    intros a b c Hc. unfold pad_block. rewrite values_61.
    cbn [rev app count_trailing_pad_rev]. replace (61 =? 61) with true by reflexivity.
    replace (c =? 61) with false by lia. reflexivity.
  Qed.
  Lemma pad_block_2 : forall a b, b <> 61 -> pad_block a b 61 61 = decode_base val [a; b].
  Proof.
    intros a b Hb. unfold pad_block. rewrite values_61.
    cbn [rev app count_trailing_pad_rev]. replace (61 =? 61) with true by reflexivity.
    replace (b =? 61) with false by lia. reflexivity.
  Qed.
  Lemma pad_block_1 : forall a, pad_block a 61 61 61 = None.
  Proof.
    intros a. unfold pad_block. rewrite values_61.
    cbn [rev app count_trailing_pad_rev]. replace (61 =? 61) with true by reflexivity.
    destruct (a =? 61); reflexivity.
  Qed.

  Lemma decode_pad_pads : forall k, (1 <= k)%nat -> decode_pad val (repeat 61 k) = None.
  Proof.
    intros k Hk. destruct k as [|[|[|[|k]]]]; [lia | reflexivity | reflexivity | reflexivity |].
    cbn [repeat]. rewrite decode_pad_unfold, pad_block_1. reflexivity.
  Qed.

  Definition no61 (s : list N) : bool := forallb (fun c => negb (c =? 61)) s.

  Lemma decode_pad_core : forall data, no61 data = true -> forall k, (1 <= k)%nat ->
    decode_pad val (data ++ repeat 61 k) =
    if ((length data + k) mod 4 =? 0)%nat && (k <=? 2)%nat then base64_groups alphabet data else None.
  Proof.
    apply (quad_induction (fun data => no61 data = true -> forall k, (1 <= k)%nat ->
      decode_pad val (data ++ repeat 61 k) =
      if ((length data + k) mod 4 =? 0)%nat && (k <=? 2)%nat then base64_groups alphabet data else None)).
    - intros _ k Hk. cbn [app length]. rewrite (decode_pad_pads k Hk).
      replace (((0 + k) mod 4 =? 0)%nat && (k <=? 2)%nat) with false; [reflexivity|].
      destruct k as [|[|[|k]]]; try lia; reflexivity.
    - intros a _ k Hk. cbn [base64_groups]. destruct (((length [a] + k) mod 4 =? 0)%nat && (k <=? 2)%nat).
      all: destruct k as [|[|[|k]]]; [lia | reflexivity | reflexivity |];
           cbn [app repeat]; rewrite decode_pad_unfold, pad_block_1; reflexivity.
    - intros a b Hn k Hk. unfold no61 in Hn. cbn [forallb] in Hn.
      assert (Hb : b <> 61) by lia.
      destruct k as [|[|[|k]]]; [lia | reflexivity | |].
      + cbn [app repeat]. rewrite decode_pad_unfold, (pad_block_2 a b Hb).
        change (decode_pad val []) with (Some (@nil N)). rewrite decode_base_groups.
        cbn [length Nat.add Nat.modulo Nat.eqb Nat.leb andb].
        replace ((4 mod 4 =? 0)%nat) with true by reflexivity. cbn [andb].
        destruct (base64_groups alphabet [a; b]) as [o|]; [rewrite app_nil_r|]; reflexivity.
      + cbn [app repeat]. rewrite decode_pad_unfold.
        change (61 :: repeat 61 k) with (repeat 61 (S k)).
        rewrite (decode_pad_pads (S k)) by lia.
        replace (((length [a; b] + S (S (S k))) mod 4 =? 0)%nat && (S (S (S k)) <=? 2)%nat) with false
          by (rewrite andb_false_r; reflexivity).
        destruct (pad_block a b 61 61); reflexivity.
    - intros a b c Hn k Hk. unfold no61 in Hn. cbn [forallb] in Hn.
      assert (Hc : c <> 61) by lia.
      destruct k as [|[|k]]; [lia | |].
      + cbn [app repeat]. rewrite decode_pad_unfold, (pad_block_3 a b c Hc).
        change (decode_pad val []) with (Some (@nil N)). rewrite decode_base_groups.
        replace (((length [a; b; c] + 1) mod 4 =? 0)%nat && (1 <=? 2)%nat) with true by reflexivity.
        destruct (base64_groups alphabet [a; b; c]) as [o|]; [rewrite app_nil_r|]; reflexivity.
      + cbn [app repeat]. rewrite decode_pad_unfold.
        change (61 :: repeat 61 k) with (repeat 61 (S k)).
        rewrite (decode_pad_pads (S k)) by lia.
        replace (((length [a; b; c] + S (S k)) mod 4 =? 0)%nat && (S (S k) <=? 2)%nat) with false.
        * destruct (pad_block a b c 61); reflexivity.
        * destruct k as [|k]; [reflexivity | rewrite andb_false_r; reflexivity].
    - intros a b c d r IH Hn k Hk. unfold no61 in Hn. cbn [forallb] in Hn.
      apply andb_prop in Hn. destruct Hn as [_ Hn]. apply andb_prop in Hn. destruct Hn as [_ Hn].
      apply andb_prop in Hn. destruct Hn as [_ Hn]. apply andb_prop in Hn. destruct Hn as [Hd Hr].
      assert (Hd' : d <> 61) by lia. clear Hd. rename Hd' into Hd. fold (no61 r) in Hr.
      cbn [app]. rewrite decode_pad_unfold, (pad_block_full a b c d Hd), (IH Hr k Hk).
      rewrite decode_base_groups.
      replace ((length (a :: b :: c :: d :: r) + k) mod 4 =? 0)%nat with ((length r + k) mod 4 =? 0)%nat.
      2:{ cbn [length]. replace (S (S (S (S (length r)))) + k)%nat with ((length r + k) + 1 * 4)%nat by lia.
          rewrite Nat.mod_add by lia. reflexivity. }
      destruct (((length r + k) mod 4 =? 0)%nat && (k <=? 2)%nat).
      + cbn [base64_groups].
        destruct (index_of a alphabet) as [x|]; [|reflexivity]. destruct (index_of b alphabet) as [y|]; [|reflexivity].
        destruct (index_of c alphabet) as [z|]; [|reflexivity]. destruct (index_of d alphabet) as [w|]; [|reflexivity].
        destruct (base64_groups alphabet r) as [out|]; reflexivity.
      + destruct (base64_groups alphabet [a; b; c; d]); reflexivity.
  Qed.
End B64.

(* ---------- the two alphabets ---------- *)
Definition alphabet_of (url : bool) : list N := if url then BASE64URL else BASE64.

Lemma alphabet_small : forall url a, In a (alphabet_of url) -> a < 128.
Proof.
  intros url a H. assert (Hb : forallb (fun x => x <? 128) (alphabet_of url) = true) by (destruct url; vm_compute; reflexivity).
  rewrite forallb_forall in Hb. specialize (Hb a H). lia.
Qed.

Lemma b64_value_index : forall url c, b64_value url c = index_of c (alphabet_of url).
Proof.
  intros url c. destruct (N.lt_ge_cases c 128) as [Hlt|Hge].
  - assert (H : (fun c => match b64_value url c, index_of c (alphabet_of url) with
                          | Some a, Some b => a =? b | None, None => true | _, _ => false end) c = true).
    { revert c Hlt. apply (forallb_below _ 128). destruct url; vm_compute; reflexivity. }
    cbv beta in H. destruct (b64_value url c), (index_of c (alphabet_of url)); try discriminate; try reflexivity.
    apply N.eqb_eq in H. congruence.
  - rewrite index_of_small; [|apply alphabet_small|exact Hge]. unfold b64_value.
    replace ((65 <=? c) && (c <=? 90)) with false by lia.
    replace ((97 <=? c) && (c <=? 122)) with false by lia.
    replace ((48 <=? c) && (c <=? 57)) with false by lia.
    replace (c =? 45) with false by lia. replace (c =? 95) with false by lia.
    replace (c =? 43) with false by lia. replace (c =? 47) with false by lia. destruct url; reflexivity.
Qed.

Lemma b64_value_lt : forall url c v, b64_value url c = Some v -> v < 64.
Proof.
  intros url c v H. unfold b64_value in H.
  destruct ((65 <=? c) && (c <=? 90)) eqn:E1; [inversion H; lia|].
  destruct ((97 <=? c) && (c <=? 122)) eqn:E2; [inversion H; lia|].
  destruct ((48 <=? c) && (c <=? 57)) eqn:E3; [inversion H; lia|].
  destruct url.
  - destruct (c =? 45); [inversion H; lia|]. destruct (c =? 95); [inversion H; lia | discriminate].
  - destruct (c =? 43); [inversion H; lia|]. destruct (c =? 47); [inversion H; lia | discriminate].
Qed.

Lemma b64_value_61 : forall url, b64_value url 61 = None.
Proof. intros [|]; reflexivity. Qed.

(* ---------- facts about the RFC groups ---------- *)
Definition not_in (alphabet : list N) (c : N) : bool := match index_of c alphabet with None => true | Some _ => false end.

Lemma groups_bad : forall alphabet s, existsb (not_in alphabet) s = true -> base64_groups alphabet s = None.
Proof.
  intros alphabet. apply (quad_induction (fun s => existsb (not_in alphabet) s = true -> base64_groups alphabet s = None)).
  - discriminate.
  - reflexivity.
  - intros a b H. cbn [existsb base64_groups] in *. unfold not_in in H.
    destruct (index_of a alphabet); [|reflexivity]. destruct (index_of b alphabet); [|reflexivity]. discriminate.
  - intros a b c H. cbn [existsb base64_groups] in *. unfold not_in in H.
    destruct (index_of a alphabet); [|reflexivity]. destruct (index_of b alphabet); [|reflexivity].
    destruct (index_of c alphabet); [|reflexivity]. discriminate.
  - intros a b c d r IH H. cbn [existsb base64_groups] in *. unfold not_in in H at 1 2 3 4.
    destruct (index_of a alphabet); [|reflexivity]. destruct (index_of b alphabet); [|reflexivity].
    destruct (index_of c alphabet); [|reflexivity]. destruct (index_of d alphabet); [|reflexivity].
    cbn [orb] in H. rewrite (IH H). reflexivity.
Qed.

Lemma existsb_weaken : forall (p q : N -> bool) s, (forall c, p c = true -> q c = true) ->
  existsb p s = true -> existsb q s = true.
Proof.
  intros p q s Hpq H. apply existsb_exists in H. destruct H as [c [Hc Hp]].
  apply existsb_exists. exists c. auto.
Qed.

Definition special (c : N) : bool := (c =? 43) || (c =? 47) || (c =? 45) || (c =? 95).

Lemma index_agree : forall c, special c = false -> index_of c BASE64 = index_of c BASE64URL.
Proof.
  intros c H. unfold BASE64, BASE64URL.
  assert (Happ : forall l t1 t2, index_of c t1 = None -> index_of c t2 = None ->
            index_of c (l ++ t1) = index_of c (l ++ t2)).
  { induction l as [|a l IHl]; intros t1 t2 H1 H2; cbn [app index_of]; [congruence|].
    destruct (c =? a); [reflexivity|]. rewrite (IHl t1 t2 H1 H2). reflexivity. }
  unfold special in H. apply Happ; cbn [index_of].
  - replace (c =? 43) with false by lia. replace (c =? 47) with false by lia. reflexivity.
  - replace (c =? 45) with false by lia. replace (c =? 95) with false by lia. reflexivity.
Qed.

Lemma groups_agree : forall s, existsb special s = false -> base64_groups BASE64 s = base64_groups BASE64URL s.
Proof.
  apply (quad_induction (fun s => existsb special s = false -> base64_groups BASE64 s = base64_groups BASE64URL s)).
  - reflexivity.
  - reflexivity.
  - intros a b H. cbn [existsb] in H. apply orb_false_elim in H. destruct H as [Ha H].
    apply orb_false_elim in H. destruct H as [Hb _]. cbn [base64_groups].
    rewrite (index_agree a Ha), (index_agree b Hb). reflexivity.
  - intros a b c H. cbn [existsb] in H. apply orb_false_elim in H. destruct H as [Ha H].
    apply orb_false_elim in H. destruct H as [Hb H]. apply orb_false_elim in H. destruct H as [Hc _].
    cbn [base64_groups]. rewrite (index_agree a Ha), (index_agree b Hb), (index_agree c Hc). reflexivity.
  - intros a b c d r IH H. cbn [existsb] in H. apply orb_false_elim in H. destruct H as [Ha H].
    apply orb_false_elim in H. destruct H as [Hb H]. apply orb_false_elim in H. destruct H as [Hc H].
    apply orb_false_elim in H. destruct H as [Hd Hr].
    cbn [base64_groups]. rewrite (index_agree a Ha), (index_agree b Hb), (index_agree c Hc), (index_agree d Hd), (IH Hr).
    reflexivity.
Qed.

(* ---------- shape of a literal without inner padding: data followed by k '=' ---------- *)
(* a '=' that is followed by a character other than '=' *)
Fixpoint inner_pad (s : list N) : bool :=
  match s with
  | a :: (b :: _) as r => ((a =? 61) && negb (b =? 61)) || inner_pad r
  | _ => false
  end.

(* base64_decode without the padding-position check of 951a310 *)
Definition decode_nopadcheck (s : list N) : option (list N) :=
  if negb (all_ascii s) then None else
  let uses_classic := contains 43 s || contains 47 s in
  let uses_url := contains 45 s || contains 95 s in
  if uses_classic && uses_url then None
  else
    match uses_classic, contains 61 s with
    | true, true => decode_pad (b64_value false) s
    | true, false => decode_base (b64_value false) s
    | false, true => decode_pad (b64_value true) s
    | false, false => decode_base (b64_value true) s
    end.

Lemma inner_pad_split : forall s, inner_pad s = false ->
  exists data k, s = data ++ repeat 61 k /\ no61 data = true.
Proof.
  induction s as [|a r IH]; intros H.
  - exists [], O. auto.
  - assert (Hr : inner_pad r = false).
    { destruct r as [|b r']; [reflexivity|].
      change (inner_pad (a :: b :: r')) with (((a =? 61) && negb (b =? 61)) || inner_pad (b :: r')) in H.
      apply orb_false_elim in H. tauto. }
    destruct (IH Hr) as [data [k [E Hn]]].
    destruct (a =? 61) eqn:Ea.
    + apply N.eqb_eq in Ea. subst a.
      destruct data as [|d data'].
      * exists [], (S k). cbn [app] in *. subst r. auto.
      * exfalso. cbn [app] in E. subst r.
        change (inner_pad (61 :: d :: data' ++ repeat 61 k)) with
          (((61 =? 61) && negb (d =? 61)) || inner_pad (d :: data' ++ repeat 61 k)) in H.
        unfold no61 in Hn. cbn [forallb] in Hn. apply andb_prop in Hn. destruct Hn as [Hd _].
        rewrite Hd in H. cbn in H. discriminate.
    + exists (a :: data), k. subst r. split; [reflexivity|]. unfold no61 in *. cbn [forallb]. rewrite Ea. exact Hn.
Qed.

Lemma strip_pad_rev_repeat : forall k t n, (forall c t', t = c :: t' -> (c =? 61) = false) ->
  strip_pad_rev (repeat 61 k ++ t) n = (t, (n + k)%nat).
Proof.
  induction k as [|k IH]; intros t n Ht.
  - cbn [repeat app]. replace (n + 0)%nat with n by lia. destruct t as [|c t']; [reflexivity|].
    cbn [strip_pad_rev]. rewrite (Ht c t' eq_refl). reflexivity.
  - cbn [repeat app strip_pad_rev]. replace (61 =? 61) with true by reflexivity.
    rewrite (IH t (S n) Ht). f_equal. lia.
Qed.

Lemma rev_repeat : forall (c : N) k, rev (repeat c k) = repeat c k.
Proof.
  intros c k. induction k as [|k IH]; [reflexivity|].
  cbn [repeat rev]. rewrite IH. clear IH. induction k as [|k IH]; [reflexivity|].
  cbn [repeat app]. rewrite IH. reflexivity.
Qed.

Lemma base64_with_shape : forall alphabet data k, no61 data = true ->
  base64_with alphabet (data ++ repeat 61 k) =
  if (k =? 0)%nat || ((length data + k) mod 4 =? 0)%nat && (k <=? 2)%nat then base64_groups alphabet data else None.
Proof.
  intros alphabet data k Hn. unfold base64_with.
  rewrite rev_app_distr, rev_repeat, strip_pad_rev_repeat.
  - rewrite rev_involutive. reflexivity.
  - intros c t' E. unfold no61 in Hn. rewrite <- forallb_rev, E in Hn. cbn [forallb] in Hn.
    apply andb_prop in Hn. destruct Hn as [Hc _]. destruct (c =? 61); [discriminate | reflexivity].
Qed.

Lemma contains_app_pads : forall c data k, c <> 61 -> contains c (data ++ repeat 61 k) = contains c data.
Proof.
  intros c data k Hc. unfold contains. rewrite existsb_app.
  assert (H : existsb (N.eqb c) (repeat 61 k) = false).
  { induction k as [|k IH]; [reflexivity|]. cbn [repeat existsb]. rewrite IH. replace (c =? 61) with false by lia. reflexivity. }
  rewrite H. apply orb_false_r.
Qed.

Lemma contains_61 : forall data k, no61 data = true -> contains 61 (data ++ repeat 61 k) = negb (k =? 0)%nat.
Proof.
  intros data k Hn. unfold contains. rewrite existsb_app.
  assert (Hd : existsb (N.eqb 61) data = false).
  { unfold no61 in Hn. induction data as [|a d IH]; [reflexivity|]. cbn [forallb existsb] in *.
    apply andb_prop in Hn. destruct Hn as [Ha Hd]. rewrite (IH Hd). rewrite N.eqb_sym. destruct (a =? 61); [discriminate | reflexivity]. }
  rewrite Hd. destruct k as [|k]; reflexivity.
Qed.

Lemma all_ascii_app_pads : forall data k, all_ascii (data ++ repeat 61 k) = all_ascii data.
Proof.
  intros data k. unfold all_ascii. rewrite forallb_app.
  assert (H : forallb (fun c => c <? 128) (repeat 61 k) = true).
  { induction k as [|k IH]; [reflexivity|]. cbn [repeat forallb]. rewrite IH. reflexivity. }
  rewrite H. apply andb_true_r.
Qed.

Lemma contains_not_in : forall c alphabet s, contains c s = true -> index_of c alphabet = None ->
  existsb (not_in alphabet) s = true.
Proof.
  intros c alphabet s H Hi. unfold contains in H. apply existsb_exists in H. destruct H as [x [Hx Hc]].
  apply N.eqb_eq in Hc. subst x. apply existsb_exists. exists c. split; [exact Hx|]. unfold not_in. rewrite Hi. reflexivity.
Qed.

Lemma nonascii_not_in : forall url s, all_ascii s = false -> existsb (not_in (alphabet_of url)) s = true.
Proof.
  intros url s H. unfold all_ascii in H.
  induction s as [|a r IH]; [discriminate|]. cbn [forallb existsb] in *.
  destruct (a <? 128) eqn:Ea.
  - cbn [andb] in H. rewrite (IH H). apply orb_true_r.
  - unfold not_in. rewrite index_of_small; [reflexivity | apply alphabet_small | lia].
Qed.

Lemma no_special : forall s, contains 43 s = false -> contains 47 s = false -> contains 45 s = false -> contains 95 s = false ->
  existsb special s = false.
Proof.
  induction s as [|a r IH]; intros H1 H2 H3 H4; [reflexivity|].
  unfold contains in *. cbn [existsb] in *.
  apply orb_false_elim in H1, H2, H3, H4. destruct H1 as [A1 B1], H2 as [A2 B2], H3 as [A3 B3], H4 as [A4 B4].
  rewrite (IH B1 B2 B3 B4). unfold special.
  rewrite (N.eqb_sym a 43), (N.eqb_sym a 47), (N.eqb_sym a 45), (N.eqb_sym a 95), A1, A2, A3, A4. reflexivity.
Qed.

(* alphabet detection + data_encoding = RFC 4648 under either alphabet, for literals without inner padding *)
Lemma decode_nopadcheck_either : forall s, inner_pad s = false -> decode_nopadcheck s = base64_either s.
Proof.
  intros s Hip. destruct (inner_pad_split s Hip) as [data [k [-> Hn]]].
  unfold base64_either. rewrite !(base64_with_shape _ data k Hn).
  unfold decode_nopadcheck. rewrite all_ascii_app_pads, !contains_app_pads by discriminate. rewrite (contains_61 data k Hn).
  set (cond := (k =? 0)%nat || ((length data + k) mod 4 =? 0)%nat && (k <=? 2)%nat).
  (* what the chosen decoder computes *)
  assert (Hdec : forall url,
            (if negb (k =? 0)%nat then decode_pad (b64_value url) (data ++ repeat 61 k)
             else decode_base (b64_value url) (data ++ repeat 61 k))
            = if cond then base64_groups (alphabet_of url) data else None).
  { intros url. unfold cond. destruct k as [|k].
    - cbn [Nat.eqb negb orb repeat]. rewrite app_nil_r.
      apply (decode_base_groups _ _ (b64_value_index url) (b64_value_lt url)).
    - cbn [Nat.eqb negb orb].
      apply (decode_pad_core _ _ (b64_value_index url) (b64_value_lt url) (b64_value_61 url) data Hn); lia. }
  destruct (all_ascii data) eqn:Easc; cbn [negb].
  2:{ (* a non-ASCII character is in neither alphabet *)
      rewrite (groups_bad BASE64 data (nonascii_not_in false data Easc)).
      rewrite (groups_bad BASE64URL data (nonascii_not_in true data Easc)). destruct cond; reflexivity. }
  destruct (contains 43 data || contains 47 data) eqn:Ecl.
  - assert (Hurl_bad : base64_groups BASE64URL data = None).
    { apply groups_bad. apply orb_prop in Ecl. destruct Ecl as [E|E].
      - apply (contains_not_in 43); [exact E | reflexivity].
      - apply (contains_not_in 47); [exact E | reflexivity]. }
    destruct (contains 45 data || contains 95 data) eqn:Eurl; cbn [andb].
    + assert (Hstd_bad : base64_groups BASE64 data = None).
      { apply groups_bad. apply orb_prop in Eurl. destruct Eurl as [E|E].
        - apply (contains_not_in 45); [exact E | reflexivity].
        - apply (contains_not_in 95); [exact E | reflexivity]. }
      rewrite Hstd_bad, Hurl_bad. destruct cond; reflexivity.
    + specialize (Hdec false). cbn [alphabet_of] in Hdec.
      destruct (negb (k =? 0)%nat); rewrite Hdec, Hurl_bad; destruct cond; try reflexivity;
        destruct (base64_groups BASE64 data); reflexivity.
  - cbn [andb]. apply orb_false_elim in Ecl. destruct Ecl as [E43 E47].
    specialize (Hdec true). cbn [alphabet_of] in Hdec.
    assert (Hgoal : (if cond then base64_groups BASE64URL data else None) =
                    match (if cond then base64_groups BASE64 data else None) with
                    | Some bs => Some bs
                    | None => if cond then base64_groups BASE64URL data else None
                    end).
    { destruct cond; [|reflexivity].
      destruct (contains 45 data || contains 95 data) eqn:Eurl.
      - assert (Hstd_bad : base64_groups BASE64 data = None).
        { apply groups_bad. apply orb_prop in Eurl. destruct Eurl as [E|E].
          - apply (contains_not_in 45); [exact E | reflexivity].
          - apply (contains_not_in 95); [exact E | reflexivity]. }
        rewrite Hstd_bad. reflexivity.
      - apply orb_false_elim in Eurl. destruct Eurl as [E45 E95].
        rewrite (groups_agree data (no_special data E43 E47 E45 E95)).
        destruct (base64_groups BASE64URL data); reflexivity. }
    destruct (negb (k =? 0)%nat); rewrite Hdec; exact Hgoal.
Qed.

(* ---------- the padding-position check ---------- *)
Lemma existsb_nonpad : forall r,
  existsb (fun b => negb (b =? 61)) r = match r with [] => false | b :: _ => negb (b =? 61) || inner_pad r end.
Proof.
  induction r as [|b r IH]; [reflexivity|].
  cbn [existsb]. rewrite IH. destruct r as [|c r']; [cbn [inner_pad]; reflexivity|].
  change (inner_pad (b :: c :: r')) with (((b =? 61) && negb (c =? 61)) || inner_pad (c :: r')).
  destruct (b =? 61); cbn [negb orb andb]; reflexivity.
Qed.

Lemma pad_not_at_end_inner : forall s, pad_not_at_end s = inner_pad s.
Proof.
  unfold pad_not_at_end. induction s as [|a r IH]; [reflexivity|].
  cbn [from_first_pad]. destruct (a =? 61) eqn:Ea.
  - rewrite existsb_nonpad. rewrite Ea. reflexivity.
  - rewrite IH. destruct r as [|b r']; [reflexivity|].
    change (inner_pad (a :: b :: r')) with (((a =? 61) && negb (b =? 61)) || inner_pad (b :: r')).
    rewrite Ea. reflexivity.
Qed.

Lemma base64_decode_split : forall s,
  base64_decode s = if pad_not_at_end s then None else decode_nopadcheck s.
Proof.
  intros s. unfold base64_decode, decode_nopadcheck.
  destruct (negb (all_ascii s)); [destruct (pad_not_at_end s); reflexivity|].
  destruct ((contains 43 s || contains 47 s) && (contains 45 s || contains 95 s)); destruct (pad_not_at_end s); reflexivity.
Qed.

Lemma inner_pad_repeat : forall k, inner_pad (repeat 61 k) = false.
Proof.
  induction k as [|k IH]; [reflexivity|]. cbn [repeat]. destruct k as [|k]; [reflexivity|].
  cbn [repeat] in *. change (inner_pad (61 :: 61 :: repeat 61 k)) with (((61 =? 61) && negb (61 =? 61)) || inner_pad (61 :: repeat 61 k)).
  rewrite IH. reflexivity.
Qed.

Lemma inner_pad_app_pads : forall data k, no61 data = true -> inner_pad (data ++ repeat 61 k) = false.
Proof.
  induction data as [|a d IH]; intros k Hn; [apply inner_pad_repeat|].
  unfold no61 in Hn. cbn [forallb] in Hn. apply andb_prop in Hn. destruct Hn as [Ha Hd].
  cbn [app]. destruct (d ++ repeat 61 k) as [|b l] eqn:E; [reflexivity|].
  change (inner_pad (a :: b :: l)) with (((a =? 61) && negb (b =? 61)) || inner_pad (b :: l)).
  destruct (a =? 61); [discriminate|]. cbn [andb orb]. rewrite <- E. apply IH. exact Hd.
Qed.

Lemma strip_pad_rev_decomp : forall rs n t m, strip_pad_rev rs n = (t, m) ->
  exists k, rs = repeat 61 k ++ t /\ (forall c t', t = c :: t' -> (c =? 61) = false).
Proof.
  induction rs as [|c r IH]; intros n t m H; cbn [strip_pad_rev] in H.
  - inversion H; subst. exists O. split; [reflexivity | intros; discriminate].
  - destruct (c =? 61) eqn:Ec.
    + destruct (IH _ _ _ H) as [k [E Ht]]. exists (S k). apply N.eqb_eq in Ec. subst c r. auto.
    + inversion H; subst. exists O. split; [reflexivity|]. intros c' t' E. inversion E; subst. exact Ec.
Qed.

Lemma inner_pad_with_none : forall alphabet s, index_of 61 alphabet = None -> inner_pad s = true ->
  base64_with alphabet s = None.
Proof.
  intros alphabet s H61 Hip. unfold base64_with.
  destruct (strip_pad_rev (rev s) 0) as [rdata npad] eqn:E.
  destruct (strip_pad_rev_decomp _ _ _ _ E) as [k [Hs Hhd]].
  assert (Hbad : base64_groups alphabet (rev rdata) = None).
  { apply groups_bad. destruct (no61 (rev rdata)) eqn:Hn.
    - exfalso. assert (Hs' : s = rev rdata ++ repeat 61 k).
      { rewrite <- (rev_involutive s), Hs, rev_app_distr, rev_repeat. reflexivity. }
      rewrite Hs', (inner_pad_app_pads _ k Hn) in Hip. discriminate.
    - unfold no61 in Hn. clear -Hn H61. induction (rev rdata) as [|a d IH]; [discriminate|].
      cbn [forallb existsb] in *. destruct (a =? 61) eqn:Ea.
      + apply N.eqb_eq in Ea. subst a. unfold not_in. rewrite H61. reflexivity.
      + cbn [negb andb] in Hn. rewrite (IH Hn). apply orb_true_r. }
  rewrite Hbad. destruct ((npad =? 0)%nat || ((length (rev rdata) + npad) mod 4 =? 0)%nat && (npad <=? 2)%nat); reflexivity.
Qed.

(* the decoder of the crate = RFC 4648 under either alphabet, on EVERY input *)
Theorem base64_decode_either : forall s, base64_decode s = base64_either s.
Proof.
  intros s. rewrite base64_decode_split, pad_not_at_end_inner.
  destruct (inner_pad s) eqn:Hip.
  - unfold base64_either. rewrite !inner_pad_with_none by (reflexivity || exact Hip). reflexivity.
  - apply decode_nopadcheck_either. exact Hip.
Qed.

(* b64_ok *)
Theorem b64_ok : forall tok, bytes_b64_spelling tok = true -> bytes_b64_model tok = b64_lit tok.
Proof.
  intros tok Hg. destruct (b64_token tok Hg) as [Ho Hb].
  unfold b64_lit, bytes_b64_model, clean_prefixed_byte_string. rewrite Ho, Hb. cbn [obind].
  rewrite clean_strip. apply base64_decode_either.
Qed.

Example b64_example :    (* b64'-_8 ;c<LF> =' under base64url, b64'+/8=' under base64: the same three/two bytes *)
  b64_lit [98;54;52;39; 45;95;56;32;59;99;10;32;61; 39] = Some [251; 255]
  /\ b64_lit [98;54;52;39; 43;47;56;61; 39] = Some [251; 255]
  /\ b64_lit [98;54;52;39; 43;95;56;61; 39] = None          (* mixed alphabets *)
  /\ b64_lit [98;54;52;39; 89;82;61;61; 39] = None          (* YR== : non-zero trailing bits *)
  /\ bytes_b64_model [98; 54; 52; 39; 89; 81; 61; 61; 89; 81; 61; 61; 39] = None   (* YQ==YQ== : kf-c07-b64-inner-padding, fixed *)
  /\ bytes_b64_model [98; 54; 52; 39; 89; 81; 160; 61; 61; 39] = None.             (* YQ<U+00A0>== *)
Proof. vm_compute. repeat split; reflexivity. Qed.

(* ---------- unprefixed byte strings ---------- *)
Lemma denote_no_backslash : forall q s, existsb (N.eqb 92) s = false -> forallb (fun c => negb (c =? q)) s = true ->
  denote_st q DNorm s = Some s.
Proof.
  induction s as [|c r IH]; intros Hb Hq; [reflexivity|].
  cbn [existsb forallb] in *. apply orb_false_elim in Hb. destruct Hb as [Hc Hb]. apply andb_prop in Hq. destruct Hq as [Hcq Hq].
  cbn [denote_st]. destruct (c =? q); [discriminate|]. rewrite (N.eqb_sym c 92), Hc. cbn [negb].
  rewrite (IH Hb Hq). reflexivity.
Qed.

(* provable part: without a backslash the stored text is the RFC value *)
Theorem bytes_utf8_ok_partial : forall tok, bytes_utf8_spelling tok = true ->
  has_backslash (bytes_utf8_chars tok) = false -> Some (bytes_utf8_chars tok) = bytes_text_lit tok.
Proof.
  intros tok Hg Hb. destruct (butf8_token tok Hg) as [Ho Hbt].
  unfold bytes_text_lit. rewrite Ho, Hbt. cbn [obind]. unfold bytes_utf8_chars, has_backslash in *.
  symmetry. apply denote_no_backslash; [exact Hb|].
  unfold bytes_utf8_spelling in Hg. destruct tok as [|q r]; [discriminate|].
  apply andb_prop in Hg. destruct Hg as [_ Hq]. unfold quoted_tail in Hq.
  apply andb_prop in Hq. destruct Hq as [_ Hq]. unfold no_quote, strip_last in Hq.
  unfold strip_quotes. cbn [skipn]. exact Hq.
Qed.

(* the full statement is FALSE of the faithful model: the escapes of RFC 9682 2.2 are not processed *)
Theorem bytes_utf8_ok_refuted : exists tok,    (* 'a\\b' is stored as the 4 characters a \ \ b; the RFC value is a \ b *)
  bytes_utf8_spelling tok = true /\ bytes_text_lit tok = Some [97; 92; 98] /\ bytes_utf8_chars tok = [97; 92; 92; 98].
Proof. exists [39; 97; 92; 92; 98; 39]. vm_compute. auto. Qed.

(* ---------- decoding inverts the RFC 4648 encoding (the specification accepts every encoder output) ---------- *)
Lemma triple_induction : forall (P : list N -> Prop),
  P [] -> (forall a, P [a]) -> (forall a b, P [a; b]) -> (forall a b c r, P r -> P (a :: b :: c :: r)) -> forall s, P s.
Proof.
  intros P H0 H1 H2 H3. fix IH 1.
  intros [|a [|b [|c r]]]; [exact H0 | apply H1 | apply H2 | apply H3; apply IH].
Qed.

Definition sym_ok (url : bool) (v : N) : bool :=
  let c := sym (alphabet_of url) v in
  match index_of c (alphabet_of url) with Some w => w =? v | None => false end
  && (c <? 128) && negb (c =? 61) && (if url then negb (c =? 43) && negb (c =? 47) else true).

Lemma sym_ok_all : forall url v, v < 64 -> sym_ok url v = true.
Proof. intros url v H. revert v H. apply (forallb_below (sym_ok url) 64). destruct url; vm_compute; reflexivity. Qed.

Lemma sym_index : forall url v, v < 64 -> index_of (sym (alphabet_of url) v) (alphabet_of url) = Some v.
Proof.
  intros url v H. pose proof (sym_ok_all url v H) as Hs. unfold sym_ok in Hs.
  destruct (index_of (sym (alphabet_of url) v) (alphabet_of url)) as [w|]; [|discriminate].
  apply andb_prop in Hs. destruct Hs as [Hs _]. apply andb_prop in Hs. destruct Hs as [Hs _].
  apply andb_prop in Hs. destruct Hs as [Hs _]. apply N.eqb_eq in Hs. congruence.
Qed.

Lemma groups_encode : forall url bs, wf_bytes bs ->
  base64_groups (alphabet_of url) (base64_encode (alphabet_of url) bs) = Some bs.
Proof.
  intros url. set (A := alphabet_of url).
  apply (triple_induction (fun bs => wf_bytes bs -> base64_groups A (base64_encode A bs) = Some bs)).
  - reflexivity.
  - intros b1 Hw. inversion Hw as [|? ? Hb1 _]; subst. cbn [base64_encode base64_groups]. unfold A.
    rewrite !sym_index by lia.
    replace ((b1 mod 4 * 16) mod 16 =? 0) with true by lia. f_equal. f_equal. lia.
  - intros b1 b2 Hw. inversion Hw as [|? ? Hb1 Hw1]; subst. inversion Hw1 as [|? ? Hb2 _]; subst.
    cbn [base64_encode base64_groups]. unfold A. rewrite !sym_index by lia.
    replace ((b2 mod 16 * 4) mod 4 =? 0) with true by lia. f_equal. f_equal; [lia|]. f_equal. lia.
  - intros b1 b2 b3 r IH Hw. inversion Hw as [|? ? Hb1 Hw1]; subst. inversion Hw1 as [|? ? Hb2 Hw2]; subst.
    inversion Hw2 as [|? ? Hb3 Hw3]; subst.
    cbn [base64_encode base64_groups]. unfold A in *. rewrite !sym_index by lia. rewrite (IH Hw3).
    f_equal. f_equal; [lia|]. f_equal; [lia|]. f_equal. lia.
Qed.

Definition url_char_ok (c : N) : bool := (c <? 128) && negb (c =? 61) && negb (c =? 43) && negb (c =? 47).

Lemma encode_chars : forall bs, wf_bytes bs -> forallb url_char_ok (base64_encode BASE64URL bs) = true.
Proof.
  assert (Hs : forall v, v < 64 -> url_char_ok (sym BASE64URL v) = true).
  { intros v Hv. pose proof (sym_ok_all true v Hv) as H. unfold sym_ok in H. cbn [alphabet_of] in H.
    unfold url_char_ok. destruct (index_of (sym BASE64URL v) BASE64URL); [|discriminate]. lia. }
  apply (triple_induction (fun bs => wf_bytes bs -> forallb url_char_ok (base64_encode BASE64URL bs) = true)).
  - reflexivity.
  - intros b1 Hw. inversion Hw as [|? ? Hb1 _]; subst. cbn [base64_encode forallb]. rewrite !Hs by lia. reflexivity.
  - intros b1 b2 Hw. inversion Hw as [|? ? Hb1 Hw1]; subst. inversion Hw1 as [|? ? Hb2 _]; subst.
    cbn [base64_encode forallb]. rewrite !Hs by lia. reflexivity.
  - intros b1 b2 b3 r IH Hw. inversion Hw as [|? ? Hb1 Hw1]; subst. inversion Hw1 as [|? ? Hb2 Hw2]; subst.
    inversion Hw2 as [|? ? Hb3 Hw3]; subst.
    cbn [base64_encode forallb]. rewrite !Hs by lia. rewrite (IH Hw3). reflexivity.
Qed.

Lemma forallb_imp_contains : forall (p : N -> bool) c s, forallb p s = true -> p c = false -> contains c s = false.
Proof.
  intros p c s H Hc. unfold contains. induction s as [|a r IH]; [reflexivity|].
  cbn [forallb existsb] in *. apply andb_prop in H. destruct H as [Ha Hr]. rewrite (IH Hr).
  destruct (c =? a) eqn:E; [|reflexivity]. apply N.eqb_eq in E. subst a. congruence.
Qed.

(* the crate's decoder returns the bytes of every unpadded base64url encoding (the form the printer emits) *)
Theorem b64_roundtrip : forall bs, wf_bytes bs -> base64_decode (base64_encode BASE64URL bs) = Some bs.
Proof.
  intros bs Hw. pose proof (encode_chars bs Hw) as Hc. unfold base64_decode.
  assert (Hasc : all_ascii (base64_encode BASE64URL bs) = true).
  { unfold all_ascii. clear -Hc. induction (base64_encode BASE64URL bs) as [|a r IH]; [reflexivity|].
    cbn [forallb] in *. apply andb_prop in Hc. destruct Hc as [Ha Hr]. rewrite (IH Hr). unfold url_char_ok in Ha. lia. }
  rewrite Hasc. cbn [negb].
  assert (Hp : pad_not_at_end (base64_encode BASE64URL bs) = false).
  { unfold pad_not_at_end. pose proof (forallb_imp_contains url_char_ok 61 _ Hc eq_refl) as H61.
    clear -H61. unfold contains in H61. induction (base64_encode BASE64URL bs) as [|a r IH]; [reflexivity|].
    cbn [existsb from_first_pad] in *. apply orb_false_elim in H61. destruct H61 as [Ha Hr].
    rewrite N.eqb_sym, Ha. apply IH. exact Hr. }
  rewrite Hp.
  rewrite (forallb_imp_contains url_char_ok 43 _ Hc eq_refl), (forallb_imp_contains url_char_ok 47 _ Hc eq_refl),
          (forallb_imp_contains url_char_ok 61 _ Hc eq_refl). cbn [orb andb].
  rewrite (decode_base_groups _ _ (b64_value_index true) (b64_value_lt true)). apply (groups_encode true bs Hw).
Qed.

(* and the specification decodes both alphabets' encodings, padded (when needed) or not *)
Theorem spec_b64_roundtrip : forall url bs, wf_bytes bs ->
  base64_groups (alphabet_of url) (base64_encode (alphabet_of url) bs) = Some bs.
Proof. exact groups_encode. Qed.

Theorem spec_b64_decodes_encodings : forall bs, wf_bytes bs ->
  base64_groups BASE64 (base64_encode BASE64 bs) = Some bs
  /\ base64_groups BASE64URL (base64_encode BASE64URL bs) = Some bs.
Proof. intros bs Hw. split; [apply (groups_encode false bs Hw) | apply (groups_encode true bs Hw)]. Qed.
