(* C07 - SPECIFICATION of literal values: what RFC 8610 (Appendix B, section 3.1), RFC 9682 (sections 2.1, 3.2) and
   RFC 4648 (sections 4, 5, 8) assign to a literal spelling.  This file does not mention the model (Lit/IntLit.v,
   Lit/TextLit.v, Lit/BytesLit.v); it is meant to be read against the RFCs.  Every function returns an option:
   None means "this spelling has no value" (not representable in the AST's number type, invalid encoding, or not a
   literal of that kind) - property C07 then requires a parse error.
   Character codes: 34 double quote, 39 single quote, 42 '*', 43 '+', 45 '-', 46 '.', 47 '/', 59 ';', 61 '=',
   63 '?', 92 backslash, 95 '_', 123 '{', 125 '}'.  No proofs in this file. *)
From Cddl Require Import Base.Bytes.
Open Scope N_scope.

(* position of a character in an alphabet *)
Fixpoint index_of (c : N) (alphabet : list N) : option N :=
  match alphabet with
  | [] => None
  | a :: r => if c =? a then Some 0 else match index_of c r with Some i => Some (i + 1) | None => None end
  end.
Definition omap {A B} (f : A -> B) (o : option A) : option B := match o with Some a => Some (f a) | None => None end.
Definition obind {A B} (o : option A) (f : A -> option B) : option B := match o with Some a => f a | None => None end.

(* ------------------------------------------------------------------------------------------------------------ *)
(* Integers.  RFC 8610 App. B:  uint = DIGIT1 *DIGIT / "0x" 1*HEXDIG / "0b" 1*BINDIG / "0" ;  int = ["-"] uint ;  *)
(* ABNF strings and HEXDIG are case insensitive.  The value is the positional value of the digits in the radix.   *)
(* ------------------------------------------------------------------------------------------------------------ *)
Definition DIGITS_UPPER : list N := [48;49;50;51;52;53;54;55;56;57;65;66;67;68;69;70].    (* 0123456789ABCDEF *)
Definition DIGITS_LOWER : list N := [48;49;50;51;52;53;54;55;56;57;97;98;99;100;101;102]. (* 0123456789abcdef *)

Definition digit_value (radix : nat) (c : N) : option N :=
  match index_of c (firstn radix DIGITS_UPPER) with
  | Some v => Some v
  | None => index_of c (firstn radix DIGITS_LOWER)
  end.

(* positional value, most significant digit first; None if some character is not a digit of the radix or if there
   is no digit at all *)
Fixpoint positional_acc (radix : nat) (acc : N) (ds : list N) : option N :=
  match ds with
  | [] => Some acc
  | c :: r => match digit_value radix c with
              | Some d => positional_acc radix (acc * N.of_nat radix + d) r
              | None => None
              end
  end.
Definition positional (radix : nat) (ds : list N) : option N :=
  match ds with [] => None | _ => positional_acc radix 0 ds end.

Definition uint_value (s : list N) : option N :=
  match s with
  | z :: p :: r =>
    if (z =? 48) && ((p =? 120) || (p =? 88)) then positional 16 r        (* 0x / 0X *)
    else if (z =? 48) && ((p =? 98) || (p =? 66)) then positional 2 r    (* 0b / 0B *)
    else positional 10 s
  | _ => positional 10 s
  end.
Definition int_value (s : list N) : option Z :=                           (* the "-" form *)
  match s with
  | c :: r => if c =? 45 then omap (fun m => (- Z.of_N m)%Z) (uint_value r) else None
  | [] => None
  end.

(* representability: the AST stores uint literals, occurrence bounds and tag numbers in 64 bits unsigned
   (usize on the 64-bit target, u64) and negative literals in 64 bits signed (isize) *)
Definition uint_lit (s : list N) : option N :=
  obind (uint_value s) (fun v => if v <? 2 ^ 64 then Some v else None).
Definition int_lit (s : list N) : option Z :=
  obind (int_value s) (fun v => if (- 2 ^ 63 <=? v)%Z then Some v else None).

(* ------------------------------------------------------------------------------------------------------------ *)
(* Occurrence indicators.  RFC 8610 3.2 / App. B:  occur = [uint] "*" [uint] / "+" / "?"                          *)
(*   "?" = 0..1, "+" = 1..unbounded, n*m = n..m with n defaulting to 0 and m to unbounded.                        *)
(* Result: (minimum, maximum or None for unbounded).                                                              *)
(* ------------------------------------------------------------------------------------------------------------ *)
Fixpoint split_at_star (before s : list N) : option (list N * list N) :=
  match s with
  | [] => None
  | c :: r => if c =? 42 then Some (rev before, r) else split_at_star (c :: before) r
  end.

Definition occur_value (s : list N) : option (N * option N) :=
  match s with
  | [c] => if c =? 63 then Some (0, Some 1)
           else if c =? 43 then Some (1, None)
           else if c =? 42 then Some (0, None)
           else None
  | _ =>
    match split_at_star [] s with
    | None => None
    | Some (lo, hi) =>
      let lower := match lo with [] => Some 0 | _ => uint_lit lo end in
      let upper := match hi with [] => Some None | _ => omap Some (uint_lit hi) end in
      match lower, upper with
      | Some l, Some u => Some (l, u)
      | _, _ => None
      end
    end
  end.

(* ------------------------------------------------------------------------------------------------------------ *)
(* Tags and major types.  RFC 8610 App. B / RFC 9682 3.2:  "#" "6" ["." head-number] "(" type ")" /               *)
(*   "#" "7" ["." head-number] / "#" DIGIT ["." uint] / "#" ; head-number = uint / "<" type ">"                   *)
(* Result: (major type digit if any, number after the dot if any).                                                *)
(* ------------------------------------------------------------------------------------------------------------ *)
Definition tag_value (s : list N) : option (option N * option N) :=
  match s with
  | [h] => if h =? 35 then Some (None, None) else None
  | h :: d :: rest =>
    if h =? 35 then
      match positional 10 [d] with
      | None => None
      | Some mt =>
        match rest with
        | [] => Some (Some mt, None)
        | dot :: u => if dot =? 46 then omap (fun n => (Some mt, Some n)) (uint_lit u) else None
        end
      end
    else None
  | [] => None
  end.

(* ------------------------------------------------------------------------------------------------------------ *)
(* Text strings.  RFC 9682 2.1 (updating RFC 8610 App. B):                                                        *)
(*   text = %x22 *SCHAR %x22 ;  SCHAR = <unescaped> / SESC                                                        *)
(*   SESC = "\" ( %x22 / "/" / "\" / %x62 / %x66 / %x6E / %x72 / %x74 / (%x75 hexchar) )                          *)
(*   hexchar = "{" (1*"0" [ hexscalar ] / hexscalar) "}" / non-surrogate / (high-surrogate "\" %x75 low-surrogate) *)
(* An escape denotes a Unicode scalar value: \uXXXX a non-surrogate code point, a high surrogate immediately      *)
(* followed by an escaped low surrogate the supplementary code point of the pair (RFC 8259 section 7), \u{...}    *)
(* the scalar value written in hex with any number of leading zeros.  Anything that is not a scalar value (lone   *)
(* or reversed surrogate, value above 10FFFF) is not derivable: the text literal has NO denotation.               *)
(* RFC 9682 2.2: byte strings in single quotes use the same escapes plus backslash single-quote.                  *)
(* ------------------------------------------------------------------------------------------------------------ *)
Definition is_scalar (v : N) : bool := (v <=? 1114111) && negb ((55296 <=? v) && (v <=? 57343)).
Definition is_high_surrogate (v : N) : bool := (55296 <=? v) && (v <=? 56319).      (* D800..DBFF *)
Definition is_low_surrogate (v : N) : bool := (56320 <=? v) && (v <=? 57343).       (* DC00..DFFF *)

(* the one-character escapes; q is the delimiting quote (34 for text, 39 for byte strings) *)
Definition simple_escape (q e : N) : option N :=
  if e =? 34 then Some 34            (* backslash double-quote *)
  else if e =? 47 then Some 47       (* \/ *)
  else if e =? 92 then Some 92       (* \\ *)
  else if e =? 98 then Some 8        (* \b *)
  else if e =? 102 then Some 12      (* \f *)
  else if e =? 110 then Some 10      (* \n *)
  else if e =? 114 then Some 13      (* \r *)
  else if e =? 116 then Some 9       (* \t *)
  else if (e =? 39) && (q =? 39) then Some 39     (* backslash single-quote, byte strings only *)
  else None.

Definition cons_opt (c : N) (o : option (list N)) : option (list N) := omap (cons c) o.

Inductive dstate := DNorm | DBrace (digits : list N).          (* digits of an open \u{ , most recent first *)

Fixpoint denote_st (q : N) (st : dstate) (s : list N) : option (list N) :=
  match st with
  | DBrace ds =>
    match s with
    | [] => None                                                 (* unterminated \u{ *)
    | c :: r =>
      if c =? 125 then
        match positional 16 (rev ds) with                        (* at least one digit, all hex *)
        | Some v => if is_scalar v then cons_opt v (denote_st q DNorm r) else None
        | None => None
        end
      else denote_st q (DBrace (c :: ds)) r
    end
  | DNorm =>
    match s with
    | [] => Some []
    | c :: r =>
      if c =? q then None                                        (* an unescaped delimiter cannot be inside *)
      else if negb (c =? 92) then cons_opt c (denote_st q DNorm r)   (* an unescaped character denotes itself *)
      else
        match r with
        | [] => None
        | e :: r1 =>
          match simple_escape q e with
          | Some v => cons_opt v (denote_st q DNorm r1)
          | None =>
            if negb (e =? 117) then None
            else
              match r1 with
              | [] => None
              | b :: r2 =>
                if b =? 123 then denote_st q (DBrace []) r2
                else
                  match r1 with
                  | h1 :: h2 :: h3 :: h4 :: r5 =>
                    match positional 16 [h1; h2; h3; h4] with
                    | None => None
                    | Some v =>
                      if is_high_surrogate v then
                        match r5 with
                        | bs :: u :: l1 :: l2 :: l3 :: l4 :: r11 =>
                          if (bs =? 92) && (u =? 117) then
                            match positional 16 [l1; l2; l3; l4] with
                            | Some lo =>
                              if is_low_surrogate lo
                              then cons_opt (65536 + (v - 55296) * 1024 + (lo - 56320)) (denote_st q DNorm r11)
                              else None
                            | None => None
                            end
                          else None
                        | _ => None
                        end
                      else if is_low_surrogate v then None
                      else cons_opt v (denote_st q DNorm r5)
                    end
                  | _ => None
                  end
              end
          end
        end
    end
  end.

(* the content between the quotes *)
Definition between (k : nat) (q : N) (tok : list N) : option (list N) :=
  match rev (skipn k tok) with
  | c :: r => if c =? q then Some (rev r) else None
  | [] => None
  end.
Definition opens_with (pre tok : list N) : bool :=
  (length pre <=? length tok)%nat && forallb (fun p => fst p =? snd p) (combine pre tok).

(* text literal (token with its double quotes) -> list of scalar values *)
Definition text_lit (tok : list N) : option (list N) :=
  if opens_with [34] tok then obind (between 1 34 tok) (denote_st 34 DNorm) else None.

(* ------------------------------------------------------------------------------------------------------------ *)
(* Byte strings.  RFC 8610 3.1: 'text' is the UTF-8 of the text; h'...' is base16, b64'...' is base64 or          *)
(* base64url (RFC 4648), in the prefixed forms any whitespace including comments is ignored.                      *)
(* ------------------------------------------------------------------------------------------------------------ *)

(* unprefixed: the text between the quotes with its escapes processed (RFC 9682 2.2); the byte string is the UTF-8
   encoding of these scalar values (the rendering applies it to specification and model alike) *)
Definition bytes_text_lit (tok : list N) : option (list N) :=
  if opens_with [39] tok then obind (between 1 39 tok) (denote_st 39 DNorm) else None.

(* whitespace of the grammar: RFC 8610 WS = SP / NL (LF, CR LF, comments); the crate's grammar file documents TAB and
   a lone CR as additional whitespace everywhere, which is followed here.  A comment runs from ';' through the next
   line feed (or to the end of the literal). *)
Definition is_ws (c : N) : bool := (c =? 32) || (c =? 10) || (c =? 13) || (c =? 9).
Fixpoint strip_ws_comments (in_comment : bool) (s : list N) : list N :=
  match s with
  | [] => []
  | c :: r =>
    if in_comment then strip_ws_comments (negb (c =? 10)) r
    else if c =? 59 then strip_ws_comments true r
    else if is_ws c then strip_ws_comments false r
    else c :: strip_ws_comments false r
  end.

(* RFC 4648 section 8, base16: two characters per octet, first the high four bits; alphabet case-insensitive
   (RFC 8610 writes h'...' with HEXDIG) *)
Fixpoint base16 (s : list N) : option (list N) :=
  match s with
  | [] => Some []
  | [_] => None
  | a :: b :: r =>
    match digit_value 16 a, digit_value 16 b, base16 r with
    | Some hi, Some lo, Some out => Some (hi * 16 + lo :: out)
    | _, _, _ => None
    end
  end.

Definition b16_lit (tok : list N) : option (list N) :=
  if opens_with [104; 39] tok then obind (between 2 39 tok) (fun c => base16 (strip_ws_comments false c)) else None.

(* RFC 4648 Table 1 (base64) and Table 2 (base64url): value = index in the alphabet *)
Definition B64_COMMON : list N :=
  [65;66;67;68;69;70;71;72;73;74;75;76;77;78;79;80;81;82;83;84;85;86;87;88;89;90;
   97;98;99;100;101;102;103;104;105;106;107;108;109;110;111;112;113;114;115;116;117;118;119;120;121;122;
   48;49;50;51;52;53;54;55;56;57].
Definition BASE64 : list N := B64_COMMON ++ [43; 47].        (* + / *)
Definition BASE64URL : list N := B64_COMMON ++ [45; 95].     (* - _ *)

(* RFC 4648 section 4: each character carries 6 bits, 4 characters make 3 octets; a final group of 2 characters
   carries one octet (its last 4 bits must be zero: 3.5 canonical encoding), a final group of 3 characters two octets
   (last 2 bits zero); a single leftover character is impossible *)
Fixpoint base64_groups (alphabet : list N) (s : list N) : option (list N) :=
  match s with
  | [] => Some []
  | [_] => None
  | [a; b] =>
    match index_of a alphabet, index_of b alphabet with
    | Some v1, Some v2 => if v2 mod 16 =? 0 then Some [v1 * 4 + v2 / 16] else None
    | _, _ => None
    end
  | [a; b; c] =>
    match index_of a alphabet, index_of b alphabet, index_of c alphabet with
    | Some v1, Some v2, Some v3 =>
      if v3 mod 4 =? 0 then Some [v1 * 4 + v2 / 16; (v2 mod 16) * 16 + v3 / 4] else None
    | _, _, _ => None
    end
  | a :: b :: c :: d :: r =>
    match index_of a alphabet, index_of b alphabet, index_of c alphabet, index_of d alphabet, base64_groups alphabet r with
    | Some v1, Some v2, Some v3, Some v4, Some out =>
      Some (v1 * 4 + v2 / 16 :: (v2 mod 16) * 16 + v3 / 4 :: (v3 mod 4) * 64 + v4 :: out)
    | _, _, _, _, _ => None
    end
  end.

(* padding (RFC 4648 3.2, 4): '=' only at the very end; RFC 8610 notation allows leaving it out altogether, but if
   it is present it must complete the last group to 4 characters *)
Fixpoint strip_pad_rev (rs : list N) (n : nat) : list N * nat :=
  match rs with
  | c :: r => if c =? 61 then strip_pad_rev r (S n) else (rs, n)
  | [] => ([], n)
  end.
Definition base64_with (alphabet : list N) (s : list N) : option (list N) :=
  let (rdata, npad) := strip_pad_rev (rev s) O in
  let data := rev rdata in
  if (npad =? 0)%nat || ((length data + npad) mod 4 =? 0)%nat && (npad <=? 2)%nat
  then base64_groups alphabet data
  else None.

(* RFC 8610 3.1: b64'...' is base64 or base64url: the literal must decode under one of the two alphabets *)
Definition base64_either (s : list N) : option (list N) :=
  match base64_with BASE64 s with
  | Some bs => Some bs
  | None => base64_with BASE64URL s
  end.

Definition b64_lit (tok : list N) : option (list N) :=
  if opens_with [98; 54; 52; 39] tok
  then obind (between 4 39 tok) (fun c => base64_either (strip_ws_comments false c))
  else None.

(* RFC 4648 section 4/5 ENCODING (used to state that decoding inverts it) *)
Definition sym (alphabet : list N) (v : N) : N := nth (N.to_nat v) alphabet 0.
Fixpoint base64_encode (alphabet : list N) (bs : list N) : list N :=
  match bs with
  | [] => []
  | [b1] => [sym alphabet (b1 / 4); sym alphabet ((b1 mod 4) * 16)]
  | [b1; b2] => [sym alphabet (b1 / 4); sym alphabet ((b1 mod 4) * 16 + b2 / 16); sym alphabet ((b2 mod 16) * 4)]
  | b1 :: b2 :: b3 :: r =>
    sym alphabet (b1 / 4) :: sym alphabet ((b1 mod 4) * 16 + b2 / 16)
      :: sym alphabet ((b2 mod 16) * 4 + b3 / 64) :: sym alphabet (b3 mod 64) :: base64_encode alphabet r
  end.

(* ------------------------------------------------------------------------------------------------------------ *)
(* Floating point.  RFC 8610 App. B: number = hexfloat / (int ["." fraction] ["e" exponent]).  A decimal float      *)
(* denotes the rational  (-1)^neg * mantissa * 10^exp10 ; the AST holds a binary64, so the literal denotes the    *)
(* round-to-nearest-even binary64 of that rational when this is FINITE and has no value otherwise (C07: not        *)
(* representable -> parse error).  Round-to-nearest-even turns a magnitude into infinity exactly when it is at      *)
(* least 2^1024 - 2^970 (half an ulp above the largest finite binary64).  Correct rounding itself is not specified *)
(* here; it is checked differentially (see design.d/C07.md).                                                      *)
(* ------------------------------------------------------------------------------------------------------------ *)
Definition F64_OVERFLOW_THRESHOLD : Z := (2 ^ 1024 - 2 ^ 970)%Z.
(* mantissa * 10^exp10 >= threshold, as a comparison of integers *)
Definition magnitude_overflows (mantissa : N) (exp10 : Z) : Prop :=
  if (0 <=? exp10)%Z then (F64_OVERFLOW_THRESHOLD <= Z.of_N mantissa * 10 ^ exp10)%Z
  else (F64_OVERFLOW_THRESHOLD * 10 ^ (- exp10) <= Z.of_N mantissa)%Z.
