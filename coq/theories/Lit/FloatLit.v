(* C07 - floating-point literals.
   convert_number_to_type2 (/repo/src/pest_bridge.rs:2647-2716) hands a float_value token to Rust's
   str::parse::<f64>() and a hexfloat token to hexf_parse::parse_hexf64.  Neither algorithm is modelled: decimal ->
   binary64 rounding and hexf-parse's exactness test are OUT OF SCOPE of the theorems and are tied differentially
   (bit patterns from the AST against an independent correctly rounded conversion, see lib/props/c07.py).
   What IS modelled is the one thing property C07 asks beyond rounding - "finite or rejected":
     * the token grammar (float_value / hexfloat of cddl.pest) as a splitter into sign, digits and exponent,
     * the class of the parsed value for a decimal float: str::parse::<f64>() never fails on these tokens and
       returns an infinity exactly when round-to-nearest-even overflows (assumed contract of the standard library,
       checked differentially), i.e. when the magnitude is >= 2^1024 - 2^970; the bridge then rejects it.
   No proofs in this file. *)
From Cddl Require Import Base.Bytes Lit.IntLit Lit.Grammar.
Open Scope N_scope.

Fixpoint span_digits (p : N -> bool) (s : list N) : list N * list N :=
  match s with
  | c :: r => if p c then let (d, t) := span_digits p r in (c :: d, t) else ([], s)
  | [] => ([], [])
  end.

Record dec_float := { df_neg : bool; df_int : list N; df_frac : list N; df_exp_neg : bool; df_exp : list N }.

(* exponent part:  ^"e" ~ ("+" | "-")? ~ DIGIT+  up to the end of the token *)
Definition split_exponent (s : list N) : option (bool * list N) :=
  match s with
  | e :: r =>
    if (e =? 101) || (e =? 69) then
      let (neg, r1) := match r with
                       | sg :: r' => if sg =? 45 then (true, r') else if sg =? 43 then (false, r') else (false, r)
                       | [] => (false, r)
                       end in
      let (ds, rest) := span_digits is_digit r1 in
      if nonempty ds && is_nil rest then Some (neg, ds) else None
    else None
  | [] => None
  end.

(* float_value = @{ "-"? ~ (ASCII_NONZERO_DIGIT ~ DIGIT* | "0")
                    ~ ( "." ~ DIGIT+ ~ (^"e" ~ ("+" | "-")? ~ DIGIT+)? | ^"e" ~ ("+" | "-")? ~ DIGIT+ ) } *)
Definition split_float (s : list N) : option dec_float :=
  let (neg, s1) := match s with c :: r => if c =? 45 then (true, r) else (false, s) | [] => (false, s) end in
  let (ip, s2) := match s1 with
                  | c :: r => if c =? 48 then ([48], r)                       (* "0" alone: PEG takes the 2nd alternative *)
                              else if is_nonzero_digit c then span_digits is_digit s1
                              else ([], s1)
                  | [] => ([], s1)
                  end in
  if is_nil ip then None else
  match s2 with
  | c :: r =>
    if c =? 46 then
      let (fr, s3) := span_digits is_digit r in
      if is_nil fr then None
      else if is_nil s3 then Some {| df_neg := neg; df_int := ip; df_frac := fr; df_exp_neg := false; df_exp := [] |}
      else match split_exponent s3 with
           | Some (en, ed) => Some {| df_neg := neg; df_int := ip; df_frac := fr; df_exp_neg := en; df_exp := ed |}
           | None => None
           end
    else match split_exponent s2 with
         | Some (en, ed) => Some {| df_neg := neg; df_int := ip; df_frac := []; df_exp_neg := en; df_exp := ed |}
         | None => None
         end
  | [] => None
  end.
Definition float_spelling (s : list N) : bool := match split_float s with Some _ => true | None => false end.

(* hexfloat = @{ "-"? ~ ^"0x" ~ ASCII_HEX_DIGIT+ ~ ("." ~ ASCII_HEX_DIGIT+)? ~ ^"p" ~ ("+" | "-")? ~ DIGIT+ } *)
Definition hexfloat_spelling (s : list N) : bool :=
  let s1 := match s with c :: r => if c =? 45 then r else s | [] => s end in
  match s1 with
  | z :: x :: r =>
    if (z =? 48) && ((x =? 120) || (x =? 88)) then
      let (ip, s2) := span_digits is_hexdig r in
      if is_nil ip then false else
      let s3 := match s2 with
                | c :: r2 => if c =? 46 then
                               let (fr, t) := span_digits is_hexdig r2 in
                               if is_nil fr then None else Some t
                             else Some s2
                | [] => Some s2
                end in
      match s3 with
      | Some (p :: r3) =>
        if (p =? 112) || (p =? 80) then
          let r4 := match r3 with sg :: r' => if (sg =? 45) || (sg =? 43) then r' else r3 | [] => r3 end in
          nonempty r4 && forallb is_digit r4
        else false
      | _ => false
      end
    else false
  | _ => false
  end.

(* number = { hexfloat | float_value | int_value | uint_value }: which alternative a whole token takes *)
Inductive num_kind := KHexfloat | KFloat | KInt | KUint.
Definition number_kind (s : list N) : option num_kind :=
  if hexfloat_spelling s then Some KHexfloat
  else if float_spelling s then Some KFloat
  else if int_spelling s then Some KInt
  else if uint_spelling s then Some KUint
  else None.

(* decimal digits to a number (the digits come from the token in hand) *)
Fixpoint dec_acc (acc : N) (ds : list N) : N :=
  match ds with
  | [] => acc
  | c :: r => dec_acc (acc * 10 + (c - 48)) r
  end.
Definition df_mantissa (f : dec_float) : N := dec_acc 0 (df_int f ++ df_frac f).
Definition df_exp10 (f : dec_float) : Z :=
  ((if df_exp_neg f then - Z.of_N (dec_acc 0 (df_exp f)) else Z.of_N (dec_acc 0 (df_exp f)))
   - Z.of_N (lenN (df_frac f)))%Z.

(* mantissa * 10^exp10 >= 2^1024 - 2^970, computed without ever raising 10 to an exponent that is not bounded by
   400 or by the size of the mantissa in hand (the exponent is a number from the input): a mantissa m > 0 is below
   2^(log2 m + 1) <= 10^(log2 m + 1) *)
Definition overflow_threshold : Z := (2 ^ 1024 - 2 ^ 970)%Z.
Definition overflows_exec (m : N) (e : Z) : bool :=
  if m =? 0 then false
  else if (400 <? e)%Z then true
  else if (e + Z.of_N (N.log2 m + 1) <=? 0)%Z then false
  else if (0 <=? e)%Z then (overflow_threshold <=? Z.of_N m * 10 ^ e)%Z
  else (overflow_threshold * 10 ^ (- e) <=? Z.of_N m)%Z.

Inductive float_class := FFinite | FInfinite.
(* class of  inner.as_str().parse::<f64>()  for a float_value token (contract of the standard library: correctly
   rounded, overflow gives an infinity) *)
Definition parsed_class (s : list N) : option float_class :=
  match split_float s with
  | Some f => Some (if overflows_exec (df_mantissa f) (df_exp10 f) then FInfinite else FFinite)
  | None => None
  end.
(* convert_number_to_type2, Rule::float_value arm (since 4743917):  .ok().filter(|v| v.is_finite()).ok_or_else(Err)
   Some FFinite: a finite value is stored;  None: "Invalid float" (also for a text that is not a float token) *)
Definition float_model_class (s : list N) : option float_class :=
  match parsed_class s with
  | Some FFinite => Some FFinite
  | _ => None
  end.
