(* C07 - floats: the executable overflow test of Lit/FloatLit.v decides the specification's comparison
   (Lit/Spec.v: magnitude_overflows), and "finite or rejected" holds exactly outside that class. *)
From Coq Require Import ZifyBool ZifyNat ZifyN.
From Cddl Require Import Base.Bytes Lit.IntLit Lit.Grammar Lit.FloatLit Lit.Spec.
Ltac Zify.zify_post_hook ::= Z.div_mod_to_equations.
Open Scope Z_scope.

Lemma threshold_pos : 0 < F64_OVERFLOW_THRESHOLD.
Proof. vm_compute. reflexivity. Qed.
Lemma threshold_le_10_401 : F64_OVERFLOW_THRESHOLD <= 10 ^ 401.
Proof. apply Z.leb_le. vm_compute. reflexivity. Qed.
Lemma threshold_eq : overflow_threshold = F64_OVERFLOW_THRESHOLD.
Proof. reflexivity. Qed.

Theorem overflows_exec_spec : forall m e, overflows_exec m e = true <-> magnitude_overflows m e.
Proof.
  intros m e. unfold overflows_exec, magnitude_overflows. rewrite threshold_eq.
  pose proof threshold_pos as HT. pose proof threshold_le_10_401 as HT401.
  set (T := F64_OVERFLOW_THRESHOLD) in *. clearbody T.
  destruct (N.eqb_spec m 0) as [->|Hm].
  - (* zero mantissa *)
    split; [discriminate|]. destruct (0 <=? e) eqn:E.
    + intros H. change (Z.of_N 0) with 0 in H. lia.
    + intros H. assert (0 < 10 ^ (- e)) by (apply Z.pow_pos_nonneg; lia). change (Z.of_N 0) with 0 in H. nia.
  - assert (Hm1 : 1 <= Z.of_N m) by lia.
    destruct (400 <? e) eqn:E400.
    + split; [intros _|reflexivity]. replace (0 <=? e) with true by lia.
      assert (H1 : 10 ^ 401 <= 10 ^ e) by (apply Z.pow_le_mono_r; lia).
      assert (0 < 10 ^ e) by (apply Z.pow_pos_nonneg; lia). nia.
    + destruct (e + Z.of_N (N.log2 m + 1) <=? 0) eqn:Esmall.
      * split; [discriminate|]. intros H.
        assert (Hlog : (m < 2 ^ (N.log2 m + 1))%N).
        { rewrite N.add_1_r. apply N.log2_spec. lia. }
        assert (Hz : Z.of_N m < 2 ^ Z.of_N (N.log2 m + 1)).
        { apply N2Z.inj_lt in Hlog. rewrite N2Z.inj_pow in Hlog. exact Hlog. }
        set (b := Z.of_N (N.log2 m + 1)) in *.
        assert (Hb : 0 <= b) by (unfold b; lia).
        assert (H2 : 2 ^ b <= 10 ^ b) by (apply Z.pow_le_mono_l; lia).
        destruct (0 <=? e) eqn:E0.
        { (* e = 0 and b = 0 would need m < 1 *)
          assert (b = 0) by lia. assert (e = 0) by lia. subst e. rewrite H0 in Hz. cbn in Hz. lia. }
        assert (H3 : 10 ^ b <= 10 ^ (- e)) by (apply Z.pow_le_mono_r; lia).
        assert (0 < 10 ^ (- e)) by (apply Z.pow_pos_nonneg; lia). nia.
      * destruct (0 <=? e); rewrite Z.leb_le; reflexivity.
Qed.

(* float_finite_or_rejected: a float literal is stored as a finite value, or - exactly when its magnitude reaches the
   overflow threshold of round-to-nearest-even - rejected; an infinity is never stored *)
Theorem float_finite_or_rejected : forall s f, split_float s = Some f ->
  (magnitude_overflows (df_mantissa f) (df_exp10 f) -> float_model_class s = None)
  /\ (~ magnitude_overflows (df_mantissa f) (df_exp10 f) -> float_model_class s = Some FFinite).
Proof.
  intros s f Hs. unfold float_model_class, parsed_class. rewrite Hs. rewrite <- overflows_exec_spec.
  destruct (overflows_exec (df_mantissa f) (df_exp10 f)); split; intros H; try reflexivity; exfalso; auto; discriminate.
Qed.

Theorem float_never_infinite : forall s, float_model_class s <> Some FInfinite.
Proof. intros s. unfold float_model_class. destruct (parsed_class s) as [[|]|]; discriminate. Qed.

Example float_example :     (* 1.7976931348623158e308 is stored, 1.7976931348623159e308 and 1e999 are rejected; -0.0 and 4.9e-324 are stored *)
  float_model_class [49;46;55;57;55;54;57;51;49;51;52;56;54;50;51;49;53;56;101;51;48;56]%N = Some FFinite
  /\ float_model_class [49;46;55;57;55;54;57;51;49;51;52;56;54;50;51;49;53;57;101;51;48;56]%N = None
  /\ float_spelling [49; 101; 57; 57; 57]%N = true /\ float_model_class [49; 101; 57; 57; 57]%N = None
  /\ float_model_class [45;48;46;48]%N = Some FFinite
  /\ float_model_class [52;46;57;101;45;51;50;52]%N = Some FFinite
  /\ float_model_class [49;101;57;57;57;57;57;57;57;57;57;57;57;57;57;57;57;57;57;57;57;57;57;57]%N = None.
Proof. vm_compute. repeat split; reflexivity. Qed.
