(* C07 - proofs about the integer, occurrence and tag readers (Lit/IntLit.v) against Lit/Spec.v *)
From Coq Require Import ZifyBool ZifyNat ZifyN.
From Cddl Require Import Base.Bytes Lit.IntLit Lit.Grammar Lit.Spec Lit.Render.
Ltac Zify.zify_post_hook ::= Z.div_mod_to_equations.
Arguments N.add : simpl never.
Arguments N.mul : simpl never.
Arguments N.sub : simpl never.
Arguments N.div : simpl never.
Arguments N.modulo : simpl never.
Arguments N.pow : simpl never.
Open Scope N_scope.

(* ---------- finite enumeration below a bound ---------- *)
Lemma forallb_below : forall (p : N -> bool) (n : nat),
  forallb p (map N.of_nat (seq 0 n)) = true -> forall c, c < N.of_nat n -> p c = true.
Proof.
  intros p n Hall c Hc.
  rewrite forallb_forall in Hall. apply Hall.
  apply in_map_iff. exists (N.to_nat c). split; [lia|]. apply in_seq. lia.
Qed.

Lemma index_of_notin : forall c l, (forall a, In a l -> a <> c) -> index_of c l = None.
Proof.
  induction l as [|a l IH]; intros Hn; cbn [index_of]; [reflexivity|].
  destruct (c =? a) eqn:E.
  - apply N.eqb_eq in E. exfalso. apply (Hn a); [left; reflexivity | congruence].
  - rewrite IH; [reflexivity|]. intros b Hb. apply Hn. right. exact Hb.
Qed.

Lemma index_of_small : forall c l, (forall a, In a l -> a < 128) -> 128 <= c -> index_of c l = None.
Proof. intros c l Hl Hc. apply index_of_notin. intros a Ha. specialize (Hl a Ha). lia. Qed.

Lemma In_firstn : forall (A : Type) n (l : list A) a, In a (firstn n l) -> In a l.
Proof.
  induction n as [|n IH]; intros l a H; [contradiction|].
  destruct l as [|x l]; [contradiction|]. cbn [firstn In] in *. destruct H as [H|H]; [left; exact H | right; apply IH; exact H].
Qed.

Lemma digits_small : forall radix a, In a (firstn radix DIGITS_UPPER) \/ In a (firstn radix DIGITS_LOWER) -> a < 128.
Proof.
  intros radix a [H|H]; apply In_firstn in H; cbv [DIGITS_UPPER DIGITS_LOWER] in H; cbn [In] in H;
    repeat (destruct H as [H|H]; [subst a; reflexivity|]); contradiction.
Qed.

(* char::to_digit agrees with the RFC alphabets for the three radices *)
Definition digit_agree (radix : nat) (c : N) : bool :=
  match to_digit (N.of_nat radix) c, digit_value radix c with
  | Some a, Some b => a =? b
  | None, None => true
  | _, _ => false
  end.

Lemma to_digit_big : forall radix c, 128 <= c -> to_digit radix c = None.
Proof.
  intros radix c Hc. unfold to_digit.
  replace ((48 <=? c) && (c <=? 57)) with false by lia.
  replace ((97 <=? c) && (c <=? 122)) with false by lia.
  replace ((65 <=? c) && (c <=? 90)) with false by lia. reflexivity.
Qed.

Lemma digit_value_big : forall radix c, 128 <= c -> digit_value radix c = None.
Proof.
  intros radix c Hc. unfold digit_value.
  rewrite !index_of_small; auto; intros a Ha; apply (digits_small radix); auto.
Qed.

Lemma digit_agree_all : forall radix, (radix = 2 \/ radix = 10 \/ radix = 16)%nat ->
  forall c, to_digit (N.of_nat radix) c = digit_value radix c.
Proof.
  intros radix Hr c.
  destruct (N.lt_ge_cases c 128) as [Hlt|Hge].
  - assert (H : digit_agree radix c = true).
    { revert c Hlt. apply (forallb_below (digit_agree radix) 128).
      destruct Hr as [->|[->| ->]]; vm_compute; reflexivity. }
    unfold digit_agree in H.
    destruct (to_digit (N.of_nat radix) c), (digit_value radix c); try discriminate; try reflexivity.
    apply N.eqb_eq in H. congruence.
  - rewrite to_digit_big, digit_value_big; auto.
Qed.

Lemma digit_value_lt : forall radix c d, (radix = 2 \/ radix = 10 \/ radix = 16)%nat ->
  digit_value radix c = Some d -> d < N.of_nat radix.
Proof.
  intros radix c d Hr H. rewrite <- digit_agree_all in H by exact Hr.
  unfold to_digit in H.
  destruct (if (48 <=? c) && (c <=? 57) then Some (c - 48)
            else if (97 <=? c) && (c <=? 122) then Some (c - 97 + 10)
            else if (65 <=? c) && (c <=? 90) then Some (c - 65 + 10) else None) as [v|]; [|discriminate].
  destruct (v <? N.of_nat radix) eqn:E; [|discriminate]. inversion H; subst. lia.
Qed.

(* ---------- the checked digit loop computes the positional value or detects that it exceeds the maximum ---------- *)
Definition bounded (maxv : N) (o : option N) : option N :=
  match o with Some v => if v <=? maxv then Some v else None | None => None end.

Lemma positional_acc_ge : forall radix s acc v, (1 <= radix)%nat ->
  positional_acc radix acc s = Some v -> acc <= v.
Proof.
  induction s as [|c r IH]; intros acc v Hr H; cbn [positional_acc] in H.
  - inversion H; lia.
  - destruct (digit_value radix c) as [d|]; [|discriminate].
    apply IH in H; [|exact Hr]. nia.
Qed.

Lemma acc_digits_spec : forall radix, (radix = 2 \/ radix = 10 \/ radix = 16)%nat ->
  forall maxv s acc, acc <= maxv ->
  acc_digits (N.of_nat radix) maxv acc s = bounded maxv (positional_acc radix acc s).
Proof.
  intros radix Hr maxv. induction s as [|c r IH]; intros acc Hacc; cbn [acc_digits positional_acc].
  - unfold bounded. replace (acc <=? maxv) with true by lia. reflexivity.
  - rewrite (digit_agree_all radix Hr c).
    destruct (digit_value radix c) as [d|] eqn:Ed; [|reflexivity].
    assert (Hr1 : (1 <= radix)%nat) by lia.
    destruct (maxv <? acc * N.of_nat radix) eqn:E1.
    + destruct (positional_acc radix (acc * N.of_nat radix + d) r) as [v|] eqn:Ep; [|reflexivity].
      apply positional_acc_ge in Ep; [|exact Hr1]. unfold bounded.
      replace (v <=? maxv) with false by lia. reflexivity.
    + destruct (maxv <? acc * N.of_nat radix + d) eqn:E2.
      * destruct (positional_acc radix (acc * N.of_nat radix + d) r) as [v|] eqn:Ep; [|reflexivity].
        apply positional_acc_ge in Ep; [|exact Hr1]. unfold bounded.
        replace (v <=? maxv) with false by lia. reflexivity.
      * apply IH. lia.
Qed.

(* from_str_radix on a string that does not start with a sign *)
Lemma from_str_radix_spec : forall radix, (radix = 2 \/ radix = 10 \/ radix = 16)%nat ->
  forall maxv s, (forall c r, s = c :: r -> c <> 43) ->
  unsigned_from_str_radix maxv (N.of_nat radix) s = bounded maxv (positional radix s).
Proof.
  intros radix Hr maxv s Hs. unfold unsigned_from_str_radix, positional.
  destruct s as [|c [|c2 r]]; [reflexivity| |].
  - destruct ((c =? 43) || (c =? 45)) eqn:E.
    + cbn [positional_acc].
      assert (Hd : digit_value radix c = None).
      { rewrite <- digit_agree_all by exact Hr. unfold to_digit.
        replace ((48 <=? c) && (c <=? 57)) with false by lia.
        replace ((97 <=? c) && (c <=? 122)) with false by lia.
        replace ((65 <=? c) && (c <=? 90)) with false by lia. reflexivity. }
      rewrite Hd. reflexivity.
    + apply acc_digits_spec; [exact Hr | lia].
  - assert (Hc : c <> 43) by (apply (Hs c (c2 :: r)); reflexivity).
    replace (c =? 43) with false by lia.
    apply acc_digits_spec; [exact Hr | lia].
Qed.

(* ---------- shape of the spellings ---------- *)
Lemma forallb_hd_not_plus : forall (p : N -> bool) s, (forall c, p c = true -> c <> 43) ->
  forallb p s = true -> forall c r, s = c :: r -> c <> 43.
Proof.
  intros p s Hp Hall c r ->. cbn [forallb] in Hall. apply andb_prop in Hall. apply Hp. tauto.
Qed.

Lemma is_hexdig_not_plus : forall c, is_hexdig c = true -> c <> 43.
Proof. intros c H. unfold is_hexdig, is_digit in H. lia. Qed.
Lemma is_bindig_not_plus : forall c, is_bindig c = true -> c <> 43.
Proof. intros c H. unfold is_bindig in H. lia. Qed.
Lemma is_digit_not_plus : forall c, is_digit c = true -> c <> 43.
Proof. intros c H. unfold is_digit in H. lia. Qed.

Lemma bounded_u64 : forall o, bounded u64_max o = obind o (fun v => if v <? 2 ^ 64 then Some v else None).
Proof.
  intros [v|]; [|reflexivity]. unfold bounded, obind, u64_max.
  change (2 ^ 64) with 18446744073709551616.
  destruct (v <=? 18446744073709551615) eqn:E1, (v <? 18446744073709551616) eqn:E2; try reflexivity; lia.
Qed.

(* ---------- uint ---------- *)
Theorem uint_lit_ok : forall s, uint_spelling s = true -> parse_u64_lit s = uint_lit s.
Proof.
  intros s Hs. unfold uint_lit. rewrite <- bounded_u64.
  unfold parse_u64_lit, uint_value, uint_spelling in *.
  destruct s as [|z [|p r]]; [discriminate| |].
  - (* one digit *)
    unfold u64_from_str_radix. apply (from_str_radix_spec 10); [auto|].
    intros c r E. inversion E; subst. apply is_digit_not_plus. exact Hs.
  - destruct (z =? 48) eqn:Ez; cbn [andb].
    + destruct ((p =? 120) || (p =? 88)) eqn:Ex.
      * apply andb_prop in Hs. destruct Hs as [_ Hs].
        unfold u64_from_str_radix. apply (from_str_radix_spec 16); [auto|].
        apply (forallb_hd_not_plus is_hexdig); [apply is_hexdig_not_plus | exact Hs].
      * destruct ((p =? 98) || (p =? 66)) eqn:Eb; [|discriminate].
        apply andb_prop in Hs. destruct Hs as [_ Hs].
        unfold u64_from_str_radix. apply (from_str_radix_spec 2); [auto|].
        apply (forallb_hd_not_plus is_bindig); [apply is_bindig_not_plus | exact Hs].
    + unfold u64_from_str_radix. apply (from_str_radix_spec 10); [auto|].
      intros c r' E. inversion E; subst. unfold is_nonzero_digit in Hs. lia.
Qed.

Lemma uint_lit_lt : forall s v, uint_lit s = Some v -> v < 2 ^ 64.
Proof.
  intros s v H. unfold uint_lit, obind in H. destruct (uint_value s) as [w|]; [|discriminate].
  destruct (w <? 2 ^ 64) eqn:E; [|discriminate]. inversion H; subst. lia.
Qed.

(* the usize reader (type positions, occurrence bounds) on the 64-bit target *)
Theorem uint_usize_ok : forall s, uint_spelling s = true -> parse_uint_lit s = uint_lit s.
Proof.
  intros s Hs. unfold parse_uint_lit. rewrite (uint_lit_ok s Hs).
  destruct (uint_lit s) as [v|] eqn:E; [|reflexivity].
  apply uint_lit_lt in E. change (2 ^ 64) with 18446744073709551616 in E.
  unfold usize_max, u64_max. replace (v <=? 18446744073709551615) with true by lia. reflexivity.
Qed.

(* ---------- int ---------- *)
Theorem int_lit_ok : forall s, int_spelling s = true -> parse_int_lit s = int_lit s.
Proof.
  intros s Hs. unfold int_spelling in Hs. destruct s as [|c r]; [discriminate|].
  apply andb_prop in Hs. destruct Hs as [Hc Hr].
  unfold parse_int_lit, int_lit, int_value. rewrite Hc.
  rewrite (uint_lit_ok r Hr). unfold uint_lit, obind, omap.
  destruct (uint_value r) as [m|]; [|reflexivity].
  change (2 ^ 64) with 18446744073709551616. unfold isize_try_from, i64_min, i64_max.
  change (- 2 ^ 63)%Z with (-9223372036854775808)%Z.
  destruct (m <? 18446744073709551616) eqn:E1.
  - destruct ((-9223372036854775808 <=? - Z.of_N m)%Z) eqn:E2.
    + replace ((- Z.of_N m <=? 9223372036854775807)%Z) with true by lia. reflexivity.
    + reflexivity.
  - replace ((-9223372036854775808 <=? - Z.of_N m)%Z) with false by lia. reflexivity.
Qed.

(* ---------- occurrence ---------- *)
Definition plain (c : N) : bool := (48 <=? c) && (c <=? 122).

Lemma uint_spelling_plain : forall s, uint_spelling s = true -> forallb plain s = true.
Proof.
  intros s Hs. unfold uint_spelling in Hs.
  assert (Hhex : forall l, forallb is_hexdig l = true -> forallb plain l = true).
  { induction l as [|a l IH]; cbn [forallb]; intros H; [reflexivity|].
    apply andb_prop in H. destruct H as [Ha Hl]. rewrite (IH Hl).
    unfold is_hexdig, is_digit in Ha. unfold plain. lia. }
  assert (Hbin : forall l, forallb is_bindig l = true -> forallb plain l = true).
  { induction l as [|a l IH]; cbn [forallb]; intros H; [reflexivity|].
    apply andb_prop in H. destruct H as [Ha Hl]. rewrite (IH Hl).
    unfold is_bindig in Ha. unfold plain. lia. }
  assert (Hdig : forall l, forallb is_digit l = true -> forallb plain l = true).
  { induction l as [|a l IH]; cbn [forallb]; intros H; [reflexivity|].
    apply andb_prop in H. destruct H as [Ha Hl]. rewrite (IH Hl).
    unfold is_digit in Ha. unfold plain. lia. }
  destruct s as [|z [|p r]]; [discriminate| |].
  - cbn [forallb]. unfold is_digit in Hs. unfold plain. lia.
  - destruct (z =? 48) eqn:Ez.
    + cbn [forallb]. replace (plain z) with true by (unfold plain; lia).
      destruct ((p =? 120) || (p =? 88)) eqn:Ex.
      * apply andb_prop in Hs. destruct Hs as [_ Hs]. rewrite (Hhex r Hs).
        replace (plain p) with true by (unfold plain; lia). reflexivity.
      * destruct ((p =? 98) || (p =? 66)) eqn:Eb; [|discriminate].
        apply andb_prop in Hs. destruct Hs as [_ Hs]. rewrite (Hbin r Hs).
        replace (plain p) with true by (unfold plain; lia). reflexivity.
    + apply andb_prop in Hs. destruct Hs as [Hz Hs]. change (forallb plain (z :: p :: r)) with (plain z && forallb plain (p :: r)).
      rewrite (Hdig _ Hs). unfold is_nonzero_digit in Hz. unfold plain. lia.
Qed.

Lemma plain_not_ws : forall c, plain c = true -> is_rust_ws c = false.
Proof. intros c H. unfold plain in H. unfold is_rust_ws. lia. Qed.
Lemma plain_not_star : forall c, plain c = true -> (c =? 42) = false.
Proof. intros c H. unfold plain in H. lia. Qed.

Lemma trim_start_plain : forall s, forallb plain s = true -> trim_start s = s.
Proof.
  intros [|c r] H; [reflexivity|]. cbn [forallb] in H. apply andb_prop in H. destruct H as [Hc _].
  cbn [trim_start]. rewrite (plain_not_ws c Hc). reflexivity.
Qed.

Lemma forallb_rev : forall (p : N -> bool) s, forallb p (rev s) = forallb p s.
Proof.
  intros p s. induction s as [|a s IH]; [reflexivity|].
  cbn [rev forallb]. rewrite forallb_app, IH. cbn [forallb]. rewrite andb_true_r. apply andb_comm.
Qed.

Lemma trim_plain : forall s, forallb plain s = true -> trim s = s.
Proof.
  intros s H. unfold trim. rewrite (trim_start_plain s H).
  rewrite trim_start_plain by (rewrite forallb_rev; exact H). apply rev_involutive.
Qed.

Lemma split_star_acc_nostar : forall b cur, forallb plain b = true -> split_star_acc cur b = [rev cur ++ b].
Proof.
  induction b as [|c b IH]; intros cur H; cbn [split_star_acc].
  - rewrite app_nil_r. reflexivity.
  - cbn [forallb] in H. apply andb_prop in H. destruct H as [Hc Hb].
    rewrite (plain_not_star c Hc). rewrite (IH (c :: cur) Hb). cbn [rev]. rewrite <- app_assoc. reflexivity.
Qed.

Lemma split_star_acc_one : forall a cur b, forallb plain a = true -> forallb plain b = true ->
  split_star_acc cur (a ++ 42 :: b) = [rev cur ++ a; b].
Proof.
  induction a as [|c a IH]; intros cur b Ha Hb.
  - cbn [app split_star_acc]. replace (42 =? 42) with true by reflexivity.
    rewrite (split_star_acc_nostar b [] Hb). rewrite app_nil_r. reflexivity.
  - cbn [forallb] in Ha. apply andb_prop in Ha. destruct Ha as [Hc Ha].
    cbn [app split_star_acc]. rewrite (plain_not_star c Hc).
    rewrite (IH (c :: cur) b Ha Hb). cbn [rev]. rewrite <- app_assoc. reflexivity.
Qed.

Lemma split_first_star_spec : forall s pre a b, split_first_star pre s = Some (a, b) ->
  exists a', a = rev pre ++ a' /\ s = a' ++ 42 :: b /\ forallb (fun c => negb (c =? 42)) a' = true.
Proof.
  induction s as [|c r IH]; intros pre a b H; cbn [split_first_star] in H; [discriminate|].
  destruct (c =? 42) eqn:E.
  - inversion H; subst. exists []. rewrite app_nil_r. apply N.eqb_eq in E. subst c. auto.
  - apply IH in H. destruct H as [a' [H1 [H2 H3]]]. exists (c :: a'). cbn [rev] in H1.
    rewrite <- app_assoc in H1. cbn [app] in H1. repeat split; [exact H1 | subst r; reflexivity |].
    cbn [forallb]. rewrite E, H3. reflexivity.
Qed.

Lemma split_at_star_eq : forall s pre, split_at_star pre s = split_first_star pre s.
Proof. induction s as [|c r IH]; intros pre; cbn [split_at_star split_first_star]; [reflexivity|]. rewrite IH. reflexivity. Qed.

Lemma ends_with_star_app : forall a b, b <> [] -> forallb plain b = true -> ends_with_star (a ++ 42 :: b) = false.
Proof.
  intros a b Hb Hp. unfold ends_with_star.
  assert (Hlast : exists b' x, b = b' ++ [x]).
  { destruct (exists_last Hb) as [b' [x E]]. eauto. }
  destruct Hlast as [b' [x E]]. subst b.
  replace (a ++ 42 :: b' ++ [x]) with ((a ++ 42 :: b') ++ [x]) by (rewrite <- app_assoc; reflexivity).
  rewrite rev_app_distr. cbn [rev app].
  rewrite forallb_app in Hp. apply andb_prop in Hp. destruct Hp as [_ Hx]. cbn [forallb] in Hx.
  apply andb_prop in Hx. destruct Hx as [Hx _]. apply plain_not_star. exact Hx.
Qed.

Lemma contains_star_star_plain : forall l, forallb plain l = true -> contains_star_star l = false.
Proof.
  induction l as [|c l IH]; intros H; [reflexivity|].
  cbn [forallb] in H. apply andb_prop in H. destruct H as [Hc Hl].
  destruct l as [|d l]; [reflexivity|].
  change (contains_star_star (c :: d :: l)) with (((c =? 42) && (d =? 42)) || contains_star_star (d :: l)).
  rewrite (plain_not_star c Hc). cbn [andb orb]. apply IH. exact Hl.
Qed.

Lemma contains_star_star_one : forall a b, forallb plain a = true -> forallb plain b = true ->
  contains_star_star (a ++ 42 :: b) = false.
Proof.
  induction a as [|c a IH]; intros b Ha Hb.
  - cbn [app]. destruct b as [|d b]; [reflexivity|].
    change (contains_star_star (42 :: d :: b)) with (((42 =? 42) && (d =? 42)) || contains_star_star (d :: b)).
    assert (Hd : plain d = true) by (cbn [forallb] in Hb; apply andb_prop in Hb; tauto).
    rewrite (plain_not_star d Hd). rewrite andb_false_r. cbn [orb]. apply contains_star_star_plain. exact Hb.
  - cbn [forallb] in Ha. apply andb_prop in Ha. destruct Ha as [Hc Ha].
    cbn [app]. destruct (a ++ 42 :: b) as [|d l] eqn:E.
    + destruct a; discriminate.
    + change (contains_star_star (c :: d :: l)) with (((c =? 42) && (d =? 42)) || contains_star_star (d :: l)).
      rewrite (plain_not_star c Hc). cbn [andb orb]. rewrite <- E. apply IH; assumption.
Qed.

Lemma drop_stars_rev_star : forall a, forallb plain a = true -> trim_end_stars (a ++ [42]) = a.
Proof.
  intros a Ha. unfold trim_end_stars. rewrite rev_app_distr. cbn [rev app drop_stars].
  replace (42 =? 42) with true by reflexivity.
  destruct (rev a) as [|c r] eqn:E.
  - cbn [drop_stars rev]. apply (f_equal (@rev N)) in E. rewrite rev_involutive in E. cbn in E. congruence.
  - assert (Hc : plain c = true).
    { assert (H : forallb plain (rev a) = true) by (rewrite forallb_rev; exact Ha).
      rewrite E in H. cbn [forallb] in H. apply andb_prop in H. tauto. }
    cbn [drop_stars]. rewrite (plain_not_star c Hc). rewrite <- E. apply rev_involutive.
Qed.

Lemma is_nil_false : forall (l : list N), l <> [] -> is_nil l = false.
Proof. intros [|a l] H; [congruence | reflexivity]. Qed.

Lemma empty_or_uint_plain : forall a, is_nil a || uint_spelling a = true -> forallb plain a = true.
Proof.
  intros a H. destruct a as [|x a]; [reflexivity|]. cbn [is_nil orb] in H. apply uint_spelling_plain. exact H.
Qed.

Theorem occur_ok : forall s, occur_spelling s = true ->
  omap occur_sem (occur_model s) = occur_value s.
Proof.
  intros s Hs. unfold occur_spelling in Hs. unfold occur_model, occur_value.
  destruct (occur_kind s) as [k|] eqn:Ek; [|discriminate]. clear Hs.
  unfold occur_kind in Ek.
  destruct s as [|c [|c2 r]].
  - cbn [split_first_star] in Ek. discriminate.
  - (* single character *)
    destruct (c =? 63) eqn:E1; [inversion Ek; subst; reflexivity|].
    destruct (c =? 43) eqn:E2; [inversion Ek; subst; reflexivity|].
    destruct (c =? 42) eqn:E3; [inversion Ek; subst; reflexivity|]. discriminate.
  - set (s := c :: c2 :: r) in *.
    rewrite split_at_star_eq.
    destruct (split_first_star [] s) as [[a b]|] eqn:Esp; [|discriminate].
    destruct ((is_nil a || uint_spelling a) && (is_nil b || uint_spelling b)) eqn:Eab; [|discriminate].
    inversion Ek; subst k. clear Ek. cbn [convert_occurrence].
    apply andb_prop in Eab. destruct Eab as [Ea Eb].
    pose proof (empty_or_uint_plain a Ea) as Pa. pose proof (empty_or_uint_plain b Eb) as Pb.
    apply split_first_star_spec in Esp. destruct Esp as [a' [H1 [H2 _]]]. cbn [rev app] in H1. subst a'.
    unfold occur_bounds. rewrite H2.
    destruct b as [|b0 b'].
    + (* n* : the simple form *)
      assert (Hne : a <> []).
      { intros ->. cbn [app] in H2. unfold s in H2. discriminate. }
      unfold ends_with_star. rewrite rev_app_distr. cbn [rev app]. replace (42 =? 42) with true by reflexivity.
      rewrite (contains_star_star_one a [] Pa eq_refl). cbn [negb andb].
      rewrite (drop_stars_rev_star a Pa). rewrite (trim_plain a Pa). rewrite (is_nil_false a Hne). cbn [negb].
      destruct a as [|a0 a']; [congruence|]. cbn [is_nil orb] in Ea.
      rewrite (uint_usize_ok _ Ea). destruct (uint_lit (a0 :: a')) as [l|]; reflexivity.
    + (* n*m and *m *)
      rewrite (ends_with_star_app a (b0 :: b')) by (congruence || exact Pb). cbn [andb].
      unfold split_star. rewrite (split_star_acc_one a [] (b0 :: b') Pa Pb). cbn [rev app nth length].
      rewrite (trim_plain a Pa), (trim_plain (b0 :: b') Pb).
      cbn [is_nil orb] in Eb. rewrite (uint_usize_ok _ Eb).
      replace ((2 <=? 2)%nat) with true by reflexivity. cbn [is_nil negb andb].
      destruct a as [|a0 a'].
      * cbn [is_nil]. destruct (uint_lit (b0 :: b')) as [u|]; reflexivity.
      * cbn [is_nil orb] in Ea. cbn [is_nil]. rewrite (uint_usize_ok _ Ea).
        destruct (uint_lit (a0 :: a')) as [l|]; [|reflexivity].
        destruct (uint_lit (b0 :: b')) as [u|]; reflexivity.
Qed.

(* ---------- tags ---------- *)
Lemma to_digit_10 : forall d, is_digit d = true -> to_digit 10 d = Some (d - 48).
Proof.
  intros d H. unfold to_digit. unfold is_digit in H. rewrite H.
  replace (d - 48 <? 10) with true by lia. reflexivity.
Qed.
Lemma digit_value_10 : forall d, is_digit d = true -> digit_value 10 d = Some (d - 48) /\ to_digit 10 d = Some (d - 48).
Proof.
  intros d H. split; [|apply to_digit_10; exact H].
  rewrite <- (digit_agree_all 10) by auto. apply (to_digit_10 d H).
Qed.

Theorem tag_ok : forall s, tag_spelling s = true -> omap tag_sem (convert_tag_head s) = tag_value s.
Proof.
  intros s Hs. unfold tag_spelling in Hs. unfold convert_tag_head, tag_value.
  destruct s as [|h [|d [|dot u]]]; [discriminate| | |].
  - rewrite Hs. reflexivity.
  - apply andb_prop in Hs. destruct Hs as [Hh Hd]. rewrite Hh.
    destruct (digit_value_10 d Hd) as [H1 H2]. cbn [after_dot]. unfold positional. cbn [positional_acc].
    rewrite H1, H2. cbn [N.of_nat]. change (0 * N.of_nat 10 + (d - 48)) with (0 * 10 + (d - 48)).
    replace (0 * 10 + (d - 48)) with (d - 48) by lia.
    destruct (d - 48 =? 6) eqn:E6; cbn [omap tag_sem]; [apply N.eqb_eq in E6; rewrite E6|]; reflexivity.
  - apply andb_prop in Hs. destruct Hs as [Hs Hu]. apply andb_prop in Hs. destruct Hs as [Hs Hdot].
    apply andb_prop in Hs. destruct Hs as [Hh Hd]. rewrite Hh.
    destruct (digit_value_10 d Hd) as [H1 H2]. cbn [after_dot]. rewrite Hdot. unfold positional. cbn [positional_acc].
    rewrite H1, H2. replace (0 * N.of_nat 10 + (d - 48)) with (d - 48) by lia.
    rewrite (uint_lit_ok u Hu).
    destruct (uint_lit u) as [v|]; [|reflexivity].
    destruct (d - 48 =? 6) eqn:E6; cbn [omap tag_sem]; [apply N.eqb_eq in E6; rewrite E6|]; reflexivity.
Qed.

(* ---------- non-vacuity ---------- *)
Example uint_example : uint_spelling [48; 88; 102; 70] = true /\ parse_u64_lit [48; 88; 102; 70] = Some 255.
Proof. vm_compute. auto. Qed.
Example uint_reject_example :      (* 18446744073709551616 = 2^64 *)
  let s := [49;56;52;52;54;55;52;52;48;55;51;55;48;57;53;53;49;54;49;54] in
  uint_spelling s = true /\ parse_u64_lit s = None /\ uint_value s = Some (2 ^ 64).
Proof. vm_compute. auto. Qed.
Example int_example :              (* -0x8000000000000000 and -9223372036854775809 *)
  parse_int_lit [45;48;120;56;48;48;48;48;48;48;48;48;48;48;48;48;48;48;48] = Some (- 2 ^ 63)%Z
  /\ int_spelling [45;57;50;50;51;51;55;50;48;51;54;56;53;52;55;55;53;56;48;57] = true
  /\ parse_int_lit [45;57;50;50;51;51;55;50;48;51;54;56;53;52;55;55;53;56;48;57] = None.
Proof. vm_compute. auto. Qed.
Example occur_example :            (* 0x3*0b101 *)
  occur_spelling [48;120;51;42;48;98;49;48;49] = true
  /\ occur_model [48;120;51;42;48;98;49;48;49] = Some (OExact (Some 3) (Some 5))
  /\ occur_model [42; 53] = Some (OExact None (Some 5)) /\ occur_model [53; 42] = Some (OExact (Some 5) None).
Proof. vm_compute. auto. Qed.
Example tag_example :              (* #6.0x20 *)
  tag_spelling [35;54;46;48;120;50;48] = true /\ convert_tag_head [35;54;46;48;120;50;48] = Some (TTagged (Some 32)).
Proof. vm_compute. auto. Qed.
