(* C07 - excluded-class predicates (classifiers of the open findings) and the canonical rendering of model and
   specification results as lists of character codes, shared by vm_compute, the extracted oracle and (through the
   same textual format) the Rust driver harness/src/bin/c07.rs.  No proofs in this file. *)
From Cddl Require Import Base.Bytes Lit.IntLit Lit.Grammar Lit.TextLit Lit.BytesLit Lit.FloatLit Lit.Spec.
Open Scope N_scope.

(* ---------- classes excluded from the _partial theorems (= classifiers of the findings) ---------- *)

(* kf-c07-bytes-escapes-not-processed: an unprefixed byte string containing a backslash *)
Definition has_backslash (s : list N) : bool := existsb (N.eqb 92) s.

(* content between the quotes of a prefixed byte string token *)
Definition b16_content (tok : list N) : list N := strip_quotes 2 tok.
Definition b64_content (tok : list N) : list N := strip_quotes 4 tok.

(* ---------- model results mapped into the specification's domain ---------- *)
Definition occur_sem (o : occur) : N * option N :=
  match o with
  | OOptional => (0, Some 1)
  | OZeroOrMore => (0, None)
  | OOneOrMore => (1, None)
  | OExact lo hi => (match lo with Some l => l | None => 0 end, hi)
  end.
Definition occur_model (s : list N) : option occur :=
  match occur_kind s with
  | Some k => convert_occurrence k s
  | None => None
  end.
Definition tag_sem (t : tag_head) : option N * option N :=
  match t with
  | TAny => (None, None)
  | TTagged c => (Some 6, c)
  | TMajor mt c => (Some mt, c)
  end.

(* ---------- rendering ---------- *)
Definition ERR : list N := [69; 82; 82].              (* ERR *)
Definition NONE : list N := [78; 79; 78; 69].         (* NONE *)
Definition r_uint (o : option N) : list N := match o with Some v => 85 :: hexN v | None => ERR end.      (* U<hex> *)
Definition r_int (o : option Z) : list N :=
  match o with
  | Some z => if (z <? 0)%Z then 73 :: 45 :: hexN (Z.to_N (- z)) else 73 :: hexN (Z.to_N z)              (* I-<hex> / I<hex> *)
  | None => ERR
  end.
Definition r_optN (o : option N) : list N := match o with Some v => hexN v | None => [45] end.
Definition r_occur_ast (o : option occur) : list N :=
  match o with
  | None => ERR
  | Some OOptional => [111; 99; 99; 63]               (* occ? *)
  | Some OZeroOrMore => [111; 99; 99; 42]             (* occ* *)
  | Some OOneOrMore => [111; 99; 99; 43]              (* occ+ *)
  | Some (OExact lo hi) => [111; 99; 99; 40] ++ r_optN lo ++ [44] ++ r_optN hi ++ [41]     (* occ(l,u) *)
  end.
Definition r_occur_sem (o : option (N * option N)) : list N :=
  match o with
  | None => ERR
  | Some (lo, hi) => [40] ++ hexN lo ++ [44] ++ r_optN hi ++ [41]
  end.
Definition r_tagc (c : option N) : list N := match c with Some v => 76 :: hexN v | None => [45] end.     (* L<hex> / - *)
Definition r_tag_ast (o : option tag_head) : list N :=
  match o with
  | None => ERR
  | Some TAny => [35]
  | Some (TTagged c) => [35; 54; 46] ++ r_tagc c                                                         (* #6.<c> *)
  | Some (TMajor mt c) => [35] ++ hexN mt ++ [46] ++ r_tagc c
  end.
Definition r_tag_sem (o : option (option N * option N)) : list N :=
  match o with
  | None => ERR
  | Some (mt, n) => [40] ++ r_optN mt ++ [44] ++ r_optN n ++ [41]
  end.

(* UTF-8 of a list of scalar values (RFC 3629), for showing text and unprefixed byte strings the way the driver
   does (hex of the stored bytes) *)
Definition utf8_enc1 (c : N) : list N :=
  if c <? 128 then [c]
  else if c <? 2048 then [192 + c / 64; 128 + c mod 64]
  else if c <? 65536 then [224 + c / 4096; 128 + (c / 64) mod 64; 128 + c mod 64]
  else [240 + c / 262144; 128 + (c / 4096) mod 64; 128 + (c / 64) mod 64; 128 + c mod 64].
Definition utf8_enc (s : list N) : list N := flat_map utf8_enc1 s.
Definition r_text (tag : list N) (o : option (list N)) (none : list N) : list N :=
  match o with Some cs => tag ++ hexbytes (utf8_enc cs) | None => none end.
Definition r_bytes (tag : list N) (o : option (list N)) (none : list N) : list N :=
  match o with Some bs => tag ++ hexbytes bs | None => none end.

Definition bit (b : bool) : list N := if b then [49] else [48].
Definition field (name : N) (v : list N) : list N := [name; 58] ++ v.        (* X:<v> *)
Definition bar : list N := [124].

(* one line per case:  M:<what the code stores, AST level>|V:<the same in the specification's domain>|S:<specification>
                       |G:<token grammar admits the spelling>|C:<excluded-class flags> *)
Definition out (m v s : list N) (g : bool) (c : list N) : list N :=
  field 77 m ++ bar ++ field 86 v ++ bar ++ field 83 s ++ bar ++ field 71 (bit g) ++ bar ++ field 67 c.

Definition eval_uint (s : list N) := out (r_uint (parse_uint_lit s)) (r_uint (parse_uint_lit s)) (r_uint (uint_lit s)) (uint_spelling s) [].
Definition eval_u64 (s : list N) := out (r_uint (parse_u64_lit s)) (r_uint (parse_u64_lit s)) (r_uint (uint_lit s)) (uint_spelling s) [].
Definition eval_int (s : list N) := out (r_int (parse_int_lit s)) (r_int (parse_int_lit s)) (r_int (int_lit s)) (int_spelling s) [].
Definition eval_occur (s : list N) :=
  out (r_occur_ast (occur_model s)) (r_occur_sem (omap occur_sem (occur_model s))) (r_occur_sem (occur_value s)) (occur_spelling s) [].
Definition eval_tag (s : list N) :=
  out (r_tag_ast (convert_tag_head s)) (r_tag_sem (omap tag_sem (convert_tag_head s))) (r_tag_sem (tag_value s)) (tag_spelling s) [].
Definition eval_text (s : list N) :=
  out (r_text [84] (text_value_model s) ERR) (r_text [84] (text_value_model s) ERR) (r_text [84] (text_lit s) ERR)
      (text_spelling s) [].
Definition eval_b16 (s : list N) :=
  out (r_bytes [66; 72] (bytes_b16_model s) ERR) (r_bytes [66; 72] (bytes_b16_model s) ERR) (r_bytes [66; 72] (b16_lit s) ERR)
      (bytes_b16_spelling s) [].
Definition eval_b64 (s : list N) :=
  out (r_bytes [66; 66] (bytes_b64_model s) ERR) (r_bytes [66; 66] (bytes_b64_model s) ERR) (r_bytes [66; 66] (b64_lit s) ERR)
      (bytes_b64_spelling s) [].
Definition eval_butf8 (s : list N) :=
  out (r_text [66; 85] (Some (bytes_utf8_chars s)) ERR) (r_text [66; 85] (Some (bytes_utf8_chars s)) ERR)
      (r_text [66; 85] (bytes_text_lit s) NONE) (bytes_utf8_spelling s) (bit (has_backslash (bytes_utf8_chars s))).
Definition FIN : list N := [70; 73; 78].
Definition eval_float (s : list N) :=
  let m := match float_model_class s with Some FFinite => FIN | _ => ERR end in
  let sp := match parsed_class s with Some FFinite => FIN | Some FInfinite => ERR | None => ERR end in
  out m m sp (float_spelling s) [].
Definition eval_hexfloat (s : list N) := out [63] [63] [63] (hexfloat_spelling s) [].      (* differential only *)

(* number = { hexfloat | float_value | int_value | uint_value }: K:<kind>| then that kind's line *)
Definition eval_number (s : list N) : list N :=
  match number_kind s with
  | Some KHexfloat => field 75 [104] ++ bar ++ eval_hexfloat s
  | Some KFloat => field 75 [102] ++ bar ++ eval_float s
  | Some KInt => field 75 [105] ++ bar ++ eval_int s
  | Some KUint => field 75 [117] ++ bar ++ eval_uint s
  | None => field 75 [45]
  end.

(* kind codes of the line protocol *)
Definition lit_eval (kind : N) (s : list N) : list N :=
  if kind =? 1 then eval_uint s
  else if kind =? 2 then eval_int s
  else if kind =? 3 then eval_u64 s
  else if kind =? 4 then eval_occur s
  else if kind =? 5 then eval_tag s
  else if kind =? 6 then eval_text s
  else if kind =? 7 then eval_b16 s
  else if kind =? 8 then eval_b64 s
  else if kind =? 9 then eval_butf8 s
  else if kind =? 10 then eval_float s
  else if kind =? 11 then eval_hexfloat s
  else if kind =? 12 then eval_number s
  else [63].
