(* C07 - the token grammar of /repo/cddl.pest for literals, as executable boolean recognisers on a whole token
   (list of code points).  Written from cddl.pest (rule text quoted beside each definition) and validated
   differentially on every run against the real pest parser (driver command G: "does Rule::<r> match exactly this
   text").  PEG ordered choice matters only where alternatives overlap; the comments say why they do not.
   No proofs in this file. *)
From Cddl Require Import Base.Bytes Lit.IntLit.
Open Scope N_scope.

Definition is_digit (c : N) : bool := (48 <=? c) && (c <=? 57).                 (* DIGIT / ASCII_DIGIT *)
Definition is_nonzero_digit (c : N) : bool := (49 <=? c) && (c <=? 57).          (* ASCII_NONZERO_DIGIT *)
Definition is_hexdig (c : N) : bool :=                                           (* ASCII_HEX_DIGIT *)
  is_digit c || ((65 <=? c) && (c <=? 70)) || ((97 <=? c) && (c <=? 102)).
Definition is_bindig (c : N) : bool := (c =? 48) || (c =? 49).                   (* ASCII_BIN_DIGIT *)
Definition nonempty {A} (l : list A) : bool := negb (is_nil l).

(* uint_value = @{ ^"0x" ~ ASCII_HEX_DIGIT+ | ^"0b" ~ ASCII_BIN_DIGIT+ | ASCII_NONZERO_DIGIT ~ DIGIT* | "0" }
   The alternatives start with "0x"/"0X", "0b"/"0B", a non-zero digit, and "0" alone: a whole-token match is in
   exactly one of them. *)
Definition uint_spelling (s : list N) : bool :=
  match s with
  | [] => false
  | [c] => is_digit c
  | z :: p :: r =>
    if z =? 48 then
      if (p =? 120) || (p =? 88) then nonempty r && forallb is_hexdig r
      else if (p =? 98) || (p =? 66) then nonempty r && forallb is_bindig r
      else false
    else is_nonzero_digit z && forallb is_digit (p :: r)
  end.

(* int_value = @{ "-" ~ (^"0x" ~ ASCII_HEX_DIGIT+ | ^"0b" ~ ASCII_BIN_DIGIT+ | ASCII_NONZERO_DIGIT ~ DIGIT* | "0") } *)
Definition int_spelling (s : list N) : bool :=
  match s with
  | c :: r => (c =? 45) && uint_spelling r
  | [] => false
  end.

(* occur = { occur_exact | occur_zero_or_more | occur_one_or_more | occur_optional | occur_range }
   occur_exact = @{ uint_value ~ "*" ~ !DIGIT }
   occur_range = @{ uint_value ~ "*" ~ uint_value | uint_value? ~ "*" ~ uint_value? }
   occur_zero_or_more = @{ "*" ~ !DIGIT }   occur_one_or_more = @{ "+" }   occur_optional = @{ "?" }
   A whole token is "?", "+", or  [uint] "*" [uint]; uint spellings contain no '*', so the token splits at its
   first '*'.  n"*" is occur_exact, "*" is occur_zero_or_more, everything else with a bound is occur_range (the
   bridge treats occur_exact and occur_range alike). *)
Fixpoint split_first_star (pre s : list N) : option (list N * list N) :=
  match s with
  | [] => None
  | c :: r => if c =? 42 then Some (rev pre, r) else split_first_star (c :: pre) r
  end.

Definition occur_kind (s : list N) : option occ_rule :=
  match s with
  | [c] => if c =? 63 then Some ROptional
           else if c =? 43 then Some ROneOrMore
           else if c =? 42 then Some RZeroOrMore
           else None
  | _ =>
    match split_first_star [] s with
    | Some (a, b) =>
      if (is_nil a || uint_spelling a) && (is_nil b || uint_spelling b) then Some RExactOrRange else None
    | None => None
    end
  end.
Definition occur_spelling (s : list N) : bool := match occur_kind s with Some _ => true | None => false end.

(* tag_expr = { "#" ~ DIGIT ~ ("." ~ tag_value)? ~ ("(" ~ S ~ type_expr ~ S ~ ")")? | "#" ~ (...)? }
   tag_value = { uint_value | "<" ~ S ~ type_expr ~ S ~ ">" }
   the literal-carrying head: "#" | "#" DIGIT | "#" DIGIT "." uint_value *)
Definition tag_spelling (s : list N) : bool :=
  match s with
  | [h] => h =? 35
  | [h; d] => (h =? 35) && is_digit d
  | h :: d :: dot :: u => (h =? 35) && is_digit d && (dot =? 46) && uint_spelling u
  | [] => false
  end.

(* text_value = ${ "\"" ~ text_inner ~ "\"" }   text_inner = @{ text_char* }
   text_char = { escape_sequence | (!("\"" | "\\") ~ ANY) }
   escape_sequence = @{ "\\" ~ ( "\"" | "\\" | "/" | "b" | "f" | "n" | "r" | "t"
                               | ("u" ~ "{" ~ ASCII_HEX_DIGIT+ ~ "}") | ("u" ~ ASCII_HEX_DIGIT{4}) ) }
   state: TNorm, or inside \u{...} having seen `seen` hex digits *)
Inductive tstate := TNorm | TBrace (seen : bool).
Definition is_simple_escape (c : N) : bool :=
  (c =? 34) || (c =? 92) || (c =? 47) || (c =? 98) || (c =? 102) || (c =? 110) || (c =? 114) || (c =? 116).

Fixpoint text_inner_ok (st : tstate) (s : list N) : bool :=
  match st with
  | TBrace seen =>
    match s with
    | [] => false
    | c :: r => if c =? 125 then seen && text_inner_ok TNorm r
                else is_hexdig c && text_inner_ok (TBrace true) r
    end
  | TNorm =>
    match s with
    | [] => true
    | c :: r =>
      if c =? 34 then false
      else if c =? 92 then
        match r with
        | [] => false
        | e :: r1 =>
          if is_simple_escape e then text_inner_ok TNorm r1
          else if e =? 117 then
            match r1 with
            | b :: r2 =>
              if b =? 123 then text_inner_ok (TBrace false) r2
              else match r2 with
                   | h2 :: h3 :: h4 :: r3 =>
                     is_hexdig b && is_hexdig h2 && is_hexdig h3 && is_hexdig h4 && text_inner_ok TNorm r3
                   | _ => false
                   end
            | [] => false
            end
          else false
        end
      else text_inner_ok TNorm r
    end
  end.

(* the token with its quotes *)
Definition strip_last {A} (s : list A) : list A := rev (tl (rev s)).
Definition last_is (q : N) (s : list N) : bool := match rev s with c :: _ => c =? q | [] => false end.
Definition text_spelling (s : list N) : bool :=
  match s with
  | q :: r => (q =? 34) && nonempty r && last_is 34 r && text_inner_ok TNorm (strip_last r)
  | [] => false
  end.

(* bytes_b64 = @{ "b64'" ~ BASE64_INNER ~ "'" }   bytes_b16 = @{ "h'" ~ HEX_INNER ~ "'" }
   bytes_utf8 = @{ "'" ~ BYTE_STRING_INNER ~ "'" }      *_INNER = { (!(QUOTE) ~ ANY)* }   QUOTE = _{ "'" } *)
Definition no_quote (s : list N) : bool := forallb (fun c => negb (c =? 39)) s.
Definition quoted_tail (r : list N) : bool :=           (* r = inner ++ "'" with no quote inside inner *)
  nonempty r && last_is 39 r && no_quote (strip_last r).
Definition bytes_utf8_spelling (s : list N) : bool :=
  match s with
  | q :: r => (q =? 39) && quoted_tail r
  | [] => false
  end.
Definition bytes_b16_spelling (s : list N) : bool :=
  match s with
  | h :: q :: r => (h =? 104) && (q =? 39) && quoted_tail r
  | _ => false
  end.
Definition bytes_b64_spelling (s : list N) : bool :=
  match s with
  | b :: c6 :: c4 :: q :: r => (b =? 98) && (c6 =? 54) && (c4 =? 52) && (q =? 39) && quoted_tail r
  | _ => false
  end.

(* float_value = @{ "-"? ~ (ASCII_NONZERO_DIGIT ~ DIGIT* | "0")
                    ~ ( "." ~ DIGIT+ ~ (^"e" ~ ("+" | "-")? ~ DIGIT+)? | ^"e" ~ ("+" | "-")? ~ DIGIT+ ) }
   hexfloat = @{ "-"? ~ ^"0x" ~ ASCII_HEX_DIGIT+ ~ ("." ~ ASCII_HEX_DIGIT+)? ~ ^"p" ~ ("+" | "-")? ~ DIGIT+ }
   Both are parsed into their parts by Lit/FloatLit.v (split_float / split_hexfloat return None exactly when the
   token is not of this form); the recognisers are defined there. *)
