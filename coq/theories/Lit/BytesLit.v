(* C07 - faithful model of the byte-string literal readers of /repo/src/pest_bridge.rs:
     clean_prefixed_byte_string, hex_decode, base64_decode and the slicing in convert_bytes_value_to_type2
     (as of commit 951a310: only the grammar's whitespace is ignored, padding before the end is rejected).
   data_encoding 2.11 (HEXLOWER_PERMISSIVE, BASE64, BASE64_NOPAD, BASE64URL, BASE64URL_NOPAD) is an external
   library; its decode_len / decode_mut are written out here as executable definitions following its lib.rs
   (decode_block: x |= value << (bit * order), output (x >> (8 * order)) & 0xff; decode_base_mut: symbols then
   check_trail; decode_pad_mut: every 4-character block may carry its own padding) and are tied to the real ones by
   the correspondence run.  Inputs are code points; the Rust code works on the UTF-8 bytes of the cleaned string,
   where every byte of a non-ASCII character is >= 0x80 and therefore neither a symbol nor padding: such inputs are
   an error in every encoding, which is what the explicit ASCII guard below returns.  No proofs in this file. *)
From Cddl Require Import Base.Bytes Lit.IntLit Lit.TextLit.
Open Scope N_scope.

(* ---------- clean_prefixed_byte_string ---------- *)
(* matches!(c, ' ' | '\t' | '\r' | '\n'): the WHITESPACE of cddl.pest (since 320d006; before that c.is_whitespace()) *)
Definition is_grammar_ws (c : N) : bool := (c =? 32) || (c =? 9) || (c =? 13) || (c =? 10).
Fixpoint clean_st (in_comment : bool) (s : list N) : list N :=
  match s with
  | [] => []
  | c :: r =>
    if in_comment then (if c =? 10 then clean_st false r else clean_st true r)    (* skip through '\n' *)
    else if c =? 59 then clean_st true r                                          (* ';' *)
    else if is_grammar_ws c then clean_st false r
    else c :: clean_st false r
  end.
Definition clean_prefixed_byte_string (s : list N) : list N := clean_st false s.

(* ---------- data_encoding: symbol values ---------- *)
Definition hex_value (c : N) : option N :=                  (* HEXLOWER_PERMISSIVE: lower case plus translated upper case *)
  if (48 <=? c) && (c <=? 57) then Some (c - 48)
  else if (97 <=? c) && (c <=? 102) then Some (c - 87)
  else if (65 <=? c) && (c <=? 70) then Some (c - 55)
  else None.
Definition b64_value (url : bool) (c : N) : option N :=
  if (65 <=? c) && (c <=? 90) then Some (c - 65)
  else if (97 <=? c) && (c <=? 122) then Some (c - 71)
  else if (48 <=? c) && (c <=? 57) then Some (c + 4)
  else if url then (if c =? 45 then Some 62 else if c =? 95 then Some 63 else None)
  else (if c =? 43 then Some 62 else if c =? 47 then Some 63 else None).

Fixpoint values (val : N -> option N) (s : list N) : option (list N) :=
  match s with
  | [] => Some []
  | c :: r => match val c, values val r with
              | Some v, Some vs => Some (v :: vs)
              | _, _ => None
              end
  end.

(* decode_block for bit = 6, msb first: at most 4 symbol values in, the first `nout` of 3 bytes out *)
Fixpoint block_acc (shift : N) (x : N) (vs : list N) : N :=
  match vs with
  | [] => x
  | v :: r => block_acc (shift - 6) (N.lor x (N.shiftl v shift)) r
  end.
Definition block_x (vs : list N) : N := block_acc 18 0 vs.
Definition block_out (x j : N) : N := N.land (N.shiftr x (8 * (2 - j))) 255.

(* decode_base_mut (no padding): decode_len demands 6*len mod 8 < 6, all characters are symbols, and
   check_trail demands zero trailing bits in the last symbol *)
Fixpoint decode_base (val : N -> option N) (s : list N) : option (list N) :=
  match s with
  | [] => Some []
  | [_] => None                                                            (* DecodeKind::Length *)
  | [a; b] =>
    match values val [a; b] with
    | Some vs => if N.land (nth 1 vs 0) 15 =? 0 then Some [block_out (block_x vs) 0] else None
    | None => None
    end
  | [a; b; c] =>
    match values val [a; b; c] with
    | Some vs => if N.land (nth 2 vs 0) 3 =? 0 then Some [block_out (block_x vs) 0; block_out (block_x vs) 1] else None
    | None => None
    end
  | a :: b :: c :: d :: r =>
    match values val [a; b; c; d], decode_base val r with
    | Some vs, Some out => Some (block_out (block_x vs) 0 :: block_out (block_x vs) 1 :: block_out (block_x vs) 2 :: out)
    | _, _ => None
    end
  end.

(* check_pad on one block: number of trailing '=' *)
Fixpoint count_trailing_pad_rev (rs : list N) : nat :=
  match rs with
  | c :: r => if c =? 61 then S (count_trailing_pad_rev r) else O
  | [] => O
  end.

(* decode_pad_mut: length a multiple of 4; a block of four symbols gives three bytes; any other block must be
   2 or 3 symbols followed by '=' padding and is decoded on its own (trailing bits checked); decoding then goes on
   with the next block *)
Fixpoint decode_pad (val : N -> option N) (s : list N) : option (list N) :=
  match s with
  | [] => Some []
  | a :: b :: c :: d :: r =>
    let blk := [a; b; c; d] in
    let this :=
      match values val blk with
      | Some vs => Some [block_out (block_x vs) 0; block_out (block_x vs) 1; block_out (block_x vs) 2]
      | None =>
        let len := (4 - count_trailing_pad_rev (rev blk))%nat in
        if ((len =? 0) || (len =? 1))%nat then None                        (* DecodeKind::Padding *)
        else decode_base val (firstn len blk)
      end in
    match this, decode_pad val r with
    | Some o, Some out => Some (o ++ out)
    | _, _ => None
    end
  | _ => None                                                              (* DecodeKind::Length *)
  end.

Definition all_ascii (s : list N) : bool := forallb (fun c => c <? 128) s.
Definition contains (c : N) (s : list N) : bool := existsb (N.eqb c) s.

(* ---------- hex_decode ---------- *)
Fixpoint hex_pairs (s : list N) : option (list N) :=
  match s with
  | [] => Some []
  | [_] => None                                                            (* odd length: DecodeKind::Length *)
  | a :: b :: r =>
    match hex_value a, hex_value b, hex_pairs r with
    | Some x, Some y, Some out => Some (N.land (N.lor (N.shiftl x 4) y) 255 :: out)
    | _, _, _ => None
    end
  end.
Definition hex_decode (s : list N) : option (list N) :=
  if all_ascii s then hex_pairs s else None.

(* ---------- base64_decode ---------- *)
(* if let Some(first_pad) = input.iter().position(|&b| b == b'=') { if input[first_pad..].iter().any(|&b| b != b'=') { Err } }
   (since 951a310) *)
Fixpoint from_first_pad (s : list N) : option (list N) :=
  match s with
  | [] => None
  | c :: r => if c =? 61 then Some s else from_first_pad r
  end.
Definition pad_not_at_end (s : list N) : bool :=
  match from_first_pad s with
  | Some suffix => existsb (fun b => negb (b =? 61)) suffix
  | None => false
  end.

Definition base64_decode (s : list N) : option (list N) :=
  if negb (all_ascii s) then None else
  let uses_classic := contains 43 s || contains 47 s in
  let uses_url := contains 45 s || contains 95 s in
  if uses_classic && uses_url then None
  else if pad_not_at_end s then None
  else
    match uses_classic, contains 61 s with
    | true, true => decode_pad (b64_value false) s          (* BASE64 *)
    | true, false => decode_base (b64_value false) s        (* BASE64_NOPAD *)
    | false, true => decode_pad (b64_value true) s          (* BASE64URL *)
    | false, false => decode_base (b64_value true) s        (* BASE64URL_NOPAD *)
    end.

(* ---------- convert_bytes_value_to_type2 ---------- *)
Definition bytes_b16_model (tok : list N) : option (list N) :=            (* &bytes_str[2..len-1] *)
  hex_decode (clean_prefixed_byte_string (strip_quotes 2 tok)).
Definition bytes_b64_model (tok : list N) : option (list N) :=            (* &bytes_str[4..len-1] *)
  base64_decode (clean_prefixed_byte_string (strip_quotes 4 tok)).

(* Rule::bytes_utf8 arm: content = &bytes_str[1..len-1]; value = content.as_bytes().  On code points this is the
   characters between the quotes; their UTF-8 encoding (the document's own bytes) is applied by the rendering. *)
Definition bytes_utf8_chars (tok : list N) : list N := strip_quotes 1 tok.
