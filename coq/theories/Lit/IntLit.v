(* C07 - faithful model of the integer-literal readers of /repo/src/pest_bridge.rs:
     parse_u64_lit (66-72), parse_uint_lit (75-78), parse_int_lit (81-89),
     the bound reader of convert_occurrence (3310-3404) and the number readers of
     convert_tag_expr (2994-3107).
   Inputs are the token's source characters as a list of code points (N).
   Rust library functions that enter (u64::from_str_radix, str::parse::<u64>, char::to_digit, str::trim,
   str::split, usize/isize::try_from on a 64-bit target) are written out as executable definitions; they are
   tied to the real ones by the correspondence run.  No proofs in this file. *)
From Cddl Require Import Base.Bytes.
Open Scope N_scope.

Definition u64_max : N := 18446744073709551615.
Definition u32_max : N := 4294967295.
Definition i64_max : Z := 9223372036854775807%Z.
Definition i64_min : Z := (-9223372036854775808)%Z.

(* char::to_digit(radix), radix <= 36 *)
Definition to_digit (radix c : N) : option N :=
  let d := if (48 <=? c) && (c <=? 57) then Some (c - 48)
           else if (97 <=? c) && (c <=? 122) then Some (c - 97 + 10)
           else if (65 <=? c) && (c <=? 90) then Some (c - 65 + 10)
           else None in
  match d with
  | Some v => if v <? radix then Some v else None
  | None => None
  end.

(* the digit loop of core::num::from_str_radix for an unsigned type with maximum maxv:
   result = result.checked_mul(radix)?.checked_add(digit)?  *)
Fixpoint acc_digits (radix maxv acc : N) (s : list N) : option N :=
  match s with
  | [] => Some acc
  | c :: r =>
    match to_digit radix c with
    | None => None
    | Some d =>
      let m := acc * radix in
      if maxv <? m then None
      else let a := m + d in
           if maxv <? a then None else acc_digits radix maxv a r
    end
  end.

(* <unsigned>::from_str_radix(s, radix).ok(): empty -> Err, a lone sign -> Err, one leading '+' is accepted,
   '-' is not stripped for unsigned types (and is then an invalid digit) *)
Definition unsigned_from_str_radix (maxv radix : N) (s : list N) : option N :=
  match s with
  | [] => None
  | [c] => if (c =? 43) || (c =? 45) then None else acc_digits radix maxv 0 s
  | c :: r => if c =? 43 then acc_digits radix maxv 0 r else acc_digits radix maxv 0 s
  end.
Definition u64_from_str_radix := unsigned_from_str_radix u64_max.
Definition u32_from_str_radix := unsigned_from_str_radix u32_max.

(* pest_bridge.rs:66  fn parse_u64_lit(s: &str) -> Option<u64> *)
Definition parse_u64_lit (s : list N) : option N :=
  match s with
  | z :: p :: r =>
    if (z =? 48) && ((p =? 120) || (p =? 88)) then u64_from_str_radix 16 r          (* [b'0', b'x' | b'X', ..] *)
    else if (z =? 48) && ((p =? 98) || (p =? 66)) then u64_from_str_radix 2 r       (* [b'0', b'b' | b'B', ..] *)
    else u64_from_str_radix 10 s                                                    (* s.parse() *)
  | _ => u64_from_str_radix 10 s
  end.

(* pest_bridge.rs:75  usize::try_from(u64) on the 64-bit target the harness is built for *)
Definition usize_max : N := u64_max.
Definition parse_uint_lit (s : list N) : option N :=
  match parse_u64_lit s with
  | Some v => if v <=? usize_max then Some v else None
  | None => None
  end.

(* pest_bridge.rs:81  fn parse_int_lit(s: &str) -> Option<isize>: the magnitude goes through i128 *)
Definition isize_try_from (z : Z) : option Z :=
  if ((i64_min <=? z) && (z <=? i64_max))%Z then Some z else None.
Definition parse_int_lit (s : list N) : option Z :=
  let positive := match parse_u64_lit s with
                  | Some v => isize_try_from (Z.of_N v)
                  | None => None
                  end in
  match s with
  | c :: rest =>
    if c =? 45 then                                                   (* s.strip_prefix('-') *)
      match parse_u64_lit rest with
      | Some m => isize_try_from (- Z.of_N m)
      | None => None
      end
    else positive
  | [] => positive
  end.

(* ---------- occurrence indicators: convert_occurrence ---------- *)

(* char::is_whitespace (Unicode White_Space) *)
Definition is_rust_ws (c : N) : bool :=
  ((9 <=? c) && (c <=? 13)) || (c =? 32) || (c =? 133) || (c =? 160) || (c =? 5760)
  || ((8192 <=? c) && (c <=? 8202)) || (c =? 8232) || (c =? 8233) || (c =? 8239) || (c =? 8287) || (c =? 12288).

Fixpoint trim_start (s : list N) : list N :=
  match s with
  | c :: r => if is_rust_ws c then trim_start r else s
  | [] => []
  end.
Definition trim (s : list N) : list N := rev (trim_start (rev (trim_start s))).

Definition ends_with_star (s : list N) : bool :=
  match rev s with c :: _ => c =? 42 | [] => false end.
Fixpoint contains_star_star (s : list N) : bool :=
  match s with
  | a :: (b :: _) as r => ((a =? 42) && (b =? 42)) || contains_star_star r
  | _ => false
  end.
Fixpoint drop_stars (s : list N) : list N :=
  match s with
  | c :: r => if c =? 42 then drop_stars r else s
  | [] => []
  end.
Definition trim_end_stars (s : list N) : list N := rev (drop_stars (rev s)).   (* trim_end_matches('*') *)

(* str::split('*') *)
Fixpoint split_star_acc (cur : list N) (s : list N) : list (list N) :=
  match s with
  | [] => [rev cur]
  | c :: r => if c =? 42 then rev cur :: split_star_acc [] r else split_star_acc (c :: cur) r
  end.
Definition split_star (s : list N) : list (list N) := split_star_acc [] s.

Definition is_nil {A} (l : list A) : bool := match l with [] => true | _ => false end.

(* which of the pest alternatives of `occur` produced the pair (decided by the parser, see Lit/Grammar.v) *)
Inductive occ_rule := ROptional | RZeroOrMore | ROneOrMore | RExactOrRange.

(* ast::Occur *)
Inductive occur := OOptional | OZeroOrMore | OOneOrMore | OExact (lower upper : option N).

(* body of the Rule::occur_exact | Rule::occur_range arm; None = Err("Occurrence bound out of range") *)
Definition occur_bounds (s : list N) : option occur :=
  let trimmed := trim (trim_end_stars s) in
  if ends_with_star s && negb (contains_star_star s) && negb (is_nil trimmed) then
    match parse_uint_lit trimmed with
    | Some l => Some (OExact (Some l) None)
    | None => None
    end
  else
    let parts := split_star s in
    let p0 := trim (nth 0 parts []) in
    let lower := if is_nil p0 then Some None
                 else match parse_uint_lit p0 with Some l => Some (Some l) | None => None end in
    match lower with
    | None => None
    | Some lo =>
      let p1 := trim (nth 1 parts []) in
      if (2 <=? length parts)%nat && negb (is_nil p1) then
        match parse_uint_lit p1 with
        | Some u => Some (OExact lo (Some u))
        | None => None
        end
      else Some (OExact lo None)
    end.

Definition convert_occurrence (k : occ_rule) (s : list N) : option occur :=
  match k with
  | ROptional => Some OOptional
  | RZeroOrMore => Some OZeroOrMore
  | ROneOrMore => Some OOneOrMore
  | RExactOrRange => occur_bounds s
  end.

(* ---------- tag / major-type heads: convert_tag_expr ---------- *)
(* The input is the head of the tag expression, "#", "#D" or "#D.<uint>" (the optional "(type)" part and the
   "<type>" form carry no literal).  pest hands the uint_value pair to parse_u64_lit; the major type is the first
   character after '#' through char::to_digit(10). *)
Inductive tag_head :=
| TAny                                      (* Type2::Any *)
| TTagged (tag : option N)                  (* Type2::TaggedData { tag: Option<TagConstraint::Literal> } *)
| TMajor (mt : N) (constraint : option N).  (* Type2::DataMajorType *)

Definition after_dot (s : list N) : option (list N) :=
  match s with
  | c :: u => if c =? 46 then Some u else None
  | [] => None
  end.

Definition convert_tag_head (s : list N) : option tag_head :=
  match s with
  | _hash :: d :: rest =>
    let constraint :=
      match after_dot rest with
      | Some u => match parse_u64_lit u with Some v => Some (Some v) | None => None end
      | None => Some None
      end in
    match constraint with
    | None => None                                                    (* "Tag number out of range" *)
    | Some c =>
      match to_digit 10 d with
      | Some mt => if mt =? 6 then Some (TTagged c) else Some (TMajor mt c)
      | None => Some TAny
      end
    end
  | _ => Some TAny
  end.
