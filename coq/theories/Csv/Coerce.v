(* Faithful model of coerce_field / parse_csv_to_json / validate_csv_from_str of
   src/validator/csv_validator.rs (lines 105-169, 181-196) over models of the three Rust
   standard-library parsers the coercion tries in order:

     field.is_empty()          -> String("")
     field.parse::<u64>()      -> json!(u64)
     field.parse::<i64>()      -> json!(i64)
     field.parse::<f64>() and is_finite() -> json!(f64)
     otherwise                 -> String(field)

   What is modelled exactly: WHICH spellings each parser accepts (core::num::from_ascii_radix
   for the integers, core::num::dec2flt::{dec2flt, parse::parse_number, parse_inf_nan} for f64),
   the integer VALUES, the u64/i64/f64 class serde_json::Number ends up in, and whether the
   float is finite.  The binary64 value of a float is NOT computed here: the model carries the
   decimal (sign, significand D, exponent e: value = (-1)^sign * D * 10^e) and the
   correspondence check compares the crate's bit pattern with a correctly rounding conversion
   of that decimal.  Finiteness is decided from the decimal under the contract
     "f64::from_str is round-to-nearest-even, so the result is finite iff
      |D * 10^e| < (2^54 - 1) * 2^970"           (the midpoint between f64::MAX and 2^1024)
   which is checked differentially at the boundary on every run.
   One deviation: dec2flt stops accumulating exponent digits once the exponent reaches 65536
   (parse_scientific); the model keeps the exact exponent.  The two agree on the class of every
   field shorter than 60 000 bytes (both are then far outside the finite range, or D = 0).

   No proofs in this file. *)
From Cddl Require Import Base.Bytes Csv.Reader.
Open Scope N_scope.

(* ---------- characters ---------- *)
Definition is_digit (b : N) : bool := (48 <=? b) && (b <=? 57).
Definition is_plus (b : N) : bool := b =? 43.
Definition is_minus (b : N) : bool := b =? 45.

(* value of a string of ASCII digits, most significant first *)
Fixpoint dval_acc (acc : N) (ds : list N) : N :=
  match ds with
  | [] => acc
  | d :: r => dval_acc (10 * acc + (d - 48)) r
  end.
Definition dval (ds : list N) : N := dval_acc 0 ds.

(* ---------- core::num: <u64|i64>::from_str = from_ascii_radix(src, 10) ----------
     if src.is_empty()                      -> Err(Empty)
     [b'+' | b'-']                          -> Err(InvalidDigit)
     [b'+', rest @ ..]                      -> (positive, rest)
     [b'-', rest @ ..] if is_signed_ty      -> (negative, rest)
     _                                      -> (positive, src)
   then every byte must be a decimal digit (InvalidDigit otherwise) and the accumulated value
   must fit the type (PosOverflow / NegOverflow otherwise).  The digit loop with checked
   arithmetic is modelled by computing the exact value and comparing it with the bounds
   (partial values are monotone, so "some step overflows" = "the value is out of range"). *)
Definition int_split (signed : bool) (s : list N) : option (bool * list N) :=
  match s with
  | [] => None
  | c :: r =>
      match r with
      | [] => if is_plus c || is_minus c then None else Some (true, s)
      | _ => if is_plus c then Some (true, r)
             else if is_minus c && signed then Some (false, r)
             else Some (true, s)
      end
  end.

Definition all_digits (ds : list N) : bool := forallb is_digit ds.

Definition parse_u64 (s : list N) : option N :=
  match int_split false s with
  | Some (_, ds) =>
      if all_digits ds then (if dval ds <? 2 ^ 64 then Some (dval ds) else None) else None
  | None => None
  end.

Definition parse_i64 (s : list N) : option Z :=
  match int_split true s with
  | Some (true, ds) =>
      if all_digits ds then (if dval ds <? 2 ^ 63 then Some (Z.of_N (dval ds)) else None) else None
  | Some (false, ds) =>
      if all_digits ds then (if dval ds <=? 2 ^ 63 then Some (- Z.of_N (dval ds))%Z else None) else None
  | None => None
  end.

(* ---------- core::num::dec2flt ---------- *)
(* try_parse_digits: the longest prefix of digits *)
Fixpoint span_digits (s : list N) : list N * list N :=
  match s with
  | [] => ([], [])
  | c :: r => if is_digit c then let '(a, b) := span_digits r in (c :: a, b) else ([], s)
  end.

(* the optional sign that dec2flt() and parse_scientific() strip *)
Definition strip_sign (s : list N) : bool * list N :=
  match s with
  | c :: r => if is_minus c then (true, r) else if is_plus c then (false, r) else (false, s)
  | [] => (false, s)
  end.

(* parse_scientific: [+-]? digit+ ; None when no digit follows *)
Definition parse_scientific (s : list N) : option (Z * list N) :=
  let '(neg, s1) := strip_sign s in
  match span_digits s1 with
  | ([], _) => None
  | (ds, r) => Some (if neg then (- Z.of_N (dval ds))%Z else Z.of_N (dval ds), r)
  end.

Definition is_e (c : N) : bool := (c =? 101) || (c =? 69).

(* parse_partial_number: digits, optional '.' digits, at least one digit in total,
   optional exponent; returns significand, decimal exponent, unparsed rest *)
Definition parse_partial_number (s : list N) : option (N * Z * list N * nat) :=
  let '(ip, s1) := span_digits s in
  let '(fp, s2) := match s1 with
                   | c :: r => if c =? 46 then span_digits r else ([], s1)
                   | [] => ([], s1)
                   end in
  let nd := (length ip + length fp)%nat in
  match nd with
  | O => None
  | _ =>
    let D := dval (ip ++ fp) in
    let e0 := (- Z.of_nat (length fp))%Z in
    match s2 with
    | c :: r =>
        if is_e c then
          match parse_scientific r with
          | Some (ex, r') => Some (D, (e0 + ex)%Z, r', nd)
          | None => None
          end
        else Some (D, e0, s2, nd)
    | [] => Some (D, e0, s2, nd)
    end
  end.

(* parse_number: the whole string must be consumed *)
Definition parse_number (s : list N) : option (N * Z * nat) :=
  match parse_partial_number s with
  | Some (D, e, [], nd) => Some (D, e, nd)
  | _ => None
  end.

(* parse_inf_nan: "nan", "inf", "infinity", ASCII case-insensitive (bit 5 masked) *)
Definition upper (c : N) : N := if (97 <=? c) && (c <=? 122) then c - 32 else c.
Fixpoint eq_bytes (a b : list N) : bool :=
  match a, b with
  | [], [] => true
  | x :: a', y :: b' => (x =? y) && eq_bytes a' b'
  | _, _ => false
  end.
Definition str_NAN : list N := [78; 65; 78].
Definition str_INF : list N := [73; 78; 70].
Definition str_INFINITY : list N := [73; 78; 70; 73; 78; 73; 84; 89].

Inductive fres :=
| FDec (neg : bool) (D : N) (e : Z) (nd : nat)   (* nd = number of digit characters of D *)
| FInf (neg : bool)
| FNan.

Definition parse_inf_nan (s : list N) (neg : bool) : option fres :=
  let u := map upper s in
  if eq_bytes u str_NAN then Some FNan
  else if eq_bytes u str_INF || eq_bytes u str_INFINITY then Some (FInf neg)
  else None.

(* dec2flt(): first byte '-' or '+' is the sign; what remains must be non-empty *)
Definition parse_f64 (s : list N) : option fres :=
  match s with
  | [] => None
  | _ =>
    let '(neg, r) := strip_sign s in
    match r with
    | [] => None
    | _ => match parse_number r with
           | Some (D, e, nd) => Some (FDec neg D e nd)
           | None => parse_inf_nan r neg
           end
    end
  end.

(* ---------- f64::is_finite on the decimal, under the rounding contract ----------
   threshold T = (2^54 - 1) * 2^970.  D < 10^nd (nd digit characters), so
     D = 0                -> finite (zero)
     e >= 309             -> D * 10^e >= 10^309 > T : infinite
     e + nd <= 308        -> D * 10^e < 10^308 < T  : finite
   and otherwise -nd - 1 < e < 309, so 10^|e| is a number of at most nd + 309 digits and the
   comparison is done exactly.  (The guards keep a hostile exponent such as 1e-99999999999
   from ever being used as a power.) *)
Definition f64_threshold : Z := ((2 ^ 54 - 1) * 2 ^ 970)%Z.

Definition f64_finiteb (nd : nat) (D : N) (e : Z) : bool :=
  if D =? 0 then true
  else if (309 <=? e)%Z then false
  else if (e + Z.of_nat nd <=? 308)%Z then true
  else if (0 <=? e)%Z then (Z.of_N D * 10 ^ e <? f64_threshold)%Z
  else (Z.of_N D <? f64_threshold * 10 ^ (- e))%Z.

(* ---------- the JSON values the mapping produces (serde_json::Value) ---------- *)
Inductive json :=
| JStr (s : list N)                      (* Value::String, UTF-8 bytes *)
| JU (n : N)                             (* Number PosInt(u64) *)
| JI (z : Z)                             (* Number NegInt(i64), z < 0 *)
| JF (neg : bool) (D : N) (e : Z)        (* Number Float: (-1)^neg * D * 10^e correctly rounded *)
| JArr (l : list json).

(* serde_json: From<i64> for Number: non-negative values are stored as PosInt *)
Definition json_of_i64 (z : Z) : json := if (z <? 0)%Z then JI z else JU (Z.to_N z).

(* csv_validator.rs:146-169 *)
Definition coerce_field (f : list N) : json :=
  match f with
  | [] => JStr []
  | _ =>
    match parse_u64 f with
    | Some n => JU n
    | None =>
      match parse_i64 f with
      | Some z => json_of_i64 z
      | None =>
        match parse_f64 f with
        | Some (FDec neg D e nd) => if f64_finiteb nd D e then JF neg D e else JStr f
        | _ => JStr f
        end
      end
    end
  end.

(* csv_validator.rs:117-134: enumerate(); the header row (has_header && row_idx == 0)
   stays text, every other field is coerced *)
Fixpoint map_rows (hdr : bool) (idx : N) (rows : list record) : list json :=
  match rows with
  | [] => []
  | r :: rs =>
      JArr (map (fun f => if hdr && (idx =? 0) then JStr f else coerce_field f) r)
      :: map_rows hdr (idx + 1) rs
  end.
Definition map_csv (hdr : bool) (rows : list record) : json := JArr (map_rows hdr 0 rows).

(* parse_csv_to_json(text, has_header): has_header.unwrap_or(false) is done by the caller of
   the model (None and Some(false) are the same case) *)
Definition parse_csv_to_json (text : list N) (hdr : bool) : option json :=
  match read_csv text with
  | Some rows => Some (map_csv hdr rows)
  | None => None
  end.

(* validate_csv_from_str (181-196): parse the schema, map the text, hand the mapped document
   and the caller's feature list to the JSON validator.  The JSON validator is not modelled
   here (C01): it enters as a Section variable, so the definition says exactly
   "CSV validation = JSON validation of the mapped document, same schema, same options". *)
Section Validate.
  Variables (schema options : Type).
  Variable validate_json : schema -> options -> json -> bool.
  Definition validate_csv (sc : schema) (opts : options) (text : list N) (hdr : bool) : bool :=
    match parse_csv_to_json text hdr with
    | Some doc => validate_json sc opts doc
    | None => false
    end.
End Validate.

(* ---------- canonical rendering (shared by vm_compute and the extracted oracle) ----------
   [[s<hex utf8>,u<hex>,i-<hex>,F<+|-><hex D>e<+|-><hex |e|>],...] ; the check turns each F
   token into the f<bits> token the Rust driver prints, by correctly rounded conversion. *)
Definition hexZ (z : Z) : list N :=
  (if (z <? 0)%Z then [45] else [43]) ++ hexN (Z.abs_N z).

Fixpoint sep_by {A} (sep : list A) (l : list (list A)) : list A :=
  match l with
  | [] => []
  | [x] => x
  | x :: r => x ++ sep ++ sep_by sep r
  end.

Fixpoint render_json (j : json) : list N :=
  match j with
  | JStr s => 115 :: hexbytes s
  | JU n => 117 :: hexN n
  | JI z => 105 :: 45 :: hexN (Z.abs_N z)
  | JF neg D e => 70 :: (if neg then 45 else 43) :: hexN D ++ 101 :: hexZ e
  | JArr l => 91 :: sep_by [44] (map render_json l) ++ [93]
  end.

Definition str_OK : list N := [79; 75; 32].
Definition str_FUEL : list N := [69; 82; 82; 32; 102; 117; 101; 108].

Definition parse_render (text : list N) (hdr : bool) : list N :=
  match parse_csv_to_json text hdr with
  | Some j => str_OK ++ render_json j
  | None => str_FUEL
  end.

(* the raw records, for the round-trip side of the correspondence: [[<hex>,<hex>],[...]] *)
Definition records_render (text : list N) : list N :=
  match read_csv text with
  | Some rows =>
      str_OK ++ 91 :: sep_by [44] (map (fun r => 91 :: sep_by [44] (map hexbytes r) ++ [93]) rows) ++ [93]
  | None => str_FUEL
  end.
