(* Proofs about the coercion model: the spellings coerce_field turns into numbers are exactly
   the number spellings of Csv/Spec.v with a finite value; integer values are exact; the
   header row stays text; the mapped document is an array of arrays of scalars. *)
From Coq Require Import ZifyBool ZifyNat ZifyN.
From Cddl Require Import Base.Bytes Csv.Reader Csv.Coerce Csv.Spec Csv.ReaderProofs.
Open Scope N_scope.
Local Arguments N.eqb : simpl never.
Local Arguments N.leb : simpl never.
Local Arguments N.ltb : simpl never.
Local Arguments N.mul : simpl never.
Local Arguments N.add : simpl never.
Local Arguments N.sub : simpl never.
Local Arguments N.pow : simpl never.
Local Arguments Z.pow : simpl never.
Local Arguments Z.mul : simpl never.

(* ---------- digits and values ---------- *)
Lemma all_digits_digits : forall ds, all_digits ds = true <-> digits ds.
Proof. intros ds. unfold all_digits, digits. reflexivity. Qed.

Lemma dval_acc_fold : forall ds acc,
  dval_acc acc ds = fold_left (fun a d => 10 * a + (d - 48)) ds acc.
Proof. induction ds as [|d r IH]; intros acc; [reflexivity|]. cbn [dval_acc fold_left]. apply IH. Qed.

Lemma dval_dec_value : forall ds, dval ds = dec_value ds.
Proof. intros ds. unfold dval, dec_value. apply dval_acc_fold. Qed.

Lemma all_digits_app : forall a b, all_digits (a ++ b) = all_digits a && all_digits b.
Proof. intros a b. unfold all_digits. apply forallb_app. Qed.

Lemma dval_acc_bound : forall ds acc, all_digits ds = true ->
  (Z.of_N (dval_acc acc ds) + 1 <= (Z.of_N acc + 1) * 10 ^ Z.of_nat (length ds))%Z.
Proof.
  induction ds as [|d r IH]; intros acc H.
  - cbn [dval_acc length]. change (Z.of_nat 0) with 0%Z. rewrite Z.pow_0_r. lia.
  - cbn [all_digits forallb] in H. apply andb_true_iff in H. destruct H as [Hd Hr].
    unfold is_digit in Hd. cbn [dval_acc length]. rewrite Nat2Z.inj_succ, Z.pow_succ_r by lia.
    specialize (IH (10 * acc + (d - 48)) Hr).
    assert (Hp : (0 < 10 ^ Z.of_nat (length r))%Z) by (apply Z.pow_pos_nonneg; lia).
    set (P := (10 ^ Z.of_nat (length r))%Z) in *.
    assert (Hle : ((Z.of_N (10 * acc + (d - 48)) + 1) * P <= (10 * (Z.of_N acc + 1)) * P)%Z).
    { apply Z.mul_le_mono_nonneg_r; lia. }
    lia.
Qed.

Lemma dval_bound : forall ds, all_digits ds = true ->
  (Z.of_N (dval ds) < 10 ^ Z.of_nat (length ds))%Z.
Proof. intros ds H. pose proof (dval_acc_bound ds 0 H) as B. unfold dval. lia. Qed.

(* ---------- span_digits ---------- *)
Definition no_digit_head (s : list N) : Prop :=
  match s with c :: _ => is_digit c = false | [] => True end.

Lemma span_digits_spec : forall s a b, span_digits s = (a, b) ->
  s = a ++ b /\ all_digits a = true /\ no_digit_head b.
Proof.
  induction s as [|c r IH]; intros a b H; cbn [span_digits] in H.
  - inversion H. subst. repeat split.
  - destruct (is_digit c) eqn:Hc.
    + destruct (span_digits r) as [a' b'] eqn:E. inversion H. subst.
      destruct (IH a' b eq_refl) as [H1 [H2 H3]]. subst r. repeat split; try assumption.
      cbn [all_digits forallb]. rewrite Hc. exact H2.
    + inversion H. subst. repeat split. exact Hc.
Qed.

Lemma span_digits_app : forall a b, all_digits a = true -> no_digit_head b ->
  span_digits (a ++ b) = (a, b).
Proof.
  induction a as [|c a IH]; intros b Ha Hb.
  - cbn [app]. destruct b as [|d b]; [reflexivity|]. cbn [span_digits]. cbn in Hb. rewrite Hb. reflexivity.
  - cbn [all_digits forallb] in Ha. apply andb_true_iff in Ha. destruct Ha as [Hc Ha].
    cbn [app span_digits]. rewrite Hc. rewrite (IH b Ha Hb). reflexivity.
Qed.

(* ---------- signs ---------- *)
Lemma strip_sign_spec : forall s neg r, strip_sign s = (neg, r) ->
  exists sg, s = sg ++ r /\ sign_of sg neg.
Proof.
  intros s neg r H. unfold strip_sign in H. destruct s as [|c s'].
  - inversion H. subst. exists []. split; [reflexivity | constructor].
  - destruct (is_minus c) eqn:Hm.
    + inversion H. subst. unfold is_minus in Hm. apply N.eqb_eq in Hm. subst c.
      exists [45]. split; [reflexivity | constructor].
    + destruct (is_plus c) eqn:Hp.
      * inversion H. subst. unfold is_plus in Hp. apply N.eqb_eq in Hp. subst c.
        exists [43]. split; [reflexivity | constructor].
      * inversion H. subst. exists []. split; [reflexivity | constructor].
Qed.

Definition no_sign_head (s : list N) : Prop :=
  match s with c :: _ => is_minus c = false /\ is_plus c = false | [] => True end.

Lemma strip_sign_app : forall sg neg r, sign_of sg neg -> no_sign_head r ->
  strip_sign (sg ++ r) = (neg, r).
Proof.
  intros sg neg r Hs Hr. destruct Hs; cbn [app]; try reflexivity.
  destruct r as [|c r]; [reflexivity|]. destruct Hr as [Hm Hp]. unfold strip_sign. rewrite Hm, Hp. reflexivity.
Qed.

Lemma digit_no_sign : forall c, is_digit c = true -> is_minus c = false /\ is_plus c = false.
Proof. intros c H. unfold is_digit, is_minus, is_plus in *. lia. Qed.

Lemma digits_no_sign_head : forall ds r, all_digits ds = true -> ds <> [] -> no_sign_head (ds ++ r).
Proof.
  intros ds r H Hne. destruct ds as [|c ds]; [congruence|]. cbn [all_digits forallb] in H.
  apply andb_true_iff in H. destruct H as [Hc _]. cbn. apply digit_no_sign. exact Hc.
Qed.

(* ---------- integers ---------- *)
Definition signed_val (neg : bool) (ds : list N) : Z :=
  (if neg then - Z.of_N (dec_value ds) else Z.of_N (dec_value ds))%Z.

Lemma int_split_spec : forall signed s p ds, int_split signed s = Some (p, ds) ->
  all_digits ds = true ->
  exists sg, s = sg ++ ds /\ sign_of sg (negb p) /\ ds <> [] /\ (signed = false -> p = true).
Proof.
  intros signed s p ds H Hd. unfold int_split in H. destruct s as [|c r]; [discriminate|].
  destruct r as [|c2 r].
  - destruct (is_plus c || is_minus c); [discriminate|]. inversion H. subst.
    exists []. repeat split; try constructor. discriminate.
  - destruct (is_plus c) eqn:Hp.
    + inversion H. subst. unfold is_plus in Hp. apply N.eqb_eq in Hp. subst c.
      exists [43]. repeat split; try constructor. discriminate.
    + destruct (is_minus c && signed) eqn:Hm.
      * inversion H. subst. apply andb_true_iff in Hm. destruct Hm as [Hm Hsg].
        unfold is_minus in Hm. apply N.eqb_eq in Hm. subst c.
        exists [45]. repeat split; try constructor; try discriminate. intros E. rewrite E in Hsg. discriminate.
      * inversion H. subst. exists []. repeat split; try constructor. discriminate.
Qed.

Lemma parse_u64_sound : forall f n, parse_u64 f = Some n ->
  int_spelling f (Z.of_N n) /\ n < 2 ^ 64.
Proof.
  intros f n H. unfold parse_u64 in H.
  destruct (int_split false f) as [[p ds]|] eqn:E; [|discriminate].
  destruct (all_digits ds) eqn:Hd; [|discriminate].
  destruct (dval ds <? 2 ^ 64) eqn:Hlt; [|discriminate]. inversion H. subst n.
  destruct (int_split_spec false f p ds E Hd) as [sg [Hf [Hs [Hne Hp]]]].
  rewrite (Hp eq_refl) in Hs. cbn [negb] in Hs. split; [|apply N.ltb_lt; exact Hlt].
  subst f. rewrite dval_dec_value.
  exact (IntSp sg false ds Hs (proj1 (all_digits_digits ds) Hd) Hne).
Qed.

Lemma parse_i64_sound : forall f z, parse_i64 f = Some z ->
  int_spelling f z /\ (- 2 ^ 63 <= z < 2 ^ 63)%Z.
Proof.
  intros f z H. unfold parse_i64 in H.
  destruct (int_split true f) as [[p ds]|] eqn:E; [|discriminate].
  destruct p.
  - destruct (all_digits ds) eqn:Hd; [|discriminate].
    destruct (dval ds <? 2 ^ 63) eqn:Hlt; [|discriminate]. inversion H. subst z.
    destruct (int_split_spec true f true ds E Hd) as [sg [Hf [Hs [Hne _]]]]. cbn [negb] in Hs.
    split; [|lia]. subst f. rewrite dval_dec_value.
    exact (IntSp sg false ds Hs (proj1 (all_digits_digits ds) Hd) Hne).
  - destruct (all_digits ds) eqn:Hd; [|discriminate].
    destruct (dval ds <=? 2 ^ 63) eqn:Hle; [|discriminate]. inversion H. subst z.
    destruct (int_split_spec true f false ds E Hd) as [sg [Hf [Hs [Hne _]]]]. cbn [negb] in Hs.
    split; [|lia]. subst f. rewrite dval_dec_value.
    exact (IntSp sg true ds Hs (proj1 (all_digits_digits ds) Hd) Hne).
Qed.

Definition json_int (z : Z) : json := if (z <? 0)%Z then JI z else JU (Z.to_N z).

Lemma head_digit : forall ds, all_digits ds = true -> ds <> [] ->
  exists c r, ds = c :: r /\ is_digit c = true.
Proof.
  intros ds H Hne. destruct ds as [|c r]; [congruence|]. cbn [all_digits forallb] in H.
  apply andb_true_iff in H. destruct H as [Hc _]. exists c, r. split; [reflexivity | exact Hc].
Qed.

Lemma int_split_unsigned : forall signed ds, all_digits ds = true -> ds <> [] ->
  int_split signed ds = Some (true, ds).
Proof.
  intros signed ds H Hne. destruct (head_digit ds H Hne) as [c [r [E Hc]]]. subst ds.
  destruct (digit_no_sign c Hc) as [Hm Hp]. unfold int_split. rewrite Hp, Hm. cbn [orb andb].
  destruct r; reflexivity.
Qed.

Lemma int_split_plus : forall signed ds, ds <> [] -> int_split signed (43 :: ds) = Some (true, ds).
Proof. intros signed ds Hne. destruct ds as [|c r]; [congruence|]. reflexivity. Qed.

Lemma int_split_minus : forall signed ds, ds <> [] ->
  int_split signed (45 :: ds) = if signed then Some (false, ds) else Some (true, 45 :: ds).
Proof. intros signed ds Hne. destruct ds as [|c r]; [congruence|]. destruct signed; reflexivity. Qed.

Theorem coerce_int_value : forall f z, int_spelling f z -> (- 2 ^ 63 <= z < 2 ^ 64)%Z ->
  coerce_field f = json_int z.
Proof.
  intros f z H Hr. destruct H as [s neg ds Hs Hd Hne].
  apply all_digits_digits in Hd. rewrite <- dval_dec_value in Hr |- *.
  assert (Hf : forall A (x y : A), match s ++ ds with [] => x | _ :: _ => y end = y).
  { intros A x y. destruct s; [destruct ds; [congruence | reflexivity] | reflexivity]. }
  unfold coerce_field. rewrite Hf. destruct Hs; cbn [app].
  - unfold parse_u64. rewrite (int_split_unsigned false ds Hd Hne). rewrite Hd.
    assert (E : (dval ds <? 2 ^ 64) = true) by lia. rewrite E. unfold json_int.
    assert (E2 : (Z.of_N (dval ds) <? 0)%Z = false) by lia. rewrite E2. rewrite N2Z.id. reflexivity.
  - unfold parse_u64. rewrite (int_split_plus false ds Hne). rewrite Hd.
    assert (E : (dval ds <? 2 ^ 64) = true) by lia. rewrite E. unfold json_int.
    assert (E2 : (Z.of_N (dval ds) <? 0)%Z = false) by lia. rewrite E2. rewrite N2Z.id. reflexivity.
  - unfold parse_u64, parse_i64. rewrite !(int_split_minus _ ds Hne).
    assert (Hm : all_digits (45 :: ds) = false) by reflexivity. rewrite Hm. rewrite Hd.
    assert (E : (dval ds <=? 2 ^ 63) = true) by lia. rewrite E. reflexivity.
Qed.

(* ---------- floats: the grammar ---------- *)
Lemma parse_scientific_sound : forall s ev rest, parse_scientific s = Some (ev, rest) ->
  exists sg neg ds, s = sg ++ ds ++ rest /\ sign_of sg neg /\ digits ds /\ ds <> [] /\
    ev = signed_val neg ds /\ no_digit_head rest.
Proof.
  intros s ev rest H. unfold parse_scientific in H.
  destruct (strip_sign s) as [neg s1] eqn:E1.
  destruct (span_digits s1) as [ds r] eqn:E2.
  destruct (strip_sign_spec s neg s1 E1) as [sg [Hs Hsg]].
  destruct (span_digits_spec s1 ds r E2) as [H1 [H2 H3]].
  destruct ds as [|d ds]; [discriminate|]. inversion H. subst.
  exists sg, neg, (d :: ds).
  split; [reflexivity|]. split; [exact Hsg|]. split; [apply all_digits_digits; exact H2|].
  split; [discriminate|]. split; [|exact H3].
  unfold signed_val. rewrite dval_dec_value. reflexivity.
Qed.

Lemma parse_scientific_complete : forall sg neg ds rest, sign_of sg neg -> all_digits ds = true ->
  ds <> [] -> no_digit_head rest ->
  parse_scientific (sg ++ ds ++ rest) = Some (signed_val neg ds, rest).
Proof.
  intros sg neg ds rest Hs Hd Hne Hr. unfold parse_scientific.
  rewrite (strip_sign_app sg neg (ds ++ rest) Hs (digits_no_sign_head ds rest Hd Hne)).
  rewrite (span_digits_app ds rest Hd Hr). destruct ds as [|d ds]; [congruence|].
  unfold signed_val. rewrite dval_dec_value. reflexivity.
Qed.

Lemma is_e_spec : forall c, is_e c = true <-> (c = 101 \/ c = 69).
Proof. intros c. unfold is_e. lia. Qed.

(* soundness of parse_number *)
Lemma parse_number_sound : forall s D e nd, parse_number s = Some (D, e, nd) ->
  exists ip fr fp ex ev,
    s = ip ++ fr ++ ex /\ digits ip /\ frac_of fr fp /\ ip ++ fp <> [] /\ exp_of ex ev /\
    D = dec_value (ip ++ fp) /\ e = (ev - Z.of_nat (length fp))%Z /\
    nd = length (ip ++ fp).
Proof.
  intros s D e nd H. unfold parse_number in H.
  destruct (parse_partial_number s) as [[[[D' e'] rest] nd']|] eqn:E; [|discriminate].
  destruct rest; [|discriminate]. inversion H. subst D' e' nd'. clear H.
  unfold parse_partial_number in E.
  destruct (span_digits s) as [ip s1] eqn:E1.
  destruct (span_digits_spec s ip s1 E1) as [Hs [Hip Hs1]].
  (* the fraction *)
  assert (Hfr : exists fr fp s2,
     s1 = fr ++ s2 /\ frac_of fr fp /\ all_digits fp = true /\
     (fr = [] -> match s2 with c :: _ => (c =? 46) = false | [] => True end) /\
     match s1 with
     | c :: r => if c =? 46 then span_digits r else ([], s1)
     | [] => ([], s1)
     end = (fp, s2)).
  { destruct s1 as [|c r].
    - exists [], [], []. repeat split; constructor.
    - destruct (c =? 46) eqn:Hc.
      + apply N.eqb_eq in Hc. subst c. destruct (span_digits r) as [fp s2] eqn:E2.
        destruct (span_digits_spec r fp s2 E2) as [Hr [Hfp _]]. subst r.
        exists (46 :: fp), fp, s2. repeat split; try assumption.
        * constructor. apply all_digits_digits. exact Hfp.
        * discriminate.
      + exists [], [], (c :: r). repeat split; try constructor. intros _. exact Hc. }
  destruct Hfr as [fr [fp [s2 [Hs1' [Hfrac [Hfp [_ Ematch]]]]]]].
  rewrite Ematch in E.
  destruct (length ip + length fp)%nat eqn:Hlen; [discriminate|].
  assert (Hne : ip ++ fp <> []).
  { intros Hnil. apply (f_equal (@length _)) in Hnil. rewrite app_length in Hnil. cbn in Hnil. lia. }
  assert (Hnd : S n = length (ip ++ fp)) by (rewrite app_length; lia).
  destruct s2 as [|c r].
  - inversion E. subst. exists ip, fr, fp, [], 0%Z. rewrite !app_nil_r.
    split; [reflexivity|]. split; [apply all_digits_digits; exact Hip|]. split; [exact Hfrac|].
    split; [exact Hne|]. split; [constructor|]. split; [rewrite dval_dec_value; reflexivity|].
    split; [lia | exact Hnd].
  - destruct (is_e c) eqn:Hc.
    + destruct (parse_scientific r) as [[ex r']|] eqn:Esc; [|discriminate].
      inversion E. subst. clear E.
      destruct (parse_scientific_sound r ex [] Esc) as [sg [neg [ds [Hr [Hsg [Hds [Hdne [Hev _]]]]]]]].
      rewrite app_nil_r in Hr. subst r.
      exists ip, fr, fp, (c :: sg ++ ds), ex.
      split; [reflexivity|]. split; [apply all_digits_digits; exact Hip|]. split; [exact Hfrac|].
      split; [exact Hne|].
      split; [subst ex; constructor; try assumption; apply is_e_spec; exact Hc|].
      split; [rewrite dval_dec_value; reflexivity|]. split; [lia | exact Hnd].
    + inversion E.
Qed.

(* completeness of parse_number *)
Lemma frac_exp_head : forall fr fp ex ev, frac_of fr fp -> exp_of ex ev -> no_digit_head (fr ++ ex).
Proof.
  intros fr fp ex ev Hf He. destruct Hf.
  - cbn [app]. destruct He; [exact I|]. cbn. destruct H as [H|H]; subst c; reflexivity.
  - reflexivity.
Qed.

Lemma exp_head : forall ex ev, exp_of ex ev -> no_digit_head ex.
Proof. intros ex ev He. destruct He; [exact I|]. cbn. destruct H as [H|H]; subst c; reflexivity. Qed.

Lemma parse_number_complete : forall ip fr fp ex ev,
  digits ip -> frac_of fr fp -> ip ++ fp <> [] -> exp_of ex ev ->
  parse_number (ip ++ fr ++ ex)
  = Some (dec_value (ip ++ fp), (ev - Z.of_nat (length fp))%Z, length (ip ++ fp)).
Proof.
  intros ip fr fp ex ev Hip Hfr Hne Hex. apply all_digits_digits in Hip.
  unfold parse_number, parse_partial_number.
  rewrite (span_digits_app ip (fr ++ ex) Hip (frac_exp_head fr fp ex ev Hfr Hex)).
  assert (Ematch : match fr ++ ex with
                   | c :: r => if c =? 46 then span_digits r else ([], fr ++ ex)
                   | [] => ([], fr ++ ex)
                   end = (fp, ex)).
  { destruct Hfr as [|fp Hfp].
    - cbn [app]. destruct Hex as [|c sg neg ds Hc Hsg Hds Hdne]; [reflexivity|].
      assert (E : (c =? 46) = false) by (destruct Hc; subst c; reflexivity). rewrite E. reflexivity.
    - cbn [app]. change (46 =? 46) with true. cbn iota.
      apply span_digits_app; [apply all_digits_digits; exact Hfp | exact (exp_head ex ev Hex)]. }
  rewrite Ematch.
  assert (Hlen : (length ip + length fp)%nat = length (ip ++ fp)) by (rewrite app_length; reflexivity).
  destruct (length ip + length fp)%nat eqn:Hl.
  { exfalso. apply Hne. destruct ip; [destruct fp; [reflexivity | discriminate Hl] | discriminate Hl]. }
  rewrite dval_dec_value.
  destruct Hex as [|c sg neg ds Hc Hsg Hds Hdne].
  - rewrite <- Hlen. reflexivity.
  - apply is_e_spec in Hc. rewrite Hc. apply all_digits_digits in Hds.
    pose proof (parse_scientific_complete sg neg ds [] Hsg Hds Hdne I) as Hps.
    rewrite app_nil_r in Hps. rewrite Hps. unfold signed_val. rewrite <- Hlen.
    assert (R : forall a b, (- a + b = b - a)%Z) by (intros; lia). rewrite R. reflexivity.
Qed.

(* digits, '.', 'e'/'E' are not letters of NAN / INF / INFINITY: a number never reaches parse_inf_nan,
   and soundness only needs the FDec case *)
Lemma parse_inf_nan_not_dec : forall s neg neg' D e nd, parse_inf_nan s neg <> Some (FDec neg' D e nd).
Proof.
  intros s neg neg' D e nd. unfold parse_inf_nan.
  destruct (eq_bytes (map upper s) str_NAN); [discriminate|].
  destruct (eq_bytes (map upper s) str_INF || eq_bytes (map upper s) str_INFINITY); discriminate.
Qed.

Lemma parse_f64_sound : forall f neg D e nd, parse_f64 f = Some (FDec neg D e nd) ->
  spells f neg D e /\ (Z.of_N D < 10 ^ Z.of_nat nd)%Z.
Proof.
  intros f neg D e nd H. unfold parse_f64 in H. destruct f as [|c0 f0]; [discriminate|].
  destruct (strip_sign (c0 :: f0)) as [neg' r] eqn:Es.
  destruct (strip_sign_spec _ _ _ Es) as [sg [Hf Hsg]].
  destruct r as [|c r]; [discriminate|].
  destruct (parse_number (c :: r)) as [[[D' e'] nd']|] eqn:En.
  - inversion H. subst neg' D' e' nd'. clear H.
    destruct (parse_number_sound _ _ _ _ En) as [ip [fr [fp [ex [ev [Hs [Hip [Hfr [Hne [Hex [HD [He Hnd]]]]]]]]]]]].
    rewrite Hf, Hs. subst D e nd. split.
    + exact (Spells sg neg ip fr fp ex ev Hsg Hip Hfr Hne Hex).
    + rewrite <- dval_dec_value. apply dval_bound. rewrite all_digits_app.
      apply andb_true_iff. split; [apply all_digits_digits; exact Hip|].
      destruct Hfr; [reflexivity | apply all_digits_digits; assumption].
  - exfalso. exact (parse_inf_nan_not_dec _ _ _ _ _ _ H).
Qed.

Lemma number_body_head : forall ip fr fp ex ev,
  digits ip -> frac_of fr fp -> ip ++ fp <> [] -> exp_of ex ev ->
  exists c r, ip ++ fr ++ ex = c :: r /\ is_minus c = false /\ is_plus c = false.
Proof.
  intros ip fr fp ex ev Hip Hfr Hne Hex. apply all_digits_digits in Hip.
  destruct ip as [|c ip].
  - destruct Hfr as [|fp Hfp]; [cbn in Hne; congruence|].
    exists 46, (fp ++ ex). repeat split.
  - cbn [all_digits forallb] in Hip. apply andb_true_iff in Hip. destruct Hip as [Hc _].
    exists c, (ip ++ fr ++ ex). split; [reflexivity|]. apply digit_no_sign. exact Hc.
Qed.

Lemma parse_f64_complete : forall f neg D e, spells f neg D e ->
  exists nd, parse_f64 f = Some (FDec neg D e nd) /\ (Z.of_N D < 10 ^ Z.of_nat nd)%Z.
Proof.
  intros f neg D e H. destruct H as [sg neg ip fr fp ex ev Hsg Hip Hfr Hne Hex].
  exists (length (ip ++ fp)).
  destruct (number_body_head ip fr fp ex ev Hip Hfr Hne Hex) as [c [r [Hb [Hm Hp]]]].
  split.
  - unfold parse_f64.
    assert (Hnn : forall A (x y : A), match sg ++ ip ++ fr ++ ex with [] => x | _ :: _ => y end = y).
    { intros A x y. rewrite Hb. destruct sg; reflexivity. }
    rewrite Hnn. rewrite (strip_sign_app sg neg (ip ++ fr ++ ex) Hsg) by (rewrite Hb; split; assumption).
    assert (Hnn2 : forall A (x y : A), match ip ++ fr ++ ex with [] => x | _ :: _ => y end = y).
    { intros A x y. rewrite Hb. reflexivity. }
    rewrite Hnn2.
    rewrite (parse_number_complete ip fr fp ex ev Hip Hfr Hne Hex). reflexivity.
  - rewrite <- dval_dec_value. apply dval_bound. rewrite all_digits_app.
    apply andb_true_iff. split; [apply all_digits_digits; exact Hip|].
    destruct Hfr; [reflexivity | apply all_digits_digits; assumption].
Qed.

(* ---------- floats: finiteness ---------- *)
Lemma T64_eq : f64_threshold = T64. Proof. reflexivity. Qed.
Lemma T64_pos : (0 < T64)%Z. Proof. vm_compute. reflexivity. Qed.
Lemma T64_gt_308 : (10 ^ 308 < T64)%Z. Proof. vm_compute. reflexivity. Qed.
Lemma T64_lt_309 : (T64 < 10 ^ 309)%Z. Proof. vm_compute. reflexivity. Qed.
Lemma T64_gt_u64 : (2 ^ 64 < T64)%Z. Proof. vm_compute. reflexivity. Qed.

Lemma f64_finiteb_spec : forall nd D e, (Z.of_N D < 10 ^ Z.of_nat nd)%Z ->
  (f64_finiteb nd D e = true <-> dec_finite D e).
Proof.
  intros nd D e HD. unfold f64_finiteb, dec_finite. rewrite T64_eq.
  pose proof T64_pos as Tp. pose proof T64_gt_308 as T308. pose proof T64_lt_309 as T309.
  set (T := T64) in *. set (n := Z.of_nat nd) in *. set (d := Z.of_N D) in *.
  assert (Hn : (0 <= n)%Z) by (unfold n; lia). assert (Hd : (0 <= d)%Z) by (unfold d; lia).
  destruct (D =? 0) eqn:ED.
  { assert (d = 0)%Z by (unfold d; lia). split; [intros _|reflexivity].
    destruct (0 <=? e)%Z eqn:Ee.
    - rewrite H. lia.
    - rewrite H. apply Z.mul_pos_pos; [exact Tp | apply Z.pow_pos_nonneg; lia]. }
  assert (Hd1 : (1 <= d)%Z) by (unfold d; lia).
  destruct (309 <=? e)%Z eqn:E309.
  { split; [discriminate|]. intros Hfin. exfalso.
    assert (Ee : (0 <=? e)%Z = true) by lia. rewrite Ee in Hfin.
    assert (Hp : (10 ^ 309 <= 10 ^ e)%Z) by (apply Z.pow_le_mono_r; lia).
    assert (Hm : (1 * 10 ^ e <= d * 10 ^ e)%Z) by (apply Z.mul_le_mono_nonneg_r; [apply Z.pow_nonneg|]; lia).
    lia. }
  destruct (e + n <=? 308)%Z eqn:E308.
  { split; [intros _|reflexivity].
    destruct (0 <=? e)%Z eqn:Ee.
    - assert (Hp : (10 ^ n * 10 ^ e <= 10 ^ 308)%Z).
      { rewrite <- Z.pow_add_r by lia. apply Z.pow_le_mono_r; lia. }
      assert (Hm : (d * 10 ^ e < 10 ^ n * 10 ^ e)%Z).
      { apply Z.mul_lt_mono_pos_r; [apply Z.pow_pos_nonneg; lia | exact HD]. }
      lia.
    - set (k := (- e)%Z). assert (Hk : (0 < k)%Z) by (unfold k; lia).
      assert (Pk : (0 < 10 ^ k)%Z) by (apply Z.pow_pos_nonneg; lia).
      destruct (Z_le_gt_dec n k) as [Hnk|Hnk].
      + assert (Hp : (10 ^ n <= 10 ^ k)%Z) by (apply Z.pow_le_mono_r; lia).
        assert (Hm : (1 * 10 ^ k <= T * 10 ^ k)%Z) by (apply Z.mul_le_mono_nonneg_r; lia).
        lia.
      + assert (Hsplit : (10 ^ n = 10 ^ (n - k) * 10 ^ k)%Z).
        { rewrite <- Z.pow_add_r by lia. f_equal. lia. }
        assert (Hp : (10 ^ (n - k) <= 10 ^ 308)%Z) by (apply Z.pow_le_mono_r; unfold k; lia).
        assert (Hm : (10 ^ (n - k) * 10 ^ k < T * 10 ^ k)%Z).
        { apply Z.mul_lt_mono_pos_r; [exact Pk | lia]. }
        lia. }
  destruct (0 <=? e)%Z; [apply Z.ltb_lt | apply Z.ltb_lt].
Qed.

(* ---------- the coercion theorems ---------- *)
Definition is_number (j : json) : bool :=
  match j with JU _ | JI _ | JF _ _ _ => true | _ => false end.

Lemma int_spelling_spells : forall f z, int_spelling f z ->
  exists neg, spells f neg (Z.abs_N z) 0.
Proof.
  intros f z H. destruct H as [s neg ds Hs Hd Hne]. exists neg.
  pose proof (Spells s neg ds [] [] [] 0%Z Hs Hd frac_none) as Sp.
  rewrite !app_nil_r in Sp. cbn [length] in Sp. change (0 - Z.of_nat 0)%Z with 0%Z in Sp.
  assert (E : Z.abs_N (if neg then - Z.of_N (dec_value ds) else Z.of_N (dec_value ds))%Z = dec_value ds).
  { destruct neg; lia. }
  rewrite E. apply Sp; [exact Hne | constructor].
Qed.

Lemma small_finite : forall n, (Z.of_N n <= 2 ^ 64)%Z -> dec_finite n 0.
Proof.
  intros n H. unfold dec_finite. change (0 <=? 0)%Z with true. cbn iota.
  rewrite Z.pow_0_r. pose proof T64_gt_u64. lia.
Qed.

Theorem coerce_number_iff : forall f,
  is_number (coerce_field f) = true <-> exists neg D e, spells f neg D e /\ dec_finite D e.
Proof.
  intros f. split.
  - intros H. unfold coerce_field in H. destruct f as [|c0 f0]; [discriminate|].
    destruct (parse_u64 (c0 :: f0)) as [n|] eqn:Eu.
    { destruct (parse_u64_sound _ _ Eu) as [Hi Hn].
      destruct (int_spelling_spells _ _ Hi) as [neg Sp]. rewrite Zabs2N.id in Sp.
      exists neg, n, 0%Z. split; [exact Sp | apply small_finite; lia]. }
    destruct (parse_i64 (c0 :: f0)) as [z|] eqn:Ei.
    { destruct (parse_i64_sound _ _ Ei) as [Hi Hz].
      destruct (int_spelling_spells _ _ Hi) as [neg Sp].
      exists neg, (Z.abs_N z), 0%Z. split; [exact Sp | apply small_finite; lia]. }
    destruct (parse_f64 (c0 :: f0)) as [[neg D e nd| |]|] eqn:Ef; try discriminate.
    destruct (f64_finiteb nd D e) eqn:Efin; [|discriminate].
    destruct (parse_f64_sound _ _ _ _ _ Ef) as [Sp HD].
    exists neg, D, e. split; [exact Sp | apply (f64_finiteb_spec nd D e HD); exact Efin].
  - intros [neg [D [e [Sp Hfin]]]].
    destruct (parse_f64_complete f neg D e Sp) as [nd [Ef HD]].
    unfold coerce_field. destruct f as [|c0 f0]; [discriminate Ef|].
    destruct (parse_u64 (c0 :: f0)); [reflexivity|].
    destruct (parse_i64 (c0 :: f0)) as [z|].
    { unfold json_of_i64. destruct (z <? 0)%Z; reflexivity. }
    rewrite Ef. rewrite (proj2 (f64_finiteb_spec nd D e HD) Hfin). reflexivity.
Qed.

Theorem coerce_text_otherwise : forall f, is_number (coerce_field f) = false -> coerce_field f = JStr f.
Proof.
  intros f H. unfold coerce_field in *. destruct f as [|c0 f0]; [reflexivity|].
  destruct (parse_u64 (c0 :: f0)); [discriminate|].
  destruct (parse_i64 (c0 :: f0)) as [z|].
  { unfold json_of_i64 in H. destruct (z <? 0)%Z; discriminate. }
  destruct (parse_f64 (c0 :: f0)) as [[neg D e nd| |]|]; try reflexivity.
  destruct (f64_finiteb nd D e); [discriminate | reflexivity].
Qed.

Theorem coerce_int_sound : forall f,
  (forall n, coerce_field f = JU n -> int_spelling f (Z.of_N n) /\ n < 2 ^ 64) /\
  (forall z, coerce_field f = JI z -> int_spelling f z /\ (- 2 ^ 63 <= z < 0)%Z).
Proof.
  intros f. unfold coerce_field. destruct f as [|c0 f0]; [split; intros ? H; discriminate|].
  destruct (parse_u64 (c0 :: f0)) as [n|] eqn:Eu.
  { split; intros x H; [|discriminate]. inversion H. subst. exact (parse_u64_sound _ _ Eu). }
  destruct (parse_i64 (c0 :: f0)) as [z|] eqn:Ei.
  { destruct (parse_i64_sound _ _ Ei) as [Hi Hz]. unfold json_of_i64.
    destruct (z <? 0)%Z eqn:Ez; split; intros x H; try discriminate; inversion H; subst.
    - split; [exact Hi | lia].
    - rewrite Z2N.id by lia. split; [exact Hi | lia]. }
  split; intros x H; destruct (parse_f64 (c0 :: f0)) as [[neg D e nd| |]|]; try discriminate;
    destruct (f64_finiteb nd D e); discriminate.
Qed.

Theorem coerce_float_sound : forall f neg D e, coerce_field f = JF neg D e ->
  spells f neg D e /\ dec_finite D e /\
  ~ (exists z, int_spelling f z /\ (- 2 ^ 63 <= z < 2 ^ 64)%Z).
Proof.
  intros f neg D e H. split; [|split].
  - unfold coerce_field in H. destruct f as [|c0 f0]; [discriminate|].
    destruct (parse_u64 (c0 :: f0)); [discriminate|].
    destruct (parse_i64 (c0 :: f0)) as [z|]; [unfold json_of_i64 in H; destruct (z <? 0)%Z; discriminate|].
    destruct (parse_f64 (c0 :: f0)) as [[neg' D' e' nd| |]|] eqn:Ef; try discriminate.
    destruct (f64_finiteb nd D' e'); [|discriminate]. inversion H. subst.
    exact (proj1 (parse_f64_sound _ _ _ _ _ Ef)).
  - unfold coerce_field in H. destruct f as [|c0 f0]; [discriminate|].
    destruct (parse_u64 (c0 :: f0)); [discriminate|].
    destruct (parse_i64 (c0 :: f0)) as [z|]; [unfold json_of_i64 in H; destruct (z <? 0)%Z; discriminate|].
    destruct (parse_f64 (c0 :: f0)) as [[neg' D' e' nd| |]|] eqn:Ef; try discriminate.
    destruct (f64_finiteb nd D' e') eqn:Efin; [|discriminate]. inversion H. subst.
    apply (f64_finiteb_spec nd D e (proj2 (parse_f64_sound _ _ _ _ _ Ef))). exact Efin.
  - intros [z [Hi Hz]]. rewrite (coerce_int_value f z Hi Hz) in H. unfold json_int in H.
    destruct (z <? 0)%Z; discriminate.
Qed.

(* the alphabet of number spellings: any other byte keeps the field textual *)
Definition num_char (b : N) : bool :=
  digitb b || (b =? 43) || (b =? 45) || (b =? 46) || (b =? 101) || (b =? 69).

Lemma digits_num_chars : forall ds, digits ds -> forallb num_char ds = true.
Proof.
  intros ds H. unfold digits in H. induction ds as [|d r IH]; [reflexivity|].
  cbn [forallb] in *. apply andb_true_iff in H. destruct H as [Hd Hr].
  rewrite (IH Hr). unfold num_char. rewrite Hd. reflexivity.
Qed.

Lemma sign_num_chars : forall s neg, sign_of s neg -> forallb num_char s = true.
Proof. intros s neg H. destruct H; reflexivity. Qed.

Lemma spells_alphabet : forall f neg D e, spells f neg D e -> forallb num_char f = true.
Proof.
  intros f neg D e H. destruct H as [sg neg ip fr fp ex ev Hsg Hip Hfr Hne Hex].
  rewrite !forallb_app. rewrite (sign_num_chars _ _ Hsg), (digits_num_chars _ Hip). cbn [andb].
  apply andb_true_iff. split.
  - destruct Hfr; [reflexivity|]. cbn [forallb]. rewrite (digits_num_chars _ H). reflexivity.
  - destruct Hex as [|c s neg' ds Hc Hs Hds Hdne]; [reflexivity|]. cbn [forallb]. rewrite forallb_app.
    rewrite (sign_num_chars _ _ Hs), (digits_num_chars _ Hds).
    destruct Hc; subst c; reflexivity.
Qed.

Theorem coerce_foreign_char_text : forall f, forallb num_char f = false -> coerce_field f = JStr f.
Proof.
  intros f H. apply coerce_text_otherwise. destruct (is_number (coerce_field f)) eqn:E; [|reflexivity].
  apply coerce_number_iff in E. destruct E as [neg [D [e [Sp _]]]].
  rewrite (spells_alphabet _ _ _ _ Sp) in H. discriminate.
Qed.

(* decidability of the grammar through the model (used for the negative Examples) *)
Definition number_spellingb (f : list N) : bool :=
  match parse_f64 f with Some (FDec _ _ _ _) => true | _ => false end.

Theorem number_spelling_dec : forall f, number_spelling f <-> number_spellingb f = true.
Proof.
  intros f. unfold number_spelling, number_spellingb. split.
  - intros [neg [D [e Sp]]]. destruct (parse_f64_complete f neg D e Sp) as [nd [E _]]. rewrite E. reflexivity.
  - intros H. destruct (parse_f64 f) as [[neg D e nd| |]|] eqn:E; try discriminate.
    exists neg, D, e. exact (proj1 (parse_f64_sound _ _ _ _ _ E)).
Qed.

(* ---------- the mapping ---------- *)
Definition coerce_row (r : record) : json := JArr (map coerce_field r).
Definition text_row (r : record) : json := JArr (map JStr r).

Lemma map_rows_later : forall hdr rows idx, idx <> 0 -> map_rows hdr idx rows = map coerce_row rows.
Proof.
  intros hdr rows. induction rows as [|r rs IH]; intros idx H; [reflexivity|].
  cbn [map_rows map]. assert (E : (idx =? 0) = false) by lia. rewrite E, andb_false_r.
  rewrite IH by lia. reflexivity.
Qed.

Theorem header_textual : forall r rs,
  map_csv true (r :: rs) = JArr (text_row r :: map coerce_row rs).
Proof. intros r rs. unfold map_csv. cbn [map_rows]. rewrite map_rows_later by lia. reflexivity. Qed.

Theorem no_header_all_coerced : forall rows, map_csv false rows = JArr (map coerce_row rows).
Proof.
  intros rows. unfold map_csv. destruct rows as [|r rs]; [reflexivity|].
  cbn [map_rows map]. rewrite map_rows_later by lia. reflexivity.
Qed.

Definition scalar (j : json) : bool := match j with JArr _ => false | _ => true end.

Lemma coerce_scalar : forall f, scalar (coerce_field f) = true.
Proof.
  intros f. unfold coerce_field. destruct f as [|c0 f0]; [reflexivity|].
  destruct (parse_u64 (c0 :: f0)); [reflexivity|].
  destruct (parse_i64 (c0 :: f0)) as [z|]; [unfold json_of_i64; destruct (z <? 0)%Z; reflexivity|].
  destruct (parse_f64 (c0 :: f0)) as [[neg D e nd| |]|]; try reflexivity.
  destruct (f64_finiteb nd D e); reflexivity.
Qed.

(* the mapped document is an array with one array per record, holding one scalar per field *)
Theorem map_csv_shape : forall hdr rows, exists l : list (list json),
  map_csv hdr rows = JArr (map JArr l) /\ map (@length _) l = map (@length _) rows /\
  forallb (forallb scalar) l = true.
Proof.
  intros hdr rows.
  assert (Hrow : forall r, forallb scalar (map coerce_field r) = true).
  { induction r as [|f r IH]; [reflexivity|]. cbn [map forallb]. rewrite coerce_scalar, IH. reflexivity. }
  assert (Htxt : forall r, forallb scalar (map JStr r) = true).
  { induction r as [|f r IH]; [reflexivity|]. cbn [map forallb]. exact IH. }
  assert (Hall : forall rs, exists l, map coerce_row rs = map JArr l /\
            map (@length _) l = map (@length _) rs /\ forallb (forallb scalar) l = true).
  { induction rs as [|r rs [l [H1 [H2 H3]]]].
    - exists []. repeat split.
    - exists (map coerce_field r :: l). cbn [map forallb]. rewrite H1, H2, H3, Hrow, map_length. repeat split. }
  destruct hdr.
  - destruct rows as [|r rs].
    + exists []. repeat split.
    + destruct (Hall rs) as [l [H1 [H2 H3]]]. exists (map JStr r :: l).
      rewrite header_textual. unfold text_row. cbn [map forallb]. rewrite H1, H2, H3, Htxt, map_length. repeat split.
  - rewrite no_header_all_coerced. destruct (Hall rows) as [l [H1 [H2 H3]]]. exists l. rewrite H1. repeat split; assumption.
Qed.

(* ---------- validation: the delegation ---------- *)
Theorem csv_is_json_of_map :
  forall (schema options : Type) (validate_json : schema -> options -> json -> bool)
         (sc : schema) (opts : options) (text : list N) (hdr : bool),
  exists rows, read_csv text = Some rows /\
    validate_csv schema options validate_json sc opts text hdr = validate_json sc opts (map_csv hdr rows).
Proof.
  intros schema options vj sc opts text hdr.
  destruct (read_csv text) as [rows|] eqn:E; [|exfalso; exact (read_csv_total text E)].
  exists rows. split; [reflexivity|]. unfold validate_csv, parse_csv_to_json. rewrite E. reflexivity.
Qed.
