(* Proofs about the record reader model: it never runs out of fuel, and it reads back what
   the RFC 4180 writer of Csv/Spec.v wrote. *)
From Cddl Require Import Base.Bytes Csv.Reader Csv.Spec.
Open Scope N_scope.
Local Arguments N.eqb : simpl never.

Ltac step_red E34 E44 E13 E10 :=
  unfold dfa_step;
  repeat (progress (cbn; unfold term_equals, cfg_quote, cfg_delimiter; rewrite ?E34, ?E44, ?E13, ?E10)).

(* ---------- totality ---------- *)
Lemma dfa_step_total : forall st c, dfa_step st c <> None.
Proof.
  intros st c.
  destruct (34 =? c) eqn:E34; destruct (44 =? c) eqn:E44;
  destruct (c =? 13) eqn:E13; destruct (c =? 10) eqn:E10.
  all: destruct st; step_red E34 E44 E13 E10; discriminate.
Qed.

Lemma run_total : forall bs st cur rec recs, run st cur rec recs bs <> None.
Proof.
  induction bs as [|c r IH]; intros st cur rec recs; cbn [run].
  - destruct (final_emits st); discriminate.
  - destruct (dfa_step st c) as [[st' out]|] eqn:E.
    + destruct (record_final st'); [apply IH|]. destruct (field_final st'); apply IH.
    + exfalso. exact (dfa_step_total st c E).
Qed.

Theorem read_csv_total : forall bs, read_csv bs <> None.
Proof. intros bs. unfold read_csv. apply run_total. Qed.

(* ---------- single steps ---------- *)
Definition starts (s : nfa) : bool :=
  match s with StartRecord | EndRecord | EndFieldDelim => true | _ => false end.
Definition closes (s : nfa) : bool :=
  match s with InField | InDoubleEscapedQuote | EndFieldDelim => true | _ => false end.
Definition record_start (s : nfa) : bool :=
  match s with StartRecord | EndRecord => true | _ => false end.

Lemma special_false : forall b, is_special b = false ->
  (34 =? b) = false /\ (44 =? b) = false /\ (b =? 13) = false /\ (b =? 10) = false.
Proof.
  intros b H. unfold is_special in H.
  apply orb_false_iff in H. destruct H as [H H10].
  apply orb_false_iff in H. destruct H as [H H13].
  apply orb_false_iff in H. destruct H as [H34 H44].
  rewrite (N.eqb_sym 34 b), (N.eqb_sym 44 b). auto.
Qed.

Lemma step_plain_start : forall s b, is_special b = false -> (starts s || closes s) = true ->
  dfa_step s b = Some (InField, true).
Proof.
  intros s b Hb Hs. destruct (special_false b Hb) as [E34 [E44 [E13 E10]]].
  destruct s; try discriminate Hs; step_red E34 E44 E13 E10; reflexivity.
Qed.

Lemma step_quoted_other : forall b, (34 =? b) = false ->
  dfa_step InQuotedField b = Some (InQuotedField, true).
Proof. intros b E. unfold dfa_step. cbn. unfold cfg_quote. rewrite E. reflexivity. Qed.

Lemma step_quote : forall s, starts s = true -> dfa_step s 34 = Some (InQuotedField, false).
Proof. intros s Hs. destruct s; try discriminate Hs; reflexivity. Qed.

Lemma step_comma : forall s, (starts s || closes s) = true ->
  dfa_step s 44 = Some (EndFieldDelim, false).
Proof. intros s Hs. destruct s; try discriminate Hs; reflexivity. Qed.

Lemma step_lf : forall s, closes s = true -> dfa_step s 10 = Some (EndRecord, false).
Proof. intros s Hs. destruct s; try discriminate Hs; reflexivity. Qed.

Lemma step_cr : forall s, closes s = true -> dfa_step s 13 = Some (CRLF, false).
Proof. intros s Hs. destruct s; try discriminate Hs; reflexivity. Qed.

(* ---------- fields ---------- *)
Lemma run_plain : forall f cur rec recs rest, needs_quote f = false ->
  run InField cur rec recs (f ++ rest) = run InField (rev f ++ cur) rec recs rest.
Proof.
  induction f as [|b f IH]; intros cur rec recs rest H; [reflexivity|].
  cbn [needs_quote existsb] in H. apply orb_false_iff in H. destruct H as [Hb Hf].
  cbn [app run]. rewrite (step_plain_start InField b Hb eq_refl). cbn [record_final field_final].
  rewrite IH by exact Hf. cbn [rev]. rewrite <- app_assoc. reflexivity.
Qed.

Lemma run_escaped : forall f cur rec recs rest,
  run InQuotedField cur rec recs (escape f ++ 34 :: rest)
  = run InDoubleEscapedQuote (rev f ++ cur) rec recs rest.
Proof.
  induction f as [|b f IH]; intros cur rec recs rest.
  - cbn [escape flat_map app run rev]. reflexivity.
  - unfold escape in *. cbn [flat_map]. unfold esc_byte at 1.
    destruct (b =? 34) eqn:E.
    + apply N.eqb_eq in E. subst b. cbn [app run].
      change (dfa_step InQuotedField 34) with (Some (InDoubleEscapedQuote, false)).
      cbn [record_final field_final run].
      change (dfa_step InDoubleEscapedQuote 34) with (Some (InQuotedField, true)).
      cbn [record_final field_final]. rewrite IH. cbn [rev]. rewrite <- app_assoc. reflexivity.
    + cbn [app run]. rewrite step_quoted_other by (rewrite N.eqb_sym; exact E).
      cbn [record_final field_final]. rewrite IH. cbn [rev]. rewrite <- app_assoc. reflexivity.
Qed.

Definition st_after (st : style) (s0 : nfa) (f : list N) : nfa :=
  if quote_all st || needs_quote f then InDoubleEscapedQuote
  else match f with [] => s0 | _ => InField end.

Lemma run_field : forall st s0 f rec recs rest, starts s0 = true ->
  run s0 [] rec recs (write_field st f ++ rest) = run (st_after st s0 f) (rev f) rec recs rest.
Proof.
  intros st s0 f rec recs rest Hs. unfold write_field, st_after.
  destruct (quote_all st || needs_quote f) eqn:Q.
  - cbn [app run]. rewrite (step_quote s0 Hs). cbn [record_final field_final].
    rewrite <- app_assoc. cbn [app]. rewrite run_escaped. rewrite app_nil_r. reflexivity.
  - apply orb_false_iff in Q. destruct Q as [_ Q]. destruct f as [|b f]; [reflexivity|].
    cbn [needs_quote existsb] in Q. apply orb_false_iff in Q. destruct Q as [Hb Hf].
    cbn [app run]. rewrite (step_plain_start s0 b Hb) by (rewrite Hs; reflexivity).
    cbn [record_final field_final]. rewrite run_plain by exact Hf. reflexivity.
Qed.

Lemma st_after_ok : forall st s0 f, starts s0 = true ->
  (starts (st_after st s0 f) || closes (st_after st s0 f)) = true.
Proof.
  intros st s0 f Hs. unfold st_after. destruct (quote_all st || needs_quote f); [reflexivity|].
  destruct f; [rewrite Hs; reflexivity | reflexivity].
Qed.

Lemma run_comma : forall s cur rec recs rest, (starts s || closes s) = true ->
  run s cur rec recs (44 :: rest) = run EndFieldDelim [] (rev cur :: rec) recs rest.
Proof. intros s cur rec recs rest Hs. cbn [run]. rewrite (step_comma s Hs). reflexivity. Qed.

(* ---------- records ---------- *)
Lemma run_record : forall st fs s0 rec recs, fs <> [] -> starts s0 = true ->
  (record_start s0 = true -> lone_empty st fs = false) ->
  exists s cur rec', closes s = true /\ rev (rev cur :: rec') = rev rec ++ fs /\
    forall rest, run s0 [] rec recs (write_record st fs ++ rest) = run s cur rec' recs rest.
Proof.
  intros st fs. induction fs as [|f fs IH]; intros s0 rec recs Hne Hs Hlone; [congruence|].
  destruct fs as [|g fs].
  - exists (st_after st s0 f), (rev f), rec. split; [|split].
    + unfold st_after. destruct (quote_all st || needs_quote f) eqn:Q; [reflexivity|].
      destruct f; [|reflexivity].
      destruct s0; try discriminate Hs; try reflexivity;
        (specialize (Hlone eq_refl); cbn in Hlone; apply orb_false_iff in Q; destruct Q as [Q _];
         rewrite Q in Hlone; discriminate Hlone).
    + cbn [rev]. rewrite rev_involutive. reflexivity.
    + intros rest. cbn [write_record]. apply run_field. exact Hs.
  - destruct (IH EndFieldDelim (f :: rec) recs) as [s [cur [rec' [Hc [Hr Hrun]]]]];
      [discriminate | reflexivity | discriminate |].
    exists s, cur, rec'. split; [exact Hc|]. split.
    + rewrite Hr. cbn [rev]. rewrite <- app_assoc. reflexivity.
    + intros rest. change (write_record st (f :: g :: fs))
        with (write_field st f ++ 44 :: write_record st (g :: fs)).
      rewrite <- app_assoc. rewrite run_field by exact Hs. cbn [app].
      rewrite run_comma by (apply st_after_ok; exact Hs). rewrite rev_involutive. apply Hrun.
Qed.

(* ---------- files ---------- *)
Lemma run_break : forall st s cur rec recs rest, closes s = true ->
  exists s', record_start s' = true /\
    run s cur rec recs (line_break st ++ rest) = run s' [] [] (rev (rev cur :: rec) :: recs) rest.
Proof.
  intros st s cur rec recs rest Hc. unfold line_break. destruct (crlf st).
  - exists StartRecord. split; [reflexivity|]. cbn [app run]. rewrite (step_cr s Hc).
    cbn [record_final run]. change (dfa_step CRLF 10) with (Some (StartRecord, false)). reflexivity.
  - exists EndRecord. split; [reflexivity|]. cbn [app run]. rewrite (step_lf s Hc). reflexivity.
Qed.

Lemma run_end_closes : forall s cur rec recs, closes s = true ->
  run s cur rec recs [] = Some (rev (rev (rev cur :: rec) :: recs)).
Proof. intros s cur rec recs Hc. destruct s; try discriminate Hc; reflexivity. Qed.

Lemma run_end_start : forall s recs, record_start s = true -> run s [] [] recs [] = Some (rev recs).
Proof. intros s recs Hs. destruct s; try discriminate Hs; reflexivity. Qed.

Lemma record_start_starts : forall s, record_start s = true -> starts s = true.
Proof. intros s H. destruct s; try discriminate H; reflexivity. Qed.

Lemma run_rows : forall st rows s0 recs, record_start s0 = true ->
  nonempty_records rows = true -> forallb (fun r => negb (lone_empty st r)) rows = true ->
  run s0 [] [] recs (write_csv4180 st rows) = Some (rev recs ++ rows).
Proof.
  intros st rows. induction rows as [|r rows IH]; intros s0 recs Hs Hne Hl.
  - cbn [write_csv4180]. rewrite run_end_start by exact Hs. rewrite app_nil_r. reflexivity.
  - cbn [nonempty_records forallb] in Hne, Hl.
    apply andb_true_iff in Hne. destruct Hne as [Hr Hne].
    apply andb_true_iff in Hl. destruct Hl as [Hlr Hl].
    assert (Hrne : r <> []) by (destruct r; [discriminate Hr | discriminate]).
    destruct (run_record st r s0 [] recs Hrne (record_start_starts s0 Hs))
      as [s [cur [rec' [Hc [Hrev Hrun]]]]].
    { intros _. apply negb_true_iff. exact Hlr. }
    change (rev [] ++ r) with r in Hrev.
    destruct rows as [|r2 rows].
    + cbn [write_csv4180]. destruct (final_break st).
      * rewrite Hrun. destruct (run_break st s cur rec' recs [] Hc) as [s' [Hs' Hb]].
        rewrite app_nil_r in Hb. rewrite Hb. rewrite run_end_start by exact Hs'. rewrite Hrev. reflexivity.
      * rewrite Hrun. rewrite run_end_closes by exact Hc. rewrite Hrev. reflexivity.
    + change (write_csv4180 st (r :: r2 :: rows))
        with (write_record st r ++ line_break st ++ write_csv4180 st (r2 :: rows)).
      rewrite Hrun. destruct (run_break st s cur rec' recs (write_csv4180 st (r2 :: rows)) Hc)
        as [s' [Hs' Hb]].
      rewrite Hb. rewrite Hrev. rewrite (IH s' (r :: recs) Hs' Hne Hl).
      cbn [rev]. rewrite <- app_assoc. reflexivity.
Qed.

Lemma strip_bom_id : forall bs, starts_with_bom bs = false -> strip_bom bs = bs.
Proof.
  intros bs H. unfold strip_bom, starts_with_bom in *.
  destruct bs as [|a [|b [|c r]]]; try reflexivity. rewrite H. reflexivity.
Qed.

(* the full statement  forall st rows, read_csv (write_csv4180 st rows) = Some rows  is false
   (csv_roundtrip_refuted); it holds under [rt_ok] *)
Theorem csv_roundtrip_partial : forall st rows, rt_ok st rows = true ->
  read_csv (write_csv4180 st rows) = Some rows.
Proof.
  intros st rows H. unfold rt_ok in H.
  apply andb_true_iff in H. destruct H as [H Hb].
  apply andb_true_iff in H. destruct H as [Hne Hl].
  apply negb_true_iff in Hb. unfold read_csv. rewrite strip_bom_id by exact Hb.
  apply (run_rows st rows StartRecord [] eq_refl Hne Hl).
Qed.

Definition style_min : style := {| crlf := true; final_break := true; quote_all := false |}.
Definition style_quoted : style := {| crlf := true; final_break := true; quote_all := true |}.

(* witnesses: a record of one empty field written as an empty line is dropped; a first field
   that begins with the bytes EF BB BF loses them *)
Theorem csv_roundtrip_refuted :
  (exists st rows, nonempty_records rows = true /\ read_csv (write_csv4180 st rows) <> Some rows)
  /\ read_csv (write_csv4180 style_min [[[]]]) = Some []
  /\ read_csv (write_csv4180 style_min [[[239; 187; 191; 97]]]) = Some [[[97]]].
Proof.
  split; [|split].
  - exists style_min, [[[]]]. split; [reflexivity|]. vm_compute. discriminate.
  - vm_compute. reflexivity.
  - vm_compute. reflexivity.
Qed.

(* the same record survives when it is written quoted *)
Lemma lone_empty_quoted_ok : read_csv (write_csv4180 style_quoted [[[]]]) = Some [[[]]].
Proof. vm_compute. reflexivity. Qed.
