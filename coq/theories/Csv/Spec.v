(* C13 specification side (auditable; does not mention the reader or the Rust parsers).

   1. RFC 4180 writer: rows -> text.
   2. [number_spelling]: the property's "decimal integer or decimal/exponent floating-point
      number", written out as an explicit regular grammar, with the decimal it denotes.
   3. [dec_finite]: the decimal has a finite binary64 value (round to nearest even).

   Bytes are N.  Character codes used below:
     34 DQUOTE   44 COMMA   13 CR   10 LF   43 '+'   45 '-'   46 '.'   48..57 '0'..'9'
     101 'e'     69 'E' *)
From Cddl Require Import Base.Bytes.
Open Scope N_scope.

(* ================= 1. RFC 4180 ================= *)
(* RFC 4180 section 2:
     file        = record *(CRLF record) [CRLF]            (header = a record like any other)
     record      = field *(COMMA field)
     field       = (escaped / non-escaped)
     escaped     = DQUOTE *(TEXTDATA / COMMA / CR / LF / 2DQUOTE) DQUOTE
     non-escaped = *TEXTDATA                                (no DQUOTE, COMMA, CR, LF)
   TEXTDATA is taken as "any byte other than DQUOTE, COMMA, CR, LF" (UTF-8 text, not only the
   printable ASCII of the RFC); the property allows LF as well as CRLF between records. *)

Definition is_special (b : N) : bool := (b =? 34) || (b =? 44) || (b =? 13) || (b =? 10).
Definition needs_quote (f : list N) : bool := existsb is_special f.

(* 2DQUOTE for every DQUOTE *)
Definition esc_byte (b : N) : list N := if b =? 34 then [34; 34] else [b].
Definition escape (f : list N) : list N := flat_map esc_byte f.

Record style := {
  crlf : bool;          (* line break CRLF (true) or LF (false) *)
  final_break : bool;   (* the optional line break after the last record *)
  quote_all : bool      (* quote every field (true) or only the fields that need it (false) *)
}.

Definition write_field (st : style) (f : list N) : list N :=
  if quote_all st || needs_quote f then 34 :: escape f ++ [34] else f.

Fixpoint write_record (st : style) (fs : list (list N)) : list N :=
  match fs with
  | [] => []
  | [f] => write_field st f
  | f :: r => write_field st f ++ 44 :: write_record st r
  end.

Definition line_break (st : style) : list N := if crlf st then [13; 10] else [10].

Fixpoint write_csv4180 (st : style) (rows : list (list (list N))) : list N :=
  match rows with
  | [] => []
  | [r] => write_record st r ++ (if final_break st then line_break st else [])
  | r :: rs => write_record st r ++ line_break st ++ write_csv4180 st rs
  end.

(* the data model: csv = [* record], record = [+ field] *)
Definition nonempty_records (rows : list (list (list N))) : bool :=
  forallb (fun r => match r with [] => false | _ => true end) rows.

(* Round-trip side conditions (boolean, on the rows and the style):
   - every record has at least one field (the data model);
   - a record consisting of one empty field is written quoted: RFC 4180's grammar reads an
     empty line as such a record, the reader under test drops empty lines;
   - the text does not begin with the UTF-8 signature EF BB BF, which the reader removes
     (it can only get there as the unquoted start of the first field). *)
Definition is_nil {A} (l : list A) : bool := match l with [] => true | _ => false end.
Definition lone_empty (st : style) (r : list (list N)) : bool :=
  match r with
  | [f] => is_nil f && negb (quote_all st)
  | _ => false
  end.
Definition starts_with_bom (bs : list N) : bool :=
  match bs with
  | a :: b :: c :: _ => (a =? 239) && (b =? 187) && (c =? 191)
  | _ => false
  end.
Definition rt_ok (st : style) (rows : list (list (list N))) : bool :=
  nonempty_records rows
  && forallb (fun r => negb (lone_empty st r)) rows
  && negb (starts_with_bom (write_csv4180 st rows)).

(* ================= 2. number spellings ================= *)
(* The grammar, as a regular expression over bytes:

     number   = [sign] ( digits [ "." [digits] ] / "." digits ) [ exp ]
     exp      = ("e" / "E") [sign] digits
     sign     = "+" / "-"
     digits   = 1*DIGIT

   A decimal integer is the case without "." and without exp.  Interpretive decisions (the
   property text says "decimal integer or decimal/exponent floating-point number" and is
   silent on these; they follow the code and each is an Example in Props/C13.v):
     a leading "+" is allowed (+3), leading zeros are allowed (007), the integer part or the
     fraction digits may be missing but not both (.5, 5., 1.e3), "-0" is the integer 0,
     exponent markers of either case with an optional sign (1e5, 1E+5).
   Not numbers: the empty field, "inf"/"infinity"/"nan" in any case, hexadecimal/binary/
   octal prefixes, digit separators, non-ASCII digits, blanks around a number, a lone sign,
   a lone ".", an exponent without digits. *)

Definition digitb (b : N) : bool := (48 <=? b) && (b <=? 57).
Definition digits (ds : list N) : Prop := forallb digitb ds = true.

(* positional value, most significant digit first *)
Definition dec_value (ds : list N) : N := fold_left (fun a d => 10 * a + (d - 48)) ds 0.

Inductive sign_of : list N -> bool -> Prop :=
| sign_none : sign_of [] false
| sign_plus : sign_of [43] false
| sign_minus : sign_of [45] true.

(* decimal integer: [sign] digits ; value *)
Inductive int_spelling : list N -> Z -> Prop :=
| IntSp s neg ds :
    sign_of s neg -> digits ds -> ds <> [] ->
    int_spelling (s ++ ds) (if neg then - Z.of_N (dec_value ds) else Z.of_N (dec_value ds))%Z.

(* optional fraction: "" or "." digits* ; the fraction digits *)
Inductive frac_of : list N -> list N -> Prop :=
| frac_none : frac_of [] []
| frac_dot fp : digits fp -> frac_of (46 :: fp) fp.

(* optional exponent: "" or ("e"/"E") [sign] digits ; its value *)
Inductive exp_of : list N -> Z -> Prop :=
| exp_none : exp_of [] 0%Z
| exp_some c s neg ds :
    (c = 101 \/ c = 69) -> sign_of s neg -> digits ds -> ds <> [] ->
    exp_of (c :: s ++ ds) (if neg then - Z.of_N (dec_value ds) else Z.of_N (dec_value ds))%Z.

(* [spells f neg D e]: f is a number spelling denoting (-1)^neg * D * 10^e *)
Inductive spells : list N -> bool -> N -> Z -> Prop :=
| Spells s neg ip fr fp ex e :
    sign_of s neg -> digits ip -> frac_of fr fp -> ip ++ fp <> [] -> exp_of ex e ->
    spells (s ++ ip ++ fr ++ ex) neg (dec_value (ip ++ fp)) (e - Z.of_nat (length fp))%Z.

Definition number_spelling (f : list N) : Prop := exists neg D e, spells f neg D e.

(* the grammar as text, printed into the evidence by the check *)
(* number = [sign] ( 1*DIGIT [ "." *DIGIT ] / "." 1*DIGIT ) [ ("e"/"E") [sign] 1*DIGIT ] ; sign = "+" / "-" *)

(* ================= 3. finite binary64 value ================= *)
(* Round-to-nearest-even maps a real x to a finite binary64 exactly when
   |x| < (2^54 - 1) * 2^970, the midpoint between the largest finite value
   (2^53 - 1) * 2^971 and 2^1024 (the midpoint itself rounds to the even neighbour, 2^1024,
   i.e. to infinity).  D * 10^e is compared with it as a rational. *)
Definition T64 : Z := ((2 ^ 54 - 1) * 2 ^ 970)%Z.
Definition dec_finite (D : N) (e : Z) : Prop :=
  if (0 <=? e)%Z then (Z.of_N D * 10 ^ e < T64)%Z else (Z.of_N D < T64 * 10 ^ (- e))%Z.
