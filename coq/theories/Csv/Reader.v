(* Faithful model of the CSV record reader that src/validator/csv_validator.rs:110-113 configures:

     csv::ReaderBuilder::new().has_headers(false).flexible(true).from_reader(text.as_bytes())
     for result in reader.records() { ... }

   i.e. csv 1.4.0 Reader::read_byte_record_impl driving csv-core 0.1.13 Reader::read_record
   (reader.rs).  csv-core is a DFA compiled from the NFA [transition_nfa] (reader.rs:980-1063)
   by following epsilon transitions until a byte is consumed (build_dfa, reader.rs:820-838);
   a field ends when the DFA enters a state >= EndFieldDelim, a record ends when it enters a
   state > EndFieldDelim (EndRecord, CRLF) (read_record_dfa, reader.rs:622-700), and at the end
   of the input [transition_final_dfa] (reader.rs:742-753) closes a pending record.
   A UTF-8 byte order mark at the very start is dropped (strip_utf8_bom, reader.rs:608-618).

   Configuration (csv-core defaults, none changed by the crate): delimiter ',', quote DQUOTE (byte 34),
   quoting on, double_quote on, no escape byte, no comment byte, terminator CRLF (= any of
   CR, LF, CRLF).  has_headers(false): the reader hands out the first record like any other;
   flexible(true): records may have different numbers of fields (no UnequalLengths error).
   records() converts each ByteRecord to a StringRecord; on a &str input that cannot fail
   (only ASCII bytes are removed or split at), so the reader never returns an error.

   Bytes are N (< 256).  No proofs in this file. *)
From Cddl Require Import Base.Bytes.
Open Scope N_scope.

(* ---------- csv-core reader.rs: NfaState, NfaInputAction ---------- *)
Inductive nfa :=
| StartRecord | StartField | InField | InQuotedField | InEscapedQuote | InDoubleEscapedQuote
| InComment | EndFieldDelim | EndRecord | CRLF           (* these ten are DFA states *)
| EndFieldTerm | InRecordTerm | End.                      (* reached by epsilon moves only *)

Inductive action := Epsilon | CopyToOutput | Discard.

(* ---------- the configuration (Reader::default(), reader.rs:171-190) ---------- *)
Definition cfg_quoting : bool := true.
Definition cfg_quote : N := 34.            (* the double quote character *)
Definition cfg_double_quote : bool := true.
Definition cfg_escape : option N := None.
Definition cfg_comment : option N := None.
Definition cfg_delimiter : N := 44.        (* ',' *)
(* Terminator::CRLF: equals(c) = (c == '\r' || c == '\n'), is_crlf() = true *)
Definition term_equals (c : N) : bool := (c =? 13) || (c =? 10).
Definition term_is_crlf : bool := true.

Definition opt_is (o : option N) (c : N) : bool :=
  match o with Some x => x =? c | None => false end.

(* reader.rs:980-1063, arm for arm *)
Definition transition_nfa (st : nfa) (c : N) : nfa * action :=
  match st with
  | End => (End, Epsilon)
  | StartRecord =>
      if term_equals c then (StartRecord, Discard)
      else if opt_is cfg_comment c then (InComment, Discard)
      else (StartField, Epsilon)
  | EndRecord => (StartRecord, Epsilon)
  | StartField =>
      if cfg_quoting && (cfg_quote =? c) then (InQuotedField, Discard)
      else if cfg_delimiter =? c then (EndFieldDelim, Discard)
      else if term_equals c then (EndFieldTerm, Epsilon)
      else (InField, CopyToOutput)
  | EndFieldDelim => (StartField, Epsilon)
  | EndFieldTerm => (InRecordTerm, Epsilon)
  | InField =>
      if cfg_delimiter =? c then (EndFieldDelim, Discard)
      else if term_equals c then (EndFieldTerm, Epsilon)
      else (InField, CopyToOutput)
  | InQuotedField =>
      if cfg_quoting && (cfg_quote =? c) then (InDoubleEscapedQuote, Discard)
      else if cfg_quoting && opt_is cfg_escape c then (InEscapedQuote, Discard)
      else (InQuotedField, CopyToOutput)
  | InEscapedQuote => (InQuotedField, CopyToOutput)
  | InDoubleEscapedQuote =>
      if cfg_quoting && cfg_double_quote && (cfg_quote =? c) then (InQuotedField, CopyToOutput)
      else if cfg_delimiter =? c then (EndFieldDelim, Discard)
      else if term_equals c then (EndFieldTerm, Epsilon)
      else (InField, CopyToOutput)
  | InComment =>
      if c =? 10 then (StartRecord, Discard) else (InComment, Discard)
  | InRecordTerm =>
      if term_is_crlf && (c =? 13) then (CRLF, Discard) else (EndRecord, Discard)
  | CRLF =>
      if c =? 10 then (StartRecord, Discard) else (StartRecord, Epsilon)
  end.

(* build_dfa (reader.rs:820-838): the DFA transition on byte c from a state is the NFA run
   through epsilon moves until the byte is consumed (or End is reached):

     let mut nfa_result = (state, NfaInputAction::Epsilon);
     while nfa_result.0 != NfaState::End && nfa_result.1 == NfaInputAction::Epsilon {
         nfa_result = self.transition_nfa(nfa_result.0, c);
     }

   [advance] is one turn of that loop (identity once the loop condition is false); the loop
   is run 8 times, more than the longest epsilon chain (4).  A result that still asks for an
   epsilon move would mean the bound was too small: None, excluded by [dfa_step_total].
   The output flag of the DFA is "the consuming move copies". *)
Definition advance (c : N) (x : nfa * action) : nfa * action :=
  match x with
  | (End, _) => x
  | (s, Epsilon) => transition_nfa s c
  | (_, _) => x
  end.

Definition dfa_step (st : nfa) (c : N) : option (nfa * bool) :=
  match Nat.iter 8 (advance c) (st, Epsilon) with
  | (End, Epsilon) => Some (End, false)
  | (_, Epsilon) => None
  | (s, CopyToOutput) => Some (s, true)
  | (s, Discard) => Some (s, false)
  end.

(* "state >= self.dfa.final_field" / "> final_field" in terms of the NFA state numbering
   (EndFieldDelim = 7, EndRecord = 8, CRLF = 9) *)
Definition field_final (st : nfa) : bool :=
  match st with EndFieldDelim | EndRecord | CRLF => true | _ => false end.
Definition record_final (st : nfa) : bool :=
  match st with EndRecord | CRLF => true | _ => false end.

(* transition_final_dfa: at the end of the input a pending record is closed unless the state
   is a final-record state or the start state *)
Definition final_emits (st : nfa) : bool :=
  match st with
  | EndRecord | CRLF | StartRecord | End => false
  | _ => true       (* incl. InComment, as the DFA version does; unreachable: no comment byte *)
  end.

(* ---------- the record loop ----------
   state of the loop: DFA state, bytes of the field being read (reversed), finished fields
   of the record being read (reversed), finished records (reversed).  This is
   read_record_dfa + read_byte_record_impl + the records() iterator with buffers abstracted:
   the 8 KiB BufReader chunking, the growth of the output / ends buffers (OutputFull,
   OutputEndsFull) and the scan_and_copy fast path do not change the result. *)
Definition field := list N.
Definition record := list field.

Fixpoint run (st : nfa) (cur : list N) (rec : list field) (recs : list record) (bs : list N) {struct bs}
  : option (list record) :=
  match bs with
  | [] =>
      if final_emits st
      then Some (rev (rev (rev cur :: rec) :: recs))      (* ends[0] = output_pos; Record *)
      else Some (rev recs)                                (* End *)
  | c :: r =>
      match dfa_step st c with
      | None => None
      | Some (st', out) =>
          let cur' := if out then c :: cur else cur in
          if record_final st' then run st' [] [] (rev (rev cur' :: rec) :: recs) r
          else if field_final st' then run st' [] (rev cur' :: rec) recs r
          else run st' cur' rec recs r
      end
  end.

(* strip_utf8_bom: only on the first read, only when at least three bytes are buffered *)
Definition strip_bom (bs : list N) : list N :=
  match bs with
  | a :: b :: c :: r => if (a =? 239) && (b =? 187) && (c =? 191) then r else bs
  | _ => bs
  end.

Definition read_csv (bs : list N) : option (list record) :=
  run StartRecord [] [] [] (strip_bom bs).
