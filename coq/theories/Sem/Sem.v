(* RFC 8610 matching semantics of the core fragment as mutually inductive judgments
   (the auditable specification; DESIGN.md section 5).

   Two positive judgments per syntactic class (natural semantics of PEGs, Ford 2004):
     MatchT / FailT      a type matches / does not match a data item            (RFC 8610 2, 3)
     SeqOk  / SeqFail    an array group matches a prefix of an element sequence (3.4, Appendix A: PEG)
     RepOk  / RepFail    greedy occurrence lo*hi of a group                      (3.2)
     AltsOk / AltsFail   a map group (choice of flat member lists) matches a set of pairs (3.5)
   A schema that can loop without consuming data has neither derivation: the property is silent there.

   [jm] = JSON mode (a number without a fraction is integer and float alike).
   The leaf types are decided by [leaf] (Validator.v), the controls that only inspect the value by
   [ctl_simple]; both are plain case distinctions with the RFC clause beside them. *)
From Cddl Require Import Sem.Syntax Sem.Validator.
Open Scope Z_scope.

Section Sem.
Variable jm : bool.
Variable e : env.

Definition at_max (hi : option N) (count : N) : bool :=
  match hi with Some h => N.leb h count | None => false end.

Inductive MatchT : ty -> value -> Prop :=
| M_leaf t v : leaf jm t v = Some true -> MatchT t v
| M_tag n t v : MatchT t v -> MatchT (TTag n t) (VTag n v)                         (* 3.6 *)
| M_ref n t v : lookup_all e n = Some (DType t) -> MatchT t v -> MatchT (TRef n) v (* 2.2, Appendix D *)
| M_or1 a b v : MatchT a v -> MatchT (TOr a b) v                                   (* 2.2.2 *)
| M_or2 a b v : MatchT b v -> MatchT (TOr a b) v
| M_ctl_and c t arg v : is_and c = true -> MatchT t v -> MatchT arg v -> MatchT (TCtl c t arg) v   (* 3.8.5 *)
| M_ctl_size t arg v n : str_len v = Some n -> MatchT t v -> MatchT arg (VInt n) ->
                         MatchT (TCtl CSize t arg) v                               (* 3.8.1, strings *)
| M_ctl_simple c t arg v : is_and c = false -> (c = CSize -> str_len v = None) ->
                           MatchT t v -> ctl_simple c arg v = Some true -> MatchT (TCtl c t arg) v   (* 3.8.1, 3.8.6 *)
| M_arr g l : SeqOk g l [] -> MatchT (TArr g) (VArr l)                             (* 3.4 *)
| M_map g ps f alts : flatten f e g = Some alts -> AltsOk alts ps -> MatchT (TMap g) (VMap ps)   (* 3.5 *)
with FailT : ty -> value -> Prop :=
| F_leaf t v : leaf jm t v = Some false -> FailT t v
| F_tag_other n t v : (forall v', v <> VTag n v') -> FailT (TTag n t) v
| F_tag n t v : FailT t v -> FailT (TTag n t) (VTag n v)
| F_ref n t v : lookup_all e n = Some (DType t) -> FailT t v -> FailT (TRef n) v
| F_or a b v : FailT a v -> FailT b v -> FailT (TOr a b) v
| F_ctl_target c t arg v : FailT t v -> FailT (TCtl c t arg) v
| F_ctl_and c t arg v : is_and c = true -> MatchT t v -> FailT arg v -> FailT (TCtl c t arg) v
| F_ctl_size t arg v n : str_len v = Some n -> MatchT t v -> FailT arg (VInt n) -> FailT (TCtl CSize t arg) v
| F_ctl_simple c t arg v : is_and c = false -> (c = CSize -> str_len v = None) ->
                           MatchT t v -> ctl_simple c arg v = Some false -> FailT (TCtl c t arg) v
| F_arr_other g v : (forall l, v <> VArr l) -> FailT (TArr g) v
| F_arr_fail g l : SeqFail g l -> FailT (TArr g) (VArr l)
| F_arr_rest g l x r : SeqOk g l (x :: r) -> FailT (TArr g) (VArr l)              (* elements left over *)
| F_map_other g v : (forall ps, v <> VMap ps) -> FailT (TMap g) v
| F_map g ps f alts : flatten f e g = Some alts -> AltsFail alts ps -> FailT (TMap g) (VMap ps)
(* arrays: ordered, greedy sequence match; SeqOk g vs r: g matches a prefix of vs leaving r *)
with SeqOk : grp -> list value -> list value -> Prop :=
| S_empty vs : SeqOk GEmpty vs vs
| S_seq a b vs r1 r2 : SeqOk a vs r1 -> SeqOk b r1 r2 -> SeqOk (GSeq a b) vs r2
| S_or1 a b vs r : SeqOk a vs r -> SeqOk (GOr a b) vs r                             (* "//" is prioritised choice *)
| S_or2 a b vs r : SeqFail a vs -> SeqOk b vs r -> SeqOk (GOr a b) vs r
| S_occ lo hi g vs r : RepOk g lo hi 0%N vs r -> SeqOk (GOcc lo hi g) vs r
| S_ent k c t v r : MatchT t v -> SeqOk (GEnt k c t) (v :: r) r                      (* keys are annotations in arrays *)
| S_ref n g vs r : lookup_all e n = Some (DGroup g) -> SeqOk g vs r -> SeqOk (GRef n) vs r
with SeqFail : grp -> list value -> Prop :=
| SF_seq1 a b vs : SeqFail a vs -> SeqFail (GSeq a b) vs
| SF_seq2 a b vs r1 : SeqOk a vs r1 -> SeqFail b r1 -> SeqFail (GSeq a b) vs
| SF_or a b vs : SeqFail a vs -> SeqFail b vs -> SeqFail (GOr a b) vs
| SF_occ lo hi g vs : RepFail g lo hi 0%N vs -> SeqFail (GOcc lo hi g) vs
| SF_ent_nil k c t : SeqFail (GEnt k c t) []
| SF_ent k c t v r : FailT t v -> SeqFail (GEnt k c t) (v :: r)
| SF_ref n g vs : lookup_all e n = Some (DGroup g) -> SeqFail g vs -> SeqFail (GRef n) vs
(* greedy occurrence: iterate while the group matches, up to hi; a zero-width iteration ends the loop *)
with RepOk : grp -> N -> option N -> N -> list value -> list value -> Prop :=
| R_max g lo hi count vs : at_max hi count = true -> RepOk g lo hi count vs vs
| R_stop g lo hi count vs : at_max hi count = false -> SeqFail g vs -> N.leb lo count = true -> RepOk g lo hi count vs vs
| R_zero g lo hi count vs r : at_max hi count = false -> SeqOk g vs r -> length r = length vs -> RepOk g lo hi count vs vs
| R_step g lo hi count vs r r' : at_max hi count = false -> SeqOk g vs r -> length r <> length vs ->
                                 RepOk g lo hi (N.succ count) r r' -> RepOk g lo hi count vs r'
with RepFail : grp -> N -> option N -> N -> list value -> Prop :=
| RF_stop g lo hi count vs : at_max hi count = false -> SeqFail g vs -> N.leb lo count = false -> RepFail g lo hi count vs
| RF_step g lo hi count vs r : at_max hi count = false -> SeqOk g vs r -> length r <> length vs ->
                               RepFail g lo hi (N.succ count) r -> RepFail g lo hi count vs
(* maps: the column of one pair against the members: (key matches, value matches) *)
with ColR : list entry -> value -> value -> list cell -> Prop :=
| C_nil k v : ColR [] k v []
| C_kfail en es k v c : FailT (e_key en) k -> ColR es k v c -> ColR (en :: es) k v ((false, false) :: c)
| C_kv en es k v c : MatchT (e_key en) k -> MatchT (e_val en) v -> ColR es k v c -> ColR (en :: es) k v ((true, true) :: c)
| C_kvf en es k v c : MatchT (e_key en) k -> FailT (e_val en) v -> ColR es k v c -> ColR (en :: es) k v ((true, false) :: c)
with ColsR : list entry -> list (value * value) -> list (list cell) -> Prop :=
| CS_nil es : ColsR es [] []
| CS_cons es k v ps c cs : ColR es k v c -> ColsR es ps cs -> ColsR es ((k, v) :: ps) (c :: cs)
(* 3.5: some alternative admits an assignment of every pair to a member that matches its key and value,
   respects the members' occurrence bounds and the cut rule of 3.5.4 (valid_assign, Validator.v) *)
with AltsOk : list (list entry) -> list (value * value) -> Prop :=
| A_here es alts ps cols a : ColsR es ps cols -> valid_assign es cols a = true -> AltsOk (es :: alts) ps
| A_later es alts ps : AltsOk alts ps -> AltsOk (es :: alts) ps
with AltsFail : list (list entry) -> list (value * value) -> Prop :=
| AF_nil ps : AltsFail [] ps
| AF_cons es alts ps cols : ColsR es ps cols -> (forall a, valid_assign es cols a = false) ->
                            AltsFail alts ps -> AltsFail (es :: alts) ps.

End Sem.

Scheme MatchT_mut := Minimality for MatchT Sort Prop
with FailT_mut := Minimality for FailT Sort Prop
with SeqOk_mut := Minimality for SeqOk Sort Prop
with SeqFail_mut := Minimality for SeqFail Sort Prop
with RepOk_mut := Minimality for RepOk Sort Prop
with RepFail_mut := Minimality for RepFail Sort Prop
with ColR_mut := Minimality for ColR Sort Prop
with ColsR_mut := Minimality for ColsR Sort Prop
with AltsOk_mut := Minimality for AltsOk Sort Prop
with AltsFail_mut := Minimality for AltsFail Sort Prop.
Combined Scheme sem_mutind from MatchT_mut, FailT_mut, SeqOk_mut, SeqFail_mut, RepOk_mut, RepFail_mut,
  ColR_mut, ColsR_mut, AltsOk_mut, AltsFail_mut.
