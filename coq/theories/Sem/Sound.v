(* The executable decider answers according to the semantics: Some true -> MatchT, Some false -> FailT. *)
From Cddl Require Import Sem.Syntax Sem.Validator Sem.Sem.
From Coq Require Import ZifyBool ZifyNat ZifyN.
Open Scope Z_scope.

(* ---------- the assignment search decides "some valid assignment exists" ---------- *)
Lemma pairs_ok_nil es a : pairs_ok es [] a = true -> a = [].
Proof. destruct a; [reflexivity|discriminate]. Qed.

Lemma search_spec es : forall cols done,
  search es cols done = true <->
  exists a, pairs_ok es cols a = true /\ counts_ok es 0 (done ++ a) = true.
Proof.
  induction cols as [|col cols IH]; intros done; cbn [search].
  - split.
    + intros H. exists []. rewrite app_nil_r. auto.
    + intros (a & Ha & Hc). apply pairs_ok_nil in Ha. subst. rewrite app_nil_r in Hc. exact Hc.
  - rewrite existsb_exists. split.
    + intros (i & Hin & H). apply andb_true_iff in H as [Hp Hs].
      apply IH in Hs as (a & Ha & Hc). exists (i :: a). cbn [pairs_ok]. rewrite Hp, Ha.
      rewrite <- app_assoc in Hc. auto.
    + intros (a & Ha & Hc). destruct a as [|i a]; [discriminate|]. cbn [pairs_ok] in Ha.
      apply andb_true_iff in Ha as [Hp Ha]. exists i. split.
      * apply in_seq. unfold pair_ok in Hp. destruct (nth_error col i) eqn:E; [|discriminate].
        assert (i < length col)%nat by (apply nth_error_Some; congruence). lia.
      * rewrite Hp. cbn [andb]. apply IH. exists a. rewrite <- app_assoc. auto.
Qed.

Lemma decide_map_true es cols : decide_map es cols = true -> exists a, valid_assign es cols a = true.
Proof.
  unfold decide_map. intros H. apply search_spec in H as (a & Ha & Hc). exists a.
  unfold valid_assign. cbn [app] in Hc. rewrite Ha, Hc. reflexivity.
Qed.

Lemma decide_map_false es cols : decide_map es cols = false -> forall a, valid_assign es cols a = false.
Proof.
  unfold decide_map. intros H a. destruct (valid_assign es cols a) eqn:E; [|reflexivity].
  unfold valid_assign in E. apply andb_true_iff in E as [Ha Hc].
  assert (search es cols [] = true) by (apply search_spec; exists a; auto). congruence.
Qed.

(* ---------- soundness of the decider ---------- *)
Section Sound.
Variable jm : bool.
Variable e : env.

Definition seq_sound (g : grp) (vs : list value) (r : seqres) : Prop :=
  match r with SOk rest => SeqOk jm e g vs rest | SFail => SeqFail jm e g vs | SFuel => True end.
Definition rep_sound (g : grp) (lo : N) (hi : option N) (c : N) (vs : list value) (r : seqres) : Prop :=
  match r with SOk rest => RepOk jm e g lo hi c vs rest | SFail => RepFail jm e g lo hi c vs | SFuel => True end.
Definition ty_sound (t : ty) (v : value) (r : option bool) : Prop :=
  match r with Some true => MatchT jm e t v | Some false => FailT jm e t v | None => True end.
Definition alts_sound (alts : list (list entry)) (ps : list (value * value)) (r : option bool) : Prop :=
  match r with Some true => AltsOk jm e alts ps | Some false => AltsFail jm e alts ps | None => True end.

Lemma leaf_sound t v b : leaf jm t v = Some b -> ty_sound t v (Some b).
Proof. intros H. destruct b; cbn; [apply M_leaf|apply F_leaf]; exact H. Qed.

Lemma sound : forall f,
  (forall t v, ty_sound t v (vt f jm e t v)) /\
  (forall g vs, seq_sound g vs (vseq f jm e g vs)) /\
  (forall g lo hi c vs, rep_sound g lo hi c vs (vrep f jm e g lo hi c vs)) /\
  (forall es k v c, vcol f jm e es k v = Some c -> ColR jm e es k v c) /\
  (forall es ps cs, vcols f jm e es ps = Some cs -> ColsR jm e es ps cs) /\
  (forall alts ps, alts_sound alts ps (valts f jm e alts ps)).
Proof.
  induction f as [|f (IHt & IHs & IHr & IHc & IHcs & IHa)].
  { repeat split; intros; cbn; auto; discriminate. }
  repeat split.
  - (* vt *)
    intros t v. cbn [vt].
    destruct t as [| m | n | | n t' | l | lo hi incl | n | a b | c t' arg | g | g].
    + destruct (leaf jm TAny v) as [b|] eqn:E; [apply leaf_sound; auto|exact I].
    + destruct (leaf jm (TMajor m) v) as [b|] eqn:E; [apply leaf_sound; auto|exact I].
    + destruct (leaf jm (TSimple n) v) as [b|] eqn:E; [apply leaf_sound; auto|exact I].
    + destruct (leaf jm TFloat v) as [b|] eqn:E; [apply leaf_sound; auto|exact I].
    + destruct v; try (cbn; apply F_tag_other; intros; discriminate).
      destruct (N.eqb n n0) eqn:En.
      * apply N.eqb_eq in En; subst. specialize (IHt t' v). unfold ty_sound in *.
        destruct (vt f jm e t' v) as [[|]|]; auto; [apply M_tag|apply F_tag]; auto.
      * cbn. apply F_tag_other. intros v' H. inversion H; subst. rewrite N.eqb_refl in En. discriminate.
    + destruct (leaf jm (TLit l) v) as [b|] eqn:E; [apply leaf_sound; auto|exact I].
    + destruct (leaf jm (TRange lo hi incl) v) as [b|] eqn:E; [apply leaf_sound; auto|exact I].
    + destruct (lookup_all e n) as [[t'|g']|] eqn:El; try exact I.
      specialize (IHt t' v). unfold ty_sound in *.
      destruct (vt f jm e t' v) as [[|]|]; auto; [eapply M_ref|eapply F_ref]; eauto.
    + pose proof (IHt a v) as Ha. pose proof (IHt b v) as Hb. unfold ty_sound in *.
      destruct (vt f jm e a v) as [[|]|]; destruct (vt f jm e b v) as [[|]|]; auto;
        try (apply M_or1; auto; fail); try (apply M_or2; auto; fail). apply F_or; auto.
    + pose proof (IHt t' v) as Ht. unfold ty_sound in Ht |- *.
      destruct (vt f jm e t' v) as [[|]|]; auto; [|apply F_ctl_target; auto].
      destruct (is_and c) eqn:Ea.
      * pose proof (IHt arg v) as Harg. unfold ty_sound in Harg.
        destruct (vt f jm e arg v) as [[|]|]; auto; [apply M_ctl_and|apply F_ctl_and]; auto.
      * destruct c; try discriminate;
          try (destruct (ctl_simple _ arg v) as [[|]|] eqn:Ec; auto;
               [apply M_ctl_simple|apply F_ctl_simple]; auto; intros; discriminate).
        destruct (str_len v) as [n|] eqn:Es.
        -- pose proof (IHt arg (VInt n)) as Harg. unfold ty_sound in Harg.
           destruct (vt f jm e arg (VInt n)) as [[|]|]; auto; [eapply M_ctl_size|eapply F_ctl_size]; eauto.
        -- destruct (ctl_simple CSize arg v) as [[|]|] eqn:Ec; auto;
             [apply M_ctl_simple|apply F_ctl_simple]; auto.
    + destruct v; try (cbn; apply F_arr_other; intros; discriminate).
      pose proof (IHs g l) as Hs. unfold seq_sound in Hs.
      destruct (vseq f jm e g l) as [| |[|x r]]; cbn; auto.
      * apply F_arr_fail; auto.
      * apply M_arr; auto.
      * eapply F_arr_rest; eauto.
    + destruct v; try (cbn; apply F_map_other; intros; discriminate).
      destruct (flatten f e g) as [alts|] eqn:Ef; [|exact I].
      pose proof (IHa alts l) as Ha. unfold alts_sound in Ha. unfold ty_sound.
      destruct (valts f jm e alts l) as [[|]|]; auto; [eapply M_map|eapply F_map]; eauto.
  - (* vseq *)
    intros g vs. cbn [vseq]. destruct g as [| a b | a b | lo hi g' | k c t | n].
    + cbn. constructor.
    + pose proof (IHs a vs) as Ha. unfold seq_sound in Ha |- *.
      destruct (vseq f jm e a vs) as [| |r1]; auto; [apply SF_seq1; auto|].
      pose proof (IHs b r1) as Hb. unfold seq_sound in Hb.
      destruct (vseq f jm e b r1) as [| |r2]; auto; [eapply SF_seq2|eapply S_seq]; eauto.
    + pose proof (IHs a vs) as Ha. unfold seq_sound in Ha |- *.
      destruct (vseq f jm e a vs) as [| |r1]; auto; [|apply S_or1; auto].
      pose proof (IHs b vs) as Hb. unfold seq_sound in Hb.
      destruct (vseq f jm e b vs) as [| |r2]; auto; [apply SF_or|apply S_or2]; auto.
    + pose proof (IHr g' lo hi 0%N vs) as Hr. unfold rep_sound in Hr. unfold seq_sound.
      destruct (vrep f jm e g' lo hi 0 vs); auto; [apply SF_occ|apply S_occ]; auto.
    + destruct vs as [|v r]; [cbn; apply SF_ent_nil|].
      pose proof (IHt t v) as Ht. unfold ty_sound in Ht. unfold seq_sound.
      destruct (vt f jm e t v) as [[|]|]; auto; [apply S_ent|apply SF_ent]; auto.
    + destruct (lookup_all e n) as [[t'|g']|] eqn:El; try exact I.
      pose proof (IHs g' vs) as Hs. unfold seq_sound in Hs |- *.
      destruct (vseq f jm e g' vs); auto; [eapply SF_ref|eapply S_ref]; eauto.
  - (* vrep *)
    intros g lo hi c vs. cbn [vrep]. fold (at_max hi c).
    destruct (at_max hi c) eqn:Em; [cbn; apply R_max; auto|].
    pose proof (IHs g vs) as Hs. unfold seq_sound in Hs. unfold rep_sound.
    destruct (vseq f jm e g vs) as [| |r]; auto.
    + destruct (N.leb lo c) eqn:El; [apply R_stop|apply RF_stop]; auto.
    + destruct (Nat.eqb (length r) (length vs)) eqn:En.
      * apply Nat.eqb_eq in En. eapply R_zero; eauto.
      * apply Nat.eqb_neq in En. pose proof (IHr g lo hi (N.succ c) r) as Hr. unfold rep_sound in Hr.
        destruct (vrep f jm e g lo hi (N.succ c) r); auto; [eapply RF_step|eapply R_step]; eauto.
  - (* vcol *)
    intros es k v c H. cbn [vcol] in H. destruct es as [|en es]; [inversion H; constructor|].
    pose proof (IHt (e_key en) k) as Hk. unfold ty_sound in Hk.
    destruct (vt f jm e (e_key en) k) as [[|]|]; try discriminate.
    + pose proof (IHt (e_val en) v) as Hv. unfold ty_sound in Hv.
      destruct (vt f jm e (e_val en) v) as [[|]|]; try discriminate.
      * destruct (vcol f jm e es k v) as [c'|] eqn:Ec; [|discriminate]. inversion H; subst.
        apply IHc in Ec. apply C_kv; auto.
      * destruct (vcol f jm e es k v) as [c'|] eqn:Ec; [|discriminate]. inversion H; subst.
        apply IHc in Ec. apply C_kvf; auto.
    + destruct (vcol f jm e es k v) as [c'|] eqn:Ec; [|discriminate]. inversion H; subst.
      apply IHc in Ec. apply C_kfail; auto.
  - (* vcols *)
    intros es ps cs H. cbn [vcols] in H. destruct ps as [|[k v] ps]; [inversion H; constructor|].
    destruct (vcol f jm e es k v) as [c|] eqn:Ec; [|discriminate].
    destruct (vcols f jm e es ps) as [cs'|] eqn:Ecs; [|discriminate]. inversion H; subst.
    constructor; auto.
  - (* valts *)
    intros alts ps. cbn [valts]. destruct alts as [|es alts]; [cbn; constructor|].
    destruct (vcols f jm e es ps) as [cols|] eqn:Ec.
    2:{ pose proof (IHa alts ps) as Ha. unfold alts_sound in Ha |- *.
        destruct (valts f jm e alts ps) as [[|]|]; auto. apply A_later; auto. }
    apply IHcs in Ec.
    destruct (decide_map es cols) eqn:Ed.
    + cbn. apply decide_map_true in Ed as (a & Ha). eapply A_here; eauto.
    + pose proof (IHa alts ps) as Ha. unfold alts_sound in Ha |- *.
      destruct (valts f jm e alts ps) as [[|]|]; auto.
      * apply A_later; auto.
      * eapply AF_cons; eauto. apply decide_map_false; auto.
Qed.

Theorem vt_sound f t v b : vt f jm e t v = Some b -> if b then MatchT jm e t v else FailT jm e t v.
Proof.
  intros H. pose proof (proj1 (sound f) t v) as S. rewrite H in S. destruct b; exact S.
Qed.

End Sound.
