(* Executable decider for the RFC 8610 semantics of Sem.v (three-valued: None = out of fuel or
   outside the fragment). No proofs in this file. Arrays: the documented PEG sequence match
   (ordered choice, greedy occurrences, zero-width guard). Maps: search over assignments. *)
From Cddl Require Import Sem.Syntax.
Open Scope Z_scope.

(* ---------- controls that need no recursion ---------- *)
Definition cmp4 (c : ctl) (a b : Z) : bool :=
  match c with
  | CLt => a <? b | CLe => a <=? b | CGt => b <? a | CGe => b <=? a
  | _ => false
  end.

Definition ctl_simple (c : ctl) (arg : ty) (v : value) : option bool :=
  match c, arg with
  | (CLt | CLe | CGt | CGe), TLit l =>
    match num4 v, lit4 l with
    | Some a, Some b => Some (cmp4 c a b)
    | _, _ => None
    end
  | CEq, TLit l => Some (lit_matches l v)
  | CNe, TLit l => Some (negb (lit_matches l v))
  | CSize, TLit (LInt n) =>
    match v with
    | VInt z => if (0 <=? z) && (0 <=? n) then Some (z <? 256 ^ n) else None
    | _ => None
    end
  | _, _ => None
  end.

Definition str_len (v : value) : option Z :=
  match v with VText s => Some (lenZ s) | VBytes s => Some (lenZ s) | _ => None end.

Definition is_and (c : ctl) : bool := match c with CAnd | CWithin => true | _ => false end.

(* ---------- leaf types: decided by inspection of the value (RFC 8610 2.2.x, 3.1, 3.6, App. D) ---------- *)
Definition leaf (jm : bool) (t : ty) (v : value) : option bool :=
  match t with
  | TAny => Some true
  | TMajor m => Some (N.eqb m (major_of v))
  | TSimple n => Some (match simple_of v with Some k => N.eqb n k | None => false end)
  | TFloat => Some (match v with VFloat _ => true | VInt _ => jm | _ => false end)
  | TLit l => Some (lit_matches l v)
  | TRange lo hi incl => Some (in_range lo hi incl v)
  | _ => None
  end.

(* ---------- map groups: normal form ---------- *)
Record entry := { e_lo : N; e_hi : option N; e_key : ty; e_cut : bool; e_val : ty }.

Definition prod_alts (a b : list (list entry)) : list (list entry) :=
  flat_map (fun x => map (fun y => x ++ y) b) a.

(* a map group as a choice of flat member lists; None = out of fuel / not a flat member list *)
Fixpoint flatten (fuel : nat) (e : env) (g : grp) : option (list (list entry)) :=
  match fuel with
  | O => None
  | S f =>
    match g with
    | GEmpty => Some [[]]
    | GSeq a b => match flatten f e a, flatten f e b with
                  | Some x, Some y => Some (prod_alts x y)
                  | _, _ => None
                  end
    | GOr a b => match flatten f e a, flatten f e b with
                 | Some x, Some y => Some (x ++ y)
                 | _, _ => None
                 end
    | GEnt (Some k) cut t => Some [[ {| e_lo := 1; e_hi := Some 1%N; e_key := k; e_cut := cut; e_val := t |} ]]
    | GEnt None _ _ => None
    | GOcc lo hi (GEnt (Some k) cut t) => Some [[ {| e_lo := lo; e_hi := hi; e_key := k; e_cut := cut; e_val := t |} ]]
    | GOcc _ _ _ => None
    | GRef n => match lookup_all e n with
                | Some (DGroup g') => flatten f e g'
                | _ => None
                end
    end
  end.

(* one cell of the compatibility matrix: (key matches, value matches) *)
Definition cell := (bool * bool)%type.

(* all lists of length n over 0..k-1, as assignments pair -> entry index *)
Fixpoint assignments (n : nat) (k : nat) : list (list nat) :=
  match n with
  | O => [[]]
  | S n' => flat_map (fun a => map (fun i => i :: a) (seq 0 k)) (assignments n' k)
  end.

Definition count_idx (i : nat) (a : list nat) : N := N.of_nat (count_occ Nat.eq_dec a i).

Definition bound_ok (en : entry) (c : N) : bool :=
  N.leb (e_lo en) c && match e_hi en with Some h => N.leb c h | None => true end.

(* pair with column [col] (one cell per entry) assigned to entry [i]:
   key and value match there, and no EARLIER entry carrying a cut matches the key (3.5.4) *)
Fixpoint no_cut_before (es : list entry) (col : list cell) (i : nat) : bool :=
  match i, es, col with
  | O, _, _ => true
  | S i', en :: es', (kb, _) :: col' => negb (e_cut en && kb) && no_cut_before es' col' i'
  | S _, _, _ => false
  end.

Definition pair_ok (es : list entry) (col : list cell) (i : nat) : bool :=
  match nth_error col i with
  | Some (true, true) => no_cut_before es col i
  | _ => false
  end.

Fixpoint pairs_ok (es : list entry) (cols : list (list cell)) (a : list nat) : bool :=
  match cols, a with
  | [], [] => true
  | col :: cols', i :: a' => pair_ok es col i && pairs_ok es cols' a'
  | _, _ => false
  end.

Fixpoint counts_ok (es : list entry) (i : nat) (a : list nat) : bool :=
  match es with
  | [] => true
  | en :: es' => bound_ok en (count_idx i a) && counts_ok es' (S i) a
  end.

Definition valid_assign (es : list entry) (cols : list (list cell)) (a : list nat) : bool :=
  pairs_ok es cols a && counts_ok es 0 a.

(* depth-first search for a valid assignment: each pair tries the entries it is compatible with
   (pair_ok); the occurrence bounds are checked on the complete assignment *)
Fixpoint search (es : list entry) (cols : list (list cell)) (done : list nat) : bool :=
  match cols with
  | [] => counts_ok es 0 done
  | col :: cols' => existsb (fun i => pair_ok es col i && search es cols' (done ++ [i])) (seq 0 (length col))
  end.

Definition decide_map (es : list entry) (cols : list (list cell)) : bool := search es cols [].

(* ---------- the decider ---------- *)
Inductive seqres := SFuel | SFail | SOk (rest : list value).

Fixpoint vt (fuel : nat) (jm : bool) (e : env) (t : ty) (v : value) {struct fuel} : option bool :=
  match fuel with
  | O => None
  | S f =>
    match t with
    | TAny | TMajor _ | TSimple _ | TFloat | TLit _ | TRange _ _ _ => leaf jm t v
    | TTag n t' => match v with
                   | VTag n' v' => if N.eqb n n' then vt f jm e t' v' else Some false
                   | _ => Some false
                   end
    | TRef n => match lookup_all e n with
                | Some (DType t') => vt f jm e t' v
                | _ => None
                end
    | TOr a b => match vt f jm e a v, vt f jm e b v with      (* symmetric: an undecided arm does not hide the other *)
                 | Some true, _ => Some true
                 | _, Some true => Some true
                 | Some false, Some false => Some false
                 | _, _ => None
                 end
    | TCtl c t' arg =>
      match vt f jm e t' v with
      | Some true =>
        if is_and c then vt f jm e arg v
        else match c, str_len v with
             | CSize, Some n => vt f jm e arg (VInt n)
             | _, _ => ctl_simple c arg v
             end
      | r => r
      end
    | TArr g => match v with
                | VArr l => match vseq f jm e g l with
                            | SOk [] => Some true
                            | SOk _ => Some false
                            | SFail => Some false
                            | SFuel => None
                            end
                | _ => Some false
                end
    | TMap g => match v with
                | VMap ps => match flatten f e g with
                             | Some alts => valts f jm e alts ps
                             | None => None
                             end
                | _ => Some false
                end
    end
  end
with vseq (fuel : nat) (jm : bool) (e : env) (g : grp) (vs : list value) {struct fuel} : seqres :=
  match fuel with
  | O => SFuel
  | S f =>
    match g with
    | GEmpty => SOk vs
    | GSeq a b => match vseq f jm e a vs with
                  | SOk r => vseq f jm e b r
                  | r => r
                  end
    | GOr a b => match vseq f jm e a vs with
                 | SFail => vseq f jm e b vs
                 | r => r
                 end
    | GOcc lo hi g' => vrep f jm e g' lo hi 0%N vs
    | GEnt _ _ t => match vs with
                    | [] => SFail
                    | v :: r => match vt f jm e t v with
                                | Some true => SOk r
                                | Some false => SFail
                                | None => SFuel
                                end
                    end
    | GRef n => match lookup_all e n with
                | Some (DGroup g') => vseq f jm e g' vs
                | _ => SFuel
                end
    end
  end
(* greedy occurrence: json.rs seq_match_entry *)
with vrep (fuel : nat) (jm : bool) (e : env) (g : grp) (lo : N) (hi : option N) (count : N) (vs : list value) {struct fuel} : seqres :=
  match fuel with
  | O => SFuel
  | S f =>
    if match hi with Some h => N.leb h count | None => false end then SOk vs
    else match vseq f jm e g vs with
         | SFuel => SFuel
         | SFail => if N.leb lo count then SOk vs else SFail
         | SOk r => if Nat.eqb (length r) (length vs) then SOk vs     (* zero-width iteration *)
                    else vrep f jm e g lo hi (N.succ count) r
         end
  end
(* one column of the compatibility matrix: the pair against every entry *)
with vcol (fuel : nat) (jm : bool) (e : env) (es : list entry) (k v : value) {struct fuel} : option (list cell) :=
  match fuel with
  | O => None
  | S f =>
    match es with
    | [] => Some []
    | en :: es' =>
      match vt f jm e (e_key en) k with
      | None => None
      | Some false => match vcol f jm e es' k v with Some c => Some ((false, false) :: c) | None => None end
      | Some true =>
        match vt f jm e (e_val en) v with
        | None => None
        | Some vb => match vcol f jm e es' k v with Some c => Some ((true, vb) :: c) | None => None end
        end
      end
    end
  end
with vcols (fuel : nat) (jm : bool) (e : env) (es : list entry) (ps : list (value * value)) {struct fuel} : option (list (list cell)) :=
  match fuel with
  | O => None
  | S f =>
    match ps with
    | [] => Some []
    | (k, v) :: ps' => match vcol f jm e es k v, vcols f jm e es ps' with
                       | Some c, Some cs => Some (c :: cs)
                       | _, _ => None
                       end
    end
  end
with valts (fuel : nat) (jm : bool) (e : env) (alts : list (list entry)) (ps : list (value * value)) {struct fuel} : option bool :=
  match fuel with
  | O => None
  | S f =>
    match alts with
    | [] => Some false
    | es :: alts' =>
      match vcols f jm e es ps with
      | None => match valts f jm e alts' ps with Some true => Some true | _ => None end
      | Some cols => if decide_map es cols then Some true else valts f jm e alts' ps
      end
    end
  end.

Definition root_of (e : env) : option ty :=
  match e with
  | (_, DType t) :: _ => Some t
  | _ => None
  end.

(* [jm] = JSON mode: a JSON number without a fraction is an integer and a float alike (the
   property does not distinguish them), so TFloat admits VInt there.
   verdict for a schema whose first rule is the root type rule; rendered as "T" / "F" / "?" *)
Definition verdict (fuel : nat) (jm : bool) (e : env) (v : value) : list N :=
  match e with
  | (n, DType _) :: _ => match vt fuel jm e (TRef n) v with
                         | Some true => [84%N] | Some false => [70%N] | None => [63%N]
                         end
  | _ => [63%N]
  end.
