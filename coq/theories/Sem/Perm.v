(* C10: map validation does not depend on the order of the document's entries, and every physical
   pair is accounted for (over Sem.v). *)
From Cddl Require Import Sem.Syntax Sem.Validator Sem.Sem.
From Coq Require Import Permutation.
Open Scope Z_scope.

Ltac inv H := inversion H; subst; clear H.

Section Perm.
Variable jm : bool.
Variable e : env.

(* permuting the pairs permutes columns and assignment alike *)
Lemma cols_perm es ps ps' : Permutation ps ps' ->
  forall cols a, ColsR jm e es ps cols -> pairs_ok es cols a = true ->
  exists cols' a', ColsR jm e es ps' cols' /\ pairs_ok es cols' a' = true /\ Permutation a a'.
Proof.
  induction 1 as [| [k v] l l' Hp IH | [k1 v1] [k2 v2] l | l l' l'' Hp1 IH1 Hp2 IH2]; intros cols a HC HP.
  - inv HC. exists [], a. repeat split; auto. constructor.
  - inv HC. destruct a as [|i a]; [discriminate|]. cbn [pairs_ok] in HP. apply andb_true_iff in HP as [Hi HP].
    destruct (IH _ _ H5 HP) as (cs' & a' & HC' & HP' & Hperm).
    exists (c :: cs'), (i :: a'). repeat split; [constructor; auto|cbn [pairs_ok]; rewrite Hi, HP'; reflexivity|constructor; auto].
  - inv HC. inv H5. destruct a as [|i [|j a]]; cbn [pairs_ok] in HP; try discriminate;
      [rewrite andb_false_r in HP; discriminate|].
    apply andb_true_iff in HP as [Hi HP]. apply andb_true_iff in HP as [Hj HP].
    exists (c0 :: c :: cs0), (j :: i :: a). repeat split.
    + constructor; auto. constructor; auto.
    + cbn [pairs_ok]. rewrite Hi, Hj, HP. reflexivity.
    + constructor.
  - destruct (IH1 _ _ HC HP) as (c1 & a1 & HC1 & HP1 & Pm1).
    destruct (IH2 _ _ HC1 HP1) as (c2 & a2 & HC2 & HP2 & Pm2).
    exists c2, a2. repeat split; auto. eapply Permutation_trans; eauto.
Qed.

Lemma count_idx_perm i a a' : Permutation a a' -> count_idx i a = count_idx i a'.
Proof.
  intros H. unfold count_idx. f_equal. induction H; cbn; auto.
  - destruct (Nat.eq_dec x i); auto.
  - destruct (Nat.eq_dec x i), (Nat.eq_dec y i); auto.
  - congruence.
Qed.

Lemma counts_ok_perm es : forall i a a', Permutation a a' -> counts_ok es i a = counts_ok es i a'.
Proof.
  induction es as [|en es IH]; intros i a a' H; cbn [counts_ok]; [reflexivity|].
  rewrite (count_idx_perm i a a' H), (IH (S i) a a' H). reflexivity.
Qed.

Lemma valid_perm es ps ps' cols a : Permutation ps ps' -> ColsR jm e es ps cols -> valid_assign es cols a = true ->
  exists cols' a', ColsR jm e es ps' cols' /\ valid_assign es cols' a' = true.
Proof.
  intros Hp HC HV. unfold valid_assign in HV. apply andb_true_iff in HV as [HP HCn].
  destruct (cols_perm es ps ps' Hp cols a HC HP) as (cols' & a' & HC' & HP' & Pm).
  exists cols', a'. split; auto. unfold valid_assign. rewrite HP'. rewrite <- (counts_ok_perm es 0 a a' Pm). rewrite HCn. reflexivity.
Qed.

Lemma alts_ok_perm alts : forall ps ps', Permutation ps ps' -> AltsOk jm e alts ps -> AltsOk jm e alts ps'.
Proof.
  induction alts as [|es alts IH]; intros ps ps' Hp H; inv H.
  - match goal with HC : ColsR _ _ es ps ?cols, HV : valid_assign es ?cols ?a = true |- _ =>
      destruct (valid_perm es ps ps' cols a Hp HC HV) as (cols' & a' & HC' & HV') end. eapply A_here; eauto.
  - apply A_later. eapply IH; eauto.
Qed.

(* the verdict of a map type is invariant under permutation of the document's entries *)
Theorem map_perm_doc g ps ps' : Permutation ps ps' ->
  (MatchT jm e (TMap g) (VMap ps) <-> MatchT jm e (TMap g) (VMap ps')).
Proof.
  intros Hp. split; intros H; inv H; try discriminate.
  - eapply M_map; eauto. eapply alts_ok_perm; eauto.
  - eapply M_map; eauto. eapply alts_ok_perm; [apply Permutation_sym|]; eauto.
Qed.

(* no pair is dropped or merged: a valid assignment assigns every physical pair of the document *)
Lemma pairs_ok_length es : forall cols a, pairs_ok es cols a = true -> length a = length cols.
Proof.
  induction cols as [|c cols IH]; intros [|i a] H; try discriminate; auto.
  cbn [pairs_ok] in H. apply andb_true_iff in H as [_ H]. cbn. f_equal. auto.
Qed.
Lemma colsr_length es ps cols : ColsR jm e es ps cols -> length cols = length ps.
Proof. induction 1; cbn; auto. Qed.

Theorem no_collapse es ps cols a : ColsR jm e es ps cols -> valid_assign es cols a = true -> length a = length ps.
Proof.
  intros HC HV. unfold valid_assign in HV. apply andb_true_iff in HV as [HP _].
  rewrite (pairs_ok_length es cols a HP). eapply colsr_length; eauto.
Qed.

End Perm.
