(* C04: the two readings (JSON / CBOR) of the one decider differ only at the float leaf. *)
From Cddl Require Import Sem.Syntax Sem.Validator Sem.Sem Sem.Decides.
Open Scope Z_scope.

Lemma leaf_mode t v : t <> TFloat -> leaf true t v = leaf false t v.
Proof. intros H. destruct t; try reflexivity. congruence. Qed.

Lemma leaf_float_mode v : (forall z, v <> VInt z) -> leaf true TFloat v = leaf false TFloat v.
Proof. intros H. destruct v; try reflexivity. exfalso. eapply H; reflexivity. Qed.

Theorem modes_differ_only_at_float_leaf t v :
  (t <> TFloat \/ forall z, v <> VInt z) -> leaf true t v = leaf false t v.
Proof. intros [H|H]; [apply leaf_mode; auto|destruct t; try reflexivity; apply leaf_float_mode; auto]. Qed.

Theorem both_decided e f t v bj bc :
  vt f true e t v = Some bj -> vt f false e t v = Some bc ->
  (bj = true <-> MatchT true e t v) /\ (bc = true <-> MatchT false e t v).
Proof.
  intros Hj Hc. split; [exact (proj1 (vmodel_decides true e f t v bj Hj))|exact (proj1 (vmodel_decides false e f t v bc Hc))].
Qed.
