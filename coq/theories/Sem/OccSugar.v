(* C09: ? x, * x, + x are interchangeable with 0*1 x, 0* x, 1* x - over the tables the translator
   regenerates from both array matchers on every run. *)
From Cddl Require Import Generated.OccTable.
From Coq Require Import List NArith.
Import ListNotations.

(* RFC 8610 3.2 *)
Definition rfc_occ_table : list (occ_kind * N * option N) :=
  [ (ONone, 1%N, Some 1%N); (OOptional, 0%N, Some 1%N); (OZeroOrMore, 0%N, None); (OOneOrMore, 1%N, None) ].

Lemma occ_sugar_json : occ_table_json = rfc_occ_table /\ occ_exact_lower_default_json = 0%N.
Proof. split; reflexivity. Qed.
Lemma occ_sugar_cbor : occ_table_cbor = rfc_occ_table /\ occ_exact_lower_default_cbor = 0%N.
Proof. split; reflexivity. Qed.
