(* Data model and schema syntax of the core CDDL fragment (DESIGN.md section 5).
   One value type serves the JSON and the CBOR data model: JSON values are the values
   without bytes, tags, simple values, undefined, and with text map keys. *)
From Coq Require Export List NArith ZArith Bool Lia.
Export ListNotations.
Open Scope Z_scope.

Inductive value :=
| VNull | VUndef
| VBool (b : bool)
| VInt (z : Z)
| VFloat (q : Z)                 (* the number q/4; every generated float is a small multiple of 1/4 *)
| VText (t : list N)             (* UTF-8 bytes *)
| VBytes (b : list N)
| VArr (l : list value)
| VMap (l : list (value * value))
| VTag (n : N) (v : value)
| VSimple (n : N).

Inductive lit := LInt (z : Z) | LFloat (q : Z) | LText (t : list N) | LBytes (b : list N).

(* comparison / size controls of RFC 8610 3.8 *)
Inductive ctl := CSize | CLt | CLe | CGt | CGe | CEq | CNe | CAnd | CWithin.

Definition name := N.

Inductive ty :=
| TAny                                   (* #            2.2.x / 3.6 *)
| TMajor (m : N)                         (* #0 .. #5, #6 (any tag), #7 (any major-7 item) *)
| TSimple (n : N)                        (* #7.n, n = 20 false, 21 true, 22 null, 23 undefined, others *)
| TFloat                                 (* #7.25 / #7.26 / #7.27: a float of any width *)
| TTag (n : N) (t : ty)                  (* #6.n(t) *)
| TLit (l : lit)                         (* 3.1 literal values *)
| TRange (lo hi : Z) (incl : bool)       (* 2.2.2.1 integer ranges lo..hi / lo...hi *)
| TRef (n : name)                        (* rule reference; prelude names are references too *)
| TOr (a b : ty)                         (* 2.2.2 type choice *)
| TCtl (c : ctl) (t arg : ty)            (* 3.8 control operators *)
| TArr (g : grp)                         (* 3.4 *)
| TMap (g : grp)                         (* 3.5 *)
with grp :=
| GEmpty
| GSeq (a b : grp)                       (* a, b *)
| GOr (a b : grp)                        (* a // b *)
| GOcc (lo : N) (hi : option N) (g : grp)   (* occurrence lo*hi; ? = 0*1, * = 0*, + = 1* *)
| GEnt (k : option ty) (cut : bool) (t : ty)  (* [key =>|: ] type ; bareword and value keys are literals with cut *)
| GRef (n : name).                       (* group rule reference *)

Inductive def := DType (t : ty) | DGroup (g : grp).
Definition env := list (name * def).

Fixpoint lookup (e : env) (n : name) : option def :=
  match e with
  | [] => None
  | (m, d) :: r => if N.eqb m n then Some d else lookup r n
  end.

(* RFC 8610 Appendix D: the standard prelude as definitions over the primitive forms.
   Names are numbered from 1000 by the schema generator in this fixed order. *)
Definition prelude : env :=
  [ (1000%N, DType TAny)                              (* any = # *)
  ; (1001%N, DType (TMajor 0%N))                        (* uint = #0 *)
  ; (1002%N, DType (TMajor 1%N))                        (* nint = #1 *)
  ; (1003%N, DType (TOr (TRef 1001%N) (TRef 1002%N)))     (* int = uint / nint *)
  ; (1004%N, DType (TMajor 2%N))                        (* bstr = #2 *)
  ; (1005%N, DType (TRef 1004%N))                       (* bytes = bstr *)
  ; (1006%N, DType (TMajor 3%N))                        (* tstr = #3 *)
  ; (1007%N, DType (TRef 1006%N))                       (* text = tstr *)
  ; (1008%N, DType TFloat)                            (* float16 = #7.25 *)
  ; (1009%N, DType TFloat)                            (* float32 = #7.26 *)
  ; (1010%N, DType TFloat)                            (* float64 = #7.27 *)
  ; (1011%N, DType (TOr (TRef 1008%N) (TOr (TRef 1009%N) (TRef 1010%N))))   (* float16-32, float32-64, float: unions of widths *)
  ; (1012%N, DType (TOr (TRef 1003%N) (TRef 1011%N)))     (* number = int / float *)
  ; (1013%N, DType (TSimple 20%N))                      (* false = #7.20 *)
  ; (1014%N, DType (TSimple 21%N))                      (* true = #7.21 *)
  ; (1015%N, DType (TOr (TRef 1013%N) (TRef 1014%N)))     (* bool = false / true *)
  ; (1016%N, DType (TSimple 22%N))                      (* nil = #7.22 *)
  ; (1017%N, DType (TRef 1016%N))                       (* null = nil *)
  ; (1018%N, DType (TSimple 23%N))                      (* undefined = #7.23 *)
  ].

Definition lookup_all (e : env) (n : name) : option def :=
  match lookup e n with
  | Some d => Some d
  | None => lookup prelude n
  end.

(* ---------- primitive predicates on values ---------- *)
Definition two64 : Z := 18446744073709551616.

Definition major_of (v : value) : N :=
  match v with
  | VInt z => if z <? 0 then 1%N else 0%N
  | VBytes _ => 2%N | VText _ => 3%N | VArr _ => 4%N | VMap _ => 5%N | VTag _ _ => 6%N
  | VNull | VUndef | VBool _ | VFloat _ | VSimple _ => 7%N
  end.

Definition simple_of (v : value) : option N :=
  match v with
  | VBool false => Some 20%N | VBool true => Some 21%N | VNull => Some 22%N | VUndef => Some 23%N
  | VSimple n => Some n
  | _ => None
  end.

Definition list_N_eqb (a b : list N) : bool :=
  (fix go a b := match a, b with
                 | [], [] => true
                 | x :: a', y :: b' => N.eqb x y && go a' b'
                 | _, _ => false
                 end) a b.

Definition lit_matches (l : lit) (v : value) : bool :=
  match l, v with
  | LInt z, VInt z' => Z.eqb z z'
  | LFloat q, VFloat q' => Z.eqb q q'
  | LText t, VText t' => list_N_eqb t t'
  | LBytes b, VBytes b' => list_N_eqb b b'
  | _, _ => false
  end.

Definition in_range (lo hi : Z) (incl : bool) (v : value) : bool :=
  match v with
  | VInt z => (lo <=? z) && (if incl then z <=? hi else z <? hi)
  | _ => false
  end.

(* numeric value in quarter units, for the comparison controls *)
Definition num4 (v : value) : option Z :=
  match v with VInt z => Some (4 * z) | VFloat q => Some q | _ => None end.
Definition lit4 (l : lit) : option Z :=
  match l with LInt z => Some (4 * z) | LFloat q => Some q | _ => None end.

Definition lenZ {A} (l : list A) : Z := Z.of_nat (length l).
