(* C08, consistent renaming: renaming the rules of a schema by an injective map that leaves the
   prelude names alone changes no answer of the decider, at any fuel - hence no verdict of the
   specification. *)
From Cddl Require Import Sem.Syntax Sem.Validator Sem.Sem Sem.Complete Sem.AgreeAll Sem.Reach Sem.Total.
Open Scope Z_scope.

Section Rename.
Variable s : name -> name.

Fixpoint ren (t : ty) : ty :=
  match t with
  | TRef n => TRef (s n)
  | TTag n t' => TTag n (ren t')
  | TOr a b => TOr (ren a) (ren b)
  | TCtl c a b => TCtl c (ren a) (ren b)
  | TArr g => TArr (gren g)
  | TMap g => TMap (gren g)
  | TAny | TMajor _ | TSimple _ | TFloat | TLit _ | TRange _ _ _ => t
  end
with gren (g : grp) : grp :=
  match g with
  | GEmpty => GEmpty
  | GSeq a b => GSeq (gren a) (gren b)
  | GOr a b => GOr (gren a) (gren b)
  | GOcc lo hi g' => GOcc lo hi (gren g')
  | GEnt k c t => GEnt (match k with Some k' => Some (ren k') | None => None end) c (ren t)
  | GRef n => GRef (s n)
  end.

Definition dren (d : def) : def := match d with DType t => DType (ren t) | DGroup g => DGroup (gren g) end.
Definition eren (e : env) : env := map (fun p => (s (fst p), dren (snd p))) e.
Definition enren (en : entry) : entry :=
  {| e_lo := e_lo en; e_hi := e_hi en; e_key := ren (e_key en); e_cut := e_cut en; e_val := ren (e_val en) |}.

Hypothesis Hinj : forall a b, s a = s b -> a = b.
Hypothesis Hfix : forall n, N.le 1000 n -> s n = n.

Lemma s_low n : N.lt n 1000 -> N.lt (s n) 1000.
Proof.
  intros Hn. destruct (N.lt_ge_cases (s n) 1000) as [H|H]; [exact H|].
  pose proof (Hfix (s n) H) as X. apply Hinj in X. lia.
Qed.

Definition high (n : name) : bool := N.leb 1000 n.

Lemma ren_high_n : forall n,
  (forall t, (tsize t <= n)%nat -> refs_in high t = true -> ren t = t) /\
  (forall g, (gsize g <= n)%nat -> grefs_in high g = true -> gren g = g).
Proof.
  induction n as [|n [IHt IHg]].
  { split; [intros t H; destruct t; cbn [tsize] in H; lia|intros g H; destruct g; cbn [gsize] in H; lia]. }
  split.
  - intros t Hn H. destruct t; cbn [tsize] in Hn; cbn [ren refs_in] in *; try reflexivity.
    + rewrite (IHt t ltac:(lia) H). reflexivity.
    + rewrite Hfix; [reflexivity|]. apply N.leb_le. exact H.
    + apply andb_true_iff in H. destruct H as [Ha Hb]. rewrite (IHt t1 ltac:(lia) Ha), (IHt t2 ltac:(lia) Hb). reflexivity.
    + apply andb_true_iff in H. destruct H as [Ha Hb]. rewrite (IHt t1 ltac:(lia) Ha), (IHt t2 ltac:(lia) Hb). reflexivity.
    + rewrite (IHg g ltac:(lia) H). reflexivity.
    + rewrite (IHg g ltac:(lia) H). reflexivity.
  - intros g Hn H. destruct g; cbn [gsize] in Hn; cbn [gren grefs_in] in *; try reflexivity.
    + apply andb_true_iff in H. destruct H as [Ha Hb]. rewrite (IHg g1 ltac:(lia) Ha), (IHg g2 ltac:(lia) Hb). reflexivity.
    + apply andb_true_iff in H. destruct H as [Ha Hb]. rewrite (IHg g1 ltac:(lia) Ha), (IHg g2 ltac:(lia) Hb). reflexivity.
    + rewrite (IHg g ltac:(lia) H). reflexivity.
    + apply andb_true_iff in H. destruct H as [Hk Ht]. rewrite (IHt t ltac:(lia) Ht).
      destruct k as [k'|]; [|reflexivity]. rewrite (IHt k' ltac:(lia) Hk). reflexivity.
    + rewrite Hfix; [reflexivity|]. apply N.leb_le. exact H.
Qed.

Lemma dren_high d : def_refs_in high d = true -> dren d = d.
Proof.
  destruct d as [t|g]; cbn [def_refs_in dren]; intros H.
  - rewrite (proj1 (ren_high_n (tsize t)) t (le_n _) H). reflexivity.
  - rewrite (proj2 (ren_high_n (gsize g)) g (le_n _) H). reflexivity.
Qed.

Lemma lookup_ren (e : env) n : lookup (eren e) (s n) = option_map dren (lookup e n).
Proof.
  induction e as [|[m d] e IH]; [reflexivity|]. cbn [eren map fst snd lookup]. fold (eren e).
  destruct (N.eqb m n) eqn:E.
  - apply N.eqb_eq in E. subst m. rewrite N.eqb_refl. reflexivity.
  - assert (N.eqb (s m) (s n) = false) as ->; [|exact IH].
    apply N.eqb_neq. intros X. apply Hinj in X. apply N.eqb_neq in E. contradiction.
Qed.

Lemma prelude_high n d : lookup prelude n = Some d -> N.le 1000 n /\ def_refs_in high d = true.
Proof.
  intros L.
  pose proof (lookup_forallb (fun n d => high n && def_refs_in high d) prelude n d ltac:(vm_compute; reflexivity) L) as X.
  cbv beta in X. apply andb_true_iff in X. destruct X as [X1 X2]. split; [apply N.leb_le; exact X1|exact X2].
Qed.

Lemma lookup_prelude_ren n : lookup prelude (s n) = option_map dren (lookup prelude n).
Proof.
  destruct (N.lt_ge_cases n 1000) as [Hn|Hn].
  - assert (lookup prelude n = None) as ->.
    { destruct (lookup prelude n) eqn:L; [|reflexivity]. destruct (prelude_high _ _ L). lia. }
    cbn [option_map]. destruct (lookup prelude (s n)) eqn:L; [|reflexivity].
    destruct (prelude_high _ _ L). pose proof (s_low n Hn). lia.
  - rewrite (Hfix n Hn). destruct (lookup prelude n) as [d|] eqn:L; [|reflexivity].
    cbn [option_map]. rewrite (dren_high d (proj2 (prelude_high _ _ L))). reflexivity.
Qed.

Lemma lookup_all_ren e n : lookup_all (eren e) (s n) = option_map dren (lookup_all e n).
Proof.
  unfold lookup_all. rewrite lookup_ren. destruct (lookup e n) as [d|]; [reflexivity|].
  cbn [option_map]. apply lookup_prelude_ren.
Qed.

(* ---------- map groups ---------- *)
Definition aren (alts : list (list entry)) : list (list entry) := map (map enren) alts.

Lemma prod_alts_ren a b : prod_alts (aren a) (aren b) = aren (prod_alts a b).
Proof.
  unfold prod_alts, aren. induction a as [|x a IH]; [reflexivity|].
  cbn [map flat_map]. rewrite map_app, IH. f_equal.
  rewrite !map_map. apply map_ext. intros y. rewrite map_app. reflexivity.
Qed.

Lemma flatten_ren e : forall f g, flatten f (eren e) (gren g) = option_map aren (flatten f e g).
Proof.
  induction f as [|f IH]; intros g; [reflexivity|].
  cbn [flatten]. destruct g as [| x y | x y | lo hi g' | k c t | n]; cbn [gren flatten].
  - reflexivity.
  - rewrite (IH x), (IH y). destruct (flatten f e x); [|reflexivity]. destruct (flatten f e y); [|reflexivity].
    cbn [option_map]. rewrite prod_alts_ren. reflexivity.
  - rewrite (IH x), (IH y). destruct (flatten f e x); [|reflexivity]. destruct (flatten f e y); [|reflexivity].
    cbn [option_map]. unfold aren. rewrite map_app. reflexivity.
  - destruct g' as [| | | | [k|] c t |]; reflexivity.
  - destruct k as [k|]; reflexivity.
  - rewrite lookup_all_ren. destruct (lookup_all e n) as [[t|g']|]; try reflexivity. cbn [option_map dren]. apply IH.
Qed.

Lemma existsb_eq {A} (f g : A -> bool) l : (forall x, f x = g x) -> existsb f l = existsb g l.
Proof. intros H. induction l as [|x l IH]; [reflexivity|]. cbn [existsb]. rewrite H, IH. reflexivity. Qed.

Lemma no_cut_before_ren : forall i es col, no_cut_before (map enren es) col i = no_cut_before es col i.
Proof.
  induction i as [|i IH]; intros es col; [destruct es; reflexivity|].
  destruct es as [|en es]; [reflexivity|]. destruct col as [|[kb vb] col]; [reflexivity|].
  cbn [map no_cut_before]. rewrite IH. reflexivity.
Qed.

Lemma pair_ok_ren es col i : pair_ok (map enren es) col i = pair_ok es col i.
Proof. unfold pair_ok. destruct (nth_error col i) as [[[|] [|]]|]; try reflexivity. apply no_cut_before_ren. Qed.

Lemma counts_ok_ren : forall es i a, counts_ok (map enren es) i a = counts_ok es i a.
Proof. induction es as [|en es IH]; intros i a; [reflexivity|]. cbn [map counts_ok]. rewrite IH. reflexivity. Qed.

Lemma search_ren es : forall cols done, search (map enren es) cols done = search es cols done.
Proof.
  induction cols as [|col cols IH]; intros done; cbn [search].
  - apply counts_ok_ren.
  - apply existsb_eq. intros i. rewrite pair_ok_ren, IH. reflexivity.
Qed.

Lemma decide_map_ren es cols : decide_map (map enren es) cols = decide_map es cols.
Proof. apply search_ren. Qed.

(* ---------- the decider ---------- *)
Lemma rename : forall jm e f,
  (forall t v, vt f jm (eren e) (ren t) v = vt f jm e t v) /\
  (forall g vs, vseq f jm (eren e) (gren g) vs = vseq f jm e g vs) /\
  (forall g lo hi c vs, vrep f jm (eren e) (gren g) lo hi c vs = vrep f jm e g lo hi c vs) /\
  (forall es k v, vcol f jm (eren e) (map enren es) k v = vcol f jm e es k v) /\
  (forall es ps, vcols f jm (eren e) (map enren es) ps = vcols f jm e es ps) /\
  (forall alts ps, valts f jm (eren e) (aren alts) ps = valts f jm e alts ps).
Proof.
  intros jm e. induction f as [|f (IHt & IHs & IHr & IHc & IHcs & IHa)].
  { repeat split; intros; reflexivity. }
  repeat split.
  - intros t v. destruct t as [| m | n | | n t' | l | lo hi incl | n | a b | c t' arg | g | g]; cbn [ren vt]; try reflexivity.
    + destruct v; try reflexivity. rewrite IHt. reflexivity.
    + rewrite lookup_all_ren. destruct (lookup_all e n) as [[t'|g']|]; try reflexivity. cbn [option_map dren]. apply IHt.
    + rewrite !IHt. reflexivity.
    + rewrite !IHt. destruct (vt f jm e t' v) as [[|]|]; try reflexivity.
      destruct (is_and c); try reflexivity. destruct c; try reflexivity; destruct (str_len v); try reflexivity;
        try apply IHt; destruct arg; reflexivity.
    + destruct v; try reflexivity. rewrite IHs. reflexivity.
    + destruct v; try reflexivity. rewrite flatten_ren. destruct (flatten f e g); try reflexivity.
      cbn [option_map]. apply IHa.
  - intros g vs. destruct g as [| a b | a b | lo hi g' | k c t | n]; cbn [gren vseq]; try reflexivity.
    + rewrite IHs. destruct (vseq f jm e a vs); try reflexivity. apply IHs.
    + rewrite IHs. destruct (vseq f jm e a vs); try reflexivity. apply IHs.
    + apply IHr.
    + destruct vs as [|v r]; try reflexivity. rewrite IHt. reflexivity.
    + rewrite lookup_all_ren. destruct (lookup_all e n) as [[t'|g']|]; try reflexivity. cbn [option_map dren]. apply IHs.
  - intros g lo hi c vs. cbn [vrep].
    destruct (match hi with Some h => N.leb h c | None => false end); try reflexivity.
    rewrite IHs. destruct (vseq f jm e g vs) as [| |r]; try reflexivity.
    destruct (Nat.eqb (length r) (length vs)); try reflexivity. apply IHr.
  - intros es k v. destruct es as [|en es]; cbn [map vcol]; try reflexivity.
    cbn [enren e_key e_val]. rewrite !IHt, IHc. reflexivity.
  - intros es ps. cbn [vcols]. destruct ps as [|[k v] ps]; try reflexivity. rewrite IHc, IHcs. reflexivity.
  - intros alts ps. destruct alts as [|es alts]; cbn [aren map valts]; try reflexivity.
    fold (aren alts). rewrite IHcs, IHa. destruct (vcols f jm e es ps) as [cols|]; [|reflexivity].
    rewrite decide_map_ren. reflexivity.
Qed.

End Rename.

Theorem rename_vt s jm e f t v :
  (forall a b, s a = s b -> a = b) -> (forall n, N.le 1000 n -> s n = n) ->
  vt f jm (eren s e) (ren s t) v = vt f jm e t v.
Proof. intros Hi Hf. exact (proj1 (rename s Hi Hf jm e f) t v). Qed.

Theorem rename_sem s jm e t v :
  (forall a b, s a = s b -> a = b) -> (forall n, N.le 1000 n -> s n = n) ->
  (MatchT jm (eren s e) (ren s t) v <-> MatchT jm e t v) /\ (FailT jm (eren s e) (ren s t) v <-> FailT jm e t v).
Proof.
  intros Hi Hf.
  pose proof (vmodel_exact jm e t v) as [M1 F1]. pose proof (vmodel_exact jm (eren s e) (ren s t) v) as [M2 F2].
  split; split; intros H.
  - apply M1. apply M2 in H. destruct H as [f H]. exists f. rewrite <- (rename_vt s jm e f t v Hi Hf). exact H.
  - apply M2. apply M1 in H. destruct H as [f H]. exists f. rewrite (rename_vt s jm e f t v Hi Hf). exact H.
  - apply F1. apply F2 in H. destruct H as [f H]. exists f. rewrite <- (rename_vt s jm e f t v Hi Hf). exact H.
  - apply F2. apply F1 in H. destruct H as [f H]. exists f. rewrite (rename_vt s jm e f t v Hi Hf). exact H.
Qed.
