(* Every derivation of the semantics is found by the decider with enough fuel:
   together with Sound.v the decider is exactly the semantics. *)
From Cddl Require Import Sem.Syntax Sem.Validator Sem.Sem Sem.Sound Sem.Excl Sem.Mono.
From Coq Require Import Lia.
Open Scope Z_scope.

Section Complete.
Variable jm : bool.
Variable e : env.

Ltac up H f' := first
  [ apply (vt_fuel_mono jm e _ f') in H; [|lia]
  | apply (vseq_fuel_mono jm e _ f') in H; [|lia|discriminate]
  | apply (vrep_fuel_mono jm e _ f') in H; [|lia|discriminate]
  | apply (vcol_fuel_mono jm e _ f') in H; [|lia]
  | apply (vcols_fuel_mono jm e _ f') in H; [|lia]
  | apply (valts_fuel_mono jm e _ f') in H; [|lia]
  | apply (flatten_fuel_mono e _ f') in H; [|lia] ].

Lemma valid_decide es cols a : valid_assign es cols a = true -> decide_map es cols = true.
Proof.
  intros H. destruct (decide_map es cols) eqn:E; auto.
  rewrite (decide_map_false es cols E a) in H. discriminate.
Qed.
Lemma invalid_decide es cols : (forall a, valid_assign es cols a = false) -> decide_map es cols = false.
Proof.
  intros H. destruct (decide_map es cols) eqn:E; auto.
  apply decide_map_true in E as (a & Ha). rewrite H in Ha. discriminate.
Qed.

Lemma complete :
  (forall t v, MatchT jm e t v -> exists f, vt f jm e t v = Some true) /\
  (forall t v, FailT jm e t v -> exists f, vt f jm e t v = Some false) /\
  (forall g vs r, SeqOk jm e g vs r -> exists f, vseq f jm e g vs = SOk r) /\
  (forall g vs, SeqFail jm e g vs -> exists f, vseq f jm e g vs = SFail) /\
  (forall g lo hi c vs r, RepOk jm e g lo hi c vs r -> exists f, vrep f jm e g lo hi c vs = SOk r) /\
  (forall g lo hi c vs, RepFail jm e g lo hi c vs -> exists f, vrep f jm e g lo hi c vs = SFail) /\
  (forall es k v c, ColR jm e es k v c -> exists f, vcol f jm e es k v = Some c) /\
  (forall es ps cs, ColsR jm e es ps cs -> exists f, vcols f jm e es ps = Some cs) /\
  (forall alts ps, AltsOk jm e alts ps -> exists f, valts f jm e alts ps = Some true) /\
  (forall alts ps, AltsFail jm e alts ps -> exists f, valts f jm e alts ps = Some false).
Proof.
  apply sem_mutind.
  (* MatchT *)
  - intros t v H. exists 1%nat. cbn [vt]. destruct t; cbn in H; try discriminate; exact H.
  - intros n t v _ [f H]. exists (S f). cbn [vt]. rewrite N.eqb_refl. exact H.
  - intros n t v El _ [f H]. exists (S f). cbn [vt]. rewrite El. exact H.
  - intros a b v _ [f H]. exists (S f). cbn [vt]. rewrite H. reflexivity.
  - intros a b v _ [f H]. exists (S f). cbn [vt]. rewrite H. destruct (vt f jm e a v) as [[|]|]; reflexivity.
  - intros c t arg v Ea _ [f1 H1] _ [f2 H2]. exists (S (f1 + f2)). up H1 (f1 + f2)%nat. up H2 (f1 + f2)%nat.
    cbn [vt]. rewrite H1, Ea. exact H2.
  - intros t arg v n Es _ [f1 H1] _ [f2 H2]. exists (S (f1 + f2)). up H1 (f1 + f2)%nat. up H2 (f1 + f2)%nat.
    cbn [vt]. rewrite H1. cbn [is_and]. rewrite Es. exact H2.
  - intros c t arg v Ea Hs _ [f1 H1] Hc. exists (S f1). cbn [vt]. rewrite H1, Ea.
    destruct c; try exact Hc; try discriminate. rewrite (Hs eq_refl). exact Hc.
  - intros g l _ [f H]. exists (S f). cbn [vt]. rewrite H. reflexivity.
  - intros g ps f0 alts Ef _ [f H]. exists (S (f0 + f)). up Ef (f0 + f)%nat. up H (f0 + f)%nat.
    cbn [vt]. rewrite Ef. exact H.
  (* FailT *)
  - intros t v H. exists 1%nat. cbn [vt]. destruct t; cbn in H; try discriminate; exact H.
  - intros n t v Hn. exists 1%nat. cbn [vt]. destruct v; auto. destruct (N.eqb n n0) eqn:E; auto.
    apply N.eqb_eq in E. subst. exfalso. eapply Hn. reflexivity.
  - intros n t v _ [f H]. exists (S f). cbn [vt]. rewrite N.eqb_refl. exact H.
  - intros n t v El _ [f H]. exists (S f). cbn [vt]. rewrite El. exact H.
  - intros a b v _ [f1 H1] _ [f2 H2]. exists (S (f1 + f2)). up H1 (f1 + f2)%nat. up H2 (f1 + f2)%nat.
    cbn [vt]. rewrite H1, H2. reflexivity.
  - intros c t arg v _ [f H]. exists (S f). cbn [vt]. rewrite H. reflexivity.
  - intros c t arg v Ea _ [f1 H1] _ [f2 H2]. exists (S (f1 + f2)). up H1 (f1 + f2)%nat. up H2 (f1 + f2)%nat.
    cbn [vt]. rewrite H1, Ea. exact H2.
  - intros t arg v n Es _ [f1 H1] _ [f2 H2]. exists (S (f1 + f2)). up H1 (f1 + f2)%nat. up H2 (f1 + f2)%nat.
    cbn [vt]. rewrite H1. cbn [is_and]. rewrite Es. exact H2.
  - intros c t arg v Ea Hs _ [f1 H1] Hc. exists (S f1). cbn [vt]. rewrite H1, Ea.
    destruct c; try exact Hc; try discriminate. rewrite (Hs eq_refl). exact Hc.
  - intros g v Hn. exists 1%nat. cbn [vt]. destruct v; auto. exfalso. eapply Hn. reflexivity.
  - intros g l _ [f H]. exists (S f). cbn [vt]. rewrite H. reflexivity.
  - intros g l x r _ [f H]. exists (S f). cbn [vt]. rewrite H. reflexivity.
  - intros g v Hn. exists 1%nat. cbn [vt]. destruct v; auto. exfalso. eapply Hn. reflexivity.
  - intros g ps f0 alts Ef _ [f H]. exists (S (f0 + f)). up Ef (f0 + f)%nat. up H (f0 + f)%nat.
    cbn [vt]. rewrite Ef. exact H.
  (* SeqOk *)
  - intros vs. exists 1%nat. reflexivity.
  - intros a b vs r1 r2 _ [f1 H1] _ [f2 H2]. exists (S (f1 + f2)). up H1 (f1 + f2)%nat. up H2 (f1 + f2)%nat.
    cbn [vseq]. rewrite H1. exact H2.
  - intros a b vs r _ [f H]. exists (S f). cbn [vseq]. rewrite H. reflexivity.
  - intros a b vs r _ [f1 H1] _ [f2 H2]. exists (S (f1 + f2)). up H1 (f1 + f2)%nat. up H2 (f1 + f2)%nat.
    cbn [vseq]. rewrite H1. exact H2.
  - intros lo hi g vs r _ [f H]. exists (S f). cbn [vseq]. exact H.
  - intros k c t v r _ [f H]. exists (S f). cbn [vseq]. rewrite H. reflexivity.
  - intros n g vs r El _ [f H]. exists (S f). cbn [vseq]. rewrite El. exact H.
  (* SeqFail *)
  - intros a b vs _ [f H]. exists (S f). cbn [vseq]. rewrite H. reflexivity.
  - intros a b vs r1 _ [f1 H1] _ [f2 H2]. exists (S (f1 + f2)). up H1 (f1 + f2)%nat. up H2 (f1 + f2)%nat.
    cbn [vseq]. rewrite H1. exact H2.
  - intros a b vs _ [f1 H1] _ [f2 H2]. exists (S (f1 + f2)). up H1 (f1 + f2)%nat. up H2 (f1 + f2)%nat.
    cbn [vseq]. rewrite H1. exact H2.
  - intros lo hi g vs _ [f H]. exists (S f). cbn [vseq]. exact H.
  - intros k c t. exists 1%nat. reflexivity.
  - intros k c t v r _ [f H]. exists (S f). cbn [vseq]. rewrite H. reflexivity.
  - intros n g vs El _ [f H]. exists (S f). cbn [vseq]. rewrite El. exact H.
  (* RepOk *)
  - intros g lo hi c vs Hm. exists 1%nat. cbn [vrep]. unfold at_max in Hm. rewrite Hm. reflexivity.
  - intros g lo hi c vs Hm _ [f H] Hl. exists (S f). cbn [vrep]. unfold at_max in Hm. rewrite Hm, H, Hl. reflexivity.
  - intros g lo hi c vs r Hm _ [f H] Hlen. exists (S f). cbn [vrep]. unfold at_max in Hm. rewrite Hm, H.
    rewrite (proj2 (Nat.eqb_eq _ _) Hlen). reflexivity.
  - intros g lo hi c vs r r' Hm _ [f1 H1] Hlen _ [f2 H2]. exists (S (f1 + f2)). up H1 (f1 + f2)%nat. up H2 (f1 + f2)%nat.
    cbn [vrep]. unfold at_max in Hm. rewrite Hm, H1. rewrite (proj2 (Nat.eqb_neq _ _) Hlen). exact H2.
  (* RepFail *)
  - intros g lo hi c vs Hm _ [f H] Hl. exists (S f). cbn [vrep]. unfold at_max in Hm. rewrite Hm, H, Hl. reflexivity.
  - intros g lo hi c vs r Hm _ [f1 H1] Hlen _ [f2 H2]. exists (S (f1 + f2)). up H1 (f1 + f2)%nat. up H2 (f1 + f2)%nat.
    cbn [vrep]. unfold at_max in Hm. rewrite Hm, H1. rewrite (proj2 (Nat.eqb_neq _ _) Hlen). exact H2.
  (* ColR *)
  - intros k v. exists 1%nat. reflexivity.
  - intros en es k v c _ [f1 H1] _ [f2 H2]. exists (S (f1 + f2)). up H1 (f1 + f2)%nat. up H2 (f1 + f2)%nat.
    cbn [vcol]. rewrite H1, H2. reflexivity.
  - intros en es k v c _ [f1 H1] _ [f2 H2] _ [f3 H3]. exists (S (f1 + f2 + f3)).
    up H1 (f1 + f2 + f3)%nat. up H2 (f1 + f2 + f3)%nat. up H3 (f1 + f2 + f3)%nat.
    cbn [vcol]. rewrite H1, H2, H3. reflexivity.
  - intros en es k v c _ [f1 H1] _ [f2 H2] _ [f3 H3]. exists (S (f1 + f2 + f3)).
    up H1 (f1 + f2 + f3)%nat. up H2 (f1 + f2 + f3)%nat. up H3 (f1 + f2 + f3)%nat.
    cbn [vcol]. rewrite H1, H2, H3. reflexivity.
  (* ColsR *)
  - intros es. exists 1%nat. reflexivity.
  - intros es k v ps c cs _ [f1 H1] _ [f2 H2]. exists (S (f1 + f2)). up H1 (f1 + f2)%nat. up H2 (f1 + f2)%nat.
    cbn [vcols]. rewrite H1, H2. reflexivity.
  (* AltsOk *)
  - intros es alts ps cols a _ [f H] Hv. exists (S f). cbn [valts]. rewrite H, (valid_decide _ _ _ Hv). reflexivity.
  - intros es alts ps _ [f H]. exists (S f). cbn [valts]. rewrite H.
    destruct (vcols f jm e es ps) as [cols|]; auto. destruct (decide_map es cols); auto.
  (* AltsFail *)
  - intros ps. exists 1%nat. reflexivity.
  - intros es alts ps cols _ [f1 H1] Hv _ [f2 H2]. exists (S (f1 + f2)). up H1 (f1 + f2)%nat. up H2 (f1 + f2)%nat.
    cbn [valts]. rewrite H1, (invalid_decide _ _ Hv). exact H2.
Qed.

(* the decider is exactly the semantics *)
Theorem vmodel_exact t v :
  (MatchT jm e t v <-> exists f, vt f jm e t v = Some true) /\
  (FailT jm e t v <-> exists f, vt f jm e t v = Some false).
Proof.
  split; split.
  - apply (proj1 complete).
  - intros [f H]. exact (vt_sound jm e f t v true H).
  - apply (proj1 (proj2 complete)).
  - intros [f H]. exact (vt_sound jm e f t v false H).
Qed.

End Complete.
