(* The semantics is consistent: no type both matches and fails a value; the PEG sequence
   match is deterministic (one remainder). *)
From Cddl Require Import Sem.Syntax Sem.Validator Sem.Sem.
Open Scope Z_scope.

Section Excl.
Variable jm : bool.
Variable e : env.

Ltac inv H := inversion H; subst; clear H.

Ltac same := repeat match goal with
  | H1 : ?x = Some ?a, H2 : ?x = Some ?b |- _ => rewrite H1 in H2; inversion H2; subst; clear H2
  | H1 : ?x = Some _, H2 : ?x = None |- _ => rewrite H1 in H2; discriminate
  | H : ?c = ?c -> _ |- _ => specialize (H eq_refl)
  end.

Ltac fin :=
  try solve [ eauto
            | congruence
            | cbn [leaf] in *; congruence
            | exfalso; eauto
            | same; (eauto || congruence || (exfalso; eauto))
            | match goal with H : is_and _ = _ |- _ => cbn in H; discriminate end
            | match goal with H : forall r, ~ _ |- _ => exfalso; eapply H; eauto end
            | match goal with H : ~ _ |- _ => exfalso; apply H; eauto end
            | match goal with H : forall x, _ <> _ |- _ => exfalso; eapply H; reflexivity end ].

Lemma flatten_det : forall f f' g a a', flatten f e g = Some a -> flatten f' e g = Some a' -> a = a'.
Proof.
  induction f as [|f IH]; intros f' g a a' H H'; [discriminate|].
  destruct f' as [|f']; [discriminate|]. cbn [flatten] in H, H'.
  destruct g as [| x y | x y | lo hi g' | k c t | n].
  - congruence.
  - destruct (flatten f e x) eqn:E1, (flatten f e y) eqn:E2; try discriminate.
    destruct (flatten f' e x) eqn:E3, (flatten f' e y) eqn:E4; try discriminate.
    rewrite (IH _ _ _ _ E1 E3), (IH _ _ _ _ E2 E4) in H. congruence.
  - destruct (flatten f e x) eqn:E1, (flatten f e y) eqn:E2; try discriminate.
    destruct (flatten f' e x) eqn:E3, (flatten f' e y) eqn:E4; try discriminate.
    rewrite (IH _ _ _ _ E1 E3), (IH _ _ _ _ E2 E4) in H. congruence.
  - destruct g'; try discriminate. destruct k; congruence.
  - destruct k; congruence.
  - destruct (lookup_all e n) as [[t|g']|]; try discriminate. eapply IH; eauto.
Qed.

Lemma excl :
  (forall t v, MatchT jm e t v -> ~ FailT jm e t v) /\
  (forall t v, FailT jm e t v -> ~ MatchT jm e t v) /\
  (forall g vs r, SeqOk jm e g vs r -> (forall r', SeqOk jm e g vs r' -> r' = r) /\ ~ SeqFail jm e g vs) /\
  (forall g vs, SeqFail jm e g vs -> forall r, ~ SeqOk jm e g vs r) /\
  (forall g lo hi c vs r, RepOk jm e g lo hi c vs r -> (forall r', RepOk jm e g lo hi c vs r' -> r' = r) /\ ~ RepFail jm e g lo hi c vs) /\
  (forall g lo hi c vs, RepFail jm e g lo hi c vs -> forall r, ~ RepOk jm e g lo hi c vs r) /\
  (forall es k v c, ColR jm e es k v c -> forall c', ColR jm e es k v c' -> c' = c) /\
  (forall es ps cs, ColsR jm e es ps cs -> forall cs', ColsR jm e es ps cs' -> cs' = cs) /\
  (forall alts ps, AltsOk jm e alts ps -> ~ AltsFail jm e alts ps) /\
  (forall alts ps, AltsFail jm e alts ps -> ~ AltsOk jm e alts ps).
Proof.
  apply sem_mutind.
  (* MatchT: 10 rules *)
  - intros t v H F. inv F; fin.
  - intros n t v _ IH F. inv F; fin.
  - intros n t v El _ IH F. inv F; fin.
  - intros a b v _ IH F. inv F; fin.
  - intros a b v _ IH F. inv F; fin.
  - intros c t arg v Ea _ IHt _ IHa F. inv F; fin.
  - intros t arg v n Es _ IHt _ IHa F. inv F; fin.
  - intros c t arg v Ea Hs _ IHt Ec F. inv F; fin.
  - intros g l _ [IHd IHf] F. inv F; fin.
    match goal with H : SeqOk _ _ _ _ (_ :: _) |- _ => apply IHd in H; discriminate end.
  - intros g ps f alts Ef _ IH F. inv F; fin.
    match goal with H : flatten _ e g = Some _ |- _ => rewrite (flatten_det _ _ _ _ _ Ef H) in * end. fin.
  (* FailT: 14 rules *)
  - intros t v H M. inv M; fin.
  - intros n t v Hn M. inv M; fin.
  - intros n t v _ IH M. inv M; fin.
  - intros n t v El _ IH M. inv M; fin.
  - intros a b v _ IHa _ IHb M. inv M; fin.
  - intros c t arg v _ IH M. inv M; fin.
  - intros c t arg v Ea _ IHt _ IHa M. inv M; fin.
  - intros t arg v n Es _ IHt _ IHa M. inv M; fin.
  - intros c t arg v Ea Hs _ IHt Ec M. inv M; fin.
  - intros g v Hn M. inv M; fin.
  - intros g l _ IH M. inv M; fin.
  - intros g l x r _ [IHd IHf] M. inv M; fin.
    match goal with H : SeqOk _ _ _ _ [] |- _ => apply IHd in H; discriminate end.
  - intros g v Hn M. inv M; fin.
  - intros g ps f alts Ef _ IH M. inv M; fin.
    match goal with H : flatten _ e g = Some _ |- _ => rewrite (flatten_det _ _ _ _ _ Ef H) in * end. fin.
  (* SeqOk: 7 rules *)
  - intros vs. split; [intros r' H; inv H; fin|intros H; inv H].
  - intros a b vs r1 r2 _ [IHad IHaf] _ [IHbd IHbf]. split.
    + intros r' H. inv H. match goal with H : SeqOk _ _ a vs _ |- _ => apply IHad in H; subst end. fin.
    + intros H. inv H; fin; try solve [match goal with H : SeqOk _ _ a vs _ |- _ => apply IHad in H; subst end; fin].
  - intros a b vs r _ [IHd IHf]. split.
    + intros r' H. inv H; fin.
    + intros H. inv H; fin.
  - intros a b vs r _ IHa _ [IHd IHf]. split.
    + intros r' H. inv H; fin.
    + intros H. inv H; fin.
  - intros lo hi g vs r _ [IHd IHf]. split.
    + intros r' H. inv H; fin.
    + intros H. inv H; fin.
  - intros k c t v r _ IH. split.
    + intros r' H. inv H; fin.
    + intros H. inv H; fin.
  - intros n g vs r El _ [IHd IHf]. split.
    + intros r' H. inv H; fin.
    + intros H. inv H; fin.
  (* SeqFail: 7 rules *)
  - intros a b vs _ IH r H. inv H. eapply IH; eauto.
  - intros a b vs r1 _ [IHd IHf] _ IHb r H. inv H.
    match goal with H : SeqOk _ _ a vs _ |- _ => apply IHd in H; subst end. eapply IHb; eauto.
  - intros a b vs _ IHa _ IHb r H. inv H; [eapply IHa|eapply IHb]; eauto.
  - intros lo hi g vs _ IH r H. inv H. eapply IH; eauto.
  - intros k c t r H. inv H.
  - intros k c t v r _ IH r' H. inv H. fin.
  - intros n g vs El _ IH r H. inv H; fin; try solve [same; eapply IH; eauto].
  (* RepOk: 4 rules *)
  - intros g lo hi c vs Hm. split.
    + intros r' H. inv H; fin.
    + intros H. inv H; fin.
  - intros g lo hi c vs Hm _ IHf Hl. split.
    + intros r' H. inv H; fin.
    + intros H. inv H; fin.
  - intros g lo hi c vs r Hm _ [IHd IHf] Hlen. split.
    + intros r' H. inv H; fin.
      match goal with H : SeqOk _ _ g _ _ |- _ => apply IHd in H; subst end. congruence.
    + intros H. inv H; fin.
      match goal with H : SeqOk _ _ g _ _ |- _ => apply IHd in H; subst end. congruence.
  - intros g lo hi c vs r r' Hm _ [IHd IHf] Hlen _ [IHrd IHrf]. split.
    + intros r'' H. inv H; fin;
        match goal with H : SeqOk _ _ g _ _ |- _ => apply IHd in H; subst end; fin.
    + intros H. inv H; fin.
      match goal with H : SeqOk _ _ g _ _ |- _ => apply IHd in H; subst end. fin.
  (* RepFail: 2 rules *)
  - intros g lo hi c vs Hm _ IHf Hl r H. inv H; fin.
  - intros g lo hi c vs r Hm _ [IHd IHf] Hlen _ IHr r' H. inv H; fin;
      match goal with H : SeqOk _ _ g _ _ |- _ => apply IHd in H; subst end; fin.
  (* ColR: 4 rules *)
  - intros k v c' H. inv H. reflexivity.
  - intros en es k v c _ IHk _ IHc c' H. inv H; fin; try solve [f_equal; fin].
  - intros en es k v c _ IHk _ IHv _ IHc c' H. inv H; fin; try solve [f_equal; fin].
  - intros en es k v c _ IHk _ IHv _ IHc c' H. inv H; fin; try solve [f_equal; fin].
  (* ColsR: 2 rules *)
  - intros es cs' H. inv H. reflexivity.
  - intros es k v ps c cs _ IHc _ IHcs cs' H. inv H. f_equal; fin.
  (* AltsOk: 2 rules *)
  - intros es alts ps cols a _ IHc Hv F. inv F.
    match goal with H : ColsR _ _ es ps _ |- _ => apply IHc in H; subst end.
    match goal with H : forall a, valid_assign _ _ a = false |- _ => rewrite H in Hv end. discriminate.
  - intros es alts ps _ IH F. inv F. fin.
  (* AltsFail: 2 rules *)
  - intros ps H. inv H.
  - intros es alts ps cols _ IHc Hv _ IHa H. inv H; fin.
    match goal with H : ColsR _ _ es ps _ |- _ => apply IHc in H; subst end.
    match goal with H : valid_assign _ _ _ = true |- _ => rewrite Hv in H end. discriminate.
Qed.

Theorem sem_exclusive t v : MatchT jm e t v -> FailT jm e t v -> False.
Proof. intros M F. exact (proj1 excl t v M F). Qed.

Theorem seq_det g vs r1 r2 : SeqOk jm e g vs r1 -> SeqOk jm e g vs r2 -> r1 = r2.
Proof. intros H1 H2. symmetry. exact (proj1 (proj1 (proj2 (proj2 excl)) g vs r1 H1) r2 H2). Qed.

End Excl.
