(* C08: naming and rule order are semantically transparent (over Sem.v). *)
From Cddl Require Import Sem.Syntax Sem.Validator Sem.Sem.
From Coq Require Import Permutation.
Open Scope Z_scope.

Ltac inv H := inversion H; subst; clear H.

Lemma flatten_ext e e' : (forall n, lookup_all e n = lookup_all e' n) ->
  forall f g, flatten f e g = flatten f e' g.
Proof.
  intros Hl. induction f as [|f IH]; intros g; [reflexivity|]. cbn [flatten].
  destruct g; try reflexivity.
  - rewrite !IH. reflexivity.
  - rewrite !IH. reflexivity.
  - rewrite Hl. destruct (lookup_all e' n) as [[?|?]|]; auto.
Qed.

(* the verdict depends on the rule set only through what each name resolves to *)
Lemma env_ext_all jm e e' : (forall n, lookup_all e n = lookup_all e' n) ->
  (forall t v, MatchT jm e t v -> MatchT jm e' t v) /\
  (forall t v, FailT jm e t v -> FailT jm e' t v) /\
  (forall g vs r, SeqOk jm e g vs r -> SeqOk jm e' g vs r) /\
  (forall g vs, SeqFail jm e g vs -> SeqFail jm e' g vs) /\
  (forall g lo hi c vs r, RepOk jm e g lo hi c vs r -> RepOk jm e' g lo hi c vs r) /\
  (forall g lo hi c vs, RepFail jm e g lo hi c vs -> RepFail jm e' g lo hi c vs) /\
  (forall es k v c, ColR jm e es k v c -> ColR jm e' es k v c) /\
  (forall es ps cs, ColsR jm e es ps cs -> ColsR jm e' es ps cs) /\
  (forall alts ps, AltsOk jm e alts ps -> AltsOk jm e' alts ps) /\
  (forall alts ps, AltsFail jm e alts ps -> AltsFail jm e' alts ps).
Proof.
  intros Hl. apply sem_mutind; intros;
    try match goal with H : lookup_all e _ = _ |- _ => rewrite Hl in H end;
    try match goal with H : flatten _ e _ = _ |- _ => rewrite (flatten_ext e e' Hl) in H end;
    try solve [econstructor; eauto].
Qed.

Theorem env_ext jm e e' t v : (forall n, lookup_all e n = lookup_all e' n) ->
  (MatchT jm e t v <-> MatchT jm e' t v) /\ (FailT jm e t v <-> FailT jm e' t v).
Proof.
  intros Hl. assert (Hl' : forall n, lookup_all e' n = lookup_all e n) by (intros; symmetry; apply Hl).
  pose proof (env_ext_all jm e e' Hl) as (A & B & _). pose proof (env_ext_all jm e' e Hl') as (A' & B' & _).
  split; split; auto.
Qed.

(* replacing an expression by a reference to a rule defined as that expression, and inlining it back *)
Theorem ref_unfold jm e n t v : lookup_all e n = Some (DType t) ->
  (MatchT jm e (TRef n) v <-> MatchT jm e t v) /\ (FailT jm e (TRef n) v <-> FailT jm e t v).
Proof.
  intros L. split; split; intros H.
  - inv H; try discriminate. congruence.
  - eapply M_ref; eauto.
  - inv H; try discriminate. congruence.
  - eapply F_ref; eauto.
Qed.

Theorem gref_unfold jm e n g vs r : lookup_all e n = Some (DGroup g) ->
  (SeqOk jm e (GRef n) vs r <-> SeqOk jm e g vs r).
Proof.
  intros L. split; intros H.
  - inv H. congruence.
  - eapply S_ref; eauto.
Qed.

(* reordering rules (all names distinct) does not change what any name resolves to *)
Lemma lookup_perm (e e' : env) : NoDup (map fst e) -> Permutation e e' -> forall n, lookup e n = lookup e' n.
Proof.
  intros Hnd Hp. induction Hp as [| [m d] l l' Hp IH | [m1 d1] [m2 d2] l | l l' l'' Hp1 IH1 Hp2 IH2]; intros n.
  - reflexivity.
  - cbn. inversion Hnd; subst. rewrite IH; auto.
  - cbn. destruct (N.eqb m2 n) eqn:E2, (N.eqb m1 n) eqn:E1; auto.
    apply N.eqb_eq in E1, E2. subst. inversion Hnd; subst. exfalso. apply H1. left. reflexivity.
  - rewrite IH1; auto. apply IH2. eapply Permutation_NoDup; [|exact Hnd]. apply Permutation_map. auto.
Qed.

Theorem rule_order_irrelevant jm e e' t v : NoDup (map fst e) -> Permutation e e' ->
  (MatchT jm e t v <-> MatchT jm e' t v) /\ (FailT jm e t v <-> FailT jm e' t v).
Proof.
  intros Hnd Hp. apply env_ext. intros n. unfold lookup_all. rewrite (lookup_perm e e' Hnd Hp). reflexivity.
Qed.

