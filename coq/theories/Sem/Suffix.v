(* The sequence matcher only consumes from the front: what it leaves is a suffix of what it got. *)
From Cddl Require Import Sem.Syntax Sem.Validator.
Open Scope Z_scope.

Section Suffix.
Variable jm : bool.
Variable e : env.

Definition suffix (r vs : list value) : Prop := exists p, vs = p ++ r.

Lemma suffix_refl vs : suffix vs vs.
Proof. exists []. reflexivity. Qed.

Lemma suffix_trans a b c : suffix a b -> suffix b c -> suffix a c.
Proof. intros [p ->] [q ->]. exists (q ++ p). rewrite app_assoc. reflexivity. Qed.

Lemma suffix_cons v r : suffix r (v :: r).
Proof. exists [v]. reflexivity. Qed.

Lemma suffix_length r vs : suffix r vs -> (length r <= length vs)%nat.
Proof. intros [p ->]. rewrite app_length. lia. Qed.

Lemma seq_suffix : forall f,
  (forall g vs r, vseq f jm e g vs = SOk r -> suffix r vs) /\
  (forall g lo hi c vs r, vrep f jm e g lo hi c vs = SOk r -> suffix r vs).
Proof.
  induction f as [|f [IHs IHr]]; [split; intros; discriminate|].
  split.
  - intros g vs r H. cbn [vseq] in H. destruct g as [| a b | a b | lo hi g' | k c t | n].
    + injection H as <-. apply suffix_refl.
    + destruct (vseq f jm e a vs) as [| |r1] eqn:Ea; try discriminate.
      eapply suffix_trans; [exact (IHs _ _ _ H)|exact (IHs _ _ _ Ea)].
    + destruct (vseq f jm e a vs) as [| |r1] eqn:Ea; try discriminate.
      * exact (IHs _ _ _ H).
      * injection H as <-. exact (IHs _ _ _ Ea).
    + exact (IHr _ _ _ _ _ _ H).
    + destruct vs as [|v r0]; try discriminate. destruct (vt f jm e t v) as [[|]|]; try discriminate.
      injection H as <-. apply suffix_cons.
    + destruct (lookup_all e n) as [[t'|g']|]; try discriminate. exact (IHs _ _ _ H).
  - intros g lo hi c vs r H. cbn [vrep] in H.
    destruct (match hi with Some h => N.leb h c | None => false end).
    { injection H as <-. apply suffix_refl. }
    destruct (vseq f jm e g vs) as [| |r1] eqn:Es; try discriminate.
    + destruct (N.leb lo c); try discriminate. injection H as <-. apply suffix_refl.
    + destruct (Nat.eqb (length r1) (length vs)).
      * injection H as <-. apply suffix_refl.
      * eapply suffix_trans; [exact (IHr _ _ _ _ _ _ H)|exact (IHs _ _ _ Es)].
Qed.

End Suffix.
