(* More fuel never changes an answer of the decider. *)
From Cddl Require Import Sem.Syntax Sem.Validator.
Open Scope Z_scope.

Lemma flatten_mono e : forall f g a, flatten f e g = Some a -> flatten (S f) e g = Some a.
Proof.
  induction f as [|f IH]; intros g a H; [discriminate|].
  remember (S f) as f1 eqn:Hf1. cbn [flatten]. rewrite Hf1 in H. cbn [flatten] in H.
  destruct g as [| x y | x y | lo hi g' | k c t | n]; auto.
  - destruct (flatten f e x) eqn:E1; [|discriminate]. destruct (flatten f e y) eqn:E2; [|discriminate].
    apply IH in E1. apply IH in E2. rewrite E1, E2. exact H.
  - destruct (flatten f e x) eqn:E1; [|discriminate]. destruct (flatten f e y) eqn:E2; [|discriminate].
    apply IH in E1. apply IH in E2. rewrite E1, E2. exact H.
  - destruct (lookup_all e n) as [[t|g']|]; try discriminate. apply IH in H. exact H.
Qed.

Section Mono.
Variable jm : bool.
Variable e : env.

Definition seq_le (a b : seqres) : Prop := a = SFuel \/ a = b.
Definition opt_le {A} (a b : option A) : Prop := a = None \/ a = b.

Lemma mono : forall f,
  (forall t v, opt_le (vt f jm e t v) (vt (S f) jm e t v)) /\
  (forall g vs, seq_le (vseq f jm e g vs) (vseq (S f) jm e g vs)) /\
  (forall g lo hi c vs, seq_le (vrep f jm e g lo hi c vs) (vrep (S f) jm e g lo hi c vs)) /\
  (forall es k v, opt_le (vcol f jm e es k v) (vcol (S f) jm e es k v)) /\
  (forall es ps, opt_le (vcols f jm e es ps) (vcols (S f) jm e es ps)) /\
  (forall alts ps, opt_le (valts f jm e alts ps) (valts (S f) jm e alts ps)).
Proof.
  induction f as [|f (IHt & IHs & IHr & IHc & IHcs & IHa)].
  { repeat split; intros; left; reflexivity. }
  assert (Lt : forall t v b, vt f jm e t v = Some b -> vt (S f) jm e t v = Some b).
  { intros t v b H. destruct (IHt t v) as [X|X]; congruence. }
  assert (Ls : forall g vs r, vseq f jm e g vs = r -> r <> SFuel -> vseq (S f) jm e g vs = r).
  { intros g vs r H Hn. destruct (IHs g vs) as [X|X]; congruence. }
  assert (Lr : forall g lo hi c vs r, vrep f jm e g lo hi c vs = r -> r <> SFuel -> vrep (S f) jm e g lo hi c vs = r).
  { intros g lo hi c vs r H Hn. destruct (IHr g lo hi c vs) as [X|X]; congruence. }
  assert (Lc : forall es k v c, vcol f jm e es k v = Some c -> vcol (S f) jm e es k v = Some c).
  { intros es k v c H. destruct (IHc es k v) as [X|X]; congruence. }
  assert (Lcs : forall es ps c, vcols f jm e es ps = Some c -> vcols (S f) jm e es ps = Some c).
  { intros es ps c H. destruct (IHcs es ps) as [X|X]; congruence. }
  assert (La : forall alts ps b, valts f jm e alts ps = Some b -> valts (S f) jm e alts ps = Some b).
  { intros alts ps b H. destruct (IHa alts ps) as [X|X]; congruence. }
  pose proof (flatten_mono e f) as Lf.
  remember (S f) as f1 eqn:Hf1.
  repeat split.
  - (* vt *)
    intros t v. unfold opt_le.
    destruct (vt f1 jm e t v) as [b|] eqn:E; [right|left; reflexivity].
    rewrite Hf1 in E. cbn [vt] in E. cbn [vt]. revert E. destruct t as [| m | n | | n t' | l | lo hi incl | n | a b0 | c t' arg | g | g]; auto.
    + destruct v; auto. destruct (N.eqb n n0); auto. intros H. rewrite (Lt _ _ _ H). reflexivity.
    + destruct (lookup_all e n) as [[t'|g']|]; auto. intros H. rewrite (Lt _ _ _ H). reflexivity.
    + destruct (vt f jm e a v) as [[|]|] eqn:Ea; destruct (vt f jm e b0 v) as [[|]|] eqn:Eb; try discriminate;
        try rewrite (Lt _ _ _ Ea); try rewrite (Lt _ _ _ Eb); auto;
        destruct (vt f1 jm e a v) as [[|]|]; auto; destruct (vt f1 jm e b0 v) as [[|]|]; auto.
    + destruct (vt f jm e t' v) as [[|]|] eqn:Et; try discriminate.
      * rewrite (Lt _ _ _ Et). destruct (is_and c).
        -- intros H. rewrite (Lt _ _ _ H). reflexivity.
        -- destruct c; auto. destruct (str_len v); auto. intros H. rewrite (Lt _ _ _ H). reflexivity.
      * rewrite (Lt _ _ _ Et). auto.
    + destruct v; auto. destruct (vseq f jm e g l) as [| |r] eqn:Es; try discriminate.
      * rewrite (Ls _ _ _ Es ltac:(discriminate)). auto.
      * rewrite (Ls _ _ _ Es ltac:(discriminate)). auto.
    + destruct v; auto. destruct (flatten f e g) as [alts|] eqn:Ef; [|discriminate].
      rewrite (Lf _ _ Ef). intros H. rewrite (La _ _ _ H). reflexivity.
  - (* vseq *)
    intros g vs. unfold seq_le.
    destruct (vseq f1 jm e g vs) as [| |r] eqn:E; [left; reflexivity|right|right]; rewrite Hf1 in E; cbn [vseq] in E; cbn [vseq]; revert E;
      destruct g as [| a b | a b | lo hi g' | k c t | n]; auto; try discriminate.
    all: try (destruct (vseq f jm e a vs) as [| |r1] eqn:Ea; try discriminate;
              rewrite (Ls _ _ _ Ea ltac:(discriminate)); auto;
              intros H; rewrite (Ls _ _ _ H ltac:(discriminate)); reflexivity).
    all: try (intros H; rewrite (Lr _ _ _ _ _ _ H ltac:(discriminate)); reflexivity).
    all: try (destruct vs as [|v r0]; auto; destruct (vt f jm e t v) as [[|]|] eqn:Et; try discriminate;
              rewrite (Lt _ _ _ Et); auto).
    all: try (destruct (lookup_all e n) as [[t'|g']|]; try discriminate;
              intros H; rewrite (Ls _ _ _ H ltac:(discriminate)); reflexivity).
  - (* vrep *)
    intros g lo hi c vs. unfold seq_le.
    destruct (vrep f1 jm e g lo hi c vs) as [| |r] eqn:E; [left; reflexivity|right|right]; rewrite Hf1 in E; cbn [vrep] in E; cbn [vrep]; revert E;
      (destruct (match hi with Some h => N.leb h c | None => false end); auto;
       destruct (vseq f jm e g vs) as [| |r1] eqn:Es; try discriminate;
       rewrite (Ls _ _ _ Es ltac:(discriminate)); auto;
       destruct (Nat.eqb (length r1) (length vs)); auto;
       intros H; rewrite (Lr _ _ _ _ _ _ H ltac:(discriminate)); reflexivity).
  - (* vcol *)
    intros es k v. unfold opt_le.
    destruct (vcol f1 jm e es k v) as [c|] eqn:E; [right|left; reflexivity].
    rewrite Hf1 in E. cbn [vcol] in E. cbn [vcol]. revert E. destruct es as [|en es]; auto.
    destruct (vt f jm e (e_key en) k) as [[|]|] eqn:Ek; try discriminate; rewrite (Lt _ _ _ Ek).
    + destruct (vt f jm e (e_val en) v) as [vb|] eqn:Ev; try discriminate. rewrite (Lt _ _ _ Ev).
      destruct (vcol f jm e es k v) as [c'|] eqn:Ec; try discriminate. rewrite (Lc _ _ _ _ Ec). auto.
    + destruct (vcol f jm e es k v) as [c'|] eqn:Ec; try discriminate. rewrite (Lc _ _ _ _ Ec). auto.
  - (* vcols *)
    intros es ps. unfold opt_le.
    destruct (vcols f1 jm e es ps) as [c|] eqn:E; [right|left; reflexivity].
    rewrite Hf1 in E. cbn [vcols] in E. cbn [vcols]. revert E. destruct ps as [|[k v] ps]; auto.
    destruct (vcol f jm e es k v) as [c'|] eqn:Ec; try discriminate. rewrite (Lc _ _ _ _ Ec).
    destruct (vcols f jm e es ps) as [cs'|] eqn:Ecs; try discriminate. rewrite (Lcs _ _ _ Ecs). auto.
  - (* valts *)
    intros alts ps. unfold opt_le.
    destruct (valts f1 jm e alts ps) as [b|] eqn:E; [right|left; reflexivity].
    rewrite Hf1 in E. cbn [valts] in E. cbn [valts]. revert E. destruct alts as [|es alts]; auto.
    destruct (vcols f jm e es ps) as [cols|] eqn:Ec.
    + rewrite (Lcs _ _ _ Ec). destruct (decide_map es cols); auto. intros H. rewrite (La _ _ _ H). reflexivity.
    + destruct (valts f jm e alts ps) as [[|]|] eqn:Ea; try discriminate. rewrite (La _ _ _ Ea).
      destruct (vcols f1 jm e es ps) as [cols|]; auto. destruct (decide_map es cols); auto.
Qed.

Theorem vt_fuel_mono f f' t v b : (f <= f')%nat -> vt f jm e t v = Some b -> vt f' jm e t v = Some b.
Proof.
  intros Hle H. induction Hle as [|f' Hle IH]; auto.
  destruct (proj1 (mono f') t v) as [X|X]; congruence.
Qed.

Lemma vseq_fuel_mono f f' g vs r : (f <= f')%nat -> vseq f jm e g vs = r -> r <> SFuel -> vseq f' jm e g vs = r.
Proof.
  intros Hle H Hn. induction Hle as [|f' Hle IH]; auto.
  destruct (proj1 (proj2 (mono f')) g vs) as [X|X]; congruence.
Qed.

Lemma vrep_fuel_mono f f' g lo hi c vs r : (f <= f')%nat -> vrep f jm e g lo hi c vs = r -> r <> SFuel -> vrep f' jm e g lo hi c vs = r.
Proof.
  intros Hle H Hn. induction Hle as [|f' Hle IH]; auto.
  destruct (proj1 (proj2 (proj2 (mono f'))) g lo hi c vs) as [X|X]; congruence.
Qed.
Lemma vcol_fuel_mono f f' es k v c : (f <= f')%nat -> vcol f jm e es k v = Some c -> vcol f' jm e es k v = Some c.
Proof.
  intros Hle H. induction Hle as [|f' Hle IH]; auto.
  destruct (proj1 (proj2 (proj2 (proj2 (mono f')))) es k v) as [X|X]; congruence.
Qed.
Lemma vcols_fuel_mono f f' es ps c : (f <= f')%nat -> vcols f jm e es ps = Some c -> vcols f' jm e es ps = Some c.
Proof.
  intros Hle H. induction Hle as [|f' Hle IH]; auto.
  destruct (proj1 (proj2 (proj2 (proj2 (proj2 (mono f'))))) es ps) as [X|X]; congruence.
Qed.
Lemma valts_fuel_mono f f' alts ps b : (f <= f')%nat -> valts f jm e alts ps = Some b -> valts f' jm e alts ps = Some b.
Proof.
  intros Hle H. induction Hle as [|f' Hle IH]; auto.
  destruct (proj2 (proj2 (proj2 (proj2 (proj2 (mono f'))))) alts ps) as [X|X]; congruence.
Qed.
Lemma flatten_fuel_mono f f' g a : (f <= f')%nat -> flatten f e g = Some a -> flatten f' e g = Some a.
Proof. intros Hle H. induction Hle as [|f' Hle IH]; auto. apply flatten_mono. auto. Qed.

End Mono.
