(* C04, whole decider: on a schema in which no float type is reachable, the JSON reading and the
   CBOR reading of the decider are the same function of (fuel, schema, value) - not only at a leaf.
   "No float type reachable" is a boolean, syntactic predicate (nofloat / nofloat_env), so the
   hypothesis can be evaluated on every generated schema. *)
From Cddl Require Import Sem.Syntax Sem.Validator.
Open Scope Z_scope.

(* float16/32/64, float, number of the prelude (Syntax.prelude) *)
Definition is_float_name (n : name) : bool := N.leb 1008 n && N.leb n 1012.

Fixpoint nofloat (t : ty) : bool :=
  match t with
  | TFloat => false
  | TRef n => negb (is_float_name n)
  | TTag _ t' => nofloat t'
  | TOr a b => nofloat a && nofloat b
  | TCtl _ t' arg => nofloat t' && nofloat arg
  | TArr g | TMap g => nofloat_g g
  | TAny | TMajor _ | TSimple _ | TLit _ | TRange _ _ _ => true
  end
with nofloat_g (g : grp) : bool :=
  match g with
  | GEmpty => true
  | GSeq a b | GOr a b => nofloat_g a && nofloat_g b
  | GOcc _ _ g' => nofloat_g g'
  | GEnt k _ t => match k with Some k' => nofloat k' | None => true end && nofloat t
  | GRef _ => true
  end.

Definition nofloat_def (d : def) : bool :=
  match d with DType t => nofloat t | DGroup g => nofloat_g g end.

(* every rule the schema itself defines is float-free *)
Definition nofloat_env (e : env) : bool := forallb (fun p => nofloat_def (snd p)) e.

Definition entry_nofloat (en : entry) : bool := nofloat (e_key en) && nofloat (e_val en).

Lemma lookup_forallb (P : name -> def -> bool) : forall e n d,
  forallb (fun p => P (fst p) (snd p)) e = true -> lookup e n = Some d -> P n d = true.
Proof.
  induction e as [|[m d0] e IH]; intros n d H L; [discriminate|].
  cbn [forallb fst snd] in H. apply andb_true_iff in H. destruct H as [H0 H1].
  cbn [lookup] in L. destruct (N.eqb m n) eqn:E.
  - apply N.eqb_eq in E. subst m. injection L as <-. exact H0.
  - eapply IH; eauto.
Qed.

Lemma prelude_nofloat n d : lookup prelude n = Some d -> is_float_name n = false -> nofloat_def d = true.
Proof.
  intros L Hn.
  pose proof (lookup_forallb (fun n d => is_float_name n || nofloat_def d) prelude n d) as X.
  cbv beta in X. rewrite Hn in X. apply X; [vm_compute; reflexivity|exact L].
Qed.

Lemma prelude_no_group n g : lookup prelude n = Some (DGroup g) -> False.
Proof.
  intros L.
  pose proof (lookup_forallb (fun _ d => match d with DType _ => true | DGroup _ => false end) prelude n _
                             ltac:(vm_compute; reflexivity) L) as X.
  discriminate.
Qed.

Section Agree.
Variable e : env.
Hypothesis He : nofloat_env e = true.

Lemma env_nofloat n d : lookup e n = Some d -> nofloat_def d = true.
Proof.
  intros L. exact (lookup_forallb (fun _ d => nofloat_def d) e n d He L).
Qed.

Lemma lookup_all_type n t : is_float_name n = false -> lookup_all e n = Some (DType t) -> nofloat t = true.
Proof.
  unfold lookup_all. intros Hn L. destruct (lookup e n) as [d|] eqn:E.
  - injection L as ->. exact (env_nofloat _ _ E).
  - exact (prelude_nofloat _ _ L Hn).
Qed.

Lemma lookup_all_group n g : lookup_all e n = Some (DGroup g) -> nofloat_g g = true.
Proof.
  unfold lookup_all. intros L. destruct (lookup e n) as [d|] eqn:E.
  - injection L as ->. exact (env_nofloat _ _ E).
  - destruct (prelude_no_group _ _ L).
Qed.

Definition alts_nofloat (alts : list (list entry)) : Prop :=
  Forall (fun es => Forall (fun en => entry_nofloat en = true) es) alts.

Lemma prod_alts_nofloat a b : alts_nofloat a -> alts_nofloat b -> alts_nofloat (prod_alts a b).
Proof.
  unfold alts_nofloat, prod_alts. intros Ha Hb. apply Forall_forall. intros x Hx.
  apply in_flat_map in Hx. destruct Hx as [xa [Hxa Hx]]. apply in_map_iff in Hx. destruct Hx as [xb [<- Hxb]].
  apply Forall_app. split; [exact (proj1 (Forall_forall _ _) Ha _ Hxa)|exact (proj1 (Forall_forall _ _) Hb _ Hxb)].
Qed.

Lemma flatten_nofloat : forall f g alts, nofloat_g g = true -> flatten f e g = Some alts -> alts_nofloat alts.
Proof.
  induction f as [|f IH]; intros g alts Hg H; [discriminate|].
  cbn [flatten] in H. destruct g as [| x y | x y | lo hi g' | k c t | n].
  - injection H as <-. repeat constructor.
  - cbn [nofloat_g] in Hg. apply andb_true_iff in Hg. destruct Hg as [Hx Hy].
    destruct (flatten f e x) eqn:E1; [|discriminate]. destruct (flatten f e y) eqn:E2; [|discriminate].
    injection H as <-. apply prod_alts_nofloat; eauto.
  - cbn [nofloat_g] in Hg. apply andb_true_iff in Hg. destruct Hg as [Hx Hy].
    destruct (flatten f e x) eqn:E1; [|discriminate]. destruct (flatten f e y) eqn:E2; [|discriminate].
    injection H as <-. apply Forall_app. split; [exact (IH _ _ Hx E1)|exact (IH _ _ Hy E2)].
  - destruct g' as [| | | | [k|] c t |]; try discriminate. injection H as <-.
    cbn [nofloat_g] in Hg. repeat constructor. exact Hg.
  - destruct k as [k|]; [|discriminate]. injection H as <-. cbn [nofloat_g] in Hg. repeat constructor. exact Hg.
  - destruct (lookup_all e n) as [[t|g']|] eqn:L; try discriminate.
    eapply IH; [exact (lookup_all_group _ _ L)|exact H].
Qed.

Lemma leaf_agree t v : nofloat t = true -> leaf true t v = leaf false t v.
Proof. destruct t; try reflexivity. discriminate. Qed.

Lemma agree : forall f,
  (forall t v, nofloat t = true -> vt f true e t v = vt f false e t v) /\
  (forall g vs, nofloat_g g = true -> vseq f true e g vs = vseq f false e g vs) /\
  (forall g lo hi c vs, nofloat_g g = true -> vrep f true e g lo hi c vs = vrep f false e g lo hi c vs) /\
  (forall es k v, Forall (fun en => entry_nofloat en = true) es -> vcol f true e es k v = vcol f false e es k v) /\
  (forall es ps, Forall (fun en => entry_nofloat en = true) es -> vcols f true e es ps = vcols f false e es ps) /\
  (forall alts ps, alts_nofloat alts -> valts f true e alts ps = valts f false e alts ps).
Proof.
  induction f as [|f (IHt & IHs & IHr & IHc & IHcs & IHa)].
  { repeat split; intros; reflexivity. }
  repeat split.
  - (* vt *)
    intros t v Ht. cbn [vt].
    destruct t as [| m | n | | n t' | l | lo hi incl | n | a b | c t' arg | g | g]; try reflexivity.
    + discriminate.
    + cbn [nofloat] in Ht. destruct v; try reflexivity. rewrite (IHt _ _ Ht). reflexivity.
    + cbn [nofloat] in Ht. apply negb_true_iff in Ht.
      destruct (lookup_all e n) as [[t'|g']|] eqn:L; try reflexivity.
      apply IHt. exact (lookup_all_type _ _ Ht L).
    + cbn [nofloat] in Ht. apply andb_true_iff in Ht. destruct Ht as [Ha Hb].
      rewrite (IHt _ v Ha), (IHt _ v Hb). reflexivity.
    + cbn [nofloat] in Ht. apply andb_true_iff in Ht. destruct Ht as [Ha Hb].
      rewrite (IHt _ v Ha), (IHt _ v Hb).
      destruct (vt f false e t' v) as [[|]|]; try reflexivity.
      destruct (is_and c); try reflexivity. destruct c; try reflexivity.
      destruct (str_len v); try reflexivity. apply IHt. exact Hb.
    + cbn [nofloat] in Ht. destruct v; try reflexivity. rewrite (IHs _ _ Ht). reflexivity.
    + cbn [nofloat] in Ht. destruct v; try reflexivity.
      destruct (flatten f e g) as [alts|] eqn:Ef; try reflexivity.
      apply IHa. exact (flatten_nofloat _ _ _ Ht Ef).
  - (* vseq *)
    intros g vs Hg. cbn [vseq].
    destruct g as [| a b | a b | lo hi g' | k c t | n]; try reflexivity; cbn [nofloat_g] in Hg.
    + apply andb_true_iff in Hg. destruct Hg as [Ha Hb]. rewrite (IHs _ vs Ha).
      destruct (vseq f false e a vs); try reflexivity. apply IHs. exact Hb.
    + apply andb_true_iff in Hg. destruct Hg as [Ha Hb]. rewrite (IHs _ vs Ha).
      destruct (vseq f false e a vs); try reflexivity. apply IHs. exact Hb.
    + apply IHr. exact Hg.
    + apply andb_true_iff in Hg. destruct Hg as [_ Hb]. destruct vs as [|v r]; try reflexivity.
      rewrite (IHt _ v Hb). reflexivity.
    + destruct (lookup_all e n) as [[t'|g']|] eqn:L; try reflexivity.
      apply IHs. exact (lookup_all_group _ _ L).
  - (* vrep *)
    intros g lo hi c vs Hg. cbn [vrep].
    destruct (match hi with Some h => N.leb h c | None => false end); try reflexivity.
    rewrite (IHs _ vs Hg). destruct (vseq f false e g vs) as [| |r]; try reflexivity.
    destruct (Nat.eqb (length r) (length vs)); try reflexivity. apply IHr. exact Hg.
  - (* vcol *)
    intros es k v Hes. cbn [vcol]. destruct es as [|en es]; try reflexivity.
    inversion Hes as [|? ? Hen Hes']. subst. unfold entry_nofloat in Hen. apply andb_true_iff in Hen. destruct Hen as [Hk Hv].
    rewrite (IHt _ k Hk), (IHt _ v Hv), (IHc es k v Hes'). reflexivity.
  - (* vcols *)
    intros es ps Hes. cbn [vcols]. destruct ps as [|[k v] ps]; try reflexivity.
    rewrite (IHc es k v Hes), (IHcs es ps Hes). reflexivity.
  - (* valts *)
    intros alts ps Ha. cbn [valts]. destruct alts as [|es alts]; try reflexivity.
    inversion Ha as [|? ? Hes Ha']. subst.
    rewrite (IHcs es ps Hes), (IHa alts ps Ha'). reflexivity.
Qed.

End Agree.

(* the statement used by Props/C04.v: a schema whose own rules are float-free and whose root is
   float-free gets the same answer - including "undecided" - from the two readings, at every fuel *)
Theorem agree_float_free e f t v :
  nofloat_env e = true -> nofloat t = true -> vt f true e t v = vt f false e t v.
Proof. intros He Ht. exact (proj1 (agree e He f) t v Ht). Qed.

Theorem verdict_float_free e f v :
  nofloat_env e = true -> verdict f true e v = verdict f false e v.
Proof.
  intros He. unfold verdict. destruct e as [|[n [t|g]] e']; try reflexivity.
  assert (Hn : nofloat (TRef n) = true \/ nofloat (TRef n) = false) by (destruct (nofloat (TRef n)); auto).
  destruct Hn as [Hn|Hn]; [rewrite (agree_float_free _ f _ v He Hn); reflexivity|].
  (* a root rule that bears a prelude float name: unfold the reference by hand - the rule body is float-free *)
  destruct f as [|f]; [reflexivity|]. cbn [vt]. unfold lookup_all. cbn [lookup]. rewrite N.eqb_refl.
  assert (Ht : nofloat t = true).
  { cbn [nofloat_env forallb snd nofloat_def] in He. apply andb_true_iff in He. exact (proj1 He). }
  rewrite (agree_float_free _ f t v He Ht). reflexivity.
Qed.
