(* The decider answers - and therefore (Sound.v) the RFC semantics assigns a verdict - for EVERY value on
   every well-founded schema of the fragment.  "Well-founded" is syntactic and checkable: a rank on rule
   names such that a reference that is not under an array, a map or a tag goes to a rule of smaller rank
   (so `a = [* a] / int` is fine, `a = a / int` and `a = b, b = a` are not), map groups are flat member
   lists, and control operators are applied to targets on which RFC 8610 defines them (.size on strings
   and unsigned integers, comparisons on numbers, .eq/.ne against a literal, .and/.within anywhere).
   No fuel bound is assumed: the fuel is constructed by the proof. *)
From Cddl Require Import Sem.Syntax Sem.Validator Sem.Mono Sem.Suffix Sem.AgreeAll.
Open Scope Z_scope.

(* ---------- measures ---------- *)
Fixpoint vsize (v : value) : nat :=
  match v with
  | VArr l => S ((fix go (l : list value) := match l with [] => O | x :: r => (vsize x + go r)%nat end) l)
  | VMap l => S ((fix go (l : list (value * value)) :=
                    match l with [] => O | p :: r => (vsize (fst p) + vsize (snd p) + go r)%nat end) l)
  | VTag _ v' => S (vsize v')
  | VText _ | VBytes _ => 2
  | _ => 1
  end.

Definition lsize (l : list value) : nat := fold_right (fun x a => (vsize x + a)%nat) O l.
Definition msize (l : list (value * value)) : nat :=
  fold_right (fun p a => (vsize (fst p) + vsize (snd p) + a)%nat) O l.

Lemma vsize_arr l : vsize (VArr l) = S (lsize l).
Proof. reflexivity. Qed.

Lemma vsize_map l : vsize (VMap l) = S (msize l).
Proof. reflexivity. Qed.

Lemma lsize_app p r : lsize (p ++ r) = (lsize p + lsize r)%nat.
Proof. induction p as [|x p IH]; cbn [app lsize fold_right]; [reflexivity|]. fold (lsize (p ++ r)). fold (lsize p). lia. Qed.

Lemma lsize_suffix r vs : suffix r vs -> (lsize r <= lsize vs)%nat.
Proof. intros [p ->]. rewrite lsize_app. lia. Qed.

Lemma msize_in k v ps : In (k, v) ps -> (vsize k + vsize v <= msize ps)%nat.
Proof.
  induction ps as [|p ps IH]; intros H; [destruct H|]. cbn [msize fold_right]. fold (msize ps).
  destruct H as [->|H]; [cbn [fst snd]; lia|]. specialize (IH H). lia.
Qed.

Fixpoint tsize (t : ty) : nat :=
  match t with
  | TTag _ t' => S (tsize t')
  | TOr a b => S (tsize a + tsize b)
  | TCtl _ a b => S (tsize a + tsize b)
  | TArr g | TMap g => S (gsize g)
  | _ => 1
  end
with gsize (g : grp) : nat :=
  match g with
  | GEmpty => 1
  | GSeq a b | GOr a b => S (gsize a + gsize b)
  | GOcc _ _ g' => S (gsize g')
  | GEnt k _ t => S (match k with Some k' => tsize k' | None => O end + tsize t)
  | GRef _ => 1
  end.

(* ---------- targets on which the controls are defined ---------- *)
Definition str_name (n : name) : bool := N.leb 1004 n && N.leb n 1007.
Definition num_name (n : name) : bool := (N.leb 1001 n && N.leb n 1003) || (N.leb 1008 n && N.leb n 1012).
Definition uint_name (n : name) : bool := N.eqb n 1001.

Fixpoint str_ty (t : ty) : bool :=
  match t with
  | TMajor m => N.eqb m 2 || N.eqb m 3
  | TLit (LText _) | TLit (LBytes _) => true
  | TRef n => str_name n
  | TOr a b => str_ty a && str_ty b
  | TCtl _ t' _ => str_ty t'
  | _ => false
  end.

Fixpoint num_ty (t : ty) : bool :=
  match t with
  | TMajor m => N.eqb m 0 || N.eqb m 1
  | TFloat | TRange _ _ _ | TLit (LInt _) | TLit (LFloat _) => true
  | TRef n => num_name n
  | TOr a b => num_ty a && num_ty b
  | TCtl _ t' _ => num_ty t'
  | _ => false
  end.

Fixpoint uint_ty (t : ty) : bool :=
  match t with
  | TMajor m => N.eqb m 0
  | TLit (LInt z) => 0 <=? z
  | TRange lo _ _ => 0 <=? lo
  | TRef n => uint_name n
  | TOr a b => uint_ty a && uint_ty b
  | TCtl _ t' _ => uint_ty t'
  | _ => false
  end.

Definition lit_arg (arg : ty) : bool := match arg with TLit _ => true | _ => false end.
Definition num_lit_arg (arg : ty) : bool :=
  match arg with TLit l => match lit4 l with Some _ => true | None => false end | _ => false end.
Definition size_lit_arg (arg : ty) : bool := match arg with TLit (LInt n) => 0 <=? n | _ => false end.

Section Total.
Variable jm : bool.
Variable e : env.
Variable rho : name -> nat.      (* rank of a rule name *)
Variable B : nat.                (* strictly above every rank *)
Variable mg : name -> bool.      (* the group rules that are used as map groups *)

Definition is_type (n : name) : bool := match lookup_all e n with Some (DType _) => true | _ => false end.
Definition is_group (n : name) : bool := match lookup_all e n with Some (DGroup _) => true | _ => false end.

Fixpoint wf_ty (b : nat) (t : ty) : bool :=
  match t with
  | TAny | TMajor _ | TSimple _ | TFloat | TLit _ | TRange _ _ _ => true
  | TTag _ t' => wf_ty B t'
  | TRef n => is_type n && Nat.ltb (rho n) b
  | TOr a c => wf_ty b a && wf_ty b c
  | TCtl c t' arg =>
    wf_ty b t' &&
    match c with
    | CAnd | CWithin => wf_ty b arg
    | CEq | CNe => lit_arg arg
    | CLt | CLe | CGt | CGe => num_ty t' && num_lit_arg arg
    | CSize => (str_ty t' && wf_ty B arg) || (uint_ty t' && size_lit_arg arg)
    end
  | TArr g => wf_seq B g
  | TMap g => wf_map B g
  end
with wf_seq (b : nat) (g : grp) : bool :=
  match g with
  | GEmpty => true
  | GSeq x y | GOr x y => wf_seq b x && wf_seq b y
  | GOcc _ _ g' => wf_seq b g'
  | GEnt _ _ t => wf_ty b t
  | GRef n => is_group n && Nat.ltb (rho n) b
  end
with wf_map (b : nat) (g : grp) : bool :=
  match g with
  | GEmpty => true
  | GSeq x y | GOr x y => wf_map b x && wf_map b y
  | GOcc _ _ g' => match g' with
                   | GEnt (Some k) _ t => wf_ty B k && wf_ty B t
                   | _ => false
                   end
  | GEnt k _ t => match k with Some k' => wf_ty B k' && wf_ty B t | None => false end
  | GRef n => is_group n && mg n && Nat.ltb (rho n) b
  end.

(* the schema: every rule (prelude included) is well-founded at its own rank; the schema's own names
   are below 1000 (the prelude is not shadowed) *)
Definition rule_ok (n : name) (d : def) : bool :=
  Nat.ltb (rho n) B &&
  match d with
  | DType t => wf_ty (rho n) t
  | DGroup g => wf_seq (rho n) g && (negb (mg n) || wf_map (rho n) g)
  end.

Definition wf_env_b : bool :=
  forallb (fun p => rule_ok (fst p) (snd p)) e && forallb (fun p => rule_ok (fst p) (snd p)) prelude &&
  forallb (fun p => N.ltb (fst p) 1000) e.

Hypothesis Hwf : wf_env_b = true.

Lemma rules_ok n d : lookup_all e n = Some d -> rule_ok n d = true.
Proof.
  unfold wf_env_b in Hwf. apply andb_true_iff in Hwf. destruct Hwf as [H12 _].
  apply andb_true_iff in H12. destruct H12 as [H1 H2].
  unfold lookup_all. intros L. destruct (lookup e n) as [d'|] eqn:E.
  - injection L as ->. exact (lookup_forallb rule_ok e n d H1 E).
  - exact (lookup_forallb rule_ok prelude n d H2 L).
Qed.

Lemma no_shadow n : N.le 1000 n -> lookup e n = None.
Proof.
  unfold wf_env_b in Hwf. apply andb_true_iff in Hwf. destruct Hwf as [_ H3].
  intros Hn. destruct (lookup e n) as [d|] eqn:E; [|reflexivity].
  pose proof (lookup_forallb (fun n _ => N.ltb n 1000) e n d H3 E) as X. cbv beta in X.
  apply N.ltb_lt in X. lia.
Qed.

Lemma type_rule n : is_type n = true -> exists t, lookup_all e n = Some (DType t) /\ wf_ty (rho n) t = true.
Proof.
  unfold is_type. destruct (lookup_all e n) as [[t|g]|] eqn:L; try discriminate. intros _.
  exists t. split; [reflexivity|]. pose proof (rules_ok _ _ L) as X. unfold rule_ok in X.
  apply andb_true_iff in X. exact (proj2 X).
Qed.

Lemma group_rule n : is_group n = true ->
  exists g, lookup_all e n = Some (DGroup g) /\ wf_seq (rho n) g = true /\ (mg n = true -> wf_map (rho n) g = true).
Proof.
  unfold is_group. destruct (lookup_all e n) as [[t|g]|] eqn:L; try discriminate. intros _.
  exists g. split; [reflexivity|]. pose proof (rules_ok _ _ L) as X. unfold rule_ok in X.
  apply andb_true_iff in X. destruct X as [_ X]. apply andb_true_iff in X. destruct X as [X1 X2].
  split; [exact X1|]. intros Hm. rewrite Hm in X2. exact X2.
Qed.

(* ---------- what a successful target tells about the value ---------- *)
Lemma prelude_lookup n : N.le 1000 n -> lookup_all e n = lookup prelude n.
Proof. intros Hn. unfold lookup_all. rewrite (no_shadow n Hn). reflexivity. Qed.

Lemma prelude_class (P : ty -> bool) (nm : name -> bool) :
  forallb (fun p => negb (nm (fst p)) || match snd p with DType t => P t | DGroup _ => false end) prelude = true ->
  forall n, nm n = true -> N.le 1000 n -> exists t, lookup_all e n = Some (DType t) /\ P t = true \/ lookup_all e n = None.
Proof.
  intros Hall n Hn Hge. rewrite (prelude_lookup n Hge).
  destruct (lookup prelude n) as [d|] eqn:L; [|exists TAny; right; reflexivity].
  pose proof (lookup_forallb (fun n d => negb (nm n) || match d with DType t => P t | DGroup _ => false end) prelude n d Hall L) as X.
  cbv beta in X. rewrite Hn in X. cbn [negb orb] in X. destruct d as [t|g]; [|discriminate].
  exists t. left. split; [reflexivity|exact X].
Qed.

Lemma str_name_ge n : str_name n = true -> N.le 1000 n.
Proof. unfold str_name. intros H. apply andb_true_iff in H. destruct H as [H _]. apply N.leb_le in H. lia. Qed.
Lemma num_name_ge n : num_name n = true -> N.le 1000 n.
Proof.
  unfold num_name. intros H. apply orb_true_iff in H. destruct H as [H|H]; apply andb_true_iff in H; destruct H as [H _]; apply N.leb_le in H; lia.
Qed.
Lemma uint_name_ge n : uint_name n = true -> N.le 1000 n.
Proof. unfold uint_name. intros H. apply N.eqb_eq in H. lia. Qed.

Definition is_str (v : value) : Prop := exists n, str_len v = Some n.
Definition is_num (v : value) : Prop := exists a, num4 v = Some a.
Definition is_uint (v : value) : Prop := exists z, v = VInt z /\ 0 <= z.

Lemma class_sound (P : ty -> bool) (nm : name -> bool) (Q : value -> Prop) :
  (forall t v, P t = true -> leaf jm t v = Some true -> Q v) ->
  (forall t, P t = true -> match t with
                           | TAny | TSimple _ | TTag _ _ | TArr _ | TMap _ => False
                           | TRef n => nm n = true
                           | TOr a b => P a = true /\ P b = true
                           | TCtl _ t' _ => P t' = true
                           | _ => True
                           end) ->
  (forall n, nm n = true -> N.le 1000 n) ->
  forallb (fun p => negb (nm (fst p)) || match snd p with DType t => P t | DGroup _ => false end) prelude = true ->
  forall f t v, P t = true -> vt f jm e t v = Some true -> Q v.
Proof.
  intros Hleaf Hshape Hge Hall. induction f as [|f IH]; intros t v HP H; [discriminate|].
  pose proof (Hshape t HP) as Sh. cbn [vt] in H.
  destruct t as [| m | n | | n t' | l | lo hi incl | n | a b | c t' arg | g | g]; try (destruct Sh; fail);
    try (eapply Hleaf; [exact HP|exact H]).
  - destruct (prelude_class P nm Hall n Sh (Hge n Sh)) as [t' [[L Pt]|L]]; rewrite L in H; [|discriminate].
    exact (IH _ _ Pt H).
  - destruct Sh as [Pa Pb].
    destruct (vt f jm e a v) as [[|]|] eqn:Ea; [exact (IH _ _ Pa Ea)| |];
      (destruct (vt f jm e b v) as [[|]|] eqn:Eb; [exact (IH _ _ Pb Eb)|discriminate|discriminate]).
  - destruct (vt f jm e t' v) as [[|]|] eqn:Et; try discriminate. exact (IH _ _ Sh Et).
Qed.

Lemma str_sound f t v : str_ty t = true -> vt f jm e t v = Some true -> is_str v.
Proof.
  apply (class_sound str_ty str_name is_str).
  - intros t0 v0 HP H. destruct t0 as [| m | | | | l | | | | | |]; try discriminate.
    + cbn [leaf] in H. injection H as H. apply N.eqb_eq in H. cbn [str_ty] in HP.
      destruct v0; cbn [major_of] in H; try (destruct (z <? 0)); subst m; try discriminate; eexists; reflexivity.
    + cbn [leaf] in H. injection H as H. destruct l, v0; cbn [lit_matches] in H; try discriminate; eexists; reflexivity.
  - intros t0 HP. destruct t0 as [| m | | | | l | | | a b | | |]; try discriminate; try exact I; try exact HP.
    cbn [str_ty] in HP. apply andb_true_iff in HP. exact HP.
  - exact str_name_ge.
  - vm_compute. reflexivity.
Qed.

Lemma num_sound f t v : num_ty t = true -> vt f jm e t v = Some true -> is_num v.
Proof.
  apply (class_sound num_ty num_name is_num).
  - intros t0 v0 HP H. destruct t0 as [| m | | | | l | lo hi incl | | | | |]; try discriminate.
    + cbn [leaf] in H. injection H as H. apply N.eqb_eq in H. cbn [num_ty] in HP.
      destruct v0; cbn [major_of] in H; try (destruct (z <? 0)); subst m; try discriminate; eexists; reflexivity.
    + cbn [leaf] in H. injection H as H. destruct v0; try discriminate; eexists; reflexivity.
    + cbn [leaf] in H. injection H as H. destruct l, v0; cbn [lit_matches] in H; try discriminate; eexists; reflexivity.
    + cbn [leaf] in H. injection H as H. destruct v0; cbn [in_range] in H; try discriminate; eexists; reflexivity.
  - intros t0 HP. destruct t0 as [| m | | | | l | | | a b | | |]; try discriminate; try exact I; try exact HP.
    cbn [num_ty] in HP. apply andb_true_iff in HP. exact HP.
  - exact num_name_ge.
  - vm_compute. reflexivity.
Qed.

Lemma uint_sound f t v : uint_ty t = true -> vt f jm e t v = Some true -> is_uint v.
Proof.
  apply (class_sound uint_ty uint_name is_uint).
  - intros t0 v0 HP H. destruct t0 as [| m | | | | l | lo hi incl | | | | |]; try discriminate.
    + cbn [leaf] in H. injection H as H. apply N.eqb_eq in H. cbn [uint_ty] in HP. apply N.eqb_eq in HP. subst m.
      destruct v0; cbn [major_of] in H; try discriminate. destruct (z <? 0) eqn:Ez; try discriminate.
      exists z. split; [reflexivity|]. apply Z.ltb_ge in Ez. exact Ez.
    + cbn [leaf] in H. injection H as H. destruct l as [z0| | |]; try discriminate. cbn [uint_ty] in HP.
      destruct v0; cbn [lit_matches] in H; try discriminate. apply Z.eqb_eq in H. subst z.
      exists z0. split; [reflexivity|]. apply Z.leb_le in HP. exact HP.
    + cbn [leaf] in H. injection H as H. cbn [uint_ty] in HP. destruct v0; cbn [in_range] in H; try discriminate.
      apply andb_true_iff in H. destruct H as [H _]. apply Z.leb_le in H. apply Z.leb_le in HP.
      exists z. split; [reflexivity|lia].
  - intros t0 HP. destruct t0 as [| m | | | | l | | | a b | | |]; try discriminate; try exact I; try exact HP.
    cbn [uint_ty] in HP. apply andb_true_iff in HP. exact HP.
  - exact uint_name_ge.
  - vm_compute. reflexivity.
Qed.

(* ---------- totality ---------- *)
Definition TotT (t : ty) (v : value) : Prop := exists f r, vt f jm e t v = Some r.
Definition TotS (g : grp) (vs : list value) : Prop := exists f r, vseq f jm e g vs = r /\ r <> SFuel.
Definition TotR (g : grp) (lo : N) (hi : option N) (c : N) (vs : list value) : Prop :=
  exists f r, vrep f jm e g lo hi c vs = r /\ r <> SFuel.

Lemma vrep_total g lo hi : forall n vs c, (length vs <= n)%nat ->
  (forall vs', suffix vs' vs -> TotS g vs') -> TotR g lo hi c vs.
Proof.
  induction n as [|n IH]; intros vs c Hlen Hs.
  - destruct (Hs vs (suffix_refl vs)) as (f1 & r1 & E1 & N1).
    exists (S f1). cbn [vrep]. destruct (match hi with Some h => N.leb h c | None => false end);
      [eexists; split; [reflexivity|discriminate]|].
    rewrite E1. destruct r1 as [| |r]; [congruence| |].
    + destruct (N.leb lo c); eexists; split; try reflexivity; discriminate.
    + pose proof (suffix_length _ _ (proj1 (seq_suffix jm e f1) _ _ _ E1)) as Hl.
      assert (length r = length vs) as -> by lia. rewrite Nat.eqb_refl. eexists; split; [reflexivity|discriminate].
  - destruct (Hs vs (suffix_refl vs)) as (f1 & r1 & E1 & N1).
    destruct (match hi with Some h => N.leb h c | None => false end) eqn:Eh.
    { exists 1%nat. cbn [vrep]. rewrite Eh. eexists; split; [reflexivity|discriminate]. }
    destruct r1 as [| |r]; [congruence| |].
    + exists (S f1). cbn [vrep]. rewrite Eh, E1. destruct (N.leb lo c); eexists; split; try reflexivity; discriminate.
    + pose proof (proj1 (seq_suffix jm e f1) _ _ _ E1) as Hsuf.
      pose proof (suffix_length _ _ Hsuf) as Hl.
      destruct (Nat.eqb (length r) (length vs)) eqn:El.
      * exists (S f1). cbn [vrep]. rewrite Eh, E1, El. eexists; split; [reflexivity|discriminate].
      * apply Nat.eqb_neq in El.
        destruct (IH r (N.succ c) ltac:(lia) (fun vs' H' => Hs vs' (suffix_trans _ _ _ H' Hsuf))) as (f2 & r2 & E2 & N2).
        exists (S (Nat.max f1 f2)). cbn [vrep]. rewrite Eh.
        rewrite (vseq_fuel_mono jm e f1 (Nat.max f1 f2) _ _ _ ltac:(lia) E1 ltac:(discriminate)).
        apply Nat.eqb_neq in El. rewrite El.
        rewrite (vrep_fuel_mono jm e f2 (Nat.max f1 f2) _ _ _ _ _ _ ltac:(lia) E2 N2).
        eexists; split; [reflexivity|exact N2].
Qed.

Definition ewf (en : entry) : Prop := wf_ty B (e_key en) = true /\ wf_ty B (e_val en) = true.
Definition alts_wf (alts : list (list entry)) : Prop := Forall (Forall ewf) alts.

Lemma prod_alts_wf a b : alts_wf a -> alts_wf b -> alts_wf (prod_alts a b).
Proof.
  unfold alts_wf, prod_alts. intros Ha Hb. apply Forall_forall. intros x Hx.
  apply in_flat_map in Hx. destruct Hx as [xa [Hxa Hx]]. apply in_map_iff in Hx. destruct Hx as [xb [<- Hxb]].
  apply Forall_app. split; [exact (proj1 (Forall_forall _ _) Ha _ Hxa)|exact (proj1 (Forall_forall _ _) Hb _ Hxb)].
Qed.

Lemma flatten_total : forall b k g, (gsize g <= k)%nat -> wf_map b g = true ->
  exists f alts, flatten f e g = Some alts /\ alts_wf alts.
Proof.
  induction b as [b IHb] using lt_wf_ind. induction k as [k IHk] using lt_wf_ind.
  intros g Hk Hg. destruct g as [| x y | x y | lo hi g' | key c t | n]; cbn [gsize] in Hk; cbn [wf_map] in Hg.
  - exists 1%nat, [[]]. split; [reflexivity|repeat constructor].
  - apply andb_true_iff in Hg. destruct Hg as [Hx Hy].
    destruct (IHk (gsize x) ltac:(lia) x ltac:(lia) Hx) as (f1 & a1 & E1 & W1).
    destruct (IHk (gsize y) ltac:(lia) y ltac:(lia) Hy) as (f2 & a2 & E2 & W2).
    exists (S (Nat.max f1 f2)), (prod_alts a1 a2). cbn [flatten].
    rewrite (flatten_fuel_mono e f1 (Nat.max f1 f2) _ _ ltac:(lia) E1), (flatten_fuel_mono e f2 (Nat.max f1 f2) _ _ ltac:(lia) E2).
    split; [reflexivity|apply prod_alts_wf; assumption].
  - apply andb_true_iff in Hg. destruct Hg as [Hx Hy].
    destruct (IHk (gsize x) ltac:(lia) x ltac:(lia) Hx) as (f1 & a1 & E1 & W1).
    destruct (IHk (gsize y) ltac:(lia) y ltac:(lia) Hy) as (f2 & a2 & E2 & W2).
    exists (S (Nat.max f1 f2)), (a1 ++ a2). cbn [flatten].
    rewrite (flatten_fuel_mono e f1 (Nat.max f1 f2) _ _ ltac:(lia) E1), (flatten_fuel_mono e f2 (Nat.max f1 f2) _ _ ltac:(lia) E2).
    split; [reflexivity|apply Forall_app; split; assumption].
  - destruct g' as [| | | | [key|] c t |]; try discriminate. apply andb_true_iff in Hg.
    exists 1%nat. eexists. split; [reflexivity|]. repeat constructor; apply Hg.
  - destruct key as [key|]; try discriminate. apply andb_true_iff in Hg.
    exists 1%nat. eexists. split; [reflexivity|]. repeat constructor; apply Hg.
  - apply andb_true_iff in Hg. destruct Hg as [Hg Hr]. apply andb_true_iff in Hg. destruct Hg as [Hgr Hm].
    apply Nat.ltb_lt in Hr. destruct (group_rule n Hgr) as (g' & L & _ & Wm).
    destruct (IHb (rho n) Hr (gsize g') g' ltac:(lia) (Wm Hm)) as (f1 & a1 & E1 & W1).
    exists (S f1), a1. cbn [flatten]. rewrite L. split; assumption.
Qed.

Lemma vcol_total k v : forall es, Forall (fun en => TotT (e_key en) k /\ TotT (e_val en) v) es ->
  exists f c, vcol f jm e es k v = Some c.
Proof.
  induction es as [|en es IH]; intros H.
  - exists 1%nat, []. reflexivity.
  - inversion H as [|? ? [(f1 & r1 & E1) (f2 & r2 & E2)] H']. subst.
    destruct (IH H') as (f3 & c & E3).
    exists (S (Nat.max f1 (Nat.max f2 f3))). cbn [vcol].
    rewrite (vt_fuel_mono jm e f1 (Nat.max f1 (Nat.max f2 f3)) _ _ _ ltac:(lia) E1).
    rewrite (vcol_fuel_mono jm e f3 (Nat.max f1 (Nat.max f2 f3)) _ _ _ _ ltac:(lia) E3).
    destruct r1; [|eexists; reflexivity].
    rewrite (vt_fuel_mono jm e f2 (Nat.max f1 (Nat.max f2 f3)) _ _ _ ltac:(lia) E2). eexists; reflexivity.
Qed.

Lemma vcols_total es : forall ps, (forall k v, In (k, v) ps -> Forall (fun en => TotT (e_key en) k /\ TotT (e_val en) v) es) ->
  exists f cs, vcols f jm e es ps = Some cs.
Proof.
  induction ps as [|[k v] ps IH]; intros H.
  - exists 1%nat, []. reflexivity.
  - destruct (vcol_total k v es (H k v (or_introl eq_refl))) as (f1 & c & E1).
    destruct (IH (fun k' v' Hin => H k' v' (or_intror Hin))) as (f2 & cs & E2).
    exists (S (Nat.max f1 f2)). cbn [vcols].
    rewrite (vcol_fuel_mono jm e f1 (Nat.max f1 f2) _ _ _ _ ltac:(lia) E1), (vcols_fuel_mono jm e f2 (Nat.max f1 f2) _ _ _ ltac:(lia) E2).
    eexists; reflexivity.
Qed.

Lemma valts_total ps : forall alts,
  Forall (fun es => forall k v, In (k, v) ps -> Forall (fun en => TotT (e_key en) k /\ TotT (e_val en) v) es) alts ->
  exists f r, valts f jm e alts ps = Some r.
Proof.
  induction alts as [|es alts IH]; intros H.
  - exists 1%nat, false. reflexivity.
  - inversion H as [|? ? Hes H']. subst.
    destruct (vcols_total es ps Hes) as (f1 & cs & E1). destruct (IH H') as (f2 & r2 & E2).
    exists (S (Nat.max f1 f2)). cbn [valts].
    rewrite (vcols_fuel_mono jm e f1 (Nat.max f1 f2) _ _ _ ltac:(lia) E1).
    destruct (decide_map es cs); [eexists; reflexivity|].
    rewrite (valts_fuel_mono jm e f2 (Nat.max f1 f2) _ _ _ ltac:(lia) E2). eexists; reflexivity.
Qed.

Lemma vsize_pos v : (1 <= vsize v)%nat.
Proof. destruct v; cbn [vsize]; lia. Qed.

Lemma total_main : forall sz b k,
  (forall t v, (vsize v <= sz)%nat -> (tsize t <= k)%nat -> wf_ty b t = true -> TotT t v) /\
  (forall g vs, (lsize vs <= sz)%nat -> (gsize g <= k)%nat -> wf_seq b g = true -> TotS g vs).
Proof.
  induction sz as [sz IHsz] using lt_wf_ind. induction b as [b IHb] using lt_wf_ind.
  induction k as [k IHk] using lt_wf_ind.
  split.
  - (* types *)
    intros t v Hv Hk Ht.
    destruct t as [| m | n | | n t' | l | lo hi incl | n | a c | c t' arg | g | g]; cbn [tsize] in Hk; cbn [wf_ty] in Ht;
      try (exists 1%nat; cbn [vt leaf]; eexists; reflexivity).
    + (* tag *)
      destruct v as [| | | | | | | | | n' v' |]; try (exists 1%nat; cbn [vt]; eexists; reflexivity).
      destruct (N.eqb n n') eqn:En; [|exists 1%nat; cbn [vt]; rewrite En; eexists; reflexivity].
      cbn [vsize] in Hv.
      destruct (proj1 (IHsz (vsize v') ltac:(lia) B (tsize t')) t' v' ltac:(lia) ltac:(lia) Ht) as (f1 & r1 & E1).
      exists (S f1). cbn [vt]. rewrite En. eexists; exact E1.
    + (* reference *)
      apply andb_true_iff in Ht. destruct Ht as [Hty Hr]. apply Nat.ltb_lt in Hr.
      destruct (type_rule n Hty) as (t' & L & W).
      destruct (proj1 (IHb (rho n) Hr (tsize t')) t' v Hv ltac:(lia) W) as (f1 & r1 & E1).
      exists (S f1). cbn [vt]. rewrite L. eexists; exact E1.
    + (* choice *)
      apply andb_true_iff in Ht. destruct Ht as [Ha Hc].
      destruct (proj1 (IHk (tsize a) ltac:(lia)) a v Hv ltac:(lia) Ha) as (f1 & r1 & E1).
      destruct (proj1 (IHk (tsize c) ltac:(lia)) c v Hv ltac:(lia) Hc) as (f2 & r2 & E2).
      exists (S (Nat.max f1 f2)). cbn [vt].
      rewrite (vt_fuel_mono jm e f1 (Nat.max f1 f2) _ _ _ ltac:(lia) E1), (vt_fuel_mono jm e f2 (Nat.max f1 f2) _ _ _ ltac:(lia) E2).
      destruct r1, r2; eexists; reflexivity.
    + (* control *)
      apply andb_true_iff in Ht. destruct Ht as [Ht' Hc].
      destruct (proj1 (IHk (tsize t') ltac:(lia)) t' v Hv ltac:(lia) Ht') as (f1 & r1 & E1).
      destruct r1; [|exists (S f1); cbn [vt]; rewrite E1; eexists; reflexivity].
      assert (AndCase : wf_ty b arg = true -> is_and c = true -> TotT (TCtl c t' arg) v).
      { intros Ha Hand. destruct (proj1 (IHk (tsize arg) ltac:(lia)) arg v Hv ltac:(lia) Ha) as (f2 & r2 & E2).
        exists (S (Nat.max f1 f2)). cbn [vt]. rewrite (vt_fuel_mono jm e f1 (Nat.max f1 f2) _ _ _ ltac:(lia) E1), Hand.
        rewrite (vt_fuel_mono jm e f2 (Nat.max f1 f2) _ _ _ ltac:(lia) E2). eexists; reflexivity. }
      destruct c.
      * (* size *)
        apply orb_true_iff in Hc. destruct Hc as [Hc|Hc]; apply andb_true_iff in Hc; destruct Hc as [Hc1 Hc2].
        -- destruct (str_sound _ _ _ Hc1 E1) as [n Hn].
           assert (Hv2 : (2 <= vsize v)%nat) by (destruct v; cbn [str_len] in Hn; try discriminate; cbn [vsize]; lia).
           destruct (proj1 (IHsz 1%nat ltac:(lia) B (tsize arg)) arg (VInt n) ltac:(cbn [vsize]; lia) ltac:(lia) Hc2) as (f2 & r2 & E2).
           exists (S (Nat.max f1 f2)). cbn [vt is_and]. rewrite (vt_fuel_mono jm e f1 (Nat.max f1 f2) _ _ _ ltac:(lia) E1), Hn.
           rewrite (vt_fuel_mono jm e f2 (Nat.max f1 f2) _ _ _ ltac:(lia) E2). eexists; reflexivity.
        -- destruct (uint_sound _ _ _ Hc1 E1) as [z [-> Hz]].
           destruct arg as [| | | | | [n| | |] | | | | | |]; try discriminate. cbn [size_lit_arg] in Hc2.
           exists (S f1). cbn [vt is_and str_len ctl_simple]. rewrite E1.
           apply Z.leb_le in Hz. rewrite Hz, Hc2. cbn [andb]. eexists; reflexivity.
      * apply andb_true_iff in Hc. destruct Hc as [Hn Ha]. destruct (num_sound _ _ _ Hn E1) as [x Hx].
        destruct arg as [| | | | | l | | | | | |]; try discriminate. cbn [num_lit_arg] in Ha. destruct (lit4 l) as [y|] eqn:Ey; try discriminate.
        exists (S f1). cbn [vt is_and ctl_simple]. rewrite E1, Hx, Ey. destruct (str_len v); eexists; reflexivity.
      * apply andb_true_iff in Hc. destruct Hc as [Hn Ha]. destruct (num_sound _ _ _ Hn E1) as [x Hx].
        destruct arg as [| | | | | l | | | | | |]; try discriminate. cbn [num_lit_arg] in Ha. destruct (lit4 l) as [y|] eqn:Ey; try discriminate.
        exists (S f1). cbn [vt is_and ctl_simple]. rewrite E1, Hx, Ey. destruct (str_len v); eexists; reflexivity.
      * apply andb_true_iff in Hc. destruct Hc as [Hn Ha]. destruct (num_sound _ _ _ Hn E1) as [x Hx].
        destruct arg as [| | | | | l | | | | | |]; try discriminate. cbn [num_lit_arg] in Ha. destruct (lit4 l) as [y|] eqn:Ey; try discriminate.
        exists (S f1). cbn [vt is_and ctl_simple]. rewrite E1, Hx, Ey. destruct (str_len v); eexists; reflexivity.
      * apply andb_true_iff in Hc. destruct Hc as [Hn Ha]. destruct (num_sound _ _ _ Hn E1) as [x Hx].
        destruct arg as [| | | | | l | | | | | |]; try discriminate. cbn [num_lit_arg] in Ha. destruct (lit4 l) as [y|] eqn:Ey; try discriminate.
        exists (S f1). cbn [vt is_and ctl_simple]. rewrite E1, Hx, Ey. destruct (str_len v); eexists; reflexivity.
      * destruct arg as [| | | | | l | | | | | |]; try discriminate.
        exists (S f1). cbn [vt is_and ctl_simple]. rewrite E1. destruct (str_len v); eexists; reflexivity.
      * destruct arg as [| | | | | l | | | | | |]; try discriminate.
        exists (S f1). cbn [vt is_and ctl_simple]. rewrite E1. destruct (str_len v); eexists; reflexivity.
      * exact (AndCase Hc eq_refl).
      * exact (AndCase Hc eq_refl).
    + (* array *)
      destruct v as [| | | | | | | l | | |]; try (exists 1%nat; cbn [vt]; eexists; reflexivity).
      rewrite vsize_arr in Hv.
      destruct (proj2 (IHsz (lsize l) ltac:(lia) B (gsize g)) g l ltac:(lia) ltac:(lia) Ht) as (f1 & r1 & E1 & N1).
      exists (S f1). cbn [vt]. rewrite E1. destruct r1 as [| |[|x r]]; try congruence; eexists; reflexivity.
    + (* map *)
      destruct v as [| | | | | | | | ps | |]; try (exists 1%nat; cbn [vt]; eexists; reflexivity).
      rewrite vsize_map in Hv.
      destruct (flatten_total B (gsize g) g ltac:(lia) Ht) as (f0 & alts & E0 & W0).
      assert (Hall : Forall (fun es => forall k v, In (k, v) ps -> Forall (fun en => TotT (e_key en) k /\ TotT (e_val en) v) es) alts).
      { apply Forall_forall. intros es Hes k0 v0 Hin. pose proof (msize_in _ _ _ Hin) as Hm.
        pose proof (vsize_pos k0). pose proof (vsize_pos v0).
        pose proof (proj1 (Forall_forall _ _) W0 es Hes) as Wes.
        apply Forall_forall. intros en Hen. destruct (proj1 (Forall_forall _ _) Wes en Hen) as [Wk Wv]. split.
        - exact (proj1 (IHsz (vsize k0) ltac:(lia) B (tsize (e_key en))) (e_key en) k0 (le_n _) (le_n _) Wk).
        - exact (proj1 (IHsz (vsize v0) ltac:(lia) B (tsize (e_val en))) (e_val en) v0 (le_n _) (le_n _) Wv). }
      destruct (valts_total ps alts Hall) as (f1 & r1 & E1).
      exists (S (Nat.max f0 f1)). cbn [vt].
      rewrite (flatten_fuel_mono e f0 (Nat.max f0 f1) _ _ ltac:(lia) E0).
      rewrite (valts_fuel_mono jm e f1 (Nat.max f0 f1) _ _ _ ltac:(lia) E1). eexists; reflexivity.
  - (* sequences *)
    intros g vs Hv Hk Hg.
    destruct g as [| x y | x y | lo hi g' | key c t | n]; cbn [gsize] in Hk; cbn [wf_seq] in Hg.
    + exists 1%nat. eexists. split; [reflexivity|discriminate].
    + apply andb_true_iff in Hg. destruct Hg as [Hx Hy].
      destruct (proj2 (IHk (gsize x) ltac:(lia)) x vs Hv ltac:(lia) Hx) as (f1 & r1 & E1 & N1).
      destruct r1 as [| |r]; [congruence| |].
      * exists (S f1). cbn [vseq]. rewrite E1. eexists. split; [reflexivity|discriminate].
      * pose proof (lsize_suffix _ _ (proj1 (seq_suffix jm e f1) _ _ _ E1)) as Hr.
        destruct (proj2 (IHk (gsize y) ltac:(lia)) y r ltac:(lia) ltac:(lia) Hy) as (f2 & r2 & E2 & N2).
        exists (S (Nat.max f1 f2)). cbn [vseq].
        rewrite (vseq_fuel_mono jm e f1 (Nat.max f1 f2) _ _ _ ltac:(lia) E1 ltac:(discriminate)).
        rewrite (vseq_fuel_mono jm e f2 (Nat.max f1 f2) _ _ _ ltac:(lia) E2 N2). eexists. split; [reflexivity|exact N2].
    + apply andb_true_iff in Hg. destruct Hg as [Hx Hy].
      destruct (proj2 (IHk (gsize x) ltac:(lia)) x vs Hv ltac:(lia) Hx) as (f1 & r1 & E1 & N1).
      destruct r1 as [| |r]; [congruence| |].
      * destruct (proj2 (IHk (gsize y) ltac:(lia)) y vs Hv ltac:(lia) Hy) as (f2 & r2 & E2 & N2).
        exists (S (Nat.max f1 f2)). cbn [vseq].
        rewrite (vseq_fuel_mono jm e f1 (Nat.max f1 f2) _ _ _ ltac:(lia) E1 ltac:(discriminate)).
        rewrite (vseq_fuel_mono jm e f2 (Nat.max f1 f2) _ _ _ ltac:(lia) E2 N2). eexists. split; [reflexivity|exact N2].
      * exists (S f1). cbn [vseq]. rewrite E1. eexists. split; [reflexivity|discriminate].
    + assert (Hs : forall vs', suffix vs' vs -> TotS g' vs').
      { intros vs' Hsuf. pose proof (lsize_suffix _ _ Hsuf).
        exact (proj2 (IHk (gsize g') ltac:(lia)) g' vs' ltac:(lia) ltac:(lia) Hg). }
      destruct (vrep_total g' lo hi (length vs) vs 0%N (le_n _) Hs) as (f1 & r1 & E1 & N1).
      exists (S f1). cbn [vseq]. eexists. split; [exact E1|exact N1].
    + destruct vs as [|v r]; [exists 1%nat; eexists; split; [reflexivity|discriminate]|].
      cbn [lsize fold_right] in Hv. fold (lsize r) in Hv.
      destruct (proj1 (IHk (tsize t) ltac:(lia)) t v ltac:(lia) ltac:(lia) Hg) as (f1 & r1 & E1).
      exists (S f1). cbn [vseq]. rewrite E1. destruct r1; eexists; split; try reflexivity; discriminate.
    + apply andb_true_iff in Hg. destruct Hg as [Hgr Hr]. apply Nat.ltb_lt in Hr.
      destruct (group_rule n Hgr) as (g' & L & W & _).
      destruct (proj2 (IHb (rho n) Hr (gsize g')) g' vs Hv ltac:(lia) W) as (f1 & r1 & E1 & N1).
      exists (S f1). cbn [vseq]. rewrite L. eexists. split; [exact E1|exact N1].
Qed.

Theorem decider_total t v : wf_ty B t = true -> exists f r, vt f jm e t v = Some r.
Proof. intros Ht. exact (proj1 (total_main (vsize v) B (tsize t)) t v (le_n _) (le_n _) Ht). Qed.

End Total.

(* the RFC semantics assigns a verdict to every value: the specification is total on well-founded schemas *)
From Cddl Require Import Sem.Sem Sem.Sound.
Theorem semantics_total jm e rho B mg t v :
  wf_env_b e rho B mg = true -> wf_ty e rho B mg B t = true -> MatchT jm e t v \/ FailT jm e t v.
Proof.
  intros He Ht. destruct (decider_total jm e rho B mg He t v Ht) as (f & r & E).
  pose proof (vt_sound jm e f t v r E) as S. destruct r; [left|right]; exact S.
Qed.

(* rank functions given as association lists, for concrete schemas *)
Definition rank_of (rk : list (name * nat)) (n : name) : nat :=
  match find (fun p => N.eqb (fst p) n) rk with Some p => snd p | None => O end.
Definition in_names (l : list name) (n : name) : bool := existsb (N.eqb n) l.

(* ranks of the prelude: aliases and unions above what they refer to *)
Definition prelude_ranks : list (name * nat) :=
  [ (1003%N, 1%nat); (1005%N, 1%nat); (1007%N, 1%nat); (1011%N, 1%nat); (1012%N, 2%nat); (1015%N, 1%nat); (1017%N, 1%nat) ].
