(* C08, unreachable rules: the verdict of a type depends only on the rules reachable from it.
   R is any set of names that contains the references of the type and is closed under the rules'
   own references; two rule sets that resolve every name of R alike give the same answer at every
   fuel - so adding, removing, changing or reordering rules outside R is invisible. *)
From Cddl Require Import Sem.Syntax Sem.Validator Sem.Sem Sem.Complete.
Open Scope Z_scope.

Section Reach.
Variable R : name -> bool.

Fixpoint refs_in (t : ty) : bool :=
  match t with
  | TRef n => R n
  | TTag _ t' => refs_in t'
  | TOr a b => refs_in a && refs_in b
  | TCtl _ t' arg => refs_in t' && refs_in arg
  | TArr g | TMap g => grefs_in g
  | TAny | TMajor _ | TSimple _ | TFloat | TLit _ | TRange _ _ _ => true
  end
with grefs_in (g : grp) : bool :=
  match g with
  | GEmpty => true
  | GSeq a b | GOr a b => grefs_in a && grefs_in b
  | GOcc _ _ g' => grefs_in g'
  | GEnt k _ t => match k with Some k' => refs_in k' | None => true end && refs_in t
  | GRef n => R n
  end.

Definition def_refs_in (d : def) : bool :=
  match d with DType t => refs_in t | DGroup g => grefs_in g end.

Definition entry_in (en : entry) : bool := refs_in (e_key en) && refs_in (e_val en).

Variable jm : bool.
Variables e e' : env.
Hypothesis Hagree : forall n, R n = true -> lookup_all e n = lookup_all e' n.
Hypothesis Hclosed : forall n d, R n = true -> lookup_all e n = Some d -> def_refs_in d = true.

Definition alts_in (alts : list (list entry)) : Prop :=
  Forall (fun es => Forall (fun en => entry_in en = true) es) alts.

Lemma prod_alts_in a b : alts_in a -> alts_in b -> alts_in (prod_alts a b).
Proof.
  unfold alts_in, prod_alts. intros Ha Hb. apply Forall_forall. intros x Hx.
  apply in_flat_map in Hx. destruct Hx as [xa [Hxa Hx]]. apply in_map_iff in Hx. destruct Hx as [xb [<- Hxb]].
  apply Forall_app. split; [exact (proj1 (Forall_forall _ _) Ha _ Hxa)|exact (proj1 (Forall_forall _ _) Hb _ Hxb)].
Qed.

Lemma flatten_reach : forall f g, grefs_in g = true ->
  flatten f e g = flatten f e' g /\ (forall alts, flatten f e g = Some alts -> alts_in alts).
Proof.
  induction f as [|f IH]; intros g Hg; [split; [reflexivity|discriminate]|].
  cbn [flatten]. destruct g as [| x y | x y | lo hi g' | k c t | n]; cbn [grefs_in] in Hg.
  - split; [reflexivity|]. intros alts H. injection H as <-. repeat constructor.
  - apply andb_true_iff in Hg. destruct Hg as [Hx Hy].
    destruct (IH x Hx) as [Ex Wx]. destruct (IH y Hy) as [Ey Wy]. rewrite <- Ex, <- Ey. split; [reflexivity|].
    intros alts H. destruct (flatten f e x) eqn:E1; [|discriminate]. destruct (flatten f e y) eqn:E2; [|discriminate].
    injection H as <-. apply prod_alts_in; [exact (Wx _ eq_refl)|exact (Wy _ eq_refl)].
  - apply andb_true_iff in Hg. destruct Hg as [Hx Hy].
    destruct (IH x Hx) as [Ex Wx]. destruct (IH y Hy) as [Ey Wy]. rewrite <- Ex, <- Ey. split; [reflexivity|].
    intros alts H. destruct (flatten f e x) eqn:E1; [|discriminate]. destruct (flatten f e y) eqn:E2; [|discriminate].
    injection H as <-. apply Forall_app. split; [exact (Wx _ eq_refl)|exact (Wy _ eq_refl)].
  - split; [reflexivity|]. intros alts H. destruct g' as [| | | | [k|] c t |]; try discriminate. injection H as <-.
    cbn [grefs_in] in Hg. repeat constructor. exact Hg.
  - split; [reflexivity|]. intros alts H. destruct k as [k|]; [|discriminate]. injection H as <-. repeat constructor. exact Hg.
  - rewrite <- (Hagree n Hg). destruct (lookup_all e n) as [[t|g']|] eqn:L; try (split; [reflexivity|discriminate]).
    exact (IH g' (Hclosed n _ Hg L)).
Qed.

Lemma reach : forall f,
  (forall t v, refs_in t = true -> vt f jm e t v = vt f jm e' t v) /\
  (forall g vs, grefs_in g = true -> vseq f jm e g vs = vseq f jm e' g vs) /\
  (forall g lo hi c vs, grefs_in g = true -> vrep f jm e g lo hi c vs = vrep f jm e' g lo hi c vs) /\
  (forall es k v, Forall (fun en => entry_in en = true) es -> vcol f jm e es k v = vcol f jm e' es k v) /\
  (forall es ps, Forall (fun en => entry_in en = true) es -> vcols f jm e es ps = vcols f jm e' es ps) /\
  (forall alts ps, alts_in alts -> valts f jm e alts ps = valts f jm e' alts ps).
Proof.
  induction f as [|f (IHt & IHs & IHr & IHc & IHcs & IHa)].
  { repeat split; intros; reflexivity. }
  repeat split.
  - intros t v Ht. cbn [vt].
    destruct t as [| m | n | | n t' | l | lo hi incl | n | a b | c t' arg | g | g]; try reflexivity; cbn [refs_in] in Ht.
    + destruct v; try reflexivity. rewrite (IHt _ _ Ht). reflexivity.
    + rewrite <- (Hagree n Ht). destruct (lookup_all e n) as [[t'|g']|] eqn:L; try reflexivity.
      apply IHt. exact (Hclosed n _ Ht L).
    + apply andb_true_iff in Ht. destruct Ht as [Ha Hb]. rewrite (IHt _ v Ha), (IHt _ v Hb). reflexivity.
    + apply andb_true_iff in Ht. destruct Ht as [Ha Hb]. rewrite (IHt _ v Ha), (IHt _ v Hb).
      destruct (vt f jm e' t' v) as [[|]|]; try reflexivity.
      destruct (is_and c); try reflexivity. destruct c; try reflexivity.
      destruct (str_len v); try reflexivity. apply IHt. exact Hb.
    + destruct v; try reflexivity. rewrite (IHs _ _ Ht). reflexivity.
    + destruct v; try reflexivity. destruct (flatten_reach f g Ht) as [Ef Wf]. rewrite <- Ef.
      destruct (flatten f e g) as [alts|] eqn:E; try reflexivity. apply IHa. exact (Wf _ eq_refl).
  - intros g vs Hg. cbn [vseq].
    destruct g as [| a b | a b | lo hi g' | k c t | n]; try reflexivity; cbn [grefs_in] in Hg.
    + apply andb_true_iff in Hg. destruct Hg as [Ha Hb]. rewrite (IHs _ vs Ha).
      destruct (vseq f jm e' a vs); try reflexivity. apply IHs. exact Hb.
    + apply andb_true_iff in Hg. destruct Hg as [Ha Hb]. rewrite (IHs _ vs Ha).
      destruct (vseq f jm e' a vs); try reflexivity. apply IHs. exact Hb.
    + apply IHr. exact Hg.
    + apply andb_true_iff in Hg. destruct Hg as [_ Hb]. destruct vs as [|v r]; try reflexivity.
      rewrite (IHt _ v Hb). reflexivity.
    + rewrite <- (Hagree n Hg). destruct (lookup_all e n) as [[t'|g']|] eqn:L; try reflexivity.
      apply IHs. exact (Hclosed n _ Hg L).
  - intros g lo hi c vs Hg. cbn [vrep].
    destruct (match hi with Some h => N.leb h c | None => false end); try reflexivity.
    rewrite (IHs _ vs Hg). destruct (vseq f jm e' g vs) as [| |r]; try reflexivity.
    destruct (Nat.eqb (length r) (length vs)); try reflexivity. apply IHr. exact Hg.
  - intros es k v Hes. cbn [vcol]. destruct es as [|en es]; try reflexivity.
    inversion Hes as [|? ? Hen Hes']. subst. unfold entry_in in Hen. apply andb_true_iff in Hen. destruct Hen as [Hk Hv].
    rewrite (IHt _ k Hk), (IHt _ v Hv), (IHc es k v Hes'). reflexivity.
  - intros es ps Hes. cbn [vcols]. destruct ps as [|[k v] ps]; try reflexivity.
    rewrite (IHc es k v Hes), (IHcs es ps Hes). reflexivity.
  - intros alts ps Ha. cbn [valts]. destruct alts as [|es alts]; try reflexivity.
    inversion Ha as [|? ? Hes Ha']. subst.
    rewrite (IHcs es ps Hes), (IHa alts ps Ha'). reflexivity.
Qed.

End Reach.

(* symmetric form and its reading on the specification *)
Theorem reach_vt R jm e e' f t v :
  (forall n, R n = true -> lookup_all e n = lookup_all e' n) ->
  (forall n d, R n = true -> lookup_all e n = Some d -> def_refs_in R d = true) ->
  refs_in R t = true -> vt f jm e t v = vt f jm e' t v.
Proof. intros Ha Hc Ht. exact (proj1 (reach R jm e e' Ha Hc f) t v Ht). Qed.

Theorem reach_sem R jm e e' t v :
  (forall n, R n = true -> lookup_all e n = lookup_all e' n) ->
  (forall n d, R n = true -> lookup_all e n = Some d -> def_refs_in R d = true) ->
  refs_in R t = true ->
  (MatchT jm e t v <-> MatchT jm e' t v) /\ (FailT jm e t v <-> FailT jm e' t v).
Proof.
  intros Ha Hc Ht.
  pose proof (vmodel_exact jm e t v) as [M1 F1]. pose proof (vmodel_exact jm e' t v) as [M2 F2].
  split; split; intros H.
  - apply M2. apply M1 in H. destruct H as [f H]. exists f. rewrite <- (reach_vt R jm e e' f t v Ha Hc Ht). exact H.
  - apply M1. apply M2 in H. destruct H as [f H]. exists f. rewrite (reach_vt R jm e e' f t v Ha Hc Ht). exact H.
  - apply F2. apply F1 in H. destruct H as [f H]. exists f. rewrite <- (reach_vt R jm e e' f t v Ha Hc Ht). exact H.
  - apply F1. apply F2 in H. destruct H as [f H]. exists f. rewrite (reach_vt R jm e e' f t v Ha Hc Ht). exact H.
Qed.
