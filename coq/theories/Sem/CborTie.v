(* CBOR validation = decoding (C11 model) followed by the data-model decider: the verdict cannot
   depend on which well-formed encoding of an item was supplied. *)
From Cddl Require Import Base.Bytes Cbor.Wire Cbor.Wf Cbor.DecodeProofs Sem.Syntax Sem.Validator.

Section Tie.
(* any reading of the crate's decoded Value as a data-model value *)
Variable conv : cval -> value.

Definition vbytes (f : nat) (e : env) (t : ty) (bs : list N) : option bool :=
  match decode_cbor bs with
  | Ok c => vt f false e t (conv c)
  | Err _ => Some false
  end.

Theorem encoding_independent_verdict f e t x e1 e2 :
  wf_bytes e1 -> wf_bytes e2 -> Enc x e1 -> Enc x e2 -> vbytes f e t e1 = vbytes f e t e2.
Proof.
  intros W1 W2 H1 H2. unfold vbytes.
  destruct (encoding_independent x e1 e2 W1 W2 H1 H2) as [-> ->]. reflexivity.
Qed.
End Tie.
