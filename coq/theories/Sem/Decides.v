(* Whenever the decider answers, its answer is the RFC verdict, in both directions. *)
From Cddl Require Import Sem.Syntax Sem.Validator Sem.Sem Sem.Sound Sem.Excl.
Open Scope Z_scope.

Theorem vmodel_decides jm e f t v b :
  vt f jm e t v = Some b ->
  (b = true <-> MatchT jm e t v) /\ (b = false <-> FailT jm e t v).
Proof.
  intros H. pose proof (vt_sound jm e f t v b H) as S. destruct b; split; split; intros X; auto; try discriminate.
  - exfalso. eapply sem_exclusive; eauto.
  - exfalso. eapply sem_exclusive; eauto.
Qed.

(* the cursor algorithm of the array matcher is the PEG natural semantics *)
Theorem vseq_decides jm e f g vs :
  match vseq f jm e g vs with
  | SOk r => SeqOk jm e g vs r /\ (forall r', SeqOk jm e g vs r' -> r' = r) /\ ~ SeqFail jm e g vs
  | SFail => SeqFail jm e g vs /\ forall r, ~ SeqOk jm e g vs r
  | SFuel => True
  end.
Proof.
  pose proof (proj1 (proj2 (sound jm e f)) g vs) as S. unfold seq_sound in S.
  destruct (vseq f jm e g vs) as [| |r]; auto.
  - split; auto. exact (proj1 (proj2 (proj2 (proj2 (excl jm e)))) g vs S).
  - destruct (proj1 (proj2 (proj2 (excl jm e))) g vs r S) as [D F]. auto.
Qed.

(* a schema without a root type rule: the code validates nothing and accepts; the model says "?" *)
Lemma verdict_no_root f jm v : verdict f jm [] v = [63%N].
Proof. reflexivity. Qed.
