(* C09: defining identities of the type operators, over the specification Sem.v. *)
From Cddl Require Import Sem.Syntax Sem.Validator Sem.Sem Sem.Excl.
From Coq Require Import ZifyBool.
Open Scope Z_scope.

Section Id.
Variable jm : bool.
Variable e : env.
Ltac inv H := inversion H; subst; clear H.

Lemma leaf_none_or a b v x : leaf jm (TOr a b) v = Some x -> False.
Proof. discriminate. Qed.

(* A / B accepts exactly when A or B does, in either order *)
Theorem choice_or a b v : MatchT jm e (TOr a b) v <-> MatchT jm e a v \/ MatchT jm e b v.
Proof.
  split.
  - intros H. inv H; auto. discriminate.
  - intros [H|H]; [apply M_or1|apply M_or2]; auto.
Qed.

Theorem choice_fail a b v : FailT jm e (TOr a b) v <-> FailT jm e a v /\ FailT jm e b v.
Proof.
  split.
  - intros H. inv H; auto. discriminate.
  - intros [Ha Hb]. apply F_or; auto.
Qed.

Theorem choice_comm a b v : MatchT jm e (TOr a b) v <-> MatchT jm e (TOr b a) v.
Proof. rewrite !choice_or. tauto. Qed.

(* .and and .within accept exactly when both operands do *)
Theorem and_conj c a b v : is_and c = true -> (MatchT jm e (TCtl c a b) v <-> MatchT jm e a v /\ MatchT jm e b v).
Proof.
  intros Hc. split.
  - intros H. inv H; auto; try discriminate; try congruence.
  - intros [Ha Hb]. apply M_ctl_and; auto.
Qed.

(* T .ne v accepts exactly the members of T that T .eq v rejects *)
Theorem ne_is_complement_in_T t l v :
  MatchT jm e (TCtl CNe t (TLit l)) v <-> MatchT jm e t v /\ ~ MatchT jm e (TCtl CEq t (TLit l)) v.
Proof.
  split.
  - intros H. inv H; try discriminate.
    match goal with H : ctl_simple CNe _ _ = Some true |- _ => cbn in H; inv H end.
    split; auto. intros M. inv M; try discriminate.
    match goal with H : ctl_simple CEq _ _ = Some true |- _ => cbn in H; inv H end.
    match goal with H1 : negb ?x = true, H2 : ?x = true |- _ => rewrite H2 in H1; discriminate end.
  - intros [Ht Hn]. apply M_ctl_simple; auto; [discriminate|]. cbn.
    destruct (lit_matches l v) eqn:E; [|reflexivity].
    exfalso. apply Hn. apply M_ctl_simple; auto; [discriminate|]. cbn. rewrite E. reflexivity.
Qed.

(* inclusive and exclusive ranges differ only at the upper bound *)
Lemma range_iff lo hi incl v : MatchT jm e (TRange lo hi incl) v <-> in_range lo hi incl v = true.
Proof.
  split.
  - intros H. inversion H; subst. cbn in H0. congruence.
  - intros H. apply M_leaf. cbn. rewrite H. reflexivity.
Qed.

Theorem range_excl_vs_incl lo hi v :
  MatchT jm e (TRange lo hi false) v <-> MatchT jm e (TRange lo hi true) v /\ v <> VInt hi.
Proof.
  rewrite !range_iff. destruct v; cbn; try (split; [discriminate|intros [? ?]; discriminate]).
  split.
  - intros H. split; [lia|]. intros X. inversion X. lia.
  - intros [H Hn]. assert (z <> hi) by (intros ->; apply Hn; reflexivity). lia.
Qed.

(* prelude names accept exactly what their Appendix D definitions accept *)
Theorem prelude_unfold n t v :
  lookup e n = None -> lookup prelude n = Some (DType t) -> (MatchT jm e (TRef n) v <-> MatchT jm e t v).
Proof.
  intros Hu Hp. assert (L : lookup_all e n = Some (DType t)) by (unfold lookup_all; rewrite Hu; exact Hp).
  split.
  - intros H. inv H; try discriminate. rewrite L in *. congruence.
  - intros H. eapply M_ref; eauto.
Qed.

End Id.

(* Appendix D, as a finite table *)
Lemma prelude_table :
  map fst prelude = [1000;1001;1002;1003;1004;1005;1006;1007;1008;1009;1010;1011;1012;1013;1014;1015;1016;1017;1018]%N
  /\ lookup prelude 1003%N = Some (DType (TOr (TRef 1001%N) (TRef 1002%N)))      (* int = uint / nint *)
  /\ lookup prelude 1012%N = Some (DType (TOr (TRef 1003%N) (TRef 1011%N)))      (* number = int / float *)
  /\ lookup prelude 1015%N = Some (DType (TOr (TRef 1013%N) (TRef 1014%N)))      (* bool = false / true *)
  /\ lookup prelude 1007%N = Some (DType (TRef 1006%N))                        (* text = tstr *)
  /\ lookup prelude 1005%N = Some (DType (TRef 1004%N))                        (* bytes = bstr *)
  /\ lookup prelude 1017%N = Some (DType (TRef 1016%N))                        (* null = nil *)
  /\ lookup prelude 1001%N = Some (DType (TMajor 0%N))                         (* uint = #0 *)
  /\ lookup prelude 1002%N = Some (DType (TMajor 1%N)).                        (* nint = #1 *)
Proof. repeat split. Qed.
