(* C10, schema side: exchanging two neighbouring members of a map group whose key sets are disjoint
   changes neither verdict.  (Any permutation of the members is a product of such exchanges.) *)
From Cddl Require Import Sem.Syntax Sem.Validator Sem.Sem.
Open Scope Z_scope.

(* exchange the elements at positions n and n+1 *)
Fixpoint swap2 {A} (n : nat) (l : list A) : list A :=
  match n, l with
  | O, x :: y :: r => y :: x :: r
  | S n', x :: r => x :: swap2 n' r
  | _, _ => l
  end.

Definition ren (n i : nat) : nat := if Nat.eqb i n then S n else if Nat.eqb i (S n) then n else i.

Lemma ren_invol n i : ren n (ren n i) = i.
Proof.
  unfold ren. destruct (Nat.eqb i n) eqn:E1.
  - apply Nat.eqb_eq in E1. subst. rewrite Nat.eqb_refl.
    destruct (Nat.eqb (S n) n) eqn:E; [apply Nat.eqb_eq in E; lia|reflexivity].
  - destruct (Nat.eqb i (S n)) eqn:E2.
    + apply Nat.eqb_eq in E2. subst. rewrite Nat.eqb_refl. reflexivity.
    + rewrite E1, E2. reflexivity.
Qed.

Lemma ren_inj n i j : ren n i = ren n j -> i = j.
Proof. intros H. rewrite <- (ren_invol n i), <- (ren_invol n j), H. reflexivity. Qed.

Lemma swap2_length {A} : forall n (l : list A), length (swap2 n l) = length l.
Proof.
  induction n as [|n IH]; intros l; destruct l as [|x [|y r]]; cbn [swap2 length]; try reflexivity.
  - rewrite IH. reflexivity.
  - rewrite IH. reflexivity.
Qed.

Lemma swap2_invol {A} : forall n (l : list A), swap2 n (swap2 n l) = l.
Proof.
  induction n as [|n IH]; intros l; destruct l as [|x [|y r]]; cbn [swap2]; try reflexivity.
  - rewrite IH. reflexivity.
  - rewrite IH. reflexivity.
Qed.

Lemma nth_swap2 {A} : forall n (l : list A) i, (S n < length l)%nat ->
  nth_error (swap2 n l) (ren n i) = nth_error l i.
Proof.
  induction n as [|n IH]; intros l i Hl.
  - destruct l as [|x [|y r]]; cbn [length] in Hl; try lia. cbn [swap2]. unfold ren.
    destruct i as [|[|i]]; reflexivity.
  - destruct l as [|x r]; cbn [length] in Hl; try lia. cbn [swap2].
    destruct i as [|i].
    + unfold ren. cbn [Nat.eqb]. reflexivity.
    + assert (ren (S n) (S i) = S (ren n i)) as ->.
      { unfold ren. cbn [Nat.eqb]. destruct (Nat.eqb i n); [reflexivity|]. destruct (Nat.eqb i (S n)); reflexivity. }
      cbn [nth_error]. apply IH. lia.
Qed.

Lemma nth_swap2' {A} n (l : list A) i : (S n < length l)%nat ->
  nth_error (swap2 n l) i = nth_error l (ren n i).
Proof. intros Hl. rewrite <- (nth_swap2 n l (ren n i) Hl), ren_invol. reflexivity. Qed.

(* ---------- columns in which at most one member matches the key ---------- *)
Definition key_at (col : list cell) (i : nat) : bool :=
  match nth_error col i with Some (kb, _) => kb | None => false end.

Definition disjoint_col (col : list cell) : Prop :=
  forall i j, key_at col i = true -> key_at col j = true -> i = j.

Lemma disjoint_swap n col : (S n < length col)%nat -> disjoint_col col -> disjoint_col (swap2 n col).
Proof.
  intros Hl D i j Hi Hj. unfold key_at in Hi, Hj.
  rewrite (nth_swap2' n col i Hl) in Hi. rewrite (nth_swap2' n col j Hl) in Hj.
  apply (ren_inj n). apply D; assumption.
Qed.

Lemma no_cut_before_free : forall i es col, (i <= length es)%nat -> (i <= length col)%nat ->
  (forall j, (j < i)%nat -> key_at col j = false) -> no_cut_before es col i = true.
Proof.
  induction i as [|i IH]; intros es col He Hc H; [destruct es; reflexivity|].
  destruct es as [|en es]; cbn [length] in He; [lia|].
  destruct col as [|[kb vb] col]; cbn [length] in Hc; [lia|]. cbn [no_cut_before].
  pose proof (H O ltac:(lia)) as H0. unfold key_at in H0. cbn [nth_error] in H0. subst kb.
  rewrite andb_false_r. cbn [negb andb]. apply IH; try lia. intros j Hj. exact (H (S j) ltac:(lia)).
Qed.

Lemma key_at_true col i : key_at col i = true -> (i < length col)%nat.
Proof.
  unfold key_at. intros H. apply nth_error_Some. destruct (nth_error col i); [discriminate|discriminate].
Qed.

Lemma pair_ok_swap n es col i : length col = length es -> (S n < length es)%nat -> disjoint_col col ->
  pair_ok es col i = true -> pair_ok (swap2 n es) (swap2 n col) (ren n i) = true.
Proof.
  intros Hlen Hn D H. unfold pair_ok in *. rewrite (nth_swap2 n col i ltac:(lia)).
  destruct (nth_error col i) as [[[|] [|]]|] eqn:E; try discriminate.
  assert (K : key_at (swap2 n col) (ren n i) = true).
  { unfold key_at. rewrite (nth_swap2 n col i ltac:(lia)), E. reflexivity. }
  pose proof (key_at_true _ _ K) as Hi. rewrite swap2_length in Hi.
  apply no_cut_before_free; rewrite ?swap2_length; try lia.
  intros j Hj. destruct (key_at (swap2 n col) j) eqn:Kj; [|reflexivity].
  pose proof (disjoint_swap n col ltac:(lia) D _ _ Kj K). lia.
Qed.

Lemma counts_ok_spec : forall es k a,
  counts_ok es k a = true <-> (forall i en, nth_error es i = Some en -> bound_ok en (count_idx (k + i) a) = true).
Proof.
  induction es as [|e0 es IH]; intros k a; cbn [counts_ok].
  - split; [intros _ i en H; destruct i; discriminate|reflexivity].
  - rewrite andb_true_iff, IH. split.
    + intros [H0 H] i en Hi. destruct i as [|i]; cbn [nth_error] in Hi.
      * injection Hi as <-. rewrite Nat.add_0_r. exact H0.
      * replace (k + S i)%nat with (S k + i)%nat by lia. exact (H i en Hi).
    + intros H. split.
      * specialize (H O e0 eq_refl). rewrite Nat.add_0_r in H. exact H.
      * intros i en Hi. specialize (H (S i) en Hi). replace (k + S i)%nat with (S k + i)%nat in H by lia. exact H.
Qed.

Lemma count_idx_ren n i a : count_idx i (map (ren n) a) = count_idx (ren n i) a.
Proof.
  unfold count_idx. f_equal. induction a as [|x a IH]; [reflexivity|]. cbn [map count_occ].
  destruct (Nat.eq_dec (ren n x) i) as [E|E]; destruct (Nat.eq_dec x (ren n i)) as [E'|E'].
  - rewrite IH. reflexivity.
  - exfalso. apply E'. rewrite <- E, ren_invol. reflexivity.
  - exfalso. apply E. rewrite E', ren_invol. reflexivity.
  - exact IH.
Qed.

Definition good_cols (es : list entry) (cols : list (list cell)) : Prop :=
  Forall (fun col => length col = length es /\ disjoint_col col) cols.

Lemma valid_swap n es : (S n < length es)%nat -> forall cols a, good_cols es cols ->
  valid_assign es cols a = true -> valid_assign (swap2 n es) (map (swap2 n) cols) (map (ren n) a) = true.
Proof.
  intros Hn cols a G H. unfold valid_assign in *. apply andb_true_iff in H. destruct H as [Hp Hc]. apply andb_true_iff. split.
  - clear Hc. revert a Hp. induction G as [|col cols [Hl D] G IH]; intros a Hp; destruct a as [|i a]; cbn [pairs_ok map] in *; try discriminate; [reflexivity|].
    apply andb_true_iff in Hp. destruct Hp as [H1 H2]. apply andb_true_iff. split.
    + apply pair_ok_swap; assumption.
    + apply IH. exact H2.
  - apply counts_ok_spec. intros i en Hi. cbn [Nat.add]. rewrite count_idx_ren.
    rewrite (nth_swap2' n es i Hn) in Hi. exact (proj1 (counts_ok_spec es 0 a) Hc (ren n i) en Hi).
Qed.

Lemma good_cols_swap n es cols : (S n < length es)%nat -> good_cols es cols -> good_cols (swap2 n es) (map (swap2 n) cols).
Proof.
  intros Hn G. unfold good_cols in *. apply Forall_forall. intros c Hc. apply in_map_iff in Hc. destruct Hc as [c0 [<- Hin]].
  destruct (proj1 (Forall_forall _ _) G c0 Hin) as [Hl D]. rewrite !swap2_length. split; [exact Hl|].
  apply disjoint_swap; [lia|exact D].
Qed.

Lemma map_swap2_invol n (cols : list (list cell)) : map (swap2 n) (map (swap2 n) cols) = cols.
Proof. rewrite map_map. rewrite <- (map_id cols) at 2. apply map_ext. intros c. apply swap2_invol. Qed.

Theorem assignment_exists_swap n es cols : (S n < length es)%nat -> good_cols es cols ->
  ((exists a, valid_assign es cols a = true) <-> (exists a, valid_assign (swap2 n es) (map (swap2 n) cols) a = true)).
Proof.
  intros Hn G. split; intros [a H].
  - exists (map (ren n) a). apply valid_swap; assumption.
  - exists (map (ren n) a).
    pose proof (valid_swap n (swap2 n es) ltac:(rewrite swap2_length; exact Hn) _ a (good_cols_swap n es cols Hn G) H) as X.
    rewrite swap2_invol, map_swap2_invol in X. exact X.
Qed.

(* ---------- the specification ---------- *)
Section Spec.
Variable jm : bool.
Variable e : env.

Lemma colr_length es k v c : ColR jm e es k v c -> length c = length es.
Proof. induction 1; cbn [length]; congruence. Qed.

Lemma colr_swap : forall n es k v c, ColR jm e es k v c -> ColR jm e (swap2 n es) k v (swap2 n c).
Proof.
  induction n as [|n IH]; intros es k v c H.
  - destruct H as [k v | en es k v c Hk H | en es k v c Hk Hv H | en es k v c Hk Hv H]; cbn [swap2]; try constructor; try assumption.
    all: destruct H as [k v | en2 es2 k v c2 Hk2 H2 | en2 es2 k v c2 Hk2 Hv2 H2 | en2 es2 k v c2 Hk2 Hv2 H2]; cbn [swap2]; repeat (constructor; try assumption).
  - destruct H as [k v | en es k v c Hk H | en es k v c Hk Hv H | en es k v c Hk Hv H]; cbn [swap2]; constructor; try assumption; apply IH; assumption.
Qed.

Lemma colsr_swap n es ps cols : ColsR jm e es ps cols -> ColsR jm e (swap2 n es) ps (map (swap2 n) cols).
Proof. induction 1; cbn [map]; constructor; [apply colr_swap; assumption|assumption]. Qed.

(* the members' key sets are pairwise disjoint: no data item is a key of two members *)
Definition keys_disjoint (es : list entry) : Prop :=
  forall k i j en1 en2, nth_error es i = Some en1 -> nth_error es j = Some en2 ->
    MatchT jm e (e_key en1) k -> MatchT jm e (e_key en2) k -> i = j.

Lemma colr_key_match : forall es k v c, ColR jm e es k v c ->
  forall i, key_at c i = true -> exists en, nth_error es i = Some en /\ MatchT jm e (e_key en) k.
Proof.
  induction 1 as [k v | en es k v c Hk H IH | en es k v c Hk Hv H IH | en es k v c Hk Hv H IH]; intros i Hi.
  - unfold key_at in Hi. destruct i; discriminate.
  - destruct i as [|i]; [unfold key_at in Hi; cbn [nth_error] in Hi; discriminate|]. exact (IH i Hi).
  - destruct i as [|i]; [exists en; split; [reflexivity|exact Hk]|]. exact (IH i Hi).
  - destruct i as [|i]; [exists en; split; [reflexivity|exact Hk]|]. exact (IH i Hi).
Qed.

Lemma colr_disjoint es k v c : keys_disjoint es -> ColR jm e es k v c -> disjoint_col c.
Proof.
  intros D H i j Hi Hj.
  destruct (colr_key_match _ _ _ _ H i Hi) as (en1 & E1 & M1). destruct (colr_key_match _ _ _ _ H j Hj) as (en2 & E2 & M2).
  exact (D k i j en1 en2 E1 E2 M1 M2).
Qed.

Lemma colsr_good es ps cols : keys_disjoint es -> ColsR jm e es ps cols -> good_cols es cols.
Proof.
  intros D. induction 1 as [es|es k v ps c cs Hc Hcs IH]; [constructor|].
  constructor; [split; [exact (colr_length _ _ _ _ Hc)|exact (colr_disjoint _ _ _ _ D Hc)]|exact (IH D)].
Qed.

Lemma keys_disjoint_swap n es : (S n < length es)%nat -> keys_disjoint es -> keys_disjoint (swap2 n es).
Proof.
  intros Hn D k i j en1 en2 E1 E2 M1 M2. rewrite (nth_swap2' n es i Hn) in E1. rewrite (nth_swap2' n es j Hn) in E2.
  apply (ren_inj n). exact (D k _ _ en1 en2 E1 E2 M1 M2).
Qed.

Theorem member_swap_ok n es ps : (S n < length es)%nat -> keys_disjoint es ->
  AltsOk jm e [es] ps -> AltsOk jm e [swap2 n es] ps.
Proof.
  intros Hn D H. inversion H as [es0 alts ps0 cols a Hcols Hv|es0 alts ps0 H']; subst; [|inversion H'].
  pose proof (colsr_good _ _ _ D Hcols) as G.
  destruct (proj1 (assignment_exists_swap n es cols Hn G) (ex_intro _ a Hv)) as [a' Hv'].
  eapply A_here; [exact (colsr_swap n _ _ _ Hcols)|exact Hv'].
Qed.

Theorem member_swap_fail n es ps : (S n < length es)%nat -> keys_disjoint es ->
  AltsFail jm e [es] ps -> AltsFail jm e [swap2 n es] ps.
Proof.
  intros Hn D H. inversion H as [|es0 alts ps0 cols Hcols Hall Hrest]; subst.
  pose proof (colsr_good _ _ _ D Hcols) as G.
  eapply AF_cons; [exact (colsr_swap n _ _ _ Hcols)| |constructor].
  intros a'. destruct (valid_assign (swap2 n es) (map (swap2 n) cols) a') eqn:E; [|reflexivity].
  destruct (proj2 (assignment_exists_swap n es cols Hn G) (ex_intro _ a' E)) as [a Ha]. rewrite (Hall a) in Ha. discriminate.
Qed.

(* both directions, both verdicts: swapping is an involution *)
Theorem member_swap n es ps : (S n < length es)%nat -> keys_disjoint es ->
  (AltsOk jm e [es] ps <-> AltsOk jm e [swap2 n es] ps) /\ (AltsFail jm e [es] ps <-> AltsFail jm e [swap2 n es] ps).
Proof.
  intros Hn D.
  assert (Hn' : (S n < length (swap2 n es))%nat) by (rewrite swap2_length; exact Hn).
  pose proof (keys_disjoint_swap n es Hn D) as D'.
  split; split; intros H.
  - exact (member_swap_ok n es ps Hn D H).
  - pose proof (member_swap_ok n _ ps Hn' D' H) as X. rewrite swap2_invol in X. exact X.
  - exact (member_swap_fail n es ps Hn D H).
  - pose proof (member_swap_fail n _ ps Hn' D' H) as X. rewrite swap2_invol in X. exact X.
Qed.

End Spec.
