(* C08: naming at any position, and generic instantiation = substitution by hand. *)
From Cddl Require Import Sem.Syntax Sem.Validator Sem.Sem Sem.Transparent Sem.Complete Sem.Reach Sem.Total Sem.Congr.
Open Scope Z_scope.

(* ---------- a reference and its definition are interchangeable anywhere ---------- *)
Definition RefPair (e : env) (p q : ty) : Prop :=
  exists n, (p = TRef n /\ lookup_all e n = Some (DType q)) \/ (q = TRef n /\ lookup_all e n = Some (DType p)).

Lemma RefPair_sound jm e p q : RefPair e p q -> Eqv jm e p q.
Proof.
  intros [n [[-> L]|[-> L]]] v.
  - exact (ref_unfold jm e n q v L).
  - destruct (ref_unfold jm e n p v L) as [[A1 A2] [A3 A4]]. repeat split; assumption.
Qed.

Theorem naming_anywhere jm e t t' v : Cg (RefPair e) t t' ->
  (MatchT jm e t v <-> MatchT jm e t' v) /\ (FailT jm e t v <-> FailT jm e t' v).
Proof. intros Hc. exact (congruence jm e (RefPair e) t t' (RefPair_sound jm e) Hc v). Qed.

(* ---------- substitution of a type for a name ---------- *)
Section Subst.
Variable x : name.
Variable a : ty.

(* the argument of a comparison / .eq / .ne / .size control is read syntactically by the fragment: left alone *)
Fixpoint subst (t : ty) : ty :=
  match t with
  | TRef n => if N.eqb n x then a else t
  | TTag n t' => TTag n (subst t')
  | TOr p q => TOr (subst p) (subst q)
  | TCtl c t' arg => TCtl c (subst t') (if is_and c then subst arg else arg)
  | TArr g => TArr (gsubst g)
  | TMap g => TMap (gsubst g)
  | TAny | TMajor _ | TSimple _ | TFloat | TLit _ | TRange _ _ _ => t
  end
with gsubst (g : grp) : grp :=
  match g with
  | GEmpty => GEmpty
  | GSeq p q => GSeq (gsubst p) (gsubst q)
  | GOr p q => GOr (gsubst p) (gsubst q)
  | GOcc lo hi g' => GOcc lo hi (gsubst g')
  | GEnt k c t => GEnt (match k with Some k' => Some (subst k') | None => None end) c (subst t)
  | GRef n => GRef n
  end.

Definition ParamPair (p q : ty) : Prop := p = TRef x /\ q = a.

Lemma subst_cg_n : forall n,
  (forall t, (tsize t <= n)%nat -> Cg ParamPair t (subst t)) /\
  (forall g, (gsize g <= n)%nat -> CgG ParamPair g (gsubst g)).
Proof.
  induction n as [|n [IHt IHg]].
  { split; [intros t H; destruct t; cbn [tsize] in H; lia|intros g H; destruct g; cbn [gsize] in H; lia]. }
  split.
  - intros t Hn. destruct t; cbn [tsize] in Hn; cbn [subst]; try apply Cg_refl.
    + apply Cg_tag. apply IHt. lia.
    + destruct (N.eqb n0 x) eqn:E; [|apply Cg_refl]. apply N.eqb_eq in E. subst n0. apply Cg_base. split; reflexivity.
    + apply Cg_or; apply IHt; lia.
    + destruct (is_and c) eqn:Ea; [apply Cg_ctl_and; [exact Ea| |]; apply IHt; lia|apply Cg_ctl_target; apply IHt; lia].
    + apply Cg_arr. apply IHg. lia.
    + apply Cg_map. apply IHg. lia.
  - intros g Hn. destruct g; cbn [gsize] in Hn; cbn [gsubst]; try apply CgG_refl.
    + apply CgG_seq; apply IHg; lia.
    + apply CgG_or; apply IHg; lia.
    + apply CgG_occ. apply IHg. lia.
    + destruct k as [k'|]; [apply CgG_ent_k; apply IHt; lia|apply CgG_ent_n; apply IHt; lia].
Qed.

Lemma subst_cg t : Cg ParamPair t (subst t).
Proof. exact (proj1 (subst_cg_n (tsize t)) t (le_n _)). Qed.

End Subst.

Definition other (x : name) (n : name) : bool := negb (N.eqb n x).

(* a generic rule instantiated (its parameter bound to the argument, as a rule that shadows everything
   else named x) against the same body with the argument substituted by hand *)
Theorem generic_is_substitution jm e x a t v :
  (forall n d, other x n = true -> lookup_all e n = Some d -> def_refs_in (other x) d = true) ->   (* no rule mentions the parameter *)
  refs_in (other x) (subst x a t) = true ->                                                   (* nor does the argument *)
  (MatchT jm ((x, DType a) :: e) t v <-> MatchT jm e (subst x a t) v) /\
  (FailT jm ((x, DType a) :: e) t v <-> FailT jm e (subst x a t) v).
Proof.
  intros Hrules Hfree.
  set (e1 := (x, DType a) :: e).
  assert (Lx : lookup_all e1 x = Some (DType a)).
  { unfold lookup_all, e1. cbn [lookup]. rewrite N.eqb_refl. reflexivity. }
  assert (Lo : forall n, other x n = true -> lookup_all e1 n = lookup_all e n).
  { intros n Hn. unfold other in Hn. apply negb_true_iff in Hn. unfold lookup_all, e1. cbn [lookup].
    rewrite N.eqb_sym, Hn. reflexivity. }
  (* step 1: inside e1 the parameter and the argument are interchangeable anywhere *)
  assert (S1 : Eqv jm e1 t (subst x a t)).
  { apply (congruence jm e1 (ParamPair x a)); [|apply subst_cg].
    intros p q [-> ->] v0. exact (ref_unfold jm e1 x a v0 Lx). }
  (* step 2: the substituted type does not mention x, so the binding is unreachable *)
  assert (S2 : (MatchT jm e1 (subst x a t) v <-> MatchT jm e (subst x a t) v) /\
               (FailT jm e1 (subst x a t) v <-> FailT jm e (subst x a t) v)).
  { apply (reach_sem (other x)); [exact Lo| |exact Hfree].
    intros n d Hn L. rewrite (Lo n Hn) in L. exact (Hrules n d Hn L). }
  destruct (S1 v) as [[A1 A2] [A3 A4]]. destruct S2 as [[B1 B2] [B3 B4]].
  split; split; auto.
Qed.

(* ---------- a choice spelled as a base rule plus "/=" increments (or as plugs of a socket) ---------- *)
From Cddl Require Import Sem.Identities.
Definition increments (base : ty) (incs : list ty) : ty := fold_left TOr incs base.

Theorem increments_match jm e : forall incs base v,
  MatchT jm e (increments base incs) v <-> MatchT jm e base v \/ Exists (fun a => MatchT jm e a v) incs.
Proof.
  induction incs as [|a incs IH]; intros base v; cbn [increments fold_left].
  - split; [intros H; left; exact H|intros [H|H]; [exact H|inversion H]].
  - fold (increments (TOr base a) incs). rewrite IH, choice_or. split.
    + intros [[H|H]|H]; [left; exact H|right; left; exact H|right; right; exact H].
    + intros [H|H]; [left; left; exact H|]. inversion H; subst; [left; right; assumption|right; assumption].
Qed.

Theorem increments_fail jm e : forall incs base v,
  FailT jm e (increments base incs) v <-> FailT jm e base v /\ Forall (fun a => FailT jm e a v) incs.
Proof.
  induction incs as [|a incs IH]; intros base v; cbn [increments fold_left].
  - split; [intros H; split; [exact H|constructor]|intros [H _]; exact H].
  - fold (increments (TOr base a) incs). rewrite IH, choice_fail. split.
    + intros [[H1 H2] H3]. split; [exact H1|constructor; assumption].
    + intros [H1 H2]. inversion H2; subst. split; [split; assumption|assumption].
Qed.
