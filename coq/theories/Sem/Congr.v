(* C08, "at any position": replacing a sub-expression by an equivalent one - in particular by a
   reference to a rule defined as that expression, or a generic parameter by its argument - anywhere
   inside a type (under tags, choices, control targets, .and/.within operands, array groups at any
   nesting, map member keys and values) preserves both verdicts.  Congruence of the specification. *)
From Cddl Require Import Sem.Syntax Sem.Validator Sem.Sem.
Open Scope Z_scope.

(* ---------- the map-group checks look at occurrence bounds and cuts only ---------- *)
Definition shape (en : entry) : N * option N * bool := (e_lo en, e_hi en, e_cut en).

Lemma no_cut_before_shape : forall i es es' col, map shape es = map shape es' ->
  no_cut_before es col i = no_cut_before es' col i.
Proof.
  induction i as [|i IH]; intros es es' col H; [destruct es, es'; reflexivity|].
  destruct es as [|en es], es' as [|en' es']; try discriminate; [reflexivity|].
  cbn [map] in H. assert (Hs : e_cut en = e_cut en') by (unfold shape in H; congruence).
  assert (Ht : map shape es = map shape es') by congruence.
  destruct col as [|[kb vb] col]; [reflexivity|].
  cbn [no_cut_before]. rewrite (IH es es' col Ht), Hs. reflexivity.
Qed.

Lemma pair_ok_shape es es' col i : map shape es = map shape es' -> pair_ok es col i = pair_ok es' col i.
Proof. intros H. unfold pair_ok. destruct (nth_error col i) as [[[|] [|]]|]; try reflexivity. apply no_cut_before_shape. exact H. Qed.

Lemma pairs_ok_shape es es' : map shape es = map shape es' -> forall cols a, pairs_ok es cols a = pairs_ok es' cols a.
Proof.
  intros H. induction cols as [|col cols IH]; intros a; destruct a as [|i a]; try reflexivity.
  cbn [pairs_ok]. rewrite (pair_ok_shape es es' col i H), IH. reflexivity.
Qed.

Lemma counts_ok_shape : forall es es' i a, map shape es = map shape es' -> counts_ok es i a = counts_ok es' i a.
Proof.
  induction es as [|en es IH]; intros es' i a H; destruct es' as [|en' es']; try discriminate; [reflexivity|].
  cbn [map] in H. assert (Hlo : e_lo en = e_lo en') by (unfold shape in H; congruence).
  assert (Hhi : e_hi en = e_hi en') by (unfold shape in H; congruence).
  assert (Ht : map shape es = map shape es') by congruence.
  cbn [counts_ok]. rewrite (IH es' (S i) a Ht). unfold bound_ok. rewrite Hlo, Hhi. reflexivity.
Qed.

Lemma valid_assign_shape es es' cols a : map shape es = map shape es' -> valid_assign es cols a = valid_assign es' cols a.
Proof. intros H. unfold valid_assign. rewrite (pairs_ok_shape es es' H), (counts_ok_shape es es' 0 a H). reflexivity. Qed.

Section Congr.
Variable jm : bool.
Variable e : env.

Definition Eqv (p q : ty) : Prop :=
  forall v, (MatchT jm e p v <-> MatchT jm e q v) /\ (FailT jm e p v <-> FailT jm e q v).

Section Fwd.
Variable B : ty -> ty -> Prop.                    (* the replaced pairs *)
Hypothesis Bsound : forall p q, B p q -> Eqv p q.

Inductive Cg : ty -> ty -> Prop :=
| Cg_base p q : B p q -> Cg p q
| Cg_refl t : Cg t t
| Cg_tag n a a' : Cg a a' -> Cg (TTag n a) (TTag n a')
| Cg_or a a' b b' : Cg a a' -> Cg b b' -> Cg (TOr a b) (TOr a' b')
| Cg_ctl_target c a a' b : Cg a a' -> Cg (TCtl c a b) (TCtl c a' b)
| Cg_ctl_and c a a' b b' : is_and c = true -> Cg a a' -> Cg b b' -> Cg (TCtl c a b) (TCtl c a' b')
| Cg_arr g g' : CgG g g' -> Cg (TArr g) (TArr g')
| Cg_map g g' : CgG g g' -> Cg (TMap g) (TMap g')
with CgG : grp -> grp -> Prop :=
| CgG_refl g : CgG g g
| CgG_seq a a' b b' : CgG a a' -> CgG b b' -> CgG (GSeq a b) (GSeq a' b')
| CgG_or a a' b b' : CgG a a' -> CgG b b' -> CgG (GOr a b) (GOr a' b')
| CgG_occ lo hi g g' : CgG g g' -> CgG (GOcc lo hi g) (GOcc lo hi g')
| CgG_ent_k k k' c t t' : Cg k k' -> Cg t t' -> CgG (GEnt (Some k) c t) (GEnt (Some k') c t')
| CgG_ent_n k c t t' : Cg t t' -> CgG (GEnt k c t) (GEnt k c t').

Definition CgEn (en en' : entry) : Prop :=
  shape en = shape en' /\ Cg (e_key en) (e_key en') /\ Cg (e_val en) (e_val en').
Definition CgE := Forall2 CgEn.
Definition CgA := Forall2 CgE.

Lemma CgEn_refl en : CgEn en en.
Proof. repeat split; apply Cg_refl. Qed.
Lemma CgE_refl es : CgE es es.
Proof. induction es; constructor; [apply CgEn_refl|assumption]. Qed.
Lemma CgA_refl alts : CgA alts alts.
Proof. induction alts; constructor; [apply CgE_refl|assumption]. Qed.

Lemma CgE_shape es es' : CgE es es' -> map shape es = map shape es'.
Proof. induction 1 as [|en en' es es' [H _] _ IH]; [reflexivity|]. cbn [map]. rewrite H, IH. reflexivity. Qed.

Lemma CgE_app a a' b b' : CgE a a' -> CgE b b' -> CgE (a ++ b) (a' ++ b').
Proof. apply Forall2_app. Qed.

Lemma prod_alts_cg : forall a a' b b', CgA a a' -> CgA b b' -> CgA (prod_alts a b) (prod_alts a' b').
Proof.
  unfold prod_alts. induction 1 as [|x x' a a' Hx Ha IH]; intros Hb; [constructor|].
  cbn [flat_map]. apply Forall2_app; [|exact (IH Hb)].
  clear IH Ha. induction Hb as [|y y' b b' Hy Hb IHb]; [constructor|].
  cbn [map]. constructor; [apply CgE_app; assumption|exact IHb].
Qed.

Lemma single_cg lo hi c k k' t t' : Cg k k' -> Cg t t' ->
  CgA [[ {| e_lo := lo; e_hi := hi; e_key := k; e_cut := c; e_val := t |} ]]
      [[ {| e_lo := lo; e_hi := hi; e_key := k'; e_cut := c; e_val := t' |} ]].
Proof.
  intros Hk Ht. constructor; [|constructor]. constructor; [|constructor].
  split; [reflexivity|]. split; assumption.
Qed.

Lemma flatten_cg : forall f g g' alts, CgG g g' -> flatten f e g = Some alts ->
  exists alts', flatten f e g' = Some alts' /\ CgA alts alts'.
Proof.
  induction f as [|f IH]; intros g g' alts Hc H; [discriminate|].
  inversion Hc; subst; cbn [flatten] in H |- *.
  - exists alts. split; [exact H|apply CgA_refl].
  - destruct (flatten f e a) as [x|] eqn:E1; [|discriminate]. destruct (flatten f e b) as [y|] eqn:E2; [|discriminate].
    injection H as <-. destruct (IH _ _ _ H0 E1) as (x' & -> & Hx). destruct (IH _ _ _ H1 E2) as (y' & -> & Hy).
    eexists; split; [reflexivity|apply prod_alts_cg; assumption].
  - destruct (flatten f e a) as [x|] eqn:E1; [|discriminate]. destruct (flatten f e b) as [y|] eqn:E2; [|discriminate].
    injection H as <-. destruct (IH _ _ _ H0 E1) as (x' & -> & Hx). destruct (IH _ _ _ H1 E2) as (y' & -> & Hy).
    eexists; split; [reflexivity|apply Forall2_app; assumption].
  - inversion H0; subst.
    + exists alts. split; [exact H|apply CgA_refl].
    + discriminate.
    + discriminate.
    + discriminate.
    + injection H as <-. eexists; split; [reflexivity|]. apply single_cg; assumption.
    + destruct k as [k|]; [|discriminate]. injection H as <-. eexists; split; [reflexivity|].
      apply single_cg; [apply Cg_refl|assumption].
  - injection H as <-. eexists; split; [reflexivity|]. apply single_cg; assumption.
  - destruct k as [k|]; [|discriminate]. injection H as <-. eexists; split; [reflexivity|].
    apply single_cg; [apply Cg_refl|assumption].
Qed.

Ltac viaB :=
  match goal with
  | HB : B _ _ |- MatchT _ _ _ _ => apply (proj1 (proj1 (Bsound _ _ HB _)))
  | HB : B _ _ |- FailT _ _ _ _ => apply (proj1 (proj2 (Bsound _ _ HB _)))
  end.

Lemma cg_fwd :
  (forall t v, MatchT jm e t v -> forall t', Cg t t' -> MatchT jm e t' v) /\
  (forall t v, FailT jm e t v -> forall t', Cg t t' -> FailT jm e t' v) /\
  (forall g vs r, SeqOk jm e g vs r -> forall g', CgG g g' -> SeqOk jm e g' vs r) /\
  (forall g vs, SeqFail jm e g vs -> forall g', CgG g g' -> SeqFail jm e g' vs) /\
  (forall g lo hi c vs r, RepOk jm e g lo hi c vs r -> forall g', CgG g g' -> RepOk jm e g' lo hi c vs r) /\
  (forall g lo hi c vs, RepFail jm e g lo hi c vs -> forall g', CgG g g' -> RepFail jm e g' lo hi c vs) /\
  (forall es k v c, ColR jm e es k v c -> forall es', CgE es es' -> ColR jm e es' k v c) /\
  (forall es ps cs, ColsR jm e es ps cs -> forall es', CgE es es' -> ColsR jm e es' ps cs) /\
  (forall alts ps, AltsOk jm e alts ps -> forall alts', CgA alts alts' -> AltsOk jm e alts' ps) /\
  (forall alts ps, AltsFail jm e alts ps -> forall alts', CgA alts alts' -> AltsFail jm e alts' ps).
Proof.
  apply sem_mutind.
  (* MatchT *)
  - intros t v H t' Hc. inversion Hc; subst; try (viaB; apply M_leaf; exact H); try (apply M_leaf; exact H);
      cbn [leaf] in H; discriminate.
  - intros n t v H IH t' Hc. inversion Hc; subst; [viaB; apply M_tag; exact H|apply M_tag; exact H|apply M_tag; auto].
  - intros n t v L H IH t' Hc. inversion Hc; subst; [viaB|]; eapply M_ref; eauto.
  - intros a b v H IH t' Hc. inversion Hc; subst; [viaB; apply M_or1; exact H|apply M_or1; exact H|apply M_or1; auto].
  - intros a b v H IH t' Hc. inversion Hc; subst; [viaB; apply M_or2; exact H|apply M_or2; exact H|apply M_or2; auto].
  - intros c t arg v Ha H1 IH1 H2 IH2 t' Hc.
    inversion Hc; subst; [viaB; apply M_ctl_and; assumption|apply M_ctl_and; assumption|apply M_ctl_and; auto|apply M_ctl_and; auto].
  - intros t arg v n Hn H1 IH1 H2 IH2 t' Hc.
    inversion Hc; subst; [viaB; eapply M_ctl_size; eassumption|eapply M_ctl_size; eassumption|eapply M_ctl_size; eauto|discriminate].
  - intros c t arg v Ha Hs H1 IH1 H2 t' Hc.
    inversion Hc; subst; [viaB; apply M_ctl_simple; assumption|apply M_ctl_simple; assumption|apply M_ctl_simple; auto|congruence].
  - intros g l H IH t' Hc. inversion Hc; subst; [viaB; apply M_arr; exact H|apply M_arr; exact H|apply M_arr; auto].
  - intros g ps f alts Hf H IH t' Hc.
    inversion Hc; subst; [viaB; eapply M_map; eassumption|eapply M_map; eassumption|].
    destruct (flatten_cg _ _ _ _ H1 Hf) as (alts' & Hf' & Ha). eapply M_map; [exact Hf'|exact (IH _ Ha)].
  (* FailT *)
  - intros t v H t' Hc. inversion Hc; subst; try (viaB; apply F_leaf; exact H); try (apply F_leaf; exact H);
      cbn [leaf] in H; discriminate.
  - intros n t v H t' Hc. inversion Hc; subst; [viaB; apply F_tag_other; exact H|apply F_tag_other; exact H|apply F_tag_other; exact H].
  - intros n t v H IH t' Hc. inversion Hc; subst; [viaB; apply F_tag; exact H|apply F_tag; exact H|apply F_tag; auto].
  - intros n t v L H IH t' Hc. inversion Hc; subst; [viaB|]; eapply F_ref; eauto.
  - intros a b v H1 IH1 H2 IH2 t' Hc. inversion Hc; subst; [viaB; apply F_or; assumption|apply F_or; assumption|apply F_or; auto].
  - intros c t arg v H IH t' Hc.
    inversion Hc; subst; [viaB; apply F_ctl_target; exact H|apply F_ctl_target; exact H|apply F_ctl_target; auto|apply F_ctl_target; auto].
  - intros c t arg v Ha H1 IH1 H2 IH2 t' Hc.
    inversion Hc; subst; [viaB; apply F_ctl_and; assumption|apply F_ctl_and; assumption|apply F_ctl_and; auto|apply F_ctl_and; auto].
  - intros t arg v n Hn H1 IH1 H2 IH2 t' Hc.
    inversion Hc; subst; [viaB; eapply F_ctl_size; eassumption|eapply F_ctl_size; eassumption|eapply F_ctl_size; eauto|discriminate].
  - intros c t arg v Ha Hs H1 IH1 H2 t' Hc.
    inversion Hc; subst; [viaB; apply F_ctl_simple; assumption|apply F_ctl_simple; assumption|apply F_ctl_simple; auto|congruence].
  - intros g v H t' Hc. inversion Hc; subst; [viaB; apply F_arr_other; exact H|apply F_arr_other; exact H|apply F_arr_other; exact H].
  - intros g l H IH t' Hc. inversion Hc; subst; [viaB; apply F_arr_fail; exact H|apply F_arr_fail; exact H|apply F_arr_fail; auto].
  - intros g l x r H IH t' Hc. inversion Hc; subst; [viaB; eapply F_arr_rest; exact H|eapply F_arr_rest; exact H|eapply F_arr_rest; eauto].
  - intros g v H t' Hc. inversion Hc; subst; [viaB; apply F_map_other; exact H|apply F_map_other; exact H|apply F_map_other; exact H].
  - intros g ps f alts Hf H IH t' Hc.
    inversion Hc; subst; [viaB; eapply F_map; eassumption|eapply F_map; eassumption|].
    destruct (flatten_cg _ _ _ _ H1 Hf) as (alts' & Hf' & Ha). eapply F_map; [exact Hf'|exact (IH _ Ha)].
  (* SeqOk *)
  - intros vs g' Hc. inversion Hc; subst. apply S_empty.
  - intros a b vs r1 r2 H1 IH1 H2 IH2 g' Hc. inversion Hc; subst; [eapply S_seq; eassumption|eapply S_seq; eauto].
  - intros a b vs r H IH g' Hc. inversion Hc; subst; [apply S_or1; exact H|apply S_or1; auto].
  - intros a b vs r H1 IH1 H2 IH2 g' Hc. inversion Hc; subst; [apply S_or2; assumption|apply S_or2; auto].
  - intros lo hi g vs r H IH g' Hc. inversion Hc; subst; [apply S_occ; exact H|apply S_occ; auto].
  - intros k c t v r H IH g' Hc. inversion Hc; subst; [apply S_ent; exact H|apply S_ent; auto|apply S_ent; auto].
  - intros n g vs r L H IH g' Hc. inversion Hc; subst. eapply S_ref; eauto.
  (* SeqFail *)
  - intros a b vs H IH g' Hc. inversion Hc; subst; [apply SF_seq1; exact H|apply SF_seq1; auto].
  - intros a b vs r1 H1 IH1 H2 IH2 g' Hc. inversion Hc; subst; [eapply SF_seq2; eassumption|eapply SF_seq2; eauto].
  - intros a b vs H1 IH1 H2 IH2 g' Hc. inversion Hc; subst; [apply SF_or; assumption|apply SF_or; auto].
  - intros lo hi g vs H IH g' Hc. inversion Hc; subst; [apply SF_occ; exact H|apply SF_occ; auto].
  - intros k c t g' Hc. inversion Hc; subst; apply SF_ent_nil.
  - intros k c t v r H IH g' Hc. inversion Hc; subst; [apply SF_ent; exact H|apply SF_ent; auto|apply SF_ent; auto].
  - intros n g vs L H IH g' Hc. inversion Hc; subst. eapply SF_ref; eauto.
  (* RepOk *)
  - intros g lo hi count vs Hm g' Hc. apply R_max. exact Hm.
  - intros g lo hi count vs Hm H IH Hl g' Hc. apply R_stop; auto.
  - intros g lo hi count vs r Hm H IH Hl g' Hc. eapply R_zero; eauto.
  - intros g lo hi count vs r r' Hm H IH Hl H2 IH2 g' Hc. eapply R_step; eauto.
  (* RepFail *)
  - intros g lo hi count vs Hm H IH Hl g' Hc. apply RF_stop; auto.
  - intros g lo hi count vs r Hm H IH Hl H2 IH2 g' Hc. eapply RF_step; eauto.
  (* ColR *)
  - intros k v es' Hc. inversion Hc; subst. apply C_nil.
  - intros en es k v c H IH H2 IH2 es' Hc. inversion Hc as [|? en' ? es'' [Hs [Hk Hv]] Hes]; subst. apply C_kfail; auto.
  - intros en es k v c H IH H1 IH1 H2 IH2 es' Hc. inversion Hc as [|? en' ? es'' [Hs [Hk Hv]] Hes]; subst. apply C_kv; auto.
  - intros en es k v c H IH H1 IH1 H2 IH2 es' Hc. inversion Hc as [|? en' ? es'' [Hs [Hk Hv]] Hes]; subst. apply C_kvf; auto.
  (* ColsR *)
  - intros es es' Hc. apply CS_nil.
  - intros es k v ps c cs H IH H2 IH2 es' Hc. apply CS_cons; auto.
  (* AltsOk *)
  - intros es alts ps cols a H IH Hv alts' Hc. inversion Hc as [|? es' ? alts'' Hes Hal]; subst.
    eapply A_here; [exact (IH _ Hes)|]. rewrite <- (valid_assign_shape es es' cols a (CgE_shape _ _ Hes)). exact Hv.
  - intros es alts ps H IH alts' Hc. inversion Hc as [|? es' ? alts'' Hes Hal]; subst. apply A_later. auto.
  (* AltsFail *)
  - intros ps alts' Hc. inversion Hc; subst. apply AF_nil.
  - intros es alts ps cols H IH Hv H2 IH2 alts' Hc. inversion Hc as [|? es' ? alts'' Hes Hal]; subst.
    eapply AF_cons; [exact (IH _ Hes)| |exact (IH2 _ Hal)].
    intros a. rewrite <- (valid_assign_shape es es' cols a (CgE_shape _ _ Hes)). apply Hv.
Qed.

End Fwd.
End Congr.

Scheme Cg_mut := Minimality for Cg Sort Prop
with CgG_mut := Minimality for CgG Sort Prop.
Combined Scheme Cg_mutind from Cg_mut, CgG_mut.

Lemma Cg_sym (B : ty -> ty -> Prop) :
  (forall t t', Cg B t t' -> Cg (fun p q => B q p) t' t) /\
  (forall g g', CgG B g g' -> CgG (fun p q => B q p) g' g).
Proof.
  apply Cg_mutind; intros.
  - apply Cg_base. assumption.
  - apply Cg_refl.
  - apply Cg_tag. assumption.
  - apply Cg_or; assumption.
  - apply Cg_ctl_target. assumption.
  - apply Cg_ctl_and; assumption.
  - apply Cg_arr. assumption.
  - apply Cg_map. assumption.
  - apply CgG_refl.
  - apply CgG_seq; assumption.
  - apply CgG_or; assumption.
  - apply CgG_occ. assumption.
  - apply CgG_ent_k; assumption.
  - apply CgG_ent_n. assumption.
Qed.

(* congruence: equivalent sub-expressions may be exchanged anywhere (except inside the literal argument
   of a comparison / .eq / .ne / .size-on-integers control, which the fragment reads syntactically) *)
Theorem congruence jm e (B : ty -> ty -> Prop) t t' :
  (forall p q, B p q -> Eqv jm e p q) -> Cg B t t' -> Eqv jm e t t'.
Proof.
  intros Bs Hc v.
  assert (Bs' : forall p q, (fun p q => B q p) p q -> Eqv jm e p q).
  { intros p q H v0. destruct (Bs q p H v0) as [[A1 A2] [A3 A4]]. repeat split; assumption. }
  pose proof (proj1 (Cg_sym B) _ _ Hc) as Hc'.
  pose proof (cg_fwd jm e B Bs) as (F1 & F2 & _). pose proof (cg_fwd jm e _ Bs') as (G1 & G2 & _).
  split; split; intros H.
  - exact (F1 _ _ H _ Hc).
  - exact (G1 _ _ H _ Hc').
  - exact (F2 _ _ H _ Hc).
  - exact (G2 _ _ H _ Hc').
Qed.
