(* C02 - CBOR validation verdicts equal RFC 8610 semantics on the core language, independently of the encoding.
   Same specification and decider as C01 with jm = false (integers and floats are distinct items),
   over values with byte strings, tags, simple values, arbitrary keys and the full 64-bit range. *)
From Cddl Require Import Base.Bytes Cbor.Wire Cbor.Wf Sem.Syntax Sem.Validator Sem.Sem Sem.Decides Sem.Complete Sem.CborTie Sem.Total.
Open Scope Z_scope.

Theorem C02_cbor : forall e f t v b,
  vt f false e t v = Some b ->
  (b = true <-> MatchT false e t v) /\ (b = false <-> FailT false e t v).
Proof. exact (vmodel_decides false). Qed.

Theorem C02_exact : forall e t v,
  (MatchT false e t v <-> exists f, vt f false e t v = Some true) /\
  (FailT false e t v <-> exists f, vt f false e t v = Some false).
Proof. exact (vmodel_exact false). Qed.

(* decoding (the C11 model, proven to implement RFC 8949) followed by validation gives the same verdict
   for every two well-formed encodings of the same item: definite/indefinite lengths, head widths, float widths *)
Theorem C02_encoding_independent : forall (conv : cval -> value) f e t x e1 e2,
  wf_bytes e1 -> wf_bytes e2 -> Enc x e1 -> Enc x e2 -> vbytes conv f e t e1 = vbytes conv f e t e2.
Proof. exact encoding_independent_verdict. Qed.

(* non-vacuity: tagged item, byte-string literal, non-text key, 64-bit bound *)
Definition ex2_env : env :=
  [ (0%N, DType (TMap (GSeq (GEnt (Some (TLit (LInt 1))) true (TTag 24%N (TRef 1004%N)))
                          (GSeq (GOcc 0%N (Some 1%N) (GEnt (Some (TLit (LInt (-1)))) true (TLit (LBytes [1%N; 2%N]))))
                                (GOcc 0%N None (GEnt (Some (TRef 1001%N)) false (TRef 1001%N))))))) ].
Definition ex2_doc : value :=
  VMap [(VInt 7, VInt 18446744073709551615); (VInt 1, VTag 24%N (VBytes [0%N])); (VInt (-1), VBytes [1%N; 2%N])].
Example C02_example_match : MatchT false ex2_env (TRef 0%N) ex2_doc.
Proof. exact (proj1 (proj1 (vmodel_decides false ex2_env 60 (TRef 0%N) ex2_doc true eq_refl)) eq_refl). Qed.

(* totality, CBOR reading (Sem/Total.v): on every well-founded schema the decider answers for every CBOR data
   item and the specification assigns it a verdict; C01_decider_total is the same theorem for the JSON reading *)
Theorem C02_decider_total : forall e rho B mg t v,
  wf_env_b e rho B mg = true -> wf_ty e rho B mg B t = true -> exists f r, vt f false e t v = Some r.
Proof. intros e rho B mg t v He Ht. exact (decider_total false e rho B mg He t v Ht). Qed.

Theorem C02_semantics_total : forall e rho B mg t v,
  wf_env_b e rho B mg = true -> wf_ty e rho B mg B t = true -> MatchT false e t v \/ FailT false e t v.
Proof. intros e rho B mg t v. exact (semantics_total false e rho B mg t v). Qed.
