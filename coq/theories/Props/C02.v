From Cddl Require Import Sem.Syntax Sem.Validator.
Theorem C02_placeholder : True. Proof. exact I. Qed.
