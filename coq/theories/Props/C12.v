(* C12 - duplicate rule definitions and undefined references are always caught.
   Only statements closed by [exact]; proofs are in Rules/DupProofs.v and Rules/RefProofs.v.
   Models: Rules/Dup.v (duplicate check of convert_cddl), Rules/RefCheck.v
   (find_first_undefined_reference and the two entry points).  Specification: Rules/Spec.v. *)
From Cddl Require Import Rules.Doc Rules.Dup Rules.Spec Rules.RefCheck Rules.DupProofs Rules.RefProofs
  Generated.PreludeNames.

(* ---- duplicate definitions (rs : list of (printed name, plain "=" ?)) ---- *)

(* the check fails at i exactly when rule i is the FIRST plain definition whose name has an
   earlier definition of any operator *)
Theorem C12_dup_spec : forall rs i,
  dup_check rs = Some i <->
  (plain_at rs i /\ exists j, j < i /\ same_name rs j i) /\
  forall k, k < i -> ~ (plain_at rs k /\ exists j, j < k /\ same_name rs j k).
Proof. exact dup_spec. Qed.

(* the error message carries the name of that (later) definition *)
Theorem C12_dup_error_spec : forall rs i n,
  dup_error rs = Some (i, n) <-> first_dup_at rs i /\ exists p, nth_error rs i = Some (n, p).
Proof. exact dup_error_spec. Qed.

Theorem C12_dup_none : forall rs,
  dup_check rs = None <->
  forall i j n p, j < i -> nth_error rs i = Some (n, true) -> nth_error rs j = Some (n, p) -> False.
Proof. exact dup_none. Qed.

(* rejected exactly when some name receives a plain definition after an earlier definition *)
Theorem C12_dup_rejects_iff : forall rs,
  (exists i, dup_check rs = Some i) <->
  exists i j n p, j < i /\ nth_error rs i = Some (n, true) /\ nth_error rs j = Some (n, p).
Proof. exact dup_rejects_iff. Qed.

(* any number of "/=" and "//=" increments is accepted *)
Theorem C12_increments_free : forall rs, (forall i, ~ plain_at rs i) -> dup_check rs = None.
Proof. exact increments_free. Qed.

(* ---- the prelude table of the code is RFC 8610 Appendix D ---- *)
Theorem C12_prelude_table_ok : forall n, In n gen_prelude <-> In n rfc_prelude.
Proof. exact prelude_table_ok. Qed.

Theorem C12_prelude_table_count :
  nodup_b gen_prelude = true /\ length gen_prelude = 40 /\ length rfc_prelude = 40.
Proof. exact prelude_table_count. Qed.

(* ---- undefined references ---- *)

(* the walker reports exactly the FIRST reference in source order that is no $socket, no
   standard-prelude name, no generic parameter of its own rule, and not the name of any rule
   ("$x" / "$$x" heads do not define x) *)
Theorem C12_refcheck_spec : forall d i j n,
  refcheck d = Some (i, j, n) <-> FirstUnresolved d i j n.
Proof. exact refcheck_spec. Qed.

Theorem C12_refcheck_none_iff : forall d,
  refcheck d = None <-> forall i j, ~ UnresolvedAt d i j.
Proof. exact refcheck_none_iff. Qed.

(* the executable specification used as second oracle is the specification, and the model equals it *)
Theorem C12_spec_refcheck_spec : forall d i j n,
  spec_refcheck d = Some (i, j, n) <-> FirstUnresolved d i j n.
Proof. exact spec_refcheck_spec. Qed.

Theorem C12_spec_refcheck_none : forall d,
  spec_refcheck d = None <-> forall i j, ~ UnresolvedAt d i j.
Proof. exact spec_refcheck_none. Qed.

Theorem C12_refcheck_eq_spec : forall d, refcheck d = spec_refcheck d.
Proof. exact refcheck_eq_spec. Qed.

(* ---- the entry points ---- *)
Theorem C12_plain_parse_spec : forall d,
  match plain_parse d with
  | VDup i n => dup_verdict d i n
  | VOk k => k = length d /\ no_dup d
  | VUndef _ _ _ => False
  end.
Proof. exact plain_parse_spec. Qed.

Theorem C12_checked_parse_spec : forall d,
  match checked_parse d with
  | VDup i n => dup_verdict d i n
  | VUndef i j n => no_dup d /\ FirstUnresolved d i j n
  | VOk k => k = length d /\ no_dup d /\ forall i j, ~ UnresolvedAt d i j
  end.
Proof. exact checked_parse_spec. Qed.

(* ---- non-vacuity ---- *)
Local Open Scope N_scope.
(* a /= ..; a //= ..; $a = ..; a = ..  : rejected at the fourth rule (index 3), "$a" is another name *)
Example C12_example_dup :
  dup_error [([97], false); ([97], false); ([36; 97], true); ([97], true); ([97], true)] = Some (3%nat, [97]).
Proof. vm_compute. reflexivity. Qed.

Example C12_example_increments :
  dup_check [([97], true); ([97], false); ([98], false); ([97], false); ([98], false)] = None.
Proof. vm_compute. reflexivity. Qed.

(* a<t> = [t, int, $x, zz]   b = t : first unresolved is zz (rule 0, reference 3) *)
Example C12_example_ref :
  refcheck [ mkRule 0 [97] true [[116]] [mkRef false [116]; mkRef false [105; 110; 116]; mkRef true [120]; mkRef false [122; 122]];
             mkRule 0 [98] true [] [mkRef false [116]] ] = Some (0%nat, 3%nat, [122; 122]).
Proof. vm_compute. reflexivity. Qed.

(* generic parameters do not leak: a<t> = t  b = t *)
Example C12_example_scope :
  refcheck [ mkRule 0 [97] true [[116]] [mkRef false [116]]; mkRule 0 [98] true [] [mkRef false [116]] ]
  = Some (1%nat, 0%nat, [116]).
Proof. vm_compute. reflexivity. Qed.

(* regression witness of the repaired finding (a8c9ab3): $a = int  b = a  is rejected, naming a *)
Example C12_example_socket_head : refcheck socket_head_doc = Some (1%nat, 0%nat, [97]).
Proof. vm_compute. reflexivity. Qed.

Example C12_example_render :
  c12_render socket_head_doc =
  [79; 75; 32; 50; 9; 85; 78; 68; 69; 70; 32; 49; 32; 48; 32; 97; 9; 85; 78; 68; 69; 70; 32; 49; 32; 48; 32; 97; 9; 49].
Proof. vm_compute. reflexivity. Qed.
