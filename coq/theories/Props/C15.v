(* C15 - source positions in the AST and in parse errors are accurate.
   Only statements closed by [exact]; proofs are in Pos/SpanProofs.v, Pos/ErrRangeProofs.v, Pos/TreeProofs.v.
   Models (of /repo after the fixes 2fbd55d, 837f856, 781e531):
   Pos/Span.v (pest_span_to_ast_span, pest_span_to_position, position_from_ast_span, pest's line_col),
   Pos/ErrRange.v (convert_pest_error, compute_error_range, scan_token_end, scan_token_start),
   Pos/Tree.v (pest's Start/End token queue, its reading as a pair tree, a recursive-descent matcher, typename). *)
From Cddl Require Import Base.Bytes Base.Utf8 Pos.Span Pos.ErrRange Pos.Tree
  Pos.SpanProofs Pos.BoundaryProofs Pos.ErrRangeProofs Pos.TreeProofs.
Open Scope N_scope.

(* ---------- AST spans ---------- *)
(* a span carries the 1-based line of its start: 1 + the number of line feeds before it *)
Theorem C15_line_is_newlines_before : forall bs s e,
  pest_span_to_ast_span bs s e = (s, e, 1 + count_nl (firstnN s bs)).
Proof. exact line_is_newlines_before. Qed.

(* a Position built from a span: index = start, range = the span, line as above, column = 1 + the number of
   characters (not bytes) since the last line feed; '\r' counts as a character *)
Theorem C15_column_is_chars_since_newline : forall bs s e,
  pest_span_to_position bs s e =
  mkPos (1 + count_nl (firstnN s bs)) (1 + nchars (line_tail (firstnN s bs))) (s, e) s.
Proof. exact column_is_chars_since_newline. Qed.

(* position_from_ast_span (duplicate-rule errors) recomputes exactly that position *)
Theorem C15_position_from_ast_span_agrees : forall bs s e,
  position_from_ast_span bs (pest_span_to_ast_span bs s e) = pest_span_to_position bs s e.
Proof. exact position_from_ast_span_agrees. Qed.

(* pest's own line_col (used when the error stays at pest's offset) is the same function, CRLF included *)
Theorem C15_pest_line_col_spec : forall bs pos,
  pest_line_col bs pos = (1 + count_nl (firstnN pos bs), 1 + nchars (line_tail (firstnN pos bs))).
Proof. exact pest_line_col_spec. Qed.

(* ---------- error positions ---------- *)
Theorem C15_err_range_non_inverted : forall bs index,
  fst (compute_error_range index bs) <= snd (compute_error_range index bs)
  /\ fst (compute_error_range index bs) <= index.
Proof. exact err_range_non_inverted. Qed.

Theorem C15_err_range_in_bounds : forall bs index, index <= lenN bs ->
  fst (compute_error_range index bs) <= snd (compute_error_range index bs)
  /\ snd (compute_error_range index bs) <= lenN bs
  /\ fst (compute_error_range index bs) <= index.
Proof. exact err_range_in_bounds. Qed.

Theorem C15_err_linecol_of_index : forall bs index,
  let p := convert_pest_error bs index in
  p_range p = compute_error_range index bs
  /\ p_index p = fst (p_range p)
  /\ p_line p = 1 + count_nl (firstnN (p_index p) bs)
  /\ p_column p = 1 + nchars (line_tail (firstnN (p_index p) bs)).
Proof. exact err_linecol_of_index. Qed.

(* the reported range (and with it the index) lies on character boundaries: full statement, every valid UTF-8
   text, every boundary offset.  (Refuted for the code before 2fbd55d: `a = é` gave (4,5), `a = ; é\n` (7,8).) *)
Theorem C15_err_range_on_char_boundary : forall bs index,
  utf8_valid bs = true -> index <= lenN bs -> char_boundary bs index = true ->
  char_boundary bs (fst (compute_error_range index bs)) = true
  /\ char_boundary bs (snd (compute_error_range index bs)) = true.
Proof. exact err_range_on_char_boundary. Qed.

(* ---------- pair trees ---------- *)
(* a token queue whose positions never decrease and stay inside the text reads as a forest with nested spans,
   ordered non-overlapping siblings, inside [0, len] *)
Theorem C15_tree_of_events_wf : forall len evs ts,
  tree_of_events evs = Some ts -> nondecr 0 evs = true -> bounded len evs = true ->
  flatten_forest ts = evs /\ forest_wf 0 len ts.
Proof. exact tree_of_events_wf. Qed.

(* the boolean test run by the oracle on the real AST's span tree is sound for that *)
Theorem C15_events_wfb_sound : forall len evs, events_wfb len evs = true ->
  exists ts, tree_of_events evs = Some ts /\ flatten_forest ts = evs /\ forest_wf 0 len ts.
Proof. exact events_wfb_sound. Qed.

(* every successful run of a recursive-descent matcher (any grammar, any expression) leaves such a queue *)
Theorem C15_run_tree_wf : forall f g e s s' p' evs,
  run f g e s 0 = Some (Some (s', p', evs)) ->
  exists ts, tree_of_events evs = Some ts /\ flatten_forest ts = evs /\ forest_wf 0 (lenN s) ts.
Proof. exact run_tree_wf. Qed.

(* identifier spans are exact: the compound-atomic rule typename = ${ socket_type? ~ id } (id atomic, i.e. without
   inner pairs) yields a pair that is tiled by its children - `$` then the id, or the id alone - with nothing
   between the socket and the name and nothing after the name.
   (Before 837f856 the rule was non-atomic and `$ x` gave the typename span (0,3).) *)
Theorem C15_ident_span_exact : forall f g idbody s pos s' p' evs,
  no_rule idbody = true ->
  run f g (typename_of idbody) s pos = Some (Some (s', p', evs)) ->
  evs = [EStart pos; EStart pos; EEnd (pos + 1); EStart (pos + 1); EEnd p'; EEnd p']
  \/ evs = [EStart pos; EStart pos; EEnd p'; EEnd p'].
Proof. exact typename_span_exact. Qed.

(* ---------- non-vacuity ---------- *)
(* "a\r\nb\r\néc": the span (8,9) of `c` is on line 3, column 2 (é is one character of two bytes) *)
Example C15_example_position :
  pest_span_to_position [97; 13; 10; 98; 13; 10; 195; 169; 99] 8 9 = mkPos 3 2 (8, 9) 8
  /\ pest_span_to_ast_span [97; 13; 10; 98; 13; 10; 195; 169; 99] 8 9 = (8, 9, 3).
Proof. vm_compute. auto. Qed.
(* "a = [\r\n  1,\r\n": pest fails at the end of input (13); the reported range moves back to the comma *)
Example C15_example_error :
  convert_pest_error [97; 32; 61; 32; 91; 13; 10; 32; 32; 49; 44; 13; 10] 13 = mkPos 2 4 (10, 11) 10.
Proof. vm_compute. reflexivity. Qed.
(* the former witnesses: `a = é` at 4 now gives (4,6); `a = ; é\n` at 9 gives index 6, column 7, range (6,8) *)
Example C15_example_boundary :
  utf8_valid [97; 32; 61; 32; 59; 32; 195; 169; 10] = true
  /\ compute_error_range 4 [97; 32; 61; 32; 195; 169] = (4, 6)
  /\ convert_pest_error [97; 32; 61; 32; 59; 32; 195; 169; 10] 9 = mkPos 1 7 (6, 8) 6.
Proof. vm_compute. auto. Qed.
Example C15_example_tree :
  events_wfb 9 [EStart 0; EStart 0; EEnd 1; EStart 4; EStart 4; EEnd 7; EEnd 9; EEnd 9] = true
  /\ events_wfb 9 [EStart 0; EStart 4; EEnd 9; EStart 8; EEnd 9; EEnd 9] = false.
Proof. vm_compute. auto. Qed.
(* `$x` is a typename with span (0,2); `$ x` is not a typename *)
Example C15_example_typename :
  run 20 (fun _ => PEmpty) (typename_of lower_id) [36; 120] 0
  = Some (Some ([], 2, [EStart 0; EStart 0; EEnd 1; EStart 1; EEnd 2; EEnd 2]))
  /\ run 20 (fun _ => PEmpty) (typename_of lower_id) [36; 32; 120] 0 = Some None.
Proof. vm_compute. auto. Qed.
