(* C18 - the command-line tool reports exactly what the library decides.
   Only statements closed by [exact]; the model is Cli/Cli.v (decision logic of src/bin/cli.rs
   as of commit 8c0094b, which repaired the two call sites that dropped --features), the proofs
   are in Cli/CliProofs.v.  [lib : call -> bool] is the library, universally quantified: the
   theorems hold for whatever the validators decide. *)
From Coq Require Import List NArith Bool.
From Cddl Require Import Cli.Cli Cli.CliProofs.
Import ListNotations.
Open Scope N_scope.

(* a document that is processed (no earlier `return Err`) and readable is reported successful
   exactly when the library call of its route, with the same --features (and header flag),
   succeeds *)
Theorem C18_report_iff_lib : forall lib a pre x post,
  schema_ok (v_schema a) = true -> todo a = pre ++ x :: post -> reaches lib a pre = true -> usable x = true ->
  (In (x, OSucc) (r_reports (validate lib a)) <-> expected lib a x = true).
Proof. exact report_iff_lib. Qed.

(* a success report is never wrong, whether or not processing was cut short *)
Theorem C18_report_sound : forall lib a x,
  In (x, OSucc) (r_reports (validate lib a)) ->
  In x (todo a) /\ usable x = true /\ expected lib a x = true.
Proof. exact report_sound. Qed.

(* no document is skipped, reordered or reported twice: the reports are those of a prefix of the
   work list json* ++ cbor* ++ csv* ++ stdin, each with its own outcome *)
Theorem C18_reports_prefix : forall lib a, exists k,
  r_reports (validate lib a) = map (fun x => (x, step lib a x)) (firstn k (todo a)).
Proof. exact reports_prefix. Qed.

(* without --ci a failing or missing document does not mask later ones *)
Theorem C18_noci_all_reported : forall lib a, v_ci a = false -> schema_ok (v_schema a) = true ->
  (forall x, In x (todo a) -> step lib a x <> OIoErr) ->
  r_reports (validate lib a) = map (fun x => (x, step lib a x)) (todo a).
Proof. exact noci_all_reported. Qed.

(* with --ci processing stops at (and reports) the first document that is not successful *)
Theorem C18_ci_stops_at_first_failure : forall lib a pre x post, v_ci a = true -> schema_ok (v_schema a) = true ->
  todo a = pre ++ x :: post -> (forall y, In y pre -> step lib a y = OSucc) -> step lib a x <> OSucc ->
  r_reports (validate lib a) = map (fun y => (y, step lib a y)) pre ++ [(x, step lib a x)]
  /\ r_fail (validate lib a) = true.
Proof. exact ci_stops_at_first_failure. Qed.

(* with --ci the exit status is non-zero exactly when the schema does not compile (or is missing /
   unreadable / has no root type), or some document is missing / unreadable, or the library (same
   features) rejects it *)
Theorem C18_ci_exit_iff : forall lib a, v_ci a = true ->
  (r_fail (validate lib a) = true <->
   schema_ok (v_schema a) = false \/ exists x, In x (todo a) /\ (usable x = false \/ expected lib a x = false)).
Proof. exact ci_exit_iff. Qed.

(* the same in terms of the per-document outcomes *)
Theorem C18_ci_exit_iff_made : forall lib a, v_ci a = true ->
  (r_fail (validate lib a) = true <->
   schema_ok (v_schema a) = false \/ exists x, In x (todo a) /\ step lib a x <> OSucc).
Proof. exact ci_exit_iff_made. Qed.

(* without --ci the exit status is non-zero only for an unreadable / non-compiling schema or an
   unreadable document (the `?` operators); failing and missing documents leave it at zero *)
Theorem C18_noci_exit_iff : forall lib a, v_ci a = false ->
  (r_fail (validate lib a) = true <->
   (schema_ok (v_schema a) = false /\ v_schema a <> SMissing) \/
   (schema_ok (v_schema a) = true /\ exists x, In x (todo a) /\ step lib a x = OIoErr)).
Proof. exact noci_exit_iff. Qed.

(* "the schema compiles" ([schema_ok]) is computed by the model from the rule kinds of the parsed
   schema: it has a root exactly when some type rule has no generic parameters, and the root is the
   first such rule wherever it stands (after generic rules, after group rules) - the rule the
   validators themselves start from *)
Theorem C18_root_is_first_plain_type_rule : forall pre post,
  (forall k, In k pre -> is_root k = false) ->
  root_index (pre ++ KType false :: post) = Some (N.of_nat (length pre)).
Proof. exact root_is_first_plain_type_rule. Qed.

Theorem C18_no_root_iff : forall rs,
  has_root rs = false <-> (forall k, In k rs -> is_root k = false).
Proof. exact no_root_iff. Qed.

(* compile-cddl: "<file> is conformant" with exit status zero exactly when the parser accepts *)
Theorem C18_compile_iff_parse : forall ci f,
  (c_conformant (compile_cddl ci f) = true /\ c_fail (compile_cddl ci f) = false) <-> f = FParses.
Proof. exact compile_iff_parse. Qed.

(* the exit status alone decides it, except for a missing file without --ci (exit 0, by design of --ci) *)
Theorem C18_compile_exit_iff_parse : forall ci f, ci = true \/ f <> FMissing ->
  (c_fail (compile_cddl ci f) = false <-> f = FParses).
Proof. exact compile_exit_iff_parse. Qed.

(* ---------- non-vacuity ---------- *)

(* cddl validate -d s --features fx --csv-header -j ok -j missing -j bad -c dropped --csv c --stdin(CBOR):
   every route is exercised, all premises of C18_report_iff_lib hold for the csv document *)
Definition ex_lib (c : call) : bool :=
  match c with
  | CallJson 0 (Some _) => true
  | CallJson 2 _ => false
  | CallCbor 3 None => true
  | CallCsv 4 (Some true) (Some _) => true
  | CallCbor 5 (Some _) => true
  | _ => false
  end.
Definition ex_src (i : N) (e u : bool) : src := {| s_id := i; s_exists := e; s_isfile := e; s_utf8 := u |}.
Definition ex_args (ci : bool) : vargs :=
  {| v_ci := ci; v_schema := SParsed [KType true; KGroup; KType true; KType false; KType false]; v_feats := Some [1]; v_hdr := true;
     v_json := [ex_src 0 true true; ex_src 1 false true; ex_src 2 true true];
     v_cbor := [ex_src 3 true false]; v_csv := [ex_src 4 true true]; v_stdin := Some (ex_src 5 true false) |}.

Example C18_example_noci :
  render (validate ex_lib (ex_args false))
  = [114;51;32; 106;48;43;32; 106;49;63;32; 106;50;45;32; 99;48;45;32; 115;48;43;32; 105;48;43;32; 88;48].
    (* "r3 j0+ j1? j2- c0- s0+ i0+ X0" (the root is the fourth rule, after two generic rules and a group): the CBOR file is valid only without the features, so it fails *)
Proof. vm_compute. reflexivity. Qed.

Example C18_example_ci :
  render (validate ex_lib (ex_args true)) = [114;51;32; 106;48;43;32; 106;49;63;32; 88;49].
    (* "r3 j0+ j1? X1" *)
Proof. vm_compute. reflexivity. Qed.

Example C18_example_premises :
  let a := ex_args false in
  let x := (RCsv, 0, ex_src 4 true true) in
  schema_ok (v_schema a) = true /\ todo a = firstn 4 (todo a) ++ x :: skipn 5 (todo a)
  /\ reaches ex_lib a (firstn 4 (todo a)) = true /\ usable x = true /\ expected ex_lib a x = true.
Proof. vm_compute. repeat split; reflexivity. Qed.

Example C18_example_no_root :
  schema_ok (SParsed [KType true; KGroup]) = false /\ schema_ok (SParsed []) = false
  /\ schema_ok (SParsed [KType true; KType false]) = true /\ schema_ok (SParsed [KGroup; KType false]) = true
  /\ render (validate ex_lib {| v_ci := false; v_schema := SParsed [KType true]; v_feats := None; v_hdr := false;
                                v_json := [ex_src 0 true true]; v_cbor := []; v_csv := []; v_stdin := None |})
     = [101;32;88;49].   (* "e X1" *)
Proof. vm_compute. repeat split; reflexivity. Qed.

Example C18_example_compile :
  compile_cddl false FMissing = {| c_conformant := false; c_fail := false |}
  /\ compile_cddl true FMissing = {| c_conformant := false; c_fail := true |}
  /\ compile_cddl false FNoParse = {| c_conformant := false; c_fail := true |}
  /\ compile_cddl true FParses = {| c_conformant := true; c_fail := false |}.
Proof. vm_compute. repeat split; reflexivity. Qed.
