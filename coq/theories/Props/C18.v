(* C18 - the command-line tool reports exactly what the library decides.
   Only statements closed by [exact]; the model is Cli/Cli.v (decision logic of src/bin/cli.rs),
   the proofs are in Cli/CliProofs.v.  [lib : call -> bool] is the library (universally
   quantified: the theorems hold for whatever the validators decide); [dv] selects the code as
   it stands ([as_in_repo]) or after design.d/C18-fix-features.patch ([repaired]). *)
From Coq Require Import List NArith Bool.
From Cddl Require Import Cli.Cli Cli.CliProofs.
Import ListNotations.
Open Scope N_scope.

(* FULL STATEMENT (report_iff_lib).  For the code as it stands it reads

     forall lib a pre x post,
       v_schema a = SOk -> todo a = pre ++ x :: post -> reaches as_in_repo lib a pre = true ->
       usable x = true ->
       (In (x, OSucc) (r_reports (validate as_in_repo lib a)) <-> expected lib a x = true)

   ("a document that is processed is reported successful exactly when the library call of its
   route, with the same --features, succeeds") and is FALSE: see C18_report_iff_lib_refuted_cbor
   and C18_report_iff_lib_refuted_stdin_json.  It is a theorem of the repaired code: *)
Theorem C18_report_iff_lib_repaired : forall lib a pre x post,
  v_schema a = SOk -> todo a = pre ++ x :: post -> reaches repaired lib a pre = true -> usable x = true ->
  (In (x, OSucc) (r_reports (validate repaired lib a)) <-> expected lib a x = true).
Proof. exact report_iff_lib_repaired. Qed.

(* and of any version of the code on every document outside the two findings' classifiers
   (routes --json, --csv, stdin-CBOR always; --cbor and stdin-JSON when no --features is given or
   the verdict does not depend on them) *)
Theorem C18_report_iff_lib_partial : forall dv lib a pre x post,
  v_schema a = SOk -> todo a = pre ++ x :: post -> reaches dv lib a pre = true -> usable x = true ->
  respects_features dv lib a x = true ->
  (In (x, OSucc) (r_reports (validate dv lib a)) <-> expected lib a x = true).
Proof. exact report_iff_lib_partial. Qed.

(* a success report is never wrong, whether or not processing was cut short *)
Theorem C18_report_sound : forall dv lib a x,
  In (x, OSucc) (r_reports (validate dv lib a)) -> respects_features dv lib a x = true ->
  In x (todo a) /\ usable x = true /\ expected lib a x = true.
Proof. exact report_sound. Qed.

Theorem C18_report_iff_lib_refuted_cbor : exists lib a x,
  v_schema a = SOk /\ todo a = [] ++ x :: [] /\ reaches as_in_repo lib a [] = true /\ usable x = true /\
  it_route x = RCbor /\
  In (x, OSucc) (r_reports (validate as_in_repo lib a)) /\ expected lib a x = false.
Proof. exact report_iff_lib_refuted_cbor. Qed.

Theorem C18_report_iff_lib_refuted_stdin_json : exists lib a x,
  v_schema a = SOk /\ todo a = [] ++ x :: [] /\ reaches as_in_repo lib a [] = true /\ usable x = true /\
  it_route x = RStdin /\ s_utf8 (it_src x) = true /\
  In (x, OSucc) (r_reports (validate as_in_repo lib a)) /\ expected lib a x = false.
Proof. exact report_iff_lib_refuted_stdin_json. Qed.

(* no document is skipped, reordered or reported twice: the reports are those of a prefix of the
   work list json* ++ cbor* ++ csv* ++ stdin, each with its own outcome *)
Theorem C18_reports_prefix : forall dv lib a, exists k,
  r_reports (validate dv lib a) = map (fun x => (x, step dv lib a x)) (firstn k (todo a)).
Proof. exact reports_prefix. Qed.

(* without --ci a failing or missing document does not mask later ones *)
Theorem C18_noci_all_reported : forall dv lib a, v_ci a = false -> v_schema a = SOk ->
  (forall x, In x (todo a) -> step dv lib a x <> OIoErr) ->
  r_reports (validate dv lib a) = map (fun x => (x, step dv lib a x)) (todo a).
Proof. exact noci_all_reported. Qed.

(* with --ci processing stops at (and reports) the first document that is not successful *)
Theorem C18_ci_stops_at_first_failure : forall dv lib a pre x post, v_ci a = true -> v_schema a = SOk ->
  todo a = pre ++ x :: post -> (forall y, In y pre -> step dv lib a y = OSucc) -> step dv lib a x <> OSucc ->
  r_reports (validate dv lib a) = map (fun y => (y, step dv lib a y)) pre ++ [(x, step dv lib a x)]
  /\ r_fail (validate dv lib a) = true.
Proof. exact ci_stops_at_first_failure. Qed.

(* FULL STATEMENT (ci_exit_iff): with --ci the exit status is non-zero exactly when the schema does
   not compile, or some document is missing / unreadable, or the library (same features) rejects it.
   For the code as it stands:

     forall lib a, v_ci a = true ->
       (r_fail (validate as_in_repo lib a) = true <->
        v_schema a <> SOk \/ exists x, In x (todo a) /\ (usable x = false \/ expected lib a x = false))

   is FALSE (C18_ci_exit_iff_refuted); it holds for the repaired code, *)
Theorem C18_ci_exit_iff_repaired : forall lib a, v_ci a = true ->
  (r_fail (validate repaired lib a) = true <->
   v_schema a <> SOk \/ exists x, In x (todo a) /\ (usable x = false \/ expected lib a x = false)).
Proof. exact ci_exit_iff_repaired. Qed.

(* for any version on invocations outside the classifiers, *)
Theorem C18_ci_exit_iff_partial : forall dv lib a, v_ci a = true ->
  (forall x, In x (todo a) -> respects_features dv lib a x = true) ->
  (r_fail (validate dv lib a) = true <->
   v_schema a <> SOk \/ exists x, In x (todo a) /\ (usable x = false \/ expected lib a x = false)).
Proof. exact ci_exit_iff_partial. Qed.

(* and unconditionally with respect to the calls the tool actually makes *)
Theorem C18_ci_exit_iff_made : forall dv lib a, v_ci a = true ->
  (r_fail (validate dv lib a) = true <->
   v_schema a <> SOk \/ exists x, In x (todo a) /\ step dv lib a x <> OSucc).
Proof. exact ci_exit_iff_made. Qed.

Theorem C18_ci_exit_iff_refuted : exists lib a x,
  v_ci a = true /\ v_schema a = SOk /\ In x (todo a) /\ usable x = true /\ expected lib a x = false /\
  r_fail (validate as_in_repo lib a) = false.
Proof. exact ci_exit_iff_refuted. Qed.

(* without --ci the exit status is non-zero only for an unreadable / non-compiling schema or an
   unreadable document (the `?` operators); failing and missing documents leave it at zero *)
Theorem C18_noci_exit_iff : forall dv lib a, v_ci a = false ->
  (r_fail (validate dv lib a) = true <->
   In (v_schema a) [SUnreadable; SNoParse; SNoRoot] \/
   (v_schema a = SOk /\ exists x, In x (todo a) /\ step dv lib a x = OIoErr)).
Proof. exact noci_exit_iff. Qed.

(* compile-cddl: "<file> is conformant" with exit status zero exactly when the parser accepts *)
Theorem C18_compile_iff_parse : forall ci f,
  (c_conformant (compile_cddl ci f) = true /\ c_fail (compile_cddl ci f) = false) <-> f = FParses.
Proof. exact compile_iff_parse. Qed.

(* the exit status alone decides it, except for a missing file without --ci (exit 0, by design of --ci) *)
Theorem C18_compile_exit_iff_parse : forall ci f, ci = true \/ f <> FMissing ->
  (c_fail (compile_cddl ci f) = false <-> f = FParses).
Proof. exact compile_exit_iff_parse. Qed.

(* ---------- non-vacuity ---------- *)

(* cddl validate -d s --features fx --csv-header -j ok -j missing -j bad -c dropped --csv c --stdin(CBOR):
   every route is exercised, all premises of C18_report_iff_lib_partial hold for the csv document *)
Definition ex_lib (c : call) : bool :=
  match c with
  | CallJson 0 (Some _) => true
  | CallJson 2 _ => false
  | CallCbor 3 None => true
  | CallCsv 4 (Some true) (Some _) => true
  | CallCbor 5 (Some _) => true
  | _ => false
  end.
Definition ex_src (i : N) (e u : bool) : src := {| s_id := i; s_exists := e; s_isfile := e; s_utf8 := u |}.
Definition ex_args (ci : bool) : vargs :=
  {| v_ci := ci; v_schema := SOk; v_feats := Some [1]; v_hdr := true;
     v_json := [ex_src 0 true true; ex_src 1 false true; ex_src 2 true true];
     v_cbor := [ex_src 3 true false]; v_csv := [ex_src 4 true true]; v_stdin := Some (ex_src 5 true false) |}.

Example C18_example_noci :
  render (validate as_in_repo ex_lib (ex_args false))
  = [45;32; 106;48;43;32; 106;49;63;32; 106;50;45;32; 99;48;43;32; 115;48;43;32; 105;48;43;32; 88;48]
    (* "- j0+ j1? j2- c0+ s0+ i0+ X0" *)
  /\ render (validate repaired ex_lib (ex_args false))
  = [45;32; 106;48;43;32; 106;49;63;32; 106;50;45;32; 99;48;45;32; 115;48;43;32; 105;48;43;32; 88;48].
    (* "- j0+ j1? j2- c0- s0+ i0+ X0" *)
Proof. vm_compute. split; reflexivity. Qed.

Example C18_example_ci :
  render (validate as_in_repo ex_lib (ex_args true)) = [45;32; 106;48;43;32; 106;49;63;32; 88;49].
    (* "- j0+ j1? X1" *)
Proof. vm_compute. reflexivity. Qed.

Example C18_example_partial_premises :
  let a := ex_args false in
  let x := (RCsv, 0, ex_src 4 true true) in
  v_schema a = SOk /\ todo a = firstn 4 (todo a) ++ x :: skipn 5 (todo a)
  /\ reaches as_in_repo ex_lib a (firstn 4 (todo a)) = true /\ usable x = true
  /\ respects_features as_in_repo ex_lib a x = true /\ expected ex_lib a x = true.
Proof. vm_compute. repeat split; reflexivity. Qed.

Example C18_example_compile :
  compile_cddl false FMissing = {| c_conformant := false; c_fail := false |}
  /\ compile_cddl true FMissing = {| c_conformant := false; c_fail := true |}
  /\ compile_cddl false FNoParse = {| c_conformant := false; c_fail := true |}
  /\ compile_cddl true FParses = {| c_conformant := true; c_fail := false |}.
Proof. vm_compute. repeat split; reflexivity. Qed.
