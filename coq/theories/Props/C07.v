(* C07 - literals denote exactly the value RFC 8610 / 9682 / 4648 assign to them, or the document is rejected.
   Only statements closed by [exact]; models in Lit/{IntLit,TextLit,BytesLit,FloatLit}.v, the token grammar of
   cddl.pest in Lit/Grammar.v, the specification in Lit/Spec.v, proofs in Lit/*Proofs.v.
   "X_spelling s = true" is "the token grammar admits s as an X" (validated against the real pest parser on every
   run).  Option-valued on both sides: None on the left is a parse error, None on the right is "no RFC value". *)
From Cddl Require Import Base.Bytes Lit.IntLit Lit.Grammar Lit.TextLit Lit.BytesLit Lit.FloatLit Lit.Spec Lit.Render
  Lit.IntProofs Lit.TextProofs Lit.BytesProofs Lit.FloatProofs.
Open Scope N_scope.

(* ---- integers: decimal, 0x, 0b, case mixes; value or rejection at 2^64 / below -2^63 ---- *)
Theorem C07_uint_lit_ok : forall s, uint_spelling s = true -> parse_u64_lit s = uint_lit s.
Proof. exact uint_lit_ok. Qed.

(* the usize reader used for type positions, member keys, range bounds, control arguments, occurrence bounds *)
Theorem C07_uint_usize_ok : forall s, uint_spelling s = true -> parse_uint_lit s = uint_lit s.
Proof. exact uint_usize_ok. Qed.

Theorem C07_int_lit_ok : forall s, int_spelling s = true -> parse_int_lit s = int_lit s.
Proof. exact int_lit_ok. Qed.

(* ---- occurrence indicators: the string surgery of convert_occurrence yields the RFC bounds ---- *)
Theorem C07_occur_ok : forall s, occur_spelling s = true -> omap occur_sem (occur_model s) = occur_value s.
Proof. exact occur_ok. Qed.

(* ---- tag numbers, major types, simple values ---- *)
Theorem C07_tag_ok : forall s, tag_spelling s = true -> omap tag_sem (convert_tag_head s) = tag_value s.
Proof. exact tag_ok. Qed.

(* ---- text: every admitted text literal is stored with exactly its RFC 9682 value, and rejected exactly when it has
   none (lone / reversed surrogate escape, \u{...} that is not a Unicode scalar value); full since 51d94c0 ---- *)
Theorem C07_text_ok : forall tok, text_spelling tok = true -> text_value_model tok = text_lit tok.
Proof. exact text_ok. Qed.

(* the specification assigns values only to spellings the token grammar admits *)
Theorem C07_text_lit_grammar : forall tok v, text_lit tok = Some v -> text_spelling tok = true.
Proof. exact text_lit_grammar. Qed.

(* ---- h'...' : whitespace / comment removal + base16, on every admitted spelling (full since 320d006) ---- *)
Theorem C07_b16_ok : forall tok, bytes_b16_spelling tok = true -> bytes_b16_model tok = b16_lit tok.
Proof. exact b16_ok. Qed.

Theorem C07_hex_decode_base16 : forall s, hex_decode s = base16 s.
Proof. exact hex_decode_base16. Qed.

(* ---- b64'...' : either alphabet, optional canonical padding only at the end (full since 320d006, 951a310) ---- *)
Theorem C07_b64_ok : forall tok, bytes_b64_spelling tok = true -> bytes_b64_model tok = b64_lit tok.
Proof. exact b64_ok. Qed.

(* alphabet detection + padding-position check + choice among the four data_encoding decoders = RFC 4648 under
   either alphabet, on every input *)
Theorem C07_base64_decode_either : forall s, base64_decode s = base64_either s.
Proof. exact base64_decode_either. Qed.

(* decoding inverts the RFC 4648 encoding: the crate's decoder on every unpadded base64url encoding (the form the
   printer emits; used by C06), and the specification's groups on the encodings of both alphabets *)
Theorem C07_b64_roundtrip : forall bs, wf_bytes bs -> base64_decode (base64_encode BASE64URL bs) = Some bs.
Proof. exact b64_roundtrip. Qed.

Theorem C07_spec_b64_decodes_encodings : forall bs, wf_bytes bs ->
  base64_groups BASE64 (base64_encode BASE64 bs) = Some bs
  /\ base64_groups BASE64URL (base64_encode BASE64URL bs) = Some bs.
Proof. exact spec_b64_decodes_encodings. Qed.

(* ---- '...' ----
   FULL STATEMENT (false, see C07_bytes_utf8_ok_refuted):
     forall tok, bytes_utf8_spelling tok = true -> Some (bytes_utf8_chars tok) = bytes_text_lit tok.
   Excluded class: Render.has_backslash. *)
Theorem C07_bytes_utf8_ok_partial : forall tok, bytes_utf8_spelling tok = true ->
  has_backslash (bytes_utf8_chars tok) = false -> Some (bytes_utf8_chars tok) = bytes_text_lit tok.
Proof. exact bytes_utf8_ok_partial. Qed.

Theorem C07_bytes_utf8_ok_refuted : exists tok,
  bytes_utf8_spelling tok = true /\ bytes_text_lit tok = Some [97; 92; 98] /\ bytes_utf8_chars tok = [97; 92; 92; 98].
Proof. exact bytes_utf8_ok_refuted. Qed.

(* ---- floats: finite or rejected (correct rounding itself is tied differentially, not proved); full since 4743917 ----
   a float literal is rejected exactly when its magnitude is >= 2^1024 - 2^970 (where round-to-nearest-even gives
   an infinity), stored as a finite value otherwise; an infinity is never stored *)
Theorem C07_float_overflow_decided : forall m e, overflows_exec m e = true <-> magnitude_overflows m e.
Proof. exact overflows_exec_spec. Qed.

Theorem C07_float_finite_or_rejected : forall s f, split_float s = Some f ->
  (magnitude_overflows (df_mantissa f) (df_exp10 f) -> float_model_class s = None)
  /\ (~ magnitude_overflows (df_mantissa f) (df_exp10 f) -> float_model_class s = Some FFinite).
Proof. exact float_finite_or_rejected. Qed.

Theorem C07_float_never_infinite : forall s, float_model_class s <> Some FInfinite.
Proof. exact float_never_infinite. Qed.

(* ---- non-vacuity: the hypotheses are satisfiable by non-trivial inputs ---- *)
Example C07_example_int :          (* 0XfF = 255; 2^64 is rejected although its value is defined; -0x8000000000000000 *)
  uint_spelling [48; 88; 102; 70] = true /\ parse_u64_lit [48; 88; 102; 70] = Some 255
  /\ uint_spelling [49;56;52;52;54;55;52;52;48;55;51;55;48;57;53;53;49;54;49;54] = true
  /\ parse_u64_lit [49;56;52;52;54;55;52;52;48;55;51;55;48;57;53;53;49;54;49;54] = None
  /\ int_spelling [45;48;120;56;48;48;48;48;48;48;48;48;48;48;48;48;48;48;48] = true
  /\ parse_int_lit [45;48;120;56;48;48;48;48;48;48;48;48;48;48;48;48;48;48;48] = Some (- 2 ^ 63)%Z.
Proof. vm_compute. repeat split; reflexivity. Qed.

Example C07_example_occur_tag :    (* 0x3*0b101 ; *5 ; 5* ; #6.0x20 *)
  occur_spelling [48;120;51;42;48;98;49;48;49] = true
  /\ occur_model [48;120;51;42;48;98;49;48;49] = Some (OExact (Some 3) (Some 5))
  /\ occur_model [42; 53] = Some (OExact None (Some 5)) /\ occur_model [53; 42] = Some (OExact (Some 5) None)
  /\ tag_spelling [35;54;46;48;120;50;48] = true /\ convert_tag_head [35;54;46;48;120;50;48] = Some (TTagged (Some 32)).
Proof. vm_compute. repeat split; reflexivity. Qed.

Example C07_example_text :         (* a, A, a surrogate pair, \u{1F073}, \n are stored; the escape in the second literal
                                      (a lone surrogate, kf-c07-text-escape-dropped, fixed) makes it a parse error *)
  text_value_model [34; 97; 92;117;48;48;52;49; 92;117;68;56;51;67; 92;117;68;67;55;51; 92;117;123;49;70;48;55;51;125; 92;110; 34]
  = Some [97; 65; 127091; 127091; 10]
  /\ text_spelling [34; 92; 117; 100; 56; 48; 48; 34] = true /\ text_value_model [34; 92; 117; 100; 56; 48; 48; 34] = None
  /\ text_value_model [34; 92; 117; 68; 56; 48; 48; 92; 117; 48; 48; 52; 49; 34] = None
  /\ text_value_model [34; 92; 117; 123; 49; 49; 48; 48; 48; 48; 125; 34] = None.
Proof. vm_compute. repeat split; reflexivity. Qed.

Example C07_example_bytes :        (* h'0a ;c<LF> fF' ; b64 with base64url alphabet, a comment and padding ; mixed alphabets *)
  bytes_b16_spelling [104;39;48;97;32;59;99;10;32;102;70;39] = true
  /\ b16_lit [104;39;48;97;32;59;99;10;32;102;70;39] = Some [10; 255]
  /\ b64_lit [98;54;52;39; 45;95;56;32;59;99;10;32;61; 39] = Some [251; 255]
  /\ b64_lit [98;54;52;39; 43;47;56;61; 39] = Some [251; 255]
  /\ b64_lit [98;54;52;39; 43;95;56;61; 39] = None
  /\ bytes_b16_model [104; 39; 49; 50; 160; 51; 52; 39] = None                       (* h'12<U+00A0>34' *)
  /\ bytes_b64_model [98; 54; 52; 39; 89; 81; 61; 61; 89; 81; 61; 61; 39] = None     (* b64'YQ==YQ==' *)
  /\ float_spelling [49; 101; 57; 57; 57] = true /\ float_model_class [49; 101; 57; 57; 57] = None.   (* 1e999 *)
Proof. vm_compute. repeat split; reflexivity. Qed.
