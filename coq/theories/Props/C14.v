(* C14 - validation failures are reported faithfully and deterministically.
   Only statements closed by [exact]; models in Err/Loc.v, Err/Discipline.v, Err/Walk.v, Err/Kinds.v,
   table in Generated/ErrorKinds.v (translated from the code on every run), proofs in Err/ErrProofs.v. *)
From Coq Require Import List NArith Bool.
From Coq Require String.
From Cddl Require Import Err.Loc Err.Discipline Err.Walk Err.Kinds Generated.ErrorKinds Err.ErrProofs.
Import ListNotations.
Open Scope N_scope.

(* ---- result construction ------------------------------------------------ *)

(* Ok exactly when no error was recorded *)
Theorem C14_result_ok_iff_no_errors : forall (E : Type) (errs : list E), finish errs = ROk <-> errs = [].
Proof. exact finish_ok_iff. Qed.

(* Err(Validation(l)) only with a non-empty l, and l is the recorded list, in order *)
Theorem C14_err_list_nonempty : forall (E : Type) (errs l : list E),
  finish errs = RErrValidation l -> l <> [] /\ l = errs.
Proof. exact finish_err. Qed.

(* ---- speculation: checkpoint / truncate --------------------------------- *)

(* if some alternative records nothing, the list is exactly what it was before the choice *)
Theorem C14_choice_success : forall (E : Type) (alts : list (@visit E)) (errs : list E),
  Forall appender alts -> existsb succeeds alts = true -> choice alts errs = errs.
Proof. exact (@choice_success). Qed.

(* if every alternative fails, the list is extended by all their reports in order (nothing dropped, nothing reordered) *)
Theorem C14_choice_failure : forall (E : Type) (alts : list (@visit E)) (errs : list E),
  Forall appender alts -> existsb succeeds alts = false ->
  choice alts errs = errs ++ concat (map (fun f => f []) alts).
Proof. exact (@choice_failure). Qed.

Theorem C14_alt_no_leak : forall a b cur l errs,
  run a cur l [] = [] \/ run b cur l [] = [] -> run (WAlt a b) cur l errs = errs.
Proof. exact alt_no_leak. Qed.

Theorem C14_alt_all_fail : forall a b cur l errs,
  run a cur l [] <> [] -> run b cur l [] <> [] ->
  run (WAlt a b) cur l errs = errs ++ run a cur l [] ++ run b cur l [].
Proof. exact alt_all_fail. Qed.

(* ---- locations ------------------------------------------------------------ *)

(* reading back the rendering of a location gives its segments, when no key contains '/' *)
Theorem C14_render_split : forall l, no_slash l = true -> split (render l) = Some (map seg_text l).
Proof. exact render_split. Qed.

(* full statement (false): forall l, split (render l) = Some (map seg_text l).
   A key containing '/' is cut in two, and two different locations have the same rendering. *)
Theorem C14_render_split_refuted :
  exists l, split (render l) <> Some (map seg_text l) /\
  exists l', l <> l' /\ render l = render l'.
Proof. exact render_split_refuted. Qed.

Theorem C14_resolves_prefix : forall d a b, resolves d (a ++ b) = true -> resolves d a = true.
Proof. exact resolves_prefix. Qed.

Theorem C14_resolves_string_render : forall d l,
  no_slash l = true -> resolves d l = true -> resolves_string d (render l) = true.
Proof. exact resolves_string_render. Qed.

(* the tolerant reading (a key may span several pieces) is met by every location of an existing node *)
Theorem C14_resolves_amb_render : forall d l, resolves d l = true -> resolves_amb d (render l) = true.
Proof. exact resolves_amb_render. Qed.

(* every location recorded during the descent names a node of the validated document *)
Theorem C14_loc_invariant : forall w doc es,
  validate w doc = RErrValidation es ->
  Forall (fun e : entry => resolves doc (fst e) = true) es.
Proof. exact loc_invariant. Qed.

(* full statement (false): forall w doc es, validate w doc = RErrValidation es ->
     Forall (fun e => resolves_string doc (render (fst e)) = true) es.
   _partial: the schema's member keys contain no '/';  _refuted: the witness {"x/y": 1}. *)
Theorem C14_loc_invariant_string_partial : forall w doc es,
  walk_no_slash w = true ->
  validate w doc = RErrValidation es ->
  Forall (fun e : entry => resolves_string doc (render (fst e)) = true) es.
Proof. exact loc_invariant_string. Qed.

Theorem C14_loc_invariant_string_refuted :
  exists w doc es, validate w doc = RErrValidation es /\
  exists e, In e es /\ resolves_string doc (render (fst e)) = false.
Proof. exact loc_invariant_string_refuted. Qed.

Theorem C14_loc_invariant_amb : forall w doc es,
  validate w doc = RErrValidation es ->
  Forall (fun e : entry => resolves_amb doc (render (fst e)) = true) es.
Proof. exact loc_invariant_amb. Qed.

(* ---- determinism (trivial in a pure model; the code is only run) ----------- *)
Theorem C14_model_deterministic : forall w doc r1 r2, validate w doc = r1 -> validate w doc = r2 -> r1 = r2.
Proof. exact validate_deterministic. Qed.

(* ---- error kinds (table translated from src/validator/mod.rs) -------------- *)

(* a malformed schema, a malformed document and a non-conforming document are reported through pairwise different
   constructors, for validate_json_from_str and for validate_cbor_from_slice (full strength since the repair of
   kf-c14-cbor-docparse-as-cddlparsing; before it cbor_kind DocParse = cbor_kind SchemaParse = "CDDLParsing") *)
Theorem C14_kinds_distinct : kinds_distinct json_kind = true /\ kinds_distinct cbor_kind = true.
Proof. exact kinds_distinct_both. Qed.

Theorem C14_kinds_not_confused : forall c, confused_with json_kind c = [] /\ confused_with cbor_kind c = [].
Proof. exact kinds_not_confused. Qed.

Theorem C14_kinds_are_variants :
  forallb (fun c => existsb (String.eqb (json_kind c)) json_variants) all_classes = true /\
  forallb (fun c => existsb (String.eqb (cbor_kind c)) cbor_variants) all_classes = true.
Proof. exact kinds_are_variants. Qed.

(* ---- non-vacuity ------------------------------------------------------------ *)

(* document {"a": [null, {"b": true}], "x/y": 1}; schema trace: a -> element 1 -> (member b: error 7 | member c: absent),
   then member "x/y": error 9 *)
Definition ex_doc : json :=
  JObj [([97], JArr [JNull; JObj [([98], JBool true)]]); ([120; 47; 121], JNum)].
Definition ex_walk : walk :=
  WSeq (WKey [97] (WIdx 1 (WAlt (WKey [98] (WEmit 7)) (WKey [99] WSkip))))
       (WKey [120; 47; 121] (WEmit 9)).

Example C14_example_validate :
  validate ex_walk ex_doc =
  RErrValidation [([SKey [97]; SIdx 1; SKey [98]], 7); ([SKey [97]; SIdx 1], 0); ([SKey [120; 47; 121]], 9)].
Proof. vm_compute. reflexivity. Qed.

Example C14_example_render : render [SKey [97]; SIdx 1; SKey [98]] = [47; 97; 47; 49; 47; 98].
Proof. vm_compute. reflexivity. Qed.

Example C14_example_resolves :
  check_render ex_doc [47; 97; 47; 49; 47; 98] = [49; 49] /\     (* "/a/1/b" resolves *)
  check_render ex_doc [47; 97; 47; 50] = [48; 48] /\             (* "/a/2" does not *)
  check_render ex_doc [47; 97; 47; 48; 49] = [48; 48] /\         (* "/a/01" is not an index *)
  check_render ex_doc [47; 120; 47; 121] = [48; 49] /\           (* "/x/y": only the tolerant reading *)
  check_render ex_doc [] = [49; 49] /\                           (* root *)
  check_render ex_doc [97] = [48; 48].                           (* no leading '/' *)
Proof. vm_compute. repeat split; reflexivity. Qed.

(* a successful second alternative erases the first one's report *)
Example C14_example_no_leak :
  validate (WAlt (WKey [122] WSkip) (WKey [97] WSkip)) ex_doc = ROk.
Proof. vm_compute. reflexivity. Qed.
